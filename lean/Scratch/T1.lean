import PyGqlModel.Props.C20_rules_values
namespace PyGql.Props.C20
open PyGql PyGql.Differ PyGql.Diff PyGql.Validate PyGql.Validate.Spec

theorem isSubtype_eq_sub (s : SchemaD) : ∀ (t u : Ty), isAbstract s u.base = false → isSubtype s t u = sub t u := by
  intro t
  induction t with
  | named a =>
    intro u hab
    cases u with
    | named b =>
      have hab' : isAbstract s b = false := hab
      rw [isSubtype]
      by_cases e : a = b
      · subst e; simp [sub]
      · have : (Ty.named a == Ty.named b) = false := by simp [e]
        simp [this, sub, e, hab']
    | list b =>
      rw [isSubtype]
      · simp [sub]
      all_goals (intro _ hh; cases hh)
    | nonNull b =>
      rw [isSubtype]
      · simp [sub]
      all_goals (intro _ hh; cases hh)
  | list i ih =>
    intro u hab
    cases u with
    | named b =>
      rw [isSubtype]
      · simp [sub]
      all_goals (intro _ hh; cases hh)
    | list j =>
      rw [isSubtype]
      by_cases e : i = j
      · subst e; simp [sub_refl']
      · have : (Ty.list i == Ty.list j) = false := by simp [e]
        simp [this, sub, ih j hab]
    | nonNull b =>
      rw [isSubtype]
      · simp [sub]
      all_goals (intro _ hh; cases hh)
  | nonNull a ih =>
    intro u hab
    cases u with
    | named b =>
      rw [isSubtype]
      · simp [sub, ih (.named b) hab]
      all_goals (intro _ hh; cases hh)
    | list j =>
      rw [isSubtype]
      · simp [sub, ih (.list j) hab]
      all_goals (intro _ hh; cases hh)
    | nonNull b =>
      rw [isSubtype]
      by_cases e : a = b
      · subst e; simp [sub_refl']
      · have : (Ty.nonNull a == Ty.nonNull b) = false := by simp [e]
        simp [this, sub, ih b hab]
end PyGql.Props.C20

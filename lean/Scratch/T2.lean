import PyGqlModel.Diff
open PyGql PyGql.Diff
example : (J.null).render = (J.null).render := by decide
example : ((J.null).render != (J.null).render) = false := by decide

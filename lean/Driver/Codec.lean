import PyGqlModel.Json
import PyGqlModel.Ty
open PyGql

namespace Driver

partial def tyOfJson (j : J) : Ty :=
  match j.strD "k" with
  | "list" => .list (tyOfJson (j.getD "t"))
  | "nonNull" => .nonNull (tyOfJson (j.getD "t"))
  | _ => .named (j.strD "n")

def tyToJson : Ty → J
  | .named n => .obj [("k", .str "named"), ("n", .str n)]
  | .list t => .obj [("k", .str "list"), ("t", tyToJson t)]
  | .nonNull t => .obj [("k", .str "nonNull"), ("t", tyToJson t)]

end Driver

import PyGqlModel.Json
import PyGqlModel.Ty
import PyGqlModel.Token
import PyGqlModel.SchemaDesc
open PyGql

namespace Driver

partial def tyOfJson (j : J) : Ty :=
  match j.strD "k" with
  | "list" => .list (tyOfJson (j.getD "t"))
  | "nonNull" => .nonNull (tyOfJson (j.getD "t"))
  | _ => .named (j.strD "n")

def tyToJson : Ty → J
  | .named n => .obj [("k", .str "named"), ("n", .str n)]
  | .list t => .obj [("k", .str "list"), ("t", tyToJson t)]
  | .nonNull t => .obj [("k", .str "nonNull"), ("t", tyToJson t)]


/-- `{"k": "Name", "s": 0, "e": 3, "v": [102,111,111]}` -/
def tokOfJson (j : J) : Option Tok := do
  let k ← TokKind.ofPyName (j.strD "k")
  pure { kind := k, start := j.natD "s", stop := j.natD "e", value := j.textD "v" }

def tokToJson (t : Tok) : J :=
  .obj [("k", .str t.kind.pyName), ("s", J.ofNat t.start), ("e", J.ofNat t.stop), ("v", J.ofText t.value)]


/-! ### schema descriptions (format of harness/canon_schema.py) -/

def optStr (j : J) (k : String) : Option String := (j.get? k).bind J.asStr?
def strList (j : J) (k : String) : List String := (j.arrD k).filterMap J.asStr?
def ofOptStr : Option String → J | some s => .str s | none => .null

def paramOfJson (j : J) : ParamD :=
  { name := j.strD "name", kind := ParamKind.ofString (j.strD "kind"), hasDefault := j.boolD "has_default" }

/-- optional key: absent / null = no resolver -/
def resolverOfJson? (j : J) (k : String) : Option ResolverD :=
  match j.get? k with
  | some (.obj kvs) =>
    let r : J := .obj kvs
    some { callable := !(r.boolD "not_callable"), inspectable := !(r.boolD "uninspectable"), params := (r.arrD "params").map paramOfJson }
  | _ => none

def paramToJson (p : ParamD) : J :=
  .obj [("name", .str p.name), ("kind", .str p.kind.toString), ("has_default", .bool p.hasDefault)]

def resolverToJson : Option ResolverD → J
  | none => .null
  | some r => .obj [("uninspectable", .bool (!r.inspectable)), ("params", .arr (r.params.map paramToJson))]

def argOfJson (j : J) : ArgD :=
  { name := j.strD "name", type := tyOfJson (j.getD "type"), hasDefault := j.boolD "has_default",
    default := j.getD "default_value", desc := optStr j "desc",
    pythonName := (optStr j "python_name").getD (j.strD "name") }

def fieldOfJson (j : J) : FieldD :=
  { name := j.strD "name", type := tyOfJson (j.getD "type"), args := (j.arrD "args").map argOfJson,
    deprecated := optStr j "deprecated", desc := optStr j "desc", resolver := resolverOfJson? j "resolver",
    subscriptionResolver := resolverOfJson? j "subscription_resolver" }

def enumValOfJson (j : J) : EnumValD :=
  { name := j.strD "name", value := j.getD "value", deprecated := optStr j "deprecated", desc := optStr j "desc" }

def typeOfJson (j : J) : TypeD :=
  { kind := (Kind.ofString (j.strD "kind")).getD .scalar, name := j.strD "name", desc := optStr j "desc",
    interfaces := strList j "interfaces", fields := (j.arrD "fields").map fieldOfJson,
    members := strList j "members", values := (j.arrD "values").map enumValOfJson,
    inputFields := (j.arrD "input_fields").map argOfJson,
    defaultResolver := resolverOfJson? j "default_resolver", builtin := j.boolD "builtin" }

def directiveOfJson (j : J) : DirectiveD :=
  { name := j.strD "name", locations := strList j "locations", args := (j.arrD "args").map argOfJson,
    desc := optStr j "desc" }

def schemaOfJson (j : J) : SchemaD :=
  { types := (j.arrD "types").map typeOfJson, directives := (j.arrD "directives").map directiveOfJson,
    query := optStr j "query", mutation := optStr j "mutation", subscription := optStr j "subscription",
    defaultResolver := resolverOfJson? j "default_resolver" }

def argToJson (a : ArgD) : J :=
  .obj [("name", .str a.name), ("type", tyToJson a.type), ("has_default", .bool a.hasDefault),
        ("default_value", a.default), ("desc", ofOptStr a.desc)]

def fieldToJson (f : FieldD) : J :=
  .obj [("name", .str f.name), ("type", tyToJson f.type), ("args", .arr (f.args.map argToJson)),
        ("deprecated", ofOptStr f.deprecated), ("desc", ofOptStr f.desc)]

def enumValToJson (v : EnumValD) : J :=
  .obj [("name", .str v.name), ("value", v.value), ("deprecated", ofOptStr v.deprecated), ("desc", ofOptStr v.desc)]

def typeToJson (t : TypeD) : J :=
  .obj [("kind", .str t.kind.toString), ("name", .str t.name), ("desc", ofOptStr t.desc),
        ("interfaces", J.ofStrs t.interfaces), ("fields", .arr (t.fields.map fieldToJson)),
        ("members", J.ofStrs t.members), ("values", .arr (t.values.map enumValToJson)),
        ("input_fields", .arr (t.inputFields.map argToJson))]

def directiveToJson (d : DirectiveD) : J :=
  .obj [("name", .str d.name), ("locations", J.ofStrs d.locations), ("args", .arr (d.args.map argToJson)),
        ("desc", ofOptStr d.desc)]

def schemaToJson (s : SchemaD) : J :=
  .obj [("types", .arr (s.types.map typeToJson)), ("directives", .arr (s.directives.map directiveToJson)),
        ("query", ofOptStr s.query), ("mutation", ofOptStr s.mutation), ("subscription", ofOptStr s.subscription)]

end Driver

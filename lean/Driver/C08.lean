import Driver.Loop
import Driver.AsyncExecOps

def main : IO Unit := Driver.run Driver.AsyncExecOps.handle

import Driver.Loop
import Driver.ExecOps
def main : IO Unit := Driver.run Driver.ExecOps.handle

import Driver.Loop
import Driver.Codec
import PyGqlModel.Lex
import PyGqlModel.ParseDoc
import PyGqlModel.Print
open PyGql PyGql.Parse PyGql.Ast

namespace Driver.PrintOps

/-- `{"w": <int>}` (number of spaces) or `{"s": [code points]}` (the indent string) -/
def indentOfJson (j : J) : Print.IndentArg :=
  match j.get? "s" with
  | some s => .str ((J.asText? s).getD [])
  | none => .width (j.intD "w" 4)

/-- the whole model pipeline: text → `lexAll` → parser entry point → printer -/
def printParse (entry : String) (fl : Flags) (c : Print.Cfg) (text : Text) : Except String Text :=
  match Lex.lexAll text with
  | .error _ => .error "lex"
  | .ok toks =>
    match entry with
    | "value" => match parseValue fl toks with
      | .ok v => .ok (Print.printValue c v)
      | .error _ => .error "parse"
    | "type" => match parseType fl toks with
      | .ok t => .ok (Print.printType t)
      | .error _ => .error "parse"
    | _ => match parseDocument fl toks with
      | .ok d => .ok (Print.printDocument c d)
      | .error _ => .error "parse"

/-- answer the request if its "op" belongs to the printer group.
    "print_parse": text → lex → parse → print;  "print_twice": also print(parse(print t)) (model-side stability) -/
def handle? (j : J) : Option J :=
  match j.strD "op" with
  | "print_parse" =>
    let fl : Flags := { noLocation := true, allowTypeSystem := j.boolD "ts", experimentalFragmentVariables := j.boolD "fv" }
    let c := Print.mkCfg (indentOfJson (j.getD "indent")) (j.boolD "desc" true)
    some <| match printParse (j.strD "entry") fl c (j.textD "text") with
    | .ok t => .obj [("ok", .bool true), ("text", J.ofText t)]
    | .error stage => .obj [("ok", .bool false), ("stage", .str stage)]
  | _ => none

end Driver.PrintOps

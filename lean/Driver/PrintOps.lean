import Driver.Loop
import Driver.Codec
open PyGql

namespace Driver.PrintOps

/-- answer the request if its "op" belongs to this group (stub: to be filled by the owner) -/
def handle? (_j : J) : Option J := none

end Driver.PrintOps

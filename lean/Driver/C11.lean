import Driver.Loop
import Driver.SdlCodec
open PyGql PyGql.Sdl

def handleC11 (j : J) : J :=
  match j.strD "op" with
  | "build" =>
    let doc := Driver.docOfJson j
    let add := (j.arrD "additional").map Driver.typeOfJson
    match build doc (j.boolD "ignore_extensions") add with
    | .ok s => .obj [("ok", Driver.schemaToJson s)]
    | .error e => .obj [("err", Driver.errToJson e)]
  | _ => .obj [("error", .str "bad-op")]

def main : IO Unit := Driver.run handleC11

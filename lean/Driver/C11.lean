import Driver.Loop
import Driver.SdlCodec
import PyGqlModel.SdlExtend
import PyGqlModel.SdlAdditional
import PyGqlModel.SdlInProgress
open PyGql PyGql.Sdl

def handleC11 (j : J) : J :=
  match j.strD "op" with
  | "build" =>
    let doc := Driver.docOfJson j
    let add := (j.arrD "additional").map Driver.typeOfJson
    match buildA doc (j.boolD "ignore_extensions") add with
    | .ok s => .obj [("ok", Driver.schemaToJson s)]
    | .error e => .obj [("err", Driver.errToJson e)]
  | "build_p" =>
    -- the same with the builder's real bookkeeping of types in progress (PyGqlModel/SdlInProgress.lean)
    let doc := Driver.docOfJson j
    let add := (j.arrD "additional").map Driver.typeOfJson
    match buildP doc (j.boolD "ignore_extensions") add with
    | .ok s => .obj [("ok", Driver.schemaToJson s)]
    | .error e => .obj [("err", Driver.errToJson e)]
  | "extend" =>
    -- extend_schema(build_schema(doc), ext, strict)
    let docA := Driver.docOfJson j
    let docB := (j.arrD "ext").map Driver.defOfJson
    match buildThenExtend docA docB (j.boolD "strict") with
    | .error e => .obj [("base", Driver.errToJson e)]
    | .ok (.ok s) => .obj [("ok", Driver.schemaToJson s)]
    | .ok (.error e) => .obj [("err", Driver.errToJson e)]
  | "collect_ext" =>
    -- _collect_extensions(build_schema(doc), ext, strict): accepted or not, and what is kept
    let docA := Driver.docOfJson j
    let docB := (j.arrD "ext").map Driver.defOfJson
    match build docA with
    | .error e => .obj [("base", Driver.errToJson e)]
    | .ok s =>
      let live : Live := { types := s.types, directives := s.directives, roots := ⟨s.query, s.mutation, s.subscription⟩ }
      match collectExtensions live docB (j.boolD "strict") with
      | .error e => .obj [("err", Driver.errToJson e)]
      | .ok c => .obj [("ok", .obj [("types", J.ofStrs (c.typeDefs.map (·.name))), ("directives", J.ofStrs (c.dirDefs.map (·.name))),
                                     ("exts", J.ofStrs (c.typeExts.map (·.name))), ("schema_exts", J.ofNat c.schemaExts.length)])]
  | _ => .obj [("error", .str "bad-op")]

def main : IO Unit := Driver.run handleC11

import Driver.Loop
import Driver.SdlCodec
import PyGqlModel.SdlPrint
import PyGqlModel.SdlText
import PyGqlModel.SdlAstToDoc
import PyGqlModel.SdlPrintTA
import PyGqlModel.ParseJson
open PyGql PyGql.Sdl PyGql.SdlPrint

def appsOfJson (j : J) : Apps :=
  (j.arrD "apps").filterMap fun e =>
    match e with
    | .arr [.str path, .arr apps] => some (path, apps.map Driver.dirAppOfJson)
    | _ => none

def handleC12 (j : J) : J :=
  match j.strD "op" with
  | "history" =>
    let st := if j.strD "state" == "generator" then initialGenerator else initialCollection
    let schemas := (j.arrD "schemas").map fun s =>
      let bj := s.getD "builtins"
      let b : Builtins := { specified := (Driver.schemaOfJson (.obj [("types", .arr []), ("directives", .arr (bj.arrD "specified"))])).directives,
                            introspection := (Driver.schemaOfJson (.obj [("types", .arr (bj.arrD "introspection")), ("directives", .arr [])])).types }
      (Driver.schemaOfJson (s.getD "schema"), appsOfJson s, b)
    let calls := (j.arrD "calls").map fun c =>
      let (s, a, b) := schemas.getD (c.natD "schema") (default, [], default)
      let wl : Option (List String) := match c.get? "whitelist" with | some (.arr a) => some (a.filterMap J.asStr?) | _ => none
      (({ indent := c.strD "indent", descriptions := c.boolD "descriptions", custom := c.boolD "custom", whitelist := wl } : Opts),
        c.boolD "introspection", b, s, a)
    .obj [("texts", .arr ((runHistoryX st calls).map .str))]
  | "printT" =>
    -- the second (total, Text-based) model of the printer, the first model on the same input, the lexical
    -- well-formedness predicate and the text-level statement `parse(printSchemaT s) = tree of the denoted document`
    let s := Driver.schemaOfJson (j.getD "schema")
    let ind := j.strD "indent"
    let o : SdlPrintT.OptsT := { indent := textOfString ind, descriptions := j.boolD "descriptions" }
    let t := SdlPrintT.printSchemaT o s
    let first := (printSchema { indent := ind, descriptions := j.boolD "descriptions" } s [] initialCollection).1
    let parses := match SdlText.parseSdlTextT t, SdlText.docToAst (SdlText.printedDoc s) with
      | some a, some b => a.toJson.render == b.toJson.render
      | _, _ => false
    -- `text_roundtrip_every_preimage` evaluated with Python's `repr(float(·))` (table `reprs`): `canon` = the printer's
    -- `f` components are `ρ v` on every printed default; `preimage` = the document the conversion `astToDoc ρ` makes of the
    -- PARSED tree builds what the printer's own document builds
    let ρ := SdlText.reprOfTable ((j.arrD "reprs").filterMap fun e => match e with | .arr [.str v, .str r] => some (v, r) | _ => none)
    let canon := SdlText.litsCanonWF ρ (SdlText.printOrder s)
    let preimage := if !(j.boolD "wantPre" && SdlText.printTextWF o s) then true else match SdlText.parseSdlTextT t with
      | some d => (match build (SdlText.astToDoc ρ d), build (SdlText.printedDoc s) with
          | .ok a, .ok b => a == b
          | .error _, .error _ => true
          | _, _ => false)
      | none => false
    -- `print_schema_text_parses_nodesc` evaluated (descriptions off): the text parses to the tree of the printed document of
    -- the schema WITHOUT its descriptions, whenever that schema satisfies `printTextWF` (descriptions on)
    let s0 := SdlText.stripSchema s
    let wfStrip := SdlText.printTextWF { o with descriptions := true } s0
    let parsesStrip := if o.descriptions then true else match SdlText.parseSdlTextT t, SdlText.docToAst (SdlText.printedDoc s0) with
      | some a, some b => a.toJson.render == b.toJson.render
      | _, _ => false
    .obj [("text", .str (stringOfText t)), ("same", .bool (stringOfText t == first)),
          ("wf", .bool (SdlText.printTextWF o s)), ("parses", .bool parses), ("canon", .bool canon), ("preimage", .bool preimage),
          ("wfStrip", .bool wfStrip), ("parsesStrip", .bool parsesStrip), ("preEvaluated", .bool (j.boolD "wantPre"))]
  | "printTA" =>
    -- the total Text model WITH applied schema directives (`include_custom_schema_directives` truthy / whitelist), the first
    -- model on the same input, `printTextWFA`, and the statement `parse(printSchemaTA s apps) = tree of printedDocA` evaluated
    let s := Driver.schemaOfJson (j.getD "schema")
    let apps := appsOfJson j
    let ind := j.strD "indent"
    let wl : Option (List String) := match j.get? "whitelist" with | some (.arr a) => some (a.filterMap J.asStr?) | _ => none
    let c : SdlPrintTA.OptsA := { base := { indent := textOfString ind, descriptions := j.boolD "descriptions" },
                                  custom := j.boolD "custom", whitelist := wl }
    let t := SdlPrintTA.printSchemaTA c s apps
    let first := (printSchema { indent := ind, descriptions := j.boolD "descriptions", custom := j.boolD "custom", whitelist := wl }
      s apps initialCollection).1
    let parses := match SdlText.parseSdlTextT t, SdlText.docToAst (SdlPrintTA.printedDocA s c apps) with
      | some a, some b => a.toJson.render == b.toJson.render
      | _, _ => false
    let erased := (SdlPrintTA.printedDocA s c apps).map SdlPrintTA.eraseCustom
    let blockOnly := SdlPrintTA.needsSchemaBlockA s c apps && !needsSchemaBlock s
    -- `BuildIgnoresCustomStatement` evaluated: building the denoted document and building its erasure agree
    let buildErased := match build (SdlPrintTA.printedDocA s c apps), build erased with
      | .ok a, .ok b => a == b
      | .error _, .error _ => true
      | _, _ => false
    .obj [("text", .str (stringOfText t)), ("same", .bool (stringOfText t == first)),
          ("wf", .bool (SdlPrintTA.printTextWFA c s apps)), ("parses", .bool parses),
          ("kept", .num (((SdlPrintTA.printedDocA s c apps).map (fun d => match d with
              | .type t => t.dirs.length + (t.fields.map (fun f => (f.dirs.filter (·.name != "deprecated")).length + (f.args.map (·.dirs.length)).sum)).sum
                  + (t.values.map (fun v => (v.dirs.filter (·.name != "deprecated")).length)).sum + (t.inputFields.map (·.dirs.length)).sum
              | .schema sd => sd.dirs.length
              | .directive d => (d.args.map (·.dirs.length)).sum
              | _ => 0)).sum : Nat)),
          ("blockOnly", .bool blockOnly), ("buildErased", .bool buildErased)]
  | "wrapDesc" =>
    -- `wrapped_description_lexes` evaluated: the wrapped lines of a description at an indentation width, the predicate
    -- `descWrapOK`, the value the theorem says the printed block string has, and the printed text lexed by the lexer model
    let d := j.strD "d"
    let depth := j.natD "depth"
    let ind := j.strD "indent"
    let o : SdlPrintT.OptsT := { indent := textOfString ind }
    let w := depth * o.indent.length
    let txt := SdlPrintT.printDescription o (some d) depth (j.boolD "first")
    let lexed : J := match Lex.lexAll txt with
      | .ok [_, tok, _] => if tok.kind == .blockString then J.ofText tok.value else .null
      | _ => .null
    .obj [("ok", .bool (SdlText.descWrapOK w d)), ("okNarrow", .bool (SdlText.descTextOK w d)),
          ("value", J.ofText (BlockString.joinLF (SdlText.wrappedOf w d))), ("lines", .num (SdlText.wrappedOf w d).length),
          ("fits", .bool ((SdlText.wrappedOf w d).all (fun l => l.length ≤ 120 - w))),
          ("lexed", lexed)]
  | _ => .obj [("error", .str "bad-op")]

def main : IO Unit := Driver.run handleC12

import Driver.Loop
import Driver.Codec
import PyGqlModel.Differ
open PyGql PyGql.Differ

def handleC20 (j : J) : J :=
  match j.strD "op" with
  | "safe" =>
    let o := Driver.tyOfJson (j.getD "old")
    let n := Driver.tyOfJson (j.getD "new")
    .obj [("in", .bool (safeIn o n)), ("out", .bool (safeOut o n)), ("sub", .bool (sub o n))]
  | "severity" =>
    .obj [("sev", J.ofOpt J.ofNat (severityOf (j.strD "cls") (j.boolD "required")))]
  | _ => .obj [("error", .str "bad-op")]

def main : IO Unit := Driver.run handleC20

import Driver.Loop
import Driver.Codec
import PyGqlModel.Differ
import PyGqlModel.Diff
open PyGql PyGql.Differ PyGql.Diff

def changeToJson (c : Change) : J :=
  .obj [("cls", .str c.cls), ("sev", J.ofNat c.severity),
        ("key", .arr (c.key.map fun (a, b) => .arr [.str a, .str b]))]

def handleC20 (j : J) : J :=
  match j.strD "op" with
  | "safe" =>
    let o := Driver.tyOfJson (j.getD "old")
    let n := Driver.tyOfJson (j.getD "new")
    .obj [("in", .bool (safeIn o n)), ("out", .bool (safeOut o n)), ("sub", .bool (sub o n))]
  | "severity" =>
    .obj [("sev", J.ofOpt J.ofNat (severityOf (j.strD "cls") (j.boolD "required")))]
  | "diff" =>
    let o := Driver.schemaOfJson (j.getD "old")
    let n := Driver.schemaOfJson (j.getD "new")
    .obj [("changes", .arr ((diffSchema o n (j.natD "min")).map changeToJson))]
  | _ => .obj [("error", .str "bad-op")]

def main : IO Unit := Driver.run handleC20

import PyGqlModel.Json
open PyGql

namespace Driver

partial def loop (h : IO.FS.Stream) (out : IO.FS.Stream) (handle : J → J) : IO Unit := do
  let line ← h.getLine
  if line.isEmpty then return ()
  let resp :=
    match J.parse line with
    | none => J.obj [("error", J.str "bad-json")]
    | some j => handle j
  out.putStrLn resp.render
  out.flush
  loop h out handle

def run (handle : J → J) : IO Unit := do
  let i ← IO.getStdin
  let o ← IO.getStdout
  loop i o handle

end Driver

import Driver.Loop
import Driver.Codec
import PyGqlModel.Coerce
import PyGqlModel.CoerceExec
import PyGqlModel.PyNum
open PyGql PyGql.Coerce

/-! Line-protocol driver of C07 (wire formats: harness/corr/C07_universe.py). -/

namespace C07Codec

def optInt (j : J) : Option Int := match j with | .num n => some n | _ => none



partial def pvOfWire : J → PV
  | .null => .none
  | .bool b => .bool b
  | .num n => .int n
  | .str s => .str s
  | .arr a => .list (a.map pvOfWire)
  | j@(.obj _) =>
    match j.get? "f" with
    | some (.str s) => .float (.text s)
    | _ => .dict ((j.arrD "d").map fun kv =>
        match kv with
        | .arr [.str k, v] => (k, pvOfWire v)
        | _ => ("", .none))

partial def pvToWire : PV → J
  | .none => .null
  | .bool b => .bool b
  | .int n => .num n
  | .float (.text s) => .obj [("f", .str s)]
  | .float (.ofInt n) => .obj [("fi", .num n)]
  | .float (.ofBool b) => .obj [("fb", .bool b)]
  | .str s => .str s
  | .list l => .arr (l.map pvToWire)
  | .dict kvs => .obj [("d", .arr (kvs.map fun (k, v) => .arr [.str k, pvToWire v]))]

partial def jvOfWire : J → JV
  | .null => .null
  | .bool b => .bool b
  | .num n => .int n
  | .str s => .str s
  | .arr a => .list (a.map jvOfWire)
  | j@(.obj _) =>
    match j.get? "f", j.get? "s", j.get? "o" with
    | some (.str t), _, _ => .float t
    | _, some (.str s), _ => .str s
    | _, _, some (.arr kvs) => .obj (kvs.map fun kv =>
        match kv with
        | .arr [.str k, v] => (k, jvOfWire v)
        | _ => ("", .null))
    | _, _, _ => .null

partial def litOfWire (j : J) : Lit :=
  match j.strD "k" with
  | "null" => .null
  | "int" => .int (j.intD "v")
  | "float" => .float (j.strD "v")
  | "str" => .str (j.strD "v")
  | "bool" => .bool (j.boolD "v")
  | "enum" => .enum (j.strD "v")
  | "var" => .var (j.strD "v")
  | "list" => .list ((j.arrD "v").map litOfWire)
  | "obj" => .obj ((j.arrD "v").map fun kv =>
      match kv with
      | .arr [.str k, v] => (k, litOfWire v)
      | _ => ("", .null))
  | _ => .null

partial def selOfWire (j : J) : SelT :=
  .mk (j.strD "key") (j.strD "field") (pairs' (j.arrD "args")) ((j.arrD "sub").map selOfWire)
where pairs' (l : List J) : List (String × Lit) := l.map fun kv =>
  match kv with
  | .arr [.str n, v] => (n, litOfWire v)
  | _ => ("", .null)

def defaultOfWire (j : J) : Option PV :=
  match j.get? "default" with
  | some d@(.obj _) => some (pvOfWire (d.getD "v"))
  | _ => none

def fieldOfWire (j : J) : InField :=
  { name := j.strD "name", pyName := j.strD "py", type := Driver.tyOfJson (j.getD "type"), default := defaultOfWire j }

def namedOfWire (j : J) : String × NamedT :=
  let k : NamedT := match j.strD "kind" with
    | "int" => .int | "float" => .float | "string" => .string | "boolean" => .boolean | "id" => .id
    | "custom" => .custom
    | "enum" => .enum ((j.arrD "values").map fun kv =>
        match kv with
        | .arr [.str k, v] => (k, pvOfWire v)
        | _ => ("", .none))
    | _ => .input ((j.arrD "fields").map fieldOfWire)
  (j.strD "name", k)

/-! Sample custom scalars (user code) handed to the model as its parser PARAMETERS; the same behaviours are implemented
    as real `ScalarType`s in harness/corr/C07.py (`custom_scalar`). -/
def sampleParse (impl : String) (n : String) (v : JV) : ParseOut :=
  match impl with
  | "even" =>
    match v with
    | .int k => if k % 2 == 0 then .value (.int (k / 2)) else .refused
    | _ => .refused
  | "tagged" =>
    match v with
    | .obj _ => .raised
    | .str s => .value (.dict [("v", .str s)])
    | _ => .refused
  | "pos" =>
    match v with
    | .int k => if k > 0 then .value (.int k) else .refused
    | .str s => if s.toList.all PyGql.PyNum.isDigit && s != "" then
        (match PyGql.PyNum.pyInt10 s with | some k => if k > 0 then .value (.int k) else .refused | none => .refused) else .refused
    | _ => .refused
  | _ => defaultScalarParse n v

def sampleParseLiteral (impl : String) (n : String) (vars : List (String × PV)) (l : Lit) : ParseOut :=
  match impl with
  | "even" =>
    match l with
    | .int k => if k % 2 == 0 then .value (.int (k / 2)) else .refused
    | _ => .refused
  | "tagged" =>
    match l with
    | .str s => .value (.dict [("v", .str s)])
    | _ => .refused
  | "pos" =>                                   -- no parse_literal of its own: `ScalarType.parse_literal` = parse(node.value)
    match l with
    | .int k => sampleParse "pos" n (.str (toString k))      -- IntValue.value is the text
    | .float t => sampleParse "pos" n (.str t)
    | .str s => sampleParse "pos" n (.str s)
    | .bool b => sampleParse "pos" n (.bool b)
    | _ => .raised
  | _ => defaultScalarParseLiteral n vars l

def regOfWire (j : J) : Reg :=
  let impls : List (String × String) := (j.arrD "types").filterMap fun t =>
    if t.strD "kind" == "custom" then some (t.strD "name", t.strD "impl" "identity") else none
  let implOf (n : String) : String := ((impls.find? fun p => p.1 == n).map (·.2)).getD "identity"
  { types := (j.arrD "types").map namedOfWire,
    customParse := fun n v => sampleParse (implOf n) n v,
    customParseLiteral := fun n vs l => sampleParseLiteral (implOf n) n vs l,
    customHasParseLiteral := fun n => implOf n != "pos" }

def pairs {α} (f : J → α) (j : J) (k : String) : List (String × α) :=
  (j.arrD k).map fun kv =>
    match kv with
    | .arr [.str n, v] => (n, f v)
    | _ => ("", f .null)

def result (r : R) : J :=
  match r with
  | .ok pv => .obj [("ok", pvToWire pv)]
  | .error .coercion => .obj [("err", .str "coercion")]
  | .error .fuel => .obj [("err", .str "fuel")]
  | .error .internal => .obj [("err", .str "internal")]

def kwToWire (kvs : List (String × PV)) : J := pvToWire (.dict kvs)

def item (reg : Reg) (fuel : Nat) (j : J) : J :=
  match j.strD "op" with
  | "coerce_value" => result (coerceValue reg fuel (Driver.tyOfJson (j.getD "ty")) (jvOfWire (j.getD "v")))
  | "value_from_ast" =>
    let vars := match j.get? "vars" with
      | some (.arr _) => some (pairs pvOfWire j "vars")
      | _ => none
    result (valueFromAst reg vars fuel (Driver.tyOfJson (j.getD "ty")) (litOfWire (j.getD "lit")))
  | "exec" =>
    let vardefs : List VarDef := (j.arrD "vardefs").map fun d =>
      { name := d.strD "name", type := Driver.tyOfJson (d.getD "type"),
        default := match d.get? "default" with | some l@(.obj _) => some (litOfWire l) | _ => none }
    let variables := pairs jvOfWire j "variables"
    let argdefs := (j.arrD "argdefs").map fieldOfWire
    let args := pairs litOfWire j "args"
    match coerceVariableValues reg fuel variables vardefs with
    | .error .coercion => .obj [("err", .str "variables")]
    | .error .fuel => .obj [("err", .str "fuel")]
    | .error .internal => .obj [("err", .str "internal")]
    | .ok env =>
      match coerceArgumentValues reg fuel env args argdefs with
      | .error .coercion => .obj [("err", .str "arguments")]
      | .error .fuel => .obj [("err", .str "fuel")]
      | .error .internal => .obj [("err", .str "internal")]
      | .ok kw => .obj [("ok", kwToWire (dictOfAssignments kw)), ("vars", kwToWire env)]
  | "allowed" =>
    let vt := Driver.tyOfJson (j.getD "vt")
    let lt := Driver.tyOfJson (j.getD "lt")
    .obj [("sub", .bool (isSubtype vt lt)), ("allowed", .bool (allowedUsage vt (j.boolD "vdef") lt (j.boolD "ldef")))]
  | "tree" =>
    let vardefs : List VarDef := (j.arrD "vardefs").map fun d =>
      { name := d.strD "name", type := Driver.tyOfJson (d.getD "type"),
        default := match d.get? "default" with | some l@(.obj _) => some (litOfWire l) | _ => none }
    let variables := pairs jvOfWire j "variables"
    let table : List (String × String × List InField) := (j.arrD "argtable").map fun e =>
      (e.strD "ty", e.strD "field", (e.arrD "argdefs").map fieldOfWire)
    let tbl : ArgTable := fun ty f => (table.find? fun e => e.1 == ty && e.2.1 == f).map (·.2.2)
    let wtab : List (String × String × Nat × RVal) := (j.arrD "world").map fun e =>
      let rv : RVal := match e.getD "r" with
        | .str "leaf" => .leaf
        | .str "raised" => .raised
        | r@(.obj _) =>
          match r.get? "obj", r.get? "objs" with
          | some (.str t), _ => .obj t
          | _, some (.arr items) => .objs (items.map fun i => match i with | .str t => some t | _ => none)
          | _, _ => .null
        | _ => .null
      (e.strD "ty", e.strD "field", e.natD "depth", rv)
    let w : TWorld := fun ty f p _ =>
      match wtab.find? fun e => e.1 == ty && e.2.1 == f && e.2.2.1 == p.length with
      | some e => e.2.2.2
      | none => .null
    let segs (p : RPath) : J := .arr (p.map fun s => match s with | .key k => .str k | .idx i => J.ofNat i)
    let evs := executeTree reg fuel (j.natD "depthFuel" 32) vardefs variables tbl w (j.strD "root") ((j.arrD "sels").map selOfWire)
    .obj [("events", .arr (evs.map fun ev =>
      match ev with
      | .call p ty f kw => .obj [("call", segs p), ("ty", .str ty), ("field", .str f), ("kw", kwToWire kw)]
      | .fieldError p => .obj [("fieldError", segs p)]
      | .requestError => .str "requestError"
      | .crash => .str "crash"))]
  | "trace" =>
    let vardefs : List VarDef := (j.arrD "vardefs").map fun d =>
      { name := d.strD "name", type := Driver.tyOfJson (d.getD "type"),
        default := match d.get? "default" with | some l@(.obj _) => some (litOfWire l) | _ => none }
    let variables := pairs jvOfWire j "variables"
    let sels : List FieldSel := (j.arrD "sels").map fun s =>
      { key := s.strD "key", defs := (s.arrD "argdefs").map fieldOfWire, args := pairs litOfWire s "args" }
    .obj [("events", .arr ((executeOp reg fuel vardefs variables sels).map fun ev =>
      match ev with
      | .call k kw => .obj [("call", .str k), ("kw", kwToWire kw)]
      | .fieldError k => .obj [("fieldError", .str k)]
      | .requestError => .str "requestError"
      | .crash => .str "crash"))]
  | _ => .obj [("error", .str "bad-op")]

end C07Codec

def handleC07 (j : J) : J :=
  match j.strD "op" with
  | "batch" =>
    let reg := C07Codec.regOfWire (j.getD "reg")
    let fuel := j.natD "fuel" 400
    .obj [("r", .arr ((j.arrD "items").map (C07Codec.item reg fuel)))]
  | "pynum" =>
    let str := j.strD "s"
    let fl : J := match PyGql.PyNum.pyFloat str with
      | none => .null
      | some d =>
        match d with
        | .finite neg m e => .obj [("cls", .str "finite"), ("neg", .bool neg), ("m", J.ofNat m), ("e", .num e),
                                   ("int", J.ofOpt .num d.integral)]
        | .inf neg => .obj [("cls", .str "inf"), ("neg", .bool neg)]
        | .nan => .obj [("cls", .str "nan")]
    .obj [("i10", J.ofOpt .num (PyGql.PyNum.pyInt10 str)), ("flt", fl)]
  | "int_range" => .obj [("ok", .bool (PyGql.Generated.Scalars.intInRange (j.intD "n")))]
  | _ => .obj [("error", .str "bad-op")]

def main : IO Unit := Driver.run handleC07

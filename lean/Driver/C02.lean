import Driver.Lang
def main : IO Unit := Driver.run Driver.Lang.handle

import Driver.LexOps
import Driver.ParseOps
import Driver.PrintOps
open PyGql

namespace Driver.Lang

/-- language-cluster dispatcher shared by drv_C01 / drv_C02 / drv_C03 -/
def handle (j : J) : J :=
  match Driver.LexOps.handle? j with
  | some r => r
  | none =>
  match Driver.ParseOps.handle? j with
  | some r => r
  | none =>
  match Driver.PrintOps.handle? j with
  | some r => r
  | none => .obj [("error", .str "bad-op")]

end Driver.Lang

import Driver.Loop
import PyGqlModel.Subscribe
import PyGqlModel.SubscribeFaults
open PyGql PyGql.Subscribe

namespace DriverC17

mutual
partial def compOfJson (j : J) : EComp :=
  match j.strD "t" with
  | "obj" => .obj ((j.arrD "fs").map nodeOfJson)
  | "list" => .list ((j.arrD "items").map compOfJson)
  | "leaf" => .leaf (j.intD "v")
  | _ => .null
partial def nodeOfJson (j : J) : ENode :=
  .mk (j.strD "k") (j.strD "o" == "raise") (compOfJson (j.getD "c"))
end

partial def valToJson : Val → J
  | .null => .null
  | .int n => .num n
  | .obj fs => .obj (fs.map fun (k, v) => (k, valToJson v))
  | .list xs => .arr (xs.map valToJson)

def segToJson : PyGql.Instr.Seg → J
  | .key s => .str s
  | .idx n => .str (toString n)

def resultToJson (r : Result) : J :=
  .obj [("data", valToJson r.data), ("errors", .arr (r.errors.map fun e => .arr (e.path.map segToJson)))]

partial def rselOfJson (j : J) : RSel :=
  match j.get? "spread" with
  | some (.arr ss) => .spread (ss.map rselOfJson)
  | _ => .field ((j.get? "k").bind J.asStr?)

def handle (j : J) : J :=
  match j.strD "op" with
  | "subscribe" =>
    let r : SubRequest := {
      operation := match j.strD "operation" with | "query" => .query | "mutation" => .mutation | _ => .subscription,
      opselOk := j.strD "opsel" "ok" == "ok", varsOk := j.strD "vars" "ok" == "ok",
      root := (j.arrD "root").map rselOfJson, fieldDefined := j.boolD "fieldDefined", hasSubResolver := j.boolD "hasSubResolver",
      streamRuntime := j.boolD "streamRuntime",
      rootCollectOk := j.strD "rootCollect" "ok" == "ok", argsOk := j.strD "args" "ok" == "ok",
      events := (j.arrD "events").map fun e => ((e.asArr?).getD []).map nodeOfJson }
    match subscribe r with
    | .refused exc called pulls => .obj [("refused", .str exc), ("subResolverCalled", .bool called), ("pulls", J.ofNat pulls)]
    | .stream rs pulls => .obj [("refused", .null), ("results", .arr (rs.map resultToJson)), ("pulls", J.ofNat pulls)]
  | "faults" =>
    -- fault sequences (SubscribeFaults.lean): a consumer that keeps calling `__anext__` after an exception
    let items : List Item := (j.arrD "items").map fun it =>
      match it.strD "t" with
      | "raise" => Item.srcRaise
      | "crash" => Item.crash (((it.getD "e").asArr?.getD []).map nodeOfJson)
      | _ => Item.ev (((it.getD "e").asArr?.getD []).map nodeOfJson)
    let c := XStream.drain true (items.length + 1) ⟨items, ⟨[]⟩, 0, 0⟩
    .obj [("pulls", .arr (c.1.map fun p => match p with
            | .result r => resultToJson r
            | .raised => .str "raised"
            | .stop => .str "stop")),
          ("source_pulls", J.ofNat c.2.pulls)]
  | _ => .obj [("error", .str "bad-op")]

end DriverC17

def main : IO Unit := Driver.run DriverC17.handle

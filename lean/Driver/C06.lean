import Driver.Loop
import Driver.Codec
open PyGql

def handleC06 (j : J) : J :=
  match j.strD "op" with
  | _ => .obj [("error", .str "bad-op")]

def main : IO Unit := Driver.run handleC06

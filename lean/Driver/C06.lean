import Driver.Loop
import Driver.Codec
import PyGqlModel.Validate.Chain
import PyGqlModel.Validate.ChainMemo
import PyGqlModel.Validate.WfIds
import PyGqlModel.Validate.WfMeta
import PyGqlModel.Validate.OverlapRank
import PyGqlModel.Validate.WfSchema
open PyGql PyGql.Validate

namespace C06

partial def valueOfJson (j : J) : Value :=
  match j.strD "k" with
  | "var" => .var (j.strD "n")
  | "int" => .int (j.strD "v")
  | "float" => .float (j.strD "v")
  | "str" => .str (j.strD "v")
  | "bool" => .bool (j.boolD "v")
  | "null" => .null
  | "enum" => .enum (j.strD "v")
  | "list" => .list ((j.arrD "vs").map valueOfJson)
  | _ => .obj ((j.arrD "fs").map fun f => .mk (f.strD "n") (valueOfJson (f.getD "v")))

def argOfJson (j : J) : Arg := { name := j.strD "n", value := valueOfJson (j.getD "v") }
def dirOfJson (j : J) : Dir := { name := j.strD "n", args := (j.arrD "args").map argOfJson }
def optStr (j : J) (k : String) : Option String := (j.get? k).bind J.asStr?

partial def selOfJson (j : J) : Sel :=
  let dirs := (j.arrD "dirs").map dirOfJson
  let sub := j.getD "sub"
  let sels := (sub.arrD "sels").map selOfJson
  match j.strD "k" with
  | "field" => .field (optStr j "alias") (j.strD "n") ((j.arrD "args").map argOfJson) dirs (!sub.isNull) (sub.natD "id") sels
  | "spread" => .spread (j.strD "n") dirs
  | _ => .inline (optStr j "on") dirs (sub.natD "id") sels

def varDefOfJson (j : J) : VarDef :=
  let dirs := (j.arrD "dirs").map dirOfJson
  let dflt := match j.getD "d" with | .null => none | d => some (valueOfJson d)
  -- the parser never yields a variable in the directives of a variable definition (`Directives[Const]`)
  if h : dirs.all Dir.isConst = true then
    { name := j.strD "n", type := Driver.tyOfJson (j.getD "t"), default := dflt, dirs := dirs, dirsConst := h }
  else { name := j.strD "n", type := Driver.tyOfJson (j.getD "t"), default := dflt }

def defOfJson (j : J) : Def :=
  let dirs := (j.arrD "dirs").map dirOfJson
  let sub := j.getD "sub"
  let sels := (sub.arrD "sels").map selOfJson
  match j.strD "k" with
  | "op" => .op (j.strD "op") (optStr j "name") ((j.arrD "vars").map varDefOfJson) dirs (sub.natD "id") sels
  | "frag" => .frag (j.strD "n") (j.strD "on") dirs (sub.natD "id") sels
  | _ => .ts (j.boolD "schema") (j.strD "n")

def docOfJson (j : J) : Doc := { defs := (j.arrD "defs").map defOfJson }

def fixesOfJson (j : J) : Fixes :=
  { v3 := j.boolD "v3", v4 := j.boolD "v4", v7 := j.boolD "v7", v9 := j.boolD "v9", v10 := j.boolD "v10", v11 := j.boolD "v11" }

def outcomeToJson : Outcome → J
  | .crash e => .obj [("crash", .str e)]
  | .errors l => .obj [("by_rule", .arr (l.map fun (r, n) => .arr [.str r.name, J.ofNat n]))]

/-- the hypotheses of the headline theorems (`Props/C06_head.lean`: `DocOk` = `DocChecksStatic s d (computeRanks d)`,
    `SchemaOutputs`) evaluated on the very document and schema the answer is about:
    `ids` = `wfIdsB d`, `meta` = `noMetaSubsB d`, `rank` = `rankOkB s d (rankOf (computeRanks d))`,
    `names` = no fragment is named "" (`NamesNonEmpty`), `schema_outputs` = `schemaOutputsB s` -/
def checksToJson (s : SchemaD) (schemaOk : Bool) (d : Doc) : J :=
  .obj [("ids", .bool (wfIdsB d)), ("meta", .bool (noMetaSubsB d)),
        ("rank", .bool (rankOkB s d (rankOf (computeRanks d)))),
        ("names", .bool ((Spec.fragNames d).all (· != ""))),
        ("schema_outputs", .bool schemaOk),
        -- hypothesis of `overlap_memo_terminates` (syntactic ranks: holds for every parsed document)
        ("syn_rank", .bool (rankSynB s d (rankOf (synRanks d)) (maxRank (synRanks d))))]

def optNat : Option Nat → J
  | some n => J.ofNat n
  | none => .null
def optS : Option String → J
  | some s => .str s
  | none => .null

/-- the answer of `runMemo`: the verdict, and both overlap counts for the cross-check memoised = un-memoised -/
def memoToJson (a : MemoAnswer) : J :=
  match outcomeToJson a.outcome with
  | .obj kvs => .obj (kvs ++ [("memo", .obj [("supplied", .bool a.supplied), ("plain_crash", optS a.plainCrash),
      ("plain_overlap", optNat a.plainOverlap), ("memo_overlap", optNat a.memoOverlap), ("memo_crash", optS a.memoCrash)])])
  | j => j

def withChecks (j c : J) : J :=
  match j with
  | .obj kvs => .obj (kvs ++ [("checks", c)])
  | j => j

def withKey (j : J) (k : String) (v : J) : J :=
  match j with
  | .obj kvs => .obj (kvs ++ [(k, v)])
  | j => j

def rulesOfJson (j : J) : List Rule :=
  match j.get? "rules" with
  | some (.arr a) => a.filterMap fun x => x.asStr?.bind Rule.ofName
  | _ => Rule.all

def handle (j : J) : J :=
  match j.strD "op" with
  | "validate_many" =>
    let schema := Driver.schemaOfJson (j.getD "schema")
    let fixes := fixesOfJson (j.getD "fixes")
    let schemaOk := schemaOutputsB schema
    .arr ((j.arrD "docs").map fun d =>
      let doc := docOfJson (d.getD "doc")
      let rules := rulesOfJson d
      let ans := withChecks (memoToJson (runMemo { schema, fixes, rules } doc)) (checksToJson schema schemaOk doc)
      -- the rule ALONE: also the function the theorems of Props/C06_overlap_memo*.lean are stated about
      -- (`overlapMemoRun`: the memoised search folded over `Spec.typedNodes`), for the cross-check with the chain
      if rules == [Rule.overlappingFieldsCanBeMerged] then
        withKey ans "memo_alone" (J.ofNat (overlapMemoRun schema fixes doc).1)
      else ans)
  | "rules" => J.ofStrs (Rule.all.map (·.name))
  | _ => .obj [("error", .str "bad-op")]

end C06

def main : IO Unit := Driver.run C06.handle

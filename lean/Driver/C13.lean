import Driver.Loop
import Driver.Codec
import PyGqlModel.SchemaValid
import PyGqlModel.Spec.SchemaValidSpec
open PyGql PyGql.SchemaValid

namespace DriverC13

def errToJson (e : Err) : J := .obj [("rule", .str e.rule.id), ("args", J.ofStrs e.args)]

def resolverOfJson (j : J) : ResolverD :=
  (Driver.resolverOfJson? (.obj [("r", j)]) "r").getD {}

def entryOfJson (j : J) : String × Option TypeD × Bool :=
  (j.strD "name", (match j.get? "type" with | some (.obj kvs) => some (Driver.typeOfJson (.obj kvs)) | _ => none), j.boolD "same")

def dirEntryOfJson (j : J) : String × Option DirectiveD × Bool :=
  (j.strD "name", (match j.get? "directive" with | some (.obj kvs) => some (Driver.directiveOfJson (.obj kvs)) | _ => none), j.boolD "same")

def opOfJson (j : J) : Op :=
  match j.strD "op" with
  | "register_resolver" =>
    .registerResolver (j.strD "type") (j.strD "field") (resolverOfJson (j.getD "resolver")) (j.boolD "allow_override") (j.boolD "same")
  | "register_default_resolver" =>
    .registerDefaultResolver (j.strD "type") (resolverOfJson (j.getD "resolver")) (j.boolD "allow_override")
  | "register_subscription" =>
    .registerSubscription (j.strD "type") (j.strD "field") (resolverOfJson (j.getD "resolver")) (j.boolD "allow_override") (j.boolD "same")
  | "assign" =>
    .assignResolver (j.natD "level") (j.strD "type") (j.strD "field") (resolverOfJson (j.getD "resolver")) (j.boolD "same")
  | "assign_arguments" => .assignArguments (j.strD "type") (j.strD "field") ((j.arrD "args").map Driver.argOfJson)
  | "replace_types" =>
    .replaceTypes ((j.arrD "entries").map entryOfJson) ((j.arrD "dir_entries").map dirEntryOfJson)
      (match j.get? "healed" with | some (.obj kvs) => some (Driver.schemaOfJson (.obj kvs)) | _ => none)
  | "assign_structure" => .assignStructure (Driver.schemaOfJson (j.getD "schema")) (j.boolD "seen")
  | _ => .validate

/-- outcomes, and after every step the cache flag and the verdict of a fresh validation -/
def traceJson (st : CacheState) : List Op → List J
  | [] => []
  | op :: ops =>
    let r := step st op
    .obj [("outcome", .str r.2.id), ("cached", .bool r.1.isValid), ("fresh_valid", .bool (accepts r.1.schema))]
      :: traceJson r.1 ops

def handle (j : J) : J :=
  match j.strD "op" with
  | "validate" =>
    let s := Driver.schemaOfJson (j.getD "schema")
    let rv := j.boolD "resolver_validation" true
    let errs := validate s rv
    .obj [("valid", .bool errs.isEmpty), ("errors", .arr (errs.map errToJson))]
  | "subtype" =>
    let s := Driver.schemaOfJson (j.getD "schema")
    .obj [("sub", .arr ((j.arrD "pairs").map fun p =>
      .bool (isSubtype s (Driver.tyOfJson (p.getD "a")) (Driver.tyOfJson (p.getD "b")))))]
  | "name" =>
    .obj [("valid", .arr ((j.arrD "names").map fun n => .bool (matchName ((n.arrD "cp").filterMap fun c => match c with | .num i => some i.toNat | _ => none))))]
  | "bind" =>
    -- the call-binding model against CPython: one signature, several keyword sets
    let r := resolverOfJson (j.getD "resolver")
    .obj [("binds", .arr ((j.arrD "kws").map fun ks =>
      .bool (PyGql.SchemaValidSpec.bindOk r.params ((ks.arrD "k").filterMap fun x => x.asStr?))))]
  | "history" =>
    let s := Driver.schemaOfJson (j.getD "schema")
    .obj [("trace", .arr (traceJson { schema := s, isValid := j.boolD "cached" } ((j.arrD "ops").map opOfJson)))]
  | _ => .obj [("error", .str "bad-op")]

end DriverC13

def main : IO Unit := Driver.run DriverC13.handle

import Driver.Loop
import Driver.Codec
import PyGqlModel.Spec.Introspect
open PyGql PyGql.Introspect

namespace DriverC15

def jStr (cs : Chars) : J := .str (String.ofList cs)

partial def litToJson : Lit → J
  | .null => .obj [("k", .str "null")]
  | .bool b => .obj [("k", .str "bool"), ("v", .bool b)]
  | .int n => .obj [("k", .str "int"), ("v", .num n)]
  | .float t => .obj [("k", .str "float"), ("v", jStr t)]
  | .str s => .obj [("k", .str "str"), ("v", jStr s)]
  | .enum n => .obj [("k", .str "enum"), ("v", jStr n)]
  | .list xs => .obj [("k", .str "list"), ("v", .arr (xs.map litToJson))]
  | .obj fs => .obj [("k", .str "obj"), ("v", .arr (fs.map fun (k, v) => .arr [jStr k, litToJson v]))]

def fdToJson : FDResult → J
  | .unbound => .str "unbound"
  | .ok none => .str "none"
  | .ok (some .schemaField) => .str "schema"
  | .ok (some .typeField) => .str "type"
  | .ok (some .typenameField) => .str "typename"
  | .ok (some (.ordinary f)) => .str ("ordinary:" ++ f.name)

/-- (interface name, names listed) pairs of `Spec.decodeAll` / `Spec.implementers` -/
def pairsJ (l : List (String × List String)) : J := .arr (l.map fun p => .arr [.str p.1, J.ofStrs p.2])

def handle (j : J) : J :=
  let s := Driver.schemaOfJson (j.getD "schema")
  match j.strD "op" with
  | "introspect" => .obj [("data", introspect s (j.boolD "includeDeprecated"))]
  | "type" => .obj [("data", .obj [("__type", typeByName s (j.boolD "includeDeprecated") (j.strD "name"))])]
  | "fieldDef" =>
    match s.findType (j.strD "parent") with
    | none => .obj [("error", .str "no-parent")]
    | some p => .obj [("r", .arr ((Driver.strList j "names").map fun n => fdToJson (fieldDefinition s (j.boolD "disable") p n)))]
  | "iterate" =>
    match s.findType (j.strD "parent") with
    | none => .obj [("error", .str "no-parent")]
    | some p =>
      let sel := (j.arrD "sel").map fun e => (e.strD "key", e.strD "name")
      match iterateFields s (j.boolD "disable") p sel with
      | none => .obj [("r", .str "unbound")]
      | some l => .obj [("r", .arr (l.map fun (k, d) => .arr [.str k, fdToJson (.ok (some d))]))]
  | "lossless" =>
    .obj [("decoded", Driver.schemaToJson (Spec.schemaOfIntrospection (introspect s true))),
          ("norm", Driver.schemaToJson (Spec.norm s)), ("depthOk", .bool (Spec.DepthOk s)),
          ("possible", pairsJ (Spec.decodeAll (introspect s true)).2), ("implementers", pairsJ (Spec.implementers s))]
  | "decodeReal" => .obj [("decoded", Driver.schemaToJson (Spec.decodeAll (j.getD "data")).1),
                          ("possible", pairsJ (Spec.decodeAll (j.getD "data")).2)]
  | "format" =>
    .obj [("text", jChars (Generated.Introspection.formatDefaultValue s (j.boolD "has_default") (j.getD "value")
            (Driver.tyOfJson (j.getD "type"))))]
  | "readLit" => .obj [("lit", J.ofOpt litToJson (readLit (j.strD "text").toList))]
  | "litOf" => .obj [("lit", J.ofOpt litToJson (litOf s 64 (Driver.tyOfJson (j.getD "type")) (j.getD "value")))]
  | "printLitOf" =>
    .obj [("text", jChars ((if j.boolD "strict" then Prims.printAstOfValueStrict else Prims.printAstOfValue)
            s (j.getD "value") (Driver.tyOfJson (j.getD "type"))))]
  | _ => .obj [("error", .str "bad-op")]

end DriverC15

def main : IO Unit := Driver.run DriverC15.handle

import Driver.Loop
import PyGqlModel.Depth
import PyGqlModel.DepthMerged
import PyGqlModel.DepthFrontier
import PyGqlModel.DepthSeparate
import PyGqlModel.Spec.DepthSpec
import PyGqlModel.Generated.DepthVariant
open PyGql PyGql.Depth

/-!
  Line protocol of C19.

  request  {"op":"check","doc":DOC,"vars":{name:bool},"grid":[[filter str|null, limit n] ..],"maxdepths":[n..]}
  DOC      {"ops":[{"name":str|null,"sels":[SEL],"vd":[{"n":str,"nn":bool,"d":bool|null}]}],"frags":[{"name":str,"sels":[SEL]}]}
  SEL      {"k":"f","a":str|null,"n":str,"d":DIRS,"s":[SEL]} | {"k":"i","d":DIRS,"s":[SEL]} | {"k":"s","n":str,"d":DIRS}
  DIRS     {"skip":COND|null,"incl":COND|null}     COND {"lit":bool} | {"var":str}
  answer   {"acyclic":bool,"fuel":n,"spec":[depth per op],
            "rule":[[flagged op indices] | "err:<kind>"  per grid entry],
            "rulev":[same for the model of the rule after C19-Q1vars.patch (variables coerced per operation)],
            "ruler":[same for `ruleR`: request key "raw" = arbitrary JSON request variables, "vd" entries carry "ty":"b"|"i"],
            "rulert":[same for `ruleRT` (after C19-Q1vars2.patch)], "rulecur": `ruleB`, `ruleRT` or `ruleR` by the EXTRACTED flags
                        Generated/DepthVariant.budgeted / tolerantSkip,
            "pipeline":["executed"|"rejected-depth"|"rejected-other"|"err:<kind>" per grid entry; request key "derr" = number of
                        errors of the default validator] (model of graphql_blocking(validators=[default_validator, rule])),
            "orig":[same for the model of the unchanged rule],
            "paths":[per op, per direct Field child, per maxdepth: [[path components]] | "err:<kind>"],
            "pathsOrig": the same for `selected_fields` before C19-Q1sf.patch}
-/

namespace Driver.C19

def condOfJson (j : J) : Option Cond :=
  match j.get? "lit", j.get? "var" with
  | some (.bool b), _ => some (.lit b)
  | _, some (.str s) => some (.var s)
  | _, _ => none

def dirsOfJson (j : J) : Dirs :=
  { skip := condOfJson (j.getD "skip"), incl := condOfJson (j.getD "incl") }

def optStr (j : J) : Option String := j.asStr?

partial def selOfJson (j : J) : Sel :=
  match j.strD "k" with
  | "f" => .field (optStr (j.getD "a")) (j.strD "n") (dirsOfJson (j.getD "d")) ((j.arrD "s").map selOfJson)
  | "i" => .inline (dirsOfJson (j.getD "d")) ((j.arrD "s").map selOfJson)
  | _ => .spread (j.strD "n") (dirsOfJson (j.getD "d"))

def docOfJson (j : J) : Doc :=
  { ops := (j.arrD "ops").map fun o => { name := optStr (o.getD "name"), sels := (o.arrD "sels").map selOfJson },
    frags := (j.arrD "frags").map fun f => { name := f.strD "name", sels := (f.arrD "sels").map selOfJson } }

def varDefsOfJson (j : J) : List (List VarDef) :=
  (j.arrD "ops").map fun o => (o.arrD "vd").map fun d =>
    { name := d.strD "n", nonNull := d.boolD "nn", default := (d.getD "d").asBool? }

def rawValOfJson : J → RawVal
  | .bool b => .bool b
  | .null => .null
  | .num n => .int n
  | .str s => .str s
  | .arr a => .list (!a.isEmpty)
  | .obj kvs => .list (!kvs.isEmpty)

def rawVarsOfJson (j : J) : RawVars :=
  match j with
  | .obj kvs => kvs.map fun (k, v) => (k, rawValOfJson v)
  | _ => []

def varDefsROfJson (j : J) : List (List VarDefR) :=
  (j.arrD "ops").map fun o => (o.arrD "vd").map fun d =>
    { name := d.strD "n", ty := if d.strD "ty" == "i" then .int else .boolean, nonNull := d.boolD "nn",
      default := match d.getD "d" with
        | .null => none
        | v => some (rawValOfJson v) }

def varsOfJson (j : J) : Vars :=
  match j with
  | .obj kvs => kvs.filterMap fun (k, v) => v.asBool?.map fun b => (k, b)
  | _ => []

def errJ (e : Err) : J := .str ("err:" ++ e.toString)

def resJ : Except Err (List (Nat × Nat)) → J
  | .error e => errJ e
  | .ok l => .arr (l.map fun (i, _) => J.ofNat i)

def pathsJ : Except Err (List (List String)) → J
  | .error e => errJ e
  | .ok ps => .arr (ps.map J.ofStrs)

def handle (j : J) : J :=
  match j.strD "op" with
  | "check" =>
    let doc := docOfJson (j.getD "doc")
    let vars := varsOfJson (j.getD "vars")
    let fuel := doc.fuel
    let maxdepths := (j.arrD "maxdepths").filterMap J.asNat?
    let grid : List (Option String × Nat) := (j.arrD "grid").filterMap fun p =>
      match p with
      | .arr [f, .num l] => some (optStr f, l.toNat)
      | _ => none
    .obj [
      ("acyclic", .bool (acyclic doc.frags)),
      ("fuel", J.ofNat fuel),
      -- the specification is only well defined (and only cheap: it explores every branch down to the fuel) on acyclic documents
      ("spec", .arr (if acyclic doc.frags then doc.ops.map fun op => J.ofNat (DepthSpec.depth doc vars op) else [])),
      ("rule", .arr (grid.map fun (f, l) => resJ (rule fuel l f doc vars))),
      ("rulev", .arr (grid.map fun (f, l) => resJ (ruleV fuel l f doc (varDefsOfJson (j.getD "doc")) vars))),
      ("ruler", .arr (grid.map fun (f, l) => resJ (ruleR fuel l f doc (varDefsROfJson (j.getD "doc")) (rawVarsOfJson (j.getD "raw"))))),
      ("rulert", .arr (grid.map fun (f, l) => resJ (ruleRT fuel l f doc (varDefsROfJson (j.getD "doc")) (rawVarsOfJson (j.getD "raw"))))),
      ("rulecur", .arr (grid.map fun (f, l) =>
        if PyGql.Generated.DepthVariant.budgeted then
          (match (
              let dj := varDefsROfJson (j.getD "doc")
              let rj := rawVarsOfJson (j.getD "raw")
              if PyGql.Generated.DepthVariant.separateDirectives then
                (if PyGql.Generated.DepthVariant.levelMerged then ruleM3 l f doc dj rj else ruleF3 l f doc dj rj)
              else if PyGql.Generated.DepthVariant.levelMerged then ruleM l f doc dj rj
              else if PyGql.Generated.DepthVariant.levelFrontier then ruleF l f doc dj rj
              else ruleB l f doc dj rj) with
           | .error e => errJ e
           | .ok errs => .arr (errs.map fun p => J.ofNat p.1))
        else resJ (
        if PyGql.Generated.DepthVariant.tolerantSkip
        then ruleRT fuel l f doc (varDefsROfJson (j.getD "doc")) (rawVarsOfJson (j.getD "raw"))
        else ruleR fuel l f doc (varDefsROfJson (j.getD "doc")) (rawVarsOfJson (j.getD "raw"))))),
      ("pipeline", .arr (grid.map fun (f, l) =>
        match pipeline fuel l f doc (varDefsOfJson (j.getD "doc")) vars (j.natD "derr") with
        | .raised e => errJ e
        | .executed => .str "executed"
        | o => .str (if o.depthRejected then "rejected-depth" else "rejected-other"))),
      ("orig", .arr (grid.map fun (f, l) => resJ (ruleOrig fuel l f doc vars))),
      ("paths", .arr (doc.ops.map fun op => .arr (op.sels.filterMap fun s =>
        match s with
        | .field _ _ _ sub => some (.arr (maxdepths.map fun md => pathsJ (
            if PyGql.Generated.DepthVariant.lenientSelectedFields
            then selectedFieldsG skipSelectionT fuel sub doc.frags vars md (fun _ => true) []
            else selectedFields fuel sub doc.frags vars md (fun _ => true) [])))
        | _ => none))),
      ("pathsOrig", .arr (doc.ops.map fun op => .arr (op.sels.filterMap fun s =>
        match s with
        | .field _ _ _ sub => some (.arr (maxdepths.map fun md => pathsJ (selectedFieldsOrig fuel sub doc.frags vars md [])))
        | _ => none)))]
  | _ => .obj [("error", .str "bad-op")]

end Driver.C19

def main : IO Unit := Driver.run Driver.C19.handle

import Driver.Loop
import PyGqlModel.Instr
open PyGql PyGql.Instr

namespace DriverC16

mutual
partial def compOfJson (j : J) : Comp :=
  match j.strD "t" with
  | "obj" => .obj ((j.arrD "fs").map nodeOfJson)
  | "list" => .list ((j.arrD "items").map compOfJson)
  | "null" => .null
  | _ => .leaf
partial def nodeOfJson (j : J) : Node :=
  let o := match j.strD "o" with
    | "arg" => OutKind.argError
    | "raise" => OutKind.raises
    | _ => OutKind.returns
  .mk (j.strD "k") (j.boolD "d") o (compOfJson (j.getD "c"))
end

partial def instrOfJson : J → Instr
  | .num n => .leaf n.toNat allKinds
  | .obj kvs => .leaf ((J.obj kvs).natD "id") (((J.obj kvs).arrD "mask").map fun x => (x.asNat?).getD 99)
  | .arr cs => .multi (cs.map instrOfJson)
  | _ => .leaf 0 allKinds

def handle (j : J) : J :=
  match j.strD "op" with
  | "trace" =>
    let r : Request := {
      docIsText := j.boolD "docText", syntaxError := j.strD "parse" == "syntax", valid := j.boolD "valid",
      opselOk := j.strD "opsel" == "ok", varsOk := j.strD "vars" == "ok",
      subscriptionOp := j.boolD "subscriptionOp", rootCollectFails := j.boolD "rootCollectFails", serial := j.boolD "serial",
      blockingExecutor := j.strD "executor" == "blocking",
      fields := (j.arrD "fields").map nodeOfJson,
      sched := (j.arrD "sched").map fun x => (x.asNat?).getD 0 }
    let cfg : Cfg := { mws := List.range (j.natD "mws") }
    let t := instrOfJson (j.getD "instr")
    .obj [("trace", J.ofStrs ((recorded (j.boolD "unfixedN1") t cfg r).map REv.render))]
  | _ => .obj [("error", .str "bad-op")]

end DriverC16

def main : IO Unit := Driver.run DriverC16.handle

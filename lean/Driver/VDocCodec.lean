/-
  JSON → `Validate.Doc` for the C05 driver (op `edoc`). Same wire form as `Driver/C06.lean` (`harness/corr/C06_model.py:
  doc_to_model`); the decoder there lives in the root file of the `drv_C06` executable and cannot be imported.
-/
import Driver.Codec
import PyGqlModel.Validate.Ast
open PyGql PyGql.Validate

namespace VDoc

partial def valueOfJson (j : J) : Value :=
  match j.strD "k" with
  | "var" => .var (j.strD "n")
  | "int" => .int (j.strD "v")
  | "float" => .float (j.strD "v")
  | "str" => .str (j.strD "v")
  | "bool" => .bool (j.boolD "v")
  | "null" => .null
  | "enum" => .enum (j.strD "v")
  | "list" => .list ((j.arrD "vs").map valueOfJson)
  | _ => .obj ((j.arrD "fs").map fun f => .mk (f.strD "n") (valueOfJson (f.getD "v")))

def argOfJson (j : J) : Arg := { name := j.strD "n", value := valueOfJson (j.getD "v") }
def dirOfJson (j : J) : Dir := { name := j.strD "n", args := (j.arrD "args").map argOfJson }
def optStr (j : J) (k : String) : Option String := (j.get? k).bind J.asStr?

partial def selOfJson (j : J) : Sel :=
  let dirs := (j.arrD "dirs").map dirOfJson
  let sub := j.getD "sub"
  let sels := (sub.arrD "sels").map selOfJson
  match j.strD "k" with
  | "field" => .field (optStr j "alias") (j.strD "n") ((j.arrD "args").map argOfJson) dirs (!sub.isNull) (sub.natD "id") sels
  | "spread" => .spread (j.strD "n") dirs
  | _ => .inline (optStr j "on") dirs (sub.natD "id") sels

def varDefOfJson (j : J) : VarDef :=
  let dirs := (j.arrD "dirs").map dirOfJson
  let dflt := match j.getD "d" with | .null => none | d => some (valueOfJson d)
  if h : dirs.all Dir.isConst = true then
    { name := j.strD "n", type := Driver.tyOfJson (j.getD "t"), default := dflt, dirs := dirs, dirsConst := h }
  else { name := j.strD "n", type := Driver.tyOfJson (j.getD "t"), default := dflt }

def defOfJson (j : J) : Def :=
  let dirs := (j.arrD "dirs").map dirOfJson
  let sub := j.getD "sub"
  let sels := (sub.arrD "sels").map selOfJson
  match j.strD "k" with
  | "op" => .op (j.strD "op") (optStr j "name") ((j.arrD "vars").map varDefOfJson) dirs (sub.natD "id") sels
  | "frag" => .frag (j.strD "n") (j.strD "on") dirs (sub.natD "id") sels
  | _ => .ts (j.boolD "schema") (j.strD "n")

def docOfJson (j : J) : Doc := { defs := (j.arrD "defs").map defOfJson }

end VDoc

import Driver.Codec
import PyGqlModel.Sdl
open PyGql PyGql.Sdl

namespace Driver

partial def litOfJson (j : J) : Lit :=
  match j.strD "k" with
  | "int" => .int (j.strD "v") (j.strD "f")
  | "float" => .float (j.strD "v") (j.strD "f")
  | "str" => .str (j.strD "v")
  | "bool" => .bool (j.boolD "v")
  | "enum" => .enum (j.strD "v")
  | "list" => .list ((j.arrD "vs").map litOfJson)
  | "obj" => .obj ((j.arrD "fs").map fun f => (f.strD "name", litOfJson (f.getD "value")))
  | _ => .null

def dirAppOfJson (j : J) : DirApp :=
  { name := j.strD "name", args := (j.arrD "args").map fun a => (a.strD "name", litOfJson (a.getD "value")) }

def dirsOfJson (j : J) : List DirApp := (j.arrD "dirs").map dirAppOfJson

def ivOfJson (j : J) : InputValDef :=
  { name := j.strD "name", desc := optStr j "desc", type := tyOfJson (j.getD "type"),
    default := (match j.get? "default" with | some .null => none | some d => some (litOfJson d) | none => none),
    dirs := dirsOfJson j }

def fdOfJson (j : J) : FieldDef :=
  { name := j.strD "name", desc := optStr j "desc", args := (j.arrD "args").map ivOfJson, type := tyOfJson (j.getD "type"),
    dirs := dirsOfJson j }

def tdOfJson (j : J) : TypeDef :=
  { kind := (Kind.ofString (j.strD "kind")).getD .scalar, name := j.strD "name", desc := optStr j "desc",
    interfaces := strList j "interfaces", fields := (j.arrD "fields").map fdOfJson, members := strList j "members",
    values := (j.arrD "values").map (fun v => { name := v.strD "name", desc := optStr v "desc", dirs := dirsOfJson v }),
    inputFields := (j.arrD "input_fields").map ivOfJson, dirs := dirsOfJson j }

def sdOfJson (j : J) : SchemaDef :=
  { ops := (j.arrD "ops").map (fun o => (o.strD "op", o.strD "type")), dirs := dirsOfJson j }

def defOfJson (j : J) : Def :=
  match j.strD "k" with
  | "type" => .type (tdOfJson j)
  | "ext" => .ext (tdOfJson j)
  | "directive" => .directive { name := j.strD "name", desc := optStr j "desc", args := (j.arrD "args").map ivOfJson,
                                locations := strList j "locations" }
  | "schema" => .schema (sdOfJson j)
  | "schema_ext" => .schemaExt (sdOfJson j)
  | _ => .other

def docOfJson (j : J) : Doc := (j.arrD "doc").map defOfJson

def errToJson : Err → J
  | .lib .sdl => .str "sdl"
  | .lib .ext => .str "ext"
  | .lib .schema => .str "schema"
  | .internal c => .str ("internal:" ++ c)

end Driver

import Driver.Loop
import Driver.Codec
import PyGqlModel.Lex
import PyGqlModel.BlockString
import PyGqlModel.StringUtils
import PyGqlModel.PrintString
import PyGqlModel.Spec.Lexical
import PyGqlModel.Spec.BlockStringSpec
open PyGql

namespace Driver.LexOps

def errKindName : Lex.ErrKind → String
  | .unexpectedEOF => "UnexpectedEOF" | .unexpectedCharacter => "UnexpectedCharacter"
  | .invalidCharacter => "InvalidCharacter" | .nonTerminatedString => "NonTerminatedString"
  | .invalidEscapeSequence => "InvalidEscapeSequence" | .fuel => "<fuel>"

def ofOptText : Option Text → J
  | some t => J.ofText t
  | none => .null

def ofLoc : Option (Nat × Nat) → J
  | some (l, c) => .arr [J.ofNat l, J.ofNat c]
  | none => .null

/-- answer the request if its "op" belongs to the lexical group -/
def handle? (j : J) : Option J :=
  match j.strD "op" with
  | "lex" =>
    let s := j.textD "text"
    some <| match Lex.lexAll s with
    | .ok toks => .obj [("ok", .bool true), ("tokens", .arr (toks.map tokToJson))]
    | .error e =>
      .obj [("ok", .bool false), ("kind", .str (errKindName e.kind)), ("pos", J.ofNat e.pos),
            ("str_ok", .bool (StringUtils.highlighted s e.pos).isSome),
            ("dict", ofLoc (StringUtils.toDict s e.pos))]
  | "block_string" =>
    let raw := j.textD "raw"
    some <| .obj [("model", J.ofText (BlockString.parseBlockString raw)),
                  ("spec", J.ofText (Spec.BlockStringValue raw))]
  | "print_string" =>
    let v := j.textD "value"
    let ind := j.textD "indent"
    let body :=
      if j.boolD "desc" then PrintString.blockString v ind true
      else PrintString.printStringValue v (j.boolD "block") ind
    some <| .obj [("text", J.ofText (PrintString.indentN ind (j.natD "depth") body))]
  | "index_to_loc" =>
    let body := j.textD "body"
    let pos := j.natD "pos"
    some <| .obj [("loc", ofLoc (StringUtils.indexToLoc body pos)),
                  ("highlight_ok", .bool (StringUtils.highlightLocation body pos).isSome),
                  ("shown", match StringUtils.highlightLocation body pos with
                            | some h => .arr (h.shown.map J.ofText)
                            | none => .null)]
  | "spec_lexeme" =>
    let l := j.textD "text"
    let raw := Spec.Lexical.blockStringRaw l
    some <| .obj [("int", .bool (Spec.Lexical.isIntValue l)), ("float", .bool (Spec.Lexical.isFloatValue l)),
                  ("name", .bool (Spec.Lexical.isName l)),
                  ("string", ofOptText (Spec.Lexical.stringValue l)),
                  ("block", ofOptText (raw.map Spec.BlockStringValue))]
  | _ => none

end Driver.LexOps

import Driver.Loop
import Driver.Codec
import PyGqlModel.Lex
import PyGqlModel.BlockString
import PyGqlModel.StringUtils
import PyGqlModel.PrintString
import PyGqlModel.Spec.Lexical
import PyGqlModel.Spec.BlockStringSpec
import PyGqlModel.Utf8
import PyGqlModel.ParseLazy
import Driver.ParseOps
open PyGql

namespace Driver.LexOps

def errKindName : Lex.ErrKind → String
  | .unexpectedEOF => "UnexpectedEOF" | .unexpectedCharacter => "UnexpectedCharacter"
  | .invalidCharacter => "InvalidCharacter" | .nonTerminatedString => "NonTerminatedString"
  | .invalidEscapeSequence => "InvalidEscapeSequence" | .fuel => "<fuel>"

def ofOptText : Option Text → J
  | some t => J.ofText t
  | none => .null

def ofLoc : Option (Nat × Nat) → J
  | some (l, c) => .arr [J.ofNat l, J.ofNat c]
  | none => .null

/-- answer the request if its "op" belongs to the lexical group -/
def handle? (j : J) : Option J :=
  match j.strD "op" with
  | "lex" =>
    let s := j.textD "text"
    some <| match Lex.lexAll s with
    | .ok toks => .obj [("ok", .bool true), ("tokens", .arr (toks.map tokToJson))]
    | .error e =>
      .obj [("ok", .bool false), ("kind", .str (errKindName e.kind)), ("pos", J.ofNat e.pos),
            ("str_ok", .bool (StringUtils.highlighted s e.pos).isSome),
            ("dict", ofLoc (StringUtils.toDict s e.pos))]
  | "block_string" =>
    let raw := j.textD "raw"
    some <| .obj [("model", J.ofText (BlockString.parseBlockString raw)),
                  ("spec", J.ofText (Spec.BlockStringValue raw))]
  | "print_string" =>
    let v := j.textD "value"
    let ind := j.textD "indent"
    let body :=
      if j.boolD "desc" then PrintString.blockString v ind true
      else PrintString.printStringValue v (j.boolD "block") ind
    some <| .obj [("text", J.ofText (PrintString.indentN ind (j.natD "depth") body))]
  | "index_to_loc" =>
    let body := j.textD "body"
    let pos := j.natD "pos"
    some <| .obj [("loc", ofLoc (StringUtils.indexToLoc body pos)),
                  ("highlight_ok", .bool (StringUtils.highlightLocation body pos).isSome),
                  ("shown", match StringUtils.highlightLocation body pos with
                            | some h => .arr (h.shown.map J.ofText)
                            | none => .null)]
  | "parse_text" =>
    -- END TO END on text: the Lean lexer feeds the Lean parser (no real token is involved)
    let s := j.textD "text"
    let render (pos : Nat) : List (String × J) :=
      [("pos", J.ofNat pos), ("str_ok", .bool (StringUtils.highlighted s pos).isSome),
       ("dict", ofLoc (StringUtils.toDict s pos))]
    -- the LAZY token window (ParseLazy.lean): which of a grammatical and a later lexical error the real parser reports
    let lazyErr (le : Lex.SynErr) : List (String × J) :=
      match Driver.ParseOps.parseEntry (j.strD "entry") (Driver.ParseOps.flagsOfJson j) (Lex.lexPrefix s).1 with
      | .error pe => if pe.eof then [("lazy_stage", .str "lex"), ("lazy_pos", J.ofNat le.pos)]
                     else [("lazy_stage", .str "parse"), ("lazy_pos", J.ofNat pe.pos)]
      | .ok _ => [("lazy_stage", .str "lex"), ("lazy_pos", J.ofNat le.pos)]
    some <| match Lex.lexAll s with
    | .error e => .obj [("err", .obj ([("stage", .str "lex")] ++ render e.pos ++ lazyErr e))]
    | .ok toks =>
      match Driver.ParseOps.parseEntry (j.strD "entry") (Driver.ParseOps.flagsOfJson j) toks with
      | .ok (ast, _) => .obj [("ok", ast)]
      | .error e => .obj [("err", .obj ([("stage", .str "parse")] ++ render e.pos))]
  | "decode_utf8" =>
    -- `Lexer.__init__` on a bytes source: the decoded text, or the character offset of the first undecodable sequence
    some <| match Utf8.decode (j.textD "bytes") with
    | .ok t => .obj [("ok", J.ofText t)]
    | .error pos => .obj [("err", J.ofNat pos)]
  | "spec_lexeme" =>
    let l := j.textD "text"
    let raw := Spec.Lexical.blockStringRaw l
    some <| .obj [("int", .bool (Spec.Lexical.isIntValue l)), ("float", .bool (Spec.Lexical.isFloatValue l)),
                  ("name", .bool (Spec.Lexical.isName l)),
                  ("string", ofOptText (Spec.Lexical.stringValue l)),
                  ("block", ofOptText (raw.map Spec.BlockStringValue))]
  | _ => none

end Driver.LexOps

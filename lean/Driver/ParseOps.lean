import Driver.Loop
import Driver.Codec
import PyGqlModel.ParseDoc
import PyGqlModel.ParseJson
import PyGqlModel.Spec.Grammar
open PyGql PyGql.Parse PyGql.Ast

namespace Driver.ParseOps

def flagsOfJson (j : J) : Flags :=
  { noLocation := j.boolD "nl", allowTypeSystem := j.boolD "ts", experimentalFragmentVariables := j.boolD "fv" }

def errToJson (e : SynErr) : J :=
  .obj [("err", .obj [("pos", J.ofNat e.pos), ("msg", .str e.msg), ("eof", .bool e.eof)])]

/-- parse with the given entry point; `spec` = the specification evaluated on the model's own output
    (WF ∧ the token list matches the tree's concrete-syntax view, spans included) -/
def parseEntry (entry : String) (fl : Flags) (toks : List Tok) : Except SynErr (J × Bool) :=
  match entry with
  | "value" => (parseValue fl toks).map fun v => (v.toJson, Spec.checkValueTop fl v toks)
  | "type" => (parseType fl toks).map fun t => (t.toJson, Spec.checkTypeTop fl t toks)
  | _ => (parseDocument fl toks).map fun d => (d.toJson, Spec.checkDocumentTop fl d toks)

def answer (entry : String) (fl : Flags) (toks : List Tok) (withSpec : Bool) : J :=
  match parseEntry entry fl toks with
  | .ok (j, spec) => .obj ([("ok", j)] ++ (if withSpec then [("spec", .bool spec)] else []))
  | .error e => errToJson e

/-- all strings of length `n` over the alphabet, in lexicographic order of indices (first position slowest) -/
def strings (alpha : List Tok) : Nat → List (List Tok)
  | 0 => [[]]
  | n + 1 => alpha.flatMap fun a => (strings alpha n).map (a :: ·)

/-- lay the tokens out as `lexeme␠lexeme␠…` (each alphabet token carries its own width) and add SOF/EOF -/
def layout (ts : List Tok) : List Tok :=
  let rec go (pos : Nat) : List Tok → List Tok × Nat
    | [] => ([], pos)
    | t :: rest =>
      let w := t.stop - t.start
      let (out, fin) := go (pos + w + 1) rest
      ({ t with start := pos, stop := pos + w } :: out, if rest.isEmpty then pos + w else fin)
  let (body, fin) := go 0 ts
  let sof : Tok := { kind := .sof, start := 0, stop := 0, value := textOfString "<SOF>" }
  let eof : Tok := { kind := .eof, start := fin, stop := fin, value := textOfString "<EOF>" }
  sof :: body ++ [eof]

def parseEnum (entry : String) (fl : Flags) (alpha : List Tok) (n : Nat) : J :=
  let all := strings alpha n
  let rec go (i : Nat) (acc : Array J) (errs : Array J) : List (List Tok) → Array J × Array J
    | [] => (acc, errs)
    | ts :: rest =>
      match parseEntry entry fl (layout ts) with
      | .ok (j, _) => go (i + 1) (acc.push (.arr [J.ofNat i, j])) errs rest
      | .error e => go (i + 1) acc (errs.push (.arr [J.ofNat e.pos, J.ofNat (if e.eof then 1 else 0)])) rest
  let (acc, errs) := go 0 #[] #[] all
  -- `errs`: [position, 1 if UnexpectedEOF else 0] of every REJECTED string, in enumeration order
  .obj [("n", J.ofNat all.length), ("accepted", .arr acc.toList), ("errs", .arr errs.toList)]

/-- answer the request if its "op" belongs to this group -/
def handle? (j : J) : Option J :=
  match j.strD "op" with
  | "parse" =>
    match (j.arrD "toks").mapM tokOfJson with
    | none => some (.obj [("error", .str "bad-token")])
    | some toks => some (answer (j.strD "entry") (flagsOfJson j) toks (j.boolD "spec"))
  | "parse_enum" =>
    match (j.arrD "alphabet").mapM tokOfJson with
    | none => some (.obj [("error", .str "bad-token")])
    | some alpha => some (parseEnum (j.strD "entry") (flagsOfJson j) alpha (j.natD "len"))
  | _ => none

end Driver.ParseOps

import Driver.Loop
import PyGqlModel.Json
import PyGqlModel.Heap
import PyGqlModel.HeapExt
import PyGqlModel.Registry
open PyGql PyGql.Heap

namespace DriverC14

def optStr (j : J) (k : String) : Option String := (j.get? k).bind J.asStr?
def optNat (j : J) (k : String) : Option Nat := (j.get? k).bind J.asNat?
def ofOptStr : Option String → J | some s => .str s | none => .null
def ofOptNat : Option Nat → J | some n => J.ofNat n | none => .null
def natList (j : J) (k : String) : List Nat := (j.arrD k).filterMap J.asNat?
def strList (j : J) (k : String) : List String := (j.arrD k).filterMap J.asStr?

def refOfJson (j : J) : Option Ref :=
  match j with
  | .arr [.str n, a] => a.asNat?.map fun a => ⟨n, a⟩
  | _ => none
def refToJson (r : Ref) : J := .arr [.str r.name, J.ofNat r.addr]
def refList (j : J) (k : String) : List Ref := (j.arrD k).filterMap refOfJson
def pairList (j : J) (k : String) : List (String × Addr) := (refList j k).map fun r => (r.name, r.addr)

partial def trefOfJson (j : J) : TRef :=
  match j.strD "k" with
  | "list" => .list (trefOfJson (j.getD "t"))
  | "nonNull" => .nonNull (trefOfJson (j.getD "t"))
  | _ => .named ⟨j.strD "n", j.natD "a"⟩

def trefToJson : TRef → J
  | .named r => .obj [("k", .str "named"), ("n", .str r.name), ("a", J.ofNat r.addr)]
  | .list t => .obj [("k", .str "list"), ("t", trefToJson t)]
  | .nonNull t => .obj [("k", .str "nonNull"), ("t", trefToJson t)]

def kindOf : String → Kind
  | "object" => .object | "interface" => .interface | "union" => .union | "enum" => .enum | "input" => .input | _ => .scalar
def kindStr : Kind → String
  | .object => "object" | .interface => "interface" | .union => "union" | .enum => "enum" | .input => "input" | .scalar => "scalar"

def objOfJson (j : J) : Obj :=
  match j.strD "o" with
  | "type" => .type { kind := kindOf (j.strD "kind"), name := j.strD "name", desc := optStr j "desc", fields := natList j "fields",
                      ifaces := refList j "ifaces", members := refList j "members", dres := optNat j "dres", rtype := optNat j "rtype",
                      values := strList j "values", prot := j.boolD "prot", cls := optNat j "cls" }
  | "field" => .field { name := j.strD "name", ty := trefOfJson (j.getD "ty"), args := natList j "args", desc := optStr j "desc",
                        depr := optStr j "depr", res := optNat j "res", sub := optNat j "sub", py := j.strD "py" }
  | "dir" => .dir { name := j.strD "name", args := natList j "args", locs := strList j "locs", desc := optStr j "desc" }
  | _ => .arg { name := j.strD "name", ty := trefOfJson (j.getD "ty"), py := j.strD "py", dflt := optStr j "dflt", desc := optStr j "desc" }

def objToJson : Obj → J
  | .type t => .obj [("o", .str "type"), ("kind", .str (kindStr t.kind)), ("name", .str t.name), ("desc", ofOptStr t.desc),
                     ("fields", .arr (t.fields.map J.ofNat)), ("ifaces", .arr (t.ifaces.map refToJson)),
                     ("members", .arr (t.members.map refToJson)), ("dres", ofOptNat t.dres), ("rtype", ofOptNat t.rtype),
                     ("values", J.ofStrs t.values), ("prot", .bool t.prot), ("cls", ofOptNat t.cls)]
  | .field f => .obj [("o", .str "field"), ("name", .str f.name), ("ty", trefToJson f.ty), ("args", .arr (f.args.map J.ofNat)),
                      ("desc", ofOptStr f.desc), ("depr", ofOptStr f.depr), ("res", ofOptNat f.res), ("sub", ofOptNat f.sub),
                      ("py", .str f.py)]
  | .arg g => .obj [("o", .str "arg"), ("name", .str g.name), ("ty", trefToJson g.ty), ("py", .str g.py), ("dflt", ofOptStr g.dflt),
                    ("desc", ofOptStr g.desc)]
  | .dir d => .obj [("o", .str "dir"), ("name", .str d.name), ("args", .arr (d.args.map J.ofNat)), ("locs", J.ofStrs d.locs),
                    ("desc", ofOptStr d.desc)]

def schemaOfJson (j : J) : Schema :=
  { types := pairList j "types", dirs := pairList j "dirs", query := (j.get? "query").bind refOfJson,
    mutation := (j.get? "mutation").bind refOfJson, subscription := (j.get? "subscription").bind refOfJson, dres := optNat j "dres" }

def pairsToJson (l : List (String × Addr)) : J := .arr (l.map fun e => .arr [.str e.1, J.ofNat e.2])
def ofOptRef : Option Ref → J | some r => refToJson r | none => .null

def schemaToJson (s : Schema) : J :=
  .obj [("types", pairsToJson s.types), ("dirs", pairsToJson s.dirs), ("query", ofOptRef s.query), ("mutation", ofOptRef s.mutation),
        ("subscription", ofOptRef s.subscription), ("dres", ofOptNat s.dres)]

def cfgOfJson (j : J) : Cfg :=
  { keepAllTypes := j.boolD "keepAllTypes", deepClone := j.boolD "deepClone", accumulateBusted := j.boolD "accumulateBusted",
    cloneSchemaDres := j.boolD "cloneSchemaDres", extObjDres := j.boolD "extObjDres", extFieldSub := j.boolD "extFieldSub",
    extFieldPy := j.boolD "extFieldPy", extIfaceRtype := j.boolD "extIfaceRtype", extUnionDesc := j.boolD "extUnionDesc",
    extUnionRtype := j.boolD "extUnionRtype", extArgPy := j.boolD "extArgPy", extInputPy := j.boolD "extInputPy",
    extKeepAll := j.boolD "extKeepAll", extSchemaDres := j.boolD "extSchemaDres",
    extInputFieldExtended := j.boolD "extInputFieldExtended",
    cloneRegsDeep := j.boolD "cloneRegsDeep" true, cloneRegsFiltered := j.boolD "cloneRegsFiltered" true,
    cloneRegsByValue := j.boolD "cloneRegsByValue" true, extKeepRegs := j.boolD "extKeepRegs" true,
    extLeafCopied := j.boolD "extLeafCopied" true }

def strPairs (j : J) (k : String) : List (String × String) :=
  (j.arrD k).filterMap fun e => match e with | .arr [.str a, .str b] => some (a, b) | _ => none

def visitorOfJson (j : J) : Visitor :=
  match j.strD "k" with
  | "camel" =>
    let tbl := strPairs j "table"
    .camel fun n => ((tbl.find? (·.1 == n)).map (·.2)).getD n
  | "visibility" =>
    let ts := strList j "types"
    let fs := strPairs j "fields"
    let is := strPairs j "inputs"
    let ds := strList j "dirs"
    .vis { typeVis := fun n => !ts.contains n, fieldVis := fun t f => !fs.contains (t, f),
           inputVis := fun t f => !is.contains (t, f), dirVis := fun n => !ds.contains n }
  | _ =>
    let dr := strPairs j "drop"
    let wr : List (String × String × Nat) := (j.arrD "wrap").filterMap fun e =>
      match e with | .arr [.str a, .str b, n] => n.asNat?.map fun n => (a, b, n) | _ => none
    .sdir (fun t f => dr.contains (t, f)) (fun t f => (wr.find? fun e => e.1 == t && e.2.1 == f).map (·.2.2))

partial def tnOfJson (j : J) : TN :=
  match j.strD "k" with
  | "list" => .list (tnOfJson (j.getD "t"))
  | "nonNull" => .nonNull (tnOfJson (j.getD "t"))
  | _ => .named (j.strD "n")

def extArgOfJson (j : J) : ExtArg := { name := j.strD "name", ty := tnOfJson (j.getD "ty") }
def extFieldOfJson (j : J) : ExtField :=
  { name := j.strD "name", ty := tnOfJson (j.getD "ty"), args := (j.arrD "args").map extArgOfJson, res := optNat j "res" }

def objEntries (j : J) (k : String) : List (String × J) := ((j.get? k).bind J.asObj?).getD []

def extOfJson (j : J) : Ext :=
  { newTypes := (j.arrD "new_types").map fun t => (t.strD "name", (t.arrD "fields").map extFieldOfJson),
    fields := (objEntries j "fields").map fun e => (e.1, (e.2.asArr?.getD []).map extFieldOfJson),
    inputFields := (objEntries j "input_fields").map fun e => (e.1, (e.2.asArr?.getD []).map extArgOfJson),
    members := (objEntries j "members").map fun e => (e.1, (e.2.asArr?.getD []).filterMap J.asStr?),
    values := (objEntries j "values").map fun e => (e.1, (e.2.asArr?.getD []).filterMap J.asStr?),
    newDirs := (j.arrD "new_dirs").map fun d => (d.strD "name", (d.arrD "args").map extArgOfJson, strList d "locs"),
    newIfaces := (j.arrD "new_types").filterMap fun t => if (strList t "implements").isEmpty then none else some (t.strD "name", strList t "implements") }

def FUEL : Nat := 12

/-- `replace` step of the harness: `c = src.clone(); c._replace_types_and_directives({name: copy.copy(c.types[name]) | same | None})` -/
def replaceStep (cfg : Cfg) (entries : List (String × String)) (s : Schema) (h : Heap) : Option (Heap × Schema) :=
  match clone cfg FUEL s h with
  | none => none
  | some (h1, c) =>
    let step := entries.foldl (fun (acc : Heap × List (String × Option Addr)) e =>
      match lookup c.types e.1 with
      | none => acc
      | some a =>
        match e.2 with
        | "copy" => match acc.1.read a with
                    | some o => let r := acc.1.alloc o; (r.1, acc.2 ++ [(e.1, some r.2)])
                    | none => acc
        | "same" => (acc.1, acc.2 ++ [(e.1, some a)])
        | _ => (acc.1, acc.2 ++ [(e.1, none)])) (h1, [])
    replaceTD cfg FUEL c step.1 step.2 []

def runSteps (cfg : Cfg) : List J → Heap → List Schema → Except String (Heap × List Schema)
  | [], h, ss => .ok (h, ss)
  | st :: rest, h, ss =>
    match ss[st.natD "src"]? with
    | none => .error "bad-src"
    | some s =>
      let r : Option (Heap × Schema) :=
        match st.strD "op" with
        | "clone" => clone cfg FUEL s h
        | "transform" => transform cfg FUEL ((st.arrD "visitors").map visitorOfJson) s h
        | "extend" => some (extendO cfg (extOfJson (st.getD "ext")) s h)
        | "replace" => replaceStep cfg (strPairs st "entries") s h
        -- `visitor.on_schema(ss[src])` for each visitor, IN PLACE on an existing schema of the list (no clone): the schema is
        -- replaced in the list (Props/C14_inplace.lean: `ReachI.inplace`)
        | "inplace_on" => transformFrom cfg FUEL ((st.arrD "visitors").map visitorOfJson) (h, s)
        | _ => none
      match r with
      | none => .error "out-of-fuel-or-bad-op"
      | some (h', s') =>
        if st.strD "op" == "inplace_on" then runSteps cfg rest h' (ss.set (st.natD "src") s')
        else runSteps cfg rest h' (if st.boolD "rejected" then ss else ss ++ [s'])

/-! ### registries -/

def dictOfJson (j : J) : RDict := (j.asObj?.getD []).filterMap fun e => e.2.asNat?.map fun n => (e.1, n)
def dictToJson (d : RDict) : J := .obj (d.map fun e => (e.1, J.ofNat e.2))

/-- `{type: {field: id}}` → outer map + inner dicts allocated in order -/
def outerOfJson (h : RHeap) (j : J) : RHeap × List (String × Addr) :=
  (j.asObj?.getD []).foldl (fun (acc : RHeap × List (String × Addr)) e =>
    let r := acc.1.alloc (dictOfJson e.2)
    (r.1, acc.2 ++ [(e.1, r.2)])) (h, [])

def outerToJson (h : RHeap) (outer : List (String × Addr)) : J :=
  .obj (outer.map fun e => (e.1, match h.read e.2 with | some d => dictToJson d | none => .null))

def regsToJson (h : RHeap) (r : Registries) : J :=
  .obj [("resolvers", outerToJson h r.resolvers), ("subscriptions", outerToJson h r.subscriptions),
        ("default_resolvers", dictToJson r.defaultResolvers), ("default_resolver", ofOptNat r.defaultResolver)]

def regOpOfJson (j : J) : RegOp :=
  match j.strD "k" with
  | "resolver" => .resolver (j.strD "t") (j.strD "f") (j.natD "fn")
  | "subscription" => .subscription (j.strD "t") (j.strD "f") (j.natD "fn")
  | _ => .default (j.strD "t") (j.natD "fn")

/-- `c = source.clone(); <registrations on c>`: the registries of the source and of the clone afterwards -/
def handleRegs (j : J) : J :=
  let src := j.getD "source"
  let r1 := outerOfJson ⟨[]⟩ (src.getD "resolvers")
  let r2 := outerOfJson r1.1 (src.getD "subscriptions")
  let regs : Registries := { resolvers := r1.2, subscriptions := r2.2, defaultResolvers := dictOfJson (src.getD "default_resolvers"),
                             defaultResolver := optNat src "default_resolver" }
  -- `fields`: {object type of the derived schema: [its field names]} — the `(type, field)` pairs `_registered` accepts;
  -- `fieldres` / `fieldsub`: {type: {field: id}} — the resolvers the FIELD objects of the derived schema carry
  let fields := j.getD "fields"
  let exists_ : String → String → Bool := fun t f => (strList fields t).contains f
  let tbl (k : String) : String → String → Option Nat := fun t f => (((j.getD k).getD t).getD f).asNat?
  let cfg := cfgOfJson (j.getD "cfg")
  let r := if j.strD "kind" == "extend" then extendRegs cfg exists_ r2.1 regs
           else cloneRegsOn cfg exists_ ⟨tbl "fieldres", tbl "fieldsub"⟩ r2.1 regs
  match r with
  | none => .obj [("rejected", .bool true), ("source", regsToJson r2.1 regs)]
  | some c =>
    let c2 := applyOps ((j.arrD "ops").map regOpOfJson) c
    .obj [("rejected", .bool false), ("source", regsToJson c2.1 regs), ("clone", regsToJson c2.1 c2.2)]

def handle (j : J) : J :=
  match j.strD "op" with
  | "regs" => handleRegs j
  | "run" =>
    let cfg := cfgOfJson (j.getD "cfg")
    let h : Heap := ⟨(j.arrD "objs").map objOfJson⟩
    let s := schemaOfJson (j.getD "schema")
    match runSteps cfg (j.arrD "steps") h [s] with
    | .error e => .obj [("error", .str e)]
    | .ok (h', ss) =>
      .obj [("objs", .arr (h'.objs.map objToJson)), ("schemas", .arr (ss.map schemaToJson)),
            ("closed", .arr (ss.map fun s => .bool (closedB h' s)))]
  | _ => .obj [("error", .str "bad-op")]

end DriverC14

def main : IO Unit := Driver.run DriverC14.handle

import PyGqlModel.Json
import PyGqlModel.AsyncExec
import PyGqlModel.AsyncExecE2
import PyGqlModel.AsyncExecLoop
/-!
  Line-protocol operations of C08 / C09 (shared by `drv_C08` and `drv_C09`):
    {"op":"async","case":<op>,"schedule":[i…]}  → generic Executor under the schedule
    {"op":"blocking","case":<op>}                → BlockingExecutor
  `<op>` = {"kind":"query"|"mutation","fields":[{"key","mode","out"}…]} (see harness/corr/C08_world.py: to_model).
    {"op":"async-loop","case":<op>,"schedule":[i…]} → the same with today's LOOP form of execute_fields_serially (AsyncExecLoop.lean)
    {"op":"e2-async","case":<e2>,"schedule":[i…]} / {"op":"e2-blocking","case":<e2>}   (AsyncExecE2.lean)
    {"op":"e2-serial-async","case":<e2 with before = []>,"schedule":[i…]}                 the same as a mutation
  `<e2>` = {"before":[field…],"key":…,"items":[comp…],"after":[field…]}: the list field `key` raises after `items`.
-/
open PyGql PyGql.AsyncExec

namespace Driver.AsyncExecOps

def modeOf : String → Mode
  | "deferred" => .deferred
  | "nested" => .nested
  | "ready" => .ready
  | _ => .sync

mutual
partial def compOfJson (j : J) : Comp :=
  match j.strD "t" with
  | "leaf" => .leaf (j.natD "v")
  | "bad" => .bad
  | "nonNull" => .nonNull (compOfJson (j.getD "c"))
  | "list" => .list (compsOfList (j.arrD "items"))
  | "obj" => .obj (fldsOfList (j.arrD "fields"))
  | _ => .null
partial def compsOfList : List J → Comps
  | [] => .nil
  | c :: cs => .cons (compOfJson c) (compsOfList cs)
partial def fldsOfList : List J → Flds
  | [] => .nil
  | f :: fs => .cons (f.strD "key") (modeOf (f.strD "mode")) (routOfJson (f.getD "out")) (fldsOfList fs)
partial def routOfJson (j : J) : ROut :=
  match j.strD "t" with
  | "ok" => .ok (compOfJson (j.getD "c"))
  | "exc" => .exc
  | _ => .rerr
end

def opOfJson (j : J) : Op :=
  { kind := if j.strD "kind" == "mutation" then .mutation else .query, fields := fldsOfList (j.arrD "fields") }

partial def vToJson : V → J
  | .null => .null
  | .leaf n => J.ofNat n
  | .list vs => .arr (vs.map vToJson)
  | .obj kvs => .obj (kvs.map fun (k, v) => (k, vToJson v))

def segToJson : Seg → J
  | .key s => .str s
  | .idx n => J.ofNat n

def pathToJson (p : Path) : J := .arr (p.map segToJson)

def errToJson (e : Err) : J :=
  .arr [pathToJson e.path, .str (match e.kind with | .resolver => "resolver" | .nonNull => "nonnull")]

def evToJson : Ev → J
  | .call p => .arr [.str "call", pathToJson p]
  | .done p => .arr [.str "done", pathToJson p]

def excName : Exc → String
  | .boom => "Boom"
  | .runtime => "RuntimeError"
  | .resolver => "other:ResolverError"

def resultToJson (r : Result) : J :=
  let base := [("trace", J.arr (r.trace.map evToJson)), ("sizes", J.arr (r.sizes.map J.ofNat)),
               ("steps", J.ofNat r.sizes.length)]
  match r.outcome with
  | .ok v errs => .obj ([("status", .str "ok"), ("data", vToJson v), ("errors", .arr (errs.map errToJson))] ++ base)
  | .failed e => .obj ([("status", .str "failed"), ("exc", .str (excName e))] ++ base)
  | .pending => .obj ([("status", .str "pending")] ++ base)
  | .junk => .obj ([("status", .str "junk")] ++ base)

def e2OfJson (j : J) : E2.Op :=
  { before := fldsOfList (j.arrD "before"), key := j.strD "key", items := compsOfList (j.arrD "items"),
    after := fldsOfList (j.arrD "after") }

def handle (j : J) : J :=
  match j.strD "op" with
  | "async" =>
    let sched := (j.arrD "schedule").map fun x => (x.asNat?).getD 0
    resultToJson (runAsync (opOfJson (j.getD "case")) sched)
  | "async-loop" =>
    let sched := (j.arrD "schedule").map fun x => (x.asNat?).getD 0
    resultToJson (Loop.runAsync (opOfJson (j.getD "case")) sched)
  | "blocking" => resultToJson (runBlocking (opOfJson (j.getD "case")))
  | "e2-async" =>
    let sched := (j.arrD "schedule").map fun x => (x.asNat?).getD 0
    resultToJson (E2.runAsync (e2OfJson (j.getD "case")) sched)
  | "e2-serial-async" =>
    let sched := (j.arrD "schedule").map fun x => (x.asNat?).getD 0
    resultToJson (E2.runAsyncSerial (e2OfJson (j.getD "case")) sched)
  | "e2-blocking" => resultToJson (E2.runBlocking (e2OfJson (j.getD "case")))
  | _ => .obj [("error", .str "bad-op")]

end Driver.AsyncExecOps

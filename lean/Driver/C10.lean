import Driver.Loop
import PyGqlModel.Response
import PyGqlModel.Spec.ResponseSpec
import PyGqlModel.Spec.NullSites
import PyGqlModel.Spec.TreeOk
open PyGql PyGql.Response

namespace Driver.C10

def pathOfJson (j : J) : Option Path :=
  match j with
  | .arr a => some (a.map fun x => match x with
      | .str s => Seg.key s
      | .num n => Seg.idx n.toNat
      | _ => Seg.key "?")
  | _ => none

def nodesOfJson (j : J) : List (Option Nat) :=
  (j.asArr?.getD []).map J.asNat?

def extOfJson (j : J) : Option (List (String × J)) := j.asObj?

def errOfJson (j : J) : Err :=
  match j.strD "cls" with
  | "syntax" => .syntax (j.strD "msg") (j.natD "pos")
  | "located" => .located (j.strD "msg") (nodesOfJson (j.getD "nodes")) (pathOfJson (j.getD "path"))
  | "resolver" => .resolver (j.strD "msg") (nodesOfJson (j.getD "nodes")) (pathOfJson (j.getD "path")) (extOfJson (j.getD "ext"))
  | _ => .execution (j.strD "msg")

def errToJson : Err → J
  | .syntax m p => .obj [("cls", .str "syntax"), ("msg", .str m), ("pos", J.ofNat p)]
  | .located m ns p => .obj [("cls", .str "located"), ("msg", .str m), ("nodes", .arr (ns.map (J.ofOpt J.ofNat))),
      ("path", J.ofOpt (fun p => .arr (p.map Seg.toJ)) p)]
  | .resolver m ns p e => .obj [("cls", .str "resolver"), ("msg", .str m), ("nodes", .arr (ns.map (J.ofOpt J.ofNat))),
      ("path", J.ofOpt (fun p => .arr (p.map Seg.toJ)) p), ("ext", J.ofOpt J.obj e)]
  | .execution m => .obj [("cls", .str "execution"), ("msg", .str m)]

def stagesOfJson (j : J) : Stages :=
  { parse := (j.get? "parse").map fun p => (p.strD "msg", p.natD "pos"),
    validate := (j.arrD "validate").map errOfJson,
    getOp := (j.get? "getop").map fun p => p.strD "msg",
    coerce := (j.arrD "coerce").map errOfJson,
    exec := match j.get? "exec" with
      | some e => (e.getD "data", (e.arrD "errors").map errOfJson)
      | none => (.null, []) }

partial def tyOfJson (j : J) : Ty :=
  match j.strD "k" with
  | "list" => .list (tyOfJson (j.getD "t"))
  | "nonNull" => .nonNull (tyOfJson (j.getD "t"))
  | _ => .named (j.strD "n")

mutual
partial def outOfJson (j : J) : Out :=
  match j.strD "k" with
  | "null" => .null
  | "leaf" => .leaf (j.getD "v")
  | "list" => .list (outListOfJson (j.arrD "items"))
  | "obj" => .obj (fldListOfJson (j.arrD "fields"))
  | _ => .raised (j.strD "msg") (extOfJson (j.getD "ext"))
partial def outListOfJson : List J → OutList
  | [] => .nil
  | x :: xs => .cons (outOfJson x) (outListOfJson xs)
partial def fldListOfJson : List J → FldList
  | [] => .nil
  | x :: xs => .cons (x.strD "key") (tyOfJson (x.getD "ty")) ((x.arrD "nodes").filterMap J.asNat?) (outOfJson (x.getD "o")) (fldListOfJson xs)
end

def handle (j : J) : J :=
  match j.strD "op" with
  | "process" =>
    let st := j.getD "stages"
    let text := st.textD "text"
    let s := stagesOfJson st
    let resp := (processQuery s).response text
    .obj [("response", J.ofOpt id resp),
          ("wf_model", J.ofOpt (fun r => .bool (Spec.Response.wellFormedB Generated.ResponseKeys.syntaxColKey text r)) resp),
          ("wf_real", .bool (Spec.Response.wellFormedB Generated.ResponseKeys.syntaxColKey text (j.getD "real")))]
  | "exec" =>
    let root := fldListOfJson (j.arrD "fields")
    let treeOk := Spec.TreeOk.treeOkFields (j.natD "len") root
    match execute root with
    | none => .obj [("exec", .null), ("typed", .bool (Spec.TreeOk.typedFields root))]
    | some (data, errs) =>
      let sites := Spec.NullSites.sitesFields root
      .obj [("exec", .obj [("data", data), ("errors", .arr (errs.map errToJson))]),
            ("tree_ok", .bool treeOk), ("typed", .bool (Spec.TreeOk.typedFields root)),
            ("keys_distinct", .bool (decide (Spec.NullSites.keysOf root).Nodup && Spec.NullSites.keysDistinctFields root)),
            ("bijection", .bool (errs.map Err.path? == sites.map some && sites.all fun p => (dataAt data p).map J.isNull == some true))]
  | "exec_root" =>
    match executeRequest (some (j.strD "msg", nodesOfJson (j.getD "nodes"))) .nil with
    | none => .obj [("exec", .null)]
    | some (data, errs) => .obj [("exec", .obj [("data", data), ("errors", .arr (errs.map errToJson))])]
  | "lines" =>
    let text := j.textD "text"
    .obj [("lines", .arr ((Spec.Response.splitLines text).map fun l => J.ofNat l.length)),
          ("locs", .arr ((List.range (text.length + 2)).map fun p =>
            J.ofOpt (fun (lc : Nat × Nat) => .arr [J.ofNat lc.1, J.ofNat lc.2]) (indexToLoc text p)))]
  | _ => .obj [("error", .str "bad-op")]

end Driver.C10

def main : IO Unit := Driver.run Driver.C10.handle

import Driver.Loop
import PyGqlModel.Visit
import PyGqlModel.VisitShape
import PyGqlModel.Spec.VisitSpec
import PyGqlModel.Generated.VisitTable
open PyGql PyGql.Visit

namespace DrvC18

/-! wire format of a tree: {"k": kind, "i": id, "a": [[name, {"s": scalar} | {"o": node|null} | {"m": [node…]}], …]} -/

mutual
partial def nodeOfJson (j : J) : Node :=
  .mk (j.strD "k") (j.natD "i") ((j.arrD "a").map fun p =>
    match p with
    | .arr [.str name, a] => (name, attrOfJson a)
    | _ => ("?", .scalar "?"))
partial def attrOfJson (a : J) : Attr :=
  match a.get? "s", a.get? "o", a.get? "m" with
  | some (.str s), _, _ => .scalar s
  | _, some .null, _ => .one none
  | _, some c, _ => .one (some (nodeOfJson c))
  | _, _, some (.arr cs) => .many (cs.map nodeOfJson)
  | _, _, _ => .scalar "?"
end

mutual
partial def nodeToJson : Node → J
  | .mk k i a => .obj [("k", .str k), ("i", J.ofNat i), ("a", .arr (a.map fun (n, x) => .arr [.str n, attrToJson x]))]
partial def attrToJson : Attr → J
  | .scalar s => .obj [("s", .str s)]
  | .one none => .obj [("o", .null)]
  | .one (some c) => .obj [("o", nodeToJson c)]
  | .many cs => .obj [("m", .arr (cs.map nodeToJson))]
end

inductive Action where
  | delete | skip | replace (n : Node) | mutate (sets : List (String × Attr)) | wrongKind

/-- member-level log: (tag, enter?, id, kind, handler name) — newest first -/
abbrev Log := List (Nat × Bool × Nat × String × String)

def actionOfJson (j : J) : Action :=
  match j.strD "act" with
  | "delete" => .delete
  | "skip" => .skip
  | "replace" => .replace (nodeOfJson (j.getD "node"))
  | "mutate" => .mutate ((j.arrD "sets").map fun p =>
      match p with
      | .arr [.str name, a] => (name, attrOfJson a)
      | _ => ("?", .scalar "?"))
  | _ => .wrongKind

def applyAction (script : List (Nat × Action)) (n : Node) : Act :=
  match script.lookup n.id with
  | none => .keep n
  | some .delete => .delete
  | some .skip => .skip n
  | some (.replace r) => .replace r
  | some (.mutate sets) => .keep (sets.foldl (fun n (a, x) => n.setAttr a x) n)
  | some .wrongKind => .raise "bad-action"

def scripted (tag : Nat) (disp : Bool) (script : List (Nat × Action)) : Visitor Log :=
  if disp then
    dispatching Generated.VisitTable.enterRegistry Generated.VisitTable.leaveRegistry
      (fun h n s => (applyAction script n, (tag, true, n.id, n.kind, h) :: s))
      (fun h n s => (tag, false, n.id, n.kind, h) :: s)
  else
    { enter := fun n s => (applyAction script n, (tag, true, n.id, n.kind, "") :: s)
      leave := fun n s => (tag, false, n.id, n.kind, "") :: s }

def visitorOfJson (j : J) : Visitor Log :=
  scripted (j.natD "tag") (j.boolD "dispatching")
    ((j.arrD "script").map fun p =>
      match p with
      | .arr [.num i, a] => (i.toNat, actionOfJson a)
      | _ => (0, .wrongKind))

def evToJson (e : Ev) : J := .arr [.bool e.enter, J.ofNat e.node.id, .str e.node.kind]

def logToJson (l : Log) : J :=
  .arr (l.reverse.map fun (t, en, i, k, h) => .arr [J.ofNat t, .bool en, J.ofNat i, .str k, .str h])

def pathOfJson (j : J) : List (String × Option Nat) :=
  (j.asArr?.getD []).map fun p =>
    match p with
    | .arr [.str a, .num i] => (a, some i.toNat)
    | .arr [.str a, _] => (a, none)
    | _ => ("?", none)

def handle (j : J) : J :=
  match j.strD "op" with
  | "visit" =>
    let t := nodeOfJson (j.getD "tree")
    let vs := (j.arrD "visitors").map visitorOfJson
    let v : Visitor Log := if j.boolD "chain" then chained vs Generated.VisitTable.chainPersonalSkip else vs.headD (scripted 0 false [])
    let fuel := j.natD "fuel" 100000
    let r := match j.get? "method" with
      | some (.str m) => visitM Generated.VisitTable.table v fuel m t []
      | _ => visit Generated.VisitTable.table v fuel t []
    match r with
    | .err e => .obj [("err", .str e)]
    | .fuel => .obj [("err", .str "fuel")]
    | .ok o =>
      if j.boolD "compact" then
        -- `orig` is omitted when it equals `ret` (the usual case): ("same", true)
        match o.ret with
        | some r =>
          if Node.beq r o.orig then .obj [("ret", nodeToJson r), ("same", .bool true), ("log", logToJson o.st)]
          else .obj [("ret", nodeToJson r), ("orig", nodeToJson o.orig), ("log", logToJson o.st)]
        | none => .obj [("ret", .null), ("orig", nodeToJson o.orig), ("log", logToJson o.st)]
      else
        .obj [("ret", J.ofOpt nodeToJson o.ret), ("orig", nodeToJson o.orig),
              ("log", logToJson o.st), ("top", .arr (o.tr.map evToJson))]
  | "shape" =>
    -- hypothesis `WellShaped` of `wellShaped_visit_ok` (Props/C18_shape.lean), evaluated on a document of the correspondence
    let t := nodeOfJson (j.getD "tree")
    .obj [("shape", .bool (wellShapedAt Generated.VisitTable.table t.depth t))]
  | "spec_events" =>
    .obj [("events", .arr ((Spec.events (nodeOfJson (j.getD "tree"))).map evToJson))]
  | "edit" =>
    let t := nodeOfJson (j.getD "tree")
    let e := match j.get? "node" with
      | some .null | none => Spec.Edit.delete
      | some r => Spec.Edit.replace (nodeOfJson r)
    match Spec.editAt (pathOfJson (j.getD "path")) e t with
    | none => .obj [("err", .str "no-such-path")]
    | some r => .obj [("ret", J.ofOpt nodeToJson r)]
  | _ => .obj [("error", .str "bad-op")]

end DrvC18

def main : IO Unit := Driver.run DrvC18.handle

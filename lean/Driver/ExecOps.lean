import Driver.Codec
import PyGqlModel.Exec
import PyGqlModel.World
import PyGqlModel.DefaultResolver
import PyGqlModel.ExecArgs
import PyGqlModel.Spec.ExecSpec
import PyGqlModel.Spec.ValidDoc
import PyGqlModel.Spec.MergeSafe
import PyGqlModel.Spec.ValidDocR
import PyGqlModel.Spec.SchemaChecks
import PyGqlModel.Spec.DocChecks
import PyGqlModel.ExecOfValidate
import Driver.VDocCodec
open PyGql PyGql.Exec

namespace Driver.ExecOps

def condOfJson (j : J) : Cond :=
  match j.get? "lit" with
  | some (.bool b) => .lit b
  | _ =>
    match j.get? "var" with
    | some (.str v) => .var v
    | _ => .bad

def dirOfJson (j : J) : Dir := { name := j.strD "name", cond := condOfJson (j.getD "if") }

def argsOfJson (j : J) : List (String × Option String) :=
  match j with
  | .obj kvs => kvs.map fun (k, v) => (k, match v with | .str s => some s | _ => none)
  | _ => []

/-- argument literal as sent by the harness (same wire form as the C07 driver) -/
partial def litOfWire (j : J) : PyGql.Coerce.Lit :=
  match j.strD "k" with
  | "null" => .null
  | "int" => .int (j.intD "v")
  | "float" => .float (j.strD "v")
  | "str" => .str (j.strD "v")
  | "bool" => .bool (j.boolD "v")
  | "enum" => .enum (j.strD "v")
  | "var" => .var (j.strD "v")
  | "list" => .list ((j.arrD "v").map litOfWire)
  | "obj" => .obj ((j.arrD "v").map fun kv =>
      match kv with
      | .arr [.str k, v] => (k, litOfWire v)
      | _ => ("", .null))
  | _ => .null

partial def selOfJson (s : SchemaD) (e : ArgEnv) (j : J) : Sel :=
  let dirs := (j.arrD "dirs").map dirOfJson
  match j.strD "k" with
  | "f" =>
    let (hasSub, sub) := match j.get? "sels" with
      | some (.arr a) => (true, a.map (selOfJson s e))
      | _ => (false, [])
    -- arguments: coerced by the MODEL (C07's `coerceArgumentValues`) from the argument nodes when these are sent
    let args := match j.get? "argnodes" with
      | some (.arr nodes) =>
        argsTable s e (j.strD "name") (nodes.map fun kv => match kv with
          | .arr [.str k, v] => (k, litOfWire v)
          | _ => ("", .null))
      | _ => argsOfJson (j.getD "args")
    .field (j.strD "key") (j.strD "name") (j.natD "loc") dirs args hasSub sub
  | "i" => .inline ((j.get? "on").bind J.asStr?) dirs ((j.arrD "sels").map (selOfJson s e))
  | _ => .spread (j.strD "name") dirs

def docOfJson (s : SchemaD) (e : ArgEnv) (j : J) : Doc :=
  { ops := (j.arrD "ops").map fun o =>
      { kind := o.strD "op", name := (o.get? "name").bind J.asStr?, sels := (o.arrD "sels").map (selOfJson s e) },
    frags := (j.arrD "frags").map fun f =>
      { name := f.strD "name", on := f.strD "on", sels := (f.arrD "sels").map (selOfJson s e) } }

partial def pvalOfJson (j : J) : PVal :=
  let kv (x : J) : String × PVal := match x with
    | .arr [.str k, v] => (k, pvalOfJson v)
    | _ => ("", .none)
  match j.strD "t" with
  | "leaf" => .leaf (j.getD "v")
  | "list" => .list ((j.arrD "items").map pvalOfJson)
  | "dict" => .dict ((j.arrD "kv").map kv)
  | "obj" => .obj ((j.arrD "attrs").map kv) ((j.arrD "calls").map kv)
      ((j.arrD "raises").map fun x => match x with | .arr [.str k, .str m] => (k, m) | _ => ("", ""))
  | _ => .none

def varsOfJson (j : J) : Vars := match j with | .obj kvs => kvs | _ => []

partial def dataToJson : Data → J
  | .null => .null
  | .leaf j => j
  | .list l => .arr (l.map dataToJson)
  | .obj kvs => .obj (kvs.map fun (k, v) => (k, dataToJson v))

def segToJson : Seg → J
  | .key k => .str k
  | .idx i => J.ofNat i

def errToJson (e : Err) : J :=
  let (kind, msg, ext) := match e.kind with
    | .resolver m x => ("resolver", J.str m, x.getD .null)
    | .nonnull => ("nonnull", J.null, J.null)
    | .coercion => ("coercion", J.null, J.null)
    | .directive => ("directive", J.null, J.null)
  .obj [("kind", .str kind), ("path", .arr (e.path.map segToJson)), ("locs", .arr (e.locs.map J.ofNat)),
        ("msg", msg), ("ext", ext)]

def responseToJson : Response → J
  | .result d es => .obj [("data", dataToJson d), ("errors", .arr (es.map errToJson))]
  | .abort k => .obj [("abort", .str k)]
  | .failed (.internal c) => .obj [("internal", .str c)]
  | .failed .outOfFuel => .obj [("internal", .str "RecursionError")]
  | .failed .unsupported => .obj [("unsupported", .bool true)]
  | .failed (.raised _ _ _) => .obj [("internal", .str "ResolverError")]     -- unreachable: `execute` turns it into a result

mutual
partial def eraseLocSel : Sel → Sel
  | .field key name _ dirs args hs sub => .field key name 0 dirs args hs (sub.map eraseLocSel)
  | .inline on dirs sub => .inline on dirs (sub.map eraseLocSel)
  | .spread name dirs => .spread name dirs
end
def eraseLocsDoc (d : Doc) : Doc :=
  { ops := d.ops.map fun o => { o with sels := o.sels.map eraseLocSel },
    frags := d.frags.map fun f => { f with sels := f.sels.map eraseLocSel } }

def handle? (j : J) : Option J :=
  match j.strD "op" with
  | "exec" =>
    let s := Driver.schemaOfJson (j.getD "schema")
    let vars := varsOfJson (j.getD "vars")
    let env : ArgEnv := { reg := regOfSchema s, fuel := 400, vars := vars.map fun (k, v) => (k, pvOfJ v) }
    let doc := docOfJson s env (j.getD "doc")
    let w := match j.get? "root" with
      | some r => dataWorld (pvalOfJson r)             -- default resolvers over plain data
      | none => fnvWorld s (j.natD "seed") (j.natD "mode")
    let opname := (j.get? "opname").bind J.asStr?
    let fuel := doc.size + 2
    let m := execute s doc vars w opname fuel fuel
    let sp := PyGql.Spec.executeRequestS s doc vars w opname fuel fuel
    let mj := responseToJson m
    let sj := responseToJson sp
    some (.obj [("model", mj), ("spec", sj), ("quirk_dup", .bool (mj.render != sj.render)),
                ("validdoc", .bool (PyGql.Spec.validDocB s doc vars)), ("validdoc_why", .str (PyGql.Spec.validDocWhy s doc vars)),
                ("validdoc_r", .bool (PyGql.Spec.validDocRB s doc vars)), ("ops_rooted", .bool (PyGql.Spec.opsRooted s doc)),
                ("schema_checks", .bool (PyGql.Spec.schemaChecksB (PyGql.Spec.withBuiltins s))),
                ("schema_checks_exec", .bool (PyGql.Spec.schemaChecksExecB s)),
                ("field_owners", .bool (PyGql.Spec.fieldOwnersB (PyGql.Spec.withBuiltins s))),
                ("key_consistent", .bool (PyGql.Spec.keyConsistentB doc)), ("ranked", .bool (PyGql.Spec.rankedB doc)),
                ("merge_safe", .bool (PyGql.Spec.mergeSafeB s doc)),
                ("dirs_strict", .bool (PyGql.Spec.dirsStrict vars (PyGql.Spec.docDirs doc)))])
  | "edoc" =>
    -- the translation the bridge theorems are stated on (`eDoc`, from the validator-side document) against the
    -- executor-side document this driver executes (field locations apart: `eDoc` carries the selection-set identity there)
    let s := Driver.schemaOfJson (j.getD "schema")
    let vars := varsOfJson (j.getD "vars")
    let env : ArgEnv := { reg := regOfSchema s, fuel := 400, vars := vars.map fun (k, v) => (k, pvOfJ v) }
    let doc := docOfJson s env (j.getD "doc")
    let vd := VDoc.docOfJson (j.getD "vdoc")
    let ed := PyGql.Props.C05.eDoc (PyGql.Spec.withBuiltins s) env vd
    let r1 := reprStr (eraseLocsDoc ed)
    let r2 := reprStr (eraseLocsDoc doc)
    some (.obj [("same", .bool (r1 == r2)),
                ("edoc", if r1 == r2 then .null else .str r1), ("doc", if r1 == r2 then .null else .str r2),
                ("ids", .bool (PyGql.Validate.wfIdsB vd)), ("meta", .bool (PyGql.Validate.noMetaSubsB vd)),
                ("aliases", .bool (PyGql.Props.C05.aliasesB vd)),
                ("names", .bool ((PyGql.Validate.Spec.fragNames vd).all (· != ""))),
                ("no_introspection", .bool (PyGql.Props.C05.noIntrospectionB vd)),
                ("doc_checks", .bool (PyGql.Props.C05.docChecksB vd))])
  | "world" =>
    let s := Driver.schemaOfJson (j.getD "schema")
    let w := fnvWorld s (j.natD "seed") (j.natD "mode")
    let path : Path := (j.arrD "path").map fun p => match p with | .str k => Seg.key k | .num n => Seg.idx n.toNat | _ => Seg.idx 0
    let o := w (j.strD "parent") (j.strD "field") path (j.strD "args")
    some (.str (reprStr o))
  | "fnv" => some (J.ofNat (fnv (j.strD "s")))
  | _ => none

def handle (j : J) : J := (handle? j).getD (.obj [("error", .str "bad-op")])

end Driver.ExecOps

/-
  C13 — model of `py_gql.schema.validation.SchemaValidator` (method by method), of the
  covariance check `Schema.is_subtype` (step functional TRANSLATED from the source on every run,
  `Generated/Subtype.lean`, closed here with fuel) and of the `Schema._is_valid` cache as a
  state machine.

  The schema is the shared by-name description `SchemaD`, dumped from the live object with
  `dump_schema(schema, include_builtin=True, resolvers=True)`: `s.types` is `schema.types.values()`
  in registry order (specified scalars and introspection types included, flagged `builtin`),
  resolvers are data (`ResolverD` = `inspect.signature`).

  The model follows the code WITH the proposed fix `proposed_fixes/C13-S4-S6.patch`
  (an implemented type must be an interface; input field names are checked).
-/
import PyGqlModel.SchemaDesc
import PyGqlModel.Generated.Subtype
import PyGqlModel.Generated.SchemaValidTables

namespace PyGql.SchemaValid
open PyGql PyGql.Generated.Subtype PyGql.Generated.SchemaValidTables

/-- one `add_error` call site (format string) of `SchemaValidator` -/
inductive Rule where
  | invalidName | invalidTypeName
  | noQuery | queryNotObject | mutationNotObject | subscriptionNotObject
  | dirDupArg | dirArgNotInput
  | noFields | dupField | fieldNotOutput | dupArg | argNotInput
  | resMissingParam | resPosOnly | resNeedsDefault | resPositional | resExtraRequired | resCollides | resNotCallable
  | argDefault | dirArgDefault | inputFieldDefault | enumValueNone
  | notInterface | dupInterface | ifaceFieldMissing | ifaceFieldType | ifaceArgMissing | ifaceArgType
  | extraRequiredArg
  | unionEmpty | unionMemberNotObject | unionDup
  | enumEmpty
  | inputFieldNotInput
  deriving DecidableEq, Repr, Inhabited

def Rule.id : Rule → String
  | .invalidName => "invalidName" | .invalidTypeName => "invalidTypeName"
  | .noQuery => "noQuery" | .queryNotObject => "queryNotObject" | .mutationNotObject => "mutationNotObject"
  | .subscriptionNotObject => "subscriptionNotObject"
  | .dirDupArg => "dirDupArg" | .dirArgNotInput => "dirArgNotInput"
  | .noFields => "noFields" | .dupField => "dupField" | .fieldNotOutput => "fieldNotOutput"
  | .dupArg => "dupArg" | .argNotInput => "argNotInput"
  | .resMissingParam => "resMissingParam" | .resPosOnly => "resPosOnly" | .resNeedsDefault => "resNeedsDefault"
  | .resPositional => "resPositional" | .resExtraRequired => "resExtraRequired" | .resCollides => "resCollides" | .resNotCallable => "resNotCallable"
  | .argDefault => "argDefault" | .dirArgDefault => "dirArgDefault" | .inputFieldDefault => "inputFieldDefault"
  | .enumValueNone => "enumValueNone"
  | .notInterface => "notInterface" | .dupInterface => "dupInterface"
  | .ifaceFieldMissing => "ifaceFieldMissing" | .ifaceFieldType => "ifaceFieldType"
  | .ifaceArgMissing => "ifaceArgMissing" | .ifaceArgType => "ifaceArgType"
  | .extraRequiredArg => "extraRequiredArg"
  | .unionEmpty => "unionEmpty" | .unionMemberNotObject => "unionMemberNotObject" | .unionDup => "unionDup"
  | .enumEmpty => "enumEmpty" | .inputFieldNotInput => "inputFieldNotInput"

def Rule.all : List Rule :=
  [.invalidName, .invalidTypeName, .noQuery, .queryNotObject, .mutationNotObject, .subscriptionNotObject,
   .dirDupArg, .dirArgNotInput, .noFields, .dupField, .fieldNotOutput, .dupArg, .argNotInput,
   .resMissingParam, .resPosOnly, .resNeedsDefault, .resPositional, .resExtraRequired, .resCollides, .resNotCallable, .argDefault, .dirArgDefault, .inputFieldDefault, .enumValueNone,
   .notInterface, .dupInterface, .ifaceFieldMissing, .ifaceFieldType, .ifaceArgMissing, .ifaceArgType,
   .extraRequiredArg, .unionEmpty, .unionMemberNotObject, .unionDup, .enumEmpty, .inputFieldNotInput]

/-- an error: the call site and the operands of its format string (the *subject*), in order -/
structure Err where
  rule : Rule
  args : List String
  deriving DecidableEq, Repr, Inhabited

/-! ### `_is_valid_name` / `VALID_NAME_RE` (character classes extracted from the compiled pattern) -/

/-- `VALID_NAME_RE.match` on code points. Python's `$` also matches before one trailing newline
    (`nameDollarQuirk`, extracted: false once the pattern ends with `\\Z`). -/
def matchName (cs : List Nat) : Bool :=
  !(nameForbiddenPrefix.isPrefixOf cs) &&
  match cs with
  | [] => false
  | c :: rest =>
    nameStart c && (if nameDollarQuirk && rest.getLast? == some 10 then rest.dropLast else rest).all nameCont

def isValidName (n : String) : Bool := matchName (n.toList.map Char.toNat)

def checkValidName (n : String) : List Err :=
  if isValidName n then [] else [⟨.invalidName, [n]⟩]

/-! ### lookups (`schema.types[...]`, `isinstance`) -/

def kindOf (s : SchemaD) (n : String) : Option Kind := (s.findType n).map (·.kind)

/-- `is_input_type` -/
def isInputType (s : SchemaD) (t : Ty) : Bool :=
  match kindOf s t.base with
  | some .scalar => true | some .enum => true | some .input => true | _ => false

/-- `is_output_type` -/
def isOutputType (s : SchemaD) (t : Ty) : Bool :=
  match kindOf s t.base with
  | some .scalar => true | some .enum => true | some .object => true
  | some .interface => true | some .union => true | _ => false

/-- `field_map` / `argument_map`: a dict comprehension — the LAST entry of a name wins -/
def lastNamed {α} (name : α → String) (xs : List α) (n : String) : Option α :=
  xs.reverse.find? (fun x => name x == n)

def fieldMap (t : TypeD) (n : String) : Option FieldD := lastNamed (·.name) t.fields n
def argMap (f : FieldD) (n : String) : Option ArgD := lastNamed (·.name) f.args n

/-! ### `Schema.is_subtype` (translated) closed with fuel -/

/-- `isinstance(t, GraphQLAbstractType)` -/
def isAbstractTy (s : SchemaD) : Ty → Bool
  | .named n => kindOf s n == some .interface || kindOf s n == some .union
  | _ => false

/-- `isinstance(t, ObjectType)` -/
def isObjectTy (s : SchemaD) : Ty → Bool
  | .named n => kindOf s n == some .object
  | _ => false

/-- `Schema.is_possible_type(abstract, t)`: `t` is an object type and is in `get_possible_types(abstract)`
    (union: its members; interface: `implementations[name]` = object types listing that name). -/
def isPossibleType (s : SchemaD) : Ty → Ty → Bool
  | .named a, .named o =>
    match s.findType a, s.findType o with
    | some at_, some ot =>
      ot.kind == .object &&
        (match at_.kind with
         | .union => at_.members.contains o
         | .interface => ot.interfaces.contains a
         | _ => false)
    | _, _ => false
  | _, _ => false

def subIter (s : SchemaD) : Nat → Ty → Ty → Bool
  | 0 => fun _ _ => false
  | n+1 => isSubtypeStep (isAbstractTy s) (isObjectTy s) (isPossibleType s) (subIter s n)

/-- `schema.is_subtype(type_, super_type)` -/
def isSubtype (s : SchemaD) (a b : Ty) : Bool := subIter s (a.size + b.size) a b

/-! ### the loop shape `for x in xs: … if key in seen: …; continue … seen.add(key)` -/

/-- `step x dup` = (errors of this iteration, whether `key x` is added to `seen`); `dup` says
    whether `key x` is already in `seen`. -/
def forSeen {α} (key : α → String) (step : α → Bool → List Err × Bool) : List α → List String → List Err
  | [], _ => []
  | x :: xs, seen =>
    (step x (seen.contains (key x))).1 ++
      forSeen key step xs (if (step x (seen.contains (key x))).2 then key x :: seen else seen)

/-! ### the shape of the validator (decisions of the code, re-extracted from the source on every run) -/

structure Config where
  /-- `continue` after "Invalid type name": the members of the type are not examined -/
  maskTypeName : Bool
  /-- `continue` after a duplicate field / argument / input field / directive argument -/
  maskDuplicate : Bool
  /-- `continue` after a non-covariant interface field type: its argument checks are skipped -/
  maskImplType : Bool
  /-- the resolver-signature rule follows the call `resolver(root, ctx, info, **arguments)` exactly -/
  preciseResolver : Bool
  /-- additional object field arguments are tested with `arg.required` (not `isinstance(arg.type, NonNullType)`) -/
  extraArgRequired : Bool
  /-- `field.subscription_resolver` goes through the resolver-signature rule -/
  subscriptionChecked : Bool
  /-- the resolver-signature rule is also applied to the fields of INTERFACE types (which are never resolved) -/
  ifaceResolverChecked : Bool
  /-- a non-callable object in a resolver slot is reported (before: accepted as "cannot be inspected") -/
  notCallableReported : Bool
  /-- declared default values are checked against the type of their position (fix C07-D1) -/
  defaultsChecked : Bool
  /-- an enum member whose internal value is `None` is reported (fix C13-HHH4) -/
  enumNoneReported : Bool
  deriving DecidableEq, Repr

/-- the tree with the proposed fixes C13-H7, C13-H1-H2-H3-H9, C13-H4-H5-H6, C13-H8 -/
def Config.fixed : Config := ⟨false, false, false, true, true, true, false, true, true, true⟩
/-- the tree before them -/
def Config.legacy : Config := ⟨true, true, true, false, false, false, true, false, false, false⟩

/-- what the source says today -/
def currentConfig : Config :=
  ⟨cfgMaskTypeName, cfgMaskDuplicate, cfgMaskImplType, cfgPreciseResolver, cfgExtraArgRequired, cfgSubscriptionChecked,
   cfgIfaceResolverChecked, cfgNotCallableReported, cfgDefaultsChecked, cfgEnumNoneReported⟩

/-! ### `SchemaValidator` methods -/

def rootErr (s : SchemaD) (rule : Rule) : Option String → List Err
  | none => []
  | some n => if kindOf s n == some .object then [] else [⟨rule, [n]⟩]

/-- `validate_root_types` -/
def validateRootTypes (s : SchemaD) : List Err :=
  (if s.query.isNone then [⟨.noQuery, []⟩] else []) ++
  rootErr s .queryNotObject s.query ++
  rootErr s .mutationNotObject s.mutation ++
  rootErr s .subscriptionNotObject s.subscription

/-! #### `_default_value_error`: a declared default (the Python value handed to resolvers, as canonical JSON)
    against the type of its position. Checked: no null under non-null (any depth), a list under a list type, a 32-bit
    integer (not a bool) under `Int`, one of the enum's own internal values under an enum, a mapping under an input
    object — only the values found under a field's python name. Other scalars are left alone. -/

/-- `value is None` -/
def isNone : J → Bool
  | .null => true
  | _ => false

def lookupKey (kvs : List (String × J)) (k : String) : Option J := (kvs.find? (·.1 == k)).map (·.2)

/-- `true` = `_default_value_error` returns a reason. Recursion on the VALUE (and the type wrappers): fuel. -/
def defaultBad (s : SchemaD) : Nat → Ty → J → Bool
  | 0, _, _ => false
  | n+1, .nonNull t, v => if isNone v then true else defaultBad s n t v
  | _+1, _, .null => false
  | n+1, .list t, v =>
    match v with
    | .arr xs => xs.any (defaultBad s n t)
    | _ => true
  | n+1, .named nm, v =>
    match s.findType nm with
    | none => false
    | some td =>
      if td.kind == .scalar then
        (td.builtin && nm == "Int") &&
          (match v with
           | .num i => !(decide (-2147483648 ≤ i) && decide (i ≤ 2147483647))
           | _ => true)
      else if td.kind == .enum then !(td.values.any (·.value == v))
      else if td.kind == .input then
        match v with
        | .obj kvs => td.inputFields.any fun f =>
            match lookupKey kvs f.pythonName with
            | some x => defaultBad s n f.type x
            | none => false
        | _ => true
      else false

/-- nesting depth covered by the model (values generated and found in practice are far below) -/
def defaultFuel : Nat := 64

def defaultErr (c : Config) (s : SchemaD) (rule : Rule) (owner : String) (a : ArgD) : List Err :=
  if c.defaultsChecked && a.hasDefault && defaultBad s defaultFuel a.type a.default then [⟨rule, [a.name, owner]⟩] else []

/-- `if not is_input_type(..): error  elif has_default_value: default check` -/
def notInputErr (c : Config) (s : SchemaD) (rule defRule : Rule) (owner : String) (a : ArgD) : List Err :=
  if isInputType s a.type then defaultErr c s defRule owner a else [⟨rule, [a.name, owner, a.type.render]⟩]

/-- the argument loop shared (textually duplicated in the source) by `validate_directives` and
    `validate_fields` -/
def validateArgumentsWith (c : Config) (s : SchemaD) (dupRule notInputRule defRule : Rule) (owner : String) (args : List ArgD) : List Err :=
  forSeen (·.name) (fun a dup =>
    (checkValidName a.name ++
      (if dup then [⟨dupRule, [a.name, owner]⟩] else []) ++
      (if dup && c.maskDuplicate then [] else notInputErr c s notInputRule defRule owner a), true))
    args []

/-- `validate_directives` -/
def validateDirectivesWith (c : Config) (s : SchemaD) : List Err :=
  s.directives.flatMap fun d =>
    checkValidName d.name ++ validateArgumentsWith c s .dirDupArg .dirArgNotInput .dirArgDefault d.name d.args

/-- `arg.required` -/
def argRequired (a : ArgD) : Bool := a.type.isNonNull && !a.hasDefault

def findParam (ps : List ParamD) (n : String) : Option ParamD := ps.find? (·.name == n)

def isVarKind (k : ParamKind) : Bool := k == .varPos || k == .varKw
def isPositionalKind (k : ParamKind) : Bool := k == .posOnly || k == .posOrKw

/-! #### legacy resolver-signature rule (before fix C13-H1-H2-H3-H9) -/

def resolverArgErrLegacy (path : String) (params : List ParamD) (varKw : Bool) (a : ArgD) : List Err :=
  match findParam params a.pythonName with
  | none => if varKw then [] else [⟨.resMissingParam, [a.name, path]⟩]
  | some p =>
    if p.kind == .posOnly then [⟨.resPosOnly, [a.name, path]⟩]
    else if !p.hasDefault && !a.hasDefault && !argRequired a then [⟨.resNeedsDefault, [a.name, path]⟩]
    else []

def remainingParams (params : List ParamD) (args : List ArgD) : List ParamD :=
  params.filter fun p => !(args.map (·.pythonName)).contains p.name && !isVarKind p.kind

def resolverErrsLegacy (path : String) (args : List ArgD) (r : ResolverD) : List Err :=
  args.flatMap (resolverArgErrLegacy path r.params (r.params.any (·.kind == .varKw))) ++
  (if !r.params.any (·.kind == .varPos) &&
      ((remainingParams r.params args).filter (fun p => isPositionalKind p.kind)).length < 3
   then [⟨.resPositional, [path]⟩] else []) ++
  ((remainingParams r.params args).drop 3).flatMap fun p =>
    if p.hasDefault then [] else [⟨.resExtraRequired, [p.name, path]⟩]

/-! #### the resolver-signature rule, following the call `resolver(root, ctx, info, **arguments)` -/

/-- `positional_params` -/
def positionalParams (ps : List ParamD) : List ParamD := ps.filter fun p => isPositionalKind p.kind
/-- names of `leading_params`: the parameters that receive `(root, ctx, info)` -/
def leadingNames (ps : List ParamD) : List String := ((positionalParams ps).take 3).map (·.name)

/-- `keyword_params.get(name)`: the parameter that receives the argument passed by keyword -/
def keywordParam (ps : List ParamD) (n : String) : Option ParamD :=
  ps.find? fun p => p.name == n && (p.kind == .posOrKw || p.kind == .kwOnly) && !(leadingNames ps).contains p.name

def resolverArgErr (path : String) (ps : List ParamD) (varKw : Bool) (a : ArgD) : List Err :=
  match keywordParam ps a.pythonName with
  | some p =>
    if !p.hasDefault && !a.hasDefault && !argRequired a then [⟨.resNeedsDefault, [a.name, path]⟩] else []
  | none =>
    match findParam ps a.pythonName with
    | some cl =>
      if (leadingNames ps).contains cl.name && cl.kind == .posOrKw then [⟨.resCollides, [a.name, path]⟩]
      else if cl.kind == .posOnly && !varKw then [⟨.resPosOnly, [a.name, path]⟩]
      else if !varKw then [⟨.resMissingParam, [a.name, path]⟩] else []
    | none => if !varKw then [⟨.resMissingParam, [a.name, path]⟩] else []

/-- `provided_param_names` -/
def providedNames (ps : List ParamD) (args : List ArgD) : List String :=
  args.filterMap fun a => (keywordParam ps a.pythonName).map (·.name)

/-- parameters that receive nothing from the call -/
def unfedParams (ps : List ParamD) (args : List ArgD) : List ParamD :=
  ps.filter fun p => !isVarKind p.kind && !(leadingNames ps).contains p.name && !(providedNames ps args).contains p.name

def resolverErrs (path : String) (args : List ArgD) (r : ResolverD) : List Err :=
  (if !r.params.any (·.kind == .varPos) && (positionalParams r.params).length < 3
   then [⟨.resPositional, [path]⟩] else []) ++
  args.flatMap (resolverArgErr path r.params (r.params.any (·.kind == .varKw))) ++
  (unfedParams r.params args).flatMap fun p =>
    if p.hasDefault then [] else [⟨.resExtraRequired, [p.name, path]⟩]

/-- `_validate_resolver_arguments` -/
def validateResolverArgumentsWith (c : Config) (path : String) (args : List ArgD) (r : ResolverD) : List Err :=
  if !r.callable then (if c.notCallableReported then [⟨.resNotCallable, [path]⟩] else []) else
  if !r.inspectable then [] else
  if c.preciseResolver then resolverErrs path args r else resolverErrsLegacy path args r

/-- `field.resolver or (composite_type.default_resolver if ObjectType) or schema.default_resolver` -/
def pickResolver (s : SchemaD) (t : TypeD) (f : FieldD) : Option ResolverD :=
  f.resolver <|> (if t.kind == .object then t.defaultResolver else none) <|> s.defaultResolver

def resolverPart (c : Config) (rv : Bool) (path : String) (args : List ArgD) : Option ResolverD → List Err
  | some r => if rv then validateResolverArgumentsWith c path args r else []
  | none => []

/-- the resolver and the subscription resolver of a field against its arguments -/
def resolversOfField (c : Config) (s : SchemaD) (rv : Bool) (t : TypeD) (f : FieldD) : List Err :=
  resolverPart c rv (t.name ++ "." ++ f.name) f.args (pickResolver s t f) ++
  (if c.subscriptionChecked then resolverPart c rv (t.name ++ "." ++ f.name) f.args f.subscriptionResolver else [])

def fieldBodyWith (c : Config) (s : SchemaD) (rv : Bool) (t : TypeD) (f : FieldD) : List Err :=
  (if isOutputType s f.type then [] else [⟨.fieldNotOutput, [f.name, t.name, f.type.render]⟩]) ++
  validateArgumentsWith c s .dupArg .argNotInput .argDefault (t.name ++ "." ++ f.name) f.args ++
  (if t.kind == .object || c.ifaceResolverChecked then resolversOfField c s rv t f else [])

/-- `validate_fields` -/
def validateFieldsWith (c : Config) (s : SchemaD) (rv : Bool) (t : TypeD) : List Err :=
  (if t.fields.isEmpty then [⟨.noFields, [t.name]⟩] else []) ++
  forSeen (·.name) (fun f dup =>
    (checkValidName f.name ++ (if dup then [⟨.dupField, [f.name, t.name]⟩] else []) ++
      (if dup && c.maskDuplicate then [] else fieldBodyWith c s rv t f), true))
    t.fields []

def ifaceArgErr (ipath opath : String) (objField : FieldD) (a : ArgD) : List Err :=
  match argMap objField a.name with
  | none => [⟨.ifaceArgMissing, [ipath, a.name, opath]⟩]
  | some oa =>
    if a.type != oa.type then
      [⟨.ifaceArgType, [ipath, a.name, a.type.render, opath, a.name, oa.type.render]⟩]
    else []

/-- "must not be required": `arg.required` with fix C13-H7, `isinstance(arg.type, NonNullType)` before -/
def extraArgBlocks (c : Config) (a : ArgD) : Bool :=
  if c.extraArgRequired then argRequired a else a.type.isNonNull

def extraArgErrWith (c : Config) (ipath opath : String) (ifaceField : FieldD) (a : ArgD) : List Err :=
  match argMap ifaceField a.name with
  | none => if extraArgBlocks c a then [⟨.extraRequiredArg, [opath, a.name, a.type.render, ipath]⟩] else []
  | some _ => []

def implArgErrsWith (c : Config) (t it : TypeD) (f objField : FieldD) : List Err :=
  f.args.flatMap (ifaceArgErr (it.name ++ "." ++ f.name) (t.name ++ "." ++ f.name) objField) ++
  objField.args.flatMap (extraArgErrWith c (it.name ++ "." ++ f.name) (t.name ++ "." ++ f.name) f)

def implFieldErrWith (c : Config) (s : SchemaD) (t it : TypeD) (f : FieldD) : List Err :=
  match fieldMap t f.name with
  | none => [⟨.ifaceFieldMissing, [it.name ++ "." ++ f.name, t.name]⟩]
  | some objField =>
    (if !isSubtype s objField.type f.type then
      [⟨.ifaceFieldType, [it.name ++ "." ++ f.name, f.type.render, t.name ++ "." ++ f.name, objField.type.render]⟩]
     else []) ++
    (if !isSubtype s objField.type f.type && c.maskImplType then [] else implArgErrsWith c t it f objField)

/-- `validate_implementation` -/
def validateImplementationWith (c : Config) (s : SchemaD) (t it : TypeD) : List Err :=
  it.fields.flatMap (implFieldErrWith c s t it)

def interfaceStepWith (c : Config) (s : SchemaD) (t : TypeD) (iname : String) (dup : Bool) : List Err × Bool :=
  match s.findType iname with
  | none => ([⟨.notInterface, [t.name, iname]⟩], false)
  | some it =>
    if it.kind != .interface then ([⟨.notInterface, [t.name, iname]⟩], false)
    else if dup then ([⟨.dupInterface, [t.name, iname]⟩], false)
    else (validateImplementationWith c s t it, true)

/-- `validate_interfaces` -/
def validateInterfacesWith (c : Config) (s : SchemaD) (t : TypeD) : List Err :=
  forSeen id (interfaceStepWith c s t) t.interfaces []

def memberStep (s : SchemaD) (t : TypeD) (m : String) (dup : Bool) : List Err × Bool :=
  if kindOf s m != some .object then ([⟨.unionMemberNotObject, [t.name, m]⟩], false)
  else ((if dup then [⟨.unionDup, [t.name, m]⟩] else []), true)

/-- `validate_union_members` -/
def validateUnionMembers (s : SchemaD) (t : TypeD) : List Err :=
  (if t.members.isEmpty then [⟨.unionEmpty, [t.name]⟩] else []) ++
  forSeen id (memberStep s t) t.members []

/-- `validate_enum_values` -/
def validateEnumValuesWith (c : Config) (t : TypeD) : List Err :=
  (if t.values.isEmpty then [⟨.enumEmpty, [t.name]⟩] else []) ++
  t.values.flatMap fun v => checkValidName v.name ++
    (if c.enumNoneReported && isNone v.value then [⟨.enumValueNone, [t.name, v.name]⟩] else [])

/-- `validate_input_fields` -/
def validateInputFieldsWith (c : Config) (s : SchemaD) (t : TypeD) : List Err :=
  (if t.inputFields.isEmpty then [⟨.noFields, [t.name]⟩] else []) ++
  forSeen (·.name) (fun f dup =>
    (checkValidName f.name ++ (if dup then [⟨.dupField, [f.name, t.name]⟩] else []) ++
      (if dup && c.maskDuplicate then [] else notInputErr c s .inputFieldNotInput .inputFieldDefault t.name f), true))
    t.inputFields []

def typeNameErr (t : TypeD) : List Err :=
  if t.builtin || isValidName t.name then [] else [⟨.invalidTypeName, [t.name]⟩]

def typeBodyWith (c : Config) (s : SchemaD) (rv : Bool) (t : TypeD) : List Err :=
  match t.kind with
  | .object => validateFieldsWith c s rv t ++ validateInterfacesWith c s t
  | .interface => validateFieldsWith c s rv t
  | .union => validateUnionMembers s t
  | .enum => validateEnumValuesWith c t
  | .input => validateInputFieldsWith c s t
  | .scalar => []

/-- the body of the loop of `SchemaValidator.__call__` -/
def validateTypeWith (c : Config) (s : SchemaD) (rv : Bool) (t : TypeD) : List Err :=
  typeNameErr t ++ (if !(t.builtin || isValidName t.name) && c.maskTypeName then [] else typeBodyWith c s rv t)

/-- `SchemaValidator.__call__` : the errors, in the order they are added. `rv` = `enable_resolver_validation` -/
def validateWith (c : Config) (s : SchemaD) (rv : Bool) : List Err :=
  validateRootTypes s ++ s.types.flatMap (validateTypeWith c s rv) ++ validateDirectivesWith c s

/-- the validator of the tree under test -/
def validate (s : SchemaD) (rv : Bool := true) : List Err := validateWith currentConfig s rv

/-! the repaired validator (all proposed fixes): what the theorems speak about once `currentConfig = Config.fixed` -/
abbrev validateArguments := validateArgumentsWith Config.fixed
abbrev validateDirectives := validateDirectivesWith Config.fixed
abbrev validateResolverArguments := validateResolverArgumentsWith Config.fixed
abbrev fieldBody := fieldBodyWith Config.fixed
abbrev validateFields := validateFieldsWith Config.fixed
abbrev extraArgErr := extraArgErrWith Config.fixed
abbrev implFieldErr := implFieldErrWith Config.fixed
abbrev validateImplementation := validateImplementationWith Config.fixed
abbrev interfaceStep := interfaceStepWith Config.fixed
abbrev validateInterfaces := validateInterfacesWith Config.fixed
abbrev validateInputFields := validateInputFieldsWith Config.fixed
abbrev validateEnumValues := validateEnumValuesWith Config.fixed
abbrev validateType := validateTypeWith Config.fixed
abbrev validateFixed := validateWith Config.fixed

/-- `validate_schema` does not raise -/
def accepts (s : SchemaD) : Bool := (validate s true).isEmpty

/-! ### the `_is_valid` cache as a state machine -/

/-- The cached verdict and what it stands for. In the code the verdict is stored next to a FINGERPRINT
    (`_validated_resolvers = _current_resolvers()`): the resolver callables of the schema, of every object / interface
    type and of every field, and the argument objects of every field, compared BY IDENTITY (`_same_objects`: `is`).
    The machine does not carry the fingerprint as data: every operation that (re)assigns a callable or an argument list
    says through its `same` / `seen` flag whether the object handed in IS the one the fingerprint holds, and the step
    function resets `isValid` exactly when it is not. This is faithful under ONE assumption, which the code meets
    because the fingerprint holds REFERENCES: a resolver identity recorded in the fingerprint stays alive as long as the
    state refers to it, so "another object" and "another identity" are the same thing. A fingerprint made of `id()`
    numbers would break the assumption (a dropped callable can be freed and an incompatible one allocated at the same
    address, seeded change C13-11): address reuse is OUTSIDE the model and is covered by the correspondence stream M
    (`address_reuse_case` in harness/corr/C13.py: drop, re-allocate until the address collides, assign, validate). -/
structure CacheState where
  schema : SchemaD
  /-- `_is_valid is True` (`false` = `None`; the code never stores `False`) AND the fingerprint is current -/
  isValid : Bool := false
  /-- keys of `ResolverMap.resolvers`, `.default_resolvers`, `.subscriptions` -/
  regResolvers : List (String × String) := []
  regDefaults : List String := []
  regSubs : List (String × String) := []
  deriving Repr, Inhabited

/-- `same`: the callable passed is the very object already set (`is`) -/
inductive Op where
  | validate
  | registerResolver (typename fieldname : String) (r : ResolverD) (allowOverride same : Bool)
  | registerDefaultResolver (typename : String) (r : ResolverD) (allowOverride : Bool)
  | registerSubscription (typename fieldname : String) (r : ResolverD) (allowOverride same : Bool)
  /-- plain assignment (documented): `schema.default_resolver = f` (level 0), `schema.types[T].default_resolver = f`
      (1), `field.resolver = f` (2), `field.subscription_resolver = f` (3); `same`: the very object already there -/
  | assignResolver (level : Nat) (typename fieldname : String) (r : ResolverD) (same : Bool)
  /-- plain assignment `field.arguments = [...]` (new Argument objects) -/
  | assignArguments (typename fieldname : String) (args : List ArgD)
  /-- `_replace_types_and_directives(types={name: new | None}, directives={name: new | None})`, entries in
      dict order; the flag says the new object IS the registered one (`new_type != original_type` is
      identity; for directives `new is directives.get(name)`). `healed`: the description after
      `fix_type_references` when a deletion made it remove members (only exercised, taken from the live object). -/
  | replaceTypes (entries : List (String × Option TypeD × Bool))
      (dirEntries : List (String × Option DirectiveD × Bool) := []) (healed : Option SchemaD := none)
  /-- the remaining public setters of types.py / schema.py, which change the STRUCTURE by plain assignment:
      `Field.type`, `InputValue.type`, `InputValue.default_value` (set / del), `fields` (object, interface, input
      object), `ObjectType.interfaces`, `UnionType.types`, the `type` of a list / non-null wrapper, `name`,
      `Schema.query_type` ...: the description becomes `s'`. `seen`: the assignment changes the tuple
      `Schema._current_resolvers()` that `validate()` compares by identity (resolver callables; per field of an object
      / interface type its argument objects with their `python_name`, `has_default_value` and `type` object; the NUMBER
      of fields and of such types) - only then is the verdict recomputed. -/
  | assignStructure (s' : SchemaD) (seen : Bool)
  deriving Repr, Inhabited

inductive Outcome where
  | ok | validationError | unknownType | schemaError | valueError
  deriving DecidableEq, Repr, Inhabited

def Outcome.id : Outcome → String
  | .ok => "ok" | .validationError => "SchemaValidationError" | .unknownType => "UnknownType"
  | .schemaError => "SchemaError" | .valueError => "ValueError"

def setFieldResolver (s : SchemaD) (tn fn : String) (r : ResolverD) : SchemaD :=
  { s with types := s.types.map fun t =>
      if t.name == tn then { t with fields := t.fields.map fun f =>
        -- `field_map[fieldname]` is the last field of that name; names are unique in practice
        if f.name == fn then { f with resolver := some r } else f } else t }

def setFieldSubscription (s : SchemaD) (tn fn : String) (r : ResolverD) : SchemaD :=
  { s with types := s.types.map fun t =>
      if t.name == tn then { t with fields := t.fields.map fun f =>
        if f.name == fn then { f with subscriptionResolver := some r } else f } else t }

def setFieldArgs (s : SchemaD) (tn fn : String) (args : List ArgD) : SchemaD :=
  { s with types := s.types.map fun t =>
      if t.name == tn then { t with fields := t.fields.map fun f =>
        if f.name == fn then { f with args := args } else f } else t }

def setDefaultResolver (s : SchemaD) (tn : String) (r : ResolverD) : SchemaD :=
  { s with types := s.types.map fun t => if t.name == tn then { t with defaultResolver := some r } else t }

/-- `Schema.register_default_resolver` -/
def registerDefault (st : CacheState) (tn : String) (r : ResolverD) (allow : Bool) : CacheState × Outcome :=
  if st.regDefaults.contains tn && !allow then (st, .valueError) else
  let st1 := { st with regDefaults := tn :: st.regDefaults }
  match st.schema.findType tn with
  | none => (st1, .unknownType)
  | some t =>
    if t.kind != .object then (st1, .schemaError)
    else if t.defaultResolver.isSome && !allow then (st1, .valueError)
    else ({ st1 with schema := setDefaultResolver st.schema tn r, isValid := false }, .ok)

/-- `_replace_types_and_directives`, the loop over `types`. `acc`: `busted_cache = busted_cache or …`
    (the extracted `replaceAccumulates`; `false` is the legacy variant where every entry overwrites the flag).
    An error leaves the earlier replacements in place. Returns (types, busted, raised). -/
def applyReplace (acc : Bool) (types : List TypeD) (busted : Bool) :
    List (String × Option TypeD × Bool) → List TypeD × Bool × Bool
  | [] => (types, busted, false)
  | (n, new?, same) :: rest =>
    match types.find? (·.name == n) with
    | none => applyReplace acc types busted rest
    | some orig =>
      if orig.builtin then (types, busted, true)
      else
        match new? with
        | none => applyReplace acc (types.filter fun t => !(t.name == n)) ((acc && busted) || !same) rest
        | some new =>
          if orig.kind != new.kind then (types, (acc && busted) || !same, true)
          else applyReplace acc (types.map fun t => if t.name == n then new else t) ((acc && busted) || !same) rest

/-- the refusals of the type loop, evaluated before anything is replaced (fix C13-T3b) -/
def precheckTypes (types : List TypeD) (entries : List (String × Option TypeD × Bool)) : Bool :=
  entries.any fun e =>
    match types.find? (·.name == e.1) with
    | none => false
    | some orig => orig.builtin || (match e.2.1 with | none => false | some new => orig.kind != new.kind)

def precheckDirectives (dirs : List DirectiveD) (entries : List (String × Option DirectiveD × Bool)) : Bool :=
  entries.any fun e => specifiedDirectives.contains e.1 && (dirs.any (·.name == e.1))

/-- the loop over `directives`: (directives, busted, raised). `bust`: the extracted `replaceDirectivesBust`. -/
def applyDirReplace (bust : Bool) (dirs : List DirectiveD) (busted : Bool) :
    List (String × Option DirectiveD × Bool) → List DirectiveD × Bool × Bool
  | [] => (dirs, busted, false)
  | (n, new?, same) :: rest =>
    if specifiedDirectives.contains n && dirs.any (·.name == n) then (dirs, busted, true)
    else
      match new? with
      | none => applyDirReplace bust (dirs.filter fun d => !(d.name == n)) (busted || (bust && !same)) rest
      | some new =>
        applyDirReplace bust
          (if dirs.any (·.name == n) then dirs.map (fun d => if d.name == n then new else d) else dirs ++ [new])
          (busted || (bust && !same)) rest

/-- root types are looked up again by name (`self.types.get(self.query_type.name)`) -/
def relookRoot (types : List TypeD) (r : Option String) : Option String :=
  r.bind fun n => if types.any (·.name == n) then some n else none

def replaced (s : SchemaD) (types : List TypeD) (dirs : List DirectiveD) : SchemaD :=
  { s with
    types := types
    directives := dirs
    query := relookRoot types s.query
    mutation := relookRoot types s.mutation
    subscription := relookRoot types s.subscription }

/-- `_replace_types_and_directives` with the three extracted shape flags -/
def replaceStep (acc atomic dbust : Bool) (st : CacheState) (entries : List (String × Option TypeD × Bool))
    (dirEntries : List (String × Option DirectiveD × Bool)) (healed : Option SchemaD) : CacheState × Outcome :=
  if atomic && (precheckTypes st.schema.types entries || precheckDirectives st.schema.directives dirEntries) then
    (st, .schemaError)
  else
    match applyReplace acc st.schema.types false entries with
    | (types, _, true) => ({ st with schema := { st.schema with types := types } }, .schemaError)
    | (types, busted, false) =>
      match applyDirReplace dbust st.schema.directives busted dirEntries with
      | (dirs, _, true) =>
        ({ st with schema := { st.schema with types := types, directives := dirs } }, .schemaError)
      | (dirs, busted2, false) =>
        let s1 : SchemaD := replaced st.schema types dirs
        if busted2 then ({ st with schema := healed.getD s1, isValid := false }, .ok)
        else ({ st with schema := s1 }, .ok)

/-- a structural plain assignment (`field.type = T`, `union.types = [...]`, `type.name = n`, `schema.query_type = T`, ...):
    nothing but the `_current_resolvers()` comparison of `validate()` notices it. `tracks` = that comparison covers
    everything the validator reads (fix C13-S12): then EVERY such assignment makes the next `validate()` recompute;
    before the fix only the assignments the comparison happened to see (`seen`, probed on the live object). -/
def assignStructureStep (tracks : Bool) (st : CacheState) (s' : SchemaD) (seen : Bool) : CacheState × Outcome :=
  ({ st with schema := s', isValid := st.isValid && !(seen || tracks) }, .ok)

def step (st : CacheState) : Op → CacheState × Outcome
  | .validate =>
    if st.isValid then (st, .ok)
    else if (validate st.schema true).isEmpty then ({ st with isValid := true }, .ok)
    else (st, .validationError)
  | .registerDefaultResolver tn r allow => registerDefault st tn r allow
  | .registerResolver tn fn r allow same =>
    if fn == "*" then
      -- ResolverMap.register_resolver → self.register_default_resolver(typename, resolver)
      let (st1, o) := registerDefault st tn r false
      if o != .ok then (st1, o) else
      -- back in Schema.register_resolver: type lookups succeed, `fieldname == "*"` returns
      (st1, .ok)
    else if st.regResolvers.contains (tn, fn) && !allow then (st, .valueError) else
    let st1 := { st with regResolvers := (tn, fn) :: st.regResolvers }
    match st.schema.findType tn with
    | none => (st1, .unknownType)
    | some t =>
      if t.kind != .object then (st1, .schemaError) else
      match fieldMap t fn with
      | none => (st1, .schemaError)
      | some f =>
        if f.resolver.isSome && !allow && !same then (st1, .valueError)
        else ({ st1 with schema := setFieldResolver st.schema tn fn r, isValid := false }, .ok)
  | .registerSubscription tn fn r allow same =>
    if st.regSubs.contains (tn, fn) && !allow then (st, .valueError) else
    let st1 := { st with regSubs := (tn, fn) :: st.regSubs }
    match st.schema.findType tn with
    | none => (st1, .unknownType)
    | some t =>
      if t.kind != .object then (st1, .schemaError) else
      match fieldMap t fn with
      | none => (st1, .schemaError)
      | some f =>
        if f.subscriptionResolver.isSome && !allow && !same then (st1, .valueError)
        else ({ st1 with schema := setFieldSubscription st.schema tn fn r, isValid := false }, .ok)
  | .assignResolver level tn fn r same =>
    -- `validate()` compares the callables it validated with the current ones (fix C13-HH1): assigning another
    -- object makes the next `validate()` recompute; before the fix the cached verdict was kept
    if same then (st, .ok) else
    let s' : SchemaD :=
      match level with
      | 0 => { st.schema with defaultResolver := some r }
      | 1 => setDefaultResolver st.schema tn r
      | 2 => setFieldResolver st.schema tn fn r
      | _ => setFieldSubscription st.schema tn fn r
    ({ st with schema := s', isValid := st.isValid && !cfgCacheTracksAssignments }, .ok)
  | .assignArguments tn fn args =>
    -- the arguments of every field belong to what `validate()` compares (fix C13-HHH3)
    ({ st with schema := setFieldArgs st.schema tn fn args, isValid := st.isValid && !cfgCacheTracksArguments }, .ok)
  | .replaceTypes entries dirEntries healed =>
    replaceStep replaceAccumulates replaceAtomic replaceDirectivesBust st entries dirEntries healed
  | .assignStructure s' seen => assignStructureStep cfgCacheTracksStructure st s' seen

def run (st : CacheState) : List Op → CacheState
  | [] => st
  | op :: ops => run (step st op).1 ops

/-- outcomes of a history -/
def runTrace (st : CacheState) : List Op → List Outcome
  | [] => []
  | op :: ops => (step st op).2 :: runTrace (step st op).1 ops

end PyGql.SchemaValid

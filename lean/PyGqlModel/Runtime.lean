/-
  C08 — the runtime algebra: deferred values and the combinators of
  `execution/runtime/threadpool.py` (`chain`, `unwrap_future`, `gather_futures`) and, as pure list
  functions, the index patching of `runtime/asyncio.py: gather_values`.

  A value handed around by the executor is a `Node`:
    * `val x`                     — a plain value (not a Future / not awaitable);
    * `done r` / `failed e`       — a FINISHED Future (result `r`, which may itself be a Future: that is
                                    what `unwrap_future` flattens) / a Future finished with an exception;
    * `task`, `chain`, `unwrap`, `gather` — PENDING Futures, one constructor per combinator that created
      the Future, holding exactly what that combinator's callback closes over
      (`chain`: source + `then`/`else_`; `gather`: the slot list `result`, `done`, `target_count`).
  This is the resumption reading `now a | wait task k`: a pending node waits for the tasks at its
  leaves, and its constructors are the (defunctionalised) continuation `k`.

  Completing a task = `deliver`: the task's Future is set, and every callback that this triggers runs
  before `deliver` returns, innermost first, exactly like `Future.set_result` running `add_done_callback`
  callbacks synchronously.  Callbacks of the `then` kind are `Cont`s, interpreted by the executor
  (`applyCont`, a parameter here).
-/
import PyGqlModel.ExecOp

namespace PyGql.Exec

/-- plain values flowing through callbacks -/
inductive Val where
  | raw (c : Comp)          -- what a resolver returned (not yet completed)
  | data (v : V)            -- completed response data
  | junk                    -- a value the executor never produces on purpose (e.g. a Future inside data)
  deriving Inhabited

/-- the `then` callbacks the executor passes to `map_value` (defunctionalised closures) -/
inductive Cont where
  | complete (path : Path)                                   -- `complete` + `else_=(ResolverError, fail)` of resolve_field
  | collect (keys : List String)                             -- `_collect` of execute_fields
  | nonNull (path : Path)                                    -- `_handle_non_nullable_value`
  | serialCb (path : Path) (key : String) (resolved : List (String × V)) (args : Flds)   -- `cb` of execute_fields_serially
  | onFinish                                                 -- `_on_finish` of execute
  deriving Inhabited

mutual
inductive Node where
  | val (x : Val)
  | done (r : Node)
  | failed (e : Exc)
  | task (id : Nat) (path : Path) (nested : Bool) (out : ROut)
  | chain (src : Node) (k : Cont)
  | unwrap (src : Node)
  | gather (slots : Nodes) (done target : Nat)
inductive Nodes where
  | nil
  | cons (n : Node) (ns : Nodes)
end

instance : Inhabited Node := ⟨.val .junk⟩

inductive Res (α : Type) where
  | ok (a : α)
  | exc (e : Exc)          -- a Python exception raised synchronously

def Nodes.toList : Nodes → List Node
  | .nil => []
  | .cons n ns => n :: ns.toList

def Nodes.ofList : List Node → Nodes
  | [] => .nil
  | n :: ns => .cons n (Nodes.ofList ns)

def Nodes.length : Nodes → Nat
  | .nil => 0
  | .cons _ ns => ns.length + 1

/-- `_is_future_fast` -/
def Node.isFuture : Node → Bool
  | .val _ => false
  | _ => true

/-- `Future.done()` (a plain value counts as available) -/
def Node.finished : Node → Bool
  | .val _ | .done _ | .failed _ => true
  | _ => false

def Node.isPending (n : Node) : Bool := !n.finished

/-- the plain value a `then` callback receives from `f.result()` when the result is not a Future -/
def Node.plain : Node → Val
  | .val x => x
  | _ => .junk

/-! ### gather_futures: the counter state machine -/

/-- what one `on_finish(d)` call tries to do with `outer` -/
inductive GAct (α : Type) where
  | nothing                     -- neither an exception nor the last one
  | setException (e : Exc)      -- `outer.set_exception(err)`
  | setResult (vs : List α)     -- `outer.set_result([... v.result() ...])`
  | raisesInCallback            -- the list comprehension meets a failed slot: the exception is swallowed by the callback machinery
  | blocks                      -- the list comprehension meets a PENDING slot: `v.result()` would block for ever

/-- status of one entry of `result`: `none` = pending future -/
abbrev Slot (α : Type) := Option (Except Exc α)

/-- `[v.result() if future else v for v in result]` -/
def collectSlots {α : Type} : List (Slot α) → GAct α
  | [] => .setResult []
  | none :: _ => .blocks
  | some (.error _) :: _ => .raisesInCallback
  | some (.ok a) :: rest =>
    match collectSlots rest with
    | .setResult vs => .setResult (a :: vs)
    | other => other

/-- body of `on_finish(d)`: `done += 1`, then exception / last-one test.  `slots` is `result` AFTER `d` finished. -/
def gatherOnFinish {α : Type} (done target : Nat) (d : Except Exc α) (slots : List (Slot α)) : Nat × GAct α :=
  let done := done + 1
  match d with
  | .error e => (done, .setException e)
  | .ok _ => if done == target then (done, collectSlots slots) else (done, .nothing)

/-- The standalone machine used by the `gather_*` theorems: `gather_futures` over `n` task futures. -/
structure GState (α : Type) where
  done : Nat
  target : Nat
  slots : List (Slot α)
  outer : Option (Except Exc (List α)) := none   -- state of the aggregate Future
  sets : Nat := 0                                -- successful `set_result` / `set_exception` calls on `outer`
  swallowed : Nat := 0                           -- InvalidStateError / exceptions swallowed inside callbacks
  blocked : Bool := false

/-- number of entries that are not pending -/
def countSome {α : Type} : List (Option α) → Nat
  | [] => 0
  | none :: r => countSome r
  | some _ :: r => countSome r + 1

/-- initial state for a source list: non-futures count as done (`result_append(v); done += 1`) -/
def GState.init {α : Type} (source : List (Slot α)) : GState α :=
  { done := countSome source, target := source.length, slots := source }

/-- pending entry `i` finishes with `d` and its `on_finish` callback runs -/
def GState.finish {α : Type} (s : GState α) (i : Nat) (d : Except Exc α) : GState α :=
  let slots := s.slots.set i (some d)
  let (done, act) := gatherOnFinish s.done s.target d slots
  let s := { s with slots := slots, done := done }
  match act with
  | .nothing => s
  | .blocks => { s with blocked := true }
  | .raisesInCallback => { s with swallowed := s.swallowed + 1 }
  | .setException e =>
    match s.outer with
    | none => { s with outer := some (.error e), sets := s.sets + 1 }
    | some _ => { s with swallowed := s.swallowed + 1 }        -- InvalidStateError inside the callback
  | .setResult vs =>
    match s.outer with
    | none => { s with outer := some (.ok vs), sets := s.sets + 1 }
    | some _ => { s with swallowed := s.swallowed + 1 }

/-- a run: completions `(index, result)` in the order they happen -/
def GState.run {α : Type} (s : GState α) : List (Nat × Except Exc α) → GState α
  | [] => s
  | (i, d) :: rest => (s.finish i d).run rest

/-! ### asyncio `gather_values`: pending-index patching -/

/-- first loop of `AsyncIORuntime.gather_values`: positions of the awaitables -/
def pendingIdx {α β : Type} (isAw : α → Option β) : List α → Nat → List Nat
  | [], _ => []
  | v :: vs, i => match isAw v with
    | some _ => i :: pendingIdx isAw vs (i + 1)
    | none => pendingIdx isAw vs (i + 1)

def pendingOf {α β : Type} (isAw : α → Option β) : List α → List β
  | [] => []
  | v :: vs => match isAw v with
    | some a => a :: pendingOf isAw vs
    | none => pendingOf isAw vs

/-- `for i, awaited in zip(pending_idx, await asyncio.gather(*pending)): done[i] = awaited` -/
def patch {γ : Type} (done : List γ) : List Nat → List γ → List γ
  | i :: is, a :: as => patch (done.set i a) is as
  | _, _ => done

/-- `gather_values` once `asyncio.gather` has delivered `awaited` (results of `pending`, in order) -/
def gatherValuesPatched {α β γ : Type} (isAw : α → Option β) (plain : α → γ) (values : List α) (awaited : List γ) : List γ :=
  patch (values.map plain) (pendingIdx isAw values 0) awaited

/-! ### the combinators on nodes -/

abbrev ApplyCont := Cont → Res Val → ExecSt → Res Node × ExecSt

/-- `on_finish` of `chain`, run when the source Future has finished (`src` is finished). -/
def chainOnFinish (ap : ApplyCont) (src : Node) (k : Cont) (s : ExecSt) : Node × ExecSt :=
  match src with
  | .failed e =>
    match ap k (.exc e) s with           -- `then(f.result())` raises `e`; `else_` may turn it into a result
    | (.ok r, s') => (.done r, s')
    | (.exc e', s') => (.failed e', s')
  | .done r =>
    match ap k (.ok r.plain) s with
    | (.ok x, s') => (.done x, s')        -- `target.set_result(res)` — `res` may be a Future
    | (.exc e', s') => (.failed e', s')
  | other => (.chain other k, s)

/-- `chain(source, then, else_)` -/
def mapValue (ap : ApplyCont) (source : Node) (k : Cont) (s : ExecSt) : Res Node × ExecSt :=
  match source with
  | .val x => ap k (.ok x) s              -- not a Future: `then` runs now, exceptions propagate to the caller
  | src =>
    if src.finished then                  -- `add_done_callback` on a finished Future fires immediately
      let (n, s') := chainOnFinish ap src k s
      (.ok n, s')
    else (.ok (.chain src k), s)

/-- `cb` of `unwrap_future`, run on a finished source; re-registers on a Future result. -/
def unwrapCb : Node → Node
  | .failed e => .failed e
  | .done (.val x) => .done (.val x)
  | .done r => unwrapCb r                 -- `r.add_done_callback(cb)` (fires at once when `r` is finished)
  | .val x => .done (.val x)
  | pending => .unwrap pending

/-- `unwrap_future(maybe_future)` -/
def unwrapValue : Node → Node
  | .val x => .val x
  | n => unwrapCb n

def Node.slot : Node → Slot Node
  | .val x => some (.ok (.val x))
  | .done r => some (.ok r)
  | .failed e => some (.error e)
  | _ => none

/-- data list out of slot results (`junk` if a slot's result is not completed data) -/
def listOfNodes : List Node → Option (List V)
  | [] => some []
  | .val (.data v) :: rest => (listOfNodes rest).map (v :: ·)
  | _ :: _ => none

def valOfResults (rs : List Node) : Val :=
  match listOfNodes rs with
  | some vs => .data (.list vs)
  | none => .junk

/-- apply one `on_finish(d)` of a gather node whose `outer` is still pending.
    Returns the new `done` and, if `outer` got set, its final state. -/
def gatherFire (done target : Nat) (d : Except Exc Node) (slots : Nodes) : Nat × Option Node :=
  match gatherOnFinish done target d (slots.toList.map Node.slot) with
  | (done', .setException e) => (done', some (.failed e))
  | (done', .setResult rs) => (done', some (.done (.val (valOfResults rs))))
  | (done', _) => (done', none)

/-- run the callbacks of the slots in `fired` (those that finished during this step), in order -/
def gatherFires (done target : Nat) (slots : Nodes) : List (Except Exc Node) → Nat × Option Node
  | [] => (done, none)
  | d :: rest =>
    match gatherFire done target d slots with
    | (done', some outer) => (done', some outer)      -- later callbacks only hit InvalidStateError (swallowed)
    | (done', none) => gatherFires done' target slots rest

def slotResult : Node → Option (Except Exc Node)
  | .done r => some (.ok r)
  | .failed e => some (.error e)
  | _ => none

/-- `gather_futures(source)` -/
def gatherValues (source : Nodes) : Node :=
  let l := source.toList
  let done := (l.filter (fun n => !n.isFuture)).length
  let target := l.length
  let pending := l.filter Node.isFuture
  if target == 0 then .val (.data (.list []))
  else if pending.isEmpty then .val (valOfResults l)
  else
    -- `f.add_done_callback(on_finish)` for every future; already finished ones fire at once
    match gatherFires done target source (pending.filterMap slotResult) with
    | (_, some outer) => outer
    | (done', none) => .gather source done' target

/-! ### completing a task -/

/-- the Future of task `id` is set: resolver outcome → result / exception (`done` event),
    or — for a nested deferred — a fresh task Future as the result. -/
def finishTask (path : Path) (nested : Bool) (out : ROut) (s : ExecSt) : Node × ExecSt :=
  if nested then
    let (id', s') := s.submit
    (.done (.task id' path false out), s')
  else
    let s := s.emit (.done path)
    match out with
    | .ok c => (.done (.val (.raw c)), s)
    | .rerr => (.failed .resolver, s)
    | .exc => (.failed .boom, s)

mutual
/-- complete task `t` inside `n`; every callback that this triggers runs before returning -/
def deliver (ap : ApplyCont) (t : Nat) : Node → ExecSt → Node × ExecSt
  | .task id path nested out, s => if id == t then finishTask path nested out s else (.task id path nested out, s)
  | .chain src k, s =>
    let (src', s1) := deliver ap t src s
    chainOnFinish ap src' k s1
  | .unwrap src, s =>
    let (src', s1) := deliver ap t src s
    (unwrapCb src', s1)
  | .gather slots done target, s =>
    let (slots', fired, s1) := deliverSlots ap t slots s
    match gatherFires done target slots' fired with
    | (_, some outer) => (outer, s1)
    | (done', none) => (.gather slots' done' target, s1)
  | n, s => (n, s)
/-- deliver into every slot; report the results of the slots that finished during this step -/
def deliverSlots (ap : ApplyCont) (t : Nat) : Nodes → ExecSt → Nodes × List (Except Exc Node) × ExecSt
  | .nil, s => (.nil, [], s)
  | .cons n ns, s =>
    let (n', s1) := deliver ap t n s
    let (ns', fired, s2) := deliverSlots ap t ns s1
    let here := if n.isPending then (slotResult n').toList else []
    (.cons n' ns', here ++ fired, s2)
end

end PyGql.Exec

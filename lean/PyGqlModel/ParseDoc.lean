/-
  Token-level model of `py_gql/lang/parser.py` — part 4: `parse_definition`, `parse_document` and the
  three entry points `parse`, `parse_value`, `parse_type` on token lists.

  The token list is the lexer's whole output (`SOF … EOF`).  The real lexer never yields anything after
  `EOF`; on arbitrary lists the entry points reject trailing tokens, so that acceptance is a statement
  about the WHOLE list.
-/
import PyGqlModel.ParseTS
namespace PyGql.Parse
open PyGql PyGql.Ast

/-- `parse_definition` -/
def parseDefinition (fl : Flags) (fuel : Nat) : P Definition := do
  let start ← peek
  if start.kind = .name then
    if start.value ∈ Generated.ParserTables.executableDefinitionsKeywords then
      parseExecutableDefinition fl fuel
    else if fl.allowTypeSystem then
      if start.value ∈ Generated.ParserTables.schemaDefinitionsKeywords then
        parseTypeSystemDefinition fl fuel
      else if start.value = K.extend then parseTypeSystemExtension fl fuel
      else fail "Unexpected token"
    else fail "Unexpected token"
  else if start.kind = .curlyL then parseExecutableDefinition fl fuel
  else if fl.allowTypeSystem ∧ (start.kind = .string ∨ start.kind = .blockString) then
    parseTypeSystemDefinition fl fuel
  else fail "Unexpected token"

/-- `parse_document`: `expect(SOF)`, then definitions until `skip(EOF)` — i.e. `many(SOF, parse_definition, EOF)` -/
def parseDocumentP (fl : Flags) (fuel : Nat) : P Document := do
  let start ← peek
  let definitions ← many fuel .sof (parseDefinition fl fuel) .eof
  pure { definitions := definitions, loc := ← mkLoc fl start }

/-- module-level `parse_value`: `expect(SOF); parse_value_literal(False); expect(EOF)` -/
def parseValueP (fl : Flags) (fuel : Nat) : P Value := do
  let _ ← expect .sof
  let v ← parseValueLiteral fl fuel false
  let _ ← expect .eof
  pure v

/-- module-level `parse_type` -/
def parseTypeP (fl : Flags) (fuel : Nat) : P TypeRef := do
  let _ ← expect .sof
  let t ← parseTypeReference fl fuel
  let _ ← expect .eof
  pure t

/-- run a parser on a whole token list: enough fuel, nothing may remain -/
def runAll (p : Nat → P α) (toks : List Tok) : Except SynErr α :=
  match p (toks.length + 1) { toks := toks, last := default } with
  | .ok (a, s) =>
    match s.toks with
    | [] => .ok a
    | t :: _ => .error { pos := t.start, msg := "tokens after <EOF>" }
  | .error e => .error e

/-- `py_gql.lang.parse` on the lexer's tokens -/
def parseDocument (fl : Flags) (toks : List Tok) : Except SynErr Document := runAll (parseDocumentP fl) toks
/-- `py_gql.lang.parser.parse_value` on the lexer's tokens -/
def parseValue (fl : Flags) (toks : List Tok) : Except SynErr Value := runAll (parseValueP fl) toks
/-- `py_gql.lang.parser.parse_type` on the lexer's tokens -/
def parseType (fl : Flags) (toks : List Tok) : Except SynErr TypeRef := runAll (parseTypeP fl) toks

end PyGql.Parse

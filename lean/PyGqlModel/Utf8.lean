/-
  MODEL of `ensure_unicode` / `Lexer.__init__` for `bytes` sources (with fix C01-B8): strict UTF-8 decoding
  (`bytes.decode("utf8")`: shortest form only, no surrogates, at most U+10FFFF) as a byte-by-byte state machine.
  A source that is not valid UTF-8 is rejected with `InvalidCharacter` at the CHARACTER offset of the first undecodable
  sequence (the number of characters decoded before it).  `encode` is `str.encode("utf8")` for texts of scalar values.
  Import-free (core Lean + Token).
-/
import PyGqlModel.Token
namespace PyGql.Utf8

/-- decoder state: continuation bytes still needed, bits gathered, admissible range of the NEXT byte, characters so far
    (reversed) -/
structure St where
  need : Nat := 0
  acc : Nat := 0
  lo : Nat := 0x80
  hi : Nat := 0xBF
  out : List Nat := []

/-- `source.decode("utf8")`: the text, or the character offset of the first undecodable sequence -/
def feed : St → List Nat → Except Nat Text
  | st, [] => if st.need = 0 then .ok st.out.reverse else .error st.out.length
  | st, b :: r =>
    if st.need = 0 then
      if b < 0x80 then feed { out := b :: st.out } r
      else if 0xC2 ≤ b ∧ b ≤ 0xDF then feed { need := 1, acc := b - 0xC0, out := st.out } r
      else if 0xE0 ≤ b ∧ b ≤ 0xEF then
        feed { need := 2, acc := b - 0xE0, lo := if b = 0xE0 then 0xA0 else 0x80, hi := if b = 0xED then 0x9F else 0xBF,
               out := st.out } r
      else if 0xF0 ≤ b ∧ b ≤ 0xF4 then
        feed { need := 3, acc := b - 0xF0, lo := if b = 0xF0 then 0x90 else 0x80, hi := if b = 0xF4 then 0x8F else 0xBF,
               out := st.out } r
      else .error st.out.length
    else if st.lo ≤ b ∧ b ≤ st.hi then
      if st.need = 1 then feed { out := (st.acc * 64 + (b - 0x80)) :: st.out } r
      else feed { need := st.need - 1, acc := st.acc * 64 + (b - 0x80), out := st.out } r
    else .error st.out.length

def decode (bs : List Nat) : Except Nat Text := feed {} bs

/-- a Unicode scalar value: at most U+10FFFF and not a surrogate (what `str.encode("utf8")` accepts) -/
def isScalar (c : Nat) : Bool := c < 0x110000 && !(0xD800 ≤ c && c ≤ 0xDFFF)

/-- `chr(c).encode("utf8")` -/
def encodeChar (c : Nat) : List Nat :=
  if c < 0x80 then [c]
  else if c < 0x800 then [0xC0 + c / 64, 0x80 + c % 64]
  else if c < 0x10000 then [0xE0 + c / 4096, 0x80 + c / 64 % 64, 0x80 + c % 64]
  else [0xF0 + c / 262144, 0x80 + c / 4096 % 64, 0x80 + c / 64 % 64, 0x80 + c % 64]

/-- `text.encode("utf8")` -/
def encode (t : Text) : List Nat := t.flatMap encodeChar

end PyGql.Utf8

/-
  Token-level model of `py_gql/lang/parser.py` — part 3: type-system definitions and extensions.
  L5 (`"implements"` string), L7 (`extend schema` alone) and L8 (`enum E { true }`) are modelled as FIXED
  (`proposed_fixes/C01-L5|L7|L8.patch`).
-/
import PyGqlModel.ParseExec
namespace PyGql.Parse
open PyGql PyGql.Ast

/-- `parse_description` -/
def parseDescription (fl : Flags) : P (Option StringValue) := do
  let next ← peek
  if next.kind = .string ∨ next.kind = .blockString then do
    let s ← parseStringLiteral fl
    pure (some s)
  else pure none

/-- `parse_operation_type_definition` -/
def parseOperationTypeDefinition (fl : Flags) : P OperationTypeDefinition := do
  let start ← peek
  let operation ← parseOperationType
  let _ ← expect .colon
  let type_ ← parseNamedType fl
  pure { operation := operation, type := type_, loc := ← mkLoc fl start }

/-- `parse_schema_definition` -/
def parseSchemaDefinition (fl : Flags) (fuel : Nat) : P Definition := do
  let start ← peek
  let _ ← expectKeyword K.schema
  let directives ← parseDirectives fl fuel true
  let operationTypes ← many fuel .curlyL (parseOperationTypeDefinition fl) .curlyR
  pure (.schemaDefinition directives operationTypes (← mkLoc fl start))

/-- `parse_scalar_type_definition` -/
def parseScalarTypeDefinition (fl : Flags) (fuel : Nat) : P Definition := do
  let start ← peek
  let desc ← parseDescription fl
  let _ ← expectKeyword K.scalar
  let name ← parseName fl
  let directives ← parseDirectives fl fuel true
  pure (.scalarTypeDefinition desc name directives (← mkLoc fl start))

/-- the `while True: types.append(parse_named_type()); if not skip(Ampersand): break` loop -/
def implementsLoop (fl : Flags) : Nat → P (List NamedType)
  | 0 => fail "fuel"
  | n + 1 => do
    let t ← parseNamedType fl
    if (← skip .amp) then do
      let ts ← implementsLoop fl n
      pure (t :: ts)
    else pure [t]

/-- `parse_implements_interfaces`; L5 fixed: the keyword must be a `Name` token -/
def parseImplementsInterfaces (fl : Flags) (fuel : Nat) : P (List NamedType) := do
  let token ← peek
  if token.kind = .name ∧ token.value = K.implements then do
    let _ ← advance
    let _ ← skip .amp
    implementsLoop fl fuel
  else pure []

/-- `parse_input_value_definition` -/
def parseInputValueDefinition (fl : Flags) (fuel : Nat) : P InputValueDefinition := do
  let start ← peek
  let desc ← parseDescription fl
  let name ← parseName fl
  let _ ← expect .colon
  let type_ ← parseTypeReference fl fuel
  let defaultValue ←
    (do if (← skip .equals) then do
          let v ← parseValueLiteral fl fuel true
          pure (some v)
        else pure none : P (Option Value))
  let directives ← parseDirectives fl fuel true
  pure { description := desc, name := name, type := type_, defaultValue := defaultValue,
         directives := directives, loc := ← mkLoc fl start }

/-- `parse_argument_definitions` -/
def parseArgumentDefinitions (fl : Flags) (fuel : Nat) : P (List InputValueDefinition) := do
  if (← peek).kind = .parenL then many fuel .parenL (parseInputValueDefinition fl fuel) .parenR
  else pure []

/-- `parse_field_definition` -/
def parseFieldDefinition (fl : Flags) (fuel : Nat) : P FieldDefinition := do
  let start ← peek
  let desc ← parseDescription fl
  let name ← parseName fl
  let args ← parseArgumentDefinitions fl fuel
  let _ ← expect .colon
  let type_ ← parseTypeReference fl fuel
  let directives ← parseDirectives fl fuel true
  pure { description := desc, name := name, arguments := args, type := type_, directives := directives,
         loc := ← mkLoc fl start }

/-- `parse_fields_definition` -/
def parseFieldsDefinition (fl : Flags) (fuel : Nat) : P (List FieldDefinition) := do
  if (← peek).kind = .curlyL then many fuel .curlyL (parseFieldDefinition fl fuel) .curlyR
  else pure []

/-- `parse_object_type_definition` -/
def parseObjectTypeDefinition (fl : Flags) (fuel : Nat) : P Definition := do
  let start ← peek
  let desc ← parseDescription fl
  let _ ← expectKeyword K.type_
  let name ← parseName fl
  let interfaces ← parseImplementsInterfaces fl fuel
  let directives ← parseDirectives fl fuel true
  let fields ← parseFieldsDefinition fl fuel
  pure (.objectTypeDefinition desc name interfaces directives fields (← mkLoc fl start))

/-- `parse_interface_type_definition` -/
def parseInterfaceTypeDefinition (fl : Flags) (fuel : Nat) : P Definition := do
  let start ← peek
  let desc ← parseDescription fl
  let _ ← expectKeyword K.interface_
  let name ← parseName fl
  let directives ← parseDirectives fl fuel true
  let fields ← parseFieldsDefinition fl fuel
  pure (.interfaceTypeDefinition desc name directives fields (← mkLoc fl start))

/-- `parse_union_member_types` -/
def parseUnionMemberTypes (fl : Flags) (fuel : Nat) : P (List NamedType) := do
  if (← skip .equals) then delimitedList fuel .pipe (parseNamedType fl)
  else pure []

/-- `parse_union_type_definition` -/
def parseUnionTypeDefinition (fl : Flags) (fuel : Nat) : P Definition := do
  let start ← peek
  let desc ← parseDescription fl
  let _ ← expectKeyword K.union
  let name ← parseName fl
  let directives ← parseDirectives fl fuel true
  let types ← parseUnionMemberTypes fl fuel
  pure (.unionTypeDefinition desc name directives types (← mkLoc fl start))

/-- `parse_enum_value_definition`; L8 fixed: the name is an `EnumValue` (not `true`, `false`, `null`) -/
def parseEnumValueDefinition (fl : Flags) (fuel : Nat) : P EnumValueDefinition := do
  let start ← peek
  let desc ← parseDescription fl
  let token ← peek
  if token.kind = .name ∧ (token.value = K.true_ ∨ token.value = K.false_ ∨ token.value = K.null_) then
    fail "Unexpected enum value name"
  else do
    let name ← parseName fl
    let directives ← parseDirectives fl fuel true
    pure { description := desc, name := name, directives := directives, loc := ← mkLoc fl start }

/-- `parse_enum_values_definition` -/
def parseEnumValuesDefinition (fl : Flags) (fuel : Nat) : P (List EnumValueDefinition) := do
  if (← peek).kind = .curlyL then many fuel .curlyL (parseEnumValueDefinition fl fuel) .curlyR
  else pure []

/-- `parse_enum_type_definition` -/
def parseEnumTypeDefinition (fl : Flags) (fuel : Nat) : P Definition := do
  let start ← peek
  let desc ← parseDescription fl
  let _ ← expectKeyword K.enum_
  let name ← parseName fl
  let directives ← parseDirectives fl fuel true
  let values ← parseEnumValuesDefinition fl fuel
  pure (.enumTypeDefinition desc name directives values (← mkLoc fl start))

/-- `parse_input_fields_definition` -/
def parseInputFieldsDefinition (fl : Flags) (fuel : Nat) : P (List InputValueDefinition) := do
  if (← peek).kind = .curlyL then many fuel .curlyL (parseInputValueDefinition fl fuel) .curlyR
  else pure []

/-- `parse_input_object_type_definition` -/
def parseInputObjectTypeDefinition (fl : Flags) (fuel : Nat) : P Definition := do
  let start ← peek
  let desc ← parseDescription fl
  let _ ← expectKeyword K.input
  let name ← parseName fl
  let directives ← parseDirectives fl fuel true
  let fields ← parseInputFieldsDefinition fl fuel
  pure (.inputObjectTypeDefinition desc name directives fields (← mkLoc fl start))

/-- `parse_directive_location` -/
def parseDirectiveLocation (fl : Flags) : P Name := do
  let start ← peek
  let name ← parseName fl
  if name.value ∈ Generated.ParserTables.directiveLocations then pure name
  else failTokAt start "Unexpected Name"

/-- `parse_directive_locations` -/
def parseDirectiveLocations (fl : Flags) (fuel : Nat) : P (List Name) :=
  delimitedList fuel .pipe (parseDirectiveLocation fl)

/-- `parse_directive_definition` -/
def parseDirectiveDefinition (fl : Flags) (fuel : Nat) : P Definition := do
  let start ← peek
  let desc ← parseDescription fl
  let _ ← expectKeyword K.directive
  let _ ← expect .atSign
  let name ← parseName fl
  let args ← parseArgumentDefinitions fl fuel
  let _ ← expectKeyword K.on
  let locations ← parseDirectiveLocations fl fuel
  pure (.directiveDefinition desc name args locations (← mkLoc fl start))

/-- `parse_type_system_definition`: dispatch on the keyword after an optional description -/
def parseTypeSystemDefinition (fl : Flags) (fuel : Nat) : P Definition := do
  let next ← peek
  let keyword ← (if next.kind = .string ∨ next.kind = .blockString then peek2 else pure next : P Tok)
  if keyword.kind = .name then
    if keyword.value = K.schema then parseSchemaDefinition fl fuel
    else if keyword.value = K.scalar then parseScalarTypeDefinition fl fuel
    else if keyword.value = K.type_ then parseObjectTypeDefinition fl fuel
    else if keyword.value = K.interface_ then parseInterfaceTypeDefinition fl fuel
    else if keyword.value = K.union then parseUnionTypeDefinition fl fuel
    else if keyword.value = K.enum_ then parseEnumTypeDefinition fl fuel
    else if keyword.value = K.input then parseInputObjectTypeDefinition fl fuel
    else if keyword.value = K.directive then parseDirectiveDefinition fl fuel
    else failAt keyword "Unexpected token"
  else failAt keyword "Unexpected token"

/-! ### extensions -/

/-- `parse_schema_extension`; L7 fixed: at least one of directives / operation types -/
def parseSchemaExtension (fl : Flags) (fuel : Nat) : P Definition := do
  let start ← peek
  let _ ← expectKeyword K.extend
  let _ ← expectKeyword K.schema
  let directives ← parseDirectives fl fuel true
  let operationTypes ←
    (do if (← peek).kind = .curlyL then many fuel .curlyL (parseOperationTypeDefinition fl) .curlyR
        else pure [] : P (List OperationTypeDefinition))
  if directives.isEmpty ∧ operationTypes.isEmpty then fail "Unexpected token"
  else pure (.schemaExtension directives operationTypes (← mkLoc fl start))

/-- `parse_scalar_type_extension` -/
def parseScalarTypeExtension (fl : Flags) (fuel : Nat) : P Definition := do
  let start ← peek
  let _ ← expectKeyword K.extend
  let _ ← expectKeyword K.scalar
  let name ← parseName fl
  let directives ← parseDirectives fl fuel true
  if directives.isEmpty then failAt start "Unexpected token"
  else pure (.scalarTypeExtension name directives (← mkLoc fl start))

/-- `parse_object_type_extension` -/
def parseObjectTypeExtension (fl : Flags) (fuel : Nat) : P Definition := do
  let start ← peek
  let _ ← expectKeyword K.extend
  let _ ← expectKeyword K.type_
  let name ← parseName fl
  let interfaces ← parseImplementsInterfaces fl fuel
  let directives ← parseDirectives fl fuel true
  let fields ← parseFieldsDefinition fl fuel
  if interfaces.isEmpty ∧ directives.isEmpty ∧ fields.isEmpty then fail "Unexpected token"
  else pure (.objectTypeExtension name interfaces directives fields (← mkLoc fl start))

/-- `parse_interface_type_extension` -/
def parseInterfaceTypeExtension (fl : Flags) (fuel : Nat) : P Definition := do
  let start ← peek
  let _ ← expectKeyword K.extend
  let _ ← expectKeyword K.interface_
  let name ← parseName fl
  let directives ← parseDirectives fl fuel true
  let fields ← parseFieldsDefinition fl fuel
  if directives.isEmpty ∧ fields.isEmpty then fail "Unexpected token"
  else pure (.interfaceTypeExtension name directives fields (← mkLoc fl start))

/-- `parse_union_type_extension` -/
def parseUnionTypeExtension (fl : Flags) (fuel : Nat) : P Definition := do
  let start ← peek
  let _ ← expectKeyword K.extend
  let _ ← expectKeyword K.union
  let name ← parseName fl
  let directives ← parseDirectives fl fuel true
  let types ← parseUnionMemberTypes fl fuel
  if directives.isEmpty ∧ types.isEmpty then fail "Unexpected token"
  else pure (.unionTypeExtension name directives types (← mkLoc fl start))

/-- `parse_enum_type_extension` -/
def parseEnumTypeExtension (fl : Flags) (fuel : Nat) : P Definition := do
  let start ← peek
  let _ ← expectKeyword K.extend
  let _ ← expectKeyword K.enum_
  let name ← parseName fl
  let directives ← parseDirectives fl fuel true
  let values ← parseEnumValuesDefinition fl fuel
  if directives.isEmpty ∧ values.isEmpty then fail "Unexpected token"
  else pure (.enumTypeExtension name directives values (← mkLoc fl start))

/-- `parse_input_object_type_extension` -/
def parseInputObjectTypeExtension (fl : Flags) (fuel : Nat) : P Definition := do
  let start ← peek
  let _ ← expectKeyword K.extend
  let _ ← expectKeyword K.input
  let name ← parseName fl
  let directives ← parseDirectives fl fuel true
  let fields ← parseInputFieldsDefinition fl fuel
  if directives.isEmpty ∧ fields.isEmpty then failTokAt start "Unexpected token"
  else pure (.inputObjectTypeExtension name directives fields (← mkLoc fl start))

/-- `parse_type_system_extension`: dispatch on `peek(2)` -/
def parseTypeSystemExtension (fl : Flags) (fuel : Nat) : P Definition := do
  let keyword ← peek2
  if keyword.kind = .name then
    if keyword.value = K.schema then parseSchemaExtension fl fuel
    else if keyword.value = K.scalar then parseScalarTypeExtension fl fuel
    else if keyword.value = K.type_ then parseObjectTypeExtension fl fuel
    else if keyword.value = K.interface_ then parseInterfaceTypeExtension fl fuel
    else if keyword.value = K.union then parseUnionTypeExtension fl fuel
    else if keyword.value = K.enum_ then parseEnumTypeExtension fl fuel
    else if keyword.value = K.input then parseInputObjectTypeExtension fl fuel
    else failAt keyword "Unexpected token"
  else failAt keyword "Unexpected token"

end PyGql.Parse

/-
  C15 — model of `schema/introspection.py` evaluated on the STANDARD introspection query
  (`utilities/introspection_query.py`) and of the meta-field lookup of
  `execution/wrappers.py: ResolutionContext.field_definition`.

  `introspect s includeDeprecated` is the `data` JSON the server answers for the standard query
  (with `includeDeprecated: <flag>` in the two places the query has it), for a schema description
  `s` that CONTAINS the built-in scalars, the introspection types and the specified directives
  (`dump_schema(schema, include_builtin=True)`), exactly as `Schema.types` / `Schema.directives` do.

  Resolver by resolver:
    __Schema.types / directives   sorted by name                       → `sortByName`
    __Type.kind                   `_resolve_type_kind` (EXTRACTED table) → `kindString`
    __Type.fields / enumValues    `includeDeprecated` filter            → `visibleFields`, `visibleValues`
    __Type.interfaces / possibleTypes / inputFields / ofType            → `fullType`, `typeRef`
    __InputValue.defaultValue     `_format_default_value` (TRANSLATED)  → `Generated.formatDefaultValue`
-/
import PyGqlModel.Generated.Introspection

namespace PyGql.Introspect
open PyGql PyGql.Generated.Introspection

/-! ### sorting by name (Python `sorted(..., key=lambda t: t.name)`; stable insertion sort) -/

def insertBy {α} (key : α → String) (x : α) : List α → List α
  | [] => [x]
  | y :: ys => if key x < key y then x :: y :: ys else y :: insertBy key x ys

/-- stable: equal keys keep their order (insert from the right) -/
def sortBy {α} (key : α → String) : List α → List α
  | [] => []
  | x :: xs => insertBy key x (sortBy key xs)

/-! ### JSON helpers -/

def jOptStr : Option String → J | some s => .str s | none => .null
def jChars : Option Chars → J | some cs => .str (String.ofList cs) | none => .null

/-! ### `_resolve_type_kind` through the extracted table -/

def kindOfTag (tag : String) : J :=
  match typeKindTable.find? (·.1 == tag) with
  | some (_, k) => .str k
  | none => .null          -- `raise TypeError` (the executor turns it into a field error; kind is non-null)

def kindString (k : Kind) : J := kindOfTag k.toString

/-- kind / name of a type expression (named types are looked up in the schema) -/
def refKind (s : SchemaD) : Ty → J
  | .named n => match s.findType n with | some td => kindString td.kind | none => .null
  | .list _ => kindOfTag "list"
  | .nonNull _ => kindOfTag "nonNull"

def refName : Ty → J
  | .named n => .str n
  | _ => .null

/-- fragment `TypeRef`: `kind name ofType { kind name ofType { … } }`, `levels` levels deep (the standard
    query has 8); the innermost level has no `ofType` key at all. -/
def typeRef (s : SchemaD) : Nat → Ty → J
  | 0, _ => .null
  | 1, t => .obj [("kind", refKind s t), ("name", refName t)]
  | n+2, t => .obj [("kind", refKind s t), ("name", refName t),
                   ("ofType", match t with
                              | .named _ => .null
                              | .list u => typeRef s (n+1) u
                              | .nonNull u => typeRef s (n+1) u)]

def typeRefLevels : Nat := 8

/-- fragment `InputValue` -/
def inputValue (s : SchemaD) (a : ArgD) : J :=
  .obj [("name", .str a.name), ("description", jOptStr a.desc), ("type", typeRef s typeRefLevels a.type),
        ("defaultValue", jChars (formatDefaultValue s a.hasDefault a.default a.type))]

def fieldJ (s : SchemaD) (f : FieldD) : J :=
  .obj [("name", .str f.name), ("description", jOptStr f.desc), ("args", .arr (f.args.map (inputValue s))),
        ("type", typeRef s typeRefLevels f.type), ("isDeprecated", .bool f.deprecated.isSome),
        ("deprecationReason", jOptStr f.deprecated)]

def enumValueJ (v : EnumValD) : J :=
  .obj [("name", .str v.name), ("description", jOptStr v.desc), ("isDeprecated", .bool v.deprecated.isSome),
        ("deprecationReason", jOptStr v.deprecated)]

/-- `[f for f in type_.fields if (not f.deprecated) or args.get("includeDeprecated")]` -/
def visibleFields (incl : Bool) (fs : List FieldD) : List FieldD := fs.filter fun f => !f.deprecated.isSome || incl
def visibleValues (incl : Bool) (vs : List EnumValD) : List EnumValD := vs.filter fun v => !v.deprecated.isSome || incl

/-- `Schema.get_possible_types`, then sorted by name -/
def possibleTypes (s : SchemaD) (t : TypeD) : List String :=
  match t.kind with
  | .union => sortBy id t.members
  | .interface => sortBy id ((s.types.filter fun o => o.kind == .object && o.interfaces.contains t.name).map (·.name))
  | _ => []

/-- fragment `FullType` -/
def fullType (s : SchemaD) (incl : Bool) (t : TypeD) : J :=
  .obj [("kind", kindString t.kind), ("name", .str t.name), ("description", jOptStr t.desc),
        ("fields", if t.kind == .object || t.kind == .interface then .arr ((visibleFields incl t.fields).map (fieldJ s)) else .null),
        ("inputFields", if t.kind == .input then .arr (t.inputFields.map (inputValue s)) else .null),
        ("interfaces", if t.kind == .object then .arr (t.interfaces.map fun i => typeRef s typeRefLevels (.named i)) else .null),
        ("enumValues", if t.kind == .enum then .arr ((visibleValues incl t.values).map enumValueJ) else .null),
        ("possibleTypes", if t.kind == .union || t.kind == .interface
                          then .arr ((possibleTypes s t).map fun n => typeRef s typeRefLevels (.named n)) else .null)]

def directiveJ (s : SchemaD) (d : DirectiveD) : J :=
  .obj [("name", .str d.name), ("description", jOptStr d.desc), ("locations", .arr (d.locations.map .str)),
        ("args", .arr (d.args.map (inputValue s)))]

def rootRef : Option String → J
  | some n => .obj [("name", .str n)]
  | none => .null

/-- the `__schema` object of the standard query -/
def schemaJ (s : SchemaD) (incl : Bool) : J :=
  .obj [("queryType", rootRef s.query), ("mutationType", rootRef s.mutation), ("subscriptionType", rootRef s.subscription),
        ("types", .arr ((sortBy (·.name) s.types).map (fullType s incl))),
        ("directives", .arr ((sortBy (·.name) s.directives).map (directiveJ s)))]

/-- `data` of `graphql(schema, introspection_query())` -/
def introspect (s : SchemaD) (includeDeprecated : Bool) : J := .obj [("__schema", schemaJ s includeDeprecated)]

/-- `data.__type` of `{ __type(name: n) { ...FullType } }`: the resolver is `info.schema.types.get(name)`, so a
    name that is not (or no longer) in the type map — unknown, removed / hidden type, empty string — resolves to
    null; the built-in scalars and the introspection types are in the map and resolve. -/
def typeByName (s : SchemaD) (incl : Bool) (n : String) : J :=
  match s.findType n with
  | some t => fullType s incl t
  | none => .null

/-! ### `ResolutionContext.field_definition` -/

inductive FieldDef where
  | schemaField      -- SCHEMA_INTROSPECTION_FIELD
  | typeField        -- TYPE_INTROSPECTION_FIELD
  | typenameField    -- TYPE_NAME_INTROSPECTION_FIELD
  | ordinary (f : FieldD)
  deriving Repr, Inhabited

/-- result of `field_definition`: a definition, `None`, or the `UnboundLocalError` Python raises when a meta
    name falls through the if/elif chain (e.g. `__schema` below the query type with introspection enabled). -/
inductive FDResult where
  | ok (d : Option FieldDef)
  | unbound
  deriving Repr, Inhabited

def metaTarget (t : String) : Option FieldDef :=
  if t == "SCHEMA_INTROSPECTION_FIELD" then some .schemaField
  else if t == "TYPE_INTROSPECTION_FIELD" then some .typeField
  else if t == "TYPE_NAME_INTROSPECTION_FIELD" then some .typenameField
  else none

/-- the if/elif chain of the meta branch, walked over the EXTRACTED `metaChain` -/
def walkChain (disable isQuery : Bool) (name : String) : List (String × String × Bool) → FDResult
  | [] => .unbound
  | (tgt, tested, needsQ) :: rest =>
    if tgt == "disabled" then (if disable then .ok none else walkChain disable isQuery name rest)
    else if tested == name && (!needsQ || isQuery) then .ok (metaTarget tgt)
    else walkChain disable isQuery name rest

def isMeta (name : String) : Bool := metaFieldNames.contains name

def fieldDefinition (s : SchemaD) (disable : Bool) (parent : TypeD) (name : String) : FDResult :=
  if isMeta name then walkChain disable (s.query == some parent.name) name metaChain
  else .ok ((parent.fields.find? (·.name == name)).map .ordinary)

/-- `Executor._iterate_fields` over the grouped fields `(response key, field name)`: the entries that are
    executed, or `none` when `field_definition` raises. -/
def iterateFields (s : SchemaD) (disable : Bool) (parent : TypeD) : List (String × String) → Option (List (String × FieldDef))
  | [] => some []
  | (key, name) :: rest =>
    match fieldDefinition s disable parent name with
    | .unbound => none
    | .ok none => iterateFields s disable parent rest
    | .ok (some d) => (iterateFields s disable parent rest).map ((key, d) :: ·)

end PyGql.Introspect

/-
  Minimal import-free JSON (integers only) used by the line-protocol drivers.
  Not part of any model: this is protocol glue (trusted base: harness).
-/
namespace PyGql

inductive J where
  | null
  | bool (b : Bool)
  | num (n : Int)
  | str (s : String)
  | arr (a : List J)
  | obj (kvs : List (String × J))
  deriving Repr, Inhabited, BEq

namespace J

private def hexDigit (n : Nat) : Char :=
  if n < 10 then Char.ofNat (48 + n) else Char.ofNat (87 + n)

private def escChar (acc : String) (c : Char) : String :=
  if c == '"' then acc ++ "\\\""
  else if c == '\\' then acc ++ "\\\\"
  else if c == '\n' then acc ++ "\\n"
  else if c == '\r' then acc ++ "\\r"
  else if c == '\t' then acc ++ "\\t"
  else if c.toNat < 32 || c.toNat == 127 then
    let n := c.toNat
    acc ++ "\\u00" |>.push (hexDigit (n / 16)) |>.push (hexDigit (n % 16))
  else acc.push c

def escape (s : String) : String := s.foldl escChar ""

partial def render : J → String
  | .null => "null"
  | .bool true => "true"
  | .bool false => "false"
  | .num n => toString n
  | .str s => "\"" ++ escape s ++ "\""
  | .arr a => "[" ++ ",".intercalate (a.map render) ++ "]"
  | .obj kvs => "{" ++ ",".intercalate (kvs.map fun (k, v) => "\"" ++ escape k ++ "\":" ++ render v) ++ "}"

/-! ### parser over `Array Char` -/

private abbrev P := Array Char

private partial def skipWs (s : P) (i : Nat) : Nat :=
  if h : i < s.size then
    let c := s[i]
    if c == ' ' || c == '\n' || c == '\r' || c == '\t' then skipWs s (i+1) else i
  else i

private def hexVal (c : Char) : Option Nat :=
  let n := c.toNat
  if 48 ≤ n && n ≤ 57 then some (n - 48)
  else if 97 ≤ n && n ≤ 102 then some (n - 87)
  else if 65 ≤ n && n ≤ 70 then some (n - 55)
  else none

private def hex4 (s : P) (i : Nat) : Option Nat := do
  let a ← hexVal (← s[i]?)
  let b ← hexVal (← s[i+1]?)
  let c ← hexVal (← s[i+2]?)
  let d ← hexVal (← s[i+3]?)
  pure (((a * 16 + b) * 16 + c) * 16 + d)

private partial def parseStr (s : P) (i : Nat) (acc : String) : Option (String × Nat) :=
  match s[i]? with
  | none => none
  | some '"' => some (acc, i+1)
  | some '\\' =>
    match s[i+1]? with
    | some 'n' => parseStr s (i+2) (acc.push '\n')
    | some 'r' => parseStr s (i+2) (acc.push '\r')
    | some 't' => parseStr s (i+2) (acc.push '\t')
    | some 'b' => parseStr s (i+2) (acc.push (Char.ofNat 8))
    | some 'f' => parseStr s (i+2) (acc.push (Char.ofNat 12))
    | some '/' => parseStr s (i+2) (acc.push '/')
    | some '"' => parseStr s (i+2) (acc.push '"')
    | some '\\' => parseStr s (i+2) (acc.push '\\')
    | some 'u' =>
      match hex4 s (i+2) with
      | none => none
      | some hi =>
        if 0xD800 ≤ hi && hi < 0xDC00 then
          -- surrogate pair?
          match s[i+6]?, s[i+7]?, hex4 s (i+8) with
          | some '\\', some 'u', some lo =>
            if 0xDC00 ≤ lo && lo < 0xE000 then
              parseStr s (i+12) (acc.push (Char.ofNat (0x10000 + (hi - 0xD800) * 0x400 + (lo - 0xDC00))))
            else parseStr s (i+6) (acc.push (Char.ofNat 0xFFFD))
          | _, _, _ => parseStr s (i+6) (acc.push (Char.ofNat 0xFFFD))
        else if 0xDC00 ≤ hi && hi < 0xE000 then parseStr s (i+6) (acc.push (Char.ofNat 0xFFFD))
        else parseStr s (i+6) (acc.push (Char.ofNat hi))
    | _ => none
  | some c => parseStr s (i+1) (acc.push c)

private partial def parseDigits (s : P) (i : Nat) (acc : Nat) : Nat × Nat :=
  match s[i]? with
  | some c => if c.isDigit then parseDigits s (i+1) (acc * 10 + (c.toNat - 48)) else (acc, i)
  | none => (acc, i)

private def matchLit (s : P) (i : Nat) (lit : String) : Bool :=
  let l := lit.toList
  (List.range l.length).all fun k => s[i+k]? == l[k]?

mutual
private partial def parseVal (s : P) (i0 : Nat) : Option (J × Nat) :=
  let i := skipWs s i0
  match s[i]? with
  | none => none
  | some '"' => (parseStr s (i+1) "").map fun (x, j) => (J.str x, j)
  | some '[' =>
    let j := skipWs s (i+1)
    if s[j]? == some ']' then some (J.arr [], j+1) else parseArr s j #[]
  | some '{' =>
    let j := skipWs s (i+1)
    if s[j]? == some '}' then some (J.obj [], j+1) else parseObj s j #[]
  | some 't' => if matchLit s i "true" then some (J.bool true, i+4) else none
  | some 'f' => if matchLit s i "false" then some (J.bool false, i+5) else none
  | some 'n' => if matchLit s i "null" then some (J.null, i+4) else none
  | some '-' =>
    let (n, j) := parseDigits s (i+1) 0
    if j == i+1 then none else some (J.num (-(n : Int)), j)
  | some c =>
    if c.isDigit then
      let (n, j) := parseDigits s i 0
      some (J.num n, j)
    else none

private partial def parseArr (s : P) (i : Nat) (acc : Array J) : Option (J × Nat) :=
  match parseVal s i with
  | none => none
  | some (v, j) =>
    let j := skipWs s j
    match s[j]? with
    | some ',' => parseArr s (j+1) (acc.push v)
    | some ']' => some (J.arr (acc.push v).toList, j+1)
    | _ => none

private partial def parseObj (s : P) (i : Nat) (acc : Array (String × J)) : Option (J × Nat) :=
  let i := skipWs s i
  match s[i]? with
  | some '"' =>
    match parseStr s (i+1) "" with
    | none => none
    | some (k, j) =>
      let j := skipWs s j
      if s[j]? != some ':' then none else
      match parseVal s (j+1) with
      | none => none
      | some (v, j) =>
        let j := skipWs s j
        match s[j]? with
        | some ',' => parseObj s (j+1) (acc.push (k, v))
        | some '}' => some (J.obj (acc.push (k, v)).toList, j+1)
        | _ => none
  | _ => none
end

def parse (line : String) : Option J :=
  let s : P := line.toList.toArray
  match parseVal s 0 with
  | some (v, j) => if skipWs s j == s.size then some v else none
  | none => none

/-! ### accessors -/

def get? (j : J) (k : String) : Option J :=
  match j with
  | .obj kvs => (kvs.find? (·.1 == k)).map (·.2)
  | _ => none

def getD (j : J) (k : String) (d : J := .null) : J := (j.get? k).getD d

def asStr? : J → Option String | .str s => some s | _ => none
def asInt? : J → Option Int | .num n => some n | _ => none
def asNat? : J → Option Nat | .num n => if n ≥ 0 then some n.toNat else none | _ => none
def asBool? : J → Option Bool | .bool b => some b | _ => none
def asArr? : J → Option (List J) | .arr a => some a | _ => none
def asObj? : J → Option (List (String × J)) | .obj a => some a | _ => none
def isNull : J → Bool | .null => true | _ => false

def strD (j : J) (k : String) (d : String := "") : String := ((j.get? k).bind asStr?).getD d
def natD (j : J) (k : String) (d : Nat := 0) : Nat := ((j.get? k).bind asNat?).getD d
def intD (j : J) (k : String) (d : Int := 0) : Int := ((j.get? k).bind asInt?).getD d
def boolD (j : J) (k : String) (d : Bool := false) : Bool := ((j.get? k).bind asBool?).getD d
def arrD (j : J) (k : String) : List J := ((j.get? k).bind asArr?).getD []

/-- text as array of code points -/
def asText? : J → Option (List Nat)
  | .arr a => a.mapM asNat?
  | _ => none
def ofText (t : List Nat) : J := .arr (t.map fun n => .num (Int.ofNat n))
def textD (j : J) (k : String) : List Nat := ((j.get? k).bind asText?).getD []

def ofOpt {α} (f : α → J) : Option α → J | some a => f a | none => .null
def ofNat (n : Nat) : J := .num (Int.ofNat n)
def ofStrs (l : List String) : J := .arr (l.map .str)

end J
end PyGql

/-
  C19 — MODEL of depth limiting.

  Mirrors, function by function (quirks included):
    src/py_gql/utilities/collect_fields.py : `_skip_selection`, `_merge`,
        `collect_fields_untyped`, `selected_fields` (pattern = None)
    src/py_gql/utilities/max_depth.py      : `MaxDepthValidationRule.__call__`
        * `ruleOrig`  — the code of the unchanged tree (defect Q1), kept for the
                        machine-checked refutations;
        * `nestingLevels`, `rule` — the code after proposed_fixes/C19-Q1.patch.

  The document type is the minimal executable-document AST sufficient for the
  property: type conditions, arguments and unrelated directives are dropped
  (the untyped collection never looks at them).

  Python exceptions are explicit: `Err.recursion` (unbounded recursion = fuel
  exhausted), `Err.coercion` (`CoercionError`: directive variable not provided),
  `Err.value` (`ValueError`: `max()` of an empty sequence), `Err.index`.
  Import-free (core Lean only).
-/
import PyGqlModel.Generated.DepthVariant

namespace PyGql.Depth

/-! ### minimal executable-document AST -/

/-- the `if:` argument of `@skip` / `@include` -/
inductive Cond where
  | lit (b : Bool)
  | var (name : String)
  deriving Repr, DecidableEq, Inhabited

/-- first `@skip` and first `@include` of a node (`find_one`) -/
structure Dirs where
  skip : Option Cond := none
  incl : Option Cond := none
  deriving Repr, DecidableEq, Inhabited

inductive Sel where
  /-- `sub = []` stands for `selection_set is None` (an empty selection set is not parseable) -/
  | field (alias : Option String) (name : String) (dirs : Dirs) (sub : List Sel)
  | inline (dirs : Dirs) (sels : List Sel)
  | spread (name : String) (dirs : Dirs)
  deriving Repr, Inhabited

structure Frag where
  name : String
  sels : List Sel
  deriving Repr, Inhabited

structure Op where
  name : Option String
  sels : List Sel
  deriving Repr, Inhabited

structure Doc where
  ops : List Op
  frags : List Frag
  deriving Repr, Inhabited

/-- variables: name → bool (the property quantifies over the values steering the directives) -/
abbrev Vars := List (String × Bool)

inductive Err where
  | recursion | coercion | value | index
  deriving Repr, DecidableEq, Inhabited

deriving instance DecidableEq for Except

def Err.toString : Err → String
  | .recursion => "recursion" | .coercion => "coercion" | .value => "value" | .index => "index"

/-- `Document.fragments[name]` — a dict comprehension in definition order: the LAST definition wins. -/
def lookupFrag (frags : List Frag) (name : String) : Option Frag :=
  frags.reverse.find? (fun f => f.name == name)

/-! ### `_skip_selection` -/

/-- `coerce_argument_values` for the single `if: Boolean!` argument (no default). -/
def evalCond (vars : Vars) : Cond → Except Err Bool
  | .lit b => .ok b
  | .var n => match vars.lookup n with
    | some b => .ok b
    | none => .error .coercion

def evalOpt (vars : Vars) : Option Cond → Except Err (Option Bool)
  | none => .ok none
  | some c => match evalCond vars c with
    | .ok b => .ok (some b)
    | .error e => .error e

/-- `_skip_selection`: both directives are evaluated (skip first), then
    `skipped or (not included)`. -/
def skipSelection (d : Dirs) (vars : Vars) : Except Err Bool :=
  match evalOpt vars d.skip with
  | .error e => .error e
  | .ok skip =>
    match evalOpt vars d.incl with
    | .error e => .error e
    | .ok incl => .ok (skip.getD false || !(incl.getD true))

/-! ### grouped fields (an `OrderedDict[str, List[Field]]`) -/

/-- a collected `ast.Field` (directives are no longer looked at) -/
structure Fld where
  alias : Option String
  name : String
  sub : List Sel
  deriving Repr, Inhabited

abbrev Grouped := List (String × List Fld)

/-- `if key not in into: into[key] = []` ; `into[key].extend(fs)` -/
def extendKey : Grouped → String → List Fld → Grouped
  | [], key, fs => [(key, fs)]
  | (k, xs) :: rest, key, fs =>
    if k == key then (k, xs ++ fs) :: rest else (k, xs) :: extendKey rest key fs

/-- `_merge(groups, into=...)` -/
def merge (groups into : Grouped) : Grouped :=
  groups.foldl (fun acc kv => extendKey acc kv.1 kv.2) into

/-- `Field.response_name` -/
def responseName (alias : Option String) (name : String) : String := alias.getD name

/-! ### `collect_fields_untyped` -/

/-- (grouped_fields, the `_seen_fragments` set as an insertion-ordered list) -/
abbrev CState := Grouped × List String

/-- `for selection in selections:` with early exit on an exception -/
def loopM {σ α : Type} (step : σ → α → Except Err σ) : σ → List α → Except Err σ
  | st, [] => .ok st
  | st, s :: ss =>
    match step st s with
    | .error e => .error e
    | .ok st' => loopM step st' ss

/-- what the callee's `_seen_fragments = _seen_fragments or set()` means for the caller:
    an EMPTY set is replaced by a fresh one in the callee (additions invisible to the
    caller), a non-empty one is shared. -/
def seenAfterCall (mine callee : List String) : List String :=
  -- EXTRACTED: `if _seen_fragments is None: _seen_fragments = set()` (C19-H2.patch: the set is always shared)
  -- vs `_seen_fragments = _seen_fragments or set()` (an empty set is replaced by a private one)
  if PyGql.Generated.DepthVariant.sharedSeen then callee
  else if mine.isEmpty then mine else callee

def setAdd (s : List String) (x : String) : List String :=
  if s.contains x then s else s ++ [x]

/-- body of the loop of `collect_fields_untyped`; `rec` is the recursive call. -/
def collectStep (rec : List Sel → List String → Except Err CState)
    (frags : List Frag) (vars : Vars) (st : CState) : Sel → Except Err CState
  | .field alias name dirs sub =>
    match skipSelection dirs vars with
    | .error e => .error e
    | .ok true => .ok st
    | .ok false => .ok (extendKey st.1 (responseName alias name) [⟨alias, name, sub⟩], st.2)
  | .inline dirs sels =>
    match skipSelection dirs vars with
    | .error e => .error e
    | .ok true => .ok st
    | .ok false =>
      match rec sels st.2 with
      | .error e => .error e
      | .ok (g, seen') => .ok (merge g st.1, seenAfterCall st.2 seen')
  | .spread name dirs =>
    match skipSelection dirs vars with
    | .error e => .error e
    | .ok true => .ok st
    | .ok false =>
      if st.2.contains name then .ok st
      else
        match lookupFrag frags name with
        | none => .ok st     -- `except KeyError: continue`
        | some fr =>
          match rec fr.sels st.2 with
          | .error e => .error e
          | .ok (g, seen') => .ok (merge g st.1, setAdd (seenAfterCall st.2 seen') name)

/-- `collect_fields_untyped(selections, fragments, variables, _seen_fragments)`.
    Fuel = Python's call stack: `0` is a `RecursionError` (cyclic fragments: the name is
    added to `_seen_fragments` only AFTER the recursive call returns). -/
def collectFieldsUntyped : Nat → List Sel → List Frag → Vars → List String → Except Err CState
  | 0, _, _, _, _ => .error .recursion
  | fuel + 1, sels, frags, vars, seen =>
    loopM (collectStep (fun ss sn => collectFieldsUntyped fuel ss frags vars sn) frags vars) ([], seen) sels

/-! ### `selected_fields`

  `selectedFieldsOrig` — the code before proposed_fixes/C19-Q1sf.patch (descends into `fields[0]`
  only; this is what the UNCHANGED depth rule measured through);
  `selectedPaths` / `selectedFields` — after it (`_selected_paths` descends into the merged
  sub-selections of a response-key group). `pat` is the compiled `pattern` as a predicate on the
  path (`fun _ => true` for `pattern=None`). -/

/-- `(not maxdepth) or len(_path) < (maxdepth - 1)`; `maxdepth = 0` also stands for `None`. -/
def descend (maxdepth : Nat) (pathLen : Nat) : Bool :=
  maxdepth == 0 || decide (pathLen + 1 < maxdepth)

def selectedLoopOrig (rec : List Sel → List String → Except Err (List (List String)))
    (maxdepth : Nat) (path : List String) : List (List String) → Grouped → Except Err (List (List String))
  | acc, [] => .ok acc
  | acc, (_, fields) :: rest =>
    match fields with
    | [] => .error .index                    -- `fields[0]`
    | child :: _ =>
      let childPath := path ++ [child.name]
      let acc := acc ++ [childPath]
      if descend maxdepth path.length then
        match rec child.sub childPath with
        | .error e => .error e
        | .ok more => selectedLoopOrig rec maxdepth path (acc ++ more) rest
      else selectedLoopOrig rec maxdepth path acc rest

/-- unchanged `selected_fields(field, fragments=, variables=, maxdepth=, _path=)` (pattern = None); the field
    is given by its sub-selection; a path is the list of its `/`-separated components. -/
def selectedFieldsOrig : Nat → List Sel → List Frag → Vars → Nat → List String → Except Err (List (List String))
  | 0, _, _, _, _, _ => .error .recursion
  | fuel + 1, sub, frags, vars, maxdepth, path =>
    match sub with
    | [] => .ok []                            -- `field.selection_set is None`
    | _ =>
      match collectFieldsUntyped (fuel + 1) sub frags vars [] with
      | .error e => .error e
      | .ok (collected, _) =>
        selectedLoopOrig (fun s p => selectedFieldsOrig fuel s frags vars maxdepth p) maxdepth path [] collected

/-- the loop of `_selected_paths` -/
def pathsLoop (rec : List Sel → List String → Except Err (List (List String)))
    (maxdepth : Nat) (pat : List String → Bool) (path : List String) :
    List (List String) → Grouped → Except Err (List (List String))
  | acc, [] => .ok acc
  | acc, (_, fields) :: rest =>
    match fields with
    | [] => .error .index                    -- `fields[0]`
    | child :: _ =>
      let childPath := path ++ [child.name]
      let acc := if pat childPath then acc ++ [childPath] else acc
      if descend maxdepth path.length then
        match rec (fields.flatMap (·.sub)) childPath with
        | .error e => .error e
        | .ok more => pathsLoop rec maxdepth pat path (acc ++ more) rest
      else pathsLoop rec maxdepth pat path acc rest

/-- `_selected_paths(selections, fragments, variables, maxdepth, pattern, path)` -/
def selectedPaths : Nat → List Sel → List Frag → Vars → Nat → (List String → Bool) → List String →
    Except Err (List (List String))
  | 0, _, _, _, _, _, _ => .error .recursion
  | fuel + 1, sels, frags, vars, maxdepth, pat, path =>
    match collectFieldsUntyped (fuel + 1) sels frags vars [] with
    | .error e => .error e
    | .ok (collected, _) =>
      pathsLoop (fun s p => selectedPaths fuel s frags vars maxdepth pat p) maxdepth pat path [] collected

/-- `selected_fields(field, ...)` after the fix; `sub = []` is `field.selection_set is None` -/
def selectedFields (fuel : Nat) (sub : List Sel) (frags : List Frag) (vars : Vars) (maxdepth : Nat)
    (pat : List String → Bool) (path : List String) : Except Err (List (List String)) :=
  match sub with
  | [] => .ok []
  | _ => selectedPaths fuel sub frags vars maxdepth pat path

/-! ### `MaxDepthValidationRule.__call__` -/

/-- `if self.operation_name and not (op.name and op.name.value == self.operation_name): continue` -/
def opSelected (filter : Option String) (op : Op) : Bool :=
  match filter with
  | none => true
  | some f => if f == "" then true else op.name == some f

def maxList : List Nat → Nat
  | [] => 0
  | x :: xs => max x (maxList xs)

/-- unchanged tree: paths of the DIRECT `Field` children only (their own directives are not
    evaluated), `max()` over a possibly empty generator. -/
def depthOrig (fuel : Nat) (op : Op) (frags : List Frag) (vars : Vars) : Except Err Nat :=
  match loopM (fun (acc : List (List String)) (s : Sel) =>
      match s with
      | .field _ _ _ sub =>
        match selectedFieldsOrig fuel sub frags vars 0 [] with
        | .error e => .error e
        | .ok ps => .ok (acc ++ ps)
      | _ => .ok acc) [] op.sels with
  | .error e => .error e
  | .ok [] => .error .value                   -- `max()` of an empty sequence
  | .ok ps => .ok (maxList (ps.map List.length))   -- `x.count("/") + 1`

/-- the loop over `doc.definitions`; result: (index of the operation among the operations, depth)
    for every reported error, in order. -/
def ruleLoop (depthOf : Nat → Op → Except Err Nat) (limit : Nat) (filter : Option String) :
    Nat → List Op → Except Err (List (Nat × Nat))
  | _, [] => .ok []
  | i, op :: rest =>
    if opSelected filter op then
      match depthOf i op with
      | .error e => .error e
      | .ok d =>
        match ruleLoop depthOf limit filter (i + 1) rest with
        | .error e => .error e
        | .ok errs => .ok (if d > limit then (i, d) :: errs else errs)
    else ruleLoop depthOf limit filter (i + 1) rest

/-- `MaxDepthValidationRule(limit, operation_name=filter)(schema, doc, vars)` on the unchanged tree. -/
def ruleOrig (fuel limit : Nat) (filter : Option String) (doc : Doc) (vars : Vars) :
    Except Err (List (Nat × Nat)) :=
  ruleLoop (fun _ op => depthOrig fuel op doc.frags vars) limit filter 0 doc.ops

/-! #### after proposed_fixes/C19-Q1.patch -/

def levelsLoop (rec : List Sel → Except Err Nat) : Nat → Grouped → Except Err Nat
  | lv, [] => .ok lv
  | lv, (_, fields) :: rest =>
    match rec (fields.flatMap (·.sub)) with
    | .error e => .error e
    | .ok n => levelsLoop rec (max lv (1 + n)) rest

/-- `_nesting_levels(selections, fragments, variables)` -/
def nestingLevels : Nat → List Sel → List Frag → Vars → Except Err Nat
  | 0, _, _, _ => .error .recursion
  | fuel + 1, sels, frags, vars =>
    match collectFieldsUntyped (fuel + 1) sels frags vars [] with
    | .error e => .error e
    | .ok (collected, _) => levelsLoop (fun ss => nestingLevels fuel ss frags vars) 0 collected

/-- `depth = max(0, _nesting_levels(op.selection_set.selections, ...) - 1)` -/
def depthFixed (fuel : Nat) (op : Op) (frags : List Frag) (vars : Vars) : Except Err Nat :=
  match nestingLevels fuel op.sels frags vars with
  | .error e => .error e
  | .ok n => .ok (n - 1)

def rule (fuel limit : Nat) (filter : Option String) (doc : Doc) (vars : Vars) :
    Except Err (List (Nat × Nat)) :=
  ruleLoop (fun _ op => depthFixed fuel op doc.frags vars) limit filter 0 doc.ops

/-! #### after proposed_fixes/C19-Q1vars.patch: variables coerced per operation -/

/-- a variable definition of an operation, as far as `@skip/@include` can see it (Boolean variables):
    `$name: Boolean[!] [= default]` -/
structure VarDef where
  name : String
  nonNull : Bool
  default : Option Bool
  deriving Repr, DecidableEq, Inhabited

/-- `coerce_variable_values(schema, op, variables)` on Boolean variables: `none` = `VariablesCoercionError`
    (a required variable without default is missing); extra variables are filtered out. -/
def coerceVariableValues : List VarDef → Vars → Option Vars
  | [], _ => some []
  | d :: ds, vars =>
    match coerceVariableValues ds vars with
    | none => none
    | some rest =>
      match vars.lookup d.name with
      | some b => some ((d.name, b) :: rest)
      | none =>
        match d.default with
        | some v => some ((d.name, v) :: rest)
        | none => if d.nonNull then none else some rest

/-- `try: op_variables = coerce_variable_values(...) except VariablesCoercionError: op_variables = variables` -/
def effectiveVars (defs : List VarDef) (vars : Vars) : Vars :=
  (coerceVariableValues defs vars).getD vars

/-- the rule after C19-Q1vars.patch; `defs[i]` = variable definitions of the i-th operation -/
def ruleV (fuel limit : Nat) (filter : Option String) (doc : Doc) (defs : List (List VarDef)) (vars : Vars) :
    Except Err (List (Nat × Nat)) :=
  ruleLoop (fun i op => depthFixed fuel op doc.frags (effectiveVars (defs.getD i []) vars)) limit filter 0 doc.ops

/-! #### the pipeline `graphql_blocking(schema, doc, variables, validators=[default_validator, MaxDepthValidationRule(n, operation_name=filter)])` -/

/-- what `process_graphql_query` does with the validators' verdicts, as far as C19 can see -/
inductive Outcome where
  /-- an exception escapes `validate_ast` -/
  | raised (e : Err)
  /-- `_abort(errors=validation_result.errors)`: depth errors (operation index, depth) + number of other errors -/
  | rejected (depthErrors : List (Nat × Nat)) (otherErrors : Nat)
  /-- validation passed: the document goes to `execute` -/
  | executed
  deriving Repr, DecidableEq

/-- `validate_ast(schema, ast, validators=[default_validator, rule], variables=variables)` followed by the
    `if not validation_result: return _abort(...)` of `process_graphql_query` (after C19-Q1vars.patch the request
    variables reach the validators). The default validator is abstracted to the number of errors it reports
    (it ignores the variables; that it does not raise on parsed documents is C05's statement). -/
def outcomeOf (r : Except Err (List (Nat × Nat))) (defaultErrors : Nat) : Outcome :=
  match r with
  | .error e => .raised e
  | .ok errs => if defaultErrors = 0 ∧ errs = [] then .executed else .rejected errs defaultErrors

def pipeline (fuel n : Nat) (filter : Option String) (doc : Doc) (defs : List (List VarDef)) (vars : Vars)
    (defaultErrors : Nat) : Outcome :=
  outcomeOf (ruleV fuel n filter doc defs vars) defaultErrors

/-- the request is rejected with (at least) a depth error -/
def Outcome.depthRejected : Outcome → Bool
  | .rejected (_ :: _) _ => true
  | _ => false

/-! #### arbitrary JSON request variables: what the rule does when they do NOT coerce

  `VarDef`/`Vars` above cover Boolean variables with boolean values. Here the request variables are raw JSON
  values and operations may declare `Int` variables too: `coerce_variable_values` can now fail for SOME
  operations of a document (missing required variable, explicit `null` for a non-null type, wrong JSON kind),
  and the rule then falls back to the RAW mapping, whose values `_skip_selection` uses by Python truthiness;
  an unavailable (missing or `null`) directive variable makes `coerce_argument_values` raise `CoercionError`. -/

inductive RawVal where
  | bool (b : Bool) | null | int (n : Int) | str (s : String)
  /-- a JSON array / object: only its emptiness matters (truthiness) -/
  | list (nonEmpty : Bool)
  deriving Repr, DecidableEq, Inhabited

/-- Python truthiness of a JSON value -/
def RawVal.truthy : RawVal → Bool
  | .bool b => b | .null => false | .int n => n != 0 | .str s => s != "" | .list ne => ne

inductive VTy where
  | boolean | int
  deriving Repr, DecidableEq, Inhabited

/-- `$name: Boolean|Int [!] [= default]` (the default is a literal of the variable's type) -/
structure VarDefR where
  name : String
  ty : VTy
  nonNull : Bool
  default : Option RawVal
  deriving Repr, DecidableEq, Inhabited

abbrev RawVars := List (String × RawVal)

/-- `coerce_value(value, type)` for a non-null JSON value: `Boolean.parse` = `_parse_bool` (containers rejected,
    otherwise `bool(value)`); `Int.parse` = `coerce_int` (ints — `True`/`False` included — and integer strings
    within 32 bits; float forms are not modelled). `none` = the value does not coerce. -/
def coerceScalar : VTy → RawVal → Option RawVal
  | .boolean, .list _ => none
  | .boolean, v => some (.bool v.truthy)
  | .int, .int n => if decide (-2147483648 ≤ n) && decide (n ≤ 2147483647) then some (.int n) else none
  | .int, .bool b => some (.int (if b then 1 else 0))
  | .int, .str s =>
    match s.toInt? with
    | some n => if decide (-2147483648 ≤ n) && decide (n ≤ 2147483647) then some (.int n) else none
    | none => none
  | .int, _ => none

/-- the view `_skip_selection` has of a variables mapping: available (non-null) values by truthiness;
    a missing or `null` variable is unavailable (`CoercionError` when a directive needs it) -/
def viewOf : RawVars → Vars
  | [] => []
  | (n, v) :: rest => match v with
    | .null => viewOf rest
    | v => (n, v.truthy) :: viewOf rest

/-- `coerce_variable_values(schema, op, variables)` as a view; `none` = `VariablesCoercionError` -/
def coerceRaw : List VarDefR → RawVars → Option RawVars
  | [], _ => some []
  | d :: ds, raw =>
    match coerceRaw ds raw with
    | none => none
    | some rest =>
      match raw.lookup d.name with
      | none =>
        match d.default with
        | some v => some ((d.name, v) :: rest)
        | none => if d.nonNull then none else some rest
      | some .null => if d.nonNull then none else some ((d.name, .null) :: rest)
      | some v =>
        match coerceScalar d.ty v with
        | some c => some ((d.name, c) :: rest)
        | none => none

/-- `try: coerce_variable_values(...) except VariablesCoercionError: op_variables = variables` -/
def effectiveVarsR (defs : List VarDefR) (raw : RawVars) : Vars :=
  viewOf ((coerceRaw defs raw).getD raw)

def ruleR (fuel limit : Nat) (filter : Option String) (doc : Doc) (defs : List (List VarDefR)) (raw : RawVars) :
    Except Err (List (Nat × Nat)) :=
  ruleLoop (fun i op => depthFixed fuel op doc.frags (effectiveVarsR (defs.getD i []) raw)) limit filter 0 doc.ops

def pipelineR (fuel n : Nat) (filter : Option String) (doc : Doc) (defs : List (List VarDefR)) (raw : RawVars)
    (defaultErrors : Nat) : Outcome :=
  outcomeOf (ruleR fuel n filter doc defs raw) defaultErrors

/-! #### after proposed_fixes/C19-Q1vars2.patch: the `skip_selection` hook of `collect_fields_untyped`

  `collect_fields_untyped(..., skip_selection=None)` evaluates `@skip/@include` with the given callable
  (default: the strict `_skip_selection`, which raises `CoercionError` on an unusable variable); the depth
  rule passes `_skip_unless_unknown`: a condition that cannot be evaluated KEEPS the selection. -/

/-- `_skip_unless_unknown(node, variables)` -/
def skipSelectionT (d : Dirs) (vars : Vars) : Except Err Bool :=
  match skipSelection d vars with
  | .ok b => .ok b
  | .error _ => .ok false          -- `except CoercionError: return False`

/-- body of the loop of `collect_fields_untyped` with `skip = skip_selection or _skip_selection` -/
def collectStepG (skipFn : Dirs → Vars → Except Err Bool)
    (rec : List Sel → List String → Except Err CState)
    (frags : List Frag) (vars : Vars) (st : CState) : Sel → Except Err CState
  | .field alias name dirs sub =>
    match skipFn dirs vars with
    | .error e => .error e
    | .ok true => .ok st
    | .ok false => .ok (extendKey st.1 (responseName alias name) [⟨alias, name, sub⟩], st.2)
  | .inline dirs sels =>
    match skipFn dirs vars with
    | .error e => .error e
    | .ok true => .ok st
    | .ok false =>
      match rec sels st.2 with
      | .error e => .error e
      | .ok (g, seen') => .ok (merge g st.1, seenAfterCall st.2 seen')
  | .spread name dirs =>
    match skipFn dirs vars with
    | .error e => .error e
    | .ok true => .ok st
    | .ok false =>
      if st.2.contains name then .ok st
      else
        match lookupFrag frags name with
        | none => .ok st
        | some fr =>
          match rec fr.sels st.2 with
          | .error e => .error e
          | .ok (g, seen') => .ok (merge g st.1, setAdd (seenAfterCall st.2 seen') name)

/-- `collect_fields_untyped(selections, fragments, variables, _seen_fragments, skip_selection=skipFn)` -/
def collectFieldsUntypedG (skipFn : Dirs → Vars → Except Err Bool) :
    Nat → List Sel → List Frag → Vars → List String → Except Err CState
  | 0, _, _, _, _ => .error .recursion
  | fuel + 1, sels, frags, vars, seen =>
    loopM (collectStepG skipFn (fun ss sn => collectFieldsUntypedG skipFn fuel ss frags vars sn) frags vars) ([], seen) sels

/-- `_nesting_levels` with `collect_fields_untyped(..., skip_selection=skipFn)` -/
def nestingLevelsG (skipFn : Dirs → Vars → Except Err Bool) : Nat → List Sel → List Frag → Vars → Except Err Nat
  | 0, _, _, _ => .error .recursion
  | fuel + 1, sels, frags, vars =>
    match collectFieldsUntypedG skipFn (fuel + 1) sels frags vars [] with
    | .error e => .error e
    | .ok (collected, _) => levelsLoop (fun ss => nestingLevelsG skipFn fuel ss frags vars) 0 collected

def depthFixedG (skipFn : Dirs → Vars → Except Err Bool) (fuel : Nat) (op : Op) (frags : List Frag) (vars : Vars) :
    Except Err Nat :=
  match nestingLevelsG skipFn fuel op.sels frags vars with
  | .error e => .error e
  | .ok n => .ok (n - 1)

/-- `_selected_paths(...)` calling `collect_fields_untyped(..., skip_selection=skipFn)` (since /repo 4c46ee1 the
    look-ahead helper passes the lenient `_skip_unless_unevaluable` = `skipSelectionT`) -/
def selectedPathsG (skipFn : Dirs → Vars → Except Err Bool) :
    Nat → List Sel → List Frag → Vars → Nat → (List String → Bool) → List String → Except Err (List (List String))
  | 0, _, _, _, _, _, _ => .error .recursion
  | fuel + 1, sels, frags, vars, maxdepth, pat, path =>
    match collectFieldsUntypedG skipFn (fuel + 1) sels frags vars [] with
    | .error e => .error e
    | .ok (collected, _) =>
      pathsLoop (fun s p => selectedPathsG skipFn fuel s frags vars maxdepth pat p) maxdepth pat path [] collected

def selectedFieldsG (skipFn : Dirs → Vars → Except Err Bool) (fuel : Nat) (sub : List Sel) (frags : List Frag)
    (vars : Vars) (maxdepth : Nat) (pat : List String → Bool) (path : List String) : Except Err (List (List String)) :=
  match sub with
  | [] => .ok []
  | _ => selectedPathsG skipFn fuel sub frags vars maxdepth pat path

/-- the rule after C19-Q1vars2.patch (raw JSON request variables, tolerant directive evaluation) -/
def ruleRT (fuel limit : Nat) (filter : Option String) (doc : Doc) (defs : List (List VarDefR)) (raw : RawVars) :
    Except Err (List (Nat × Nat)) :=
  ruleLoop (fun i op => depthFixedG skipSelectionT fuel op doc.frags (effectiveVarsR (defs.getD i []) raw))
    limit filter 0 doc.ops

def pipelineRT (fuel n : Nat) (filter : Option String) (doc : Doc) (defs : List (List VarDefR)) (raw : RawVars)
    (defaultErrors : Nat) : Outcome :=
  outcomeOf (ruleRT fuel n filter doc defs raw) defaultErrors

/-! ### fuel: a computable potential that bounds every recursion on acyclic documents -/

mutual
/-- potential of a selection under fragment weights `w` -/
def pot (w : String → Nat) : Sel → Nat
  | .field _ _ _ sub => 1 + potL w sub
  | .inline _ ss => 1 + potL w ss
  | .spread n _ => 1 + w n
def potL (w : String → Nat) : List Sel → Nat
  | [] => 0
  | s :: ss => max (pot w s) (potL w ss)
end

def wOf (tbl : List (String × Nat)) (n : String) : Nat := (tbl.lookup n).getD 0

def weightStep (frags : List Frag) (tbl : List (String × Nat)) : List (String × Nat) :=
  frags.map fun f => (f.name, potL (wOf tbl) f.sels)

def iter {α : Type} (f : α → α) : Nat → α → α
  | 0, a => a
  | n + 1, a => iter f n (f a)

/-- fragment weights: `length + 1` rounds of "weight = potential of the body" from 0 -/
def weights (frags : List Frag) : List (String × Nat) :=
  iter (weightStep frags) (frags.length + 1) []

/-- `w` dominates the potential of every fragment body: exists iff the defined fragments are acyclic -/
def Consistent (frags : List Frag) (w : String → Nat) : Prop :=
  ∀ f ∈ frags, potL w f.sels ≤ w f.name

/-- decidable acyclicity check (the computed weights are consistent) -/
def acyclic (frags : List Frag) : Bool :=
  frags.all fun f => decide (potL (wOf (weights frags)) f.sels ≤ wOf (weights frags) f.name)

/-- the fuel the driver uses: fragments + nesting (potential of the deepest operation) + 1 -/
def Doc.fuel (doc : Doc) : Nat :=
  maxList (doc.ops.map fun op => potL (wOf (weights doc.frags)) op.sels) + 1

/-! ### after proposed_fixes/C19-Q2.patch: a nesting budget makes the rule total on CYCLIC documents too

  `_nesting_levels(selections, fragments, variables, budget, memo)` and
  `collect_fields_untyped(..., _budget=budget)` raise `ExpansionBudgetExhausted` when the budget is used up
  (this IS the fuel of the functions above: `.error .recursion`); `__call__` catches it (and `RecursionError`) and
  reports the operation as unbounded. The per-operation `memo` is semantically transparent (a pure function of
  the selections for fixed fragments / variables) and is not modelled. -/

/-- `_static_nesting(selections)`: longest chain of nested selection sets as written (a spread counts 1) -/
def nestOf (sels : List Sel) : Nat := potL (fun _ => 0) sels

/-- `(len(fragments) + 2) * (1 + max(_static_nesting(d) for every operation and fragment definition))` -/
def Doc.budget (doc : Doc) : Nat :=
  (doc.frags.length + 2) *
    (1 + maxList (doc.ops.map (fun o => nestOf o.sels) ++ doc.frags.map (fun f => nestOf f.sels)))

/-- depth of an operation; `none` = the budget was used up ("depth is unbounded") -/
def depthFixedB (fuel : Nat) (op : Op) (frags : List Frag) (vars : Vars) : Except Err (Option Nat) :=
  match depthFixedG skipSelectionT fuel op frags vars with
  | .ok d => .ok (some d)
  | .error .recursion => .ok none        -- `except (ExpansionBudgetExhausted, RecursionError)`
  | .error e => .error e

/-- the loop over the operations; an unbounded operation is reported whatever the limit -/
def ruleLoopB (depthOf : Nat → Op → Except Err (Option Nat)) (limit : Nat) (filter : Option String) :
    Nat → List Op → Except Err (List (Nat × Option Nat))
  | _, [] => .ok []
  | i, op :: rest =>
    if opSelected filter op then
      match depthOf i op with
      | .error e => .error e
      | .ok d =>
        match ruleLoopB depthOf limit filter (i + 1) rest with
        | .error e => .error e
        | .ok errs =>
          .ok (match d with
            | none => (i, none) :: errs
            | some n => if n > limit then (i, some n) :: errs else errs)
    else ruleLoopB depthOf limit filter (i + 1) rest

/-- `MaxDepthValidationRule(limit, operation_name=filter)(schema, doc, raw)` after C19-Q2.patch -/
def ruleB (limit : Nat) (filter : Option String) (doc : Doc) (defs : List (List VarDefR)) (raw : RawVars) :
    Except Err (List (Nat × Option Nat)) :=
  ruleLoopB (fun i op => depthFixedB doc.budget op doc.frags (effectiveVarsR (defs.getD i []) raw))
    limit filter 0 doc.ops

/-- the pipeline with the repaired rule (an unbounded operation is a depth error like any other) -/
def pipelineB (n : Nat) (filter : Option String) (doc : Doc) (defs : List (List VarDefR)) (raw : RawVars)
    (defaultErrors : Nat) : Outcome :=
  outcomeOf (match ruleB n filter doc defs raw with
    | .error e => .error e
    | .ok errs => .ok (errs.map fun p => (p.1, p.2.getD 0))) defaultErrors

end PyGql.Depth

/-
  GraphQL type expressions (named types and the two wrappers), shared by the
  models of the differ (C20), schema validation (C13) and coercion (C07).
  Import-free.
-/
namespace PyGql

inductive Ty where
  | named (n : String)
  | list (t : Ty)
  | nonNull (t : Ty)
  deriving DecidableEq, Repr, Inhabited

namespace Ty

def isNamed : Ty → Bool | named _ => true | _ => false
def isList : Ty → Bool | list _ => true | _ => false
def isNonNull : Ty → Bool | nonNull _ => true | _ => false
def isWrapping (t : Ty) : Bool := t.isList || t.isNonNull

/-- Python `.type` of a wrapping type. On a named type Python raises
    `AttributeError`; the model returns the type itself (the correspondence check
    compares with the real functions on all small type pairs, exceptions included). -/
def inner : Ty → Ty | named n => named n | list t => t | nonNull t => t

/-- Python `.name` of a named type ("" stands for the AttributeError on wrappers). -/
def name : Ty → String | named n => n | _ => ""

/-- Python `type(a) == type(b)` on type expressions: same outermost constructor
    (all named types count as one class here; callers guard with `isinstance` first). -/
def sameCtor : Ty → Ty → Bool
  | named _, named _ => true | list _, list _ => true | nonNull _, nonNull _ => true | _, _ => false

def size : Ty → Nat | named _ => 1 | list t => t.size + 1 | nonNull t => t.size + 1

theorem size_pos (t : Ty) : 0 < t.size := by cases t <;> simp [size]

/-- well-formed: no non-null wrapper directly inside a non-null wrapper (the grammar
    cannot write `T!!`; `NonNullType(NonNullType(T))` has no SDL form) -/
def wf : Ty → Bool
  | named _ => true
  | list t => t.wf
  | nonNull t => !t.isNonNull && t.wf

/-- innermost named type -/
def base : Ty → String | named n => n | list t => t.base | nonNull t => t.base

def render : Ty → String
  | named n => n
  | list t => "[" ++ t.render ++ "]"
  | nonNull t => t.render ++ "!"

end Ty
end PyGql

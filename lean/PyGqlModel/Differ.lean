/-
  C20 — closure of the translated safe-change predicates, and their specification.
  `Generated/Differ.lean` (rewritten from the Python source on every run) holds the
  step functionals; recursion is closed here with fuel = sum of sizes.
-/
import PyGqlModel.Ty
import PyGqlModel.Generated.Differ

namespace PyGql.Differ
open PyGql PyGql.Generated.Differ

/-- `n` unfoldings of the two mutually recursive Python predicates. -/
def iter : Nat → (Ty → Ty → Bool) × (Ty → Ty → Bool)
  | 0 => (fun _ _ => false, fun _ _ => false)
  | n+1 => (safeInStep (iter n).1 (iter n).2, safeOutStep (iter n).1 (iter n).2)

/-- `_is_safe_input_type_change` -/
def safeIn (o n : Ty) : Bool := (iter (o.size + n.size)).1 o n
/-- `_is_safe_output_type_change` -/
def safeOut (o n : Ty) : Bool := (iter (o.size + n.size)).2 o n

/-! ### Specification: abstract values and what a type expression accepts -/

inductive Val where
  | null
  | leaf (n : String)
  | list (vs : List Val)
  deriving Repr, Inhabited

/-- value `v` is a legal value of type `t` (null allowed unless non-null; list items checked). WITHOUT list input
    coercion: a non-list value is NOT accepted where a list is expected (with it: `Props.C20.accC`,
    Props/C20_coercion.lean, where the input predicate is sound but no longer exact). NAMED types are compared by
    EQUALITY only: no covariance of an output position from an interface / union to one of its possible types
    (`pet: Pet` → `pet: Dog` is reported as a type change: over-reporting, never under-reporting) -/
def acc : Ty → Val → Bool
  | .named _, .null => true
  | .named n, .leaf m => n == m
  | .named _, .list _ => false
  | .list _, .null => true
  | .list _, .leaf _ => false
  | .list t, .list vs => vs.all (acc t)
  | .nonNull _, .null => false
  | .nonNull t, .leaf m => acc t (.leaf m)
  | .nonNull t, .list vs => acc t (.list vs)

/-- every value accepted at `o` is accepted at `n` (input positions: at least as permissive), on type expressions read
    WITHOUT list input coercion (`acc`) -/
def InCompat (o n : Ty) : Prop := ∀ v, acc o v = true → acc n v = true
/-- every value produced at `n` is a legal value of `o` (output positions: at least as strict) -/
def OutCompat (o n : Ty) : Prop := ∀ v, acc n v = true → acc o v = true

/-- syntactic characterisation: `a` is at least as strict as `b` -/
def sub : Ty → Ty → Bool
  | .named a, .named b => a == b
  | .named _, _ => false
  | .list a, .list b => sub a b
  | .list _, _ => false
  | .nonNull a, .nonNull b => sub a b
  | .nonNull a, .named b => sub a (.named b)
  | .nonNull a, .list b => sub a (.list b)

def listFree : Ty → Bool
  | .named _ => true
  | .list _ => false
  | .nonNull t => listFree t

/-- the severity table says BREAKING for this class (in the `required` column) -/
def severityOf (cls : String) (required : Bool) : Option Nat :=
  (severityTable.find? (·.1 == cls)).map fun r => if required then r.2.2 else r.2.1

end PyGql.Differ

/-
  C08 — finding E2 inside the model: a LIST completion that raises after earlier items' sub-resolvers
  were started.

  `Executor.complete_list_value` feeds `gather_values` with the GENERATOR
  `(complete_value(inner, path + [i], entry) for i, entry in enumerate(resolved_value))`. When, after
  `items` have been completed (their sub-field resolvers are submitted: pending Futures),
    * the lazy iterable returned by the resolver raises ResolverError mid-iteration, or
    * the next entry is of an abstract type whose `resolve_type` raises ResolverError,
  the exception leaves the generator inside `gather_futures`'s first loop, propagates out of
  `complete_value` and is caught by `else_=(BaseException, on_error)` / `fail` of `resolve_field`:
  the list field is null with one error at its path. The Futures of the earlier items are referenced
  by nobody any more (*orphans*): their tasks are still in the pool's queue, and when one completes
  its callbacks still run (`complete` → `fail` → `add_error` on the shared executor) — but the
  response is assembled when the ROOT Future finishes, from `executor.errors` as it is THEN.

  `BlockingExecutor` completes every earlier item entirely before the iterable is asked for the next
  entry, so it reports all their field errors.

  The operation form: root fields `before`, the failing list field `key` (its own resolver is
  synchronous), root fields `after`. Everything else (`completeItems`, `resolveFields`, `gatherValues`,
  `mapValue`, `deliver`, `applyCont`, `blockItems`, `blockFields`) is the code model of AsyncExec.lean,
  unchanged.
-/
import PyGqlModel.AsyncExec

namespace PyGql.AsyncExec.E2

structure Op where
  before : Flds
  key : String
  items : Comps          -- the entries completed before the raise
  after : Flds

def Op.keys (op : Op) : List String := op.before.keys ++ op.key :: op.after.keys

def Op.path (op : Op) : Path := [.key op.key]

def appendNodes : Nodes → Nodes → Nodes
  | .nil, ms => ms
  | .cons n ns, ms => .cons n (appendNodes ns ms)

/-- `Executor.resolve_field` of the failing list field: the resolver runs now and returns the iterable;
    `complete` → `complete_list_value` consumes `items`, then the generator raises ResolverError, which
    `fail` turns into a field error. Third component: the nodes of the items completed so far — nobody holds
    them any more. (An earlier item raising by itself — `RuntimeError` of `bad`, an unexpected exception of a
    synchronous sub-resolver — propagates as in `resolveField`.) -/
def resolveListField (path : Path) (items : Comps) (s : ExecSt) : Res Node × ExecSt × List Node :=
  let s := (s.emit (.call path)).emit (.done path)
  match completeItems path 0 items s with
  | (.exc .resolver, s1) => let (n, s') := failField path s1; (.ok n, s', [])
  | (.exc e, s1) => (.exc e, s1, [])
  | (.ok ns, s1) => let (n, s') := failField path s1; (.ok n, s', ns.toList.filter Node.isPending)

/-- the loop of `execute_fields` over `before`, the list field, `after` -/
def resolveRoot (op : Op) (s : ExecSt) : Res Nodes × ExecSt × List Node :=
  match resolveFields [] op.before s with
  | (.exc e, s1) => (.exc e, s1, [])
  | (.ok ns1, s1) =>
    match resolveListField op.path op.items s1 with
    | (.exc e, s2, o) => (.exc e, s2, o)
    | (.ok n, s2, o) =>
      match resolveFields [] op.after s2 with
      | (.exc e, s3) => (.exc e, s3, o)
      | (.ok ns2, s3) => (.ok (appendNodes ns1 (.cons n ns2)), s3, o)

/-- `execute` for a query: `map_value(unwrap_value(execute_fields(…)), _on_finish)` -/
def execute (op : Op) (s : ExecSt) : Res Node × ExecSt × List Node :=
  match resolveRoot op s with
  | (.exc e, s1, o) => (.exc e, s1, o)
  | (.ok pending, s1, o) =>
    match mapValue applySimple (gatherValues pending) (.collect op.keys) s1 with
    | (.exc e, s2) => (.exc e, s2, o)
    | (.ok n, s2) =>
      let (r, s3) := mapValue applyCont (unwrapValue n) .onFinish s2
      (r, s3, o)

/-- complete task `t` wherever it lives among the orphans (ids are unique: at most one node changes) -/
def deliverAll (t : Nat) : List Node → ExecSt → List Node × ExecSt
  | [], s => ([], s)
  | n :: ns, s =>
    let (n', s1) := deliver applyCont t n s
    let (ns', s2) := deliverAll t ns s1
    (n' :: ns', s2)

/-- one completion: the task's Future is set; the callbacks run wherever the Future is referenced -/
def stepSched (top : Node) (orph : List Node) (s : ExecSt) (i : Nat) : Node × List Node × ExecSt :=
  let j := i % s.queue.length
  match s.queue[j]? with
  | none => (top, orph, s)
  | some t =>
    let (top', s1) := deliver applyCont t top { s with queue := removeAt s.queue j }
    let (orph', s2) := deliverAll t orph s1
    (top', orph', s2)

structure RunOut where
  top : Node
  orphans : List Node
  st : ExecSt
  sizes : List Nat

/-- complete tasks in the order of the schedule until the ROOT Future is finished (the response is built
    there and then), no task is outstanding, or the schedule ends -/
def runSched (top : Node) (orph : List Node) (s : ExecSt) (sizes : List Nat) : List Nat → RunOut
  | [] => ⟨top, orph, s, sizes⟩
  | i :: rest =>
    if top.finished || s.queue.isEmpty then ⟨top, orph, s, sizes⟩
    else
      let (top', orph', s') := stepSched top orph s i
      runSched top' orph' s' (sizes ++ [s.queue.length]) rest

/-- the generic executor on the thread-pool runtime, under a schedule -/
def runAsync (op : Op) (schedule : List Nat) : Result :=
  match execute op {} with
  | (.exc e, s, _) => ⟨.failed e, s.trace, []⟩
  | (.ok top, s, o) =>
    let r := runSched top o s [] schedule
    ⟨outcomeOf r.top r.st, r.st.trace, r.sizes⟩

/-- `BlockingExecutor.resolve_field` of the failing list field: every earlier entry is completed entirely
    (sub-resolvers run, their errors are recorded), then the iterable raises: `except ResolverError`. -/
def blockListField (p : Path) (items : Comps) (s : ExecSt) : Res V × ExecSt :=
  let s := (s.emit (.call p)).emit (.done p)
  match blockItems p 0 items s with
  | (.exc .resolver, s1) => (.ok .null, s1.addError p .resolver)
  | (.exc e, s1) => (.exc e, s1)
  | (.ok _, s1) => (.ok .null, s1.addError p .resolver)

def runBlocking (op : Op) : Result :=
  match blockFields [] op.before {} with
  | (.exc e, s) => ⟨.failed e, s.trace, []⟩
  | (.ok kvs1, s1) =>
    match blockListField op.path op.items s1 with
    | (.exc e, s2) => ⟨.failed e, s2.trace, []⟩
    | (.ok v, s2) =>
      match blockFields [] op.after s2 with
      | (.exc e, s3) => ⟨.failed e, s3.trace, []⟩
      | (.ok kvs2, s3) => ⟨.ok (.obj (kvs1 ++ (op.key, v) :: kvs2)) s3.errors, s3.trace, []⟩


/-! ### the same under `execute_fields_serially` (mutations): the failing list field is the FIRST root field -/

/-- `_next` pops the list field; `resolve_field` returns None at once (field error recorded, the earlier items' Futures
    orphaned), `cb` runs inline and the serial chain carries on with `after` (`op.before` is not used: it must be empty —
    a failing field behind a deferred one would have to travel inside `Cont.serialCb`'s `args : Flds`). -/
def executeSerial (op : Op) (s : ExecSt) : Res Node × ExecSt × List Node :=
  match resolveListField op.path op.items s with
  | (.exc e, s1, o) => (.exc e, s1, o)
  | (.ok (.val (.data v)), s1, o) =>
    match serialNext [] [(op.key, v)] op.after s1 with
    | (.exc e, s2) => (.exc e, s2, o)
    | (.ok n, s2) =>
      let (r, s3) := mapValue applyCont (unwrapValue n) .onFinish s2
      (r, s3, o)
  | (.ok _, s1, o) => (.ok (.val .junk), s1, o)

/-- the generic executor, mutation `{ key … after }`, thread-pool runtime, under a schedule -/
def runAsyncSerial (op : Op) (schedule : List Nat) : Result :=
  match executeSerial op {} with
  | (.exc e, s, _) => ⟨.failed e, s.trace, []⟩
  | (.ok top, s, o) =>
    let r := runSched top o s [] schedule
    ⟨outcomeOf r.top r.st, r.st.trace, r.sizes⟩

end PyGql.AsyncExec.E2

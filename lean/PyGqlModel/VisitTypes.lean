/-
  C18 — types of the traversal TABLE extracted from `src/py_gql/lang/visitor.py`
  (the table itself is `Generated/VisitTable.lean`, rewritten on every run).
-/
namespace PyGql.Visit

/-- how a `_visit_*` body reads the attribute: one optional child / a list of children -/
inductive Shape where
  | one | many
  deriving Repr, DecidableEq, Inhabited

/-- `if P.a:` (truthy) / `if P.a is not None:` around a single-child step. The extractor checks that no
    node class defines `__bool__`/`__len__`, so `truthy` and `notNone` coincide on nodes. -/
inductive Guard where
  | always | truthy | notNone
  deriving Repr, DecidableEq, Inhabited

/-- what is called on the child: a `@_visit_method` directly, or an undecorated dispatcher -/
inductive Target where
  | method (m : String)
  | disp (d : String)
  deriving Repr, DecidableEq, Inhabited

/-- one statement of a `@_visit_method` body.
    `kinds = some ks`: the statement sits under `isinstance(P, K)` tests selecting exactly the concrete kinds `ks`.
    `assign = true`: `P.a = …` (the result is written back); `false`: the result is discarded. -/
structure Step where
  kinds : Option (List String)
  attr : String
  shape : Shape
  guard : Guard
  assign : Bool
  target : Target
  deriving Repr, DecidableEq, Inhabited

/-- `classdispatch(node, registry)` (no default: `TypeError` on a miss) or an `isinstance` cascade with a default -/
structure Dispatcher where
  registry : List (String × String)
  dflt : Option String
  deriving Repr, DecidableEq, Inhabited

structure Table where
  methods : List (String × List Step)
  visit : List (String × String)
  dispatchers : List (String × Dispatcher)
  slots : List (String × List String)
  /-- `_visit_method`: a node returned by `enter` whose class differs from the argument's is traversed by the method
      that `visit` registers for ITS class (`true`), or by the body of the original method (`false`) -/
  crossKind : Bool := true
  deriving Repr, Inhabited

end PyGql.Visit

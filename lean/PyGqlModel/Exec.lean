/-
  C04 / C05 — MODEL of py-gql's blocking executor, function by function:
    utilities/collect_fields.py   _skip_selection, _fragment_type_applies, _merge, collect_fields
                                  (including the `_seen_fragments = _seen_fragments or set()` rebinding)
    execution/wrappers.py         ResolutionContext.field_definition, add_error
    execution/blocking_executor.py / executor.py
                                  execute_fields, resolve_field, complete_value, complete_list_value,
                                  complete_non_nullable_value / _handle_non_nullable_value, resolve_type
    execution/get_operation.py, execution/execute.py   get_operation_with_type, execute
  Every `raise RuntimeError/TypeError/KeyError/...` reachable there is an explicit `Fail.internal`.
  Recursion through the document is closed with fuel (step functionals, structural on the fuel).
-/
import PyGqlModel.ExecTypes

namespace PyGql.Exec
open PyGql

/-! ### Python truthiness of a coerced value (`skip["if"]`) -/
def truthy : J → Bool
  | .null => false
  | .bool b => b
  | .num n => n != 0
  | .str s => s != ""
  | .arr a => !a.isEmpty
  | .obj o => !o.isEmpty

/-- `directive_arguments(Directive, node, variables)["if"]`: `none` when the directive is absent.
    `find_one` takes the FIRST directive of that name; a missing / non-Boolean `if` or a variable that
    is not in the coerced variables raises `CoercionError`, which nothing in the executor catches. -/
def dirIf (vars : Vars) (dirs : List Dir) (name : String) : R (Option Bool) :=
  match dirs.find? (·.name == name) with
  | none => .ok none
  | some d =>
    match d.cond with
    | .lit b => .ok (some b)
    | .var v =>
      match vars.get? v with
      | some .null => .error (.internal "CoercionError")     -- `Boolean!` given None (nullable variable with a default, set to null)
      | some j => .ok (some (truthy j))
      | none => .error (.internal "CoercionError")
    | .bad => .error (.internal "CoercionError")

/-- `_skip_selection` -/
def skipSelection (vars : Vars) (dirs : List Dir) : R Bool := do
  let skip ← dirIf vars dirs "skip"
  let incl ← dirIf vars dirs "include"
  let skipped := skip.getD false
  let included := incl.getD true
  pure (skipped || !included)

/-- `_fragment_type_applies` (`schema.get_type_from_literal` raises `UnknownType`) -/
def fragmentTypeApplies (s : SchemaD) (obj : String) (cond : Option String) : R Bool :=
  match cond with
  | none => .ok true
  | some c =>
    match kindOf s c with
    | none => .error (.internal "UnknownType")
    | some _ => .ok (c == obj || (isAbstract s c && isPossibleType s c obj))

/-! ### grouped fields: an insertion-ordered dict `response key ↦ [nodes]` -/
abbrev Grouped := List (String × List FNode)

/-- `if key not in d: d[key] = []` then `d[key].extend(ns)` -/
def Grouped.extend : Grouped → String → List FNode → Grouped
  | [], k, ns => [(k, ns)]
  | (k', ms) :: rest, k, ns =>
    if k' == k then (k', ms ++ ns) :: rest else (k', ms) :: Grouped.extend rest k ns

/-- `_merge(groups, into=...)` -/
def Grouped.mergeInto (src : Grouped) (into : Grouped) : Grouped :=
  src.foldl (fun acc kv => acc.extend kv.1 kv.2) into

def Grouped.keys (g : Grouped) : List String := g.map (·.1)

/-- one run of the `for selection in selections` loop of `collect_fields`.
    `rec` is the recursive call; the result carries the callee-visible `_seen_fragments` set.
    The set is shared with a callee only when it is non-empty at the call (`x or set()`). -/
def collectStep (s : SchemaD) (doc : Doc) (vars : Vars)
    (rec : String → List Sel → List String → R (Grouped × List String))
    (obj : String) : List Sel → List String → Grouped → R (Grouped × List String)
  | [], seen, g => .ok (g, seen)
  | .field key name loc dirs args hasSub sub :: rest, seen, g => do
    if (← skipSelection vars dirs) then
      collectStep s doc vars rec obj rest seen g
    else
      collectStep s doc vars rec obj rest seen
        (g.extend key [{ key := key, name := name, loc := loc, args := args, hasSub := hasSub, sub := sub }])
  | .inline on dirs sub :: rest, seen, g => do
    -- `_skip_selection(...) or not _fragment_type_applies(...)` (short-circuit)
    let skipped ← skipSelection vars dirs
    let drop ← if skipped then pure true else do pure (!(← fragmentTypeApplies s obj on))
    if drop then
      collectStep s doc vars rec obj rest seen g
    else do
      let (g', seen') ← rec obj sub seen
      let seen2 := if seen.isEmpty then seen else seen'
      collectStep s doc vars rec obj rest seen2 (g'.mergeInto g)
  | .spread name dirs :: rest, seen, g => do
    match doc.fragment? name with
    | none => .error (.internal "KeyError")          -- `fragments[name]`
    | some fr =>
      let skipped ← skipSelection vars dirs
      let drop ← if skipped then pure true else
        if seen.contains name then pure true else do pure (!(← fragmentTypeApplies s obj (some fr.on)))
      if drop then
        collectStep s doc vars rec obj rest seen g
      else do
        let (g', seen') ← rec obj fr.sels seen
        let seen2 := if seen.isEmpty then seen else seen'
        -- `_seen_fragments.add(name)` AFTER the recursive call
        let seen3 := if seen2.contains name then seen2 else seen2 ++ [name]
        collectStep s doc vars rec obj rest seen3 (g'.mergeInto g)

/-- `collect_fields(schema, object_type, selections, fragments, variables, _seen_fragments)` -/
def collectFields (s : SchemaD) (doc : Doc) (vars : Vars) :
    Nat → String → List Sel → List String → R (Grouped × List String)
  | 0 => fun _ _ _ => .error .outOfFuel
  | n + 1 => fun obj sels seen => collectStep s doc vars (collectFields s doc vars n) obj sels seen []

/-! ### leaf serialisation (`ScalarType.serialize`, `EnumType.get_name`) -/

def floatTag (s : String) : J := .obj [("$float", .str s)]
def isFloatTag : J → Option String
  | .obj [("$float", .str s)] => some s
  | _ => none

def isDigits (cs : List Char) : Bool := !cs.isEmpty && cs.all Char.isDigit
def natOfDigits (cs : List Char) : Nat := cs.foldl (fun a c => a * 10 + (c.toNat - 48)) 0

/-- `int(s, 10)` for the plain forms `-?[0-9]+` (everything else is treated as not an integer) -/
def parseIntStr (s : String) : Option Int :=
  match s.toList with
  | '-' :: ds => if isDigits ds then some (-(natOfDigits ds : Int)) else none
  | ds => if isDigits ds then some (natOfDigits ds : Int) else none

def MAX_INT : Int := 2147483647
def MIN_INT : Int := -2147483648

/-- `coerce_int`: the closed 32-bit interval (`MIN_INT <= n <= MAX_INT`, after fix A1) -/
def serializeInt (j : J) : Option J :=
  match j with
  | .bool b => some (.num (if b then 1 else 0))  -- `isinstance(True, int)`: `numeric = int(maybe_int)` (fix d72dd53: 1 / 0, not true / false)
  | .num n => if MIN_INT ≤ n && n ≤ MAX_INT then some (.num n) else none
  | .str s =>
    match parseIntStr s with
    | some n => if MIN_INT ≤ n && n ≤ MAX_INT then some (.num n) else none
    | none => none
  | _ => none

/-- `coerce_float`; NaN and ±Infinity are rejected (fix X2): the field fails like any unserialisable value -/
def serializeFloat (j : J) : Option J :=
  match j with
  | .num n => some (floatTag (toString n ++ ".0"))
  | other =>
    match isFloatTag other with
    | some s => if s == "nan" || s == "inf" || s == "-inf" then none else some (floatTag s)
    | none => none

def serializeString (j : J) : Option J :=
  match j with
  | .bool b => some (.str (if b then "true" else "false"))
  | .num n => some (.str (toString n))
  | .str s => some (.str s)
  | other =>
    match isFloatTag other with
    | some s => some (.str s)
    | none => none                                  -- list / tuple: ValueError

def serializeBoolean (j : J) : Option J :=
  match isFloatTag j with
  | some s => some (.bool (s != "0.0" && s != "-0.0"))
  | none => some (.bool (truthy j))

def pyStrBool (b : Bool) : String := if b then "True" else "False"

def serializeID (j : J) : Option J :=
  match j with
  | .bool b => some (.str (pyStrBool b))
  | .num n => some (.str (toString n))
  | .str s => some (.str s)
  | other =>
    match isFloatTag other with
    | some s => some (.str s)
    | none => none                                  -- str(list): outside the model

/-- serialisation of a leaf type; `none` = the `RuntimeError` branches of `complete_value` -/
def serializeLeaf (s : SchemaD) (n : String) (j : J) : Option J :=
  -- the five specified scalars FIRST: a schema description may or may not list them (`canon_schema.dump_schema` leaves
  -- every type with one of these names out, `Spec.withBuiltins` lists them); listing them must not turn them into
  -- custom scalars (`Lemmas/C05Builtins.lean: serializeLeaf_withBuiltins`)
  if n == "Int" then serializeInt j
  else if n == "Float" then serializeFloat j
  else if n == "String" then serializeString j
  else if n == "Boolean" then serializeBoolean j
  else if n == "ID" then serializeID j
  else
    match s.findType n with
    | some t =>
      match t.kind with
      | .enum => (t.values.find? (fun v => v.value == j)).map (fun v => .str v.name)
      | _ => some j                                   -- custom scalar built from SDL: identity
    | none => none

/-! ### execution -/

def nodeLocs (nodes : List FNode) : List Nat := nodes.map (·.loc)

/-- `[selection for field in nodes if field.selection_set for selection in field.selection_set.selections]` -/
def mergedSelections (nodes : List FNode) : List Sel :=
  nodes.flatMap fun n => if n.hasSub then n.sub else []

/-- `complete_list_value` over already-chosen item completion -/
def completeList (f : Path → RVal → R (Data × List Err)) (path : Path) :
    Nat → List RVal → R (List Data × List Err)
  | _, [] => .ok ([], [])
  | i, v :: vs => do
    let (d, e) ← f (path ++ [.idx i]) v
    -- a ResolverError raised by a later item interrupts the list; the errors of the items already completed stay recorded
    let (ds, es) ← keepErrs e (completeList f path (i + 1) vs)
    pure (d :: ds, e ++ es)

/-- `complete_value` + `complete_non_nullable_value` + `_handle_non_nullable_value` + `resolve_type`.
    `execSub runtimeType path selections` is `execute_fields(runtime_type, value, path, collect_fields(...))`. -/
def completeValue (s : SchemaD) (execSub : String → Path → List Sel → R (Data × List Err))
    (nodes : List FNode) : Ty → Path → RVal → R (Data × List Err)
  | .nonNull t, path, v => do
    let (d, es) ← completeValue s execSub nodes t path v
    if d.isNull then
      pure (d, es ++ [{ path := path, locs := nodeLocs nodes, kind := .nonnull }])
    else pure (d, es)
  | .list t, path, v =>
    match v with
    | .null => .ok (.null, [])
    | .list vs => do
      let (ds, es) ← completeList (completeValue s execSub nodes t) path 0 vs
      pure (.list ds, es)
    | .leaf (.arr _) => .error .unsupported
    | .leaf _ => .error (.internal "RuntimeError")      -- not iterable
    | .obj _ => .error .unsupported                       -- a dict is iterable: outside the model
    | .raise vs msg ext =>
      -- a lazy iterable: the items it yields are completed, then it raises ResolverError
      match completeList (completeValue s execSub nodes t) path 0 vs with
      | .ok (_, es) => .error (.raised (.resolver msg ext) none es)
      | .error x => .error x
  | .named n, path, v =>
    match v with
    | .null => .ok (.null, [])
    | _ =>
      match kindOf s n with
      | none => .error (.internal "TypeError")
      | some .input => .error (.internal "TypeError")
      | some .scalar | some .enum =>
        match v with
        | .leaf j =>
          match serializeLeaf s n j with
          | some r => .ok (.leaf r, [])
          | none => .error (.internal "RuntimeError")
        | _ => .error .unsupported
      | some .object => execSub n path (mergedSelections nodes)
      | some .interface | some .union =>
        match v with
        | .obj rt =>
          match kindOf s rt with
          | none => .error (.internal "UnknownType")                   -- `schema.get_type(maybe_type)`
          | some .object =>
            if isPossibleType s n rt then execSub rt path (mergedSelections nodes)
            else .error (.internal "RuntimeError")
          | some _ => .error (.internal "RuntimeError")
        | .raise _ msg ext => .error (.raised (.resolver msg ext) none [])   -- `resolve_type` raises ResolverError
        | _ => .error (.internal "UnknownType")                        -- `type(value).__name__`

def isMeta (name : String) : Bool := name == "__schema" || name == "__type" || name == "__typename"

/-- `resolve_field` for one response key -/
def resolveField (s : SchemaD) (w : World) (execSub : String → Path → List Sel → R (Data × List Err))
    (parent : String) (path : Path) (nodes : List FNode) (fd : FieldD) : R (Data × List Err) :=
  match nodes with
  | [] => .error (.internal "IndexError")
  | node :: _ =>
    match (node.args.find? (·.1 == parent)).map (·.2) with
    | none | some none =>
      .ok (.null, [{ path := path, locs := [node.loc], kind := .coercion }])
    | some (some a) =>
      match w parent fd.name path a with
      | .err msg ext => .ok (.null, [{ path := path, locs := [node.loc], kind := .resolver msg ext }])
      | .boom => .error (.internal "unexpected")
      | .val v =>
        -- `try: complete_value(...) except ResolverError as err: add_error(err, path, node); return None`
        catchField path node.loc (completeValue s execSub nodes fd.type path v)

/-- `execute_fields` of `BlockingExecutor` (loop over `_iterate_fields`) -/
def executeGroups (s : SchemaD) (w : World) (execSub : String → Path → List Sel → R (Data × List Err))
    (parent : String) (path : Path) : Grouped → R (List (String × Data) × List Err)
  | [] => .ok ([], [])
  | (key, nodes) :: rest =>
    match nodes with
    | [] => .error (.internal "IndexError")
    | node :: _ =>
      if isMeta node.name then
        -- `ResolutionContext.field_definition` for the three meta fields
        if node.name == "__typename" then do
          let (kvs, es) ← executeGroups s w execSub parent path rest
          pure ((key, .leaf (.str parent)) :: kvs, es)
        else if s.query == some parent then .error .unsupported     -- introspection: C15
        else .error (.internal "UnboundLocalError")
      else
        match fieldOf s parent node.name with
        | none => executeGroups s w execSub parent path rest       -- `if field_def is None: continue`
        | some fd => do
          let (d, e) ← resolveField s w execSub parent (path ++ [.key key]) nodes fd
          let (kvs, es) ← executeGroups s w execSub parent path rest
          pure ((key, d) :: kvs, e ++ es)

/-- `execute_fields(runtime_type, value, path, self.collect_fields(runtime_type, selections))`;
    `cf` is the (constant) fuel handed to `collect_fields`. -/
def executeFields (s : SchemaD) (doc : Doc) (vars : Vars) (w : World) (cf : Nat) :
    Nat → String → Path → List Sel → R (Data × List Err)
  | 0 => fun _ _ _ => .error .outOfFuel
  | n + 1 => fun parent path sels => do
    -- `ResolutionContext.collect_fields`: a CoercionError (invalid @skip/@include condition) becomes a ResolverError
    let (g, _) ← catchDirective (collectFields s doc vars cf parent sels [])
    let (kvs, es) ← executeGroups s w (executeFields s doc vars w cf n) parent path g
    pure (.obj kvs, es)

/-! ### request level -/

inductive Response where
  | result (data : Data) (errors : List Err)
  | abort (kind : String)          -- `_abort(data=None, errors=[InvalidOperationError])`
  | failed (f : Fail)
  deriving Repr, Inhabited

/-- `get_operation` -/
def getOperation (doc : Doc) (opname : Option String) : Option Op :=
  match opname with
  | none | some "" =>
    match doc.ops with
    | [op] => some op
    | _ => none
  | some n => doc.ops.find? (fun o => o.name == some n)

/-- `execute` (after variable coercion) through `process_graphql_query` -/
def execute (s : SchemaD) (doc : Doc) (vars : Vars) (w : World) (opname : Option String) (fuel cf : Nat) : Response :=
  match getOperation doc opname with
  | none => .abort "operation"
  | some op =>
    match rootType s op.kind with
    | none => .abort "operation"
    | some root =>
      -- `execute` raises InvalidOperationError for subscriptions (fix X5): reported as a response error
      if op.kind == "subscription" then .abort "operation"
      else
        match executeFields s doc vars w cf fuel root [] op.sels with
        | .ok (d, es) => .result d es
        -- `execute`: the root selection set cannot be collected: `GraphQLResult(data=None, errors=[err])`
        | .error (.raised k l inner) => .result .null (inner ++ [{ path := [], locs := l.getD [], kind := k }])
        | .error f => .failed f

/-! ### sizes used as fuel by the driver -/
mutual
def Sel.size : Sel → Nat
  | .field _ _ _ _ _ _ sub => 1 + selsSize sub
  | .inline _ _ sub => 1 + selsSize sub
  | .spread _ _ => 1
def selsSize : List Sel → Nat
  | [] => 0
  | s :: ss => s.size + selsSize ss
end

def Doc.size (d : Doc) : Nat :=
  (d.ops.map fun o => 1 + selsSize o.sels).sum + (d.frags.map fun f => 1 + selsSize f.sels).sum

end PyGql.Exec

/-
  C14 — the resolver REGISTRIES of a schema (`ResolverMap`): `resolvers` / `subscriptions` are
  `Dict[type name, Dict[field name, resolver]]` — an outer map whose values are INNER DICT OBJECTS with identities
  (addresses in `RHeap`); `default_resolvers` is a flat dict, `default_resolver` a value.

  `register_resolver` / `register_subscription` / `register_default_resolver`, `merge_resolvers`, and what `Schema.clone`
  does with the registries: `merge_resolvers` (fresh inner dicts — the code of /repo) or `dict.update` of the outer map
  (inner dicts SHARED with the source). Which one is `Cfg.cloneRegsDeep`, re-extracted from schema.py on every run.

  Which entries `clone` carries over and how (`Cfg.cloneRegsFiltered`: only those that still name a field of the clone, T5;
  `Cfg.cloneRegsByValue`: copied, or replayed through `Schema.register_resolver`, which raises when the field carries another
  resolver, T6) and whether `extend_schema` carries them at all (`Cfg.extKeepRegs`, T8): `cloneRegsOn`, `extendRegs`.

  Not modelled here: `Schema.register_*` also assign `field.resolver` / `default_resolver` on the type objects (object heap,
  `Heap.lean`); registrations on a derived schema are made with `allow_override` (they overwrite).
-/
import PyGqlModel.Heap

namespace PyGql.Heap

/-- inner dict: field name → identity of the resolver -/
abbrev RDict := List (String × Nat)

structure RHeap where
  dicts : List RDict
  deriving DecidableEq, Repr, Inhabited

def RHeap.size (h : RHeap) : Nat := h.dicts.length
def RHeap.read (h : RHeap) (a : Addr) : Option RDict := h.dicts[a]?
def RHeap.write (h : RHeap) (a : Addr) (d : RDict) : RHeap := ⟨h.dicts.set a d⟩
def RHeap.alloc (h : RHeap) (d : RDict) : RHeap × Addr := (⟨h.dicts ++ [d]⟩, h.dicts.length)

structure Registries where
  resolvers : List (String × Addr)
  subscriptions : List (String × Addr)
  defaultResolvers : List (String × Nat)
  defaultResolver : Option Nat
  deriving DecidableEq, Repr, Inhabited

def Registries.empty : Registries := ⟨[], [], [], none⟩

/-- `parent[fieldname] = resolver` -/
def dictSet (d : RDict) (f : String) (fn : Nat) : RDict :=
  if d.any (·.1 == f) then d.map (fun e => if e.1 == f then (f, fn) else e) else d ++ [(f, fn)]

/-- `parent = self.resolvers[typename] = self.resolvers.get(typename, {})` -/
def getOrCreate (h : RHeap) (outer : List (String × Addr)) (t : String) : RHeap × List (String × Addr) × Addr :=
  match lookup outer t with
  | some a => (h, outer, a)
  | none =>
    let r := h.alloc []
    (r.1, outer ++ [(t, r.2)], r.2)

/-- `ResolverMap.register_resolver` / `register_subscription` on one outer map -/
def registerIn (h : RHeap) (outer : List (String × Addr)) (t f : String) (fn : Nat) : RHeap × List (String × Addr) :=
  let g := getOrCreate h outer t
  match g.1.read g.2.2 with
  | some d => (g.1.write g.2.2 (dictSet d f fn), g.2.1)
  | none => (g.1, g.2.1)

inductive RegOp where
  | resolver (t f : String) (fn : Nat)
  | subscription (t f : String) (fn : Nat)
  | default (t : String) (fn : Nat)
  deriving DecidableEq, Repr

def applyOp (s : RHeap × Registries) : RegOp → RHeap × Registries
  | .resolver t f fn =>
    let r := registerIn s.1 s.2.resolvers t f fn
    (r.1, { s.2 with resolvers := r.2 })
  | .subscription t f fn =>
    let r := registerIn s.1 s.2.subscriptions t f fn
    (r.1, { s.2 with subscriptions := r.2 })
  | .default t fn => (s.1, { s.2 with defaultResolvers := regSet s.2.defaultResolvers t fn })

def applyOps (ops : List RegOp) (s : RHeap × Registries) : RHeap × Registries := ops.foldl applyOp s

/-- the inner loop of `merge_resolvers` (through `_registered` when filtering): every `(field, resolver)` of one inner dict
    for which `keep t field` holds is registered under `t` -/
def mergeDict (keep : String → String → Bool) (t : String) : RDict → RHeap → List (String × Addr) → RHeap × List (String × Addr)
  | [], h, outer => (h, outer)
  | (f, fn) :: rest, h, outer =>
    if keep t f then
      let r := registerIn h outer t f fn
      mergeDict keep t rest r.1 r.2
    else mergeDict keep t rest h outer

/-- the outer loop of `merge_resolvers` over `other.resolvers.items()` (the other map's dicts live in the same heap) -/
def mergeOuter (keep : String → String → Bool) : List (String × Addr) → RHeap → List (String × Addr) → RHeap × List (String × Addr)
  | [], h, outer => (h, outer)
  | (t, a) :: rest, h, outer =>
    match h.read a with
    | some d =>
      let r := mergeDict keep t d h outer
      mergeOuter keep rest r.1 r.2
    | none => mergeOuter keep rest h outer

/-- every entry of the registry names a field that exists (`fieldname in type_.field_map`) -/
def allApplicable (exists_ : String → String → Bool) (h : RHeap) (outer : List (String × Addr)) : Bool :=
  outer.all fun e => match h.read e.2 with | some d => d.all (fun x => exists_ e.1 x.1) | none => true

/-- what `Schema.clone` does with the registries of `src`; `exists_ t f`: the clone has an object type `t` with a field `f`.
    `none`: `SchemaError` (unfiltered replay of an entry naming a field that does not exist) -/
def cloneRegs (deep filtered : Bool) (exists_ : String → String → Bool) (h : RHeap) (src : Registries) : Option (RHeap × Registries) :=
  if deep then
    if !filtered && !(allApplicable exists_ h src.resolvers && allApplicable exists_ h src.subscriptions) then none
    else
      -- `cloned.merge_resolvers(...)`; `default_resolver` copied; `default_resolvers.update(...)`
      let keep := if filtered then exists_ else fun _ _ => true
      let r1 := mergeOuter keep src.resolvers h []
      let r2 := mergeOuter keep src.subscriptions r1.1 []
      some (r2.1, { resolvers := r1.2, subscriptions := r2.2, defaultResolvers := src.defaultResolvers, defaultResolver := src.defaultResolver })
  else
    -- `cloned.resolvers.update(self.resolvers)`: the OUTER map is copied, the inner dicts are the source's
    some (h, { resolvers := src.resolvers, subscriptions := src.subscriptions, defaultResolvers := src.defaultResolvers,
               defaultResolver := src.defaultResolver })

/-- the resolver / subscription resolver the FIELD objects of the clone carry (by type and field name) -/
structure FieldFns where
  resolver : String → String → Option Nat
  subscription : String → String → Option Nat

/-- replaying an entry through `Schema.register_resolver` (no `allow_override`) raises `ValueError` when the field already
    carries a different resolver — e.g. one wrapped by a schema directive after the registration -/
def replayConflicts (keep : String → String → Bool) (fieldFn : String → String → Option Nat) (h : RHeap)
    (outer : List (String × Addr)) : Bool :=
  outer.any fun e => match h.read e.2 with
    | some d => d.any fun x => keep e.1 x.1 && (match fieldFn e.1 x.1 with | some g => g != x.2 | none => false)
    | none => false

/-- what `Schema.clone` does with the registries in the variant `c` (`none`: it raises) -/
def cloneRegsOn (c : Cfg) (exists_ : String → String → Bool) (ff : FieldFns) (h : RHeap) (src : Registries) : Option (RHeap × Registries) :=
  let keep := if c.cloneRegsFiltered then exists_ else fun _ _ => true
  if c.cloneRegsDeep && !c.cloneRegsByValue &&
      (replayConflicts keep ff.resolver h src.resolvers || replayConflicts keep ff.subscription h src.subscriptions) then none
  else cloneRegs c.cloneRegsDeep c.cloneRegsFiltered exists_ h src

/-- what `extend_schema` does with the registries in the variant `c` (`exists_`: the fields of the extended schema) -/
def extendRegs (c : Cfg) (exists_ : String → String → Bool) (h : RHeap) (src : Registries) : Option (RHeap × Registries) :=
  if c.extKeepRegs then cloneRegs true true exists_ h src
  else some (h, { resolvers := [], subscriptions := [], defaultResolvers := src.defaultResolvers, defaultResolver := if c.extSchemaDres then src.defaultResolver else none })

/-- what the public API shows of a registry: outer keys, inner keys, resolver identities -/
def digestOuter (h : RHeap) (outer : List (String × Addr)) : List (String × Option RDict) := outer.map fun e => (e.1, h.read e.2)

def digest (h : RHeap) (r : Registries) : List (String × Option RDict) × List (String × Option RDict) × List (String × Nat) × Option Nat :=
  (digestOuter h r.resolvers, digestOuter h r.subscriptions, r.defaultResolvers, r.defaultResolver)

end PyGql.Heap

/-
  C12 — model of `py_gql.sdl.ASTSchemaPrinter` (ast_schema_printer.py), `ast_node_from_value`
  (utilities/ast_node_from_value.py), the value/directive part of `lang/printer.py` and
  `_string_utils.wrapped_lines`, on the by-name schema description `SchemaD`.

  The module-level object `_SPECIFIED_DIRECTIVE_NAMES` is an explicit `PrinterState` threaded through
  every membership test, so that a HISTORY of `to_string` calls is a fold over the state.
  `include_introspection=True` writes the library's own constants too: `printSchemaX` takes them as `Builtins`.
  Import-free.
-/
import PyGqlModel.Sdl

namespace PyGql.SdlPrint
open PyGql PyGql.Sdl

/-! ### the module-level state -/

/-- `_SPECIFIED_DIRECTIVE_NAMES`: today a GENERATOR (single use: `x in gen` consumes it up to the first
    match), after fix C12-H1 a frozenset -/
inductive PrinterState where
  | generator (remaining : List String)
  | collection (names : List String)
  deriving Repr, DecidableEq, Inhabited

def initialGenerator : PrinterState := .generator specifiedDirectives
def initialCollection : PrinterState := .collection specifiedDirectives

/-- `name in _SPECIFIED_DIRECTIVE_NAMES` -/
def PrinterState.member (n : String) : PrinterState → Bool × PrinterState
  | .collection ns => (ns.contains n, .collection ns)
  | .generator rem =>
    match rem.dropWhile (· != n) with
    | [] => (false, .generator [])
    | _ :: rest => (true, .generator rest)

structure Opts where
  indent : String := "    "
  descriptions : Bool := true
  /-- truthiness of `include_custom_schema_directives` (`False` and `[]` print no directive at all) -/
  custom : Bool := false
  /-- `include_custom_schema_directives` given as a list of names (`none`: a boolean was given) -/
  whitelist : Option (List String) := none
  deriving Repr, Inhabited

/-! ### string helpers (Python `str` methods used by the printer) -/

def isWs (c : Char) : Bool := c == ' ' || c == '\t' || c == '\n' || c == '\r' || c.toNat == 11 || c.toNat == 12
  || c.toNat == 0x1c || c.toNat == 0x1d || c.toNat == 0x1e || c.toNat == 0x1f || c.toNat == 0x85 || c.toNat == 0xa0

def lstrip (s : String) : String := String.ofList (s.toList.dropWhile isWs)
def rstrip (s : String) : String := String.ofList (s.toList.reverse.dropWhile isWs).reverse
def strip (s : String) : String := lstrip (rstrip s)

def hexDigit (n : Nat) : Char := if n < 10 then Char.ofNat (48 + n) else Char.ofNat (87 + n)
def hex4 (n : Nat) : String :=
  String.ofList [hexDigit (n / 4096 % 16), hexDigit (n / 256 % 16), hexDigit (n / 16 % 16), hexDigit (n % 16)]

/-- `json.dumps(s, ensure_ascii=False)` (fix R2: non-ASCII characters are printed as they are) -/
def jsonDumps (s : String) : String :=
  "\"" ++ String.join (s.toList.map fun c =>
    let n := c.toNat
    if c == '"' then "\\\"" else if c == '\\' then "\\\\" else if c == '\n' then "\\n" else if c == '\r' then "\\r"
    else if c == '\t' then "\\t" else if n == 8 then "\\b" else if n == 12 then "\\f"
    else if n < 32 then "\\u" ++ hex4 n
    else String.singleton c) ++ "\""

/-- `_split_words_with_boundaries(line, " -_")` -/
def splitWords : List Char → List Char → List String
  | [], stack => if stack.isEmpty then [] else [String.ofList stack.reverse]
  | c :: cs, stack =>
    if c == ' ' || c == '-' || c == '_' then
      (if stack.isEmpty then [] else [String.ofList stack.reverse]) ++ String.singleton c :: splitWords cs []
    else splitWords cs (c :: stack)

/-- inner loop of `wrapped_lines` for one over-long line -/
def wrapLine (maxLen : Nat) : List String → String → List String
  | [], wrapped => if wrapped.isEmpty then [] else [wrapped]
  | e :: es, wrapped =>
    if (wrapped ++ e).length > maxLen then
      wrapped :: wrapLine maxLen es (if e != " " then e else "")
    else wrapLine maxLen es (if e != " " || !wrapped.isEmpty then wrapped ++ e else wrapped)

def wrappedLines (lines : List String) (maxLen : Nat) : List String :=
  lines.flatMap fun l => if l.length ≤ maxLen then [l] else wrapLine maxLen (splitWords l.toList []) ""

/-- `value.replace('"""', '\\"""')` on characters (leftmost, non-overlapping); `k > 0` = inside a replaced `"""`.
    List-based (as `PrintString.escapeTQAux`) so that the two printer models can be PROVED equal (`Props/C12_models.lean`). -/
def escTQc : Nat → List Char → List Char
  | _, [] => []
  | k + 1, c :: t => c :: escTQc k t
  | 0, c :: t =>
    if ['"', '"', '"'].isPrefixOf (c :: t) then '\\' :: c :: escTQc 2 t
    else c :: escTQc 0 t

def escTriple (s : String) : String := String.ofList (escTQc 0 s.toList)

/-- `s.split("\n")` on characters: at least one piece -/
def splitLFc : List Char → List (List Char)
  | [] => [[]]
  | c :: t =>
    if c = '\n' then [] :: splitLFc t
    else match splitLFc t with
      | l :: ls => (c :: l) :: ls
      | [] => [[c]]

def splitLines (s : String) : List String := (splitLFc s.toList).map String.ofList

def repeatStr (s : String) : Nat → String | 0 => "" | n+1 => s ++ repeatStr s n

/-- `print_description(definition, depth, first_in_block)` -/
def printDescription (o : Opts) (desc : Option String) (depth : Nat := 0) (firstInBlock : Bool := true) : String :=
  match desc with
  | none => ""
  | some d =>
    if !o.descriptions || d.isEmpty then "" else
    let indent := repeatStr o.indent depth
    let lines := wrappedLines (splitLines d) (120 - indent.length)
    let first := lines.headD ""
    -- fixes D3 / D1 (lang3): a carriage return, or a white-space-led first line whose other non-blank lines are all
    -- indented, cannot be written as a block string: quoted form
    let startsWs (l : String) : Bool := match l.toList with | c :: _ => c == ' ' || c == '\t' | [] => false
    let rest := (lines.drop 1).filter (fun l => !l.toList.all (fun c => c == ' ' || c == '\t'))
    if d.toList.contains '\r' || (startsWs first && !rest.isEmpty && rest.all startsWs) then
      (if !indent.isEmpty && !firstInBlock then "\n" else "") ++ indent ++ jsonDumps d ++ "\n"
    else
    let body :=
      if lines.length == 1 && first.length < 70 && !(first.toList.getLast? == some '"') then escTriple first
      else
        let lead := first.length > (lstrip first).length
        let rec go (i : Nat) : List String → List String
          | [] => []
          | l :: ls => ((if i == 0 && !lead then "\n" else "") ++ (if i > 0 || !lead then indent else "") ++ escTriple l) :: go (i+1) ls
        "\n".intercalate (go 0 lines) ++ "\n" ++ indent
    (if !indent.isEmpty && !firstInBlock then "\n" else "") ++ indent ++ "\"\"\"" ++ body ++ "\"\"\"\n"

/-! ### values: `ast_node_from_value` + `print_ast` -/

def isIntText (s : String) : Bool :=
  let cs := match s.toList with | '-' :: r => r | l => l
  match cs with
  | [] => false
  | ['0'] => true
  | c :: rest => c != '0' && c.isDigit && rest.all Char.isDigit

def inIntRange (n : Int) : Bool := MIN_INT < n && n < MAX_INT

/-- Python `repr(float(k))` of a small integer -/
def intRepr (k : Int) : String := toString k ++ ".0"

/-- decimal integer text (`-`? digits), as a list of characters -/
def parseIntChars (cs : List Char) : Option Int :=
  let digits (ds : List Char) : Option Nat :=
    if ds.isEmpty || !ds.all Char.isDigit then none else some (ds.foldl (fun acc c => acc * 10 + (c.toNat - 48)) 0)
  match cs with
  | '-' :: ds => (digits ds).map fun n => -(n : Int)
  | ds => (digits ds).map fun n => (n : Int)

/-- `_scalar_node_from_value(Float, x)` for the float with repr `r`: integral values inside the Int range are
    printed as Int literals -/
def floatLit (r : String) : Lit :=
  let cs := r.toList
  if cs.reverse.take 2 == ['0', '.'] && !cs.contains 'e' then
    match parseIntChars (cs.take (cs.length - 2)) with
    | some k => if inIntRange k then .int (toString k) (intRepr k) else .float r r
    | none => .float r r
  else .float r r

mutual
/-- structural equality of (canonical JSON) Python values — what `dict` lookup / `==` does on them -/
def jEq : J → J → Bool
  | .null, .null => true
  | .bool a, .bool b => a == b
  | .num a, .num b => a == b
  | .str a, .str b => a == b
  | .arr a, .arr b => jEqList a b
  | .obj a, .obj b => jEqObj a b
  | _, _ => false
def jEqList : List J → List J → Bool
  | [], [] => true
  | x :: xs, y :: ys => jEq x y && jEqList xs ys
  | _, _ => false
def jEqObj : List (String × J) → List (String × J) → Bool
  | [], [] => true
  | (k, x) :: xs, (l, y) :: ys => k == l && jEq x y && jEqObj xs ys
  | _, _ => false
end

/-- `ast_node_from_value` at one of the five specified scalars -/
def builtinLit (n : String) (v : J) : Option Lit :=
  if n == "Boolean" then (match v with | .bool b => some (.bool b) | _ => none)
  else if n == "Int" then (match v with | .num k => some (.int (toString k) (intRepr k)) | _ => none)
  else if n == "Float" then
    (match v with
     | .obj [("$float", .str r)] => some (floatLit r)
     | .num k => some (if inIntRange k then .int (toString k) (intRepr k) else .float (intRepr k) (intRepr k))
     | _ => none)
  else if n == "String" then (match v with | .str x => some (.str x) | _ => none)
  else if n == "ID" then
    (match v with
     | .str x => some (if isIntText x then .int x (x ++ ".0") else .str x)
     | .num k => some (.int (toString k) (intRepr k))
     | _ => none)
  else none

/-- a digit string without a trailing `0`, or the single digit `0` (fractions in Python's `repr(float)`) -/
def fracCanon (ds : List Char) : Bool :=
  !ds.isEmpty && ds.all Char.isDigit && (ds == ['0'] || ds.getLast? != some '0')

/-- number of significant digits of `int.frac` -/
def sigDigits (int frac : List Char) : Nat :=
  if int == ['0'] then (frac.dropWhile (· == '0')).length else int.length + (if frac == ['0'] then 0 else frac.length)

/-- `str(float(x)) == x` and `x` finite — Python's shortest `repr` of a double, modelled syntactically for numerals of
    at most 15 significant digits (every such decimal is the shortest repr of the double it denotes; longer numerals are
    outside the model: trusted base "Python float/repr are modelled, not verified"):
    `[-]int.frac` with `int` without leading zeros and below 10^16, at most three leading zeros in `frac` when `int` is
    `0`, no trailing zeros in `frac`; or `[-]d[.frac]e±XX` with exponent ≥ 16 or ≤ -5 written with at least two digits. -/
def isFloatRepr (x : String) : Bool :=
  let cs := match x.toList with | '-' :: r => r | l => l
  let intOK (i : List Char) : Bool := i == ['0'] || (match i with | c :: r => c != '0' && c.isDigit && r.all Char.isDigit | [] => false)
  match cs.span (· != 'e') with
  | (mant, []) =>
    (match mant.span (· != '.') with
     | (i, '.' :: f) =>
       intOK i && fracCanon f && i.length ≤ 16 && sigDigits i f ≤ 15 &&
       (i != ['0'] || f == ['0'] || (f.takeWhile (· == '0')).length ≤ 3)
     | _ => false)
  | (mant, 'e' :: sgn :: ex) =>
    let mantOK := (match mant.span (· != '.') with
      | ([d], []) => d != '0' && d.isDigit
      | ([d], '.' :: f) => d != '0' && d.isDigit && fracCanon f && f != ['0'] && 1 + f.length ≤ 15
      | _ => false)
    let exOK := ex.length ≥ 2 && ex.all Char.isDigit && (ex.length == 2 || ex.head? != some '0')
    let e := ex.foldl (fun acc c => acc * 10 + (c.toNat - 48)) 0
    mantOK && exOK && ((sgn == '+' && e ≥ 16) || (sgn == '-' && e ≥ 5))
  | _ => false

/-- `_NAME_RE`: a dict key that can be written as an object-field name -/
def isNameText (x : String) : Bool :=
  match x.toList with
  | c :: r => (c == '_' || c.isAlpha) && r.all (fun d => d == '_' || d.isAlphanum)
  | [] => false

/-- a canonical-JSON float `{"$float": repr}` -/
def floatObj? (kvs : List (String × J)) : Option String :=
  match kvs with | [("$float", .str r)] => some r | _ => none

mutual
/-- `ast_node_from_value` at a custom (pass-through) scalar. A STRING is written as a number only when the number
    denotes the very same text (fix H3: `_INT_RE` match, or `str(float(x)) == x`), otherwise as a string literal;
    dicts and lists / tuples are written as object / list literals (fix I7; keys must be names, in dict order). -/
def customLit : J → Option Lit
  | .bool b => some (.bool b)
  | .str x => some (if isIntText x then .int x (x ++ ".0") else if isFloatRepr x then .float x x else .str x)
  | .num k => some (.float (toString k) (intRepr k))             -- FloatValue(str(int))
  | .arr items => (customList items).map .list
  | .obj kvs =>
    match floatObj? kvs with
    | some r => some (.float r r)                                -- FloatValue(str(float))
    | none => if kvs.all (fun kv => isNameText kv.1) then (customFields kvs).map .obj else none
  | .null => none
/-- `_custom_scalar_entry`: `None` inside a structured value is `null` -/
def customList : List J → Option (List Lit)
  | [] => some []
  | x :: xs =>
    match (match x with | .null => some Lit.null | v => customLit v), customList xs with
    | some a, some b => some (a :: b)
    | _, _ => none
def customFields : List (String × J) → Option (List (String × Lit))
  | [] => some []
  | (k, x) :: xs =>
    match (match x with | .null => some Lit.null | v => customLit v), customFields xs with
    | some a, some b => some ((k, a) :: b)
    | _, _ => none
end

mutual
/-- `ast_node_from_value(v, ty)` as a literal; `none` = ValueError/TypeError -/
def valueLit (s : SchemaD) : Nat → J → Ty → Option Lit
  | 0, _, _ => none
  | fuel+1, v, ty =>
    match ty with
    | .nonNull t =>
      match valueLit s fuel v t with
      | some .null => none
      | r => r
    | .list t =>
      match v with
      | .null => some .null
      | .arr items => (itemsLit s fuel items t).map .list
      | _ => valueLit s fuel v t
    | .named n =>
      match v with
      | .null => some .null
      | _ =>
        if builtinScalars.contains n then builtinLit n v
        else match s.findType n with
          | none => none
          | some t =>
            match t.kind with
            | .enum => (t.values.find? (fun ev => jEq ev.value v)).map fun ev => .enum ev.name
            | .scalar => customLit v
            | .input =>
              match v with
              | .obj kvs => (fieldsLit s fuel kvs t.inputFields).map .obj
              | _ => none
            | _ => none

def itemsLit (s : SchemaD) : Nat → List J → Ty → Option (List Lit)
  | 0, _, _ => none
  | _, [], _ => some []
  | fuel+1, x :: xs, t =>
    match valueLit s fuel x t, itemsLit s fuel xs t with
    | some a, some b => some (a :: b)
    | _, _ => none

/-- `_object_value_node_from_value`: fields in the order of the TYPE; absent non-required fields are skipped -/
def fieldsLit (s : SchemaD) : Nat → List (String × J) → List ArgD → Option (List (String × Lit))
  | 0, _, _ => none
  | _, _, [] => some []
  | fuel+1, kvs, f :: fs =>
    match fieldsLit s fuel kvs fs with
    | none => none
    | some rest =>
      match kvs.find? (·.1 == f.name) with
      | some (_, v) => (valueLit s fuel v f.type).map fun l => (f.name, l) :: rest
      | none => if f.type.isNonNull && !f.hasDefault then none else some rest
end

def valueFuel : Nat := 200

mutual
/-- `print_ast` of a literal node (total, structural) -/
def litText : Lit → String
  | .null => "null"
  | .int v _ => v
  | .float v _ => v
  | .str x => jsonDumps x
  | .bool b => if b then "true" else "false"
  | .enum v => v
  | .list l => "[" ++ ", ".intercalate (litTexts l) ++ "]"
  | .obj fs => "{" ++ ", ".intercalate (fieldTexts fs) ++ "}"
def litTexts : List Lit → List String
  | [] => []
  | v :: vs => litText v :: litTexts vs
def fieldTexts : List (String × Lit) → List String
  | [] => []
  | (k, v) :: fs => (k ++ ": " ++ litText v) :: fieldTexts fs
end

/-- text of `print_ast(ast_node_from_value(v, ty))` -/
def valueText (s : SchemaD) (fuel : Nat) (v : J) (ty : Ty) : Option String := (valueLit s fuel v ty).map litText

def dirAppText (d : DirApp) : String :=
  "@" ++ d.name ++ (if d.args.isEmpty then "" else "(" ++ ", ".intercalate (fieldTexts d.args) ++ ")")

/-! ### the printer; every function threads the state -/

abbrev Apps := List (String × List DirApp)

def Apps.get (a : Apps) (path : String) : List DirApp := ((a.find? (·.1 == path)).map (·.2)).getD []

/-- the directive nodes for which `include_custom_schema_directive(name)` holds, in order: the name is first
    tested against the module-level state (specified directives are never "custom"), then against the
    whitelist if one was given. The node list itself is NOT modified. -/
def onWhitelist (wl : Option (List String)) (name : String) : Bool :=
  match wl with | none => true | some w => w.contains name

def keepCustom (wl : Option (List String)) : List DirApp → PrinterState → List DirApp × PrinterState
  | [], st => ([], st)
  | d :: ds, st =>
    let m := st.member d.name
    let r := keepCustom wl ds m.2
    let keep := !m.1 && onWhitelist wl d.name
    (if keep then d :: r.1 else r.1, r.2)

/-- `print_directives(definition)` -/
def printDirectives (o : Opts) (apps : Apps) (path : String) (st : PrinterState) : String × PrinterState :=
  if !o.custom then ("", st) else
  let nodes := apps.get path
  if nodes.isEmpty then ("", st) else
  let k := keepCustom o.whitelist nodes st
  (" " ++ " ".intercalate (k.1.map dirAppText), k.2)

def DEFAULT_DEPRECATION := "No longer supported"

def printDeprecated (r : Option String) : String :=
  match r with
  | none => ""
  | some x => if x.isEmpty || x == DEFAULT_DEPRECATION then " @deprecated" else " @deprecated(reason: " ++ jsonDumps x ++ ")"

/-- state-passing map with the position of the element (`enumerate`) -/
def mapSt {α} (f : Nat → α → PrinterState → String × PrinterState) : Nat → List α → PrinterState → List String × PrinterState
  | _, [], st => ([], st)
  | i, x :: xs, st =>
    let r1 := f i x st
    let r2 := mapSt f (i+1) xs r1.2
    (r1.1 :: r2.1, r2.2)

def printInputValue (s : SchemaD) (o : Opts) (apps : Apps) (path : String) (a : ArgD) (st : PrinterState) : String × PrinterState :=
  let base := a.name ++ ": " ++ a.type.render
  let withDefault :=
    if a.hasDefault then base ++ " = " ++ (valueText s valueFuel a.default a.type).getD "<ValueError>" else base
  let d := printDirectives o apps (path ++ "." ++ a.name) st
  (strip (withDefault ++ d.1), d.2)

def printArg (s : SchemaD) (o : Opts) (apps : Apps) (path : String) (depth : Nat) (multi : Bool) (i : Nat) (a : ArgD)
    (st : PrinterState) : String × PrinterState :=
  let v := printInputValue s o apps path a st
  (if multi then printDescription o a.desc (depth + 1) (i == 0) ++ o.indent ++ repeatStr o.indent depth ++ v.1 else v.1, v.2)

/-- `print_arguments(args, depth)`: one argument per line iff some argument has a description to print -/
def printArguments (s : SchemaD) (o : Opts) (apps : Apps) (path : String) (args : List ArgD) (depth : Nat) (st : PrinterState) :
    String × PrinterState :=
  let indent := repeatStr o.indent depth
  let multi := o.descriptions && args.any (fun a => match a.desc with | some d => !d.isEmpty | none => false)
  let r := mapSt (printArg s o apps path depth multi) 0 args st
  (if args.isEmpty then ""
   else if multi then indent ++ "(\n" ++ "\n".intercalate r.1 ++ "\n" ++ indent ++ ")"
   else "(" ++ ", ".intercalate r.1 ++ ")", r.2)

def printField (s : SchemaD) (o : Opts) (apps : Apps) (tname : String) (i : Nat) (f : FieldD) (st : PrinterState) : String × PrinterState :=
  let path := tname ++ "." ++ f.name
  let a := printArguments s o apps path f.args 1 st
  let d := printDirectives o apps path a.2
  (rstrip (printDescription o f.desc 1 (i == 0) ++ o.indent ++ f.name ++ a.1 ++ ": " ++ f.type.render
           ++ printDeprecated f.deprecated ++ d.1), d.2)

def printFields (s : SchemaD) (o : Opts) (apps : Apps) (t : TypeD) (st : PrinterState) : String × PrinterState :=
  let r := mapSt (printField s o apps t.name) 0 t.fields st
  ("\n".intercalate r.1, r.2)

def printEnumValue (o : Opts) (apps : Apps) (tname : String) (i : Nat) (v : EnumValD) (st : PrinterState) : String × PrinterState :=
  let dv := printDirectives o apps (tname ++ "." ++ v.name) st
  (rstrip (printDescription o v.desc 1 (i == 0) ++ o.indent ++ v.name ++ printDeprecated v.deprecated ++ dv.1), dv.2)

def printInputField (s : SchemaD) (o : Opts) (apps : Apps) (tname : String) (i : Nat) (f : ArgD) (st : PrinterState) : String × PrinterState :=
  let v := printInputValue s o apps tname f st
  (printDescription o f.desc 1 (i == 0) ++ o.indent ++ v.1, v.2)

def printType (s : SchemaD) (o : Opts) (apps : Apps) (t : TypeD) (st : PrinterState) : String × PrinterState :=
  let desc := printDescription o t.desc
  let d := printDirectives o apps t.name st
  match t.kind with
  | .scalar => (desc ++ "scalar " ++ t.name ++ d.1, d.2)
  | .enum =>
    let r := mapSt (printEnumValue o apps t.name) 0 t.values d.2
    (desc ++ "enum " ++ t.name ++ d.1 ++ " {\n" ++ "\n".intercalate r.1 ++ "\n}", r.2)
  | .union => (desc ++ "union " ++ t.name ++ d.1 ++ " = " ++ " | ".intercalate t.members, d.2)
  | .object =>
    let impl := if t.interfaces.isEmpty then "" else " implements " ++ " & ".intercalate t.interfaces
    let fs := printFields s o apps t d.2
    (desc ++ "type " ++ t.name ++ impl ++ d.1 ++ " {\n" ++ fs.1 ++ "\n}", fs.2)
  | .interface =>
    let fs := printFields s o apps t d.2
    (desc ++ "interface " ++ t.name ++ d.1 ++ " {\n" ++ fs.1 ++ "\n}", fs.2)
  | .input =>
    let r := mapSt (printInputField s o apps t.name) 0 t.inputFields d.2
    (desc ++ "input " ++ t.name ++ d.1 ++ " {\n" ++ "\n".intercalate r.1 ++ "\n}", r.2)

def printDirectiveDefinition (s : SchemaD) (o : Opts) (apps : Apps) (d : DirectiveD) (st : PrinterState) : String × PrinterState :=
  let a := printArguments s o apps ("@" ++ d.name) d.args 0 st
  (printDescription o d.desc ++ "directive @" ++ d.name ++ a.1 ++ " on " ++ " | ".intercalate d.locations, a.2)

/-- `_is_implied(root_type, default_name)` (fix H9): re-reading the document without a `schema` block infers this
    root — a PRESENT root must carry the conventional name, an ABSENT root requires that no type of that name exists -/
def rootImplied (s : SchemaD) (r : Option String) (n : String) : Bool :=
  match r with | none => !s.types.any (·.name == n) | some x => x == n

def printSchemaDefinition (s : SchemaD) (o : Opts) (apps : Apps) (st : PrinterState) : String × PrinterState :=
  let d := printDirectives o apps "" st
  let ops := (match s.query with | some q => [o.indent ++ "query: " ++ q] | none => [])
    ++ (match s.mutation with | some q => [o.indent ++ "mutation: " ++ q] | none => [])
    ++ (match s.subscription with | some q => [o.indent ++ "subscription: " ++ q] | none => [])
  (if d.1.isEmpty && rootImplied s s.query "Query" && rootImplied s s.mutation "Mutation" && rootImplied s s.subscription "Subscription" then ""
   else "schema" ++ d.1 ++ " {\n" ++ "\n".intercalate ops ++ "\n}", d.2)

def insertSorted {α} (key : α → String) (x : α) : List α → List α
  | [] => [x]
  | y :: ys => if key x < key y then x :: y :: ys else y :: insertSorted key x ys

def sortBy {α} (key : α → String) (l : List α) : List α := l.foldr (insertSorted key) []

/-- `ASTSchemaPrinter.__call__` (include_introspection = False) -/
def printSchema (o : Opts) (s : SchemaD) (apps : Apps) (st : PrinterState) : String × PrinterState :=
  let sd := printSchemaDefinition s o apps st
  let ds := mapSt (fun _ d st => printDirectiveDefinition s o apps d st) 0 (sortBy (·.name) s.directives) sd.2
  let ts := mapSt (fun _ t st => printType s o apps t st) 0 (sortBy (·.name) s.types) ds.2
  let parts := ((sd.1 :: ds.1) ++ ts.1).filter (!·.isEmpty)
  (if parts.isEmpty then "" else "\n\n".intercalate parts ++ "\n", ts.2)

/-! ### `include_introspection = True`: the library's own constants are written too -/

/-- what `to_string(include_introspection=True)` adds: the definitions of `SPECIFIED_DIRECTIVES` (in the library's order,
    NOT sorted, before the schema's own directives) and the introspection types registered in the schema (sorted by name
    with the schema's own types).  Both are constants of the library, re-read from the live objects on every run. -/
structure Builtins where
  specified : List DirectiveD := []
  introspection : List TypeD := []
  deriving Repr, Inhabited

/-- `ASTSchemaPrinter.__call__` with the option `include_introspection` -/
def printSchemaX (o : Opts) (intro : Bool) (b : Builtins) (s : SchemaD) (apps : Apps) (st : PrinterState) : String × PrinterState :=
  let sd := printSchemaDefinition s o apps st
  let sp := mapSt (fun _ d st => printDirectiveDefinition s o apps d st) 0 (if intro then b.specified else []) sd.2
  let ds := mapSt (fun _ d st => printDirectiveDefinition s o apps d st) 0 (sortBy (·.name) s.directives) sp.2
  let ts := mapSt (fun _ t st => printType s o apps t st) 0 (sortBy (·.name) (s.types ++ (if intro then b.introspection else []))) ds.2
  let parts := ((sd.1 :: sp.1) ++ ds.1 ++ ts.1).filter (!·.isEmpty)
  (if parts.isEmpty then "" else "\n\n".intercalate parts ++ "\n", ts.2)

/-- a history of calls with all four options -/
def runHistoryX (st : PrinterState) : List (Opts × Bool × Builtins × SchemaD × Apps) → List String
  | [] => []
  | c :: rest =>
    let r := printSchemaX c.1 c.2.1 c.2.2.1 c.2.2.2.1 c.2.2.2.2 st
    r.1 :: runHistoryX r.2 rest

/-- a HISTORY of `to_string` calls in one process: the state is threaded through -/
def runHistory (st : PrinterState) : List (Opts × SchemaD × Apps) → List String
  | [] => []
  | c :: rest =>
    let r := printSchema c.1 c.2.1 c.2.2 st
    r.1 :: runHistory r.2 rest

/-! ### `schemaToDoc`: the definitions the printer writes, as a document (the by-name content of `to_string`) -/

/-- `print_deprecated`: an empty reason or the default reason prints as bare `@deprecated` -/
def deprDirs (r : Option String) : List DirApp :=
  match r with
  | none => []
  | some x => if x.isEmpty || x == DEFAULT_DEPRECATION then [{ name := "deprecated" }]
              else [{ name := "deprecated", args := [("reason", .str x)] }]

/-- `print_description`: an empty description is not printed -/
def descToDoc (d : Option String) : Option String :=
  match d with | some x => if x.isEmpty then none else some x | none => none

def argToDef (s : SchemaD) (a : ArgD) : InputValDef :=
  { name := a.name, desc := descToDoc a.desc, type := a.type,
    default := if a.hasDefault then valueLit s valueFuel a.default a.type else none }

def fieldToDef (s : SchemaD) (f : FieldD) : FieldDef :=
  { name := f.name, desc := descToDoc f.desc, args := f.args.map (argToDef s), type := f.type, dirs := deprDirs f.deprecated }

def enumValToDef (v : EnumValD) : EnumValDef := { name := v.name, desc := descToDoc v.desc, dirs := deprDirs v.deprecated }

def typeToDef (s : SchemaD) (t : TypeD) : TypeDef :=
  { kind := t.kind, name := t.name, desc := descToDoc t.desc, interfaces := t.interfaces, fields := t.fields.map (fieldToDef s),
    members := t.members, values := t.values.map enumValToDef, inputFields := t.inputFields.map (argToDef s) }

def directiveToDef (s : SchemaD) (d : DirectiveD) : DirDef :=
  { name := d.name, desc := descToDoc d.desc, args := d.args.map (argToDef s), locations := d.locations }

/-- `print_schema_definition` (without schema-level directive applications): the `schema { … }` block is written
    unless every root is implied (`rootImplied`) -/
def needsSchemaBlock (s : SchemaD) : Bool :=
  !(rootImplied s s.query "Query" && rootImplied s s.mutation "Mutation" && rootImplied s s.subscription "Subscription")

def rootOps (s : SchemaD) : List (String × String) :=
  (match s.query with | some q => [("query", q)] | none => []) ++
  (match s.mutation with | some q => [("mutation", q)] | none => []) ++
  (match s.subscription with | some q => [("subscription", q)] | none => [])

/-- the document `to_string` denotes: schema block (if needed), directive definitions, type definitions -/
def schemaToDoc (s : SchemaD) : Doc :=
  (if needsSchemaBlock s then [.schema { ops := rootOps s }] else []) ++
  s.directives.map (fun d => .directive (directiveToDef s d)) ++ s.types.map (fun t => .type (typeToDef s t))

end PyGql.SdlPrint

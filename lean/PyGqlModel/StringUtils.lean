/-
  MODEL of `index_to_loc` / `highlight_location` (`py_gql/_string_utils.py`) and of the rendering
  contract of `GraphQLSyntaxError` (`py_gql/exc.py`, with proposed fix C01-L6: the position used for
  rendering is clamped into `[0, len(source)]`). `IndexError` is modelled explicitly (`none`).
-/
import PyGqlModel.Token
import PyGqlModel.BlockString

namespace PyGql.StringUtils
open PyGql.BlockString (splitLines)

/-- the `for offset, char in enumerate(body)` loop of `index_to_loc` -/
def locLoop (position : Nat) : Nat → Nat → Nat → Text → Nat × Nat
  | _, lines, cols, [] => (lines + 1, cols + 1)
  | offset, lines, cols, c :: t =>
    if offset = position then (lines + 1, cols + 1)
    else if c = 10 then locLoop position (offset + 1) (lines + 1) 0 t
    else locLoop position (offset + 1) lines (cols + 1) t

/-- `index_to_loc(body, position)`; `none` = `IndexError` (positions are never negative here) -/
def indexToLoc (body : Text) (position : Nat) : Option (Nat × Nat) :=
  if body.isEmpty && position == 0 then some (1, 1)
  else if position > body.length then none
  else some (locLoop position 0 0 0 body)

/-- what `highlight_location` indexes: the (line, column), and the source lines it prints
    (`lines[l]` for `l` in `min_line .. max_line`), every subscript checked -/
structure Highlight where
  line : Nat
  col : Nat
  shown : List Text
  deriving Repr, DecidableEq

/-- `highlight_location(body, position, delta)`; `none` = `IndexError` -/
def highlightLocation (body : Text) (position : Nat) (delta : Nat := 2) : Option Highlight := do
  let (line, col) ← indexToLoc body position
  let lineIndex := line - 1
  let lines := splitLines body
  let minLine := lineIndex - delta
  let maxLine := min (lineIndex + delta) (lines.length - 1)
  -- `lines[l] for l in range(min_line, line_index)`
  let before ← (List.range' minLine (lineIndex - minLine)).mapM (fun l => lines[l]?)
  let cur ← lines[lineIndex]?
  let after ← (List.range' (lineIndex + 1) (maxLine + 1 - (lineIndex + 1))).mapM (fun l => lines[l]?)
  pure ⟨line, col, before ++ cur :: after⟩

/-- `GraphQLSyntaxError._render_position` (C01-L6) -/
def renderPosition (source : Text) (position : Nat) : Nat := min position source.length

/-- `.highlighted` / `str()` succeed -/
def highlighted (source : Text) (position : Nat) : Option Highlight :=
  highlightLocation source (renderPosition source position)

/-- `.to_dict()` succeeds and carries this (line, column) -/
def toDict (source : Text) (position : Nat) : Option (Nat × Nat) := do
  let _ ← highlighted source position
  indexToLoc source (renderPosition source position)

end PyGql.StringUtils

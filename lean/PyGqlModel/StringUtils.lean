/-
  MODEL of `highlight_location` (and `index_to_loc`, shared with C10) (`py_gql/_string_utils.py`) and of the rendering
  contract of `GraphQLSyntaxError` (`py_gql/exc.py`, with proposed fix C01-L6: the position used for
  rendering is clamped into `[0, len(source)]`). `IndexError` is modelled explicitly (`none`).
-/
import PyGqlModel.Token
import PyGqlModel.BlockString
import PyGqlModel.Response

namespace PyGql.StringUtils
open PyGql.BlockString (splitLines)

/-- `index_to_loc(body, position)`; `none` = `IndexError`. There is ONE model of `index_to_loc`:
    `Response.indexToLoc` (C10), which follows fix X4 — LF, a lone CR and CRLF each end a line, the CR of a
    CRLF pair has no width. -/
abbrev indexToLoc (body : Text) (position : Nat) : Option (Nat × Nat) := Response.indexToLoc body position

/-- what `highlight_location` indexes: the (line, column), and the source lines it prints
    (`lines[l]` for `l` in `min_line .. max_line`), every subscript checked -/
structure Highlight where
  line : Nat
  col : Nat
  shown : List Text
  deriving Repr, DecidableEq

/-- `highlight_location(body, position, delta)`; `none` = `IndexError` -/
def highlightLocation (body : Text) (position : Nat) (delta : Nat := 2) : Option Highlight := do
  let (line, col) ← indexToLoc body position
  let lineIndex := line - 1
  let lines := splitLines body
  let minLine := lineIndex - delta
  let maxLine := min (lineIndex + delta) (lines.length - 1)
  -- `lines[l] for l in range(min_line, line_index)`
  let before ← (List.range' minLine (lineIndex - minLine)).mapM (fun l => lines[l]?)
  let cur ← lines[lineIndex]?
  let after ← (List.range' (lineIndex + 1) (maxLine + 1 - (lineIndex + 1))).mapM (fun l => lines[l]?)
  pure ⟨line, col, before ++ cur :: after⟩

/-- `GraphQLSyntaxError._render_position` (C01-L6) -/
def renderPosition (source : Text) (position : Nat) : Nat := min position source.length

/-- `.highlighted` / `str()` succeed -/
def highlighted (source : Text) (position : Nat) : Option Highlight :=
  highlightLocation source (renderPosition source position)

/-- `.to_dict()` succeeds and carries this (line, column) -/
def toDict (source : Text) (position : Nat) : Option (Nat × Nat) := do
  let _ ← highlighted source position
  indexToLoc source (renderPosition source position)

end PyGql.StringUtils

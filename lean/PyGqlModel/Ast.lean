/-
  AST of `py_gql/lang/ast.py`: one type / constructor per node class that the parser produces.
  Field names and order follow the classes' `__slots__` (minus `source`).  `loc : Option (Nat × Nat)`.
  Import-free apart from Token (Text).
-/
import PyGqlModel.Token
namespace PyGql.Ast
open PyGql

abbrev Loc := Option (Nat × Nat)

/-- `Name(value)` -/
structure Name where
  value : Text
  loc : Loc
  deriving Repr, DecidableEq, Inhabited

/-- `NamedType(name)` -/
structure NamedType where
  name : Name
  loc : Loc
  deriving Repr, DecidableEq, Inhabited

/-- `Type` = `NamedType | ListType | NonNullType` -/
inductive TypeRef where
  | named (t : NamedType)
  | list (type : TypeRef) (loc : Loc)
  | nonNull (type : TypeRef) (loc : Loc)
  deriving Repr, DecidableEq, Inhabited

/-- `Variable(name)` -/
structure Variable where
  name : Name
  loc : Loc
  deriving Repr, DecidableEq, Inhabited

/-- `StringValue(value, block)` (also used for descriptions) -/
structure StringValue where
  value : Text
  block : Bool
  loc : Loc
  deriving Repr, DecidableEq, Inhabited

mutual
/-- what `parse_value_literal` returns: `Variable` or one of the `Value` classes -/
inductive Value where
  | var (v : Variable)
  | int (value : Text) (loc : Loc)
  | float (value : Text) (loc : Loc)
  | string (s : StringValue)
  | boolean (value : Bool) (loc : Loc)
  | null (loc : Loc)
  | enum (value : Text) (loc : Loc)
  | list (values : List Value) (loc : Loc)
  | object (fields : List ObjectField) (loc : Loc)
/-- `ObjectField(name, value)` -/
inductive ObjectField where
  | mk (name : Name) (value : Value) (loc : Loc)
end

instance : Inhabited Value := ⟨.null none⟩

/-- `Argument(name, value)` -/
structure Argument where
  name : Name
  value : Value
  loc : Loc

/-- `Directive(name, arguments)` -/
structure Directive where
  name : Name
  arguments : List Argument
  loc : Loc

/-- `VariableDefinition(variable, type, default_value, directives)` -/
structure VariableDefinition where
  var : Variable
  type : TypeRef
  defaultValue : Option Value
  directives : List Directive
  loc : Loc

mutual
/-- `Field | FragmentSpread | InlineFragment` -/
inductive Selection where
  | field (alias_ : Option Name) (name : Name) (arguments : List Argument) (directives : List Directive)
      (selectionSet : Option SelectionSet) (loc : Loc)
  | fragmentSpread (name : Name) (directives : List Directive) (loc : Loc)
  | inlineFragment (typeCondition : Option NamedType) (directives : List Directive)
      (selectionSet : SelectionSet) (loc : Loc)
/-- `SelectionSet(selections)` -/
inductive SelectionSet where
  | mk (selections : List Selection) (loc : Loc)
end

/-- `OperationDefinition(operation, name, variable_definitions, directives, selection_set)` -/
structure OperationDefinition where
  operation : Text
  name : Option Name
  variableDefinitions : List VariableDefinition
  directives : List Directive
  selectionSet : SelectionSet
  loc : Loc

/-- `FragmentDefinition(name, variable_definitions, type_condition, directives, selection_set)`;
    `variable_definitions` is `[]` when the flag is off (`None or []`). -/
structure FragmentDefinition where
  name : Name
  variableDefinitions : List VariableDefinition
  typeCondition : NamedType
  directives : List Directive
  selectionSet : SelectionSet
  loc : Loc

/-- `OperationTypeDefinition(operation, type)` -/
structure OperationTypeDefinition where
  operation : Text
  type : NamedType
  loc : Loc

/-- `InputValueDefinition(description, name, type, default_value, directives)` -/
structure InputValueDefinition where
  description : Option StringValue
  name : Name
  type : TypeRef
  defaultValue : Option Value
  directives : List Directive
  loc : Loc

/-- `FieldDefinition(description, name, arguments, type, directives)` -/
structure FieldDefinition where
  description : Option StringValue
  name : Name
  arguments : List InputValueDefinition
  type : TypeRef
  directives : List Directive
  loc : Loc

/-- `EnumValueDefinition(description, name, directives)` -/
structure EnumValueDefinition where
  description : Option StringValue
  name : Name
  directives : List Directive
  loc : Loc

/-- every `Definition` subclass the parser produces -/
inductive Definition where
  | operation (d : OperationDefinition)
  | fragment (d : FragmentDefinition)
  | schemaDefinition (directives : List Directive) (operationTypes : List OperationTypeDefinition) (loc : Loc)
  | scalarTypeDefinition (description : Option StringValue) (name : Name) (directives : List Directive) (loc : Loc)
  | objectTypeDefinition (description : Option StringValue) (name : Name) (interfaces : List NamedType)
      (directives : List Directive) (fields : List FieldDefinition) (loc : Loc)
  | interfaceTypeDefinition (description : Option StringValue) (name : Name) (directives : List Directive)
      (fields : List FieldDefinition) (loc : Loc)
  | unionTypeDefinition (description : Option StringValue) (name : Name) (directives : List Directive)
      (types : List NamedType) (loc : Loc)
  | enumTypeDefinition (description : Option StringValue) (name : Name) (directives : List Directive)
      (values : List EnumValueDefinition) (loc : Loc)
  | inputObjectTypeDefinition (description : Option StringValue) (name : Name) (directives : List Directive)
      (fields : List InputValueDefinition) (loc : Loc)
  | directiveDefinition (description : Option StringValue) (name : Name) (arguments : List InputValueDefinition)
      (locations : List Name) (loc : Loc)
  | schemaExtension (directives : List Directive) (operationTypes : List OperationTypeDefinition) (loc : Loc)
  | scalarTypeExtension (name : Name) (directives : List Directive) (loc : Loc)
  | objectTypeExtension (name : Name) (interfaces : List NamedType) (directives : List Directive)
      (fields : List FieldDefinition) (loc : Loc)
  | interfaceTypeExtension (name : Name) (directives : List Directive) (fields : List FieldDefinition) (loc : Loc)
  | unionTypeExtension (name : Name) (directives : List Directive) (types : List NamedType) (loc : Loc)
  | enumTypeExtension (name : Name) (directives : List Directive) (values : List EnumValueDefinition) (loc : Loc)
  | inputObjectTypeExtension (name : Name) (directives : List Directive) (fields : List InputValueDefinition)
      (loc : Loc)

/-- `Document(definitions)` -/
structure Document where
  definitions : List Definition
  loc : Loc

end PyGql.Ast

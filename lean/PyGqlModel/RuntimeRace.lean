/-
  C08 / finding E2 — `gather_futures.on_finish` when the callbacks of two pending futures run on two
  pool workers AT THE SAME TIME.  `Runtime.lean` treats one `on_finish(d)` call as one atomic step; here the
  body is split into the micro-steps a thread switch can separate:

      def on_finish(d):
          nonlocal done
          done += 1                      -- LOAD  (tmp := done)          `start    → loaded tmp`
                                         -- STORE (done := tmp + 1)      `loaded t → stored`
          try: d.result() ...            -- (successful `d`: nothing)
          if done == target_count:       -- TEST  (reads `done` again)   `stored   → finished`
              outer.set_result([...])    --   a second `set_result` raises InvalidStateError inside the callback

  Only successful completions are modelled (an exception sets `outer` without looking at the counter).
  `Race.step` is the NON-atomic machine (three micro-steps per worker, any interleaving);
  `Race.astep` is the machine with an ATOMIC increment (LOAD+STORE fused — what a lock around `done += 1`
  gives) but still a separate TEST, interleaved arbitrarily;
  `Race.lstep` is the non-atomic machine under a LOCK held from LOAD to STORE (a worker that finds the lock
  taken does not move).
-/
namespace PyGql.AsyncExec.Race

/-- program counter of one worker inside `on_finish` (non-atomic) -/
inductive PC where
  | start
  | loaded (tmp : Nat)
  | stored
  | finished
  deriving DecidableEq, Repr

structure St where
  done : Nat                 -- the `nonlocal done`
  target : Nat               -- `target_count`
  sets : Nat := 0            -- successful `outer.set_result` calls
  swallowed : Nat := 0       -- InvalidStateError raised inside a callback (outer already set)
  pcs : List PC
  deriving DecidableEq, Repr

/-- `gather_futures` over `plain` non-future entries (already counted) and `n` pending futures -/
def St.init (plain n : Nat) : St :=
  { done := plain, target := plain + n, pcs := List.replicate n .start }

def St.allFinished (s : St) : Bool := s.pcs.all (· == .finished)

/-- the aggregate Future has been set -/
def St.outerSet (s : St) : Bool := s.sets != 0

/-- the TEST micro-step: `if done == target_count: outer.set_result(...)` -/
def St.test (s : St) : St :=
  if s.done == s.target then
    if s.sets == 0 then { s with sets := 1 } else { s with swallowed := s.swallowed + 1 }
  else s

/-- one micro-step of worker `i` (non-atomic `done += 1`) -/
def step (s : St) (i : Nat) : St :=
  match s.pcs[i]? with
  | some .start => { s with pcs := s.pcs.set i (.loaded s.done) }
  | some (.loaded t) => { s with done := t + 1, pcs := s.pcs.set i .stored }
  | some .stored => { s.test with pcs := s.pcs.set i .finished }
  | _ => s

def run (s : St) : List Nat → St
  | [] => s
  | i :: rest => run (step s i) rest

/-- ATOMIC increment: LOAD and STORE are one step -/
def astep (s : St) (i : Nat) : St :=
  match s.pcs[i]? with
  | some .start => { s with done := s.done + 1, pcs := s.pcs.set i .stored }
  | some (.loaded t) => { s with done := t + 1, pcs := s.pcs.set i .stored }      -- unreachable from `init`
  | some .stored => { s.test with pcs := s.pcs.set i .finished }
  | _ => s

def arun (s : St) : List Nat → St
  | [] => s
  | i :: rest => arun (astep s i) rest

def PC.isLoaded : PC → Bool
  | .loaded _ => true
  | _ => false

/-- the lock around `done += 1` is held: some worker is between LOAD and STORE -/
def St.locked (s : St) : Bool := s.pcs.any PC.isLoaded

/-- NON-atomic micro-steps under a LOCK held from LOAD to STORE (`with lock: done += 1`): a worker at `start`
    that finds the lock taken does not move; everything else as `step` -/
def lstep (s : St) (i : Nat) : St :=
  match s.pcs[i]? with
  | some .start => if s.locked then s else step s i
  | _ => step s i

def lrun (s : St) : List Nat → St
  | [] => s
  | i :: rest => lrun (lstep s i) rest

end PyGql.AsyncExec.Race

/-
  Token-level model of `py_gql/lang/parser.py` — part 1: parser state, `peek / advance / expect /
  expect_keyword / skip`, the combinators `many / any_ / delimited_list`, `_loc`, names, types, values,
  arguments and directives.  Function by function, names kept (`parse_value_literal` → `parseValueLiteral`).

  * The token list is the lexer's output `SOF … EOF` (the lexer is modelled in `Lex.lean`).
  * State = remaining tokens + `_last` (the last token consumed by `advance`, used by `_loc`).
  * Python's `while` loops / recursion take `fuel`; the entry points (ParseDoc.lean) start with
    `tokens.length + 1`, which is always enough (`Lemmas/Parse*.lean`: completeness holds for every
    fuel larger than the number of tokens of the construct).
  * L5 is modelled as FIXED (`proposed_fixes/C01-L5.patch`): keyword tests also require class `Name`.
  Import-free (core Lean + Token + Ast + the generated tables).
-/
import PyGqlModel.Token
import PyGqlModel.Ast
import PyGqlModel.Generated.ParserTables
namespace PyGql.Parse
open PyGql PyGql.Ast

/-- the three keyword arguments of `Parser.__init__` -/
structure Flags where
  noLocation : Bool := false
  allowTypeSystem : Bool := false
  experimentalFragmentVariables : Bool := false
  deriving Repr, DecidableEq, Inhabited

/-- `GraphQLSyntaxError` (position, message). Messages / positions are never compared. -/
structure SynErr where
  pos : Nat
  msg : String
  /-- the error class: `UnexpectedEOF` (true) or `UnexpectedToken` (false) -/
  eof : Bool := false
  deriving Repr, DecidableEq, Inhabited

/-- parser state: the tokens not yet consumed (`_lexer` + `_buffer`) and `_last` -/
structure PS where
  toks : List Tok
  last : Tok
  deriving Repr, DecidableEq, Inhabited

/-- a `Parser` method returning `α` -/
def P (α : Type) := PS → Except SynErr (α × PS)

namespace P
@[inline] protected def pure (a : α) : P α := fun s => .ok (a, s)
@[inline] protected def bind (m : P α) (f : α → P β) : P β := fun s =>
  match m s with
  | .ok (a, s') => f a s'
  | .error e => .error e
instance : Monad P where
  pure := P.pure
  bind := P.bind
end P

/-- `raise _unexpected_token(tok, tok.start, …)` for the NEXT token `tok = self.peek()`:
    `UnexpectedEOF` if it is `<EOF>`, else `UnexpectedToken`, at its start -/
def fail (msg : String) : P α := fun s =>
  match s.toks with
  | t :: _ => .error { pos := t.start, msg := msg, eof := t.kind = .eof }
  | [] => .error { pos := s.last.stop, msg := msg, eof := true }

/-- `raise UnexpectedToken(…, next_token.start, …)` (`expect`, `expect_keyword`): never `UnexpectedEOF` -/
def failTok (msg : String) : P α := fun s =>
  match s.toks with
  | t :: _ => .error { pos := t.start, msg := msg, eof := false }
  | [] => .error { pos := s.last.stop, msg := msg, eof := true }

/-- `raise _unexpected_token(t, t.start, …)` for an already inspected / consumed token `t` -/
def failAt (t : Tok) (msg : String) : P α := fun _ =>
  .error { pos := t.start, msg := msg, eof := t.kind = .eof }

/-- `raise UnexpectedToken(…, t.start, …)` for an already inspected / consumed token `t` -/
def failTokAt (t : Tok) (msg : String) : P α := fun _ =>
  .error { pos := t.start, msg := msg, eof := false }

/-! ### keywords (code points) -/
namespace K
/-- `"on"` -/ def on : Text := [111, 110]
/-- `"query"` -/ def query : Text := [113, 117, 101, 114, 121]
/-- `"mutation"` -/ def mutation : Text := [109, 117, 116, 97, 116, 105, 111, 110]
/-- `"subscription"` -/ def subscription : Text := [115, 117, 98, 115, 99, 114, 105, 112, 116, 105, 111, 110]
/-- `"fragment"` -/ def fragment : Text := [102, 114, 97, 103, 109, 101, 110, 116]
/-- `"true"` -/ def true_ : Text := [116, 114, 117, 101]
/-- `"false"` -/ def false_ : Text := [102, 97, 108, 115, 101]
/-- `"null"` -/ def null_ : Text := [110, 117, 108, 108]
/-- `"implements"` -/ def implements : Text := [105, 109, 112, 108, 101, 109, 101, 110, 116, 115]
/-- `"extend"` -/ def extend : Text := [101, 120, 116, 101, 110, 100]
/-- `"schema"` -/ def schema : Text := [115, 99, 104, 101, 109, 97]
/-- `"scalar"` -/ def scalar : Text := [115, 99, 97, 108, 97, 114]
/-- `"type"` -/ def type_ : Text := [116, 121, 112, 101]
/-- `"interface"` -/ def interface_ : Text := [105, 110, 116, 101, 114, 102, 97, 99, 101]
/-- `"union"` -/ def union : Text := [117, 110, 105, 111, 110]
/-- `"enum"` -/ def enum_ : Text := [101, 110, 117, 109]
/-- `"input"` -/ def input : Text := [105, 110, 112, 117, 116]
/-- `"directive"` -/ def directive : Text := [100, 105, 114, 101, 99, 116, 105, 118, 101]
end K

/-! ### `peek`, `advance`, `expect`, `expect_keyword`, `skip`, `_loc` -/

/-- `self.peek()` (raises `UnexpectedEOF` when nothing is left) -/
def peek : P Tok := fun s =>
  match s.toks with
  | t :: _ => .ok (t, s)
  | [] => .error { pos := s.last.stop, msg := "Unexpected <EOF>", eof := true }

/-- `self.peek(2)` -/
def peek2 : P Tok := fun s =>
  match s.toks with
  | _ :: t :: _ => .ok (t, s)
  | _ => .error { pos := s.last.stop, msg := "Unexpected <EOF>", eof := true }

/-- `self.advance()`: sets `_last` -/
def advance : P Tok := fun s =>
  match s.toks with
  | t :: ts => .ok (t, { toks := ts, last := t })
  | [] => .error { pos := s.last.stop, msg := "Unexpected <EOF>", eof := true }

/-- `self.expect(kind)` -/
def expect (k : TokKind) : P Tok := do
  let t ← peek
  if t.kind = k then advance else failTok "Expected other token kind"

/-- `self.expect_keyword(keyword)` -/
def expectKeyword (kw : Text) : P Tok := do
  let t ← peek
  if t.kind = .name ∧ t.value = kw then advance else failTok "Expected keyword"

/-- `self.skip(kind)` -/
def skip (k : TokKind) : P Bool := do
  let t ← peek
  if t.kind = k then do
    let _ ← advance
    pure true
  else pure false

/-- `(start.start, self._last.end)` or `None` -/
def locOf (fl : Flags) (start last : Tok) : Loc :=
  if fl.noLocation then none else some (start.start, last.stop)

/-- `self._loc(start)` -/
def mkLoc (fl : Flags) (start : Tok) : P Loc := fun s => .ok (locOf fl start s.last, s)

/-! ### combinators -/

/-- the `while True: nodes.append(parse_fn()); if self.skip(close_kind): break` loop of `many` -/
def manyLoop (p : P α) (close : TokKind) : Nat → P (List α)
  | 0 => fail "fuel"
  | n + 1 => do
    let x ← p
    if (← skip close) then pure [x]
    else do
      let xs ← manyLoop p close n
      pure (x :: xs)

/-- `self.many(open_kind, parse_fn, close_kind)` -/
def many (fuel : Nat) (opn : TokKind) (p : P α) (close : TokKind) : P (List α) := do
  let _ ← expect opn
  manyLoop p close fuel

/-- the `while not self.skip(close_kind): nodes.append(parse_fn())` loop of `any_` -/
def anyLoop (p : P α) (close : TokKind) : Nat → P (List α)
  | 0 => fail "fuel"
  | n + 1 => do
    if (← skip close) then pure []
    else do
      let x ← p
      let xs ← anyLoop p close n
      pure (x :: xs)

/-- `self.any_(open_kind, parse_fn, close_kind)` -/
def any_ (fuel : Nat) (opn : TokKind) (p : P α) (close : TokKind) : P (List α) := do
  let _ ← expect opn
  anyLoop p close fuel

/-- the loop of `delimited_list`: `items.append(parse_fn()); if not self.skip(delimiter): break` -/
def delimLoop (p : P α) (delim : TokKind) : Nat → P (List α)
  | 0 => fail "fuel"
  | n + 1 => do
    let x ← p
    if (← skip delim) then do
      let xs ← delimLoop p delim n
      pure (x :: xs)
    else pure [x]

/-- `self.delimited_list(delimiter, parse_fn)` -/
def delimitedList (fuel : Nat) (delim : TokKind) (p : P α) : P (List α) := do
  let _ ← skip delim
  delimLoop p delim fuel

/-! ### names and types -/

/-- `parse_name` -/
def parseName (fl : Flags) : P Name := do
  let token ← expect .name
  pure { value := token.value, loc := ← mkLoc fl token }

/-- `parse_named_type` -/
def parseNamedType (fl : Flags) : P NamedType := do
  let start ← peek
  let name ← parseName fl
  pure { name := name, loc := ← mkLoc fl start }

/-- the `if self.skip(BracketOpen): … else: …` part of `parse_type_reference` (recursive call = `rec_`) -/
def parseTypeInner (fl : Flags) (rec_ : P TypeRef) (start : Tok) : P TypeRef := do
  if (← skip .bracketL) then do
    let inner ← rec_
    let _ ← expect .bracketR
    pure (TypeRef.list inner (← mkLoc fl start))
  else do
    let t ← parseNamedType fl
    pure (TypeRef.named t)

/-- `parse_type_reference` -/
def parseTypeReference (fl : Flags) : Nat → P TypeRef
  | 0 => fail "fuel"
  | n + 1 => do
    let start ← peek
    let type_ ← parseTypeInner fl (parseTypeReference fl n) start
    if (← skip .bang) then pure (TypeRef.nonNull type_ (← mkLoc fl start))
    else pure type_

/-! ### values -/

/-- `parse_variable` -/
def parseVariable (fl : Flags) : P Variable := do
  let start ← peek
  let _ ← expect .dollar
  let name ← parseName fl
  pure { name := name, loc := ← mkLoc fl start }

/-- `parse_string_literal` -/
def parseStringLiteral (fl : Flags) : P StringValue := do
  let token ← advance
  pure { value := token.value, block := token.kind = .blockString, loc := ← mkLoc fl token }

/-- `parse_object_field(const)`, the recursive call abstracted as `pv` -/
def parseObjectFieldWith (fl : Flags) (pv : P Value) : P ObjectField := do
  let start ← peek
  let name ← parseName fl
  let _ ← expect .colon
  let value ← pv
  pure (.mk name value (← mkLoc fl start))

/-- `parse_value_literal(const)` with `parse_list` / `parse_object` inlined -/
def parseValueLiteral (fl : Flags) : Nat → Bool → P Value
  | 0, _ => fail "fuel"
  | n + 1, const => do
    let token ← peek
    match token.kind with
    | .bracketL => do
      -- parse_list
      let values ← any_ n .bracketL (parseValueLiteral fl n const) .bracketR
      pure (.list values (← mkLoc fl token))
    | .curlyL => do
      -- parse_object
      let start ← expect .curlyL
      let fields ← anyLoop (parseObjectFieldWith fl (parseValueLiteral fl n const)) .curlyR n
      pure (.object fields (← mkLoc fl start))
    | .int => do
      let _ ← advance
      pure (.int token.value (← mkLoc fl token))
    | .float => do
      let _ ← advance
      pure (.float token.value (← mkLoc fl token))
    | .string => do
      let s ← parseStringLiteral fl
      pure (.string s)
    | .blockString => do
      let s ← parseStringLiteral fl
      pure (.string s)
    | .name =>
      if token.value = K.true_ ∨ token.value = K.false_ then do
        let _ ← advance
        pure (.boolean (token.value = K.true_) (← mkLoc fl token))
      else if token.value = K.null_ then do
        let _ ← advance
        pure (.null (← mkLoc fl token))
      else do
        let _ ← advance
        pure (.enum token.value (← mkLoc fl token))
    | .dollar =>
      if const then fail "Unexpected $"
      else do
        let v ← parseVariable fl
        pure (.var v)
    | _ => fail "Unexpected token"

/-- `parse_object_field(const)` -/
def parseObjectField (fl : Flags) (fuel : Nat) (const : Bool) : P ObjectField :=
  parseObjectFieldWith fl (parseValueLiteral fl fuel const)

/-! ### arguments and directives -/

/-- `parse_argument(const)` -/
def parseArgument (fl : Flags) (fuel : Nat) (const : Bool) : P Argument := do
  let start ← peek
  let name ← parseName fl
  let _ ← expect .colon
  let value ← parseValueLiteral fl fuel const
  pure { name := name, value := value, loc := ← mkLoc fl start }

/-- `parse_arguments(const)` -/
def parseArguments (fl : Flags) (fuel : Nat) (const : Bool) : P (List Argument) := do
  if (← peek).kind = .parenL then many fuel .parenL (parseArgument fl fuel const) .parenR
  else pure []

/-- `parse_directive(const)` -/
def parseDirective (fl : Flags) (fuel : Nat) (const : Bool) : P Directive := do
  let start ← expect .atSign
  let name ← parseName fl
  let arguments ← parseArguments fl fuel const
  pure { name := name, arguments := arguments, loc := ← mkLoc fl start }

/-- the `while self.peek().__class__ is At` loop of `parse_directives` -/
def directivesLoop (fl : Flags) (fuel : Nat) (const : Bool) : Nat → P (List Directive)
  | 0 => fail "fuel"
  | n + 1 => do
    if (← peek).kind = .atSign then do
      let d ← parseDirective fl fuel const
      let ds ← directivesLoop fl fuel const n
      pure (d :: ds)
    else pure []

/-- `parse_directives(const)` -/
def parseDirectives (fl : Flags) (fuel : Nat) (const : Bool) : P (List Directive) :=
  directivesLoop fl fuel const fuel

end PyGql.Parse

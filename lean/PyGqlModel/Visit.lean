/-
  C18 — MODEL of `src/py_gql/lang/visitor.py` (+ `_utils.map_and_filter`, `_utils.classdispatch`).

  A tree is a generic rose tree: `Node` = kind + identity + attributes (in `__slots__` order),
  an attribute = opaque scalar | one optional child | list of children.  The traversal is driven
  by a `Table` (the body of every `@_visit_method`, the dispatch registries) which is
  RE-EXTRACTED from the source on every run (`Generated/VisitTable.lean`).

  Python mutates trees in place; the model is functional.  The difference is observable where a
  result is discarded (`self._visit_x(P.a)` without assignment) and in `ChainedVisitor.enter`
  (returns the ORIGINAL object).  Therefore `enter` tells whether it returned the same object
  (`keep n'`, possibly mutated in place to `n'`) or a fresh one (`replace n'`), and a visit
  returns both the returned node (`ret`) and the content of the original object (`orig`).

  Recursion is on fuel: a visitor may return an arbitrarily large replacement whose children
  are then visited (the Python code does not terminate for every visitor either).
  Import-free (core Lean only).
-/
import PyGqlModel.VisitTypes

namespace PyGql.Visit

mutual
inductive Node where
  | mk (kind : String) (id : Nat) (attrs : List (String × Attr))
inductive Attr where
  | scalar (v : String)
  | one (c : Option Node)
  | many (cs : List Node)
end

instance : Inhabited Node := ⟨.mk "" 0 []⟩
instance : Inhabited Attr := ⟨.scalar ""⟩

namespace Node
def kind : Node → String | .mk k _ _ => k
def id : Node → Nat | .mk _ i _ => i
def attrs : Node → List (String × Attr) | .mk _ _ a => a

/-- `getattr(node, a)`; `none` = `AttributeError` -/
def getAttr (n : Node) (a : String) : Option Attr := n.attrs.lookup a

def setIn (a : String) (x : Attr) : List (String × Attr) → List (String × Attr)
  | [] => []
  | (b, y) :: r => if a == b then (b, x) :: r else (b, y) :: setIn a x r

/-- `node.a = x` for an attribute that exists -/
def setAttr (n : Node) (a : String) (x : Attr) : Node := .mk n.kind n.id (setIn a x n.attrs)
end Node

/-- what `enter` did -/
inductive Act where
  /-- returned the SAME object, whose content is now `n` (`n` = the argument for a visitor that does not mutate) -/
  | keep (n : Node)
  /-- returned a different object `n` -/
  | replace (n : Node)
  /-- returned `None` -/
  | delete
  /-- raised `SkipNode`; the content of the argument object is `n` (`n` = the argument unless mutated before raising) -/
  | skip (n : Node)
  /-- raised something else -/
  | raise (e : String)

structure Visitor (σ : Type) where
  enter : Node → σ → Act × σ
  leave : Node → σ → σ

/-- a call made to the visitor -/
structure Ev where
  enter : Bool
  node : Node

def Ev.key (e : Ev) : Bool × Nat × String := (e.enter, e.node.id, e.node.kind)

inductive Res (α : Type) where
  | ok (a : α)
  | err (e : String)
  | fuel

/-- outcome of one `_visit_method`-wrapped call -/
structure Out (σ : Type) where
  /-- what the wrapper returns (`none` = `None`) -/
  ret : Option Node
  /-- content of the ARGUMENT object afterwards (in-place effects) -/
  orig : Node
  st : σ
  tr : List Ev

section
variable {σ : Type}

/-- `map_and_filter(f, cs)` with the state threaded left to right.
    Result: (the rebuilt list, the original members after in-place effects, state, calls). -/
def visitList (f : Node → σ → Res (Out σ)) : List Node → σ → Res (List Node × List Node × σ × List Ev)
  | [], s => .ok ([], [], s, [])
  | c :: cs, s =>
    match f c s with
    | .err e => .err e
    | .fuel => .fuel
    | .ok o =>
      match visitList f cs o.st with
      | .err e => .err e
      | .fuel => .fuel
      | .ok (r, ip, s', tr) =>
        .ok ((match o.ret with | some n => n :: r | none => r), o.orig :: ip, s', o.tr ++ tr)

def Step.applies (st : Step) (kind : String) : Bool :=
  match st.kinds with
  | none => true
  | some ks => ks.contains kind

/-- one statement of a `_visit_*` body on the node `n` (already entered) -/
def runStep (call : Target → Node → σ → Res (Out σ)) (st : Step) (n : Node) (s : σ) : Res (Node × σ × List Ev) :=
  if !st.applies n.kind then .ok (n, s, []) else
  match n.getAttr st.attr with
  | none => .err "AttributeError"
  | some a =>
    match st.shape, a with
    | .one, .one none =>
      -- unguarded: `self._visit_x(None)` calls `enter(None)`; outside the model
      if st.guard == .always then .err "NoneNode" else .ok (n, s, [])
    | .one, .one (some c) =>
      match call st.target c s with
      | .err e => .err e
      | .fuel => .fuel
      | .ok o => .ok (n.setAttr st.attr (.one (if st.assign then o.ret else some o.orig)), o.st, o.tr)
    | .many, .many cs =>
      match visitList (call st.target) cs s with
      | .err e => .err e
      | .fuel => .fuel
      | .ok (r, ip, s', tr) => .ok (n.setAttr st.attr (.many (if st.assign then r else ip)), s', tr)
    | _, _ => .err "ShapeError"

def runSteps (call : Target → Node → σ → Res (Out σ)) : List Step → Node → σ → Res (Node × σ × List Ev)
  | [], n, s => .ok (n, s, [])
  | st :: rest, n, s =>
    match runStep call st n s with
    | .err e => .err e
    | .fuel => .fuel
    | .ok (n1, s1, tr1) =>
      match runSteps call rest n1 s1 with
      | .err e => .err e
      | .fuel => .fuel
      | .ok (n2, s2, tr2) => .ok (n2, s2, tr1 ++ tr2)

/-- which `@_visit_method` a call target runs for a child of kind `kind` (`classdispatch` / isinstance cascade) -/
def resolve (T : Table) (tgt : Target) (kind : String) : Except String String :=
  match tgt with
  | .method m => .ok m
  | .disp d =>
    match T.dispatchers.lookup d with
    | none => .error "NoDispatcher"
    | some D =>
      match D.registry.lookup kind with
      | some m => .ok m
      | none => match D.dflt with
        | some m => .ok m
        | none => .error "TypeError"

def callTarget (T : Table) (rec : String → Node → σ → Res (Out σ)) (tgt : Target) (c : Node) (s : σ) : Res (Out σ) :=
  match resolve T tgt c.kind with
  | .ok m => rec m c s
  | .error e => .err e

/-- which `@_visit_method` body runs on the node `n1` that `enter` returned for `n` inside method `m`:
    `m` itself, unless `n1` is of another class and the wrapper dispatches on it (`T.crossKind`) -/
def bodyMethod (T : Table) (m : String) (n n1 : Node) : Except String String :=
  if T.crossKind && !(n1.kind == n.kind) then
    match T.visit.lookup n1.kind with
    | none => .error "TypeError"
    | some m' => .ok m'
  else .ok m

/-- `_visit_method(method)(inst, node)`: enter / skip / body / leave -/
def visitM (T : Table) (v : Visitor σ) : Nat → String → Node → σ → Res (Out σ)
  | 0, _, _, _ => .fuel
  | fuel + 1, m, n, s =>
    match v.enter n s with
    | (.raise e, _) => .err e
    | (.skip n', s1) => .ok ⟨some n', n', s1, [⟨true, n⟩]⟩
    | (.delete, s1) => .ok ⟨none, n, s1, [⟨true, n⟩]⟩
    | (.keep n1, s1) =>
      match bodyMethod T m n n1 with
      | .error e => .err e
      | .ok mb =>
      match T.methods.lookup mb with
      | none => .err "NoMethod"
      | some steps =>
        match runSteps (callTarget T (visitM T v fuel)) steps n1 s1 with
        | .err e => .err e
        | .fuel => .fuel
        | .ok (n2, s2, tr) => .ok ⟨some n2, n2, v.leave n2 s2, ⟨true, n⟩ :: tr ++ [⟨false, n2⟩]⟩
    | (.replace n1, s1) =>
      match bodyMethod T m n n1 with
      | .error e => .err e
      | .ok mb =>
      match T.methods.lookup mb with
      | none => .err "NoMethod"
      | some steps =>
        match runSteps (callTarget T (visitM T v fuel)) steps n1 s1 with
        | .err e => .err e
        | .fuel => .fuel
        | .ok (n2, s2, tr) => .ok ⟨some n2, n, v.leave n2 s2, ⟨true, n⟩ :: tr ++ [⟨false, n2⟩]⟩

theorem bodyMethod_of_kind_eq (T : Table) (m : String) (n n1 : Node) (h : n1.kind = n.kind) : bodyMethod T m n n1 = .ok m := by
  simp [bodyMethod, h]

/-- `ASTVisitor.visit(node)` -/
def visit (T : Table) (v : Visitor σ) (fuel : Nat) (n : Node) (s : σ) : Res (Out σ) :=
  match T.visit.lookup n.kind with
  | none => .err "TypeError"
  | some m => visitM T v fuel m n s

/-! ### DispatchingVisitor -/

/-- `DispatchingVisitor`: `enter`/`leave` dispatch on the node class to `enter_*`/`leave_*` handlers
    (given by name). A registry miss in `enter` raises `TypeError`; `leave` has no error channel in the
    model (the registries are proved to have the same keys, `Props.C18.dispatching_total`). -/
def dispatching (enterReg leaveReg : List (String × String))
    (onEnter : String → Node → σ → Act × σ) (onLeave : String → Node → σ → σ) : Visitor σ where
  enter n s := match enterReg.lookup n.kind with
    | some h => onEnter h n s
    | none => (.raise "TypeError", s)
  leave n s := match leaveReg.lookup n.kind with
    | some h => onLeave h n s
    | none => s

/-! ### ChainedVisitor -/

/-- the loop of `ChainedVisitor.enter`. `orig` = content of the argument object, `cur` = the node handed to the
    next member together with "is it still the argument object" (`none` after a member returned `None`). -/
def chainEnter : List (Visitor σ) → Node → Option (Node × Bool) → σ → Act × σ
  | [], orig, _, s => (.keep orig, s)
  | _ :: _, orig, none, s => (.keep orig, s)
  | v :: vs, orig, some (c, isOrig), s =>
    match v.enter c s with
    | (.keep c', s') => chainEnter vs (if isOrig then c' else orig) (some (c', isOrig)) s'
    | (.replace c', s') => chainEnter vs orig (some (c', false)) s'
    | (.delete, s') => chainEnter vs orig none s'
    | (.skip c', s') => (.skip (if isOrig then c' else orig), s')
    | (.raise e, s') => (.raise e, s')

/-- `for v in self.visitors[::-1]: v.leave(node)` -/
def chainLeave (vs : List (Visitor σ)) (n : Node) (s : σ) : σ :=
  vs.foldr (fun v s => v.leave n s) s

/-- `ChainedVisitor.enter` with proposed fix C18-W8 ("the skip is the raiser's own"): a member raising `SkipNode`
    does not stop the loop; when some member skipped, the members that entered are LEFT at once (in reverse order,
    with the argument object) and the chain raises `SkipNode`, so that the children are visited by nobody.
    `entered` = the members that returned from `enter`, latest first. -/
def chainEnterP : List (Visitor σ) → Node → Option (Node × Bool) → List (Visitor σ) → Bool → σ → Act × σ
  | [], orig, _, entered, skipped, s =>
    if skipped then (.skip orig, entered.foldl (fun s v => v.leave orig s) s) else (.keep orig, s)
  | _ :: _, orig, none, entered, skipped, s =>
    if skipped then (.skip orig, entered.foldl (fun s v => v.leave orig s) s) else (.keep orig, s)
  | v :: vs, orig, some (c, isOrig), entered, skipped, s =>
    match v.enter c s with
    | (.keep c', s') => chainEnterP vs (if isOrig then c' else orig) (some (c', isOrig)) (v :: entered) skipped s'
    | (.replace c', s') => chainEnterP vs orig (some (c', false)) (v :: entered) skipped s'
    | (.delete, s') => chainEnterP vs orig none (v :: entered) skipped s'
    | (.skip c', s') => chainEnterP vs (if isOrig then c' else orig) (some (c, isOrig)) entered true s'
    | (.raise e, s') => (.raise e, s')

/-- `personal = true`: the code AS IT IS since fix C18-W8 (/repo 391ad62; re-extracted flag
    `Generated.VisitTable.chainPersonalSkip`, which the driver passes): a member's `SkipNode` is its own.
    `personal = false` (the default of this argument, kept for the theorems about the old loop): the code BEFORE the fix
    (a member's `SkipNode` aborts the loop). -/
def chained (vs : List (Visitor σ)) (personal : Bool := false) : Visitor σ where
  enter n s := if personal then chainEnterP vs n (some (n, true)) [] false s else chainEnter vs n (some (n, true)) s
  leave n s := chainLeave vs n s

/-! ### chains of chains -/

/-- a chain member: a leaf visitor, or a nested plain `ChainedVisitor` (no `enter` / `leave` of its own) -/
inductive VTree (σ : Type) where
  | leaf (v : Visitor σ)
  | chain (ms : List (VTree σ))

mutual
/-- the leaf visitors of a chain of chains, in order -/
def VTree.flatten : VTree σ → List (Visitor σ)
  | .leaf v => [v]
  | .chain ms => VTree.flattenList ms
def VTree.flattenList : List (VTree σ) → List (Visitor σ)
  | [] => []
  | m :: r => m.flatten ++ VTree.flattenList r
end

mutual
/-- the code BEFORE fix C18-W10: a nested chain is one member running `ChainedVisitor.enter` / `leave` itself -/
def VTree.compose : VTree σ → Visitor σ
  | .leaf v => v
  | .chain ms => chained (VTree.composeList ms) true
def VTree.composeList : List (VTree σ) → List (Visitor σ)
  | [] => []
  | m :: r => m.compose :: VTree.composeList r
end

/-- WITH fix C18-W10 (`ChainedVisitor._members`): a chain of plain chains runs its leaf visitors in place -/
def VTree.flat (t : VTree σ) : Visitor σ := chained t.flatten true

end

/-! ### structural helpers (used by the specification and the driver) -/

mutual
def Node.beq : Node → Node → Bool
  | .mk k i a, .mk k' i' a' => k == k' && i == i' && Attr.beqAttrs a a'
def Attr.beqAttrs : List (String × Attr) → List (String × Attr) → Bool
  | [], [] => true
  | (n, a) :: r, (n', a') :: r' => n == n' && Attr.beq a a' && Attr.beqAttrs r r'
  | _, _ => false
def Attr.beq : Attr → Attr → Bool
  | .scalar v, .scalar v' => v == v'
  | .one none, .one none => true
  | .one (some c), .one (some c') => Node.beq c c'
  | .many cs, .many cs' => Attr.beqList cs cs'
  | _, _ => false
def Attr.beqList : List Node → List Node → Bool
  | [], [] => true
  | c :: r, c' :: r' => Node.beq c c' && Attr.beqList r r'
  | _, _ => false
end

mutual
/-- depth of a tree (a fuel that suffices for visitors that do not grow it) -/
def Node.depth : Node → Nat
  | .mk _ _ a => Attr.depthAttrs a + 1
def Attr.depthAttrs : List (String × Attr) → Nat
  | [] => 0
  | (_, a) :: r => max (Attr.depth a) (Attr.depthAttrs r)
def Attr.depth : Attr → Nat
  | .scalar _ => 0
  | .one none => 0
  | .one (some c) => Node.depth c
  | .many cs => Attr.depthList cs
def Attr.depthList : List Node → Nat
  | [] => 0
  | c :: r => max (Node.depth c) (Attr.depthList r)
end

end PyGql.Visit

/-
  C19 — MODEL of the loop of `_nesting_levels` as it is in the tree since C19-Q3.patch (utilities/max_depth.py):
  level by level over a FRONTIER of selection lists,

      levels = 0; frontier = [selections]
      while frontier:
          if budget <= 0: raise ExpansionBudgetExhausted()
          seen = set(); next_frontier = []; found = False
          for level_selections in frontier:
              collected = collect_fields_untyped(level_selections, …, _budget=budget)
              for fields in collected.values():
                  found = True
                  subselections = [selection for field in fields if field.selection_set is not None
                                   for selection in field.selection_set.selections]
                  key = tuple(id(selection) for selection in subselections)
                  if subselections and key not in seen: seen.add(key); next_frontier.append(subselections)
          if not found: break
          levels += 1; budget -= 1; frontier = next_frontier
      return levels

  The `seen` filter drops a frontier entry made of the SAME node objects as an earlier entry of the level: the earlier entry
  was collected with the same arguments, so the filter changes neither the result nor whether an exception is raised; the
  model's selections have no identity and the filter is not modelled. Import-free.
-/
import PyGqlModel.Depth

namespace PyGql.Depth

/-- the non-empty merged sub-selection lists of the groups of one collection, in order -/
def groupSubs : Grouped → List (List Sel)
  | [] => []
  | (_, fs) :: rest =>
    match fs.flatMap (·.sub) with
    | [] => groupSubs rest
    | s :: ss => (s :: ss) :: groupSubs rest

/-- `for level_selections in frontier:` — (found, next_frontier) -/
def frontierLevel (skipFn : Dirs → Vars → Except Err Bool) (budget : Nat) (frags : List Frag) (vars : Vars) :
    List (List Sel) → Except Err (Bool × List (List Sel))
  | [] => .ok (false, [])
  | e :: rest =>
    match collectFieldsUntypedG skipFn budget e frags vars [] with
    | .error err => .error err
    | .ok (G, _) =>
      match frontierLevel skipFn budget frags vars rest with
      | .error err => .error err
      | .ok (found, nxt) => .ok (!G.isEmpty || found, groupSubs G ++ nxt)

/-- the `while frontier:` loop; arguments: budget, levels so far, frontier -/
def nestingLevelsF (skipFn : Dirs → Vars → Except Err Bool) (frags : List Frag) (vars : Vars) :
    Nat → Nat → List (List Sel) → Except Err Nat
  | _, levels, [] => .ok levels
  | 0, _, _ :: _ => .error .recursion                    -- `if budget <= 0: raise ExpansionBudgetExhausted()`
  | b + 1, levels, e :: es =>
    match frontierLevel skipFn (b + 1) frags vars (e :: es) with
    | .error err => .error err
    | .ok (false, _) => .ok levels                       -- `if not found: break`
    | .ok (true, nxt) => nestingLevelsF skipFn frags vars b (levels + 1) nxt

/-- `depth = max(0, _nesting_levels(op.selection_set.selections, fragments, op_variables, budget) - 1)` -/
def depthFixedFG (skipFn : Dirs → Vars → Except Err Bool) (budget : Nat) (op : Op) (frags : List Frag) (vars : Vars) :
    Except Err Nat :=
  match nestingLevelsF skipFn frags vars budget 0 [op.sels] with
  | .error e => .error e
  | .ok n => .ok (n - 1)

def depthFixedFB (budget : Nat) (op : Op) (frags : List Frag) (vars : Vars) : Except Err (Option Nat) :=
  match depthFixedFG skipSelectionT budget op frags vars with
  | .ok d => .ok (some d)
  | .error .recursion => .ok none
  | .error e => .error e

/-- `MaxDepthValidationRule(limit, operation_name=filter)(schema, doc, raw)` with the frontier loop (today's tree) -/
def ruleF (limit : Nat) (filter : Option String) (doc : Doc) (defs : List (List VarDefR)) (raw : RawVars) :
    Except Err (List (Nat × Option Nat)) :=
  ruleLoopB (fun i op => depthFixedFB doc.budget op doc.frags (effectiveVarsR (defs.getD i []) raw))
    limit filter 0 doc.ops

end PyGql.Depth

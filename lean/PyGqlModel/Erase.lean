/-
  `erase`: drop every position (`loc := none`) of a tree — what `no_location=True` produces, and the
  meaning of "equal up to positions".  Import-free (Ast only).
-/
import PyGqlModel.Ast
namespace PyGql.Ast

def Name.erase (n : Name) : Name := { n with loc := none }
def NamedType.erase (t : NamedType) : NamedType := { name := t.name.erase, loc := none }

def TypeRef.erase : TypeRef → TypeRef
  | .named t => .named t.erase
  | .list t _ => .list t.erase none
  | .nonNull t _ => .nonNull t.erase none

def Variable.erase (v : Variable) : Variable := { name := v.name.erase, loc := none }
def StringValue.erase (s : StringValue) : StringValue := { s with loc := none }

mutual
def Value.erase : Value → Value
  | .var v => .var v.erase
  | .int v _ => .int v none
  | .float v _ => .float v none
  | .string s => .string s.erase
  | .boolean b _ => .boolean b none
  | .null _ => .null none
  | .enum v _ => .enum v none
  | .list vs _ => .list (eraseValues vs) none
  | .object fs _ => .object (eraseFields fs) none
def eraseValues : List Value → List Value
  | [] => []
  | v :: vs => v.erase :: eraseValues vs
def ObjectField.erase : ObjectField → ObjectField
  | .mk name value _ => .mk name.erase value.erase none
def eraseFields : List ObjectField → List ObjectField
  | [] => []
  | f :: fs => f.erase :: eraseFields fs
end

def Argument.erase (a : Argument) : Argument := { name := a.name.erase, value := a.value.erase, loc := none }
def Directive.erase (d : Directive) : Directive :=
  { name := d.name.erase, arguments := d.arguments.map Argument.erase, loc := none }
def VariableDefinition.erase (d : VariableDefinition) : VariableDefinition :=
  { var := d.var.erase, type := d.type.erase, defaultValue := d.defaultValue.map Value.erase,
    directives := d.directives.map Directive.erase, loc := none }

mutual
def Selection.erase : Selection → Selection
  | .field alias_ name args dirs ss _ =>
    .field (alias_.map Name.erase) name.erase (args.map Argument.erase) (dirs.map Directive.erase) (eraseOptSS ss) none
  | .fragmentSpread name dirs _ => .fragmentSpread name.erase (dirs.map Directive.erase) none
  | .inlineFragment tc dirs ss _ =>
    .inlineFragment (tc.map NamedType.erase) (dirs.map Directive.erase) ss.erase none
def SelectionSet.erase : SelectionSet → SelectionSet
  | .mk sels _ => .mk (eraseSelections sels) none
def eraseOptSS : Option SelectionSet → Option SelectionSet
  | none => none
  | some ss => some ss.erase
def eraseSelections : List Selection → List Selection
  | [] => []
  | s :: ss => s.erase :: eraseSelections ss
end

def OperationDefinition.erase (d : OperationDefinition) : OperationDefinition :=
  { operation := d.operation, name := d.name.map Name.erase,
    variableDefinitions := d.variableDefinitions.map VariableDefinition.erase,
    directives := d.directives.map Directive.erase, selectionSet := d.selectionSet.erase, loc := none }

def FragmentDefinition.erase (d : FragmentDefinition) : FragmentDefinition :=
  { name := d.name.erase, variableDefinitions := d.variableDefinitions.map VariableDefinition.erase,
    typeCondition := d.typeCondition.erase, directives := d.directives.map Directive.erase,
    selectionSet := d.selectionSet.erase, loc := none }

def OperationTypeDefinition.erase (d : OperationTypeDefinition) : OperationTypeDefinition :=
  { operation := d.operation, type := d.type.erase, loc := none }

def InputValueDefinition.erase (d : InputValueDefinition) : InputValueDefinition :=
  { description := d.description.map StringValue.erase, name := d.name.erase, type := d.type.erase,
    defaultValue := d.defaultValue.map Value.erase, directives := d.directives.map Directive.erase, loc := none }

def FieldDefinition.erase (d : FieldDefinition) : FieldDefinition :=
  { description := d.description.map StringValue.erase, name := d.name.erase,
    arguments := d.arguments.map InputValueDefinition.erase, type := d.type.erase,
    directives := d.directives.map Directive.erase, loc := none }

def EnumValueDefinition.erase (d : EnumValueDefinition) : EnumValueDefinition :=
  { description := d.description.map StringValue.erase, name := d.name.erase,
    directives := d.directives.map Directive.erase, loc := none }

private abbrev eD := List.map Directive.erase
private abbrev eS := Option.map StringValue.erase

def Definition.erase : Definition → Definition
  | .operation d => .operation d.erase
  | .fragment d => .fragment d.erase
  | .schemaDefinition ds ops _ => .schemaDefinition (eD ds) (ops.map OperationTypeDefinition.erase) none
  | .scalarTypeDefinition desc n ds _ => .scalarTypeDefinition (eS desc) n.erase (eD ds) none
  | .objectTypeDefinition desc n ifs ds fs _ =>
    .objectTypeDefinition (eS desc) n.erase (ifs.map NamedType.erase) (eD ds) (fs.map FieldDefinition.erase) none
  | .interfaceTypeDefinition desc n ds fs _ =>
    .interfaceTypeDefinition (eS desc) n.erase (eD ds) (fs.map FieldDefinition.erase) none
  | .unionTypeDefinition desc n ds us _ => .unionTypeDefinition (eS desc) n.erase (eD ds) (us.map NamedType.erase) none
  | .enumTypeDefinition desc n ds vs _ =>
    .enumTypeDefinition (eS desc) n.erase (eD ds) (vs.map EnumValueDefinition.erase) none
  | .inputObjectTypeDefinition desc n ds fs _ =>
    .inputObjectTypeDefinition (eS desc) n.erase (eD ds) (fs.map InputValueDefinition.erase) none
  | .directiveDefinition desc n args locs _ =>
    .directiveDefinition (eS desc) n.erase (args.map InputValueDefinition.erase) (locs.map Name.erase) none
  | .schemaExtension ds ops _ => .schemaExtension (eD ds) (ops.map OperationTypeDefinition.erase) none
  | .scalarTypeExtension n ds _ => .scalarTypeExtension n.erase (eD ds) none
  | .objectTypeExtension n ifs ds fs _ =>
    .objectTypeExtension n.erase (ifs.map NamedType.erase) (eD ds) (fs.map FieldDefinition.erase) none
  | .interfaceTypeExtension n ds fs _ => .interfaceTypeExtension n.erase (eD ds) (fs.map FieldDefinition.erase) none
  | .unionTypeExtension n ds us _ => .unionTypeExtension n.erase (eD ds) (us.map NamedType.erase) none
  | .enumTypeExtension n ds vs _ => .enumTypeExtension n.erase (eD ds) (vs.map EnumValueDefinition.erase) none
  | .inputObjectTypeExtension n ds fs _ =>
    .inputObjectTypeExtension n.erase (eD ds) (fs.map InputValueDefinition.erase) none

def Document.erase (d : Document) : Document := { definitions := d.definitions.map Definition.erase, loc := none }

end PyGql.Ast

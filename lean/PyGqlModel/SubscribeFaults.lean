/-
  C17 — fault sequences on the stream: the SOURCE raising from `__anext__` mid-stream, an event whose
  processing raises an UNEXPECTED exception (the partial errors it had recorded stay in the shared
  executor), and how the consumer sees them.  Extends `Subscribe.lean`; mirrors
  `AsyncMap.__anext__` (runtime/asyncio.py):

      event = await type(self.source_stream).__anext__(self.source_stream)   -- may raise: propagates as is
      return await self.map_value(event)                                     -- may raise: propagates, no result

  `AsyncMap` keeps no "broken" flag and defines no `aclose`/`athrow` (`__slots__ = (source_stream, map_value)`):
  after an exception the next `__anext__` simply pulls the source again.

  Core Lean only (linked into the driver).
-/
import PyGqlModel.Subscribe

namespace PyGql.Subscribe

/-- what one `__anext__` of the SOURCE does -/
inductive Item where
  /-- yields an event that is processed to a result -/
  | ev (e : Event)
  /-- yields an event whose processing raises an unexpected exception after the part `part` of the
      selection has been executed (its errors were appended to the shared executor's list) -/
  | crash (part : Event)
  /-- the source itself raises (not StopAsyncIteration) -/
  | srcRaise

/-- what one `__anext__` of the response stream gives the consumer -/
inductive Pull where
  | result (r : Result)
  | raised
  | stop
  deriving Repr

structure XStream where
  source : List Item
  st : ExecState
  /-- index of the next event handed out by the source -/
  k : Nat
  pulls : Nat

/-- `AsyncMap.__anext__` with faults -/
def XStream.next (clear : Bool) (s : XStream) : Pull × XStream :=
  match s.source with
  | [] => (.stop, { s with pulls := s.pulls + 1 })
  | .srcRaise :: rest => (.raised, { s with source := rest, pulls := s.pulls + 1 })     -- no event: executor untouched
  | .crash e :: rest =>
    let r := executeSubscriptionEvent clear s.st s.k e
    (.raised, { source := rest, st := r.1, k := s.k + 1, pulls := s.pulls + 1 })          -- no result; partial errors stay
  | .ev e :: rest =>
    let r := executeSubscriptionEvent clear s.st s.k e
    (.result r.2, { source := rest, st := r.1, k := s.k + 1, pulls := s.pulls + 1 })

/-- a consumer that calls `__anext__` again after an exception (bare `__anext__` drive), until the source stops -/
def XStream.drain (clear : Bool) : Nat → XStream → List Pull × XStream
  | 0, s => ([], s)
  | fuel + 1, s =>
    match s.next clear with
    | (.stop, s') => ([], s')
    | (p, s') => let c := XStream.drain clear fuel s'; (p :: c.1, c.2)

/-- `async for r in stream`: results until the stream stops OR raises (the exception ends the loop) -/
def XStream.asyncFor (clear : Bool) : Nat → XStream → List Result × Bool × XStream
  | 0, s => ([], false, s)
  | fuel + 1, s =>
    match s.next clear with
    | (.stop, s') => ([], false, s')
    | (.raised, s') => ([], true, s')
    | (.result r, s') => let c := XStream.asyncFor clear fuel s'; (r :: c.1, c.2.1, c.2.2)

/-- the same as a plain recursion over the source -/
def pullsOf (clear : Bool) : ExecState → Nat → List Item → List Pull
  | _, _, [] => []
  | st, k, .srcRaise :: rest => .raised :: pullsOf clear st k rest
  | st, k, .crash e :: rest => .raised :: pullsOf clear (executeSubscriptionEvent clear st k e).1 (k + 1) rest
  | st, k, .ev e :: rest =>
    .result (executeSubscriptionEvent clear st k e).2 :: pullsOf clear (executeSubscriptionEvent clear st k e).1 (k + 1) rest

/-- SPECIFICATION, no executor state at all: every event is executed on a fresh executor; `k` counts the
    events the source has handed out -/
def specPulls : Nat → List Item → List Pull
  | _, [] => []
  | k, .srcRaise :: rest => .raised :: specPulls k rest
  | k, .crash _ :: rest => .raised :: specPulls (k + 1) rest
  | k, .ev e :: rest => .result (executeSubscriptionEvent true ⟨[]⟩ k e).2 :: specPulls (k + 1) rest

def Pull.isResult : Pull → Bool
  | .result _ => true
  | _ => false

def Item.isEv : Item → Bool
  | .ev _ => true
  | _ => false

def Item.event? : Item → Option Event
  | .ev e => some e
  | _ => none

end PyGql.Subscribe

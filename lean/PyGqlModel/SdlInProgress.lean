/-
  C11 — the extension pass with the builder's REAL bookkeeping of types "in progress" (ast_type_builder.py:
  `extend_type` with `_extended_cache` / `_in_progress`, `_extend_input_field`, `_extend_argument`,
  `_extended_default_value`, `_completed_input_value`), for the default VALUES.

  `Sdl.extendSchema` / `extendSchemaA` evaluate every default literal again over the extended types and approximate "the
  type being extended right now" by ONE hidden type (`hide`, `touches`).  The code keeps a SET (every type on the stack of
  `extend_type` calls), completes the VALUE computed before the extensions (`_completed_input_value`: the fields the
  value has are completed in the extended field type, absent fields take the extended field's default, and the lazy type
  of every present field and of every absent undefaulted field is forced), gives up the completion of a default as soon as
  anything below raises an SDLError ("Invalid circular reference" included) and keeps the old value, and memoises extended
  types — so WHICH defaults stay stale depends on the order in which `extend_type` first reaches the input object types:
  directives first, then `schema.types` in the registration order of `_build_type_map` (`regOrder`).

  `buildP` = `buildA` with the default values of the extension pass computed by that simulation (`PSt`); the STRUCTURE
  (members, duplicate checks, roots, closure) is the one of `extendSchemaA`, run on the document with its default literals
  removed.  It is an executable reference for the shapes the theorems exclude (`SelfDefaults`; known findings S8 (b),
  C11/H4-1) and is compared with the code on the named in-progress probes and on every generated document, next to
  `buildA`; no theorem is about it.  Approximated (stated in corr/C11.py ASSUMPTIONS): the retry of `_default_value` for a
  default written in an extension block (evaluated by name over the extended types unless it touches a type in progress).
  Import-free.
-/
import PyGqlModel.SdlAdditional

namespace PyGql.Sdl
open PyGql

/-! ### registration order of `_build_type_map` -/

/-- children in the order `_register_types` pushes them -/
def regChildren (t : TypeD) : List String :=
  match t.kind with
  | .union => t.members
  | .object => t.interfaces ++ t.fields.flatMap (fun f => f.type.base :: f.args.map (·.type.base))
  | .interface => t.fields.flatMap (fun f => f.type.base :: f.args.map (·.type.base))
  | .input => t.inputFields.map (·.type.base)
  | _ => []

/-- depth-first pre-order with a work list (= the stack of iterators of `_register_types`) -/
def regVisit (types : List TypeD) : Nat → List String → List String → List String
  | 0, _, acc => acc
  | _, [], acc => acc
  | fuel+1, n :: rest, acc =>
    if acc.contains n || isDefaultName n then regVisit types fuel rest acc
    else match types.find? (·.name == n) with
      | none => regVisit types fuel rest acc
      | some t => regVisit types fuel (regChildren t ++ rest) (acc ++ [n])

def regOrder (live : Live) : List String :=
  let roots := live.types.map (·.name) ++ [live.roots.query, live.roots.mutation, live.roots.subscription].filterMap id
                ++ live.directives.flatMap (fun d => d.args.map (·.type.base))
  let fuel := roots.length + (live.types.flatMap regChildren).length + 1
  let seen := regVisit live.types fuel roots []
  seen ++ (live.types.map (·.name)).filter (fun n => !seen.contains n)

/-! ### the simulation -/

structure PCtx where
  live : Live
  texts : List TypeDef
  eB : Env
  eX : Env

def PCtx.inputType (c : PCtx) (n : String) : Option TypeD :=
  match c.live.types.find? (·.name == n) with
  | some t => if t.kind == .input then some t else none
  | none => none

structure PSt where
  /-- `_extended_cache` for input objects: the extended field lists -/
  done : List (String × List ArgD) := []
  /-- objects / interfaces / unions already extended -/
  doneO : List String := []
  /-- (type, field) ↦ extended arguments -/
  args : List ((String × String) × List ArgD) := []
  dirs : List (String × List ArgD) := []
  deriving Inhabited

inductive CErr where
  | missing    -- `_MissingRequiredField`
  | sdl        -- any SDLError raised below (circular reference, a failing nested extension)

def setKey (kvs : List (String × J)) (k : String) (v : J) : List (String × J) :=
  kvs.map fun p => if p.1 == k then (k, v) else p

/-- `_default_value` of an input value written in an EXTENSION block, with the types in `prog` in progress
    (`none` = SDLError) -/
def newDefault (c : PCtx) (prog : List String) (a : InputValDef) : Option (Bool × J) :=
  if !c.eB.resolves a.type.base then none
  else match a.default with
    | none => some (false, .null)
    | some l =>
      match defaultValue c.eB l a.type with
      | .ok v => some (true, v)
      | .error _ =>
        if prog.any (fun h => a.type.base == h || touches c.eX h coerceFuel l a.type) then none
        else match defaultValue c.eX l a.type with
          | .ok v => some (true, v)
          | .error _ => none

mutual
/-- `extend_type(named n)`: `false` = SDLError -/
def reach (c : PCtx) : Nat → List String → PSt → String → PSt × Bool
  | 0, _, st, _ => (st, false)
  | fuel+1, prog, st, n =>
    match c.inputType n with
    | none => (st, true)
    | some t =>
      if st.done.any (·.1 == n) then (st, true)
      else if prog.contains n then (st, false)
      else extInput c fuel (n :: prog) st t

/-- `_extend_input_object_type` (the type itself is in `prog`) -/
def extInput (c : PCtx) : Nat → List String → PSt → TypeD → PSt × Bool
  | 0, _, st, _ => (st, false)
  | fuel+1, prog, st, t =>
    match extFields c fuel prog st t.inputFields with
    | (st1, none) => (st1, false)
    | (st1, some base) =>
      match extNewFields c fuel prog st1 ((c.texts.filter (·.name == t.name)).flatMap (·.inputFields)) with
      | (st2, none) => (st2, false)
      | (st2, some added) => ({ st2 with done := st2.done ++ [(t.name, base ++ added)] }, true)

def extFields (c : PCtx) : Nat → List String → PSt → List ArgD → PSt × Option (List ArgD)
  | 0, _, st, _ => (st, none)
  | _, _, st, [] => (st, some [])
  | fuel+1, prog, st, f :: fs =>
    match extDefault c fuel prog st f.hasDefault f.default f.type with
    | (st1, none) => (st1, none)
    | (st1, some v) =>
      match extFields c fuel prog st1 fs with
      | (st2, none) => (st2, none)
      | (st2, some l) => (st2, some ({ f with default := v } :: l))

def extNewFields (c : PCtx) : Nat → List String → PSt → List InputValDef → PSt × Option (List ArgD)
  | 0, _, st, _ => (st, none)
  | _, _, st, [] => (st, some [])
  | fuel+1, prog, st, a :: as =>
    match newDefault c prog a with
    | none => (st, none)
    | some (hd, v0) =>
      match extDefault c fuel prog st hd v0 a.type with
      | (st1, none) => (st1, none)
      | (st1, some v) =>
        match extNewFields c fuel prog st1 as with
        | (st2, none) => (st2, none)
        | (st2, some l) => (st2, some ({ name := a.name, type := a.type, hasDefault := hd, default := v, desc := a.desc } :: l))

/-- `_extended_default_value(element, lambda: extend_type(element.type))`; `none` = SDLError (missing required field) -/
def extDefault (c : PCtx) : Nat → List String → PSt → Bool → J → Ty → PSt × Option J
  | 0, _, st, _, _, _ => (st, none)
  | fuel+1, prog, st, hasD, v0, ty =>
    if !hasD then (st, some v0)
    else match reach c fuel prog st ty.base with
      | (st1, false) => (st1, some v0)
      | (st1, true) =>
        match complete c fuel prog st1 v0 ty with
        | (st2, .ok v) => (st2, some v)
        | (st2, .error .missing) => (st2, none)
        | (st2, .error .sdl) => (st2, some v0)

/-- `_completed_input_value(value, extended type)` -/
def complete (c : PCtx) : Nat → List String → PSt → J → Ty → PSt × Except CErr J
  | 0, _, st, _, _ => (st, .error .sdl)
  | fuel+1, prog, st, v, ty =>
    match ty with
    | .nonNull t => complete c fuel prog st v t
    | .list t =>
      match v with
      | .arr xs =>
        match completeList c fuel prog st xs t with
        | (st1, .ok ys) => (st1, .ok (.arr ys))
        | (st1, .error e) => (st1, .error e)
      | _ => (st, .ok v)
    | .named n =>
      match v with
      | .obj kvs =>
        match c.inputType n with
        | none => (st, .ok v)
        | some _ =>
          match st.done.find? (·.1 == n) with
          | none => (st, .ok v)
          | some (_, fs) =>
            match completeFields c fuel prog st kvs fs with
            | (st1, .ok r) => (st1, .ok (.obj r))
            | (st1, .error e) => (st1, .error e)
      | _ => (st, .ok v)

def completeList (c : PCtx) : Nat → List String → PSt → List J → Ty → PSt × Except CErr (List J)
  | 0, _, st, _, _ => (st, .error .sdl)
  | _, _, st, [], _ => (st, .ok [])
  | fuel+1, prog, st, x :: xs, t =>
    match complete c fuel prog st x t with
    | (st1, .error e) => (st1, .error e)
    | (st1, .ok y) =>
      match completeList c fuel prog st1 xs t with
      | (st2, .error e) => (st2, .error e)
      | (st2, .ok ys) => (st2, .ok (y :: ys))

def completeFields (c : PCtx) : Nat → List String → PSt → List (String × J) → List ArgD → PSt × Except CErr (List (String × J))
  | 0, _, st, _, _ => (st, .error .sdl)
  | _, _, st, kvs, [] => (st, .ok kvs)
  | fuel+1, prog, st, kvs, g :: gs =>
    match kvs.find? (·.1 == g.name) with
    | some (_, cur) =>
      match reach c fuel prog st g.type.base with
      | (st1, false) => (st1, .error .sdl)
      | (st1, true) =>
        match complete c fuel prog st1 cur g.type with
        | (st2, .ok v) => completeFields c fuel prog st2 (setKey kvs g.name v) gs
        | (st2, .error e) => (st2, .error e)
    | none =>
      if g.hasDefault then completeFields c fuel prog st (kvs ++ [(g.name, g.default)]) gs
      else match reach c fuel prog st g.type.base with
        | (st1, false) => (st1, .error .sdl)
        | (st1, true) => if g.type.isNonNull then (st1, .error .missing) else completeFields c fuel prog st1 kvs gs
end

def simFuel : Nat := 4000

/-- `_extend_argument` at top level (no input object in progress); `none` = SDLError -/
def extArgs (c : PCtx) : PSt → List ArgD → PSt × Option (List ArgD)
  | st, [] => (st, some [])
  | st, a :: as =>
    match reach c simFuel [] st a.type.base with
    | (st1, false) => (st1, none)
    | (st1, true) =>
      let (st2, r) : PSt × Option J :=
        if !a.hasDefault then (st1, some a.default)
        else match complete c simFuel [] st1 a.default a.type with
          | (s, .ok v) => (s, some v)
          | (s, .error .missing) => (s, none)
          | (s, .error .sdl) => (s, some a.default)
      match r with
      | none => (st2, none)
      | some v =>
        match extArgs c st2 as with
        | (st3, none) => (st3, none)
        | (st3, some l) => (st3, some ({ a with default := v } :: l))

/-- arguments written in an extension block: `_build_argument` then `_extend_argument` -/
def newArgs (c : PCtx) (st : PSt) (as : List InputValDef) : PSt × Option (List ArgD) :=
  match as.mapM (fun a => (newDefault c [] a).map fun (hd, v0) => ({ name := a.name, type := a.type, hasDefault := hd, default := v0, desc := a.desc } : ArgD)) with
  | none => (st, none)
  | some built => extArgs c st built

def extFieldArgs (c : PCtx) (tn : String) : PSt → List (String × (PSt → PSt × Option (List ArgD))) → PSt × Bool
  | st, [] => (st, true)
  | st, (fname, run) :: rest =>
    match run st with
    | (st1, none) => (st1, false)
    | (st1, some as) => extFieldArgs c tn { st1 with args := st1.args ++ [((tn, fname), as)] } rest

/-- `extend_type(t)` from the top-level loop (any kind) -/
def topType (c : PCtx) : Nat → PSt → String → PSt × Bool
  | 0, st, _ => (st, false)
  | fuel+1, st, n =>
    match c.live.types.find? (·.name == n) with
    | none => (st, true)
    | some t =>
      match t.kind with
      | .input => reach c simFuel [] st n
      | .object | .interface =>
        if st.doneO.contains n then (st, true)
        else
          let mine := c.texts.filter (·.name == n)
          let jobs : List (String × (PSt → PSt × Option (List ArgD))) :=
            t.fields.map (fun f => (f.name, fun s => extArgs c s f.args)) ++
            (mine.flatMap (·.fields)).map (fun fd => (fd.name, fun s => newArgs c s fd.args))
          match extFieldArgs c n { st with doneO := st.doneO ++ [n] } jobs with
          | (st1, false) => (st1, false)
          | (st1, true) =>
            if t.kind == .object then
              (t.interfaces ++ mine.flatMap (·.interfaces)).foldl (fun (acc : PSt × Bool) i => if acc.2 then topType c fuel acc.1 i else acc) (st1, true)
            else (st1, true)
      | .union =>
        if st.doneO.contains n then (st, true)
        else
          let mine := c.texts.filter (·.name == n)
          (t.members ++ mine.flatMap (·.members)).foldl (fun (acc : PSt × Bool) m => if acc.2 then topType c fuel acc.1 m else acc) ({ st with doneO := st.doneO ++ [n] }, true)
      | _ => (st, true)

def simDirectives (c : PCtx) : PSt → List DirectiveD → PSt × Bool
  | st, [] => (st, true)
  | st, d :: ds =>
    match extArgs c st d.args with
    | (st1, none) => (st1, false)
    | (st1, some as) => simDirectives c { st1 with dirs := st1.dirs ++ [(d.name, as)] } ds

/-- the whole extension pass, for the default values -/
def simulate (c : PCtx) : Option PSt :=
  match simDirectives c {} c.live.directives with
  | (_, false) => none
  | (st, true) =>
    let r := (regOrder c.live).foldl (fun (acc : PSt × Bool) n => if acc.2 then topType c 8 acc.1 n else acc) (st, true)
    if r.2 then some r.1 else none

/-! ### structure without defaults, then the values -/

def stripIV (a : InputValDef) : InputValDef := { a with default := none }
def stripFD (f : FieldDef) : FieldDef := { f with args := f.args.map stripIV }
def stripTD (t : TypeDef) : TypeDef := { t with fields := t.fields.map stripFD, inputFields := t.inputFields.map stripIV }
def stripDef : Def → Def
  | .type t => .type (stripTD t)
  | .ext t => .ext (stripTD t)
  | .directive d => .directive { d with args := d.args.map stripIV }
  | d => d
def stripArg (a : ArgD) : ArgD := { a with hasDefault := false, default := .null }
def stripLiveT (t : TypeD) : TypeD :=
  { t with fields := t.fields.map (fun f => { f with args := f.args.map stripArg }), inputFields := t.inputFields.map stripArg }
def stripLive (l : Live) : Live :=
  { l with types := l.types.map stripLiveT, directives := l.directives.map fun d => { d with args := d.args.map stripArg } }

def patchArgs (src : List ArgD) (as : List ArgD) : List ArgD :=
  as.map fun a => match src.find? (·.name == a.name) with
    | some s => { a with hasDefault := s.hasDefault, default := s.default }
    | none => a

def patchType (st : PSt) (t : TypeD) : TypeD :=
  match t.kind with
  | .input =>
    match st.done.find? (·.1 == t.name) with
    | some (_, fs) => { t with inputFields := patchArgs fs t.inputFields }
    | none => t
  | .object | .interface =>
    { t with fields := t.fields.map fun f =>
        match st.args.find? (fun p => p.1.1 == t.name && p.1.2 == f.name) with
        | some (_, as) => { f with args := patchArgs as f.args }
        | none => f }
  | _ => t

def patchDirective (st : PSt) (d : DirectiveD) : DirectiveD :=
  match st.dirs.find? (·.1 == d.name) with
  | some (_, as) => { d with args := patchArgs as d.args }
  | none => d

/-- `build_schema(doc, ignore_extensions=…, additional_types=…)` with the in-progress bookkeeping of the code -/
def buildP (doc : Doc) (ignoreExtensions : Bool := false) (additional : List TypeD := []) : R SchemaD := do
  let add := normAdditional additional
  let c ← collectDefinitions doc
  let (env, live) ← buildCollectedA c add
  let texts := typeExtensions live doc
  if ignoreExtensions || (texts.isEmpty && (schemaExtensions doc).isEmpty) then pure (toSchemaD live)
  else do
    -- structure: the extension pass on the document without its default literals
    let envS : Env := Env.of (c.types.map stripTD) (add.map stripLiveT)
    let shape ← extendSchemaA envS (stripLive live) (doc.map stripDef) (add.map stripLiveT)
    -- values
    match simulate { live := live, texts := texts, eB := env, eX := env.extendedA texts } with
    | none => sdlErr
    | some st =>
      -- supplied types reached by the closure only keep their own values
      let types := shape.types.map fun t =>
        match live.types.find? (·.name == t.name) with
        | some _ => patchType st t
        | none => match add.find? (·.name == t.name) with | some a => a | none => t
      pure (toSchemaD { shape with types := types, directives := shape.directives.map (patchDirective st) })

end PyGql.Sdl

/-
  C11 — model of `py_gql.sdl.build_schema` (schema_from_ast.py, ast_type_builder.py,
  Schema.__init__/_build_type_map, utilities/value_from_ast.py) on the by-name
  schema description `SchemaD`.

  The model follows the code WITH the proposed fixes C11-S1 (lazy input fields,
  SDLError wrapping, circular-reference guard) and C11-S2 (attributes and all
  types kept by extension). Lazy type thunks are abstracted to by-name
  references; the builder caches (`_cache`, `_extended_cache`) become lookups
  in the list of definitions / supplied types. Schema validation
  (`Schema.validate`, property C13) is NOT part of this model: `build` returns
  the builder's result.

  Errors: every rejection of the library is one of `LibErr` (SDLError,
  ExtensionError, SchemaError). The only other branch of the model is the
  exhaustion of the coercion fuel (`Err.internal "RecursionError"`), which is
  what the real code does on cyclic default dependencies (finding S1b).
  Import-free.
-/
import PyGqlModel.SchemaDesc

namespace PyGql.Sdl
open PyGql

/-! ### the small SDL-definition AST (wire format of harness/gen/sdl.py) -/

/-- constant literal; floats/ints carry Python's `repr(float(text))` in `f` -/
inductive Lit where
  | null
  | int (v f : String)
  | float (v f : String)
  | str (s : String)
  | bool (b : Bool)
  | enum (s : String)
  | list (l : List Lit)
  | obj (fs : List (String × Lit))
  deriving Repr, Inhabited, BEq

structure DirApp where
  name : String
  args : List (String × Lit) := []
  deriving Repr, Inhabited, BEq

structure InputValDef where
  name : String
  desc : Option String := none
  type : Ty
  default : Option Lit := none
  dirs : List DirApp := []
  deriving Repr, Inhabited, BEq

structure FieldDef where
  name : String
  desc : Option String := none
  args : List InputValDef := []
  type : Ty
  dirs : List DirApp := []
  deriving Repr, Inhabited, BEq

structure EnumValDef where
  name : String
  desc : Option String := none
  dirs : List DirApp := []
  deriving Repr, Inhabited, BEq

/-- a type definition or a type extension (extensions have no description) -/
structure TypeDef where
  kind : Kind
  name : String
  desc : Option String := none
  interfaces : List String := []
  fields : List FieldDef := []
  members : List String := []
  values : List EnumValDef := []
  inputFields : List InputValDef := []
  dirs : List DirApp := []
  deriving Repr, Inhabited

structure DirDef where
  name : String
  desc : Option String := none
  args : List InputValDef := []
  locations : List String := []
  deriving Repr, Inhabited

structure SchemaDef where
  ops : List (String × String) := []     -- (operation, type name)
  dirs : List DirApp := []
  deriving Repr, Inhabited

inductive Def where
  | type (t : TypeDef)
  | ext (t : TypeDef)
  | directive (d : DirDef)
  | schema (s : SchemaDef)
  | schemaExt (s : SchemaDef)
  | other
  deriving Repr, Inhabited

abbrev Doc := List Def

/-- the library's schema/SDL errors -/
inductive LibErr where
  | sdl       -- SDLError
  | ext       -- ExtensionError
  | schema    -- SchemaError
  deriving DecidableEq, Repr, Inhabited

inductive Err where
  | lib (e : LibErr)
  | internal (cls : String)
  deriving DecidableEq, Repr, Inhabited

abbrev R := Except Err

/-- a guard statement of the builder: `if c: raise err` -/
def failIf (c : Bool) (err : Err) : R Unit := if c then .error err else pure ()

def sdlErr {α} : R α := .error (.lib .sdl)
def extErr {α} : R α := .error (.lib .ext)
def schemaErr {α} : R α := .error (.lib .schema)

/-! ### `_collect_definitions` -/

structure Collected where
  schemaDef : Option SchemaDef := none
  types : List TypeDef := []        -- insertion order of the `types` dict
  directives : List DirDef := []
  deriving Inhabited

def builtinScalars : List String := ["Int", "Float", "Boolean", "String", "ID"]
def introspectionTypes : List String :=
  ["__Schema", "__Directive", "__DirectiveLocation", "__Type", "__Field", "__InputValue", "__EnumValue", "__TypeKind"]
def isDefaultName (n : String) : Bool := builtinScalars.contains n || introspectionTypes.contains n

/-- kind of a specified type -/
def builtinKind (n : String) : Kind :=
  if builtinScalars.contains n then .scalar else if n == "__TypeKind" || n == "__DirectiveLocation" then .enum else .object

def collectStep (acc : Collected) : Def → R Collected
  | .schema s => if acc.schemaDef.isSome then sdlErr else pure { acc with schemaDef := some s }
  | .type t =>
    if acc.types.any (·.name == t.name) then sdlErr
    else if isDefaultName t.name then sdlErr       -- a definition may not take the name of a specified type (fix C11-7)
    else pure { acc with types := acc.types ++ [t] }
  | .directive d =>
    if acc.directives.any (·.name == d.name) then sdlErr else pure { acc with directives := acc.directives ++ [d] }
  | _ => pure acc

def collectDefinitions (doc : Doc) : R Collected := doc.foldlM collectStep {}

/-! ### names known before anything is built: `_DEFAULT_TYPES_MAP` -/

def specifiedDirectives : List String := ["include", "skip", "deprecated"]

/-- what the builder can see while building definitions: the definitions of the document and the
    supplied (`additional_types`) live types, which take precedence (`_cache.update(additional_types)`) -/
structure Env where
  /-- `_type_defs[name]` -/
  findDef : String → Option TypeDef
  /-- `additional_types` by name -/
  findAdditional : String → Option TypeD

/-- the builder's view of a list of definitions and of supplied types: BY-NAME lookups only, so everything
    built from an `Env` is independent of the order of the definitions -/
def Env.of (defs : List TypeDef) (additional : List TypeD := []) : Env :=
  { findDef := fun n => defs.find? (·.name == n), findAdditional := fun n => additional.find? (·.name == n) }

/-- `build_type` on a named reference can resolve it -/
def Env.resolves (e : Env) (n : String) : Bool :=
  isDefaultName n || (e.findAdditional n).isSome || (e.findDef n).isSome

/-- kind of the live type a name resolves to (none = built-in scalar / introspection / unknown) -/
def Env.kindOf (e : Env) (n : String) : Option Kind :=
  if isDefaultName n then none
  else match e.findAdditional n with
    | some t => some t.kind
    | none => (e.findDef n).map (·.kind)

/-! ### `value_from_ast` for constants (default values, directive arguments) -/

def floatJ (repr : String) : J := .obj [("$float", .str repr)]

/-- `coerce_float` rejects NaN and ±Infinity (fix X2); `repr` is Python's `repr(float(text))` -/
def finiteRepr (repr : String) : Bool := !(repr == "inf" || repr == "-inf" || repr == "nan")

def MAX_INT : Int := 2147483647
def MIN_INT : Int := -2147483648

mutual
/-- `default_scalar.parse_literal` (fix C11-1): the transparent conversion of a literal — scalar literals keep their
    `value` (source text for numbers), enum literals their name, list / object literals become lists / dicts -/
def untypedLit : Lit → J
  | .null => .null
  | .int v _ => .str v
  | .float v _ => .str v
  | .str s => .str s
  | .bool b => .bool b
  | .enum v => .str v
  | .list l => .arr (untypedList l)
  | .obj fs => .obj (untypedFields fs)
def untypedList : List Lit → List J
  | [] => []
  | x :: xs => untypedLit x :: untypedList xs
def untypedFields : List (String × Lit) → List (String × J)
  | [] => []
  | (k, x) :: xs => (k, untypedLit x) :: untypedFields xs
end

/-- `parse_literal` of the five specified scalars and of `default_scalar` -/
def scalarLiteral (tname : String) (custom : Bool) : Lit → Option J
  | .enum v => if custom then some (.str v) else none
  | .list l => if custom then some (.arr (untypedList l)) else none
  | .obj fs => if custom then some (.obj (untypedFields fs)) else none
  | .int v f =>
    if custom then some (.str v)
    else if tname == "Int" then
      match v.toInt? with
      | some n => if MIN_INT ≤ n && n ≤ MAX_INT then some (.num n) else none   -- closed range (fix A1)
      | none => none
    else if tname == "Float" then (if finiteRepr f then some (floatJ f) else none)
    else if tname == "ID" then some (.str v)
    else none
  | .float v f =>
    if custom then some (.str v) else if tname == "Float" then (if finiteRepr f then some (floatJ f) else none) else none
  | .str s =>
    if custom then some (.str s) else if tname == "String" || tname == "ID" then some (.str s) else none
  | .bool b =>
    if custom then some (.bool b) else if tname == "Boolean" then some (.bool b) else none
  | _ => none

/-- `_extract_input_object` (fix A5): a field of the literal that the input type does not define is an
    InvalidValue -/
def allDefined (given : List (String × Lit)) (names : List String) : Bool := given.all fun g => names.contains g.1

/-- last occurrence wins: `{f.name.value: f for f in node.fields}` -/
def lookupLast (fs : List (String × Lit)) (n : String) : Option Lit :=
  (fs.reverse.find? (·.1 == n)).map (·.2)

mutual
/-- `value_from_ast(node, type_)` over the types visible in `env` (definitions as written, no extensions:
    defaults are coerced while the definitions are built). inner `none` = InvalidValue/TypeError (→ SDLError);
    outer `none` = fuel exhausted = the real code's RecursionError (the ONLY non-library outcome, by typing). -/
def valueFromAst (env : Env) : Nat → Lit → Ty → Option (Option J)
  | 0, _, _ => none
  | fuel+1, lit, ty =>
    match ty with
    | .nonNull t =>
      match lit with
      | .null => pure none
      | _ => valueFromAst env fuel lit t
    | .list t =>
      match lit with
      | .null => pure (some .null)
      | .list items => do
        let vs ← coerceItems env fuel items t
        pure (vs.map .arr)
      | _ => do
        let v ← valueFromAst env fuel lit t
        pure (v.map fun x => .arr [x])
    | .named n =>
      match lit with
      | .null => pure (some .null)
      | _ =>
        if builtinScalars.contains n then pure (scalarLiteral n false lit)
        else match env.findAdditional n with
          | some t =>
            match t.kind with
            | .scalar => pure (scalarLiteral n true lit)
            | .enum =>
              match lit with
              | .enum v => pure ((t.values.find? (·.name == v)).map (·.value))
              | _ => pure none
            | .input =>
              match lit with
              | .obj fs => do
                let r ← coerceLiveFields env fuel fs t.inputFields
                pure (if allDefined fs (t.inputFields.map (·.name)) then r else none)
              | _ => pure none
            | _ => pure none
          | none =>
            match env.findDef n with
            | none => pure none
            | some d =>
              match d.kind with
              | .scalar => pure (scalarLiteral n true lit)
              | .enum =>
                match lit with
                | .enum v => pure (if d.values.any (·.name == v) then some (.str v) else none)
                | _ => pure none
              | .input =>
                match lit with
                | .obj fs => do
                  let r ← coerceDefFields env fuel fs d.inputFields
                  pure (if allDefined fs (d.inputFields.map (·.name)) then r else none)
                | _ => pure none
              | _ => pure none

def coerceItems (env : Env) : Nat → List Lit → Ty → Option (Option (List J))
  | 0, _, _ => none
  | _, [], _ => pure (some [])
  | fuel+1, x :: xs, t => do
    let v ← valueFromAst env fuel x t
    let vs ← coerceItems env fuel xs t
    pure (match v, vs with | some a, some b => some (a :: b) | _, _ => none)

/-- `_extract_input_object` against an input type DEFINED in the document: a missing field takes the
    field's own default, i.e. the coercion of its default literal -/
def coerceDefFields (env : Env) : Nat → List (String × Lit) → List InputValDef → Option (Option J)
  | 0, _, _ => none
  | _, _, [] => pure (some (.obj []))
  | fuel+1, given, f :: fs => do
    let rest ← coerceDefFields env fuel given fs
    let this : Option (Option J) ←
      match lookupLast given f.name with
      | some l => do let v ← valueFromAst env fuel l f.type; pure (v.map some)
      | none =>
        match f.default with
        | some dl => do let v ← valueFromAst env fuel dl f.type; pure (v.map some)
        | none => pure (if f.type.isNonNull then none else some none)
    pure (match this, rest with
      | some (some v), some (.obj kvs) => some (.obj ((f.name, v) :: kvs))
      | some none, some r => some r
      | _, _ => none)

/-- the same against a SUPPLIED input type (defaults are already values) -/
def coerceLiveFields (env : Env) : Nat → List (String × Lit) → List ArgD → Option (Option J)
  | 0, _, _ => none
  | _, _, [] => pure (some (.obj []))
  | fuel+1, given, f :: fs => do
    let rest ← coerceLiveFields env fuel given fs
    let this : Option (Option J) ←
      match lookupLast given f.name with
      | some l => do let v ← valueFromAst env fuel l f.type; pure (v.map some)
      | none => pure (if f.hasDefault then some (some f.default) else if f.type.isNonNull then none else some none)
    pure (match this, rest with
      | some (some v), some (.obj kvs) => some (.obj ((f.name, v) :: kvs))
      | some none, some r => some r
      | _, _ => none)
end

def coerceFuel : Nat := 200

/-- `_default_value` of the fixed builder: InvalidValue/TypeError → SDLError -/
def defaultValue (env : Env) (lit : Lit) (ty : Ty) : R J :=
  match valueFromAst env coerceFuel lit ty with
  | none => .error (.internal "RecursionError")
  | some (some v) => pure v
  | some none => sdlErr

/-! ### `_deprecation_reason` -/

/-- `directive_arguments(DeprecatedDirective, node)`: first `@deprecated`, argument `reason: String = "No longer supported"` -/
def deprecationReason (dirs : List DirApp) : R (Option String) :=
  match dirs.find? (·.name == "deprecated") with
  | none => pure none
  | some d =>
    match lookupLast d.args "reason" with
    | none => pure (some "No longer supported")
    | some .null => pure none
    | some (.str s) => pure (some s)
    | some _ => sdlErr           -- CoercionError re-raised as SDLError (fix C11-S1)

/-- `Field.deprecated = bool(deprecation_reason)`: an empty reason does not deprecate a FIELD -/
def fieldDeprecation (r : Option String) : Option String :=
  match r with | some "" => none | x => x

/-! ### `ASTTypeBuilder.build_*` -/

def checkRef (env : Env) (t : Ty) : R Unit := if env.resolves t.base then pure () else sdlErr

def buildArgument (env : Env) (a : InputValDef) : R ArgD := do
  checkRef env a.type
  match a.default with
  | none => pure { name := a.name, type := a.type, desc := a.desc }
  | some l => do
    let v ← defaultValue env l a.type
    pure { name := a.name, type := a.type, hasDefault := true, default := v, desc := a.desc }

def buildField (env : Env) (f : FieldDef) : R FieldD := do
  checkRef env f.type
  let args ← f.args.mapM (buildArgument env)
  let r ← deprecationReason f.dirs
  pure { name := f.name, type := f.type, args := args, deprecated := fieldDeprecation r, desc := f.desc }

def reservedEnumNames : List String := ["true", "false", "null"]

def buildEnumValue (v : EnumValDef) : R EnumValD := do
  failIf (reservedEnumNames.contains v.name) (.lib .sdl)
  let r ← deprecationReason v.dirs
  pure { name := v.name, value := .str v.name, deprecated := r, desc := v.desc }

/-- first duplicate name in a list -/
def hasDup : List String → Bool
  | [] => false
  | x :: xs => xs.contains x || hasDup xs

def checkNames (env : Env) (ns : List String) : R Unit :=
  if ns.all env.resolves then pure () else sdlErr

/-- `_build_<kind>_type` -/
def buildTypeDef (env : Env) (d : TypeDef) : R TypeD := do
  match d.kind with
  | .scalar => pure { kind := .scalar, name := d.name, desc := d.desc }
  | .object => do
    let fs ← d.fields.mapM (buildField env)
    checkNames env d.interfaces
    pure { kind := .object, name := d.name, desc := d.desc, interfaces := d.interfaces, fields := fs }
  | .interface => do
    let fs ← d.fields.mapM (buildField env)
    pure { kind := .interface, name := d.name, desc := d.desc, fields := fs }
  | .union => do
    checkNames env d.members
    pure { kind := .union, name := d.name, desc := d.desc, members := d.members }
  | .enum => do
    failIf (hasDup (d.values.map (·.name))) (.lib .sdl)     -- fix C11-S1 (was a bare ValueError)
    let vs ← d.values.mapM buildEnumValue
    pure { kind := .enum, name := d.name, desc := d.desc, values := vs }
  | .input => do
    let fs ← d.inputFields.mapM (buildArgument env)
    pure { kind := .input, name := d.name, desc := d.desc, inputFields := fs }

/-- `build_type(type_def)`: the cache (defaults, supplied types) wins over the definition.
    `none` = a built-in type (not part of the dumped content). -/
def buildType (env : Env) (d : TypeDef) : R (Option TypeD) :=
  if isDefaultName d.name then pure none
  else match env.findAdditional d.name with
    | some t => pure (some t)
    | none => do let t ← buildTypeDef env d; pure (some t)

def buildDirective (env : Env) (d : DirDef) : R DirectiveD := do
  let args ← d.args.mapM (buildArgument env)
  pure { name := d.name, locations := d.locations, args := args, desc := d.desc }

/-! ### eager (non-lazy) references and the circular-reference guard -/

/-- names whose types are built eagerly while `t` is built/extended: interfaces, union members,
    argument types (field types and input field types are lazy) -/
def eagerRefs (t : TypeD) : List String :=
  match t.kind with
  | .object => t.interfaces ++ (t.fields.flatMap fun f => f.args.map (·.type.base))
  | .interface => t.fields.flatMap fun f => f.args.map (·.type.base)
  | .union => t.members
  | _ => []

/-- is `target` reachable from `n` through eager references (bounded by the number of types) -/
def eagerReach (types : List TypeD) (target : String) : Nat → String → Bool
  | 0, _ => false
  | fuel+1, n =>
    match types.find? (·.name == n) with
    | none => false
    | some t => (eagerRefs t).any fun m => m == target || eagerReach types target fuel m

def hasEagerCycle (types : List TypeD) : Bool :=
  types.any fun t => eagerReach types t.name types.length t.name

/-! ### re-entrant field thunks (finding S1b) -/

mutual
/-- input types DEFINED in the document whose (lazily built) field list is read while `lit` is coerced at `ty` -/
def thunkNeeds (env : Env) : Nat → Lit → Ty → List String
  | 0, _, _ => []
  | fuel+1, lit, ty =>
    match ty with
    | .nonNull t => thunkNeeds env fuel lit t
    | .list t =>
      match lit with
      | .list items => thunkNeedsList env fuel items t
      | _ => thunkNeeds env fuel lit t
    | .named n =>
      match lit, env.findAdditional n, env.findDef n with
      | .obj fs, none, some d =>
        if d.kind == .input && !isDefaultName n then
          n :: thunkNeedsFields env fuel fs d.inputFields
        else []
      | _, _, _ => []

def thunkNeedsList (env : Env) : Nat → List Lit → Ty → List String
  | 0, _, _ => []
  | _, [], _ => []
  | fuel+1, x :: xs, t => thunkNeeds env fuel x t ++ thunkNeedsList env fuel xs t

def thunkNeedsFields (env : Env) : Nat → List (String × Lit) → List InputValDef → List String
  | 0, _, _ => []
  | _, _, [] => []
  | fuel+1, given, f :: fs =>
    (match lookupLast given f.name with
     | some l => thunkNeeds env fuel l f.type
     | none => []) ++ thunkNeedsFields env fuel given fs
end

/-- the field thunk of input type `d` reads the field lists of these input types (through the default
    literals of its own fields) -/
def thunkEdges (env : Env) (d : TypeDef) : List String :=
  d.inputFields.flatMap fun f => match f.default with | some l => thunkNeeds env coerceFuel l f.type | none => []

def thunkReach (env : Env) (target : String) : Nat → String → Bool
  | 0, _ => false
  | fuel+1, n =>
    match env.findDef n with
    | none => false
    | some d => (thunkEdges env d).any fun m => m == target || thunkReach env target fuel m

/-- some input type's field thunk re-enters itself: the real builder overflows the stack -/
def hasThunkCycle (env : Env) (defs : List TypeDef) : Bool :=
  defs.any fun d => d.kind == .input && (env.findAdditional d.name).isNone && !isDefaultName d.name
                         && thunkReach env d.name defs.length d.name

/-! ### roots -/

structure Roots where
  query : Option String := none
  mutation : Option String := none
  subscription : Option String := none
  deriving Repr, Inhabited, BEq, DecidableEq

def Roots.get (r : Roots) : String → Option String
  | "query" => r.query | "mutation" => r.mutation | "subscription" => r.subscription | _ => none

def Roots.set (r : Roots) (op name : String) : Roots :=
  match op with
  | "query" => { r with query := some name }
  | "mutation" => { r with mutation := some name }
  | "subscription" => { r with subscription := some name }
  | _ => r

/-- default root names: only OBJECT types named Query / Mutation / Subscription -/
def defaultRoots (types : List TypeD) : Roots :=
  let pick (n : String) := if types.any (fun t => t.name == n && t.kind == .object) then some n else none
  { query := pick "Query", mutation := pick "Mutation", subscription := pick "Subscription" }

/-- operation types of a `schema` block (errE: the error of a repeated operation) -/
def addOps (resolves : String → Bool) (errE : Err) (r : Roots) : List (String × String) → R Roots
  | [] => pure r
  | (op, ty) :: rest =>
    if (r.get op).isSome then .error errE
    else if !resolves ty then sdlErr
    else addOps resolves errE (r.set op ty) rest

/-! ### `build_schema_ignoring_extensions` + `Schema.__init__` -/

structure Live where
  types : List TypeD           -- registry without the built-in types
  directives : List DirectiveD
  roots : Roots
  deriving Inhabited

/-- supplied types that are referenced but not defined are registered through the closure of
    `_build_type_map` (supplied types are assumed closed under references) -/
def referencedAdditional (additional : List TypeD) (types : List TypeD) (dirs : List DirectiveD) (roots : Roots) : List TypeD :=
  let names := types.flatMap (fun t => t.interfaces ++ t.members ++ t.fields.flatMap (fun f => f.type.base :: f.args.map (·.type.base))
                 ++ t.inputFields.map (·.type.base))
               ++ dirs.flatMap (fun d => d.args.map (·.type.base))
               ++ [roots.query, roots.mutation, roots.subscription].filterMap id
  additional.filter fun a => !types.any (·.name == a.name) && names.contains a.name

/-- root operation types: the `schema` block, else the default names -/
def buildRoots (env : Env) (sd : Option SchemaDef) (types : List TypeD) : R Roots :=
  match sd with
  | none => pure (defaultRoots types)
  | some sd => addOps env.resolves (.lib .sdl) {} sd.ops

/-- the part of `build_schema_ignoring_extensions` after `_collect_definitions` -/
def buildCollected (c : Collected) (additional : List TypeD) : R (Env × Live) := do
  let env : Env := Env.of c.types additional
  failIf (hasThunkCycle env c.types) (.internal "RecursionError")     -- finding S1b
  let dirs ← c.directives.mapM (buildDirective env)
  let built ← c.types.mapM (buildType env)
  let types := built.filterMap id
  failIf (hasEagerCycle types) (.lib .sdl)                 -- circular-reference guard of build_type
  let roots ← buildRoots env c.schemaDef types
  -- `_build_directive_map`: a user directive may not take the name of a specified one
  failIf (dirs.any (fun d => specifiedDirectives.contains d.name)) (.lib .schema)
  let extra := referencedAdditional additional types dirs roots
  pure (env, { types := types ++ extra, directives := dirs, roots := roots })

def buildIgnoringExtensions (doc : Doc) (additional : List TypeD) : R (Env × Live) := do
  let c ← collectDefinitions doc
  buildCollected c additional

/-! ### `_collect_extensions` (strict = False) and `ASTTypeBuilder.extend_*` -/

/-- extensions whose target is a registered type (others are silently ignored: strict=False) -/
def typeExtensions (live : Live) (doc : Doc) : List TypeDef :=
  doc.filterMap fun
    | .ext e => if isDefaultName e.name || live.types.any (·.name == e.name) then some e else none
    | _ => none

def schemaExtensions (doc : Doc) : List SchemaDef :=
  doc.filterMap fun | .schemaExt s => some s | _ => none

/-- append the members of one extension block, rejecting names already present -/
def appendNew {α} (errE : Err) (name : α → String) (acc : List α) : List α → R (List α)
  | [] => pure acc
  | x :: xs => if acc.any (fun y => name y == name x) then .error errE else appendNew errE name (acc ++ [x]) xs

/-! ### default values after extension (fix C14-T15)

`_default_value` retries a literal which is not a value of the un-extended type in the extended one, and
`_extended_default_value` evaluates every default written in SDL AGAIN in the extended type.  By name: the value
over the merged definitions. -/

/-- members of all extensions of `t`, appended in document order (the definition the extended type is built from) -/
def mergeExt (exts : List TypeDef) (t : TypeDef) : TypeDef :=
  (exts.filter (·.name == t.name)).foldl (fun acc e =>
    { acc with interfaces := acc.interfaces ++ e.interfaces, fields := acc.fields ++ e.fields, members := acc.members ++ e.members,
               values := acc.values ++ e.values, inputFields := acc.inputFields ++ e.inputFields }) t

/-- by-name view of the extended types -/
def Env.extended (env : Env) (exts : List TypeDef) : Env :=
  { findDef := fun n => (env.findDef n).map (mergeExt exts), findAdditional := env.findAdditional }

mutual
/-- does `value_from_ast(lit, ty)` over the extended types resolve the (lazily extended) type `hide`?  `_extract_input_object`
    reads `field.type` of every field that is given, and of every field that is neither given nor defaulted. -/
def touches (env : Env) (hide : String) : Nat → Lit → Ty → Bool
  | 0, _, _ => false
  | fuel+1, lit, ty =>
    match ty with
    | .nonNull t => (match lit with | .null => false | _ => touches env hide fuel lit t)
    | .list t =>
      match lit with
      | .null => false
      | .list items => touchesItems env hide fuel items t
      | _ => touches env hide fuel lit t
    | .named n =>
      match lit with
      | .obj fs =>
        match env.findAdditional n with
        | some _ => false
        | none =>
          match env.findDef n with
          | some d => if d.kind == .input then touchesFields env hide fuel fs d.inputFields else false
          | none => false
      | _ => false

def touchesItems (env : Env) (hide : String) : Nat → List Lit → Ty → Bool
  | 0, _, _ => false
  | _, [], _ => false
  | fuel+1, x :: xs, t => touches env hide fuel x t || touchesItems env hide fuel xs t

def touchesFields (env : Env) (hide : String) : Nat → List (String × Lit) → List InputValDef → Bool
  | 0, _, _ => false
  | _, _, [] => false
  | fuel+1, given, f :: fs =>
    (match lookupLast given f.name with
      | some l => f.type.base == hide || touches env hide fuel l f.type
      | none => match f.default with | some _ => false | none => f.type.base == hide)
    || touchesFields env hide fuel given fs
end

/-- `extend_type` raises on a type whose extension is in progress.  The fields of an input type are extended eagerly,
    with the type itself in progress: `hideFor` is that type (none for the other kinds, whose members are extended
    when no input type is in progress) -/
def hideFor (kind : Kind) (name : String) : Option String :=
  if kind == .input then some name else none

/-- the evaluation of `lit` at `ty` in the extended types needs the type in progress -/
def needsHidden (eX : Env) (hide : Option String) (lit : Lit) (ty : Ty) : Bool :=
  match hide with
  | none => false
  | some h => ty.base == h || touches eX h coerceFuel lit ty

/-- the value of a default literal after extension: its value in the extended types; a literal that is no longer a
    value there (an extension added a required input field …) makes the document invalid (fix C11-H3-6).  Only a
    default whose evaluation needs the input type in progress keeps its value over the un-extended types. -/
def defaultValueX (eB eX : Env) (hide : Option String) (lit : Lit) (ty : Ty) : R J :=
  if needsHidden eX hide lit ty then defaultValue eB lit ty else defaultValue eX lit ty

def buildArgumentX (eB eX : Env) (hide : Option String) (a : InputValDef) : R ArgD := do
  checkRef eB a.type
  match a.default with
  | none => pure { name := a.name, type := a.type, desc := a.desc }
  | some l => do
    let v ← defaultValueX eB eX hide l a.type
    pure { name := a.name, type := a.type, hasDefault := true, default := v, desc := a.desc }

def buildFieldX (eB eX : Env) (hide : Option String) (f : FieldDef) : R FieldD := do
  checkRef eB f.type
  let args ← f.args.mapM (buildArgumentX eB eX hide)
  let r ← deprecationReason f.dirs
  pure { name := f.name, type := f.type, args := args, deprecated := fieldDeprecation r, desc := f.desc }

def buildTypeDefX (eB eX : Env) (hide : Option String) (d : TypeDef) : R TypeD := do
  match d.kind with
  | .scalar => pure { kind := .scalar, name := d.name, desc := d.desc }
  | .object => do
    let fs ← d.fields.mapM (buildFieldX eB eX hide)
    checkNames eB d.interfaces
    pure { kind := .object, name := d.name, desc := d.desc, interfaces := d.interfaces, fields := fs }
  | .interface => do
    let fs ← d.fields.mapM (buildFieldX eB eX hide)
    pure { kind := .interface, name := d.name, desc := d.desc, fields := fs }
  | .union => do
    checkNames eB d.members
    pure { kind := .union, name := d.name, desc := d.desc, members := d.members }
  | .enum => do
    failIf (hasDup (d.values.map (·.name))) (.lib .sdl)
    let vs ← d.values.mapM buildEnumValue
    pure { kind := .enum, name := d.name, desc := d.desc, values := vs }
  | .input => do
    let fs ← d.inputFields.mapM (buildArgumentX eB eX hide)
    pure { kind := .input, name := d.name, desc := d.desc, inputFields := fs }

def buildDirectiveX (eB eX : Env) (d : DirDef) : R DirectiveD := do
  let args ← d.args.mapM (buildArgumentX eB eX none)
  pure { name := d.name, locations := d.locations, args := args, desc := d.desc }

/-- `_extend_<kind>_type`: every extension must be of the live type's kind; members are merged in document order;
    a new member is built against the types visible BEFORE extension, with the retry of `_default_value` -/
def extendTypeX (eB eX : Env) (hide : Option String) (exts : List TypeDef) (t : TypeD) : R TypeD := do
  let mine := exts.filter (·.name == t.name)
  failIf (mine.any (fun e => e.kind != t.kind)) (.lib .ext)
  match t.kind with
  | .scalar => pure t
  | .object => do
    let fs ← mine.foldlM (fun acc e => do
      let new ← e.fields.mapM (buildFieldX eB eX hide)
      appendNew (.lib .ext) (·.name) acc new) t.fields
    let is ← mine.foldlM (fun acc e => do
      checkNames eB e.interfaces
      appendNew (.lib .ext) id acc e.interfaces) t.interfaces
    pure { t with fields := fs, interfaces := is }
  | .interface => do
    let fs ← mine.foldlM (fun acc e => do
      let new ← e.fields.mapM (buildFieldX eB eX hide)
      appendNew (.lib .ext) (·.name) acc new) t.fields
    pure { t with fields := fs }
  | .union => do
    let ms ← mine.foldlM (fun acc e => do
      checkNames eB e.members
      appendNew (.lib .ext) id acc e.members) t.members
    pure { t with members := ms }
  | .enum => do
    let vs ← mine.foldlM (fun acc e => do
      let new ← e.values.mapM buildEnumValue
      appendNew (.lib .ext) (·.name) acc new) t.values
    pure { t with values := vs }
  | .input => do
    let fs ← mine.foldlM (fun acc e => do
      let new ← e.inputFields.mapM (buildArgumentX eB eX hide)
      appendNew (.lib .ext) (·.name) acc new) t.inputFields
    pure { t with inputFields := fs }

/-- the extended type registered in the new schema: a type of the document is the type of its merged definition
    with every default literal evaluated again (`_extended_default_value`); a supplied type keeps its values -/
def reDefault (eB eX : Env) (hide : Option String) (exts : List TypeDef) (t : TypeD) : R TypeD :=
  match eB.findAdditional t.name, eB.findDef t.name with
  | none, some d => buildTypeDefX eB eX hide (mergeExt exts d)
  | _, _ => pure t

def directiveDefs (doc : Doc) : List DirDef := doc.filterMap fun | .directive d => some d | _ => none

/-- `extend_directive`: argument defaults are evaluated again in the extended types -/
def reDefaultDirective (eB eX : Env) (doc : Doc) (d : DirectiveD) : R DirectiveD :=
  match (directiveDefs doc).find? (·.name == d.name) with
  | some dd => buildDirectiveX eB eX dd
  | none => pure d

/-- `extend_schema(schema, ast, strict=False)` as called by `build_schema` -/
def extendSchema (env : Env) (live : Live) (doc : Doc) (additional : List TypeD := []) : R Live := do
  let texts := typeExtensions live doc
  let sexts := schemaExtensions doc
  if texts.isEmpty && sexts.isEmpty then pure live
  else do
    -- the new builder sees the built types (`additional_types = {**schema.types, …}`): by name these are
    -- the definitions and the supplied types again, i.e. `env`
    -- a specified type is never extended, but an extension of a different KIND is still an error (fix C11-7)
    failIf (texts.any (fun e => isDefaultName e.name && e.kind != builtinKind e.name)) (.lib .ext)
    let envX := env.extended texts
    let checked ← live.types.mapM (fun t => extendTypeX env envX (hideFor t.kind t.name) texts t)
    let types ← checked.mapM (fun t => reDefault env envX (hideFor t.kind t.name) texts t)
    let dirs ← live.directives.mapM (reDefaultDirective env envX doc)
    failIf (hasEagerCycle types) (.lib .sdl)               -- circular-reference guard of extend_type
    let roots ← sexts.foldlM (fun r se => addOps (fun n => isDefaultName n || types.any (·.name == n)) (.lib .ext) r se.ops) live.roots
    -- supplied types referenced only from extension blocks are registered through the closure of the new schema
    pure { live with types := types ++ referencedAdditional additional types dirs roots, directives := dirs, roots := roots }

/-! ### `build_schema` (without the final `schema.validate()`) -/

def toSchemaD (l : Live) : SchemaD :=
  { types := l.types, directives := l.directives, query := l.roots.query, mutation := l.roots.mutation,
    subscription := l.roots.subscription }

def build (doc : Doc) (ignoreExtensions : Bool := false) (additional : List TypeD := []) : R SchemaD := do
  let (env, live) ← buildIgnoringExtensions doc additional
  if ignoreExtensions then pure (toSchemaD live)
  else do
    let live' ← extendSchema env live doc additional
    pure (toSchemaD live')

end PyGql.Sdl

/-
  C07 — MODEL of the number lexemes Python's builtins accept, on ASCII text:

    int(s, 10)      optional whitespace, optional sign, `digit (_? digit)*`
    float(s)        optional whitespace, optional sign, `inf` | `infinity` | `nan` (any case) or a decimal
                    `digitpart [. [digitpart]] [exponent]` | `. digitpart [exponent]`, correctly rounded
                    (round-half-even) to an IEEE-754 double, overflow to ±inf
    f.is_integer(), int(f), f != f, f in (inf, -inf)   on the resulting double

  `coerce_int` / `coerce_float` (src/py_gql/schema/scalars.py) call exactly these on JSON strings, and a JSON float
  reaches the model as its `repr` — itself such a lexeme — so which JSON inputs are accepted as Int / Float is decided
  INSIDE the model. Non-ASCII digits / spaces (which Python also accepts) are outside this model; the correspondence
  (`pynum` stream of harness/corr/C07.py) compares it with the real builtins on generated ASCII lexemes.
  Import-free.
-/
namespace PyGql.PyNum

def isSpace (c : Char) : Bool :=
  let n := c.toNat
  n == 32 || (9 ≤ n && n ≤ 13)

def isDigit (c : Char) : Bool := 48 ≤ c.toNat && c.toNat ≤ 57
def digitVal (c : Char) : Nat := c.toNat - 48

/-- `str.strip()` (ASCII whitespace) -/
def strip (cs : List Char) : List Char :=
  ((cs.dropWhile isSpace).reverse.dropWhile isSpace).reverse

/-- rest of a digit part after its first digit: `(_? digit)*` → (value, number of digits, unread rest) -/
def moreDigits : Nat → Nat → List Char → Nat × Nat × List Char
  | acc, cnt, [] => (acc, cnt, [])
  | acc, cnt, c :: rest =>
    if isDigit c then moreDigits (acc * 10 + digitVal c) (cnt + 1) rest
    else if c == '_' then
      match rest with
      | d :: rest' => if isDigit d then moreDigits (acc * 10 + digitVal d) (cnt + 1) rest' else (acc, cnt, c :: rest)
      | [] => (acc, cnt, c :: rest)
    else (acc, cnt, c :: rest)

/-- `digitpart ::= digit (["_"] digit)*` → (value, number of digits, rest) -/
def digitPart : List Char → Option (Nat × Nat × List Char)
  | c :: rest => if isDigit c then some (moreDigits (digitVal c) 1 rest) else none
  | [] => none

def signOf : List Char → Bool × List Char
  | '-' :: rest => (true, rest)
  | '+' :: rest => (false, rest)
  | cs => (false, cs)

/-- `int(s, 10)` (`none` = ValueError) -/
def pyInt10 (s : String) : Option Int :=
  let (neg, cs) := signOf (strip s.toList)
  match digitPart cs with
  | some (v, _, []) => some (if neg then -(v : Int) else (v : Int))
  | _ => none

/-! ### doubles -/

/-- an IEEE-754 double: `finite neg m e` is `(-1)^neg · m · 2^e` (m < 2^53) -/
inductive Dbl where
  | finite (neg : Bool) (m : Nat) (e : Int)
  | inf (neg : Bool)
  | nan
  deriving Repr, DecidableEq, Inhabited

def pow2 (k : Nat) : Nat := 2 ^ k

/-- round-half-even of the positive rational `n / d` to a double -/
def roundToDbl (neg : Bool) (n d : Nat) : Dbl :=
  if n == 0 then .finite neg 0 0
  else
    -- e0: first guess of the binary exponent such that n / (d * 2^e) has 53 significant bits
    let e0 : Int := (Nat.log2 n : Int) - (Nat.log2 d : Int) - 52
    let scaled (e : Int) : Nat × Nat :=      -- numerator, denominator of n / (d * 2^e)
      if e ≥ 0 then (n, d * pow2 e.toNat) else (n * pow2 (-e).toNat, d)
    let q0 := (scaled e0).1 / (scaled e0).2
    -- normalise: want 2^52 ≤ q < 2^53
    let e1 : Int := if q0 ≥ pow2 53 then e0 + 1 else if q0 < pow2 52 then e0 - 1 else e0
    -- subnormals: the exponent cannot go below -1074
    let e2 : Int := if e1 < -1074 then -1074 else e1
    let (num, den) := scaled e2
    let q := num / den
    let r := num % den
    -- round half to even
    let q' := if 2 * r > den then q + 1 else if 2 * r == den then (if q % 2 == 1 then q + 1 else q) else q
    let (m, e) : Nat × Int := if q' == pow2 53 then (pow2 52, e2 + 1) else (q', e2)
    if e > 971 then .inf neg else .finite neg m e

/-- the double nearest to `mant · 10^exp10` (Python's correctly rounded `float()`), guarding absurd exponents -/
def decToDbl (neg : Bool) (mant : Nat) (digits : Nat) (exp10 : Int) : Dbl :=
  if mant == 0 then .finite neg 0 0
  else if exp10 + (digits : Int) > 400 then .inf neg             -- ≥ 10^399 · … > 1.8e308
  else if exp10 + (digits : Int) < -400 then .finite neg 0 0     -- < 10^-400: rounds to (signed) zero
  else if exp10 ≥ 0 then roundToDbl neg (mant * 10 ^ exp10.toNat) 1
  else roundToDbl neg mant (10 ^ (-exp10).toNat)

def lower (c : Char) : Char := if 65 ≤ c.toNat && c.toNat ≤ 90 then Char.ofNat (c.toNat + 32) else c

/-- optional exponent: `(e|E) [sign] digitpart` at the end → exponent value (`none` = malformed) -/
def exponentPart : List Char → Option Int
  | [] => some 0
  | c :: rest =>
    if c == 'e' || c == 'E' then
      let (neg, ds) := signOf rest
      match digitPart ds with
      | some (v, _, []) => some (if neg then -(v : Int) else (v : Int))
      | _ => none
    else none

/-- `float(s)` (`none` = ValueError) -/
def pyFloat (s : String) : Option Dbl :=
  let (neg, cs) := signOf (strip s.toList)
  let word := cs.map lower
  if word == "inf".toList || word == "infinity".toList then some (.inf neg)
  else if word == "nan".toList then some .nan
  else
    match cs with
    | '.' :: rest =>
      match digitPart rest with
      | some (f, fd, rest') =>
        match exponentPart rest' with
        | some ex => some (decToDbl neg f fd (ex - fd))
        | none => none
      | none => none
    | _ =>
      match digitPart cs with
      | some (i, idg, '.' :: rest) =>
        match digitPart rest with
        | some (f, fd, rest') =>
          match exponentPart rest' with
          | some ex => some (decToDbl neg (i * 10 ^ fd + f) (idg + fd) (ex - fd))
          | none => none
        | none =>
          match exponentPart rest with
          | some ex => some (decToDbl neg i idg ex)
          | none => none
      | some (i, idg, rest) =>
        match exponentPart rest with
        | some ex => some (decToDbl neg i idg ex)
        | none => none
      | none => none

/-- `f.is_integer()` and then `int(f)` -/
def Dbl.integral : Dbl → Option Int
  | .finite neg m e =>
    if e ≥ 0 then
      let v : Int := (m * pow2 e.toNat : Nat)
      some (if neg then -v else v)
    else if m % pow2 (-e).toNat == 0 then
      let v : Int := (m / pow2 (-e).toNat : Nat)
      some (if neg then -v else v)
    else none
  | _ => none

def Dbl.isFinite : Dbl → Bool
  | .finite _ _ _ => true
  | _ => false

def Dbl.isNaN : Dbl → Bool
  | .nan => true
  | _ => false

/-- `bool(f)`: zero (of either sign) is falsy, NaN and the infinities are truthy -/
def Dbl.truthy : Dbl → Bool
  | .finite _ m _ => m != 0
  | _ => true

end PyGql.PyNum

/-
  Tokens of `py_gql.lang.token` (shared by the lexer model and the parser model).
  Text is `List Nat` (code points): Python `str` can hold lone surrogates, Lean `Char` cannot.
  Import-free.
-/
namespace PyGql

abbrev Text := List Nat

/-- one constructor per token class of `py_gql/lang/token.py` -/
inductive TokKind where
  | sof | eof
  | bang | dollar | parenL | parenR | bracketL | bracketR | curlyL | curlyR
  | colon | equals | atSign | pipe | amp | ellip
  | int | float | name | string | blockString
  deriving DecidableEq, Repr, Inhabited

/-- `Token(start, end, value)`; `value` is the name text / verbatim number text / DECODED string
    content; for constant tokens it is the punctuator itself (as in Python). -/
structure Tok where
  kind : TokKind
  start : Nat
  stop : Nat
  value : Text
  deriving DecidableEq, Repr, Inhabited

namespace TokKind

/-- Python class name -/
def pyName : TokKind → String
  | sof => "SOF" | eof => "EOF" | bang => "ExclamationMark" | dollar => "Dollar"
  | parenL => "ParenOpen" | parenR => "ParenClose" | bracketL => "BracketOpen"
  | bracketR => "BracketClose" | curlyL => "CurlyOpen" | curlyR => "CurlyClose"
  | colon => "Colon" | equals => "Equals" | atSign => "At" | pipe => "Pipe" | amp => "Ampersand"
  | ellip => "Ellip" | int => "Integer" | float => "Float" | name => "Name"
  | string => "String" | blockString => "BlockString"

def all : List TokKind :=
  [sof, eof, bang, dollar, parenL, parenR, bracketL, bracketR, curlyL, curlyR,
   colon, equals, atSign, pipe, amp, ellip, int, float, name, string, blockString]

def ofPyName (s : String) : Option TokKind := all.find? (fun k => k.pyName == s)

/-- the punctuator text of a constant token (code points) -/
def constText : TokKind → Option Text
  | bang => some [33] | dollar => some [36] | parenL => some [40] | parenR => some [41]
  | bracketL => some [91] | bracketR => some [93] | curlyL => some [123] | curlyR => some [125]
  | colon => some [58] | equals => some [61] | atSign => some [64] | pipe => some [124]
  | amp => some [38] | ellip => some [46, 46, 46]
  | _ => none

end TokKind

def textOfString (s : String) : Text := s.toList.map Char.toNat
/-- lossy (lone surrogates → U+FFFD): for messages only -/
def stringOfText (t : Text) : String :=
  String.ofList (t.map fun n => if n < 0xD800 || (0xE000 ≤ n && n < 0x110000) then Char.ofNat n else Char.ofNat 0xFFFD)

end PyGql

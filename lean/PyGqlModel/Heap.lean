/-
  C14 — object-heap model of `Schema.clone`, `_replace_types_and_directives`,
  `_HealSchemaVisitor`, `SchemaVisitor.on_*`, the visibility / camel-case transforms, a
  schema-directive style visitor, `transform_schema` and the attribute copying of
  `ASTTypeBuilder._extend_*` / `extend_schema`.

  Objects live at addresses (`Nat`); `copy.copy` and every constructor call allocate a new
  address; attribute assignment (`field.type = …`, `object_type.fields = …`,
  `updated.interfaces = …`) is `write`. A reference to a named type carries the target's name
  (type names are never assigned by the modelled code) and its address (the identity).
  Wrapper objects (`ListType`/`NonNullType`) are values: `_healed` rebuilds them anyway.

  Not modelled: `Schema.implementations` / `_possible_types` (derived indexes, checked on the
  live objects by the oracle), `validate()`, the `SchemaError` branches of
  `_replace_types_and_directives` (kind change / protected type: never taken by the modelled
  callers), `merge_resolvers` (re-assigns the resolvers the copied fields already hold).
-/
import PyGqlModel.HeapCfg

namespace PyGql.Heap

abbrev Addr := Nat

structure Ref where
  name : String
  addr : Addr
  deriving DecidableEq, Repr, Inhabited

inductive TRef where
  | named (r : Ref)
  | list (t : TRef)
  | nonNull (t : TRef)
  deriving DecidableEq, Repr, Inhabited

def TRef.base : TRef → Ref
  | .named r => r
  | .list t => t.base
  | .nonNull t => t.base

/-- `Argument` / `InputField` -/
structure ArgO where
  name : String
  ty : TRef
  py : String
  dflt : Option String
  desc : Option String
  deriving DecidableEq, Repr, Inhabited

structure FieldO where
  name : String
  ty : TRef
  args : List Addr
  desc : Option String
  depr : Option String
  res : Option Nat
  sub : Option Nat
  py : String
  deriving DecidableEq, Repr, Inhabited

inductive Kind where
  | object | interface | union | enum | input | scalar
  deriving DecidableEq, Repr, Inhabited

structure TypeO where
  kind : Kind
  name : String
  desc : Option String
  fields : List Addr
  ifaces : List Ref
  members : List Ref
  dres : Option Nat
  rtype : Option Nat
  values : List String
  prot : Bool
  /-- the Python CLASS of a leaf type object when it is not the library's own (`class Upper(ScalarType)` overriding
      `serialize` / `parse`: the documented way to write a custom scalar; `EnumType` subclasses): its behaviour.
      `none`: plain `ScalarType` / `EnumType`. Not tracked for composite types (a rebuilt composite type is plain, T7) -/
  cls : Option Nat := none
  deriving DecidableEq, Repr, Inhabited

structure DirO where
  name : String
  args : List Addr
  locs : List String
  desc : Option String
  deriving DecidableEq, Repr, Inhabited

inductive Obj where
  | type (t : TypeO)
  | field (f : FieldO)
  | arg (a : ArgO)
  | dir (d : DirO)
  deriving DecidableEq, Repr, Inhabited

structure Heap where
  objs : List Obj
  deriving DecidableEq, Repr, Inhabited

structure Schema where
  types : List (String × Addr)
  dirs : List (String × Addr)
  query : Option Ref
  mutation : Option Ref
  subscription : Option Ref
  dres : Option Nat
  deriving DecidableEq, Repr, Inhabited

/-- the type references a type object holds itself: `ObjectType.interfaces`, `UnionType.types` (other kinds have none) -/
def typeRefs (t : TypeO) : List Ref :=
  match t.kind with
  | .object => t.ifaces
  | .union => t.members
  | _ => []

/-- the members a type object has: fields of object / interface / input object types (other kinds have none) -/
def typeKids (t : TypeO) : List Addr :=
  match t.kind with
  | .object | .interface | .input => t.fields
  | _ => []

/-- the member objects an object OWNS (`fields` / `arguments` lists) -/
def kids : Obj → List Addr
  | .type t => t.fields
  | .field f => f.args
  | .arg _ => []
  | .dir d => d.args

/-! ### heap primitives -/

def Heap.size (h : Heap) : Nat := h.objs.length
def Heap.read (h : Heap) (a : Addr) : Option Obj := h.objs[a]?
/-- attribute assignment on the object at `a` -/
def Heap.write (h : Heap) (a : Addr) (o : Obj) : Heap := ⟨h.objs.set a o⟩
/-- constructor call / `copy.copy`: a NEW identity -/
def Heap.alloc (h : Heap) (o : Obj) : Heap × Addr := (⟨h.objs ++ [o]⟩, h.objs.length)

def Heap.readType (h : Heap) (a : Addr) : Option TypeO := match h.read a with | some (.type t) => some t | _ => none
def Heap.readField (h : Heap) (a : Addr) : Option FieldO := match h.read a with | some (.field t) => some t | _ => none
def Heap.readArg (h : Heap) (a : Addr) : Option ArgO := match h.read a with | some (.arg t) => some t | _ => none
def Heap.readDir (h : Heap) (a : Addr) : Option DirO := match h.read a with | some (.dir t) => some t | _ => none

/-! ### registry -/

def specifiedScalars : List String := ["Int", "Float", "String", "Boolean", "ID"]
def isProtected (n : String) : Bool := specifiedScalars.contains n

def lookup (reg : List (String × Addr)) (n : String) : Option Addr := (reg.find? (·.1 == n)).map (·.2)
def regSet (reg : List (String × Addr)) (n : String) (a : Addr) : List (String × Addr) :=
  if (lookup reg n).isSome then reg.map (fun e => if e.1 == n then (n, a) else e) else reg ++ [(n, a)]
def regErase (reg : List (String × Addr)) (n : String) : List (String × Addr) := reg.filter (·.1 != n)

/-! ### `_HealSchemaVisitor._healed` -/

def healed (reg : List (String × Addr)) : TRef → Option TRef
  | .named r => (lookup reg r.name).map fun a => .named ⟨r.name, a⟩
  | .list t => (healed reg t).map .list
  | .nonNull t => (healed reg t).map .nonNull

def healedRefs (reg : List (String × Addr)) (rs : List Ref) : List Ref :=
  rs.filterMap fun r => (lookup reg r.name).map fun a => ⟨r.name, a⟩

/-! ### visitors -/

structure VisP where
  typeVis : String → Bool
  fieldVis : String → String → Bool
  inputVis : String → String → Bool
  dirVis : String → Bool

inductive Visitor where
  /-- `_HealSchemaVisitor` over the registry it was created with -/
  | heal
  /-- `VisibilitySchemaTransform` with its four hooks -/
  | vis (p : VisP)
  /-- `CamelCaseSchemaTransform`; `ren` stands for `snakecase_to_camelcase` -/
  | camel (ren : String → String)
  /-- schema-directive style visitor: `on_field` returns `None` (`drop`) or a rebuilt `Field` with a new resolver (`wrap`) -/
  | sdir (drop : String → String → Bool) (wrap : String → String → Option Nat)

/-- `VisibilitySchemaTransform._is_type_visible` -/
def VisP.isTypeVisible (p : VisP) (n : String) : Bool := isProtected n || p.typeVis n

/-- `map_and_filter` threading the heap -/
def mapFilter (f : Heap → Addr → Heap × Option Addr) : Heap → List Addr → Heap × List Addr
  | h, [] => (h, [])
  | h, a :: as =>
    let r := f h a
    let rs := mapFilter f r.1 as
    (rs.1, match r.2 with | some x => x :: rs.2 | none => rs.2)

/-- `on_argument` -/
def onArgument (v : Visitor) (reg : List (String × Addr)) (h : Heap) (a : Addr) : Heap × Option Addr :=
  match h.readArg a with
  | none => (h, some a)
  | some g =>
    match v with
    | .camel ren =>
      let r := h.alloc (.arg { g with name := ren g.name })
      (r.1, some r.2)
    | .heal =>
      match healed reg g.ty with
      | none => (h, none)
      | some t => (h.write a (.arg { g with ty := t }), some a)
    | _ => (h, some a)

/-- `on_input_field` -/
def onInputField (v : Visitor) (reg : List (String × Addr)) (h : Heap) (a : Addr) : Heap × Option Addr :=
  match h.readArg a with
  | none => (h, some a)
  | some g =>
    match v with
    | .camel ren =>
      let r := h.alloc (.arg { g with name := ren g.name })
      (r.1, some r.2)
    | .heal =>
      match healed reg g.ty with
      | none => (h, none)
      | some t => (h.write a (.arg { g with ty := t }), some a)
    | .vis p => if p.isTypeVisible g.ty.base.name then (h, some a) else (h, none)
    | _ => (h, some a)

/-- `SchemaVisitor.on_field` (base part): visit the arguments, rebuild the field if the list changed -/
def onFieldBase (v : Visitor) (reg : List (String × Addr)) (h : Heap) (a : Addr) (f : FieldO) : Heap × Addr :=
  let r := mapFilter (onArgument v reg) h f.args
  if r.2 != f.args then r.1.alloc (.field { f with args := r.2 }) else (r.1, a)

/-- heal part of `_HealSchemaVisitor.on_field`: `updated.type = new_type` -/
def healFieldType (reg : List (String × Addr)) (h : Heap) (a : Addr) : Heap × Option Addr :=
  match h.readField a with
  | none => (h, some a)
  | some f =>
    match healed reg f.ty with
    | none => (h, none)
    | some t => (h.write a (.field { f with ty := t }), some a)

/-- `on_field` of every visitor; `tn` is the name of the enclosing type (used by the schema-directive visitor) -/
def onField (v : Visitor) (reg : List (String × Addr)) (tn : String) (h : Heap) (a : Addr) : Heap × Option Addr :=
  match h.readField a with
  | none => (h, some a)
  | some f =>
    match v with
    | .camel ren =>
      let f' := { f with name := ren f.name }
      let r := h.alloc (.field f')
      let r2 := onFieldBase v reg r.1 r.2 f'
      (r2.1, some r2.2)
    | .sdir drop wrap =>
      if drop tn f.name then (h, none) else
      match wrap tn f.name with
      | some id =>
        let f' := { f with res := some id }
        let r := h.alloc (.field f')
        let r2 := onFieldBase v reg r.1 r.2 f'
        (r2.1, some r2.2)
      | none =>
        let r2 := onFieldBase v reg h a f
        (r2.1, some r2.2)
    | .heal =>
      let r2 := onFieldBase v reg h a f
      healFieldType reg r2.1 r2.2
    | .vis _ =>
      let r2 := onFieldBase v reg h a f
      (r2.1, some r2.2)

def fieldName (h : Heap) (a : Addr) : Option String := (h.readField a).map (·.name)
def argName (h : Heap) (a : Addr) : Option String := (h.readArg a).map (·.name)

/-- `if updated_fields != type.fields: return Type(name, updated_fields, …)  else: return type` -/
def rebuiltOrSame (h : Heap) (a : Addr) (t : TypeO) (fs : List Addr) : Heap × Addr :=
  if fs != t.fields then h.alloc (.type { t with fields := fs }) else (h, a)

/-- base part of `on_object` / `on_interface` (+ the heal visitor's `updated.interfaces = …`) -/
def compositeRest (v : Visitor) (reg : List (String × Addr)) (a : Addr) (h : Heap) (t : TypeO) : Heap × Option Addr :=
  let r := mapFilter (onField v reg t.name) h t.fields
  let upd := rebuiltOrSame r.1 a t r.2
  match v with
  | .heal =>
    if t.kind == Kind.object then
      match upd.1.readType upd.2 with
      | some tu => (upd.1.write upd.2 (.type { tu with ifaces := healedRefs reg tu.ifaces }), some upd.2)
      | none => (upd.1, some upd.2)
    else (upd.1, some upd.2)
  | _ => (upd.1, some upd.2)

/-- `on_object` / `on_interface` -/
def onComposite (v : Visitor) (reg : List (String × Addr)) (h : Heap) (a : Addr) (t : TypeO) : Heap × Option Addr :=
  match v with
  | .vis p =>
    -- visibility: hidden type → None; else filter the fields IN PLACE (`object_type.fields = updated_fields`)
    if !p.isTypeVisible t.name then (h, none) else
    let kept := t.fields.filter fun fa => match fieldName h fa with | some fnm => p.fieldVis t.name fnm | none => true
    if kept != t.fields then
      compositeRest v reg a (h.write a (.type { t with fields := kept })) { t with fields := kept }
    else compositeRest v reg a h t
  | _ => compositeRest v reg a h t

/-- `on_union` -/
def onUnion (v : Visitor) (reg : List (String × Addr)) (h : Heap) (a : Addr) (t : TypeO) : Heap × Option Addr :=
  match v with
  | .heal => (h.write a (.type { t with members := healedRefs reg t.members }), some a)
  | .vis p => if p.isTypeVisible t.name then (h, some a) else (h, none)
  | _ => (h, some a)

/-- `on_scalar` / `on_enum` (enum values hold no type references: never rebuilt by the modelled visitors) -/
def onLeaf (v : Visitor) (h : Heap) (a : Addr) (t : TypeO) : Heap × Option Addr :=
  match v with
  | .vis p => if p.isTypeVisible t.name then (h, some a) else (h, none)
  | _ => (h, some a)

/-- base part of `on_input_object`; `nm` is the name of the type the visibility hook is asked about -/
def inputRest (v : Visitor) (reg : List (String × Addr)) (a : Addr) (nm : String) (h : Heap) (t : TypeO) : Heap × Option Addr :=
  let r := mapFilter (onInputField v reg) h t.fields
  let upd := rebuiltOrSame r.1 a t r.2
  match v with
  | .vis p => if p.isTypeVisible nm then (upd.1, some upd.2) else (upd.1, none)
  | _ => (upd.1, some upd.2)

/-- `on_input_object` -/
def onInputObject (v : Visitor) (reg : List (String × Addr)) (h : Heap) (a : Addr) (t : TypeO) : Heap × Option Addr :=
  match v with
  | .vis p =>
    let kept := t.fields.filter fun fa => match argName h fa with | some fnm => p.inputVis t.name fnm | none => true
    if kept != t.fields then
      inputRest v reg a t.name (h.write a (.type { t with fields := kept })) { t with fields := kept }
    else inputRest v reg a t.name h t
  | _ => inputRest v reg a t.name h t

/-- `VisibilitySchemaTransform.on_directive`: `not self.is_directive_visible(directive.name)` -/
def dirHidden (v : Visitor) (name : String) : Bool :=
  match v with
  | .vis p => !p.dirVis name
  | _ => false

/-- `on_directive` -/
def onDirective (v : Visitor) (reg : List (String × Addr)) (h : Heap) (a : Addr) : Heap × Option Addr :=
  match h.readDir a with
  | none => (h, some a)
  | some d =>
    if dirHidden v d.name then (h, none) else
    let r := mapFilter (onArgument v reg) h d.args
    if r.2 != d.args then
      let r2 := r.1.alloc (.dir { d with args := r.2 })
      (r2.1, some r2.2)
    else (r.1, some a)

/-- dispatch of `on_schema` on the kind of one registered type -/
def onType (v : Visitor) (reg : List (String × Addr)) (h : Heap) (a : Addr) : Heap × Option Addr :=
  match h.readType a with
  | none => (h, some a)
  | some t =>
    match t.kind with
    | .object => onComposite v reg h a t
    | .interface => onComposite v reg h a t
    | .input => onInputObject v reg h a t
    | .union => onUnion v reg h a t
    | .scalar => onLeaf v h a t
    | .enum => onLeaf v h a t

/-- the loop of `on_schema` over `schema.types.values()`: collects `updated_types` -/
def visitTypes (v : Visitor) (reg : List (String × Addr)) : Heap → List (String × Addr) → Heap × List (String × Option Addr)
  | h, [] => (h, [])
  | h, (n, a) :: rest =>
    if isProtected n then visitTypes v reg h rest else
    let r := onType v reg h a
    let rs := visitTypes v reg r.1 rest
    (rs.1, if r.2 != some a then (n, r.2) :: rs.2 else rs.2)

def visitDirs (v : Visitor) (reg : List (String × Addr)) : Heap → List (String × Addr) → Heap × List (String × Option Addr)
  | h, [] => (h, [])
  | h, (n, a) :: rest =>
    let r := onDirective v reg h a
    let rs := visitDirs v reg r.1 rest
    (rs.1, if r.2 != some a then (n, r.2) :: rs.2 else rs.2)

/-! ### `_replace_types_and_directives` -/

/-- the loop over `types.items()`: registry update and the `busted_cache` flag -/
def replaceTypes (cfg : Cfg) : List (String × Addr) → Bool → List (String × Option Addr) → List (String × Addr) × Bool
  | reg, b, [] => (reg, b)
  | reg, b, (n, new) :: rest =>
    match lookup reg n with
    | none => replaceTypes cfg reg b rest          -- KeyError: pass
    | some orig =>
      let differs := new != some orig
      let b' := if cfg.accumulateBusted then b || differs else differs
      match new with
      | none => replaceTypes cfg (regErase reg n) b' rest
      | some a => replaceTypes cfg (regSet reg n a) b' rest

def replaceDirs : List (String × Addr) → List (String × Option Addr) → List (String × Addr)
  | reg, [] => reg
  | reg, (n, none) :: rest => replaceDirs (regErase reg n) rest
  | reg, (n, some a) :: rest => replaceDirs (regSet reg n a) rest

def reRoot (reg : List (String × Addr)) (r : Option Ref) : Option Ref :=
  r.bind fun r => (lookup reg r.name).map fun a => ⟨r.name, a⟩

/-- everything of `_replace_types_and_directives` before `if busted_cache:` -/
def replaceCore (cfg : Cfg) (s : Schema) (ut ud : List (String × Option Addr)) : Schema × Bool :=
  let r := replaceTypes cfg s.types false ut
  let dirs := replaceDirs s.dirs ud
  ({ s with types := r.1, dirs := dirs, query := reRoot r.1 s.query, mutation := reRoot r.1 s.mutation,
            subscription := reRoot r.1 s.subscription }, r.2)

/-- one `on_schema` of visitor `v` (without the final replace) -/
def visitAll (v : Visitor) (s : Schema) (h : Heap) : Heap × List (String × Option Addr) × List (String × Option Addr) :=
  let r := visitTypes v s.types h s.types
  let r2 := visitDirs v s.types r.1 s.dirs
  (r2.1, r.2, r2.2)

/-- `fix_type_references` = `_HealSchemaVisitor(schema).on_schema(schema)`, which ends in
    `_replace_types_and_directives`, which calls `fix_type_references` again while types were replaced.
    `none` = out of fuel. -/
def healLoop (cfg : Cfg) : Nat → Schema → Heap → Option (Heap × Schema)
  | 0, _, _ => none
  | fuel + 1, s, h =>
    let r := visitAll .heal s h
    let c := replaceCore cfg s r.2.1 r.2.2
    if c.2 then healLoop cfg fuel c.1 r.1 else some (r.1, c.1)

/-- `_replace_types_and_directives` -/
def replaceTD (cfg : Cfg) (fuel : Nat) (s : Schema) (h : Heap) (ut ud : List (String × Option Addr)) : Option (Heap × Schema) :=
  let c := replaceCore cfg s ut ud
  if c.2 then healLoop cfg fuel c.1 h else some (h, c.1)

/-- `SchemaVisitor.on_schema` -/
def onSchema (cfg : Cfg) (fuel : Nat) (v : Visitor) (s : Schema) (h : Heap) : Option (Heap × Schema) :=
  let r := visitAll v s h
  replaceTD cfg fuel s r.1 r.2.1 r.2.2

/-! ### `Schema.clone` -/

/-- addresses referenced by the object at `a` the way `_build_type_map` walks them -/
def children (h : Heap) (a : Addr) : List Addr :=
  match h.read a with
  | some (.type t) => (typeRefs t).map (·.addr) ++ typeKids t
  | some (.field f) => f.ty.base.addr :: f.args
  | some (.arg g) => [g.ty.base.addr]
  | some (.dir d) => d.args
  | none => []

/-- closure of `children` (fuel = number of rounds) -/
def reach (h : Heap) : Nat → List Addr → List Addr → List Addr
  | 0, seen, _ => seen
  | fuel + 1, seen, todo =>
    match todo with
    | [] => seen
    | a :: rest =>
      if seen.contains a then reach h fuel seen rest
      else reach h fuel (seen ++ [a]) (children h a ++ rest)

/-- enough fuel for `reach`: one unit per popped work-list entry (≤ roots + edges) -/
def reachFuel (h : Heap) (roots : List Addr) : Nat :=
  (List.range h.size).foldl (fun n a => n + (children h a).length) (roots.length + h.size + 1)

/-- `_build_type_map` from the roots: first object met under each name -/
def buildTypeMap (h : Heap) (fuel : Nat) (roots : List Addr) : List (String × Addr) :=
  (reach h fuel [] roots).foldl (fun reg a =>
    match h.readType a with
    | some t => if (lookup reg t.name).isSome then reg else reg ++ [(t.name, a)]
    | none => reg) []

def copyArgs (h : Heap) : List Addr → Heap × List Addr
  | [] => (h, [])
  | a :: as =>
    match h.readArg a with
    | some g =>
      let r := h.alloc (.arg g)
      let rs := copyArgs r.1 as
      (rs.1, r.2 :: rs.2)
    | none => copyArgs h as     -- (no such object: cannot happen for live Python objects)

/-- `_clone_field` of the fixed code -/
def copyFields (h : Heap) : List Addr → Heap × List Addr
  | [] => (h, [])
  | a :: as =>
    match h.readField a with
    | some f =>
      let ra := copyArgs h f.args
      let r := ra.1.alloc (.field { f with args := ra.2 })
      let rs := copyFields r.1 as
      (rs.1, r.2 :: rs.2)
    | none => copyFields h as

/-- `copy.copy(t)` (legacy) / `_clone_type(t)` (fixed) -/
def cloneType (cfg : Cfg) (h : Heap) (t : TypeO) : Heap × Addr :=
  if cfg.deepClone then
    match t.kind with
    | .input =>
      let r := copyArgs h t.fields
      r.1.alloc (.type { t with fields := r.2 })
    | _ =>
      let r := copyFields h t.fields
      r.1.alloc (.type { t with fields := r.2 })
  else h.alloc (.type t)

def cloneDir (cfg : Cfg) (h : Heap) (d : DirO) : Heap × Addr :=
  if cfg.deepClone then
    let r := copyArgs h d.args
    r.1.alloc (.dir { d with args := r.2 })
  else h.alloc (.dir d)

def cloneTypes (cfg : Cfg) : Heap → List (String × Addr) → Heap × List (String × Option Addr)
  | h, [] => (h, [])
  | h, (n, a) :: rest =>
    if isProtected n then cloneTypes cfg h rest else
    match h.readType a with
    | some t =>
      let r := cloneType cfg h t
      let rs := cloneTypes cfg r.1 rest
      (rs.1, (n, some r.2) :: rs.2)
    | none => cloneTypes cfg h rest

def cloneDirs (cfg : Cfg) : Heap → List (String × Addr) → Heap × List (String × Option Addr)
  | h, [] => (h, [])
  | h, (n, a) :: rest =>
    match h.readDir a with
    | some d =>
      let r := cloneDir cfg h d
      let rs := cloneDirs cfg r.1 rest
      (rs.1, (n, some r.2) :: rs.2)
    | none => cloneDirs cfg h rest

def rootAddrs (s : Schema) : List Addr :=
  [s.query, s.mutation, s.subscription].filterMap fun r => r.map (·.addr)

/-- the registry of `Schema(query_type=…, mutation_type=…, subscription_type=…)` (+ `setdefault` of the fixed code) -/
def cloneRegistry (cfg : Cfg) (s : Schema) (h : Heap) : List (String × Addr) :=
  let builtin := s.types.filter fun e => isProtected e.1
  let reached := (buildTypeMap h (reachFuel h (rootAddrs s)) (rootAddrs s)).filter fun e => !isProtected e.1
  let reg := builtin ++ reached
  if cfg.keepAllTypes then s.types.foldl (fun reg e => if (lookup reg e.1).isSome then reg else reg ++ [e]) reg else reg

/-- `Schema.clone` -/
def clone (cfg : Cfg) (fuel : Nat) (s : Schema) (h : Heap) : Option (Heap × Schema) :=
  let s0 : Schema := { types := cloneRegistry cfg s h, dirs := [], query := s.query, mutation := s.mutation,
                       subscription := s.subscription, dres := none }
  let ct := cloneTypes cfg h s.types
  let cd := cloneDirs cfg ct.1 s.dirs
  match replaceTD cfg fuel s0 cd.1 ct.2 cd.2 with
  | none => none
  | some (h', s') => some (h', { s' with dres := if cfg.cloneSchemaDres then s.dres else none })

/-- `transform_schema` (without the final `validate()`) -/
def transformFrom (cfg : Cfg) (fuel : Nat) : List Visitor → Heap × Schema → Option (Heap × Schema)
  | [], r => some r
  | v :: vs, (h, s) =>
    match onSchema cfg fuel v s h with
    | none => none
    | some r => transformFrom cfg fuel vs r

def transform (cfg : Cfg) (fuel : Nat) (vs : List Visitor) (s : Schema) (h : Heap) : Option (Heap × Schema) :=
  match clone cfg fuel s h with
  | none => none
  | some r => transformFrom cfg fuel vs r

/-! ### closedness (decidable form; the `Prop` form is in `Props/C14.lean`) -/

def refOK (reg : List (String × Addr)) (r : Ref) : Bool := lookup reg r.name == some r.addr

/-- shape of the object graph below an argument / input field: it exists and its type reference passes `chk` -/
def argShape (chk : Ref → Bool) (h : Heap) (a : Addr) : Bool :=
  match h.readArg a with
  | some g => chk g.ty.base
  | none => false

def fieldShape (chk : Ref → Bool) (h : Heap) (a : Addr) : Bool :=
  match h.readField a with
  | some f => chk f.ty.base && f.args.all (argShape chk h)
  | none => false

/-- the members of a type object, by kind, have the member shape -/
def typeMembersOK (chk : Ref → Bool) (h : Heap) (t : TypeO) : Bool :=
  match t.kind with
  | .input => t.fields.all (argShape chk h)
  | .object | .interface => t.fields.all (fieldShape chk h)
  | _ => true

def typeShape (chk : Ref → Bool) (h : Heap) (a : Addr) : Bool :=
  match h.readType a with
  | some t => (typeRefs t).all chk && typeMembersOK chk h t
  | none => false

def dirShape (chk : Ref → Bool) (h : Heap) (a : Addr) : Bool :=
  match h.readDir a with
  | some d => d.args.all (argShape chk h)
  | none => false

def rootOK (chk : Ref → Bool) : Option Ref → Bool
  | none => true
  | some r => chk r

def shapeB (chk : Ref → Bool) (h : Heap) (s : Schema) : Bool :=
  s.types.all (fun e => typeShape chk h e.2) && s.dirs.all (fun e => dirShape chk h e.2) &&
    rootOK chk s.query && rootOK chk s.mutation && rootOK chk s.subscription

def argClosed (h : Heap) (reg : List (String × Addr)) (a : Addr) : Bool := argShape (refOK reg) h a
def fieldClosed (h : Heap) (reg : List (String × Addr)) (a : Addr) : Bool := fieldShape (refOK reg) h a
def typeClosed (h : Heap) (reg : List (String × Addr)) (a : Addr) : Bool := typeShape (refOK reg) h a
def dirClosed (h : Heap) (reg : List (String × Addr)) (a : Addr) : Bool := dirShape (refOK reg) h a

/-- a registry entry holds a type object carrying the name it is registered under -/
def nameOK (h : Heap) (e : String × Addr) : Bool :=
  match h.readType e.2 with
  | some t => t.name == e.1
  | none => false

/-- a protected (specified scalar) entry holds a scalar object -/
def protLeaf (h : Heap) (e : String × Addr) : Bool :=
  !isProtected e.1 || (match h.readType e.2 with | some t => t.kind == Kind.scalar | none => false)

/-- registry names are distinct (a Python dict) -/
def namesNodup (reg : List (String × Addr)) : Bool := decide ((reg.map (·.1)).Nodup)

/-- well-formed: every registered address holds a type / directive object whose member lists hold
    field / argument objects (no statement about where references point) -/
def wfB (h : Heap) (s : Schema) : Bool :=
  shapeB (fun _ => true) h s && s.types.all (nameOK h) && s.types.all (protLeaf h) && namesNodup s.types

/-- every reference reachable through fields, arguments, input fields, interfaces, union members,
    directive arguments and root operations is THE object registered under its name -/
def closedB (h : Heap) (s : Schema) : Bool :=
  shapeB (refOK s.types) h s && s.types.all (nameOK h)

end PyGql.Heap

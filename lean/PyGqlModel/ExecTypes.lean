/-
  C04 / C05 — types of the execution model: executable documents AFTER parsing, resolver
  outcomes (worlds), response data, field errors, and the schema queries the executor uses.
  Import-free apart from the shared Json / Ty / SchemaDesc.
-/
import PyGqlModel.Json
import PyGqlModel.Ty
import PyGqlModel.SchemaDesc

namespace PyGql.Exec
open PyGql

/-- value of the `if` argument of `@skip` / `@include` as written in the document -/
inductive Cond where
  | lit (b : Bool)
  | var (n : String)
  | bad                      -- argument missing or not a Boolean literal / variable
  deriving Repr, Inhabited, DecidableEq

structure Dir where
  name : String
  cond : Cond
  deriving Repr, Inhabited, DecidableEq

/-- Selections. `args` is the table "parent object type ↦ canonical JSON text of the coerced
    arguments" (`none` = `coerce_argument_values` raised `CoercionError`); argument coercion is C07's. -/
inductive Sel where
  | field (key name : String) (loc : Nat) (dirs : List Dir) (args : List (String × Option String))
      (hasSub : Bool) (sub : List Sel)
  | inline (on : Option String) (dirs : List Dir) (sub : List Sel)
  | spread (name : String) (dirs : List Dir)
  deriving Repr, Inhabited

/-- a collected field node (`ast.Field`) -/
structure FNode where
  key : String
  name : String
  loc : Nat
  args : List (String × Option String)
  hasSub : Bool
  sub : List Sel
  deriving Repr, Inhabited

structure Frag where
  name : String
  on : String
  sels : List Sel
  deriving Repr, Inhabited

structure Op where
  kind : String            -- "query" | "mutation" | "subscription"
  name : Option String
  sels : List Sel
  deriving Repr, Inhabited

structure Doc where
  ops : List Op
  frags : List Frag
  deriving Repr, Inhabited

/-- `Document.fragments` is a dict comprehension: the LAST definition of a name wins -/
def Doc.fragment? (d : Doc) (n : String) : Option Frag := d.frags.reverse.find? (·.name == n)

abbrev Vars := List (String × J)

def Vars.get? (vs : Vars) (n : String) : Option J := (vs.find? (·.1 == n)).map (·.2)

inductive Seg where
  | key (k : String)
  | idx (i : Nat)
  deriving Repr, Inhabited, DecidableEq

abbrev Path := List Seg

/-- raw value returned by a resolver -/
inductive RVal where
  | null
  | leaf (j : J)
  | list (vs : List RVal)
  | obj (ty : String)         -- `{"__typename__": ty}`
  deriving Repr, Inhabited

inductive Outcome where
  | val (v : RVal)
  | err (msg : String) (ext : Option J)    -- `ResolverError`
  | boom                                    -- any other exception
  deriving Repr, Inhabited

/-- a resolver world: parent type → field name → response path → canonical arguments → outcome -/
abbrev World := String → String → Path → String → Outcome

/-- response data (ordered objects) -/
inductive Data where
  | null
  | leaf (j : J)
  | list (l : List Data)
  | obj (kvs : List (String × Data))
  deriving Repr, Inhabited

def Data.isNull : Data → Bool | .null => true | _ => false

inductive ErrKind where
  | resolver (msg : String) (ext : Option J)
  | nonnull
  | coercion
  deriving Repr, Inhabited

structure Err where
  path : Path
  locs : List Nat
  kind : ErrKind
  deriving Repr, Inhabited

/-- how a request can fail to produce a response -/
inductive Fail where
  | internal (cls : String)    -- a `raise`/exception that escapes the executor
  | outOfFuel                  -- model artefact (Python: unbounded recursion)
  | unsupported                -- outside the model (introspection fields, exotic resolver values)
  deriving Repr, Inhabited, DecidableEq

abbrev R (α : Type) := Except Fail α

/-! ### schema queries -/

def builtinScalars : List String := ["Int", "Float", "String", "Boolean", "ID"]

/-- kind of a named type as `schema.get_type` sees it (`none` = `UnknownType`) -/
def kindOf (s : SchemaD) (n : String) : Option Kind :=
  match s.findType n with
  | some t => some t.kind
  | none => if builtinScalars.contains n then some .scalar else none

def isAbstract (s : SchemaD) (n : String) : Bool :=
  match kindOf s n with
  | some .interface => true
  | some .union => true
  | _ => false

/-- `Schema.get_possible_types` (registry order for interfaces, member order for unions) -/
def possibleTypes (s : SchemaD) (n : String) : List String :=
  match s.findType n with
  | some t =>
    match t.kind with
    | .union => t.members
    | .interface => (s.types.filter fun o => o.kind == .object && o.interfaces.contains n).map (·.name)
    | _ => []
  | none => []

/-- `Schema.is_possible_type` for an object type name -/
def isPossibleType (s : SchemaD) (abstract obj : String) : Bool :=
  kindOf s obj == some .object && (possibleTypes s abstract).contains obj

/-- `parent_type.field_map.get(name)` -/
def fieldOf (s : SchemaD) (parent name : String) : Option FieldD :=
  match s.findType parent with
  | some t => t.fields.find? (·.name == name)
  | none => none

def rootType (s : SchemaD) (kind : String) : Option String :=
  if kind == "query" then s.query else if kind == "mutation" then s.mutation
  else if kind == "subscription" then s.subscription else none

end PyGql.Exec

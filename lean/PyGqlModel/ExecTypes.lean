/-
  C04 / C05 — types of the execution model: executable documents AFTER parsing, resolver
  outcomes (worlds), response data, field errors, and the schema queries the executor uses.
  Import-free apart from the shared Json / Ty / SchemaDesc.
-/
import PyGqlModel.Json
import PyGqlModel.Ty
import PyGqlModel.SchemaDesc

namespace PyGql.Exec
open PyGql

/-- value of the `if` argument of `@skip` / `@include` as written in the document -/
inductive Cond where
  | lit (b : Bool)
  | var (n : String)
  | bad                      -- argument missing or not a Boolean literal / variable
  deriving Repr, Inhabited, DecidableEq

structure Dir where
  name : String
  cond : Cond
  deriving Repr, Inhabited, DecidableEq

/-- Selections. `args` is the table "parent object type ↦ canonical JSON text of the coerced
    arguments" (`none` = `coerce_argument_values` raised `CoercionError`); argument coercion is C07's. -/
inductive Sel where
  | field (key name : String) (loc : Nat) (dirs : List Dir) (args : List (String × Option String))
      (hasSub : Bool) (sub : List Sel)
  | inline (on : Option String) (dirs : List Dir) (sub : List Sel)
  | spread (name : String) (dirs : List Dir)
  deriving Repr, Inhabited

/-- a collected field node (`ast.Field`) -/
structure FNode where
  key : String
  name : String
  loc : Nat
  args : List (String × Option String)
  hasSub : Bool
  sub : List Sel
  deriving Repr, Inhabited

structure Frag where
  name : String
  on : String
  sels : List Sel
  deriving Repr, Inhabited

structure Op where
  kind : String            -- "query" | "mutation" | "subscription"
  name : Option String
  sels : List Sel
  deriving Repr, Inhabited

structure Doc where
  ops : List Op
  frags : List Frag
  deriving Repr, Inhabited

/-- `Document.fragments` is a dict comprehension: the LAST definition of a name wins -/
def Doc.fragment? (d : Doc) (n : String) : Option Frag := d.frags.reverse.find? (·.name == n)

abbrev Vars := List (String × J)

def Vars.get? (vs : Vars) (n : String) : Option J := (vs.find? (·.1 == n)).map (·.2)

inductive Seg where
  | key (k : String)
  | idx (i : Nat)
  deriving Repr, Inhabited, DecidableEq

abbrev Path := List Seg

/-- raw value returned by a resolver -/
inductive RVal where
  | null
  | leaf (j : J)
  | list (vs : List RVal)
  | obj (ty : String)         -- `{"__typename__": ty}`
  /-- a value whose COMPLETION raises `ResolverError(msg, extensions)`: a lazy iterable that yields `vs` and then raises
      (list position), or a value whose `resolve_type` raises (abstract position) -/
  | raise (vs : List RVal) (msg : String) (ext : Option J)
  deriving Repr, Inhabited

inductive Outcome where
  | val (v : RVal)
  | err (msg : String) (ext : Option J)    -- `ResolverError`
  | boom                                    -- any other exception
  deriving Repr, Inhabited

/-- a resolver world: parent type → field name → response path → canonical arguments → outcome -/
abbrev World := String → String → Path → String → Outcome

/-- response data (ordered objects) -/
inductive Data where
  | null
  | leaf (j : J)
  | list (l : List Data)
  | obj (kvs : List (String × Data))
  deriving Repr, Inhabited

def Data.isNull : Data → Bool | .null => true | _ => false

inductive ErrKind where
  | resolver (msg : String) (ext : Option J)
  | nonnull
  | coercion
  | directive            -- invalid `@skip` / `@include` condition at run time (CoercionError turned into a ResolverError)
  deriving Repr, Inhabited

structure Err where
  path : Path
  locs : List Nat
  kind : ErrKind
  deriving Repr, Inhabited

/-- how a computation inside a request can fail -/
inductive Fail where
  | internal (cls : String)    -- a `raise`/exception that escapes the executor
  | outOfFuel                  -- model artefact (Python: unbounded recursion)
  | unsupported                -- outside the model (introspection fields, exotic resolver values)
  /-- a `ResolverError` travelling up to the nearest enclosing `resolve_field` (or to `execute` for the root selection
      set): its kind, its own locations if it has any (`none`: the field node's), and the errors already recorded by the
      computation it interrupts (the error accumulator keeps them) -/
  | raised (kind : ErrKind) (locs : Option (List Nat)) (inner : List Err)
  deriving Repr, Inhabited

abbrev R (α : Type) := Except Fail α

/-! ### the three places where a `ResolverError` is shaped, kept as combinators so that proofs can invert them -/

/-- the error accumulator keeps what was recorded before a later `ResolverError` interrupts the computation -/
def Fail.keep (e : List Err) : Fail → Fail
  | .raised k l inner => .raised k l (e ++ inner)
  | f => f
def keepErrs {α : Type} (e : List Err) : R α → R α
  | .error f => .error (f.keep e)
  | .ok x => .ok x

/-- `ResolutionContext.collect_fields`: a `CoercionError` (invalid `@skip`/`@include` condition) becomes a `ResolverError`
    carrying the directive argument's nodes (no field location) -/
def Fail.directive : Fail → Fail
  | .internal cls => if cls == "CoercionError" then .raised .directive (some []) [] else .internal cls
  | f => f
def catchDirective {α : Type} : R α → R α
  | .error f => .error f.directive
  | .ok x => .ok x

/-- `try: complete_value(...) except ResolverError as err: add_error(err, path, node); return None` (`resolve_field`) -/
def catchField (path : Path) (loc : Nat) : R (Data × List Err) → R (Data × List Err)
  | .error (.raised k l inner) => .ok (.null, inner ++ [{ path := path, locs := l.getD [loc], kind := k }])
  | r => r

@[simp] theorem keepErrs_err {α : Type} (e : List Err) (f : Fail) : keepErrs e (.error f : R α) = .error (f.keep e) := rfl
@[simp] theorem catchDirective_err {α : Type} (f : Fail) : catchDirective (.error f : R α) = .error f.directive := rfl
@[simp] theorem Fail.keep_internal (e : List Err) (c : String) : (Fail.internal c).keep e = .internal c := rfl
@[simp] theorem Fail.keep_outOfFuel (e : List Err) : Fail.outOfFuel.keep e = .outOfFuel := rfl
@[simp] theorem Fail.keep_unsupported (e : List Err) : Fail.unsupported.keep e = .unsupported := rfl
@[simp] theorem Fail.keep_raised (e : List Err) (k : ErrKind) (l : Option (List Nat)) (i : List Err) : (Fail.raised k l i).keep e = .raised k l (e ++ i) := rfl
@[simp] theorem Fail.directive_outOfFuel : Fail.outOfFuel.directive = .outOfFuel := rfl
@[simp] theorem Fail.directive_unsupported : Fail.unsupported.directive = .unsupported := rfl
@[simp] theorem Fail.directive_raised (k : ErrKind) (l : Option (List Nat)) (i : List Err) : (Fail.raised k l i).directive = .raised k l i := rfl
@[simp] theorem Fail.keep_eq_outOfFuel (e : List Err) (f : Fail) : f.keep e = .outOfFuel ↔ f = .outOfFuel := by
  cases f <;> simp [Fail.keep]
@[simp] theorem Fail.keep_eq_unsupported (e : List Err) (f : Fail) : f.keep e = .unsupported ↔ f = .unsupported := by
  cases f <;> simp [Fail.keep]
@[simp] theorem Fail.keep_eq_internal (e : List Err) (f : Fail) (c : String) : f.keep e = .internal c ↔ f = .internal c := by
  cases f <;> simp [Fail.keep]
@[simp] theorem keepErrs_ok {α : Type} (e : List Err) (x : α) : keepErrs e (.ok x : R α) = .ok x := rfl
@[simp] theorem keepErrs_eq_ok {α : Type} (e : List Err) (r : R α) (x : α) : keepErrs e r = .ok x ↔ r = .ok x := by
  cases r with
  | ok y => simp
  | error f => cases f <;> simp [keepErrs]
theorem keepErrs_error {α : Type} (e : List Err) (r : R α) (f : Fail) (h : keepErrs e r = .error f) :
    (r = .error f ∧ ∀ k l i, f ≠ .raised k l i) ∨ ∃ k l i, r = .error (.raised k l i) ∧ f = .raised k l (e ++ i) := by
  cases r with
  | ok y => simp at h
  | error g =>
    cases g with
    | raised k l i => simp [keepErrs] at h; exact Or.inr ⟨k, l, i, rfl, h.symm⟩
    | internal c => simp [keepErrs] at h; subst h; exact Or.inl ⟨rfl, by intros; simp⟩
    | outOfFuel => simp [keepErrs] at h; subst h; exact Or.inl ⟨rfl, by intros; simp⟩
    | unsupported => simp [keepErrs] at h; subst h; exact Or.inl ⟨rfl, by intros; simp⟩
@[simp] theorem keepErrs_internal {α : Type} (e : List Err) (r : R α) (c : String) : keepErrs e r = .error (.internal c) ↔ r = .error (.internal c) := by
  cases r with
  | ok y => simp
  | error f => cases f <;> simp [keepErrs]
@[simp] theorem keepErrs_outOfFuel {α : Type} (e : List Err) (r : R α) : keepErrs e r = .error .outOfFuel ↔ r = .error .outOfFuel := by
  cases r with
  | ok y => simp
  | error f => cases f <;> simp [keepErrs]
@[simp] theorem keepErrs_unsupported {α : Type} (e : List Err) (r : R α) : keepErrs e r = .error .unsupported ↔ r = .error .unsupported := by
  cases r with
  | ok y => simp
  | error f => cases f <;> simp [keepErrs]

@[simp] theorem catchField_ok (path : Path) (loc : Nat) (x : Data × List Err) : catchField path loc (.ok x) = .ok x := rfl
@[simp] theorem catchField_raised (path : Path) (loc : Nat) (k : ErrKind) (l : Option (List Nat)) (i : List Err) :
    catchField path loc (.error (.raised k l i)) = .ok (.null, i ++ [{ path := path, locs := l.getD [loc], kind := k }]) := rfl
@[simp] theorem catchField_internal (path : Path) (loc : Nat) (r : R (Data × List Err)) (c : String) :
    catchField path loc r = .error (.internal c) ↔ r = .error (.internal c) := by
  cases r with
  | ok y => simp
  | error f => cases f <;> simp [catchField]
@[simp] theorem catchField_outOfFuel (path : Path) (loc : Nat) (r : R (Data × List Err)) :
    catchField path loc r = .error .outOfFuel ↔ r = .error .outOfFuel := by
  cases r with
  | ok y => simp
  | error f => cases f <;> simp [catchField]
@[simp] theorem catchField_unsupported (path : Path) (loc : Nat) (r : R (Data × List Err)) :
    catchField path loc r = .error .unsupported ↔ r = .error .unsupported := by
  cases r with
  | ok y => simp
  | error f => cases f <;> simp [catchField]
@[simp] theorem catchField_ne_raised (path : Path) (loc : Nat) (r : R (Data × List Err)) (k : ErrKind) (l : Option (List Nat)) (i : List Err) :
    catchField path loc r ≠ .error (.raised k l i) := by
  cases r with
  | ok y => simp
  | error f => cases f <;> simp [catchField]
/-- inversion of a successful `resolve_field` completion: either the value completed, or a `ResolverError` was caught -/
theorem catchField_eq_ok (path : Path) (loc : Nat) (r : R (Data × List Err)) (d : Data) (es : List Err)
    (h : catchField path loc r = .ok (d, es)) :
    r = .ok (d, es) ∨ ∃ k l i, r = .error (.raised k l i) ∧ d = .null ∧ es = i ++ [{ path := path, locs := l.getD [loc], kind := k }] := by
  cases r with
  | ok y => simp at h; exact Or.inl (by rw [h])
  | error f =>
    cases f with
    | raised k l i => simp at h; exact Or.inr ⟨k, l, i, rfl, h.1.symm, h.2.symm⟩
    | internal c => simp [catchField] at h
    | outOfFuel => simp [catchField] at h
    | unsupported => simp [catchField] at h

theorem Fail.directive_internal (c : String) :
    (Fail.internal c).directive = if c = "CoercionError" then .raised .directive (some []) [] else .internal c := by
  simp [Fail.directive]
@[simp] theorem catchDirective_ok {α : Type} (x : α) : catchDirective (.ok x : R α) = .ok x := rfl
@[simp] theorem catchDirective_eq_ok {α : Type} (r : R α) (x : α) : catchDirective r = .ok x ↔ r = .ok x := by
  cases r <;> simp
@[simp] theorem Fail.directive_eq_outOfFuel (f : Fail) : f.directive = .outOfFuel ↔ f = .outOfFuel := by
  cases f with
  | internal c => rw [Fail.directive_internal]; split <;> simp
  | _ => simp
@[simp] theorem Fail.directive_eq_unsupported (f : Fail) : f.directive = .unsupported ↔ f = .unsupported := by
  cases f with
  | internal c => rw [Fail.directive_internal]; split <;> simp
  | _ => simp
/-- the conversion removes exactly the `CoercionError`: every other internal error passes through unchanged -/
theorem Fail.directive_eq_internal (f : Fail) (c : String) : f.directive = .internal c ↔ f = .internal c ∧ c ≠ "CoercionError" := by
  cases f with
  | internal c' =>
    rw [Fail.directive_internal]
    by_cases hc : c' = "CoercionError"
    · subst hc; simp; intro h; exact h.symm
    · simp [hc]; intro h; subst h; exact hc
  | _ => simp
@[simp] theorem catchDirective_outOfFuel {α : Type} (r : R α) : catchDirective r = .error .outOfFuel ↔ r = .error .outOfFuel := by
  cases r <;> simp
@[simp] theorem catchDirective_unsupported {α : Type} (r : R α) : catchDirective r = .error .unsupported ↔ r = .error .unsupported := by
  cases r <;> simp
theorem catchDirective_internal {α : Type} (r : R α) (c : String) :
    catchDirective r = .error (.internal c) ↔ r = .error (.internal c) ∧ c ≠ "CoercionError" := by
  cases r <;> simp [Fail.directive_eq_internal]

/-! ### schema queries -/

def builtinScalars : List String := ["Int", "Float", "String", "Boolean", "ID"]

/-- kind of a named type as `schema.get_type` sees it (`none` = `UnknownType`) -/
def kindOf (s : SchemaD) (n : String) : Option Kind :=
  match s.findType n with
  | some t => some t.kind
  | none => if builtinScalars.contains n then some .scalar else none

def isAbstract (s : SchemaD) (n : String) : Bool :=
  match kindOf s n with
  | some .interface => true
  | some .union => true
  | _ => false

/-- `Schema.get_possible_types` (registry order for interfaces, member order for unions) -/
def possibleTypes (s : SchemaD) (n : String) : List String :=
  match s.findType n with
  | some t =>
    match t.kind with
    | .union => t.members
    | .interface => (s.types.filter fun o => o.kind == .object && o.interfaces.contains n).map (·.name)
    | _ => []
  | none => []

/-- `Schema.is_possible_type` for an object type name -/
def isPossibleType (s : SchemaD) (abstract obj : String) : Bool :=
  kindOf s obj == some .object && (possibleTypes s abstract).contains obj

/-- `parent_type.field_map.get(name)` -/
def fieldOf (s : SchemaD) (parent name : String) : Option FieldD :=
  match s.findType parent with
  | some t => t.fields.find? (·.name == name)
  | none => none

def rootType (s : SchemaD) (kind : String) : Option String :=
  if kind == "query" then s.query else if kind == "mutation" then s.mutation
  else if kind == "subscription" then s.subscription else none

end PyGql.Exec

/-
  MODEL of the entry points on a `bytes` source: `Lexer.__init__` decodes it (`ensure_unicode`, strict UTF-8); a source that
  is not valid UTF-8 is rejected with `InvalidCharacter` at the character offset of the first undecodable sequence (fix
  C01-B8); otherwise everything proceeds on the decoded text.
-/
import PyGqlModel.ParseText
import PyGqlModel.Utf8
namespace PyGql.Parse
open PyGql PyGql.Ast

/-- `Lexer(source: bytes)` … then an entry point on the text -/
def onBytes {α} (p : Text → Except TextErr α) (bs : List Nat) : Except TextErr α :=
  match Utf8.decode bs with
  | .ok t => p t
  | .error pos => .error (.lex ⟨.invalidCharacter, pos⟩)

/-- `parse(source: bytes, **flags)`, `parse_value(bytes)`, `parse_type(bytes)` -/
def parseBytesE (fl : Flags) : List Nat → Except TextErr Document := onBytes (parseTextE fl)
def parseValueBytesE (fl : Flags) : List Nat → Except TextErr Value := onBytes (parseValueTextE fl)
def parseTypeBytesE (fl : Flags) : List Nat → Except TextErr TypeRef := onBytes (parseTypeTextE fl)

end PyGql.Parse

/-
  C11 — `build_schema(doc, additional_types=[…])`: what the builder does with the SUPPLIED types, refined.

  `Sdl.build` already threads `additional` through the builder (`Env.findAdditional` = the pre-loaded `_cache`
  entries), but four things the code does were outside it (found by the named probes of harness/corr/C11_additional.py):

  1. `{t.name: t for t in additional_types}`: of two supplied types with one name the LAST wins (`normAdditional`);
  2. the closure of `_build_type_map` is TRANSITIVE: a supplied type that only another supplied type refers to is
     registered too (`referencedAdditionalA`, `reachNames`);
  3. a supplied type that takes the name of a specified type (`Int`, `__Type`, …) overrides the cache entry, and the
     schema constructor refuses it (`Duplicate type`, SchemaError) as soon as something refers to it (`shadowsSpecified`);
  4. `extend` blocks whose target is a supplied enum / input object: the default literals of the document are coerced
     against the EXTENDED supplied type (`_default_value` retries in the extended type, `_extended_default_value`
     completes in it) — `Env.extendedA` extends the live view as `Env.extended` extends the definitions.

  `buildA` is `Sdl.build` with these four; `buildA doc ie [] = build doc ie []` (`Props/C11_additional.lean: buildA_nil`),
  so every theorem about `build doc` is a theorem about `buildA doc false []`.  The driver answers `build` requests with
  `buildA`.  Import-free.
-/
import PyGqlModel.Sdl

namespace PyGql.Sdl
open PyGql

/-- `{t.name: t for t in additional_types}`: the last type of a name wins -/
def normAdditional : List TypeD → List TypeD
  | [] => []
  | t :: ts => if ts.any (·.name == t.name) then normAdditional ts else t :: normAdditional ts

/-- the names a live type refers to (what `_register_types` follows) -/
def typeRefs (t : TypeD) : List String :=
  t.interfaces ++ t.members ++ t.fields.flatMap (fun f => f.type.base :: f.args.map (·.type.base)) ++ t.inputFields.map (·.type.base)

/-- `k` rounds of: add what the supplied types named so far refer to -/
def reachNames (additional : List TypeD) : Nat → List String → List String
  | 0, names => names
  | k+1, names => reachNames additional k (names ++ (additional.filter (fun a => names.contains a.name)).flatMap typeRefs)

/-- the names the registry closure starts from: every reference of the listed types, directive arguments, roots -/
def rootNames (types : List TypeD) (dirs : List DirectiveD) (roots : Roots) : List String :=
  types.flatMap typeRefs ++ dirs.flatMap (fun d => d.args.map (·.type.base)) ++ [roots.query, roots.mutation, roots.subscription].filterMap id

/-- every name the closure of `_build_type_map` reaches (a chain through supplied types is shorter than their number) -/
def closureNames (additional : List TypeD) (types : List TypeD) (dirs : List DirectiveD) (roots : Roots) : List String :=
  reachNames additional additional.length (rootNames types dirs roots)

/-- supplied types that are not in the list but are reached by the closure, directly or through other supplied types -/
def referencedAdditionalA (additional : List TypeD) (types : List TypeD) (dirs : List DirectiveD) (roots : Roots) : List TypeD :=
  let names := closureNames additional types dirs roots
  additional.filter fun a => !types.any (·.name == a.name) && names.contains a.name

/-- a supplied type named like a specified type is reached: `Schema(…)` raises `Duplicate type` -/
def shadowsSpecified (additional : List TypeD) (types : List TypeD) (dirs : List DirectiveD) (roots : Roots) : Bool :=
  let names := closureNames additional types dirs roots
  additional.any fun a => isDefaultName a.name && names.contains a.name

/-- a supplied ENUM with the values its extension blocks add, as the coercion of a literal sees it (values added by SDL
    have their name as value) -/
def extendEnumView (exts : List TypeDef) (t : TypeD) : TypeD :=
  match t.kind with
  | .enum =>
    let added : List EnumValD := (exts.filter (·.name == t.name)).flatMap (fun e => e.values.map fun v => { name := v.name, value := .str v.name, desc := v.desc })
    { t with values := t.values ++ added }
  | _ => t

/-- first stage of the extended view: definitions merged, supplied enums extended, supplied input objects as supplied -/
def Env.extendedEnums (env : Env) (exts : List TypeDef) : Env :=
  { findDef := fun n => (env.findDef n).map (mergeExt exts),
    findAdditional := fun n => (env.findAdditional n).map (extendEnumView exts) }

/-- an input field an `extend input` block adds to a SUPPLIED input type, as the coercion of a literal sees it: its
    default is the value of its literal over the types before extension, else (`_default_value` retries) over the
    extended ones — here the first stage `eX1`: a default that needs a field which ANOTHER `extend input` block adds to a
    supplied input object is outside the model (ASSUMPTIONS of corr/C11.py) -/
def argView (eB eX1 : Env) (a : InputValDef) : ArgD :=
  match a.default with
  | none => { name := a.name, type := a.type, desc := a.desc }
  | some l =>
    match defaultValue eB l a.type with
    | .ok v => { name := a.name, type := a.type, hasDefault := true, default := v, desc := a.desc }
    | .error _ =>
      match defaultValue eX1 l a.type with
      | .ok v => { name := a.name, type := a.type, hasDefault := true, default := v, desc := a.desc }
      | .error _ => { name := a.name, type := a.type, hasDefault := true, default := .null, desc := a.desc }

/-- a supplied type with the members its extension blocks add, as the coercion of a literal sees it (other kinds than
    enum and input object take no part in coercion) -/
def extendLiveView (eB : Env) (exts : List TypeDef) (t : TypeD) : TypeD :=
  match t.kind with
  | .input =>
    let added : List ArgD := (exts.filter (·.name == t.name)).flatMap (fun e => e.inputFields.map (argView eB (eB.extendedEnums exts)))
    { t with inputFields := t.inputFields ++ added }
  | _ => extendEnumView exts t

/-- by-name view of the extended types, supplied types included -/
def Env.extendedA (env : Env) (exts : List TypeDef) : Env :=
  { findDef := fun n => (env.findDef n).map (mergeExt exts),
    findAdditional := fun n => (env.findAdditional n).map (extendLiveView env exts) }

/-- `buildCollected` with the transitive closure and the `Duplicate type` check of the schema constructor -/
def buildCollectedA (c : Collected) (additional : List TypeD) : R (Env × Live) := do
  let env : Env := Env.of c.types additional
  failIf (hasThunkCycle env c.types) (.internal "RecursionError")
  let dirs ← c.directives.mapM (buildDirective env)
  let built ← c.types.mapM (buildType env)
  let types := built.filterMap id
  failIf (hasEagerCycle types) (.lib .sdl)
  let roots ← buildRoots env c.schemaDef types
  failIf (dirs.any (fun d => specifiedDirectives.contains d.name)) (.lib .schema)
  failIf (shadowsSpecified additional types dirs roots) (.lib .schema)
  let extra := referencedAdditionalA additional types dirs roots
  pure (env, { types := types ++ extra, directives := dirs, roots := roots })

/-- `extendSchema` with the extended view of the supplied types and the transitive closure -/
def extendSchemaA (env : Env) (live : Live) (doc : Doc) (additional : List TypeD) : R Live := do
  let texts := typeExtensions live doc
  let sexts := schemaExtensions doc
  if texts.isEmpty && sexts.isEmpty then pure live
  else do
    failIf (texts.any (fun e => isDefaultName e.name && e.kind != builtinKind e.name)) (.lib .ext)
    let envX := env.extendedA texts
    let checked ← live.types.mapM (fun t => extendTypeX env envX (hideFor t.kind t.name) texts t)
    let types ← checked.mapM (fun t => reDefault env envX (hideFor t.kind t.name) texts t)
    let dirs ← live.directives.mapM (reDefaultDirective env envX doc)
    failIf (hasEagerCycle types) (.lib .sdl)
    let roots ← sexts.foldlM (fun r se => addOps (fun n => isDefaultName n || types.any (·.name == n)) (.lib .ext) r se.ops) live.roots
    failIf (shadowsSpecified additional types dirs roots) (.lib .schema)
    pure { live with types := types ++ referencedAdditionalA additional types dirs roots, directives := dirs, roots := roots }

/-- `build_schema(doc, ignore_extensions=…, additional_types=…)` without the final `validate()` -/
def buildA (doc : Doc) (ignoreExtensions : Bool := false) (additional : List TypeD := []) : R SchemaD := do
  let add := normAdditional additional
  let c ← collectDefinitions doc
  let (env, live) ← buildCollectedA c add
  if ignoreExtensions then pure (toSchemaD live)
  else do
    let live' ← extendSchemaA env live doc add
    pure (toSchemaD live')

end PyGql.Sdl

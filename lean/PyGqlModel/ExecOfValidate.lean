/-
  C05 - the translation `eDoc` of the validator's documents (`Validate.Doc`) to the executor's (`Exec.Doc`), on which the
  bridge theorems of `Props/C05_bridge.lean` are stated. Model file (core Lean only): the driver evaluates it on the
  validator-side JSON of every accepted document and compares it with the executor-side document it executes
  (`Driver/ExecOps.lean`, op `edoc`). The names stay in `PyGql.Props.C05` (they were defined in `Props/C05_bridge.lean`).
-/
import PyGqlModel.Validate.Ast
import PyGqlModel.ExecArgs

namespace PyGql.Props.C05
open PyGql

/-! ### translation of the validator's documents to the executor's -/

/-- the `if` argument as `coerce_argument_values` sees it (dict comprehension: the LAST one wins) -/
def condOf (args : List Validate.Arg) : Exec.Cond :=
  match (args.filter (·.name == "if")).getLast? with
  | some a =>
    match a.value with
    | .bool b => .lit b
    | .var v => .var v
    | _ => .bad
  | none => .bad

def eDir (d : Validate.Dir) : Exec.Dir := { name := d.name, cond := condOf d.args }

mutual
/-- literal of the validator's AST → literal of C07's coercion model -/
def litOf : Validate.Value → Coerce.Lit
  | .var n => .var n
  | .int t => .int (t.toInt?.getD 0)
  | .float t => .float t
  | .str t => .str t
  | .bool b => .bool b
  | .null => .null
  | .enum n => .enum n
  | .list vs => .list (litsOf vs)
  | .obj fs => .obj (fieldsOf fs)
def litsOf : List Validate.Value → List Coerce.Lit
  | [] => []
  | v :: vs => litOf v :: litsOf vs
def fieldsOf : List Validate.ObjField → List (String × Coerce.Lit)
  | [] => []
  | .mk n v :: fs => (n, litOf v) :: fieldsOf fs
end

/-- the argument nodes of a field, as `coerce_argument_values` reads them -/
def eArgs (args : List Validate.Arg) : List (String × Coerce.Lit) := args.map fun a => (a.name, litOf a.value)

mutual
/-- a field node carries the MODEL-COMPUTED table "object type defining the field ↦ coerced keyword arguments"
    (`Exec.argsTable`: C07's `coerceArgumentValues` under the environment `env`; `none` = `CoercionError`, a field error);
    the sub-selection of a node without selection set is empty (`hasSub = false`: the parser never produces one) -/
def eSel (s : SchemaD) (env : Exec.ArgEnv) : Validate.Sel → Exec.Sel
  | .field alias name args dirs hs ssid sub =>
    .field (alias.getD name) name ssid (dirs.map eDir) (Exec.argsTable s env name (eArgs args)) hs (if hs then eSels s env sub else [])
  | .spread name dirs => .spread name (dirs.map eDir)
  | .inline on dirs _ sub => .inline on (dirs.map eDir) (eSels s env sub)
def eSels (s : SchemaD) (env : Exec.ArgEnv) : List Validate.Sel → List Exec.Sel
  | [] => []
  | x :: xs => eSel s env x :: eSels s env xs
end

def eOp (s : SchemaD) (env : Exec.ArgEnv) : Validate.Def → Option Exec.Op
  | .op kind name _ _ _ sels => some { kind := kind, name := name, sels := eSels s env sels }
  | _ => none
def eFrag (s : SchemaD) (env : Exec.ArgEnv) : Validate.Def → Option Exec.Frag
  | .frag name on _ _ sels => some { name := name, on := on, sels := eSels s env sels }
  | _ => none

/-- the executor's document: fields WITH their argument tables -/
def eDoc (s : SchemaD) (env : Exec.ArgEnv) (d : Validate.Doc) : Exec.Doc :=
  { ops := d.defs.filterMap (eOp s env), frags := d.defs.filterMap (eFrag s env) }

end PyGql.Props.C05

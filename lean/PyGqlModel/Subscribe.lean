/-
  C17 — model of `py_gql.execution.subscribe`.

  Mirrors:
    src/py_gql/execution/subscribe.py        subscribe, create_source_event_stream,
                                             _on_stream_created, execute_subscription_event
    src/py_gql/execution/runtime/asyncio.py  AsyncMap.__anext__ / AsyncIORuntime.map_stream
    src/py_gql/execution/wrappers.py         ResolutionContext.add_error / errors / clear_errors
    src/py_gql/execution/executor.py         resolve_field / complete_value / execute_fields
                                             (data and error bookkeeping only; hooks are C16)

  The executor is SHARED by all events of a subscription: its error list is explicit state
  threaded through the events, `clear_errors` is an explicit step (switch `clear` lets the
  theorems show what breaks without it).  An event is abstract: the outcome tree of the root
  selection executed with that event as root value (which fields raise ResolverError, leaf
  values, nulls, objects, lists).  Errors carry a ghost tag: the index of the event that was
  being processed when they were raised.

  Core Lean only (linked into the driver).
-/
import PyGqlModel.Instr

namespace PyGql.Subscribe
open PyGql.Instr (Seg Path)

/-- response data -/
inductive Val where
  | null
  | int (n : Int)
  | obj (fs : List (String × Val))
  | list (xs : List Val)
  deriving Repr, Inhabited

mutual
inductive EComp where
  | leaf (v : Int)
  | null
  | obj (fs : List ENode)
  | list (items : List EComp)
/-- one selected field under this event: response key, does its resolver raise, completion -/
inductive ENode where
  | mk (key : String) (raises : Bool) (c : EComp)
end

instance : Inhabited EComp := ⟨.null⟩
instance : Inhabited ENode := ⟨.mk "" false .null⟩

def ENode.key : ENode → String
  | .mk k _ _ => k

/-- an event = what the root selection does with it as root value -/
abbrev Event := List ENode

/-- a registered error: (ghost) index of the event being processed, response path -/
structure Err where
  event : Nat
  path : Path
  deriving DecidableEq, Repr

mutual
/-- `resolve_field`: `fail` → `add_error`, null; otherwise `complete_value` -/
def resolveField (k : Nat) (path : Path) : ENode → List Err → Val × List Err
  | .mk key raises c, errs =>
    if raises then (.null, errs ++ [⟨k, path ++ [.key key]⟩])            -- self._errors.append(err)
    else completeValue k (path ++ [.key key]) c errs
def completeValue (k : Nat) (p : Path) : EComp → List Err → Val × List Err
  | .leaf v, errs => (.int v, errs)
  | .null, errs => (.null, errs)
  | .obj fs, errs => let r := executeFields k p fs errs; (.obj r.1, r.2)
  | .list items, errs => let r := completeItems k p 0 items errs; (.list r.1, r.2)
def executeFields (k : Nat) (p : Path) : List ENode → List Err → List (String × Val) × List Err
  | [], errs => ([], errs)
  | n :: ns, errs =>
    let a := resolveField k p n errs
    let b := executeFields k p ns a.2
    ((n.key, a.1) :: b.1, b.2)
def completeItems (k : Nat) (p : Path) (i : Nat) : List EComp → List Err → List Val × List Err
  | [], errs => ([], errs)
  | c :: cs, errs =>
    let a := completeValue k (p ++ [.idx i]) c errs
    let b := completeItems k p (i + 1) cs a.2
    (a.1 :: b.1, b.2)
end

/-- `GraphQLResult(data=data, errors=executor.errors)` (`errors` is a copy) -/
structure Result where
  data : Val
  errors : List Err
  deriving Repr

/-- the shared executor's mutable part -/
structure ExecState where
  errors : List Err

/-- `execute_subscription_event(executor, root_type, operation, event)`;
    `clear = true` is the code (`executor.clear_errors()` first) -/
def executeSubscriptionEvent (clear : Bool) (st : ExecState) (k : Nat) (ev : Event) : ExecState × Result :=
  let st1 : ExecState := if clear then ⟨[]⟩ else st                       -- self._errors[:] = []
  let r := executeFields k [] ev st1.errors
  (⟨r.2⟩, ⟨.obj r.1, r.2⟩)

/-- the response stream `AsyncMap(source_stream, _on_event)` -/
structure Stream where
  source : List Event
  st : ExecState
  /-- index of the next event -/
  k : Nat
  /-- number of `__anext__` calls made on the source -/
  pulls : Nat

/-- `AsyncMap.__anext__`: pull ONE event from the source, map it, hand out the result.
    `none` = `StopAsyncIteration` from the source propagates. -/
def Stream.next (clear : Bool) (s : Stream) : Option Result × Stream :=
  match s.source with
  | [] => (none, { s with pulls := s.pulls + 1 })
  | e :: es =>
    let r := executeSubscriptionEvent clear s.st s.k e
    (some r.2, { source := es, st := r.1, k := s.k + 1, pulls := s.pulls + 1 })

/-- `async for r in stream` : call `next` until it stops (fuel = a bound on the calls) -/
def Stream.collect (clear : Bool) : Nat → Stream → List Result × Stream
  | 0, s => ([], s)
  | fuel + 1, s =>
    match s.next clear with
    | (none, s') => ([], s')
    | (some r, s') => let c := Stream.collect clear fuel s'; (r :: c.1, c.2)

/-- the same as a plain recursion over the source (see `collect_eq_responses`) -/
def responses (clear : Bool) : ExecState → Nat → List Event → List Result
  | _, _, [] => []
  | st, k, e :: es =>
    let r := executeSubscriptionEvent clear st k e
    r.2 :: responses clear r.1 (k + 1) es

inductive OpKind where
  | query | mutation | subscription
  deriving DecidableEq, Repr

/-- a selection at the root of the operation, as `collect_fields` sees it -/
inductive RSel where
  /-- a field with its response key; `none` = dropped by `@skip` / `@include` -/
  | field (key : Option String)
  /-- a fragment spread or inline fragment whose type condition applies (its selections) -/
  | spread (sels : List RSel)

instance : Inhabited RSel := ⟨.field none⟩

mutual
/-- `collect_fields`: response keys in first-occurrence order; same key = same entry (merged) -/
def collectSel : RSel → List String → List String
  | .field none, acc => acc
  | .field (some k), acc => if k ∈ acc then acc else acc ++ [k]
  | .spread ss, acc => collectSels ss acc
def collectSels : List RSel → List String → List String
  | [], acc => acc
  | s :: ss, acc => collectSels ss (collectSel s acc)
end

structure SubRequest where
  /-- `get_operation_with_type` succeeds -/
  opselOk : Bool
  /-- `coerce_variable_values` succeeds -/
  varsOk : Bool
  operation : OpKind
  /-- the root selection set as written (fields, fragment spreads, inline fragments) -/
  root : List RSel
  /-- `executor.field_definition(root_type, name)` of the collected field is not None -/
  fieldDefined : Bool
  /-- `field_def.subscription_resolver` is not None -/
  hasSubResolver : Bool
  /-- `isinstance(runtime, SubscriptionRuntime)` -/
  streamRuntime : Bool
  /-- the `@skip` / `@include` conditions of the root selection can be evaluated (`collect_fields` does not fail) -/
  rootCollectOk : Bool
  /-- the arguments of the subscription field can be coerced (`argument_values` does not fail) -/
  argsOk : Bool
  events : List Event

inductive SubOutcome where
  /-- exception class raised by `subscribe(...)`, was the subscription resolver called, source pulls -/
  | refused (exc : String) (subResolverCalled : Bool) (pulls : Nat)
  | stream (results : List Result) (pulls : Nat)

/-- `subscribe` + `create_source_event_stream`, then the consumer drains the stream -/
def subscribe (r : SubRequest) : SubOutcome :=
  if !r.opselOk then .refused "InvalidOperationError" false 0               -- get_operation (no / ambiguous / unknown operation)
  else if r.operation ≠ .subscription then .refused "RuntimeError" false 0  -- "`subscribe` does not support %s operation"
  else if !r.streamRuntime then .refused "RuntimeError" false 0             -- "Runtime of type … doesn't support subscriptions."
  else if !r.varsOk then .refused "VariablesCoercionError" false 0          -- coerce_variable_values (of a subscription)
  -- create_source_event_stream: fields = executor.collect_fields(root_type, selections)
  else if !r.rootCollectOk then .refused "ExecutionError" false 0           -- except ResolverError: raise ExecutionError
  else if (collectSels r.root []).length ≠ 1 then .refused "ExecutionError" false 0   -- "… must specify only one field."
  else if !r.fieldDefined then .refused "RuntimeError" false 0              -- "No field definition found …"
  else if !r.hasSubResolver then .refused "RuntimeError" false 0            -- "… should provide a subscription resolver."
  else if !r.argsOk then .refused "ExecutionError" false 0                  -- except CoercionError: raise ExecutionError
  else
    let c := Stream.collect true (r.events.length + 1) ⟨r.events, ⟨[]⟩, 0, 0⟩
    .stream c.1 c.2.pulls

end PyGql.Subscribe

/-
  MODEL of `py_gql.lang.lexer.Lexer` (with fixes C01-L1-L2-L4, C01-L3 and C02-U1: a high surrogate `\\uXXXX` escape
  directly followed by a low surrogate `\\uXXXX` escape is one astral character).

  The lexer only ever reads forward, so its state `(self._source, self._position)` is modelled
  by the total length `n` and the unread suffix `s`: `self._position = n - s.length` (`posAt n s`),
  `self._source[self._position]` is the head of `s` and an `IndexError` is `s = []`.
  Every `_read_*` keeps its name; each returns the token and the unread suffix.
  Error positions are the ones the code computes (they are only used for the range theorem).
-/
import PyGqlModel.Token
import PyGqlModel.BlockString
import PyGqlModel.Generated.LexTables

namespace PyGql.Lex
open PyGql.Generated.LexTables

/-- subclasses of `GraphQLSyntaxError` raised by the lexer; `fuel` is not a Python exception
    (`lex_fuel_sufficient` shows it never occurs) -/
inductive ErrKind where
  | unexpectedEOF | unexpectedCharacter | invalidCharacter | nonTerminatedString | invalidEscapeSequence
  | fuel
  deriving DecidableEq, Repr, Inhabited

structure SynErr where
  kind : ErrKind
  pos : Nat
  deriving DecidableEq, Repr, Inhabited

abbrev R (α : Type) := Except SynErr α

/-- `self._position` when the unread suffix is `s` -/
@[reducible] def posAt (n : Nat) (s : Text) : Nat := n - s.length

/-! ### character classes (tables are re-extracted from the source) -/

def isIgnored (c : Nat) : Bool := ignoredChars.contains c
def isDigit (c : Nat) : Bool := digits.contains c
def isHex (c : Nat) : Bool := hexdigits.contains c
def isLetter (c : Nat) : Bool := asciiLetters.contains c
/-- `char >= " " or char == "\t"` -/
def isPrintable (c : Nat) : Bool := 32 ≤ c || c == 9
/-- comment body: `(char >= " " or char == "\t") and char not in "\n\r"` -/
def isCommentChar (c : Nat) : Bool := isPrintable c && !(c == 10 || c == 13)
/-- `char == "_" or char in ascii_letters` -/
def isNameStart (c : Nat) : Bool := c == 95 || isLetter c
/-- `char == "_" or char in ascii_letters or char in digits` -/
def isNameChar (c : Nat) : Bool := c == 95 || isLetter c || isDigit c

def symbolKind (c : Nat) : Option TokKind := (symbols.lookup c).bind TokKind.ofPyName
def quoted (c : Nat) : Option Nat := quotedChars.lookup c

/-- `"""` -/
def tq : Text := [34, 34, 34]

/-! ### `_read_over_whitespace` -/

/-- `inComment = true` is the inner `while` loop after a `#`. When the comment loop stops at a
    character, the outer loop examines the same character: the three tests below. -/
def readOverWhitespace (inComment : Bool) : Text → Text
  | [] => []
  | c :: t =>
    if inComment && isCommentChar c then readOverWhitespace true t
    else if isIgnored c then readOverWhitespace false t
    else if c = 35 then readOverWhitespace true t
    else c :: t

/-! ### `_read_ellipsis` -/

def readDots (n : Nat) : Nat → Text → R Text
  | 0, s => .ok s
  | _ + 1, [] => .error ⟨.unexpectedEOF, n⟩
  | k + 1, c :: t => if c = 46 then readDots n k t else .error ⟨.unexpectedCharacter, posAt n t⟩

def readEllipsis (n : Nat) (s : Text) : R (Tok × Text) :=
  match readDots n 3 s with
  | .error e => .error e
  | .ok rest => .ok (⟨.ellip, posAt n s, posAt n rest, [46, 46, 46]⟩, rest)

/-! ### `_read_string`, `_read_escape_sequence`, `_read_escaped_unicode` -/

def hexVal (c : Nat) : Option Nat :=
  if 48 ≤ c ∧ c ≤ 57 then some (c - 48)
  else if 97 ≤ c ∧ c ≤ 102 then some (c - 87)
  else if 65 ≤ c ∧ c ≤ 70 then some (c - 55)
  else none

/-- `chr(int(escape, 16))` for four characters of `hexdigits`; `none` = some character is not a hex digit
    (the loop `break`s there, then `len(escape) != 4 or escape[-1] not in hexdigits`) -/
def hex4 (a b c d : Nat) : Option Nat :=
  if isHex a && isHex b && isHex c && isHex d then
    match hexVal a, hexVal b, hexVal c, hexVal d with
    | some x, some y, some z, some w => some (((x * 16 + y) * 16 + z) * 16 + w)
    | _, _, _, _ => none
  else none

def isHighSurrogate (c : Nat) : Bool := 0xD800 ≤ c && c ≤ 0xDBFF
def isLowSurrogate (c : Nat) : Bool := 0xDC00 ≤ c && c ≤ 0xDFFF

/-- `_read_escaped_unicode` after a HIGH surrogate `hi`: if the source continues with a `\uXXXX` LOW surrogate
    escape, the two code units denote one astral character (fix C02-U1) -/
def pairEscape (hi e1 e2 a b c d : Nat) : Option Nat :=
  if isHighSurrogate hi && e1 == 92 && e2 == 117 then
    match hex4 a b c d with
    | some lo => if isLowSurrogate lo then some (0x10000 + (hi - 0xD800) * 0x400 + (lo - 0xDC00)) else none
    | none => none
  else none

/-- `follow = self._source[self._position : self._position + 6]` after a high surrogate escape `hi`: the astral
    character if `follow` is a `\uXXXX` low surrogate escape -/
def pairAt (hi : Nat) : Text → Option Nat
  | e1 :: e2 :: a :: b :: c :: d :: _ => pairEscape hi e1 e2 a b c d
  | _ => none

/-- `_read_escaped_unicode` on fewer than four remaining characters: the loop runs into the end
    of the source (`NonTerminatedString` at `position + 1` = `n + 1`) unless it meets a non-hex character first -/
def shortUnicodeErr (n : Nat) (afterU : Text) : SynErr :=
  if afterU.all isHex then ⟨.nonTerminatedString, n + 1⟩ else ⟨.invalidEscapeSequence, posAt n afterU - 1⟩

/-- the `while True` loop of `_read_string` after the opening quote; returns (value, unread suffix) -/
def readStringBody (n : Nat) : Text → R (Text × Text)
  | [] => .error ⟨.nonTerminatedString, n⟩
  | c :: t =>
    if c = 34 then .ok ([], t)
    else if c = 92 then
      -- `_read_escape_sequence`
      match t with
      | [] => .error ⟨.nonTerminatedString, n + 1⟩
      | e :: t1 =>
        match quoted e with
        | some ch =>
          match readStringBody n t1 with
          | .ok (v, r) => .ok (ch :: v, r)
          | .error err => .error err
        | none =>
          if e = 117 then
            -- `_read_escaped_unicode`
            match t1 with
            | a :: b :: c' :: d :: t2 =>
              match hex4 a b c' d with
              | some ch =>
                match pairAt ch t2 with
                | some cp =>
                  -- a surrogate pair of escapes: one character, six more characters consumed
                  match t2 with
                  | _ :: _ :: _ :: _ :: _ :: _ :: t3 =>
                    match readStringBody n t3 with
                    | .ok (v, r) => .ok (cp :: v, r)
                    | .error err => .error err
                  | _ => .error ⟨.invalidEscapeSequence, posAt n t1 - 1⟩   -- unreachable (`pairAt_some_length`)
                | none =>
                  match readStringBody n t2 with
                  | .ok (v, r) => .ok (ch :: v, r)
                  | .error err => .error err
              | none => .error ⟨.invalidEscapeSequence, posAt n t1 - 1⟩
            | _ => .error (shortUnicodeErr n t1)
          else .error ⟨.invalidEscapeSequence, posAt n t1 - 1⟩
    else if c = 10 ∨ c = 13 then .error ⟨.nonTerminatedString, posAt n t - 1⟩
    else if !isPrintable c then .error ⟨.invalidCharacter, posAt n t - 1⟩
    else
      match readStringBody n t with
      | .ok (v, r) => .ok (c :: v, r)
      | .error err => .error err
termination_by structural s => s

/-- `_read_string`; `s` starts with the opening quote -/
def readString (n : Nat) (s : Text) : R (Tok × Text) :=
  match readStringBody n (s.drop 1) with
  | .error e => .error e
  | .ok (v, rest) => .ok (⟨.string, posAt n s, posAt n rest, v⟩, rest)

/-! ### `_read_block_string` -/

/-- the loop of `_read_block_string`; `k > 0` = inside the `"""` of an escaped triple quote
    (`acc.append('"""'); self._position += 3`), whose characters are copied verbatim.
    Returns (raw content, unread suffix). -/
def readBlockBody (n : Nat) : Nat → Text → R (Text × Text)
  | _, [] => .error ⟨.nonTerminatedString, n⟩
  | k + 1, c :: t =>
    match readBlockBody n k t with
    | .ok (v, r) => .ok (c :: v, r)
    | .error e => .error e
  | 0, c :: t =>
    if tq.isPrefixOf (c :: t) then .ok ([], t.drop 2)
    else if c = 92 && tq.isPrefixOf t then readBlockBody n 3 t
    else if !(isPrintable c || c == 10 || c == 13) then .error ⟨.invalidCharacter, posAt n t - 1⟩
    else
      match readBlockBody n 0 t with
      | .ok (v, r) => .ok (c :: v, r)
      | .error e => .error e

/-- `_read_block_string`; `s` starts with `"""` -/
def readBlockString (n : Nat) (s : Text) : R (Tok × Text) :=
  match readBlockBody n 0 (s.drop 3) with
  | .error e => .error e
  | .ok (raw, rest) => .ok (⟨.blockString, posAt n s, posAt n rest, BlockString.parseBlockString raw⟩, rest)

/-! ### `_read_number`, `_read_over_integer`, `_read_over_digits` -/

def readOverDigits (n : Nat) (s : Text) : R Text :=
  match s with
  | [] => .error ⟨.unexpectedEOF, n⟩
  | c :: t => if isDigit c then .ok (t.dropWhile isDigit) else .error ⟨.unexpectedCharacter, posAt n s⟩

def readOverInteger (n : Nat) (s : Text) : R Text :=
  match s with
  | [] => .error ⟨.unexpectedEOF, n⟩
  | c :: t =>
    if c = 48 then
      match t with
      | [] => .ok t
      | d :: _ => if isDigit d then .error ⟨.unexpectedCharacter, posAt n t⟩ else .ok t
    else readOverDigits n s

/-- optional fractional part: `if char == ".": …; self._read_over_digits()` -/
def readFraction (n : Nat) (s : Text) : R (Bool × Text) :=
  match s with
  | c :: t => if c = 46 then (readOverDigits n t).map (fun r => (true, r)) else .ok (false, s)
  | [] => .ok (false, s)

/-- `if char is not None and char in "+-": self._position += 1` -/
def skipSign : Text → Text
  | x :: u => if x = 43 ∨ x = 45 then u else x :: u
  | [] => []

/-- optional exponent part (C01-L3: digits, not an integer part) -/
def readExponent (n : Nat) (s : Text) : R (Bool × Text) :=
  match s with
  | c :: t =>
    if c = 101 ∨ c = 69 then
      (readOverDigits n (skipSign t)).map (fun r => (true, r))
    else .ok (false, s)
  | [] => .ok (false, s)

/-- explicit look-ahead restriction: `next_char == "_" or next_char in ascii_letters` -/
def numberLookahead (n : Nat) (s : Text) : R Unit :=
  match s with
  | c :: _ => if isNameStart c then .error ⟨.unexpectedCharacter, posAt n s⟩ else .ok ()
  | [] => .ok ()

/-- `if char == "-": self._position += 1` -/
def skipMinus : Text → Text
  | c :: t => if c = 45 then t else c :: t
  | [] => []

def readNumber (n : Nat) (s : Text) : R (Tok × Text) := do
  let s2 ← readOverInteger n (skipMinus s)
  let (f1, s3) ← readFraction n s2
  let (f2, s4) ← readExponent n s3
  numberLookahead n s4
  let value := s.take (s.length - s4.length)
  pure (⟨if f1 || f2 then .float else .int, posAt n s, posAt n s4, value⟩, s4)

/-! ### `_read_name` -/

def readName (n : Nat) (s : Text) : Tok × Text :=
  let rest := s.dropWhile isNameChar
  (⟨.name, posAt n s, posAt n rest, s.takeWhile isNameChar⟩, rest)

/-! ### `__next__` and the iteration -/

def sofTok : Tok := ⟨.sof, 0, 0, textOfString "<SOF>"⟩
def eofTok (n : Nat) : Tok := ⟨.eof, n, n, textOfString "<EOF>"⟩

/-- one call of `__next__` after the SOF token; `none` as unread suffix = `self._done` -/
def next (n : Nat) (s0 : Text) : R (Tok × Option Text) :=
  match readOverWhitespace false s0 with
  | [] => .ok (eofTok n, none)
  | c :: t =>
    let s := c :: t
    let some' (r : R (Tok × Text)) : R (Tok × Option Text) := r.map (fun p => (p.1, some p.2))
    if !isPrintable c then .error ⟨.invalidCharacter, posAt n t⟩
    else match symbolKind c with
    | some k => .ok (⟨k, posAt n s, posAt n t, [c]⟩, some t)
    | none =>
      if c = 46 then some' (readEllipsis n s)
      else if tq.isPrefixOf s then some' (readBlockString n s)
      else if c = 34 then some' (readString n s)
      else if c = 45 || isDigit c then some' (readNumber n s)
      else if isNameStart c then some' (.ok (readName n s))
      else .error ⟨.unexpectedCharacter, posAt n s⟩

/-- `list(Lexer(source))` after the SOF token -/
def lexLoop (n : Nat) : Nat → Text → R (List Tok)
  | 0, _ => .error ⟨.fuel, 0⟩
  | fuel + 1, s =>
    match next n s with
    | .error e => .error e
    | .ok (tok, none) => .ok [tok]
    | .ok (tok, some rest) =>
      match lexLoop n fuel rest with
      | .ok toks => .ok (tok :: toks)
      | .error e => .error e

/-- `list(Lexer(source))` -/
def lexAll (s : Text) : R (List Tok) :=
  match lexLoop s.length (s.length + 1) s with
  | .ok toks => .ok (sofTok :: toks)
  | .error e => .error e

end PyGql.Lex

/-
  C19 — MODEL of `_nesting_levels` after proposed_fixes/C19-H3.patch (utilities/max_depth.py).

  The loop keeps ONE list of selections per level (the sub-selections of every field collected at the level, every
  selection node once) instead of one frontier entry per distinct tuple of merged sub-selections:

      levels = 0; level_selections = list(selections)
      while level_selections:
          if budget <= 0: raise ExpansionBudgetExhausted()
          collected = collect_fields_untyped(level_selections, …, _budget=budget)
          if not collected: break
          next_selections = [the selections of every field.selection_set of every group, each node once (by id)]
          levels += 1; budget -= 1; level_selections = next_selections
      return levels

  The `id`-deduplication is not modelled (the model's selections have no identity; a node listed twice is collected into
  the same group twice, which changes no maximum). Import-free.
-/
import PyGqlModel.Depth

namespace PyGql.Depth

/-- `[selection for fields in collected.values() for field in fields if field.selection_set is not None
      for selection in field.selection_set.selections]` -/
def nextSelections (G : Grouped) : List Sel := G.flatMap fun kv => kv.2.flatMap (·.sub)

/-- the loop of `_nesting_levels` (C19-H3), strict `_skip_selection`; arguments: budget, levels so far, level selections -/
def nestingLevelsM (frags : List Frag) (vars : Vars) : Nat → Nat → List Sel → Except Err Nat
  | _, levels, [] => .ok levels                          -- `while level_selections:`
  | 0, _, _ :: _ => .error .recursion                    -- `if budget <= 0: raise ExpansionBudgetExhausted()`
  | b + 1, levels, s :: ss =>
    match collectFieldsUntyped (b + 1) (s :: ss) frags vars [] with
    | .error e => .error e
    | .ok ([], _) => .ok levels                          -- `if not collected: break`
    | .ok (kv :: G, _) => nestingLevelsM frags vars b (levels + 1) (nextSelections (kv :: G))

/-- … with `collect_fields_untyped(..., skip_selection=skipFn)` -/
def nestingLevelsMG (skipFn : Dirs → Vars → Except Err Bool) (frags : List Frag) (vars : Vars) :
    Nat → Nat → List Sel → Except Err Nat
  | _, levels, [] => .ok levels
  | 0, _, _ :: _ => .error .recursion
  | b + 1, levels, s :: ss =>
    match collectFieldsUntypedG skipFn (b + 1) (s :: ss) frags vars [] with
    | .error e => .error e
    | .ok ([], _) => .ok levels
    | .ok (kv :: G, _) => nestingLevelsMG skipFn frags vars b (levels + 1) (nextSelections (kv :: G))

/-- `depth = max(0, _nesting_levels(op.selection_set.selections, fragments, op_variables, budget) - 1)` -/
def depthFixedMG (skipFn : Dirs → Vars → Except Err Bool) (budget : Nat) (op : Op) (frags : List Frag) (vars : Vars) :
    Except Err Nat :=
  match nestingLevelsMG skipFn frags vars budget 0 op.sels with
  | .error e => .error e
  | .ok n => .ok (n - 1)

/-- `except ExpansionBudgetExhausted` / `except RecursionError`: the operation is reported as unbounded -/
def depthFixedMB (budget : Nat) (op : Op) (frags : List Frag) (vars : Vars) : Except Err (Option Nat) :=
  match depthFixedMG skipSelectionT budget op frags vars with
  | .ok d => .ok (some d)
  | .error .recursion => .ok none
  | .error e => .error e

/-- `MaxDepthValidationRule(limit, operation_name=filter)(schema, doc, raw)` after C19-H3.patch -/
def ruleM (limit : Nat) (filter : Option String) (doc : Doc) (defs : List (List VarDefR)) (raw : RawVars) :
    Except Err (List (Nat × Option Nat)) :=
  ruleLoopB (fun i op => depthFixedMB doc.budget op doc.frags (effectiveVarsR (defs.getD i []) raw))
    limit filter 0 doc.ops

end PyGql.Depth

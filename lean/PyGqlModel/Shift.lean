/-
  `mapLoc f`: apply `f` to every position (`loc`) of a tree.  `erase` is `mapLoc (fun _ => none)`; `down d` (every span
  moved `d` characters to the left) is the meaning of "equal modulo offset" in C02's `span_reparse`.
  Import-free (Ast only).  Mechanically derived from `Erase.lean`.
-/
import PyGqlModel.Ast
namespace PyGql.Ast


def Name.mapLoc (f : Loc → Loc) (n : Name) : Name := { n with loc := f n.loc }
def NamedType.mapLoc (f : Loc → Loc) (t : NamedType) : NamedType := { name := (t.name.mapLoc f), loc := f t.loc }

def TypeRef.mapLoc (f : Loc → Loc) : TypeRef → TypeRef
  | .named t => .named (t.mapLoc f)
  | .list t loc => .list (t.mapLoc f) (f loc)
  | .nonNull t loc => .nonNull (t.mapLoc f) (f loc)

def Variable.mapLoc (f : Loc → Loc) (v : Variable) : Variable := { name := (v.name.mapLoc f), loc := f v.loc }
def StringValue.mapLoc (f : Loc → Loc) (s : StringValue) : StringValue := { s with loc := f s.loc }

mutual
def Value.mapLoc (f : Loc → Loc) : Value → Value
  | .var v => .var (v.mapLoc f)
  | .int v loc => .int v (f loc)
  | .float v loc => .float v (f loc)
  | .string s => .string (s.mapLoc f)
  | .boolean b loc => .boolean b (f loc)
  | .null loc => .null (f loc)
  | .enum v loc => .enum v (f loc)
  | .list vs loc => .list (mapLocValues f vs) (f loc)
  | .object fs loc => .object (mapLocFields f fs) (f loc)
def mapLocValues (f : Loc → Loc) : List Value → List Value
  | [] => []
  | v :: vs => (v.mapLoc f) :: mapLocValues f vs
def ObjectField.mapLoc (f : Loc → Loc) : ObjectField → ObjectField
  | .mk name value loc => .mk (name.mapLoc f) (value.mapLoc f) (f loc)
def mapLocFields (f : Loc → Loc) : List ObjectField → List ObjectField
  | [] => []
  | x :: fs => (x.mapLoc f) :: mapLocFields f fs
end

def Argument.mapLoc (f : Loc → Loc) (a : Argument) : Argument := { name := (a.name.mapLoc f), value := (a.value.mapLoc f), loc := f a.loc }
def Directive.mapLoc (f : Loc → Loc) (d : Directive) : Directive :=
  { name := (d.name.mapLoc f), arguments := d.arguments.map (Argument.mapLoc f), loc := f d.loc }
def VariableDefinition.mapLoc (f : Loc → Loc) (d : VariableDefinition) : VariableDefinition :=
  { var := (d.var.mapLoc f), type := (d.type.mapLoc f), defaultValue := d.defaultValue.map (Value.mapLoc f),
    directives := d.directives.map (Directive.mapLoc f), loc := f d.loc }

mutual
def Selection.mapLoc (f : Loc → Loc) : Selection → Selection
  | .field alias_ name args dirs ss loc =>
    .field (alias_.map (Name.mapLoc f)) (name.mapLoc f) (args.map (Argument.mapLoc f)) (dirs.map (Directive.mapLoc f)) (mapLocOptSS f ss) (f loc)
  | .fragmentSpread name dirs loc => .fragmentSpread (name.mapLoc f) (dirs.map (Directive.mapLoc f)) (f loc)
  | .inlineFragment tc dirs ss loc =>
    .inlineFragment (tc.map (NamedType.mapLoc f)) (dirs.map (Directive.mapLoc f)) (ss.mapLoc f) (f loc)
def SelectionSet.mapLoc (f : Loc → Loc) : SelectionSet → SelectionSet
  | .mk sels loc => .mk (mapLocSelections f sels) (f loc)
def mapLocOptSS (f : Loc → Loc) : Option SelectionSet → Option SelectionSet
  | none => none
  | some ss => some (ss.mapLoc f)
def mapLocSelections (f : Loc → Loc) : List Selection → List Selection
  | [] => []
  | s :: ss => (s.mapLoc f) :: mapLocSelections f ss
end

def OperationDefinition.mapLoc (f : Loc → Loc) (d : OperationDefinition) : OperationDefinition :=
  { operation := d.operation, name := d.name.map (Name.mapLoc f),
    variableDefinitions := d.variableDefinitions.map (VariableDefinition.mapLoc f),
    directives := d.directives.map (Directive.mapLoc f), selectionSet := (d.selectionSet.mapLoc f), loc := f d.loc }

def FragmentDefinition.mapLoc (f : Loc → Loc) (d : FragmentDefinition) : FragmentDefinition :=
  { name := (d.name.mapLoc f), variableDefinitions := d.variableDefinitions.map (VariableDefinition.mapLoc f),
    typeCondition := (d.typeCondition.mapLoc f), directives := d.directives.map (Directive.mapLoc f),
    selectionSet := (d.selectionSet.mapLoc f), loc := f d.loc }

def OperationTypeDefinition.mapLoc (f : Loc → Loc) (d : OperationTypeDefinition) : OperationTypeDefinition :=
  { operation := d.operation, type := (d.type.mapLoc f), loc := f d.loc }

def InputValueDefinition.mapLoc (f : Loc → Loc) (d : InputValueDefinition) : InputValueDefinition :=
  { description := d.description.map (StringValue.mapLoc f), name := (d.name.mapLoc f), type := (d.type.mapLoc f),
    defaultValue := d.defaultValue.map (Value.mapLoc f), directives := d.directives.map (Directive.mapLoc f), loc := f d.loc }

def FieldDefinition.mapLoc (f : Loc → Loc) (d : FieldDefinition) : FieldDefinition :=
  { description := d.description.map (StringValue.mapLoc f), name := (d.name.mapLoc f),
    arguments := d.arguments.map (InputValueDefinition.mapLoc f), type := (d.type.mapLoc f),
    directives := d.directives.map (Directive.mapLoc f), loc := f d.loc }

def EnumValueDefinition.mapLoc (f : Loc → Loc) (d : EnumValueDefinition) : EnumValueDefinition :=
  { description := d.description.map (StringValue.mapLoc f), name := (d.name.mapLoc f),
    directives := d.directives.map (Directive.mapLoc f), loc := f d.loc }

private abbrev eD (f : Loc → Loc) := List.map (Directive.mapLoc f)
private abbrev eS (f : Loc → Loc) := Option.map (StringValue.mapLoc f)

def Definition.mapLoc (f : Loc → Loc) : Definition → Definition
  | .operation d => .operation (d.mapLoc f)
  | .fragment d => .fragment (d.mapLoc f)
  | .schemaDefinition ds ops loc => .schemaDefinition (eD f ds) (ops.map (OperationTypeDefinition.mapLoc f)) (f loc)
  | .scalarTypeDefinition desc n ds loc => .scalarTypeDefinition (eS f desc) (n.mapLoc f) (eD f ds) (f loc)
  | .objectTypeDefinition desc n ifs ds fs loc =>
    .objectTypeDefinition (eS f desc) (n.mapLoc f) (ifs.map (NamedType.mapLoc f)) (eD f ds) (fs.map (FieldDefinition.mapLoc f)) (f loc)
  | .interfaceTypeDefinition desc n ds fs loc =>
    .interfaceTypeDefinition (eS f desc) (n.mapLoc f) (eD f ds) (fs.map (FieldDefinition.mapLoc f)) (f loc)
  | .unionTypeDefinition desc n ds us loc => .unionTypeDefinition (eS f desc) (n.mapLoc f) (eD f ds) (us.map (NamedType.mapLoc f)) (f loc)
  | .enumTypeDefinition desc n ds vs loc =>
    .enumTypeDefinition (eS f desc) (n.mapLoc f) (eD f ds) (vs.map (EnumValueDefinition.mapLoc f)) (f loc)
  | .inputObjectTypeDefinition desc n ds fs loc =>
    .inputObjectTypeDefinition (eS f desc) (n.mapLoc f) (eD f ds) (fs.map (InputValueDefinition.mapLoc f)) (f loc)
  | .directiveDefinition desc n args locs loc =>
    .directiveDefinition (eS f desc) (n.mapLoc f) (args.map (InputValueDefinition.mapLoc f)) (locs.map (Name.mapLoc f)) (f loc)
  | .schemaExtension ds ops loc => .schemaExtension (eD f ds) (ops.map (OperationTypeDefinition.mapLoc f)) (f loc)
  | .scalarTypeExtension n ds loc => .scalarTypeExtension (n.mapLoc f) (eD f ds) (f loc)
  | .objectTypeExtension n ifs ds fs loc =>
    .objectTypeExtension (n.mapLoc f) (ifs.map (NamedType.mapLoc f)) (eD f ds) (fs.map (FieldDefinition.mapLoc f)) (f loc)
  | .interfaceTypeExtension n ds fs loc => .interfaceTypeExtension (n.mapLoc f) (eD f ds) (fs.map (FieldDefinition.mapLoc f)) (f loc)
  | .unionTypeExtension n ds us loc => .unionTypeExtension (n.mapLoc f) (eD f ds) (us.map (NamedType.mapLoc f)) (f loc)
  | .enumTypeExtension n ds vs loc => .enumTypeExtension (n.mapLoc f) (eD f ds) (vs.map (EnumValueDefinition.mapLoc f)) (f loc)
  | .inputObjectTypeExtension n ds fs loc =>
    .inputObjectTypeExtension (n.mapLoc f) (eD f ds) (fs.map (InputValueDefinition.mapLoc f)) (f loc)

def Document.mapLoc (f : Loc → Loc) (d : Document) : Document := { definitions := d.definitions.map (Definition.mapLoc f), loc := f d.loc }

/-! ### `loc` of a node, and the list of all nodes of one kind below a node -/

def TypeRef.loc : TypeRef → Loc
  | .named t => t.loc
  | .list _ loc => loc
  | .nonNull _ loc => loc

def Value.loc : Value → Loc
  | .var v => v.loc
  | .int _ loc => loc
  | .float _ loc => loc
  | .string s => s.loc
  | .boolean _ loc => loc
  | .null loc => loc
  | .enum _ loc => loc
  | .list _ loc => loc
  | .object _ loc => loc

def Definition.loc : Definition → Loc
  | .operation d => d.loc
  | .fragment d => d.loc
  | .schemaDefinition _ _ loc => loc
  | .scalarTypeDefinition _ _ _ loc => loc
  | .objectTypeDefinition _ _ _ _ _ loc => loc
  | .interfaceTypeDefinition _ _ _ _ loc => loc
  | .unionTypeDefinition _ _ _ _ loc => loc
  | .enumTypeDefinition _ _ _ _ loc => loc
  | .inputObjectTypeDefinition _ _ _ _ loc => loc
  | .directiveDefinition _ _ _ _ loc => loc
  | .schemaExtension _ _ loc => loc
  | .scalarTypeExtension _ _ loc => loc
  | .objectTypeExtension _ _ _ _ loc => loc
  | .interfaceTypeExtension _ _ _ loc => loc
  | .unionTypeExtension _ _ _ loc => loc
  | .enumTypeExtension _ _ _ loc => loc
  | .inputObjectTypeExtension _ _ _ loc => loc

/-- the type itself and every type nested in it -/
def TypeRef.subs : TypeRef → List TypeRef
  | .named t => [.named t]
  | .list t loc => .list t loc :: t.subs
  | .nonNull t loc => .nonNull t loc :: t.subs

mutual
/-- the value itself and every value nested in it (list items, object field values, at any depth) -/
def Value.subs : Value → List Value
  | .var v => [.var v]
  | .int v loc => [.int v loc]
  | .float v loc => [.float v loc]
  | .string s => [.string s]
  | .boolean b loc => [.boolean b loc]
  | .null loc => [.null loc]
  | .enum v loc => [.enum v loc]
  | .list vs loc => .list vs loc :: subsValues vs
  | .object fs loc => .object fs loc :: subsFields fs
def subsValues : List Value → List Value
  | [] => []
  | v :: vs => v.subs ++ subsValues vs
def ObjectField.subs : ObjectField → List Value
  | .mk _ value _ => value.subs
def subsFields : List ObjectField → List Value
  | [] => []
  | x :: fs => x.subs ++ subsFields fs
end

end PyGql.Ast

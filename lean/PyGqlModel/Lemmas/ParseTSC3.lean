/-
  Layer 4 (completeness): `implements`, union members, directive locations.
-/
import PyGqlModel.Lemmas.ParseTSC2
namespace PyGql.Parse
open PyGql PyGql.Ast PyGql.Spec

theorem sepTail_len {α} (sep : TokKind) (V : α → Item) (xs : List α) :
    xs.length ≤ (Item.yieldAll (xs.flatMap fun y => [Spec.p sep, V y])).length := by
  induction xs with
  | nil => simp
  | cons x xs ih =>
    simp only [List.flatMap_cons, List.cons_append, List.nil_append, Item.yieldAll, Item.yield, List.length_append,
      List.length_cons, List.length_nil]
    omega

theorem sepV_len {α} {fl : Flags} {sep : TokKind} {V : α → Item} (hV : ∀ x, 1 ≤ (V x).yield.length)
    {xs : List α} {l l' : Tok} {ts rest : List Tok}
    (h : Item.checkAll fl (sepV sep V xs) l ts = some (l', rest)) : xs.length ≤ ts.length := by
  have w := checkAll_width fl _ _ _ _ _ h
  cases xs with
  | nil => simp
  | cons x xs =>
    have a := sepTail_len sep V xs
    have b := hV x
    simp only [sepV, Item.yieldAll, Item.yield, List.length_append, List.nil_append] at w
    simp; omega

theorem namedTypeV_first {fl : Flags} {t : NamedType} {l : Tok} {ts : List Tok} {r : Tok × List Tok}
    (h : (namedTypeV t).check fl l ts = some r) : ∃ t0 tl, ts = t0 :: tl ∧ t0.kind = .name := by
  rcases r with ⟨l', rest⟩
  simp only [namedTypeV, check_node, checkAll_cons] at h
  obtain ⟨f, tl, rfl, ⟨_, _, hn, _⟩, _⟩ := h
  obtain ⟨t0, tl', e, hk⟩ := nameV_first hn
  cases e; exact ⟨_, _, rfl, hk⟩

theorem namedTypeV_width (t : NamedType) : 1 ≤ (namedTypeV t).yield.length := by
  simp [namedTypeV, nameV, Item.yield, Item.yieldAll]

theorem namedTypes_complete (fl : Flags) (fuel : Nat) (sep : TokKind) (hs : sep ≠ .name) (xs : List NamedType)
    (l l' : Tok) (ts rest : List Tok) (hne : xs ≠ []) (hf : ts.length ≤ fuel) (hnk : NotK [sep] rest)
    (h : Item.checkAll fl (sepV sep namedTypeV xs) l ts = some (l', rest)) :
    delimitedList fuel sep (parseNamedType fl) ⟨ts, l⟩ = .ok (xs, ⟨rest, l'⟩) := by
  apply delimitedList_complete fl _ sep namedTypeV fuel xs l l' ts rest hne
    (Nat.le_trans (sepV_len namedTypeV_width h) hf)
  · intro y _ l ts l' rest hc
    exact parseNamedType_complete fl y l l' ts rest hc
  · intro y _ l ts r hc
    obtain ⟨t0, tl, rfl, hk⟩ := namedTypeV_first hc
    exact NotK.cons (by simp [hk]; exact fun e => hs e.symm)
  · exact hnk
  · exact h

theorem parseImplementsInterfaces_complete (fl : Flags) (fuel : Nat) (ifs : List NamedType) (l l' : Tok)
    (ts rest : List Tok) (hf : ts.length ≤ fuel) (hempty : ifs = [] → NotImpl rest) (hnk : NotK [.amp] rest)
    (h : Item.checkAll fl (implementsV ifs) l ts = some (l', rest)) :
    parseImplementsInterfaces fl fuel ⟨ts, l⟩ = .ok (ifs, ⟨rest, l'⟩) := by
  cases ifs with
  | nil =>
    simp only [implementsV, List.isEmpty_nil, if_true, checkAll_nil] at h
    cases h
    obtain ⟨t, tl, rfl, hk⟩ := hempty rfl
    simp [parseImplementsInterfaces, bind_eq, peek_cons, hk, pure_eq]
  | cons x xs =>
    simp only [implementsV, List.isEmpty_cons, Bool.false_eq_true, if_false, checkAll_cons, check_tok] at h
    obtain ⟨l1, ts1, ⟨t, rfl, hc, rfl⟩, hall⟩ := h
    obtain ⟨hk, hv⟩ := cls_kw_inv hc
    have hd := namedTypes_complete fl fuel .amp (by decide) (x :: xs) l1 l' ts1 rest (by simp)
      (by simp at hf; omega) hnk (by simpa [checkAll_cons] using hall)
    simp only [delimitedList, ← implementsLoop_eq, bind_eq] at hd
    simp only [parseImplementsInterfaces, bind_eq, peek_cons, hk, hv, and_self, if_true, advance_cons]
    exact hd

theorem parseUnionMemberTypes_complete (fl : Flags) (fuel : Nat) (us : List NamedType) (l l' : Tok)
    (ts rest : List Tok) (hf : ts.length ≤ fuel) (hnk : NotK [.equals, .pipe] rest)
    (h : Item.checkAll fl (unionMembersV us) l ts = some (l', rest)) :
    parseUnionMemberTypes fl fuel ⟨ts, l⟩ = .ok (us, ⟨rest, l'⟩) := by
  cases us with
  | nil =>
    simp only [unionMembersV, List.isEmpty_nil, if_true, checkAll_nil] at h
    cases h
    obtain ⟨t, tl, rfl, hk⟩ := hnk
    have hk' : t.kind ≠ .equals := by simp at hk; exact hk.1
    simp [parseUnionMemberTypes, bind_eq, skip_neg hk', pure_eq]
  | cons x xs =>
    simp only [unionMembersV, List.isEmpty_cons, Bool.false_eq_true, if_false, checkAll_cons, check_tok] at h
    obtain ⟨l1, ts1, ⟨t, rfl, hc, rfl⟩, hall⟩ := h
    have hd := namedTypes_complete fl fuel .pipe (by decide) (x :: xs) l1 l' ts1 rest (by simp)
      (by simp at hf; omega) (hnk.mono (by simp)) (by simpa [checkAll_cons] using hall)
    simp [parseUnionMemberTypes, bind_eq, skip_pos (cls_kind hc), hd]

theorem parseDirectiveLocations_complete (fl : Flags) (fuel : Nat) (ns : List Name) (l l' : Tok)
    (ts rest : List Tok) (hne : ns ≠ []) (w : ∀ n ∈ ns, n.value ∈ Generated.ParserTables.directiveLocations)
    (hf : ts.length ≤ fuel) (hnk : NotK [.pipe] rest)
    (h : Item.checkAll fl (sepV .pipe nameV ns) l ts = some (l', rest)) :
    parseDirectiveLocations fl fuel ⟨ts, l⟩ = .ok (ns, ⟨rest, l'⟩) := by
  have hw : ∀ n : Name, 1 ≤ (nameV n).yield.length := by intro n; simp [nameV, Item.yield, Item.yieldAll]
  apply delimitedList_complete fl _ .pipe nameV fuel ns l l' ts rest hne (Nat.le_trans (sepV_len hw h) hf)
  · intro y hy l ts l' rest hc
    have c := parseName_complete fl y l l' ts rest hc
    obtain ⟨t0, tl, rfl, _⟩ := nameV_first hc
    simp [parseDirectiveLocation, bind_eq, peek_cons, c, w y hy, pure_eq]
  · intro y _ l ts r hc
    obtain ⟨t0, tl, rfl, hk⟩ := nameV_first hc
    exact NotK.cons (by simp [hk])
  · exact hnk
  · exact h

end PyGql.Parse

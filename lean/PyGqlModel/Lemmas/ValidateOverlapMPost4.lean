/-
  THE MEMOISED SEARCH NEVER LOSES A REPORT, part 4: postconditions of `_conflicts_between_fragments` (the pair is covered
  by the memo, and the key it inserts is closed) and the statement for `_conflicts_between_fields_and_fragment` (every
  name it records in `cmp` is COVERED: undefined, or its triple is in the memo).
-/
import PyGqlModel.Lemmas.ValidateOverlapMPost2
namespace PyGql.Validate
open PyGql PyGql.Validate.Spec

theorem mem_keysM_pairs_cons {c : OCtx} {k0 : String × String × Bool} {k : MKey} :
    k ∈ keysM { c with pairs := k0 :: c.pairs } ↔ k = .inl k0 ∨ k ∈ keysM c := by
  simp [keysM]

theorem mem_keysM_ffp_cons {c : OCtx} {k0 : Nat × String × Bool} {k : MKey} :
    k ∈ keysM { c with ffp := k0 :: c.ffp } ↔ k = .inr k0 ∨ k ∈ keysM c := by
  simp only [keysM, List.map_cons, List.mem_append, List.mem_cons]
  constructor
  · rintro (h | h | h)
    · exact Or.inr (Or.inl h)
    · exact Or.inl h
    · exact Or.inr (Or.inr h)
  · rintro (h | h | h)
    · exact Or.inr (Or.inl h)
    · exact Or.inl h
    · exact Or.inr (Or.inr h)

section
variable (s : SchemaD) (fx : Fixes) (d : Doc)

def EFrM (fuel : Nat) : Prop :=
  ∀ me of1 of2 c, CI s d c → (betweenFragmentsM s fx fuel me of1 of2 c).2.crash = none →
    GPM s d c (betweenFragmentsM s fx fuel me of1 of2 c)
      (fun M => ∀ f1 f2, of1 = some f1 → of2 = some f2 → CovM M me f1 f2)

/-- every fragment recorded in the live `compared_fragments` set is undefined or has its triple in the memo -/
def CmpOK (d : Doc) (c : OCtx) (ssid : Nat) (me : Bool) : Prop :=
  ∀ n ∈ c.cmp, AL.get? (fragTable d) n = none ∨ (ssid, n, me) ∈ c.ffp

def EFfM (fuel : Nat) : Prop :=
  ∀ me ssid fm name c, CI s d c → EntOK (fun _ e => Ent s d e) fm →
    (∀ sels p rn e, SelSet d ssid sels → Adm s d ssid p → CollD s p sels rn e → e ∈ AL.getD fm rn []) →
    CmpOK d c ssid me →
    (betweenFieldsAndFragmentM s fx fuel me ssid fm name c).2.crash = none →
    name ∈ (betweenFieldsAndFragmentM s fx fuel me ssid fm name c).2.cmp ∧
    GPM s d c (betweenFieldsAndFragmentM s fx fuel me ssid fm name c)
      (fun M => ∀ CF : List String, (∀ n ∈ (betweenFieldsAndFragmentM s fx fuel me ssid fm name c).2.cmp, n ∈ CF) →
        ∀ n ∈ (betweenFieldsAndFragmentM s fx fuel me ssid fm name c).2.cmp, n ∈ c.cmp ∨ FCov d M me ssid n)

theorem soundM_cb_ci (h7 : fx.v7 = true) (fuel : Nat) (me : Bool) (fm1 fm2 : FMap) (c : OCtx) (hc : CI s d c)
    (h1 : EntOK (fun _ e => Ent s d e) fm1) (h2 : EntOK (fun _ e => Ent s d e) fm2) :
    CI s d (conflictsBetweenM s fx fuel me fm1 fm2 c).2 :=
  ((searchM_sound s fx d h7 fuel).2.1 me fm1 fm2 c hc h1 h2).1

theorem stepM_efr (h7 : fx.v7 = true) (hpa : ParentsAgree s d) (fuel : Nat) (hsfr : SFrM s fx d fuel)
    (hecb : ECbM s fx d fuel) (hefr : EFrM s fx d fuel) : EFrM s fx d (fuel + 1) := by
  intro me of1 of2 c hc
  cases of1 with
  | none =>
    simp only [betweenFragmentsM]
    exact fun h => GPM.skip rfl rfl (fun M _ f1 f2 e => by cases e) h
  | some f1 =>
    cases of2 with
    | none =>
      simp only [betweenFragmentsM]
      exact fun h => GPM.skip rfl rfl (fun M _ f1 f2 _ e => by cases e) h
    | some f2 =>
      simp only [betweenFragmentsM, h7, ↓reduceIte]
      split
      · rename_i hskip
        refine fun h => GPM.skip rfl rfl (fun M _ g1 g2 e1 e2 => ?_) h
        cases e1; cases e2
        simp only [Bool.or_eq_true, beq_iff_eq] at hskip
        rcases hskip with (h | h) | h
        · exact Or.inl h
        · exact Or.inr (Or.inl h)
        · exact Or.inr (Or.inr (Or.inl h))
      · split
        · rename_i hmemo
          have hin : keyOf f1 f2 me ∈ c.pairs := (memo_test c.pairs _ _ me).mp hmemo
          refine fun h => GPM.skip rfl rfl (fun M hM g1 g2 e1 e2 => ?_) h
          cases e1; cases e2
          exact Or.inr (Or.inr (Or.inr (hM _ (mem_keysM_inl.mpr hin))))
        · generalize hk0 : ((sortedPair f1 f2).1, (sortedPair f1 f2).2, me) = k0
          have hk0' : keyOf f1 f2 me = k0 := hk0
          have hc1 : CI s d { c with pairs := k0 :: c.pairs } := hc.pairs _
          have hcov : ∀ M : MemoM, M (.inl k0) → ∀ g1 g2, some f1 = some g1 → some f2 = some g2 →
              CovM M me g1 g2 := by
            intro M hM g1 g2 e1 e2
            cases e1; cases e2
            exact Or.inr (Or.inr (Or.inr (by rw [hk0']; exact hM)))
          cases hg1 : c.frags.get? f1 with
          | none =>
            intro hcr
            refine ⟨hcr, fun k hk => mem_keysM_pairs_cons.mpr (Or.inr hk), fun _ M hM =>
              ⟨fun k hk => ?_, hcov M (hM _ (mem_keysM_pairs_cons.mpr (Or.inl rfl)))⟩⟩
            rcases mem_keysM_pairs_cons.mp hk with rfl | hk
            · refine Or.inr ?_
              show KeyOblM s d M k0
              rw [← hk0']
              exact keyOblM_of_undefined (Or.inl (by rw [← hc.frags]; exact hg1))
            · exact Or.inl hk
          | some v1 =>
            cases hg2 : c.frags.get? f2 with
            | none =>
              intro hcr
              refine ⟨hcr, fun k hk => mem_keysM_pairs_cons.mpr (Or.inr hk), fun _ M hM =>
                ⟨fun k hk => ?_, hcov M (hM _ (mem_keysM_pairs_cons.mpr (Or.inl rfl)))⟩⟩
              rcases mem_keysM_pairs_cons.mp hk with rfl | hk
              · refine Or.inr ?_
                show KeyOblM s d M k0
                rw [← hk0']
                exact keyOblM_of_undefined (Or.inr (by rw [← hc.frags]; exact hg2))
              · exact Or.inl hk
            | some v2 =>
              obtain ⟨on1, id1, sels1⟩ := v1
              obtain ⟨on2, id2, sels2⟩ := v2
              simp only
              obtain ⟨a1, a2, a3, a4, a5⟩ := ff_frag_complete s d hpa hc1 (name := f1) hg1
              have af := ff_frame s ((typeFromAst s (.named on1)).map (·.base)) id1 sels1
                { c with pairs := k0 :: c.pairs }
              have afk := ff_keysM s ((typeFromAst s (.named on1)).map (·.base)) id1 sels1
                { c with pairs := k0 :: c.pairs }
              generalize fieldsAndFragments s ((typeFromAst s (.named on1)).map (·.base)) id1 sels1
                { c with pairs := k0 :: c.pairs } = ra at a1 a2 a3 a4 a5 af afk ⊢
              obtain ⟨⟨fma, fra⟩, ca⟩ := ra
              simp only at a1 a2 a3 a4 a5 af afk ⊢
              have hg2' : ca.frags.get? f2 = some (on2, id2, sels2) := by rw [a1.frags, ← hc.frags]; exact hg2
              obtain ⟨b1, b2, b3, b4, b5⟩ := ff_frag_complete s d hpa a1 (name := f2) hg2'
              have bf := ff_frame s ((typeFromAst s (.named on2)).map (·.base)) id2 sels2 ca
              have bfk := ff_keysM s ((typeFromAst s (.named on2)).map (·.base)) id2 sels2 ca
              generalize fieldsAndFragments s ((typeFromAst s (.named on2)).map (·.base)) id2 sels2 ca = rb
                at b1 b2 b3 b4 b5 bf bfk ⊢
              obtain ⟨⟨fmb, frb⟩, cb⟩ := rb
              simp only at b1 b2 b3 b4 b5 bf bfk ⊢
              intro hcr
              -- the three phases, from the last to the first
              have hP1 : ∀ c, CI s d c → CI s d (sumLoop fra (fun fr c => betweenFragmentsM s fx fuel me (some fr) (some f2) c) c).2 :=
                fun c hc => (sumLoop_spec fra _ (CI s d) (fun _ => True)
                  (fun fr _ c hc => ⟨(hsfr me (some fr) (some f2) c hc).1, fun _ => trivial⟩) c hc).1
              have g2 := sumLoop_gpM frb (fun fr c => betweenFragmentsM s fx fuel me (some f1) (some fr) c) (CI s d)
                (fun fr M => CovM M me f1 fr)
                (fun fr _ c hc => ⟨(hsfr me (some f1) (some fr) c hc).1,
                  fun h => (hefr me (some f1) (some fr) c hc h).imp (fun M _ r => r f1 fr rfl rfl)⟩)
                _ (hP1 _ ((soundM_cb_ci s fx d h7 fuel me fma fmb cb b1 a2 b2))) hcr
              have g1 := sumLoop_gpM fra (fun fr c => betweenFragmentsM s fx fuel me (some fr) (some f2) c) (CI s d)
                (fun fr M => CovM M me fr f2)
                (fun fr _ c hc => ⟨(hsfr me (some fr) (some f2) c hc).1,
                  fun h => (hefr me (some fr) (some f2) c hc h).imp (fun M _ r => r fr f2 rfl rfl)⟩)
                _ (soundM_cb_ci s fx d h7 fuel me fma fmb cb b1 a2 b2) g2.crash
              have g0 := hecb me fma fmb cb b1 a2 b2 g1.crash
              have hpc : keysM cb = keysM { c with pairs := k0 :: c.pairs } := by rw [bfk, afk]
              have hcc : cb.crash = c.crash := by rw [bf.2.2.1, af.2.2.1]
              refine (((g0.seq g1).seq g2).pre hcc (fun k hk => by rw [hpc]; exact mem_keysM_pairs_cons.mpr (Or.inr hk))
                (fun _ M hM r k hk => ?_)).imp (fun M hM _ => hcov M (hM _ ?_))
              · rw [hpc] at hk
                rcases mem_keysM_pairs_cons.mp hk with rfl | hk
                · obtain ⟨⟨r0, r1⟩, r2⟩ := r
                  refine Or.inr ?_
                  show KeyOblM s d M k0
                  rw [← hk0']
                  refine keyOblM_of_oriented ?_ ?_ ?_
                  · intro rn e1 e2 d1 d2
                    exact Or.inl (r0 rn e1 e2 (a3 rn e1 d1) (b3 rn e2 d2))
                  · intro h hh; exact Or.inl (r1 h (a4 h hh))
                  · intro h hh; exact Or.inl (r2 h (b4 h hh))
                · exact Or.inl hk
              · exact ((g0.seq g1).seq g2).mono _ (by rw [hpc]; exact mem_keysM_pairs_cons.mpr (Or.inl rfl))
end
end PyGql.Validate

/-
  C04 — reachability through fragments, and what single runs of the two collectors guarantee about it:
  * `Reach obj sels n`     node `n` is collected from `sels` for object type `obj` when NOTHING is pruned;
  * `NameReach obj sels N` fragment name `N` is met (not skipped by a directive) in that unpruned expansion;
  * model soundness   (`mseq_sound`): everything the model collects is reachable, every name it marks seen is met;
  * spec completeness (`sseq_facts`): after a specification run every reachable node has appeared and every name
    met is visited — given the CLOSURE invariant (every visited fragment that is not still being expanded has all
    its reachable nodes already appeared and all its names visited); ranks exclude the fragments in progress.
-/
import PyGqlModel.Lemmas.C04Seq
import PyGqlModel.Props.C04_total

set_option linter.unusedSimpArgs false
set_option linter.unusedVariables false

namespace PyGql.Props.C04
open PyGql PyGql.Exec PyGql.Spec

section
variable (s : SchemaD) (doc : Doc) (vars : Vars)

inductive Reach (obj : String) : List Sel → FNode → Prop
  | field {sels key name loc dirs args hs sub} : Sel.field key name loc dirs args hs sub ∈ sels →
      skipSelection vars dirs = .ok false → Reach obj sels (mkNode key name loc args hs sub)
  | inline {sels on dirs sub n} : Sel.inline on dirs sub ∈ sels → skipSelection vars dirs = .ok false →
      fragmentTypeApplies s obj on = .ok true → Reach obj sub n → Reach obj sels n
  | spread {sels name dirs fr n} : Sel.spread name dirs ∈ sels → skipSelection vars dirs = .ok false →
      doc.fragment? name = some fr → fragmentTypeApplies s obj (some fr.on) = .ok true → Reach obj fr.sels n → Reach obj sels n

inductive NameReach (obj : String) : List Sel → String → Prop
  | here {sels name dirs} : Sel.spread name dirs ∈ sels → skipSelection vars dirs = .ok false → NameReach obj sels name
  | inline {sels on dirs sub N} : Sel.inline on dirs sub ∈ sels → skipSelection vars dirs = .ok false →
      fragmentTypeApplies s obj on = .ok true → NameReach obj sub N → NameReach obj sels N
  | spread {sels name dirs fr N} : Sel.spread name dirs ∈ sels → skipSelection vars dirs = .ok false →
      doc.fragment? name = some fr → fragmentTypeApplies s obj (some fr.on) = .ok true → NameReach obj fr.sels N → NameReach obj sels N

variable {s doc vars}

theorem Reach.mono {obj : String} {a b : List Sel} {n : FNode} (h : Reach s doc vars obj a n) (hab : ∀ x ∈ a, x ∈ b) :
    Reach s doc vars obj b n := by
  cases h with
  | field hm hs => exact .field (hab _ hm) hs
  | inline hm hs ha hr => exact .inline (hab _ hm) hs ha hr
  | spread hm hs hf ha hr => exact .spread (hab _ hm) hs hf ha hr

theorem NameReach.mono {obj : String} {a b : List Sel} {N : String} (h : NameReach s doc vars obj a N) (hab : ∀ x ∈ a, x ∈ b) :
    NameReach s doc vars obj b N := by
  cases h with
  | here hm hs => exact .here (hab _ hm) hs
  | inline hm hs ha hr => exact .inline (hab _ hm) hs ha hr
  | spread hm hs hf ha hr => exact .spread (hab _ hm) hs hf ha hr

theorem Reach.cons_split {obj : String} {x : Sel} {xs : List Sel} {n : FNode} (h : Reach s doc vars obj (x :: xs) n) :
    Reach s doc vars obj [x] n ∨ Reach s doc vars obj xs n := by
  cases h with
  | field hm hs =>
    simp at hm; rcases hm with rfl | hm
    · exact Or.inl (.field (by simp) hs)
    · exact Or.inr (.field hm hs)
  | inline hm hs ha hr =>
    simp at hm; rcases hm with rfl | hm
    · exact Or.inl (.inline (by simp) hs ha hr)
    · exact Or.inr (.inline hm hs ha hr)
  | spread hm hs hf ha hr =>
    simp at hm; rcases hm with rfl | hm
    · exact Or.inl (.spread (by simp) hs hf ha hr)
    · exact Or.inr (.spread hm hs hf ha hr)

theorem NameReach.cons_split {obj : String} {x : Sel} {xs : List Sel} {N : String} (h : NameReach s doc vars obj (x :: xs) N) :
    NameReach s doc vars obj [x] N ∨ NameReach s doc vars obj xs N := by
  cases h with
  | here hm hs =>
    simp at hm; rcases hm with rfl | hm
    · exact Or.inl (.here (by simp) hs)
    · exact Or.inr (.here hm hs)
  | inline hm hs ha hr =>
    simp at hm; rcases hm with rfl | hm
    · exact Or.inl (.inline (by simp) hs ha hr)
    · exact Or.inr (.inline hm hs ha hr)
  | spread hm hs hf ha hr =>
    simp at hm; rcases hm with rfl | hm
    · exact Or.inl (.spread (by simp) hs hf ha hr)
    · exact Or.inr (.spread hm hs hf ha hr)

variable (s doc vars)

/-- model soundness of a sequence collector -/
def ModelSound (f : String → List Sel → List String → SeqRes) : Prop :=
  ∀ obj sels seen q seen', f obj sels seen = .ok (q, seen') →
    (∀ n ∈ q, Reach s doc vars obj sels n) ∧ (∀ N ∈ seen', N ∈ seen ∨ NameReach s doc vars obj sels N)

private theorem mseqStep_sound (rec : String → List Sel → List String → SeqRes) (hrec : ModelSound s doc vars rec) (obj : String) :
    ∀ (sels : List Sel) (seen : List String) (q : List FNode) (seen' : List String),
      mseqStep s doc vars rec obj sels seen = .ok (q, seen') →
      (∀ n ∈ q, Reach s doc vars obj sels n) ∧ (∀ N ∈ seen', N ∈ seen ∨ NameReach s doc vars obj sels N) := by
  intro sels
  induction sels with
  | nil => intro seen q seen' h; simp [mseqStep] at h; obtain ⟨rfl, rfl⟩ := h; exact ⟨by simp, fun N hN => Or.inl hN⟩
  | cons sel rest ih =>
    intro seen q seen' h
    have lift : ∀ seenX q2 s2, mseqStep s doc vars rec obj rest seenX = .ok (q2, s2) →
        (∀ n ∈ q2, Reach s doc vars obj (sel :: rest) n) ∧ (∀ N ∈ s2, N ∈ seenX ∨ NameReach s doc vars obj (sel :: rest) N) := by
      intro seenX q2 s2 hh
      obtain ⟨h1, h2⟩ := ih seenX q2 s2 hh
      exact ⟨fun n hn => (h1 n hn).mono (by intro x hx; simp [hx]),
             fun N hN => (h2 N hN).imp id (fun hr => hr.mono (by intro x hx; simp [hx]))⟩
    cases sel with
    | field key name loc dirs args hs sub =>
      simp only [mseqStep, bind, Except.bind, pure, Except.pure] at h
      cases hsk : skipSelection vars dirs with
      | error e => simp [hsk] at h
      | ok b =>
        simp only [hsk] at h
        cases b with
        | true => simp at h; exact lift _ _ _ h
        | false =>
          simp only [Bool.false_eq_true, if_false] at h
          cases hr : mseqStep s doc vars rec obj rest seen with
          | error e => simp [hr] at h
          | ok p =>
            simp [hr] at h
            obtain ⟨rfl, rfl⟩ := h
            obtain ⟨h1, h2⟩ := lift _ _ _ hr
            refine ⟨?_, h2⟩
            intro n hn
            simp at hn
            rcases hn with rfl | hn
            · exact .field (by simp) hsk
            · exact h1 n hn
    | inline on dirs sub =>
      simp only [mseqStep, bind, Except.bind, pure, Except.pure] at h
      cases hsk : skipSelection vars dirs with
      | error e => simp [hsk] at h
      | ok b =>
        simp only [hsk] at h
        cases b with
        | true => simp at h; exact lift _ _ _ h
        | false =>
          simp only [Bool.false_eq_true, if_false] at h
          cases hap : fragmentTypeApplies s obj on with
          | error e => simp [hap] at h
          | ok a =>
            simp only [hap] at h
            cases a with
            | false => simp at h; exact lift _ _ _ h
            | true =>
              simp only [Bool.not_true, Bool.false_eq_true, if_false] at h
              cases hr1 : rec obj sub seen with
              | error e => simp [hr1] at h
              | ok p1 =>
                obtain ⟨q1, seen1⟩ := p1
                simp only [hr1, List.isEmpty_iff] at h
                obtain ⟨hn1, hs1⟩ := hrec obj sub seen q1 seen1 hr1
                cases hr2 : mseqStep s doc vars rec obj rest (if seen = [] then seen else seen1) with
                | error e => simp [hr2] at h
                | ok p2 =>
                  simp [hr2] at h
                  obtain ⟨rfl, rfl⟩ := h
                  obtain ⟨h1, h2⟩ := lift _ _ _ hr2
                  refine ⟨?_, ?_⟩
                  · intro n hn
                    simp at hn
                    rcases hn with hn | hn
                    · exact .inline (by simp) hsk hap (hn1 n hn)
                    · exact h1 n hn
                  · intro N hN
                    rcases h2 N hN with hx | hx
                    · by_cases he : seen = []
                      · simp [he] at hx
                      · simp [he] at hx
                        rcases hs1 N hx with h3 | h3
                        · exact Or.inl h3
                        · exact Or.inr (.inline (by simp) hsk hap h3)
                    · exact Or.inr hx
    | spread name dirs =>
      simp only [mseqStep, bind, Except.bind, pure, Except.pure] at h
      cases hfr : doc.fragment? name with
      | none => simp [hfr] at h
      | some fr =>
        simp only [hfr] at h
        cases hsk : skipSelection vars dirs with
        | error e => simp [hsk] at h
        | ok b =>
          simp only [hsk] at h
          cases b with
          | true => simp at h; exact lift _ _ _ h
          | false =>
            simp only [Bool.false_eq_true, if_false] at h
            by_cases hseen : seen.contains name
            · simp only [hseen, if_true] at h; simp at h; exact lift _ _ _ h
            · simp only [hseen, Bool.false_eq_true, if_false] at h
              cases hap : fragmentTypeApplies s obj (some fr.on) with
              | error e => simp [hap] at h
              | ok a =>
                simp only [hap] at h
                cases a with
                | false => simp at h; exact lift _ _ _ h
                | true =>
                  simp only [Bool.not_true, Bool.false_eq_true, if_false] at h
                  cases hr1 : rec obj fr.sels seen with
                  | error e => simp [hr1] at h
                  | ok p1 =>
                    obtain ⟨q1, seen1⟩ := p1
                    simp only [hr1, List.isEmpty_iff] at h
                    obtain ⟨hn1, hs1⟩ := hrec obj fr.sels seen q1 seen1 hr1
                    generalize hs3 : (if (if seen = [] then seen else seen1).contains name = true
                        then (if seen = [] then seen else seen1)
                        else (if seen = [] then seen else seen1) ++ [name]) = seen3 at h
                    have hseen3 : ∀ N ∈ seen3, N ∈ seen ∨ NameReach s doc vars obj (Sel.spread name dirs :: rest) N := by
                      intro N hN
                      have hN2 : N ∈ (if seen = [] then seen else seen1) ∨ N = name := by
                        rw [← hs3] at hN
                        by_cases hc : (if seen = [] then seen else seen1).contains name = true
                        · rw [if_pos hc] at hN; exact Or.inl hN
                        · rw [if_neg hc] at hN; simpa using hN
                      rcases hN2 with hN2 | rfl
                      · by_cases he : seen = []
                        · simp [he] at hN2
                        · simp [he] at hN2
                          rcases hs1 N hN2 with h3 | h3
                          · exact Or.inl h3
                          · exact Or.inr (.spread (by simp) hsk hfr hap h3)
                      · exact Or.inr (.here (by simp) hsk)
                    cases hr2 : mseqStep s doc vars rec obj rest seen3 with
                    | error e => simp [hr2] at h
                    | ok p2 =>
                      simp [hr2] at h
                      obtain ⟨rfl, rfl⟩ := h
                      obtain ⟨h1, h2⟩ := lift _ _ _ hr2
                      refine ⟨?_, ?_⟩
                      · intro n hn
                        simp at hn
                        rcases hn with hn | hn
                        · exact .spread (by simp) hsk hfr hap (hn1 n hn)
                        · exact h1 n hn
                      · intro N hN
                        rcases h2 N hN with hx | hx
                        · exact hseen3 N hx
                        · exact Or.inr hx

/-- **model soundness**: every collected node is reachable; every name marked seen was seen before or is met -/
theorem mseq_sound (n : Nat) : ModelSound s doc vars (mseq s doc vars n) := by
  induction n with
  | zero => intro obj sels seen q seen' h; simp [mseq] at h
  | succ n ih =>
    intro obj sels seen q seen' h
    simp only [mseq] at h
    exact mseqStep_sound s doc vars _ ih obj sels seen q seen' h


/-! ### the closure invariant and what a specification run guarantees -/

/-- fragment `F` is COVERED: all nodes reachable from its body have appeared (`A`), all names met in it are visited -/
def Covered (obj : String) (A : FNode → Prop) (V : List String) (F : String) : Prop :=
  ∀ fr, doc.fragment? F = some fr → fragmentTypeApplies s obj (some fr.on) = .ok true →
    (∀ n, Reach s doc vars obj fr.sels n → A n) ∧ (∀ N, NameReach s doc vars obj fr.sels N → N ∈ V)

/-- every visited fragment is covered, except those still being expanded (rank ≥ `r`) -/
def Closed (obj : String) (rk : String → Nat) (r : Nat) (A : FNode → Prop) (V : List String) : Prop :=
  ∀ F ∈ V, r ≤ rk F ∨ Covered s doc vars obj A V F

variable {s doc vars}
theorem Covered.mono {obj : String} {A A' : FNode → Prop} {V V' : List String} {F : String}
    (h : Covered s doc vars obj A V F) (ha : ∀ n, A n → A' n) (hv : ∀ N ∈ V, N ∈ V') : Covered s doc vars obj A' V' F := by
  intro fr hf hap
  obtain ⟨h1, h2⟩ := h fr hf hap
  exact ⟨fun n hn => ha n (h1 n hn), fun N hN => hv N (h2 N hN)⟩
variable (s doc vars)

def SpecFacts (rk : String → Nat) (f : String → List Sel → List String → SeqRes) : Prop :=
  ∀ obj sels V q V' (A : FNode → Prop) (r : Nat), f obj sels V = .ok (q, V') → selsNeed rk sels ≤ r →
    Closed s doc vars obj rk r A V →
    (∀ n, Reach s doc vars obj sels n → A n ∨ n ∈ q) ∧ (∀ N, NameReach s doc vars obj sels N → N ∈ V') ∧
    (∀ G ∈ V', G ∈ V ∨ Covered s doc vars obj (fun n => A n ∨ n ∈ q) V' G) ∧ (∀ G ∈ V, G ∈ V')

/-- facts about the head of a selection list, relative to (`A`, `V`) -/
def HeadFacts (obj : String) (sel : Sel) (A : FNode → Prop) (V : List String) (q1 : List FNode) (V1 : List String) : Prop :=
  (∀ n, Reach s doc vars obj [sel] n → A n ∨ n ∈ q1) ∧ (∀ N, NameReach s doc vars obj [sel] N → N ∈ V1) ∧
  (∀ G ∈ V1, G ∈ V ∨ Covered s doc vars obj (fun n => A n ∨ n ∈ q1) V1 G) ∧ (∀ G ∈ V, G ∈ V1)

private theorem spec_continue (rk : String → Nat) (r : Nat) (rec : String → List Sel → List String → SeqRes) (obj : String)
    (sel : Sel) (rest : List Sel)
    (ih : ∀ (V : List String) (q : List FNode) (V' : List String) (A : FNode → Prop),
      sseqStep s doc vars rec obj rest V = .ok (q, V') → Closed s doc vars obj rk r A V →
      (∀ n, Reach s doc vars obj rest n → A n ∨ n ∈ q) ∧ (∀ N, NameReach s doc vars obj rest N → N ∈ V') ∧
      (∀ G ∈ V', G ∈ V ∨ Covered s doc vars obj (fun n => A n ∨ n ∈ q) V' G) ∧ (∀ G ∈ V, G ∈ V'))
    (A : FNode → Prop) (V : List String) (q1 : List FNode) (V1 : List String) (hcl : Closed s doc vars obj rk r A V)
    (hh : HeadFacts s doc vars obj sel A V q1 V1) (q2 : List FNode) (V2 : List String)
    (hr : sseqStep s doc vars rec obj rest V1 = .ok (q2, V2)) :
    (∀ n, Reach s doc vars obj (sel :: rest) n → A n ∨ n ∈ q1 ++ q2) ∧ (∀ N, NameReach s doc vars obj (sel :: rest) N → N ∈ V2) ∧
    (∀ G ∈ V2, G ∈ V ∨ Covered s doc vars obj (fun n => A n ∨ n ∈ q1 ++ q2) V2 G) ∧ (∀ G ∈ V, G ∈ V2) := by
  obtain ⟨hn1, hN1, hc1, hm1⟩ := hh
  have hcl1 : Closed s doc vars obj rk r (fun n => A n ∨ n ∈ q1) V1 := by
    intro G hG
    rcases hc1 G hG with hGV | hcov
    · rcases hcl G hGV with h | h
      · exact Or.inl h
      · exact Or.inr (h.mono (fun n hn => Or.inl hn) hm1)
    · exact Or.inr hcov
  obtain ⟨hn2, hN2, hc2, hm2⟩ := ih V1 q2 V2 _ hr hcl1
  refine ⟨?_, ?_, ?_, fun G hG => hm2 G (hm1 G hG)⟩
  · intro n hn
    rcases hn.cons_split with h | h
    · rcases hn1 n h with h | h
      · exact Or.inl h
      · exact Or.inr (by simp [h])
    · rcases hn2 n h with h | h
      · rcases h with h | h
        · exact Or.inl h
        · exact Or.inr (by simp [h])
      · exact Or.inr (by simp [h])
  · intro N hN
    rcases hN.cons_split with h | h
    · exact hm2 N (hN1 N h)
    · exact hN2 N h
  · intro G hG
    rcases hc2 G hG with hG1 | hcov
    · rcases hc1 G hG1 with h | h
      · exact Or.inl h
      · refine Or.inr (h.mono ?_ hm2)
        intro n hn; rcases hn with hn | hn
        · exact Or.inl hn
        · exact Or.inr (by simp [hn])
    · refine Or.inr (hcov.mono ?_ (fun N hN => hN))
      intro n hn
      rcases hn with hn | hn
      · rcases hn with hn | hn
        · exact Or.inl hn
        · exact Or.inr (by simp [hn])
      · exact Or.inr (by simp [hn])

/-- a head that contributes nothing and changes nothing -/
private theorem head_nothing (obj : String) (sel : Sel) (A : FNode → Prop) (V : List String)
    (hno : ∀ n, ¬ Reach s doc vars obj [sel] n) (hnoN : ∀ N, NameReach s doc vars obj [sel] N → N ∈ V) :
    HeadFacts s doc vars obj sel A V [] V :=
  ⟨fun n hn => absurd hn (hno n), hnoN, fun G hG => Or.inl hG, fun G hG => hG⟩

private theorem sseqStep_facts (rk ek : String → Nat) (B : Nat) (hrk : Ranked doc rk ek B) (r : Nat)
    (rec : String → List Sel → List String → SeqRes) (hrec : SpecFacts s doc vars rk rec) (obj : String) :
    ∀ (sels : List Sel), selsNeed rk sels ≤ r → ∀ (V : List String) (q : List FNode) (V' : List String) (A : FNode → Prop),
      sseqStep s doc vars rec obj sels V = .ok (q, V') → Closed s doc vars obj rk r A V →
      (∀ n, Reach s doc vars obj sels n → A n ∨ n ∈ q) ∧ (∀ N, NameReach s doc vars obj sels N → N ∈ V') ∧
      (∀ G ∈ V', G ∈ V ∨ Covered s doc vars obj (fun n => A n ∨ n ∈ q) V' G) ∧ (∀ G ∈ V, G ∈ V') := by
  intro sels
  induction sels with
  | nil =>
    intro _ V q V' A h _
    simp [sseqStep] at h
    obtain ⟨rfl, rfl⟩ := h
    refine ⟨?_, ?_, fun G hG => Or.inl hG, fun G hG => hG⟩
    · intro n hn; cases hn <;> simp_all
    · intro N hN; cases hN <;> simp_all
  | cons sel rest ih =>
    intro hneed V q V' A h hcl
    simp only [selsNeed] at hneed
    have hrest : selsNeed rk rest ≤ r := by omega
    have hselN : selNeed rk sel ≤ r := by omega
    have cont := spec_continue s doc vars rk r rec obj sel rest (ih hrest) A V
    cases sel with
    | field key name loc dirs args hs sub =>
      simp only [sseqStep, bind, Except.bind, pure, Except.pure] at h
      cases hsk : skipSelection vars dirs with
      | error e => simp [hsk] at h
      | ok b =>
        simp only [hsk] at h
        cases b with
        | true =>
          simp at h
          have := cont [] V hcl (head_nothing s doc vars obj _ A V
            (by intro n hn; cases hn with
                | field hm hs' => simp at hm; obtain ⟨_, _, _, rfl, _, _, _⟩ := hm; simp [hsk] at hs'
                | inline hm => simp at hm
                | spread hm => simp at hm)
            (by intro N hN; cases hN with
                | here hm => simp at hm
                | inline hm => simp at hm
                | spread hm => simp at hm)) q V' h
          simpa using this
        | false =>
          simp only [Bool.false_eq_true, if_false] at h
          cases hr : sseqStep s doc vars rec obj rest V with
          | error e => simp [hr] at h
          | ok p =>
            simp [hr] at h
            obtain ⟨rfl, rfl⟩ := h
            have hh : HeadFacts s doc vars obj (Sel.field key name loc dirs args hs sub) A V [mkNode key name loc args hs sub] V := by
              refine ⟨?_, ?_, fun G hG => Or.inl hG, fun G hG => hG⟩
              · intro n hn
                cases hn with
                | field hm hs' => simp at hm; obtain ⟨rfl, rfl, rfl, rfl, rfl, rfl, rfl⟩ := hm; exact Or.inr (by simp)
                | inline hm => simp at hm
                | spread hm => simp at hm
              · intro N hN
                cases hN with
                | here hm => simp at hm
                | inline hm => simp at hm
                | spread hm => simp at hm
            have := cont _ V hcl hh p.1 p.2 hr
            simpa using this
    | inline on dirs sub =>
      simp only [selNeed] at hselN
      simp only [sseqStep, bind, Except.bind, pure, Except.pure] at h
      have nothing : ∀ (hcontra : ∀ n, ¬ Reach s doc vars obj [Sel.inline on dirs sub] n)
          (hcontraN : ∀ N, ¬ NameReach s doc vars obj [Sel.inline on dirs sub] N),
          sseqStep s doc vars rec obj rest V = .ok (q, V') → _ := fun hc hcN hh =>
        cont [] V hcl (head_nothing s doc vars obj _ A V hc (fun N hN => absurd hN (hcN N))) q V' hh
      cases hsk : skipSelection vars dirs with
      | error e => simp [hsk] at h
      | ok b =>
        simp only [hsk] at h
        cases b with
        | true =>
          simp at h
          have := nothing
            (by intro n hn; cases hn with
                | field hm => simp at hm
                | inline hm hs' => simp at hm; obtain ⟨_, rfl, _⟩ := hm; simp [hsk] at hs'
                | spread hm => simp at hm)
            (by intro N hN; cases hN with
                | here hm => simp at hm
                | inline hm hs' => simp at hm; obtain ⟨_, rfl, _⟩ := hm; simp [hsk] at hs'
                | spread hm => simp at hm) h
          simpa using this
        | false =>
          simp only [Bool.false_eq_true, if_false] at h
          cases hap : fragmentTypeApplies s obj on with
          | error e => simp [hap] at h
          | ok a =>
            simp only [hap] at h
            cases a with
            | false =>
              simp at h
              have := nothing
                (by intro n hn; cases hn with
                    | field hm => simp at hm
                    | inline hm hs' ha' => simp at hm; obtain ⟨rfl, _, _⟩ := hm; simp [hap] at ha'
                    | spread hm => simp at hm)
                (by intro N hN; cases hN with
                    | here hm => simp at hm
                    | inline hm hs' ha' => simp at hm; obtain ⟨rfl, _, _⟩ := hm; simp [hap] at ha'
                    | spread hm => simp at hm) h
              simpa using this
            | true =>
              simp only [Bool.not_true, Bool.false_eq_true, if_false] at h
              cases hr1 : rec obj sub V with
              | error e => simp [hr1] at h
              | ok p1 =>
                obtain ⟨q1, V1⟩ := p1
                simp only [hr1] at h
                obtain ⟨f1, f2, f3, f4⟩ := hrec obj sub V q1 V1 A r hr1 (by omega) hcl
                cases hr2 : sseqStep s doc vars rec obj rest V1 with
                | error e => simp [hr2] at h
                | ok p2 =>
                  simp [hr2] at h
                  obtain ⟨rfl, rfl⟩ := h
                  have hh : HeadFacts s doc vars obj (Sel.inline on dirs sub) A V q1 V1 := by
                    refine ⟨?_, ?_, f3, f4⟩
                    · intro n hn
                      cases hn with
                      | field hm => simp at hm
                      | inline hm hs' ha' hr' => simp at hm; obtain ⟨rfl, rfl, rfl⟩ := hm; exact f1 n hr'
                      | spread hm => simp at hm
                    · intro N hN
                      cases hN with
                      | here hm => simp at hm
                      | inline hm hs' ha' hr' => simp at hm; obtain ⟨rfl, rfl, rfl⟩ := hm; exact f2 N hr'
                      | spread hm => simp at hm
                  exact cont q1 V1 hcl hh p2.1 p2.2 hr2
    | spread name dirs =>
      simp only [selNeed] at hselN
      simp only [sseqStep, bind, Except.bind, pure, Except.pure] at h
      cases hsk : skipSelection vars dirs with
      | error e => simp [hsk] at h
      | ok b =>
        simp only [hsk] at h
        cases b with
        | true =>
          simp at h
          have := cont [] V hcl (head_nothing s doc vars obj _ A V
            (by intro n hn; cases hn with
                | field hm => simp at hm
                | inline hm => simp at hm
                | spread hm hs' => simp at hm; obtain ⟨_, rfl⟩ := hm; simp [hsk] at hs')
            (by intro N hN; cases hN with
                | here hm hs' => simp at hm; obtain ⟨_, rfl⟩ := hm; simp [hsk] at hs'
                | inline hm => simp at hm
                | spread hm hs' => simp at hm; obtain ⟨_, rfl⟩ := hm; simp [hsk] at hs')) q V' h
          simpa using this
        | false =>
          simp only [Bool.false_eq_true, if_false] at h
          by_cases hvis : V.contains name
          · simp only [hvis, if_true] at h
            have hmem : name ∈ V := by simpa using hvis
            have hcov : Covered s doc vars obj A V name := by
              rcases hcl name hmem with h1 | h1
              · omega
              · exact h1
            have hh : HeadFacts s doc vars obj (Sel.spread name dirs) A V [] V := by
              refine ⟨?_, ?_, fun G hG => Or.inl hG, fun G hG => hG⟩
              · intro n hn
                cases hn with
                | field hm => simp at hm
                | inline hm => simp at hm
                | spread hm hs' hf' ha' hr' =>
                  simp at hm; obtain ⟨rfl, rfl⟩ := hm
                  exact Or.inl ((hcov _ hf' ha').1 n hr')
              · intro N hN
                cases hN with
                | here hm hs' => simp at hm; obtain ⟨rfl, rfl⟩ := hm; exact hmem
                | inline hm => simp at hm
                | spread hm hs' hf' ha' hr' =>
                  simp at hm; obtain ⟨rfl, rfl⟩ := hm
                  exact (hcov _ hf' ha').2 N hr'
            have := cont [] V hcl hh q V' h
            simpa using this
          · simp only [hvis, Bool.false_eq_true, if_false] at h
            -- the name becomes visited before anything else
            have hV1 : ∀ G ∈ V, G ∈ V ++ [name] := fun G hG => by simp [hG]
            cases hfr : doc.fragment? name with
            | none =>
              simp only [hfr] at h
              have hh : HeadFacts s doc vars obj (Sel.spread name dirs) A V [] (V ++ [name]) := by
                refine ⟨?_, ?_, ?_, hV1⟩
                · intro n hn
                  cases hn with
                  | field hm => simp at hm
                  | inline hm => simp at hm
                  | spread hm hs' hf' => simp at hm; obtain ⟨rfl, rfl⟩ := hm; simp [hfr] at hf'
                · intro N hN
                  cases hN with
                  | here hm hs' => simp at hm; obtain ⟨rfl, rfl⟩ := hm; simp
                  | inline hm => simp at hm
                  | spread hm hs' hf' => simp at hm; obtain ⟨rfl, rfl⟩ := hm; simp [hfr] at hf'
                · intro G hG
                  simp at hG
                  rcases hG with hG | rfl
                  · exact Or.inl hG
                  · exact Or.inr (by intro fr hf; simp [hfr] at hf)
              have := cont [] _ hcl hh q V' h
              simpa using this
            | some fr =>
              simp only [hfr] at h
              cases hap : fragmentTypeApplies s obj (some fr.on) with
              | error e => simp [hap] at h
              | ok a =>
                simp only [hap] at h
                cases a with
                | false =>
                  simp at h
                  have hh : HeadFacts s doc vars obj (Sel.spread name dirs) A V [] (V ++ [name]) := by
                    refine ⟨?_, ?_, ?_, hV1⟩
                    · intro n hn
                      cases hn with
                      | field hm => simp at hm
                      | inline hm => simp at hm
                      | spread hm hs' hf' ha' =>
                        simp at hm; obtain ⟨rfl, rfl⟩ := hm
                        rw [hfr] at hf'; cases hf'; simp [hap] at ha'
                    · intro N hN
                      cases hN with
                      | here hm hs' => simp at hm; obtain ⟨rfl, rfl⟩ := hm; simp
                      | inline hm => simp at hm
                      | spread hm hs' hf' ha' =>
                        simp at hm; obtain ⟨rfl, rfl⟩ := hm
                        rw [hfr] at hf'; cases hf'; simp [hap] at ha'
                    · intro G hG
                      simp at hG
                      rcases hG with hG | rfl
                      · exact Or.inl hG
                      · exact Or.inr (by intro fr' hf' ha'; rw [hfr] at hf'; cases hf'; simp [hap] at ha')
                  have := cont [] _ hcl hh q V' h
                  simpa using this
                | true =>
                  simp only [Bool.not_true, Bool.false_eq_true, if_false] at h
                  cases hr1 : rec obj fr.sels (V ++ [name]) with
                  | error e => simp [hr1] at h
                  | ok p1 =>
                    obtain ⟨q1, V1⟩ := p1
                    simp only [hr1] at h
                    have hrank := hrk.collect name fr hfr
                    have hcl1 : Closed s doc vars obj rk (rk name) A (V ++ [name]) := by
                      intro G hG
                      simp at hG
                      rcases hG with hG | rfl
                      · rcases hcl G hG with h1 | h1
                        · exact Or.inl (by omega)
                        · exact Or.inr (h1.mono (fun n hn => hn) hV1)
                      · exact Or.inl (Nat.le_refl _)
                    obtain ⟨f1, f2, f3, f4⟩ := hrec obj fr.sels (V ++ [name]) q1 V1 A (rk name) hr1 hrank hcl1
                    cases hr2 : sseqStep s doc vars rec obj rest V1 with
                    | error e => simp [hr2] at h
                    | ok p2 =>
                      simp [hr2] at h
                      obtain ⟨rfl, rfl⟩ := h
                      have hh : HeadFacts s doc vars obj (Sel.spread name dirs) A V q1 V1 := by
                        refine ⟨?_, ?_, ?_, fun G hG => f4 G (hV1 G hG)⟩
                        · intro n hn
                          cases hn with
                          | field hm => simp at hm
                          | inline hm => simp at hm
                          | spread hm hs' hf' ha' hr' =>
                            simp at hm; obtain ⟨rfl, rfl⟩ := hm
                            rw [hfr] at hf'; cases hf'; exact f1 n hr'
                        · intro N hN
                          cases hN with
                          | here hm hs' => simp at hm; obtain ⟨rfl, rfl⟩ := hm; exact f4 _ (by simp)
                          | inline hm => simp at hm
                          | spread hm hs' hf' ha' hr' =>
                            simp at hm; obtain ⟨rfl, rfl⟩ := hm
                            rw [hfr] at hf'; cases hf'; exact f2 N hr'
                        · intro G hG
                          rcases f3 G hG with h1 | h1
                          · simp at h1
                            rcases h1 with h1 | rfl
                            · exact Or.inl h1
                            · refine Or.inr ?_
                              intro fr' hf' ha'
                              rw [hfr] at hf'; cases hf'
                              exact ⟨fun n hn => f1 n hn, fun N hN => f2 N hN⟩
                          · exact Or.inr h1
                      exact cont q1 V1 hcl hh p2.1 p2.2 hr2

/-- **spec completeness**: what every successful specification run guarantees (nodes appeared, names visited,
    new visited fragments covered) -/
theorem sseq_facts (rk ek : String → Nat) (B : Nat) (hrk : Ranked doc rk ek B) (n : Nat) : SpecFacts s doc vars rk (sseq s doc vars n) := by
  induction n with
  | zero => intro obj sels V q V' A r h; simp [sseq] at h
  | succ n ih =>
    intro obj sels V q V' A r h hneed hcl
    simp only [sseq] at h
    exact sseqStep_facts s doc vars rk ek B hrk r _ ih obj sels hneed V q V' A h hcl


/-! ### head facts, reusable (the simulation needs the same facts about the specification's treatment of one selection) -/

theorem closed_after_head {rk : String → Nat} {r : Nat} {obj : String} {sel : Sel} {A : FNode → Prop} {V V1 : List String} {q1 : List FNode}
    (hcl : Closed s doc vars obj rk r A V) (hh : HeadFacts s doc vars obj sel A V q1 V1) :
    Closed s doc vars obj rk r (fun n => A n ∨ n ∈ q1) V1 := by
  obtain ⟨_, _, hc1, hm1⟩ := hh
  intro G hG
  rcases hc1 G hG with hGV | hcov
  · rcases hcl G hGV with h | h
    · exact Or.inl h
    · exact Or.inr (h.mono (fun n hn => Or.inl hn) hm1)
  · exact Or.inr hcov

theorem hf_nothing (obj : String) (sel : Sel) (A : FNode → Prop) (V : List String)
    (hno : ∀ n, ¬ Reach s doc vars obj [sel] n) (hnoN : ∀ N, NameReach s doc vars obj [sel] N → N ∈ V) :
    HeadFacts s doc vars obj sel A V [] V :=
  ⟨fun n hn => absurd hn (hno n), hnoN, fun G hG => Or.inl hG, fun G hG => hG⟩

theorem no_reach_field_skipped {obj key name loc dirs args hs sub} (hsk : skipSelection vars dirs = .ok true) :
    (∀ n, ¬ Reach s doc vars obj [Sel.field key name loc dirs args hs sub] n) ∧
    (∀ N, ¬ NameReach s doc vars obj [Sel.field key name loc dirs args hs sub] N) := by
  constructor
  · intro n hn; cases hn with
    | field hm hs' => simp at hm; obtain ⟨_, _, _, rfl, _, _, _⟩ := hm; simp [hsk] at hs'
    | inline hm => simp at hm
    | spread hm => simp at hm
  · intro N hN; cases hN with
    | here hm => simp at hm
    | inline hm => simp at hm
    | spread hm => simp at hm

theorem hf_field_kept (obj key name loc dirs args hs sub) (A : FNode → Prop) (V : List String) :
    HeadFacts s doc vars obj (Sel.field key name loc dirs args hs sub) A V [mkNode key name loc args hs sub] V := by
  refine ⟨?_, ?_, fun G hG => Or.inl hG, fun G hG => hG⟩
  · intro n hn
    cases hn with
    | field hm hs' => simp at hm; obtain ⟨rfl, rfl, rfl, rfl, rfl, rfl, rfl⟩ := hm; exact Or.inr (by simp)
    | inline hm => simp at hm
    | spread hm => simp at hm
  · intro N hN
    cases hN with
    | here hm => simp at hm
    | inline hm => simp at hm
    | spread hm => simp at hm

theorem no_reach_inline_dropped {obj on dirs sub}
    (h : skipSelection vars dirs = .ok true ∨ fragmentTypeApplies s obj on = .ok false) :
    (∀ n, ¬ Reach s doc vars obj [Sel.inline on dirs sub] n) ∧ (∀ N, ¬ NameReach s doc vars obj [Sel.inline on dirs sub] N) := by
  constructor
  · intro n hn; cases hn with
    | field hm => simp at hm
    | inline hm hs' ha' =>
      simp at hm; obtain ⟨rfl, rfl, rfl⟩ := hm
      rcases h with h | h
      · simp [h] at hs'
      · simp [h] at ha'
    | spread hm => simp at hm
  · intro N hN; cases hN with
    | here hm => simp at hm
    | inline hm hs' ha' =>
      simp at hm; obtain ⟨rfl, rfl, rfl⟩ := hm
      rcases h with h | h
      · simp [h] at hs'
      · simp [h] at ha'
    | spread hm => simp at hm

theorem hf_inline_expanded (obj on dirs sub) (A : FNode → Prop) (V V1 : List String) (q1 : List FNode)
    (f1 : ∀ n, Reach s doc vars obj sub n → A n ∨ n ∈ q1) (f2 : ∀ N, NameReach s doc vars obj sub N → N ∈ V1)
    (f3 : ∀ G ∈ V1, G ∈ V ∨ Covered s doc vars obj (fun n => A n ∨ n ∈ q1) V1 G) (f4 : ∀ G ∈ V, G ∈ V1) :
    HeadFacts s doc vars obj (Sel.inline on dirs sub) A V q1 V1 := by
  refine ⟨?_, ?_, f3, f4⟩
  · intro n hn
    cases hn with
    | field hm => simp at hm
    | inline hm hs' ha' hr' => simp at hm; obtain ⟨rfl, rfl, rfl⟩ := hm; exact f1 n hr'
    | spread hm => simp at hm
  · intro N hN
    cases hN with
    | here hm => simp at hm
    | inline hm hs' ha' hr' => simp at hm; obtain ⟨rfl, rfl, rfl⟩ := hm; exact f2 N hr'
    | spread hm => simp at hm

theorem no_reach_spread_skipped {obj name dirs} (hsk : skipSelection vars dirs = .ok true) :
    (∀ n, ¬ Reach s doc vars obj [Sel.spread name dirs] n) ∧ (∀ N, ¬ NameReach s doc vars obj [Sel.spread name dirs] N) := by
  constructor
  · intro n hn; cases hn with
    | field hm => simp at hm
    | inline hm => simp at hm
    | spread hm hs' => simp at hm; obtain ⟨_, rfl⟩ := hm; simp [hsk] at hs'
  · intro N hN; cases hN with
    | here hm hs' => simp at hm; obtain ⟨_, rfl⟩ := hm; simp [hsk] at hs'
    | inline hm => simp at hm
    | spread hm hs' => simp at hm; obtain ⟨_, rfl⟩ := hm; simp [hsk] at hs'

/-- a spread of a VISITED fragment of rank below `r`: the fragment is covered, nothing new -/
theorem hf_spread_visited (rk : String → Nat) (r : Nat) (obj name dirs) (A : FNode → Prop) (V : List String)
    (hcl : Closed s doc vars obj rk r A V) (hmem : name ∈ V) (hr : rk name < r) :
    HeadFacts s doc vars obj (Sel.spread name dirs) A V [] V := by
  have hcov : Covered s doc vars obj A V name := by
    rcases hcl name hmem with h1 | h1
    · omega
    · exact h1
  refine ⟨?_, ?_, fun G hG => Or.inl hG, fun G hG => hG⟩
  · intro n hn
    cases hn with
    | field hm => simp at hm
    | inline hm => simp at hm
    | spread hm hs' hf' ha' hr' =>
      simp at hm; obtain ⟨rfl, rfl⟩ := hm
      exact Or.inl ((hcov _ hf' ha').1 n hr')
  · intro N hN
    cases hN with
    | here hm hs' => simp at hm; obtain ⟨rfl, rfl⟩ := hm; exact hmem
    | inline hm => simp at hm
    | spread hm hs' hf' ha' hr' =>
      simp at hm; obtain ⟨rfl, rfl⟩ := hm
      exact (hcov _ hf' ha').2 N hr'

/-- a spread of a fragment that does not apply (or does not exist): only the name becomes visited -/
theorem hf_spread_not_applied (obj name dirs) (A : FNode → Prop) (V : List String)
    (hna : ∀ fr, doc.fragment? name = some fr → fragmentTypeApplies s obj (some fr.on) ≠ .ok true) :
    HeadFacts s doc vars obj (Sel.spread name dirs) A V [] (V ++ [name]) := by
  refine ⟨?_, ?_, ?_, fun G hG => by simp [hG]⟩
  · intro n hn
    cases hn with
    | field hm => simp at hm
    | inline hm => simp at hm
    | spread hm hs' hf' ha' => simp at hm; obtain ⟨rfl, rfl⟩ := hm; exact absurd ha' (hna _ hf')
  · intro N hN
    cases hN with
    | here hm hs' => simp at hm; obtain ⟨rfl, rfl⟩ := hm; simp
    | inline hm => simp at hm
    | spread hm hs' hf' ha' => simp at hm; obtain ⟨rfl, rfl⟩ := hm; exact absurd ha' (hna _ hf')
  · intro G hG
    simp at hG
    rcases hG with hG | rfl
    · exact Or.inl hG
    · exact Or.inr (by intro fr hf ha; exact absurd ha (hna fr hf))

theorem hf_spread_expanded (obj name dirs) (fr : Frag) (hfr : doc.fragment? name = some fr) (A : FNode → Prop) (V V1 : List String) (q1 : List FNode)
    (f1 : ∀ n, Reach s doc vars obj fr.sels n → A n ∨ n ∈ q1) (f2 : ∀ N, NameReach s doc vars obj fr.sels N → N ∈ V1)
    (f3 : ∀ G ∈ V1, G ∈ V ++ [name] ∨ Covered s doc vars obj (fun n => A n ∨ n ∈ q1) V1 G) (f4 : ∀ G ∈ V ++ [name], G ∈ V1) :
    HeadFacts s doc vars obj (Sel.spread name dirs) A V q1 V1 := by
  refine ⟨?_, ?_, ?_, fun G hG => f4 G (by simp [hG])⟩
  · intro n hn
    cases hn with
    | field hm => simp at hm
    | inline hm => simp at hm
    | spread hm hs' hf' ha' hr' =>
      simp at hm; obtain ⟨rfl, rfl⟩ := hm
      rw [hfr] at hf'; cases hf'; exact f1 n hr'
  · intro N hN
    cases hN with
    | here hm hs' => simp at hm; obtain ⟨rfl, rfl⟩ := hm; exact f4 _ (by simp)
    | inline hm => simp at hm
    | spread hm hs' hf' ha' hr' =>
      simp at hm; obtain ⟨rfl, rfl⟩ := hm
      rw [hfr] at hf'; cases hf'; exact f2 N hr'
  · intro G hG
    rcases f3 G hG with h1 | h1
    · simp at h1
      rcases h1 with h1 | rfl
      · exact Or.inl h1
      · refine Or.inr ?_
        intro fr' hf' ha'
        rw [hfr] at hf'; cases hf'
        exact ⟨fun n hn => f1 n hn, fun N hN => f2 N hN⟩
    · exact Or.inr h1

/-- the closure handed to the expansion of fragment `name` (rank `rk name`), which is now in progress -/
theorem closed_for_body {rk : String → Nat} {r : Nat} {obj name : String} {A : FNode → Prop} {V : List String}
    (hcl : Closed s doc vars obj rk r A V) (hr : rk name < r) : Closed s doc vars obj rk (rk name) A (V ++ [name]) := by
  intro G hG
  simp at hG
  rcases hG with hG | rfl
  · rcases hcl G hG with h1 | h1
    · exact Or.inl (by omega)
    · exact Or.inr (h1.mono (fun n hn => hn) (fun N hN => by simp [hN]))
  · exact Or.inl (Nat.le_refl _)

end
end PyGql.Props.C04

/-
  `NoFragmentCyclesChecker._search` (model: `cycSearch` / `cycLoop`, with fix 874f2dd = `continue`) is a depth-first
  search with a shared visited dict. **spread_closure_is_reachability**: started with an empty dict and enough fuel,
  the keys of the result are exactly the fragments reachable from `outer` through >= 1 recorded spreads, and the path
  stored for a key ends in a predecessor of that key (or is empty for a direct successor of `outer`).
-/
import PyGqlModel.Validate.Rules
import PyGqlModel.Lemmas.ValidateVarsClosure
namespace PyGql.Validate
open PyGql

namespace Cyc

abbrev G := AL (List String)

def succ (ff : G) (u : String) : List String := AL.getD ff u []
/-- reachable through at least one recorded spread -/
def ReachPlus (ff : G) (a k : String) : Prop := ∃ b ∈ succ ff a, VC.Reach ff b k
def vis (acc : G) (u : String) : Prop := AL.has acc u = true

theorem vis_set (acc : G) (k u : String) (p : List String) : vis (AL.set acc k p) u ↔ vis acc u ∨ u = k := by
  simp [vis, AL.has_set]

theorem get?_set_new (acc : G) (k u : String) (p q : List String) (hk : ¬ vis acc k)
    (h : AL.get? (AL.set acc k p) u = some q) : AL.get? acc u = some q ∨ (u = k ∧ q = p) := by
  rw [AL.get?_set] at h
  by_cases e : u = k
  · subst e
    simp only [↓reduceIte, Option.some.injEq] at h
    exact Or.inr ⟨rfl, h.symm⟩
  · simp only [e, ↓reduceIte] at h
    exact Or.inl h

theorem get?_set_old (acc : G) (k u : String) (p q : List String) (hk : ¬ vis acc k)
    (h : AL.get? acc u = some q) : AL.get? (AL.set acc k p) u = some q := by
  rw [AL.get?_set]
  by_cases e : u = k
  · subst e
    exact absurd (by simp [vis, AL.has_eq_isSome, h]) hk
  · simp only [e, ↓reduceIte]; exact h

/-- the stored path of a newly discovered fragment: empty for a direct successor of the start, else ending in a predecessor -/
def Good (ff : G) (top k : String) (q : List String) : Prop :=
  (q = [] ∧ k ∈ succ ff top) ∨ ∃ u, q.getLast? = some u ∧ k ∈ succ ff u

structure Spec (ff : G) (top outer : String) (targets : List String) (acc R : G) : Prop where
  keep : ∀ k q, AL.get? acc k = some q → AL.get? R k = some q
  sound : ∀ k, vis R k → vis acc k ∨ ReachPlus ff outer k
  succs : ∀ b ∈ targets, vis R b
  closed : ∀ u, vis R u → ¬ vis acc u → ∀ w ∈ succ ff u, vis R w
  paths : ∀ k q, AL.get? R k = some q → AL.get? acc k = some q ∨ Good ff top k q

theorem Spec.mono {ff : G} {top outer : String} {t : List String} {acc R : G} (h : Spec ff top outer t acc R) (u : String)
    (hu : vis acc u) : vis R u := by
  simp only [vis, AL.has_eq_isSome] at hu ⊢
  cases hq : AL.get? acc u with
  | none => simp [hq] at hu
  | some q => simp [h.keep u q hq]

/-! ### the measure: fragments of the graph not yet visited -/

def remG (ff : G) (acc : G) : Nat := VC.rem ff (AL.keys acc)

theorem filter_len_mono {α} (l : List α) (p p' : α → Bool) (h : ∀ x, p' x = true → p x = true) :
    (l.filter p').length ≤ (l.filter p).length := by
  induction l with
  | nil => simp
  | cons a as ih =>
    simp only [List.filter_cons]
    cases hp' : p' a
    · cases hp : p a <;> simp <;> omega
    · simp [h a hp']; omega

theorem filter_len_lt {α} (l : List α) (p p' : α → Bool) (h : ∀ x, p' x = true → p x = true) (x : α) (hx : x ∈ l)
    (h1 : p x = true) (h2 : p' x = false) : (l.filter p').length < (l.filter p).length := by
  induction l with
  | nil => cases hx
  | cons a as ih =>
    simp only [List.filter_cons]
    rcases List.mem_cons.mp hx with rfl | hx'
    · simp only [h1, h2, ↓reduceIte, Bool.false_eq_true, List.length_cons]
      have := filter_len_mono as p p' h; omega
    · have := ih hx'
      cases hp' : p' a
      · cases hp : p a <;> simp <;> omega
      · simp [h a hp']; omega

theorem contains_keys (acc : G) (u : String) : (AL.keys acc).contains u = true ↔ vis acc u := by
  rw [List.contains_iff_mem, AL.mem_keys]; rfl

theorem remG_mono (ff acc acc' : G) (h : ∀ u, vis acc u → vis acc' u) : remG ff acc' ≤ remG ff acc := by
  unfold remG VC.rem
  apply filter_len_mono
  intro x hx
  simp only [Bool.not_eq_eq_eq_not, Bool.not_true] at hx ⊢
  cases hc : (AL.keys acc).contains x
  · rfl
  · have := h x ((contains_keys acc x).mp hc)
    rw [(contains_keys acc' x).mpr this] at hx
    cases hx

theorem remG_set_lt (ff acc : G) (k : String) (p : List String) (hk : k ∈ VC.univ ff) (hn : ¬ vis acc k) :
    remG ff (AL.set acc k p) < remG ff acc := by
  unfold remG VC.rem
  apply filter_len_lt _ _ _ _ k hk
  · simp only [Bool.not_eq_eq_eq_not, Bool.not_true]
    cases hc : (AL.keys acc).contains k
    · rfl
    · exact absurd ((contains_keys acc k).mp hc) hn
  · simp only [Bool.not_eq_eq_eq_not, Bool.not_false]
    exact (contains_keys _ k).mpr ((vis_set acc k k p).mpr (Or.inr rfl))
  · intro x hx
    simp only [Bool.not_eq_eq_eq_not, Bool.not_true] at hx ⊢
    cases hc : (AL.keys acc).contains x
    · rfl
    · have : vis (AL.set acc k p) x := (vis_set acc k x p).mpr (Or.inl ((contains_keys acc x).mp hc))
      rw [(contains_keys _ x).mpr this] at hx
      cases hx

theorem remG_zero (ff acc : G) (h : remG ff acc = 0) (x : String) (hx : x ∈ VC.univ ff) : vis acc x := by
  unfold remG VC.rem at h
  have := List.length_eq_zero_iff.mp h
  have hnot : x ∉ (VC.univ ff).filter fun y => !(AL.keys acc).contains y := by rw [this]; simp
  simp only [List.mem_filter, hx, true_and, Bool.not_eq_eq_eq_not, Bool.not_true] at hnot
  cases hc : (AL.keys acc).contains x
  · exact absurd hc hnot
  · exact (contains_keys acc x).mp hc


theorem reachPlus_of_succ {ff : G} {outer inner k : String} (hi : inner ∈ succ ff outer) (h : ReachPlus ff inner k) :
    ReachPlus ff outer k := by
  obtain ⟨b, hb, hr⟩ := h
  exact ⟨inner, hi, .step hb hr⟩

theorem good_last (ff : G) (top inner : String) (path : List String) (k : String) (hk : k ∈ succ ff inner) :
    Good ff top k (path ++ [inner]) := Or.inr ⟨inner, by simp, hk⟩

/-- the loop over the successors of `outer`, given the specification of the recursive calls -/
theorem loop_spec (fx : Fixes) (hv : fx.v11 = true) (ff : G) (top : String) (fuel : Nat)
    (IH : ∀ outer acc path, remG ff acc ≤ fuel → (∀ k ∈ succ ff outer, Good ff top k path) →
      Spec ff top outer (succ ff outer) acc (cycSearch fx ff fuel outer acc path))
    (outer : String) (path : List String) (hgood : ∀ k ∈ succ ff outer, Good ff top k path) :
    ∀ (inners : List String) (acc : G), (∀ b ∈ inners, b ∈ succ ff outer) → remG ff acc ≤ fuel + 1 →
      Spec ff top outer inners acc (cycLoop fx (cycSearch fx ff fuel) path inners acc)
  | [], acc, _, _ => by
    rw [cycLoop]
    exact ⟨fun _ _ h => h, fun _ h => Or.inl h, fun _ h => (by cases h), fun u h1 h2 => absurd h1 h2, fun _ _ h => Or.inl h⟩
  | inner :: rest, acc, hsub, hrem => by
    rw [cycLoop]
    have hin : inner ∈ succ ff outer := hsub inner (List.mem_cons_self ..)
    have hrest : ∀ b ∈ rest, b ∈ succ ff outer := fun b hb => hsub b (List.mem_cons_of_mem _ hb)
    by_cases hvis : AL.has acc inner = true
    · simp only [hvis, hv, ↓reduceIte]
      have h := loop_spec fx hv ff top fuel IH outer path hgood rest acc hrest hrem
      exact ⟨h.keep, h.sound, fun b hb => by
        rcases List.mem_cons.mp hb with rfl | hb
        · exact h.mono _ hvis
        · exact h.succs b hb, h.closed, h.paths⟩
    · simp only [hvis, Bool.false_eq_true, ↓reduceIte]
      have hnv : ¬ vis acc inner := hvis
      have huniv : inner ∈ VC.univ ff := VC.getD_sub_univ ff outer inner hin
      have hrem' : remG ff (AL.set acc inner path) ≤ fuel := by
        have := remG_set_lt ff acc inner path huniv hnv; omega
      have s1 := IH inner (AL.set acc inner path) (path ++ [inner]) hrem'
        (fun k hk => good_last ff top inner path k hk)
      have hrem2 : remG ff (cycSearch fx ff fuel inner (AL.set acc inner path) (path ++ [inner])) ≤ fuel + 1 := by
        have := remG_mono ff (AL.set acc inner path) _ (fun u hu => s1.mono u hu); omega
      have h := loop_spec fx hv ff top fuel IH outer path hgood rest _ hrest hrem2
      refine ⟨?_, ?_, ?_, ?_, ?_⟩
      · intro k q hq
        exact h.keep k q (s1.keep k q (get?_set_old acc inner k path q hnv hq))
      · intro k hk
        rcases h.sound k hk with h1 | h1
        · rcases s1.sound k h1 with h2 | h2
          · rcases (vis_set acc inner k path).mp h2 with h3 | rfl
            · exact Or.inl h3
            · exact Or.inr ⟨k, hin, .refl _⟩
          · exact Or.inr (reachPlus_of_succ hin h2)
        · exact Or.inr h1
      · intro b hb
        rcases List.mem_cons.mp hb with rfl | hb
        · exact h.mono _ (s1.mono _ ((vis_set acc b b path).mpr (Or.inr rfl)))
        · exact h.succs b hb
      · intro u hu hnu w hw
        by_cases h1 : vis (cycSearch fx ff fuel inner (AL.set acc inner path) (path ++ [inner])) u
        · by_cases h2 : vis (AL.set acc inner path) u
          · rcases (vis_set acc inner u path).mp h2 with h3 | rfl
            · exact absurd h3 hnu
            · exact h.mono _ (s1.succs w hw)
          · exact h.mono _ (s1.closed u h1 h2 w hw)
        · exact h.closed u hu h1 w hw
      · intro k q hq
        rcases h.paths k q hq with h1 | h1
        · rcases s1.paths k q h1 with h2 | h2
          · rcases get?_set_new acc inner k path q hnv h2 with h3 | ⟨rfl, rfl⟩
            · exact Or.inl h3
            · exact Or.inr (hgood _ hin)
          · exact Or.inr h2
        · exact Or.inr h1

theorem succ_of_get?_none {ff : G} {outer : String} (h : AL.get? ff outer = none) : succ ff outer = [] := by
  simp [succ, AL.getD, h]
theorem succ_of_get?_some {ff : G} {outer : String} {l : List String} (h : AL.get? ff outer = some l) : succ ff outer = l := by
  simp [succ, AL.getD, h]

/-- the depth-first search meets its specification whenever the fuel covers the fragments not yet visited -/
theorem dfs_spec (fx : Fixes) (hv : fx.v11 = true) (ff : G) (top : String) : ∀ (fuel : Nat) (outer : String) (acc : G)
    (path : List String), remG ff acc ≤ fuel → (∀ k ∈ succ ff outer, Good ff top k path) →
    Spec ff top outer (succ ff outer) acc (cycSearch fx ff fuel outer acc path)
  | 0, outer, acc, path, hrem, _ => by
    rw [cycSearch]
    refine ⟨fun _ _ h => h, fun _ h => Or.inl h, fun b hb => ?_, fun u h1 h2 => absurd h1 h2, fun _ _ h => Or.inl h⟩
    exact remG_zero ff acc (by omega) b (VC.getD_sub_univ ff outer b hb)
  | fuel+1, outer, acc, path, hrem, hgood => by
    rw [cycSearch]
    cases hg : AL.get? ff outer with
    | none =>
      simp only
      rw [succ_of_get?_none hg]
      exact ⟨fun _ _ h => h, fun _ h => Or.inl h, fun _ h => (by cases h), fun u h1 h2 => absurd h1 h2, fun _ _ h => Or.inl h⟩
    | some inners =>
      simp only
      have hs := succ_of_get?_some hg
      rw [hs]
      exact loop_spec fx hv ff top fuel (fun o a p hr hgd => dfs_spec fx hv ff top fuel o a p hr hgd) outer path hgood inners acc
        (fun b hb => by rw [hs]; exact hb) hrem

theorem remG_nil_le (ff : G) : remG ff [] ≤ (VC.univ ff).length := by
  unfold remG VC.rem; exact List.length_filter_le _ _

/-- **spread_closure_is_reachability**: with enough fuel, a search started from `outer` with an empty dict visits exactly
    the fragments reachable from `outer` through at least one spread; the stored paths are `Good` -/
theorem search_top (fx : Fixes) (hv : fx.v11 = true) (ff : G) (fuel : Nat) (hf : (VC.univ ff).length ≤ fuel) (outer : String) :
    (∀ k, vis (cycSearch fx ff fuel outer [] []) k ↔ ReachPlus ff outer k) ∧
    (∀ k q, AL.get? (cycSearch fx ff fuel outer [] []) k = some q → Good ff outer k q) := by
  have sp := dfs_spec fx hv ff outer fuel outer [] [] (Nat.le_trans (remG_nil_le ff) hf) (fun k hk => Or.inl ⟨rfl, hk⟩)
  have hnil : ∀ u, ¬ vis ([] : G) u := fun u h => by simp [vis, AL.has] at h
  constructor
  · intro k
    constructor
    · intro hk
      rcases sp.sound k hk with h | h
      · exact absurd h (hnil k)
      · exact h
    · rintro ⟨b, hb, hr⟩
      have hcl : ∀ a ∈ AL.keys (cycSearch fx ff fuel outer [] []), ∀ w ∈ AL.getD ff a [],
          w ∈ AL.keys (cycSearch fx ff fuel outer [] []) := by
        intro a ha w hw
        rw [AL.mem_keys] at ha ⊢
        exact sp.closed a ha (hnil a) w hw
      have hb' : b ∈ AL.keys (cycSearch fx ff fuel outer [] []) := by rw [AL.mem_keys]; exact sp.succs b hb
      have := VC.closure_closed_reach hcl hb' hr
      rw [AL.mem_keys] at this
      exact this
  · intro k q hq
    rcases sp.paths k q hq with h | h
    · simp [AL.get?] at h
    · exact h


/-! ### `leave_document`: errors ⇔ some recorded fragment reaches itself -/

/-- no fragment is recorded as spreading itself (direct self-spreads are reported when met and never recorded) -/
def NoSelf (ff : G) : Prop := ∀ f, f ∉ succ ff f

theorem cycFuel_ge (ff : G) : (VC.univ ff).length ≤ cycFuel ff := by
  have := VC.foldl_len_ge ff 2
  unfold cycFuel VC.univ at *
  omega

theorem get?_search_none_iff (fx : Fixes) (hv : fx.v11 = true) (ff : G) (outer : String) :
    AL.get? (cycSearch fx ff (cycFuel ff) outer [] []) outer = none ↔ ¬ ReachPlus ff outer outer := by
  have h := (search_top fx hv ff (cycFuel ff) (cycFuel_ge ff) outer).1 outer
  rw [← h]
  simp only [vis, AL.has_eq_isSome]
  cases AL.get? (cycSearch fx ff (cycFuel ff) outer [] []) outer <;> simp

theorem cycStep_acyclic (fx : Fixes) (hv : fx.v11 = true) (ff : G) (st : Nat × List String × Bool) (outer : String)
    (h : ¬ ReachPlus ff outer outer) : cycStep fx ff st outer = st := by
  unfold cycStep
  simp only [(get?_search_none_iff fx hv ff outer).mpr h]

theorem cycStep_mono (fx : Fixes) (ff : G) (st : Nat × List String × Bool) (outer : String) :
    st.1 ≤ (cycStep fx ff st outer).1 := by
  unfold cycStep
  simp only
  split
  · exact Nat.le_refl _
  · split
    · exact Nat.le_refl _
    · split
      · exact Nat.le_refl _
      · exact Nat.le_succ _

theorem foldl_cycStep_mono (fx : Fixes) (ff : G) (ks : List String) (st : Nat × List String × Bool) :
    st.1 ≤ (ks.foldl (cycStep fx ff) st).1 := by
  induction ks generalizing st with
  | nil => exact Nat.le_refl _
  | cons k ks ih => rw [List.foldl_cons]; exact Nat.le_trans (cycStep_mono fx ff st k) (ih _)

/-- the first cyclic fragment met is reported (nothing is in `cyclic` yet, and the stored path ends in a predecessor,
    which is not the fragment itself) -/
theorem cycStep_cyclic (fx : Fixes) (hv : fx.v11 = true) (ff : G) (hns : NoSelf ff) (n : Nat) (b : Bool) (outer : String)
    (h : ReachPlus ff outer outer) : (cycStep fx ff (n, [], b) outer).1 = n + 1 := by
  unfold cycStep
  simp only
  have hsome : AL.get? (cycSearch fx ff (cycFuel ff) outer [] []) outer ≠ none :=
    fun e => (get?_search_none_iff fx hv ff outer).mp e h
  cases hq : AL.get? (cycSearch fx ff (cycFuel ff) outer [] []) outer with
  | none => exact absurd hq hsome
  | some path =>
    simp only
    have hg := (search_top fx hv ff (cycFuel ff) (cycFuel_ge ff) outer).2 outer path hq
    rcases hg with ⟨_, hself⟩ | ⟨u, hu, hsu⟩
    · exact absurd hself (hns outer)
    · simp only [hu]
      have hne : u ≠ outer := fun e => hns outer (e ▸ hsu)
      simp [hne]

/-- **`leave_document` reports nothing ⇔ no recorded fragment reaches itself** -/
theorem cycErrors_zero_iff (fx : Fixes) (hv : fx.v11 = true) (ff : G) (hns : NoSelf ff) :
    (cycErrors fx ff).1 = 0 ↔ ∀ f ∈ AL.keys ff, ¬ ReachPlus ff f f := by
  unfold cycErrors
  simp only
  suffices H : ∀ (ks : List String) (b : Bool),
      ((ks.foldl (cycStep fx ff) (0, [], b)).1 = 0 ↔ ∀ f ∈ ks, ¬ ReachPlus ff f f) from H _ false
  intro ks
  induction ks with
  | nil => intro b; simp
  | cons k ks ih =>
    intro b
    rw [List.foldl_cons]
    by_cases hk : ReachPlus ff k k
    · have h1 := cycStep_cyclic fx hv ff hns 0 b k hk
      have h2 := foldl_cycStep_mono fx ff ks (cycStep fx ff (0, [], b) k)
      constructor
      · intro h0; omega
      · intro hall; exact absurd hk (hall k (List.mem_cons_self ..))
    · rw [cycStep_acyclic fx hv ff _ k hk, ih b]
      simp only [List.mem_cons, forall_eq_or_imp, hk, not_false_eq_true, true_and]

end Cyc
end PyGql.Validate

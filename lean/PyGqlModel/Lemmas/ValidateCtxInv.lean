/-
  An induction principle for the context enumeration `gnDoc down x0 d` (Spec/CtxNodes.lean): a predicate `Inv` on
  contexts that holds at the root and is carried from the context of a parent to the context of a child WHENEVER
  THE CHILD NODE IS `Ok` holds at every listed node, provided every listed node is `Ok`.
  (Used by C20: the contexts are pairs (view in the old schema, view in the new schema), `Ok` = the node satisfies
  the rules on the old schema, `Inv` = the two views are compatible.)
-/
import PyGqlModel.Spec.CtxNodes
set_option linter.unusedVariables false
set_option linter.unusedSectionVars false
namespace PyGql.Validate.Spec
open PyGql PyGql.Validate

section
variable {X : Type} (down : Node → X → X) (Inv : X → Prop) (Ok : Node × X → Prop)

/-- if every listed node is `Ok`, every listed context satisfies `Inv` -/
def AllInv (l : List (Node × X)) : Prop := (∀ p ∈ l, Ok p) → ∀ p ∈ l, Inv p.2

theorem AllInv.nil : AllInv Inv Ok ([] : List (Node × X)) := fun _ p hp => absurd hp List.not_mem_nil

theorem AllInv.append {a b : List (Node × X)} (ha : AllInv Inv Ok a) (hb : AllInv Inv Ok b) : AllInv Inv Ok (a ++ b) := by
  intro hok p hp
  rcases List.mem_append.mp hp with h | h
  · exact ha (fun q hq => hok q (List.mem_append_left _ hq)) p h
  · exact hb (fun q hq => hok q (List.mem_append_right _ hq)) p h

theorem AllInv.flatMap {α} (f : α → List (Node × X)) (as : List α) (h : ∀ a ∈ as, AllInv Inv Ok (f a)) :
    AllInv Inv Ok (as.flatMap f) := by
  induction as with
  | nil => exact AllInv.nil Inv Ok
  | cons a as ih =>
    rw [List.flatMap_cons]
    exact AllInv.append Inv Ok (h a List.mem_cons_self) (ih fun b hb => h b (List.mem_cons_of_mem _ hb))

variable (hstep : ∀ n x, Inv x → Ok (n, down n x) → Inv (down n x))
include hstep

theorem AllInv.node {n : Node} {x : X} {rest : List (Node × X)} (hx : Inv x)
    (hr : Inv (down n x) → AllInv Inv Ok rest) : AllInv Inv Ok ((n, down n x) :: rest) := by
  intro hok
  have h1 := hstep n x hx (hok _ List.mem_cons_self)
  intro p hp
  rcases List.mem_cons.mp hp with h | h
  · rw [h]; exact h1
  · exact hr h1 (fun q hq => hok q (List.mem_cons_of_mem _ hq)) p h

mutual
theorem gnValue_inv : ∀ (v : Value) (x : X), Inv x → AllInv Inv Ok (gnValue down x v)
  | .list vs, x, hx => by rw [gnValue]; exact AllInv.node down Inv Ok hstep hx fun h => gnValues_inv vs _ h
  | .obj fs, x, hx => by rw [gnValue]; exact AllInv.node down Inv Ok hstep hx fun h => gnObjFields_inv fs _ h
  | .var a, x, hx => by rw [gnValue]; exact AllInv.node down Inv Ok hstep hx fun _ => AllInv.nil Inv Ok
  | .int a, x, hx => by rw [gnValue]; exact AllInv.node down Inv Ok hstep hx fun _ => AllInv.nil Inv Ok
  | .float a, x, hx => by rw [gnValue]; exact AllInv.node down Inv Ok hstep hx fun _ => AllInv.nil Inv Ok
  | .str a, x, hx => by rw [gnValue]; exact AllInv.node down Inv Ok hstep hx fun _ => AllInv.nil Inv Ok
  | .bool a, x, hx => by rw [gnValue]; exact AllInv.node down Inv Ok hstep hx fun _ => AllInv.nil Inv Ok
  | .null, x, hx => by rw [gnValue]; exact AllInv.node down Inv Ok hstep hx fun _ => AllInv.nil Inv Ok
  | .enum a, x, hx => by rw [gnValue]; exact AllInv.node down Inv Ok hstep hx fun _ => AllInv.nil Inv Ok
theorem gnValues_inv : ∀ (vs : List Value) (x : X), Inv x → AllInv Inv Ok (gnValues down x vs)
  | [], x, _ => by rw [gnValues]; exact AllInv.nil Inv Ok
  | v :: vs, x, hx => by rw [gnValues]; exact AllInv.append Inv Ok (gnValue_inv v x hx) (gnValues_inv vs x hx)
theorem gnObjField_inv : ∀ (f : ObjField) (x : X), Inv x → AllInv Inv Ok (gnObjField down x f)
  | .mk n v, x, hx => by rw [gnObjField]; exact AllInv.node down Inv Ok hstep hx fun h => gnValue_inv v _ h
theorem gnObjFields_inv : ∀ (fs : List ObjField) (x : X), Inv x → AllInv Inv Ok (gnObjFields down x fs)
  | [], x, _ => by rw [gnObjFields]; exact AllInv.nil Inv Ok
  | f :: fs, x, hx => by rw [gnObjFields]; exact AllInv.append Inv Ok (gnObjField_inv f x hx) (gnObjFields_inv fs x hx)
end

theorem gnArgs_inv (as : List Arg) (x : X) (hx : Inv x) : AllInv Inv Ok (gnArgs down x as) := by
  unfold gnArgs
  apply AllInv.flatMap
  intro a _
  rw [gnArg]
  exact AllInv.node down Inv Ok hstep hx fun h => gnValue_inv down Inv Ok hstep a.value _ h

theorem gnDirs_inv (ds : List Dir) (x : X) (hx : Inv x) : AllInv Inv Ok (gnDirs down x ds) := by
  unfold gnDirs
  apply AllInv.flatMap
  intro d _
  rw [gnDir]
  exact AllInv.node down Inv Ok hstep hx fun h => gnArgs_inv down Inv Ok hstep d.args _ h

mutual
theorem gnSel_inv : ∀ (s : Sel) (x : X), Inv x → AllInv Inv Ok (gnSel down x s)
  | .field al name args dirs true id sub, x, hx => by
    rw [gnSel]
    simp only [↓reduceIte]
    exact AllInv.node down Inv Ok hstep hx fun h =>
      AllInv.append Inv Ok (AllInv.append Inv Ok (gnArgs_inv down Inv Ok hstep args _ h) (gnDirs_inv down Inv Ok hstep dirs _ h))
        (AllInv.node down Inv Ok hstep h fun h2 => gnSels_inv sub _ h2)
  | .field al name args dirs false id sub, x, hx => by
    rw [gnSel]
    simp only [Bool.false_eq_true, ↓reduceIte]
    exact AllInv.node down Inv Ok hstep hx fun h =>
      AllInv.append Inv Ok (AllInv.append Inv Ok (gnArgs_inv down Inv Ok hstep args _ h) (gnDirs_inv down Inv Ok hstep dirs _ h))
        (AllInv.nil Inv Ok)
  | .spread name dirs, x, hx => by
    rw [gnSel]
    exact AllInv.node down Inv Ok hstep hx fun h => gnDirs_inv down Inv Ok hstep dirs _ h
  | .inline on dirs id sub, x, hx => by
    rw [gnSel]
    exact AllInv.node down Inv Ok hstep hx fun h =>
      AllInv.append Inv Ok (gnDirs_inv down Inv Ok hstep dirs _ h)
        (AllInv.node down Inv Ok hstep h fun h2 => gnSels_inv sub _ h2)
theorem gnSels_inv : ∀ (ss : List Sel) (x : X), Inv x → AllInv Inv Ok (gnSels down x ss)
  | [], x, _ => by rw [gnSels]; exact AllInv.nil Inv Ok
  | s :: ss, x, hx => by rw [gnSels]; exact AllInv.append Inv Ok (gnSel_inv s x hx) (gnSels_inv ss x hx)
end

theorem gnVarDef_inv (v : VarDef) (x : X) (hx : Inv x) : AllInv Inv Ok (gnVarDef down x v) := by
  rw [gnVarDef]
  refine AllInv.node down Inv Ok hstep hx fun h => AllInv.append Inv Ok ?_ ?_
  · cases v.default with
    | none => exact AllInv.nil Inv Ok
    | some dv => exact gnValue_inv down Inv Ok hstep dv _ h
  · have h1 : AllInv Inv Ok [((Node.typeNode v.type), down (.typeNode v.type) (down (.varDef v) x))] :=
      AllInv.node down Inv Ok hstep h fun _ => AllInv.nil Inv Ok
    have h2 := gnDirs_inv down Inv Ok hstep v.dirs _ h
    simpa using AllInv.append Inv Ok h1 h2

theorem gnDef_inv (d : Def) (x : X) (hx : Inv x) : AllInv Inv Ok (gnDef down x d) := by
  cases d with
  | op kind name vars dirs id sels =>
    rw [gnDef]
    exact AllInv.node down Inv Ok hstep hx fun h =>
      AllInv.append Inv Ok
        (AllInv.append Inv Ok (AllInv.flatMap Inv Ok _ vars fun v _ => gnVarDef_inv down Inv Ok hstep v _ h) (gnDirs_inv down Inv Ok hstep dirs _ h))
        (AllInv.node down Inv Ok hstep h fun h2 => gnSels_inv down Inv Ok hstep sels _ h2)
  | frag name on dirs id sels =>
    rw [gnDef]
    exact AllInv.node down Inv Ok hstep hx fun h =>
      AllInv.append Inv Ok (gnDirs_inv down Inv Ok hstep dirs _ h)
        (AllInv.node down Inv Ok hstep h fun h2 => gnSels_inv down Inv Ok hstep sels _ h2)
  | ts a b =>
    rw [gnDef]
    exact AllInv.node down Inv Ok hstep hx fun _ => AllInv.nil Inv Ok

/-- **induction over the context enumeration** -/
theorem gnDoc_inv (d : Doc) (x0 : X) (h0 : Inv x0) (hok : ∀ p ∈ gnDoc down x0 d, Ok p) :
    ∀ p ∈ gnDoc down x0 d, Inv p.2 :=
  (AllInv.flatMap Inv Ok _ d.defs fun df _ => gnDef_inv down Inv Ok hstep df x0 h0) hok

end
end PyGql.Validate.Spec

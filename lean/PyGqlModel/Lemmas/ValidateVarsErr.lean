/-
  The three `leave_document` bodies built on `VariablesCollector` report nothing exactly when a statement about
  the collector's look-ups (`VC.sem`) holds; `_flatten_fragments` turns the directly spread fragments into the
  reachable ones. Needs the keys of the iterated maps to be pairwise distinct (`VC.WFall`, an invariant of the walk).
-/
import PyGqlModel.Lemmas.ValidateVarsSem
import PyGqlModel.Lemmas.ValidateVarsClosure
namespace PyGql.Validate
open PyGql PyGql.Validate.Spec

structure VC.WFall (c : VC) : Prop where
  opVars : AL.WF c.opVars
  opDefined : AL.WF c.opDefined
  opFrags : AL.WF c.opFrags
  opVarsIn : AL.AllVals AL.WF c.opVars
  fragVarsIn : AL.AllVals AL.WF c.fragVars

theorem VC.wfall_empty : VC.WFall {} :=
  ⟨AL.wf_nil, AL.wf_nil, AL.wf_nil, (fun _ h => nomatch h), (fun _ h => nomatch h)⟩

theorem wf_record (fx : Fixes) {m : AL (List Usage)} (h : AL.WF m) (x : String) (u : Usage) : AL.WF (VC.record fx m x u) := by
  unfold VC.record
  split
  · exact AL.wf_modify h _ _ _
  · exact AL.wf_set h _ _

theorem VC.wfall_applyEv (fx : Fixes) (e : VEv) {c : VC} (h : c.WFall) : (VC.applyEv fx e c).WFall := by
  obtain ⟨op, frag, ivd, ov, od, ofr, fv, ff⟩ := c
  obtain ⟨h1, h2, h3, h4, h5⟩ := h
  simp only at h1 h2 h3 h4 h5
  cases e with
  | use x u =>
    cases ivd with
    | true => exact ⟨h1, h2, h3, h4, h5⟩
    | false =>
      cases op with
      | some o =>
        exact ⟨AL.wf_modify h1 o [] (fun m => VC.record fx m x u), h2, h3,
          AL.allVals_modify h4 o [] (fun m => VC.record fx m x u) AL.wf_nil (fun v hv => wf_record fx hv x u), h5⟩
      | none =>
        cases frag with
        | some f =>
          exact ⟨h1, h2, h3, h4,
            AL.allVals_modify h5 f [] (fun m => VC.record fx m x u) AL.wf_nil (fun v hv => wf_record fx hv x u)⟩
        | none => exact ⟨h1, h2, h3, h4, h5⟩
  | spread f =>
    cases op with
    | some o => exact ⟨h1, h2, AL.wf_modify h3 o [] (· ++ [f]), h4, h5⟩
    | none =>
      cases frag with
      | some g =>
        simp only [VC.applyEv, VC.enterSpread]
        split <;> exact ⟨h1, h2, h3, h4, h5⟩
      | none => exact ⟨h1, h2, h3, h4, h5⟩
  | defn v =>
    cases op with
    | some o => exact ⟨h1, AL.wf_modify h2 o [] (fun m => AL.set m v.name v), h3, h4, h5⟩
    | none => exact ⟨h1, h2, h3, h4, h5⟩

theorem VC.wfall_applyAll (fx : Fixes) (evs : List VEv) {c : VC} (h : c.WFall) : (VC.applyAll fx evs c).WFall := by
  induction evs generalizing c with
  | nil => exact h
  | cons e evs ih => exact ih (VC.wfall_applyEv fx e h)

theorem wfall_defEffect (fx : Fixes) (s : SchemaD) (x : Def) {c : VC} (h : c.WFall) : (defEffect fx s x c).WFall := by
  cases x with
  | op kind name vars dirs ssid sels =>
    have := VC.wfall_applyAll fx (vlog s (tnDef s (.op kind name vars dirs ssid sels))) (c := c.enterOperation name)
      ⟨h.opVars, h.opDefined, h.opFrags, h.opVarsIn, h.fragVarsIn⟩
    exact ⟨this.opVars, this.opDefined, this.opFrags, this.opVarsIn, this.fragVarsIn⟩
  | frag name on dirs ssid sels =>
    have := VC.wfall_applyAll fx (vlog s (tnDef s (.frag name on dirs ssid sels))) (c := c.enterFragmentDef name)
      ⟨h.opVars, h.opDefined, h.opFrags, h.opVarsIn, h.fragVarsIn⟩
    exact ⟨this.opVars, this.opDefined, this.opFrags, this.opVarsIn, this.fragVarsIn⟩
  | ts a b => exact h

theorem wfall_defEffects (fx : Fixes) (s : SchemaD) (ds : List Def) {c : VC} (h : c.WFall) :
    (ds.foldl (fun cc x => defEffect fx s x cc) c).WFall := by
  induction ds generalizing c with
  | nil => exact h
  | cons x xs ih => exact ih (wfall_defEffect fx s x h)

/-! ### counting loops -/

theorem foldl_count_zero {α} (f : Nat → α → Nat) (ok : α → Prop) (hf : ∀ n a, f n a = 0 ↔ n = 0 ∧ ok a)
    (l : List α) (n0 : Nat) : l.foldl f n0 = 0 ↔ n0 = 0 ∧ ∀ a ∈ l, ok a := by
  induction l generalizing n0 with
  | nil => simp
  | cons a l ih =>
    rw [List.foldl_cons, ih, hf]
    simp only [List.mem_cons, forall_eq_or_imp, and_assoc]

theorem ite_succ_zero (p : Prop) [Decidable p] (n : Nat) : (if p then n else n + 1) = 0 ↔ n = 0 ∧ p := by
  by_cases h : p <;> simp [h]

/-- iterating over the items of a well-formed map of lists = looking every key up -/
theorem forall_entries_iff {α} {m : AL (List α)} (hw : AL.WF m) (P : String → α → Prop) :
    (∀ p ∈ m, ∀ a ∈ p.2, P p.1 a) ↔ ∀ k a, a ∈ AL.getD m k [] → P k a := by
  constructor
  · intro h k a ha
    rcases AL.getD_cases m k [] with e | e
    · rw [e] at ha; cases ha
    · exact h _ e a ha
  · intro h p hp a ha
    apply h p.1 a
    rw [AL.getD_of_mem hw (show (p.1, p.2) ∈ m from hp)]
    exact ha

theorem mem_inner_iff {α} (m : AL α) (x : String) : (∃ q ∈ m, q.1 = x) ↔ AL.has m x = true := by
  rw [AL.has_iff_mem]
  constructor
  · rintro ⟨q, hq, rfl⟩; exact ⟨q.2, hq⟩
  · rintro ⟨v, hv⟩; exact ⟨_, hv, rfl⟩

theorem forall_inner_iff {α} (m : AL α) (Q : String → Prop) :
    (∀ q ∈ m, Q q.1) ↔ ∀ x, AL.has m x = true → Q x := by
  constructor
  · intro h x hx
    obtain ⟨q, hq, rfl⟩ := (mem_inner_iff m x).mpr hx
    exact h q hq
  · intro h q hq
    exact h q.1 ((mem_inner_iff m q.1).mp ⟨q, hq, rfl⟩)

/-! ### NoUndefinedVariablesChecker.leave_document -/

theorem count_inner (D : AL VarDef) (n : Nat) (q : String × List Usage) :
    (match q with | (var, _) => if AL.has D var = true then n else n + 1) = 0 ↔ n = 0 ∧ AL.has D q.1 = true := by
  obtain ⟨var, us⟩ := q; exact ite_succ_zero _ n

theorem undefined_zero_iff (c : VC) (hw : c.WFall) :
    c.undefinedErrors = 0 ↔
      (∀ o f x, f ∈ c.sem.osp o → c.sem.fuseK f x = true → (c.sem.dfn o x).isSome = true) ∧
      (∀ o x, c.sem.ouseK o x = true → (c.sem.dfn o x).isSome = true) := by
  unfold VC.undefinedErrors
  refine (foldl_count_zero _ (fun p : String × AL (List Usage) =>
    ∀ q ∈ p.2, AL.has (AL.getD c.opDefined p.1 []) q.1 = true) ?_ _ _).trans ?_
  · rintro n ⟨o, vars⟩
    exact foldl_count_zero _ _ (count_inner (AL.getD c.opDefined o [])) vars n
  refine (and_congr_left' (foldl_count_zero _ (fun p : String × List String =>
    ∀ f ∈ p.2.eraseDups, ∀ q ∈ AL.getD c.fragVars f [], AL.has (AL.getD c.opDefined p.1 []) q.1 = true) ?_ _ _)).trans ?_
  · rintro n ⟨o, frags⟩
    exact foldl_count_zero _ (fun f => ∀ q ∈ AL.getD c.fragVars f [], AL.has (AL.getD c.opDefined o []) q.1 = true)
      (fun n f => foldl_count_zero _ _ (count_inner (AL.getD c.opDefined o [])) (AL.getD c.fragVars f []) n) _ n
  simp only [true_and, List.mem_eraseDups]
  apply and_congr
  · rw [forall_entries_iff hw.opFrags (fun o f => ∀ q ∈ AL.getD c.fragVars f [], AL.has (AL.getD c.opDefined o []) q.1 = true)]
    constructor
    · intro h o f x hf hx
      obtain ⟨q, hq, rfl⟩ := (mem_inner_iff _ x).mpr hx
      have := h o f hf q hq
      rwa [AL.has_eq_isSome] at this
    · intro h o f hf q hq
      rw [AL.has_eq_isSome]
      exact h o f q.1 hf ((mem_inner_iff _ _).mp ⟨q, hq, rfl⟩)
  · constructor
    · intro h o x hx
      rcases AL.getD_cases c.opVars o [] with e | e
      · have hx' : AL.has (AL.getD c.opVars o []) x = true := hx
        rw [e] at hx'; cases hx'
      · obtain ⟨q, hq, rfl⟩ := (mem_inner_iff _ x).mpr hx
        have := h _ e q hq
        rwa [AL.has_eq_isSome] at this
    · intro h a ha q hq
      rw [AL.has_eq_isSome]
      apply h a.1 q.1
      show AL.has (AL.getD c.opVars a.1 []) q.1 = true
      rw [AL.getD_of_mem hw.opVars (show (a.1, a.2) ∈ c.opVars from ha)]
      exact (mem_inner_iff _ _).mp ⟨q, hq, rfl⟩

end PyGql.Validate

/-
  The clause of 5.3.2 (`Spec.overlappingFieldsCanBeMerged`) along a SIMULATION of documents. `SameDoc`
  (`Lemmas/ValidateOverlapPerm.lean`) covers documents with literally the same selection sets (reordered definitions).
  The other transformations of C06 change the selection lists themselves (order of selections, order of arguments, names
  of fragments, aliases, names of variables): `OvSim s d d'` packages what the clause needs of such a pair -
    `σ` on selection lists, `φ` on fragment names, `ρ` on response names (both injective), `ε` on collected fields,
  with: the selection-set nodes and the fragment table of `d'` are the images of those of `d` (same node identities, same
  type conditions), `TypeInfoVisitor` shows the same parent type inside corresponding sets, the fields / spreads a set
  contains directly are the images, and `ε` keeps parent, name, field definition, sub-selection node and the OUTCOME of
  `_same_arguments` (on fields of the document: `Good`). Then the clause, `ParentsAgree` and the table entry of "" are
  the same for `d` and `d'` (`OvSim.clause_iff`, `OvSim.parentsAgree`).
-/
import PyGqlModel.Lemmas.ValidateOverlapPerm
namespace PyGql.Validate
open PyGql PyGql.Validate.Spec

/-- the parent type `TypeInfoVisitor` shows inside the selection set with node identity `i` -/
def WalkP (s : SchemaD) (d : Doc) (i : Nat) (p : Option String) : Prop :=
  ∃ sels v, (Node.selectionSet i sels, v) ∈ typedNodes s d ∧ v.parent = p

theorem adm_walkP {s : SchemaD} {d : Doc} {i : Nat} {p : Option String} (h : WalkP s d i p) : Adm s d i p := by
  obtain ⟨sels, v, hm, rfl⟩ := h
  exact .walk hm

/-- a field collected directly from a selection set of the document -/
def EntD (s : SchemaD) (d : Doc) (e : FEntry) : Prop := ∃ i sels p rn, SelSet d i sels ∧ CollD s p sels rn e

theorem EntD.sub {s : SchemaD} {d : Doc} {e : FEntry} (h : EntD s d e) (hs : e.hasSub = true) : SelSet d e.ssid e.sub := by
  obtain ⟨i, sels, p, rn, h1, h3⟩ := h
  exact selSet_sub h1 h3 hs

theorem collF_entD {s : SchemaD} {d : Doc} {g rn : String} {e : FEntry} (h : CollF s d g rn e) : EntD s d e := by
  induction h with
  | here t _ c => exact ⟨_, _, _, _, fragTable_selSet t, c⟩
  | there _ _ _ ih => exact ih

theorem coll_entD {s : SchemaD} {d : Doc} {i : Nat} {sels : List Sel} {p : Option String} {rn : String} {e : FEntry}
    (hs : SelSet d i sels) (h : Coll s d p sels rn e) : EntD s d e := by
  rcases h with h | ⟨g, _, hf⟩
  · exact ⟨_, _, _, _, hs, h⟩
  · exact collF_entD hf

structure OvSim (s : SchemaD) (d d' : Doc) where
  σ : List Sel → List Sel
  φ : String → String
  ρ : String → String
  ε : FEntry → FEntry
  Good : FEntry → Prop
  ρ_inj : ∀ a b, ρ a = ρ b → a = b
  φ_inj : ∀ a b, φ a = φ b → a = b
  sets_fwd : ∀ i sels, SelSet d i sels → SelSet d' i (σ sels)
  sets_bwd : ∀ i sels', SelSet d' i sels' → ∃ sels, SelSet d i sels ∧ sels' = σ sels
  walk : ∀ i p, WalkP s d i p ↔ WalkP s d' i p
  frags_fwd : ∀ g on i sels, AL.get? (fragTable d) g = some (on, i, sels) →
    AL.get? (fragTable d') (φ g) = some (on, i, σ sels)
  frags_bwd : ∀ g' on i sels', AL.get? (fragTable d') g' = some (on, i, sels') →
    ∃ g sels, g' = φ g ∧ sels' = σ sels ∧ AL.get? (fragTable d) g = some (on, i, sels)
  collD_fwd : ∀ i sels, SelSet d i sels → ∀ p rn e, CollD s p sels rn e → CollD s p (σ sels) (ρ rn) (ε e)
  collD_bwd : ∀ i sels, SelSet d i sels → ∀ p rn' e', CollD s p (σ sels) rn' e' →
    ∃ rn e, rn' = ρ rn ∧ e' = ε e ∧ CollD s p sels rn e
  spreadD_fwd : ∀ i sels, SelSet d i sels → ∀ g, SpreadD sels g → SpreadD (σ sels) (φ g)
  spreadD_bwd : ∀ i sels, SelSet d i sels → ∀ g', SpreadD (σ sels) g' → ∃ g, g' = φ g ∧ SpreadD sels g
  good_of : ∀ e, EntD s d e → Good e
  ε_parent : ∀ e, (ε e).parent = e.parent
  ε_name : ∀ e, (ε e).name = e.name
  ε_hasSub : ∀ e, (ε e).hasSub = e.hasSub
  ε_ssid : ∀ e, (ε e).ssid = e.ssid
  ε_fdef : ∀ e, (ε e).fdef = e.fdef
  ε_sub : ∀ e, (ε e).sub = σ e.sub
  ε_args : ∀ e1 e2, Good e1 → Good e2 → sameArguments (ε e1).args (ε e2).args = sameArguments e1.args e2.args

namespace OvSim
variable {s : SchemaD} {d d' : Doc} (S : OvSim s d d')
include S

theorem excl (f1 f2 : FEntry) : exclusiveParents s (S.ε f1) (S.ε f2) = exclusiveParents s f1 f2 := by
  simp only [exclusiveParents, S.ε_parent]

theorem adm_fwd {i : Nat} {p : Option String} (ha : Adm s d i p) : Adm s d' i p := by
  induction ha with
  | walk hm => exact adm_walkP ((S.walk _ _).mp ⟨_, _, hm, rfl⟩)
  | frag ht => exact .frag (S.frags_fwd _ _ _ _ ht)
  | @sub i sels p rn e _ hs hc hsub ih =>
    have h := Adm.sub ih (S.sets_fwd _ _ hs) (S.collD_fwd _ _ hs _ _ _ hc) (by rw [S.ε_hasSub]; exact hsub)
    rw [S.ε_ssid, S.ε_fdef] at h
    exact h

theorem adm_bwd {i : Nat} {p : Option String} (ha : Adm s d' i p) : Adm s d i p := by
  induction ha with
  | walk hm => exact adm_walkP ((S.walk _ _).mpr ⟨_, _, hm, rfl⟩)
  | frag ht =>
    obtain ⟨g, sels, _, _, h⟩ := S.frags_bwd _ _ _ _ ht
    exact .frag h
  | @sub i sels' p rn' e' _ hs hc hsub ih =>
    obtain ⟨sels, hs0, rfl⟩ := S.sets_bwd _ _ hs
    obtain ⟨rn, e, rfl, rfl, hc0⟩ := S.collD_bwd _ _ hs0 _ _ _ hc
    rw [S.ε_hasSub] at hsub
    rw [S.ε_ssid, S.ε_fdef]
    exact .sub ih hs0 hc0 hsub

theorem collF_fwd {g rn : String} {e : FEntry} (hc : CollF s d g rn e) : CollF s d' (S.φ g) (S.ρ rn) (S.ε e) := by
  induction hc with
  | here t a c => exact .here (S.frags_fwd _ _ _ _ t) (S.adm_fwd a) (S.collD_fwd _ _ (fragTable_selSet t) _ _ _ c)
  | there t sp _ ih => exact .there (S.frags_fwd _ _ _ _ t) (S.spreadD_fwd _ _ (fragTable_selSet t) _ sp) ih

theorem collF_bwd {g' rn' : String} {e' : FEntry} (hc : CollF s d' g' rn' e') :
    ∀ g, g' = S.φ g → ∃ rn e, rn' = S.ρ rn ∧ e' = S.ε e ∧ CollF s d g rn e := by
  induction hc with
  | here t a c =>
    intro g hg
    obtain ⟨g0, sels, hg0, rfl, ht⟩ := S.frags_bwd _ _ _ _ t
    have : g0 = g := S.φ_inj _ _ (hg0.symm.trans hg)
    subst this
    obtain ⟨rn, e, rfl, rfl, hc0⟩ := S.collD_bwd _ _ (fragTable_selSet ht) _ _ _ c
    exact ⟨rn, e, rfl, rfl, .here ht (S.adm_bwd a) hc0⟩
  | there t sp _ ih =>
    intro g hg
    obtain ⟨g0, sels, hg0, rfl, ht⟩ := S.frags_bwd _ _ _ _ t
    have : g0 = g := S.φ_inj _ _ (hg0.symm.trans hg)
    subst this
    obtain ⟨h, rfl, hsp⟩ := S.spreadD_bwd _ _ (fragTable_selSet ht) _ sp
    obtain ⟨rn, e, rfl, rfl, hc0⟩ := ih h rfl
    exact ⟨rn, e, rfl, rfl, .there ht hsp hc0⟩

theorem coll_fwd {i : Nat} {sels : List Sel} (hs : SelSet d i sels) {p : Option String} {rn : String} {e : FEntry}
    (hc : Coll s d p sels rn e) : Coll s d' p (S.σ sels) (S.ρ rn) (S.ε e) := by
  rcases hc with hc | ⟨g, sp, hf⟩
  · exact Or.inl (S.collD_fwd _ _ hs _ _ _ hc)
  · exact Or.inr ⟨S.φ g, S.spreadD_fwd _ _ hs _ sp, S.collF_fwd hf⟩

theorem coll_bwd {i : Nat} {sels : List Sel} (hs : SelSet d i sels) {p : Option String} {rn' : String} {e' : FEntry}
    (hc : Coll s d' p (S.σ sels) rn' e') : ∃ rn e, rn' = S.ρ rn ∧ e' = S.ε e ∧ Coll s d p sels rn e := by
  rcases hc with hc | ⟨g', sp, hf⟩
  · obtain ⟨rn, e, h1, h2, h3⟩ := S.collD_bwd _ _ hs _ _ _ hc
    exact ⟨rn, e, h1, h2, Or.inl h3⟩
  · obtain ⟨g, rfl, hsp⟩ := S.spreadD_bwd _ _ hs _ sp
    obtain ⟨rn, e, h1, h2, h3⟩ := S.collF_bwd hf g rfl
    exact ⟨rn, e, h1, h2, Or.inr ⟨g, hsp, h3⟩⟩

theorem conf_fwd {pme : Bool} {f1 f2 : FEntry} (hc : Conf s d pme f1 f2) :
    EntD s d f1 → EntD s d f2 → Conf s d' pme (S.ε f1) (S.ε f2) := by
  induction hc with
  | args h1 h2 =>
    intro g1 g2
    refine .args (by rw [S.excl]; exact h1) ?_
    rw [S.ε_name, S.ε_name, S.ε_args _ _ (S.good_of _ g1) (S.good_of _ g2)]
    exact h2
  | types h1 h2 h3 =>
    intro _ _
    exact .types (by rw [S.ε_fdef]; exact h1) (by rw [S.ε_fdef]; exact h2) h3
  | sub s1 s2 a1 a2 c1 c2 _ ih =>
    intro g1 g2
    have hs1 := g1.sub s1
    have hs2 := g2.sub s2
    have k1 := S.coll_fwd hs1 c1
    have k2 := S.coll_fwd hs2 c2
    rw [← S.ε_sub] at k1 k2
    have a1' := S.adm_fwd a1
    have a2' := S.adm_fwd a2
    rw [← S.ε_ssid] at a1' a2'
    refine .sub (by rw [S.ε_hasSub]; exact s1) (by rw [S.ε_hasSub]; exact s2) a1' a2' k1 k2 ?_
    rw [S.excl]
    exact ih (coll_entD hs1 c1) (coll_entD hs2 c2)
  | subSwap s1 s2 a1 a2 c1 c2 _ ih =>
    intro g1 g2
    have hs1 := g1.sub s1
    have hs2 := g2.sub s2
    have k1 := S.coll_fwd hs1 c1
    have k2 := S.coll_fwd hs2 c2
    rw [← S.ε_sub] at k1 k2
    have a1' := S.adm_fwd a1
    have a2' := S.adm_fwd a2
    rw [← S.ε_ssid] at a1' a2'
    refine .subSwap (by rw [S.ε_hasSub]; exact s1) (by rw [S.ε_hasSub]; exact s2) a1' a2' k1 k2 ?_
    rw [S.excl]
    exact ih (coll_entD hs2 c2) (coll_entD hs1 c1)

theorem conf_bwd {pme : Bool} {f1' f2' : FEntry} (hc : Conf s d' pme f1' f2') :
    ∀ f1 f2, f1' = S.ε f1 → f2' = S.ε f2 → EntD s d f1 → EntD s d f2 → Conf s d pme f1 f2 := by
  induction hc with
  | args h1 h2 =>
    rintro f1 f2 rfl rfl g1 g2
    rw [S.excl] at h1
    rw [S.ε_name, S.ε_name, S.ε_args _ _ (S.good_of _ g1) (S.good_of _ g2)] at h2
    exact .args h1 h2
  | types h1 h2 h3 =>
    rintro f1 f2 rfl rfl _ _
    rw [S.ε_fdef] at h1 h2
    exact .types h1 h2 h3
  | sub s1 s2 a1 a2 c1 c2 _ ih =>
    rintro f1 f2 rfl rfl g1 g2
    rw [S.ε_hasSub] at s1 s2
    rw [S.ε_ssid] at a1 a2
    rw [S.ε_sub] at c1 c2
    have hs1 := g1.sub s1
    have hs2 := g2.sub s2
    obtain ⟨rn1, e1, hr1, rfl, k1⟩ := S.coll_bwd hs1 c1
    obtain ⟨rn2, e2, hr2, rfl, k2⟩ := S.coll_bwd hs2 c2
    have : rn1 = rn2 := S.ρ_inj _ _ (hr1.symm.trans hr2)
    subst this
    rw [S.excl] at ih
    exact .sub s1 s2 (S.adm_bwd a1) (S.adm_bwd a2) k1 k2 (ih e1 e2 rfl rfl (coll_entD hs1 k1) (coll_entD hs2 k2))
  | subSwap s1 s2 a1 a2 c1 c2 _ ih =>
    rintro f1 f2 rfl rfl g1 g2
    rw [S.ε_hasSub] at s1 s2
    rw [S.ε_ssid] at a1 a2
    rw [S.ε_sub] at c1 c2
    have hs1 := g1.sub s1
    have hs2 := g2.sub s2
    obtain ⟨rn1, e1, hr1, rfl, k1⟩ := S.coll_bwd hs1 c1
    obtain ⟨rn2, e2, hr2, rfl, k2⟩ := S.coll_bwd hs2 c2
    have : rn1 = rn2 := S.ρ_inj _ _ (hr1.symm.trans hr2)
    subst this
    rw [S.excl] at ih
    exact .subSwap s1 s2 (S.adm_bwd a1) (S.adm_bwd a2) k1 k2 (ih e2 e1 rfl rfl (coll_entD hs2 k2) (coll_entD hs1 k1))

/-- **the clause of 5.3.2 is the same on both sides of a simulation** -/
theorem clause_iff : overlappingFieldsCanBeMerged s d ↔ overlappingFieldsCanBeMerged s d' := by
  constructor
  · intro H i sels' hs' p ha rn' e1' e2' c1 c2 hconf
    obtain ⟨sels, hs, rfl⟩ := S.sets_bwd _ _ hs'
    obtain ⟨rn1, e1, hr1, rfl, k1⟩ := S.coll_bwd hs c1
    obtain ⟨rn2, e2, hr2, rfl, k2⟩ := S.coll_bwd hs c2
    have : rn1 = rn2 := S.ρ_inj _ _ (hr1.symm.trans hr2)
    subst this
    exact H i sels hs p (S.adm_bwd ha) rn1 e1 e2 k1 k2
      (S.conf_bwd hconf e1 e2 rfl rfl (coll_entD hs k1) (coll_entD hs k2))
  · intro H i sels hs p ha rn e1 e2 c1 c2 hconf
    exact H i _ (S.sets_fwd _ _ hs) p (S.adm_fwd ha) _ _ _ (S.coll_fwd hs c1) (S.coll_fwd hs c2)
      (S.conf_fwd hconf (coll_entD hs c1) (coll_entD hs c2))

theorem parentsAgree (hpa : ParentsAgree s d) : ParentsAgree s d' :=
  fun i p q a b => hpa i p q (S.adm_bwd a) (S.adm_bwd b)

theorem parentsAgree_bwd (hpa : ParentsAgree s d') : ParentsAgree s d :=
  fun i p q a b => hpa i p q (S.adm_fwd a) (S.adm_fwd b)

end OvSim
end PyGql.Validate

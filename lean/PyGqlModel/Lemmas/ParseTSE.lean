/-
  Layer 4 (soundness): type-system extensions, `parse_type_system_extension`, and `TSSound`.
-/
import PyGqlModel.Lemmas.ParseTSD
namespace PyGql.Parse
open PyGql PyGql.Ast PyGql.Spec

theorem parseSchemaExtension_eq (fl : Flags) (fuel : Nat) :
    parseSchemaExtension fl fuel = (do
      let start ← peek
      let _ ← expectKeyword K.extend
      let _ ← expectKeyword K.schema
      let directives ← parseDirectives fl fuel true
      let operationTypes ← optMany fuel .curlyL (parseOperationTypeDefinition fl) .curlyR
      if directives.isEmpty ∧ operationTypes.isEmpty then fail "Unexpected token"
      else pure (.schemaExtension directives operationTypes (← mkLoc fl start))) := rfl

theorem not_both_empty {α β} {a : List α} {b : List β} (h : ¬(a.isEmpty = true ∧ b.isEmpty = true)) :
    (!(a.isEmpty && b.isEmpty)) = true := by
  cases a <;> cases b <;> simp_all

theorem parseSchemaExtension_sound (fl : Flags) (fuel : Nat) : DefSound fl (parseSchemaExtension fl fuel) := by
  intro s d s' h
  rw [parseSchemaExtension_eq] at h
  simp only [bind_ok, peek_ok, expectKeyword_ok, ite_ok, fail_ok, failAt_ok, failTokAt_ok, and_false, false_or, mkLoc_ok, pure_ok] at h
  obtain ⟨st, s1, ⟨ts, h1, hs1⟩, k1, s2, ⟨ts2, h2, hk1, hv1, hs2⟩, k2, s3, ⟨ts3, h3, hk2, hv2, hs3⟩, ds, s4, hd, ops, s5,
    ho, hne, loc, s6, ⟨hloc, hs6⟩, hfin⟩ := h
  subst hs1
  obtain ⟨wd, cd⟩ := parseDirectives_sound fl _ _ _ _ _ hd
  obtain ⟨wo, co⟩ := block_sound fl _ (fun x => wfOperationType x = true) operationTypeV
    (parseOperationTypeDefinition_sound fl) _ _ _ _ ho
  subst hs2; subst hs3
  cases hfin; subst hs6; subst hloc
  refine ⟨by simp only [wfDefinition, Bool.and_eq_true]; exact ⟨⟨wd, all_of wo⟩, not_both_empty hne⟩, rfl, ?_⟩
  simp only [definitionV, check_node]
  exact ⟨_, _, h1, chkA_cons (chk_tok h2 (cls_kw hk1 hv1)) (chkA_cons (chk_tok h3 (cls_kw hk2 hv2)) (chkA_app cd co)), rfl⟩

theorem parseScalarTypeExtension_sound (fl : Flags) (fuel : Nat) : DefSound fl (parseScalarTypeExtension fl fuel) := by
  intro s d s' h
  simp only [parseScalarTypeExtension, bind_ok, peek_ok, expectKeyword_ok, ite_ok, fail_ok, failAt_ok, failTokAt_ok, and_false, false_or,
    mkLoc_ok, pure_ok] at h
  obtain ⟨st, s1, ⟨ts, h1, hs1⟩, k1, s2, ⟨ts2, h2, hk1, hv1, hs2⟩, k2, s3, ⟨ts3, h3, hk2, hv2, hs3⟩, nm, s4, hn, ds, s5, hd,
    hne, loc, s6, ⟨hloc, hs6⟩, hfin⟩ := h
  subst hs1
  have cn := parseName_sound fl _ _ _ hn
  obtain ⟨wd, cd⟩ := parseDirectives_sound fl _ _ _ _ _ hd
  subst hs2; subst hs3
  cases hfin; subst hs6; subst hloc
  refine ⟨by simp only [wfDefinition, Bool.and_eq_true]; exact ⟨wd, by simpa using hne⟩, rfl, ?_⟩
  simp only [definitionV, check_node]
  exact ⟨_, _, h1, chkA_cons (chk_tok h2 (cls_kw hk1 hv1)) (chkA_cons (chk_tok h3 (cls_kw hk2 hv2)) (chkA_cons cn cd)), rfl⟩

theorem not_three_empty {α β γ} {a : List α} {b : List β} {c : List γ}
    (h : ¬(a.isEmpty = true ∧ b.isEmpty = true ∧ c.isEmpty = true)) :
    (!(a.isEmpty && b.isEmpty && c.isEmpty)) = true := by
  cases a <;> cases b <;> cases c <;> simp_all

theorem parseObjectTypeExtension_sound (fl : Flags) (fuel : Nat) : DefSound fl (parseObjectTypeExtension fl fuel) := by
  intro s d s' h
  simp only [parseObjectTypeExtension, bind_ok, peek_ok, expectKeyword_ok, ite_ok, fail_ok, failAt_ok, failTokAt_ok, and_false, false_or,
    mkLoc_ok, pure_ok] at h
  obtain ⟨st, s1, ⟨ts, h1, hs1⟩, k1, s2, ⟨ts2, h2, hk1, hv1, hs2⟩, k2, s3, ⟨ts3, h3, hk2, hv2, hs3⟩, nm, s4, hn, ifs, s5, hi,
    ds, s6, hd, fs, s7, hfs, hne, loc, s8, ⟨hloc, hs8⟩, hfin⟩ := h
  subst hs1
  have cn := parseName_sound fl _ _ _ hn
  have ci := parseImplementsInterfaces_sound fl fuel _ _ _ hi
  obtain ⟨wd, cd⟩ := parseDirectives_sound fl _ _ _ _ _ hd
  obtain ⟨wf, cf⟩ := parseFieldsDefinition_sound fl fuel _ _ _ hfs
  subst hs2; subst hs3
  cases hfin; subst hs8; subst hloc
  refine ⟨by simp only [wfDefinition, Bool.and_eq_true]; exact ⟨⟨wd, all_of wf⟩, not_three_empty hne⟩, rfl, ?_⟩
  simp only [definitionV, check_node]
  exact ⟨_, _, h1, chkA_cons (chk_tok h2 (cls_kw hk1 hv1)) (chkA_cons (chk_tok h3 (cls_kw hk2 hv2)) (chkA_cons cn
    (by rw [List.append_assoc]; exact chkA_app ci (chkA_app cd cf)))), rfl⟩

theorem parseInterfaceTypeExtension_sound (fl : Flags) (fuel : Nat) :
    DefSound fl (parseInterfaceTypeExtension fl fuel) := by
  intro s d s' h
  simp only [parseInterfaceTypeExtension, bind_ok, peek_ok, expectKeyword_ok, ite_ok, fail_ok, failAt_ok, failTokAt_ok, and_false, false_or,
    mkLoc_ok, pure_ok] at h
  obtain ⟨st, s1, ⟨ts, h1, hs1⟩, k1, s2, ⟨ts2, h2, hk1, hv1, hs2⟩, k2, s3, ⟨ts3, h3, hk2, hv2, hs3⟩, nm, s4, hn,
    ds, s6, hd, fs, s7, hfs, hne, loc, s8, ⟨hloc, hs8⟩, hfin⟩ := h
  subst hs1
  have cn := parseName_sound fl _ _ _ hn
  obtain ⟨wd, cd⟩ := parseDirectives_sound fl _ _ _ _ _ hd
  obtain ⟨wf, cf⟩ := parseFieldsDefinition_sound fl fuel _ _ _ hfs
  subst hs2; subst hs3
  cases hfin; subst hs8; subst hloc
  refine ⟨by simp only [wfDefinition, Bool.and_eq_true]; exact ⟨⟨wd, all_of wf⟩, not_both_empty hne⟩, rfl, ?_⟩
  simp only [definitionV, check_node]
  exact ⟨_, _, h1, chkA_cons (chk_tok h2 (cls_kw hk1 hv1)) (chkA_cons (chk_tok h3 (cls_kw hk2 hv2)) (chkA_cons cn
    (chkA_app cd cf))), rfl⟩

theorem parseUnionTypeExtension_sound (fl : Flags) (fuel : Nat) : DefSound fl (parseUnionTypeExtension fl fuel) := by
  intro s d s' h
  simp only [parseUnionTypeExtension, bind_ok, peek_ok, expectKeyword_ok, ite_ok, fail_ok, failAt_ok, failTokAt_ok, and_false, false_or,
    mkLoc_ok, pure_ok] at h
  obtain ⟨st, s1, ⟨ts, h1, hs1⟩, k1, s2, ⟨ts2, h2, hk1, hv1, hs2⟩, k2, s3, ⟨ts3, h3, hk2, hv2, hs3⟩, nm, s4, hn,
    ds, s6, hd, us, s7, hu, hne, loc, s8, ⟨hloc, hs8⟩, hfin⟩ := h
  subst hs1
  have cn := parseName_sound fl _ _ _ hn
  obtain ⟨wd, cd⟩ := parseDirectives_sound fl _ _ _ _ _ hd
  have cu := parseUnionMemberTypes_sound fl fuel _ _ _ hu
  subst hs2; subst hs3
  cases hfin; subst hs8; subst hloc
  refine ⟨by simp only [wfDefinition, Bool.and_eq_true]; exact ⟨wd, not_both_empty hne⟩, rfl, ?_⟩
  simp only [definitionV, check_node]
  exact ⟨_, _, h1, chkA_cons (chk_tok h2 (cls_kw hk1 hv1)) (chkA_cons (chk_tok h3 (cls_kw hk2 hv2)) (chkA_cons cn
    (chkA_app cd cu))), rfl⟩

theorem parseEnumTypeExtension_sound (fl : Flags) (fuel : Nat) : DefSound fl (parseEnumTypeExtension fl fuel) := by
  intro s d s' h
  simp only [parseEnumTypeExtension, bind_ok, peek_ok, expectKeyword_ok, ite_ok, fail_ok, failAt_ok, failTokAt_ok, and_false, false_or,
    mkLoc_ok, pure_ok] at h
  obtain ⟨st, s1, ⟨ts, h1, hs1⟩, k1, s2, ⟨ts2, h2, hk1, hv1, hs2⟩, k2, s3, ⟨ts3, h3, hk2, hv2, hs3⟩, nm, s4, hn,
    ds, s6, hd, vs, s7, hvs, hne, loc, s8, ⟨hloc, hs8⟩, hfin⟩ := h
  subst hs1
  have cn := parseName_sound fl _ _ _ hn
  obtain ⟨wd, cd⟩ := parseDirectives_sound fl _ _ _ _ _ hd
  obtain ⟨wv, cv⟩ := parseEnumValuesDefinition_sound fl fuel _ _ _ hvs
  subst hs2; subst hs3
  cases hfin; subst hs8; subst hloc
  refine ⟨by simp only [wfDefinition, Bool.and_eq_true]; exact ⟨⟨wd, all_of wv⟩, not_both_empty hne⟩, rfl, ?_⟩
  simp only [definitionV, check_node]
  exact ⟨_, _, h1, chkA_cons (chk_tok h2 (cls_kw hk1 hv1)) (chkA_cons (chk_tok h3 (cls_kw hk2 hv2)) (chkA_cons cn
    (chkA_app cd cv))), rfl⟩

theorem parseInputObjectTypeExtension_sound (fl : Flags) (fuel : Nat) :
    DefSound fl (parseInputObjectTypeExtension fl fuel) := by
  intro s d s' h
  simp only [parseInputObjectTypeExtension, bind_ok, peek_ok, expectKeyword_ok, ite_ok, fail_ok, failAt_ok, failTokAt_ok, and_false, false_or,
    mkLoc_ok, pure_ok] at h
  obtain ⟨st, s1, ⟨ts, h1, hs1⟩, k1, s2, ⟨ts2, h2, hk1, hv1, hs2⟩, k2, s3, ⟨ts3, h3, hk2, hv2, hs3⟩, nm, s4, hn,
    ds, s6, hd, fs, s7, hfs, hne, loc, s8, ⟨hloc, hs8⟩, hfin⟩ := h
  subst hs1
  have cn := parseName_sound fl _ _ _ hn
  obtain ⟨wd, cd⟩ := parseDirectives_sound fl _ _ _ _ _ hd
  obtain ⟨wf, cf⟩ := parseInputFieldsDefinition_sound fl fuel _ _ _ hfs
  subst hs2; subst hs3
  cases hfin; subst hs8; subst hloc
  refine ⟨by simp only [wfDefinition, Bool.and_eq_true]; exact ⟨⟨wd, all_of wf⟩, not_both_empty hne⟩, rfl, ?_⟩
  simp only [definitionV, check_node]
  exact ⟨_, _, h1, chkA_cons (chk_tok h2 (cls_kw hk1 hv1)) (chkA_cons (chk_tok h3 (cls_kw hk2 hv2)) (chkA_cons cn
    (chkA_app cd cf))), rfl⟩

theorem parseTypeSystemExtension_sound (fl : Flags) (fuel : Nat) : DefSound fl (parseTypeSystemExtension fl fuel) := by
  intro s d s' h
  simp only [parseTypeSystemExtension, bind_ok, peek2_ok, ite_ok, fail_ok, failAt_ok, failTokAt_ok, and_false, or_false] at h
  obtain ⟨kwd, s1, ⟨t0, ts, _, hs1⟩, _, h⟩ := h
  subst hs1
  rcases h with ⟨_, h⟩ | ⟨_, ⟨_, h⟩ | ⟨_, ⟨_, h⟩ | ⟨_, ⟨_, h⟩ | ⟨_, ⟨_, h⟩ | ⟨_, ⟨_, h⟩ | ⟨_, _, h⟩⟩⟩⟩⟩⟩
  · exact parseSchemaExtension_sound fl fuel _ _ _ h
  · exact parseScalarTypeExtension_sound fl fuel _ _ _ h
  · exact parseObjectTypeExtension_sound fl fuel _ _ _ h
  · exact parseInterfaceTypeExtension_sound fl fuel _ _ _ h
  · exact parseUnionTypeExtension_sound fl fuel _ _ _ h
  · exact parseEnumTypeExtension_sound fl fuel _ _ _ h
  · exact parseInputObjectTypeExtension_sound fl fuel _ _ _ h

/-- layer 4, soundness: both type-system dispatchers -/
theorem tsSound (fl : Flags) (fuel : Nat) : TSSound fl fuel :=
  ⟨parseTypeSystemDefinition_sound fl fuel, parseTypeSystemExtension_sound fl fuel⟩

end PyGql.Parse

/-
  Simulation (continued): the type-system definitions and extensions, `parse_definition`, `parse_document`,
  `parse_value`, `parse_type`.
-/
import PyGqlModel.Lemmas.ParseErase2
import PyGqlModel.Lemmas.ParseTSL
namespace PyGql.Parse
open PyGql PyGql.Ast PyGql.Spec

theorem isEmpty_map' {α β} (f : α → β) (l : List α) : (l.map f).isEmpty = l.isEmpty := by
  cases l <;> rfl

theorem parseDescription_E (fl : Flags) :
    parseDescription (E fl) = parseDescription fl >>= fun o => pure (o.map StringValue.erase) := by
  simp only [parseDescription, parseStringLiteral_E, bind_assoc', pure_bind', ite_bind, Option.map]

theorem parseOperationTypeDefinition_E (fl : Flags) :
    parseOperationTypeDefinition (E fl) = parseOperationTypeDefinition fl >>= fun d => pure d.erase := by
  simp only [parseOperationTypeDefinition, parseNamedType_E, mkLoc_E, bind_assoc', pure_bind',
    OperationTypeDefinition.erase]

theorem parseSchemaDefinition_E (fl : Flags) (fuel : Nat) :
    parseSchemaDefinition (E fl) fuel = parseSchemaDefinition fl fuel >>= fun d => pure d.erase := by
  simp only [parseSchemaDefinition, parseDirectives_E, parseOperationTypeDefinition_E, many_E, mkLoc_E, bind_assoc',
    pure_bind', Definition.erase]

theorem parseScalarTypeDefinition_E (fl : Flags) (fuel : Nat) :
    parseScalarTypeDefinition (E fl) fuel = parseScalarTypeDefinition fl fuel >>= fun d => pure d.erase := by
  simp only [parseScalarTypeDefinition, parseDescription_E, parseName_E, parseDirectives_E, mkLoc_E, bind_assoc',
    pure_bind', Definition.erase]

theorem parseImplementsInterfaces_E (fl : Flags) (fuel : Nat) :
    parseImplementsInterfaces (E fl) fuel =
      parseImplementsInterfaces fl fuel >>= fun ts => pure (ts.map NamedType.erase) := by
  simp only [parseImplementsInterfaces, implementsLoop_eq, parseNamedType_E, delimLoop_E, bind_assoc', pure_bind',
    ite_bind, List.map]

theorem parseInputValueDefinition_E (fl : Flags) (fuel : Nat) :
    parseInputValueDefinition (E fl) fuel = parseInputValueDefinition fl fuel >>= fun d => pure d.erase := by
  simp only [parseInputValueDefinition, parseDescription_E, parseName_E, parseTypeReference_E, parseValueLiteral_E,
    parseDirectives_E, mkLoc_E, bind_assoc', pure_bind', ite_bind, InputValueDefinition.erase, Option.map]

theorem parseArgumentDefinitions_E (fl : Flags) (fuel : Nat) :
    parseArgumentDefinitions (E fl) fuel =
      parseArgumentDefinitions fl fuel >>= fun ds => pure (ds.map InputValueDefinition.erase) := by
  simp only [parseArgumentDefinitions_eq, parseInputValueDefinition_E, optMany_E]

theorem parseFieldDefinition_E (fl : Flags) (fuel : Nat) :
    parseFieldDefinition (E fl) fuel = parseFieldDefinition fl fuel >>= fun d => pure d.erase := by
  simp only [parseFieldDefinition, parseDescription_E, parseName_E, parseArgumentDefinitions_E, parseTypeReference_E,
    parseDirectives_E, mkLoc_E, bind_assoc', pure_bind', FieldDefinition.erase]

theorem parseFieldsDefinition_E (fl : Flags) (fuel : Nat) :
    parseFieldsDefinition (E fl) fuel =
      parseFieldsDefinition fl fuel >>= fun ds => pure (ds.map FieldDefinition.erase) := by
  simp only [parseFieldsDefinition_eq, parseFieldDefinition_E, optMany_E]

theorem parseInputFieldsDefinition_E (fl : Flags) (fuel : Nat) :
    parseInputFieldsDefinition (E fl) fuel =
      parseInputFieldsDefinition fl fuel >>= fun ds => pure (ds.map InputValueDefinition.erase) := by
  simp only [parseInputFieldsDefinition_eq, parseInputValueDefinition_E, optMany_E]

theorem parseEnumValueDefinition_E (fl : Flags) (fuel : Nat) :
    parseEnumValueDefinition (E fl) fuel = parseEnumValueDefinition fl fuel >>= fun d => pure d.erase := by
  simp only [parseEnumValueDefinition, parseDescription_E, parseName_E, parseDirectives_E, mkLoc_E, bind_assoc',
    pure_bind', ite_bind, fail_bind, failAt_bind, failTokAt_bind, EnumValueDefinition.erase]

theorem parseEnumValuesDefinition_E (fl : Flags) (fuel : Nat) :
    parseEnumValuesDefinition (E fl) fuel =
      parseEnumValuesDefinition fl fuel >>= fun ds => pure (ds.map EnumValueDefinition.erase) := by
  simp only [parseEnumValuesDefinition_eq, parseEnumValueDefinition_E, optMany_E]

theorem parseUnionMemberTypes_E (fl : Flags) (fuel : Nat) :
    parseUnionMemberTypes (E fl) fuel = parseUnionMemberTypes fl fuel >>= fun ts => pure (ts.map NamedType.erase) := by
  simp only [parseUnionMemberTypes, parseNamedType_E, delimitedList_E, bind_assoc', pure_bind', ite_bind, List.map]

theorem parseDirectiveLocation_E (fl : Flags) :
    parseDirectiveLocation (E fl) = parseDirectiveLocation fl >>= fun n => pure n.erase := by
  simp only [parseDirectiveLocation, parseName_E, bind_assoc', pure_bind', ite_bind, fail_bind, failAt_bind, failTokAt_bind, Name.erase]

theorem parseDirectiveLocations_E (fl : Flags) (fuel : Nat) :
    parseDirectiveLocations (E fl) fuel = parseDirectiveLocations fl fuel >>= fun ns => pure (ns.map Name.erase) := by
  simp only [parseDirectiveLocations, parseDirectiveLocation_E, delimitedList_E]

theorem parseObjectTypeDefinition_E (fl : Flags) (fuel : Nat) :
    parseObjectTypeDefinition (E fl) fuel = parseObjectTypeDefinition fl fuel >>= fun d => pure d.erase := by
  simp only [parseObjectTypeDefinition, parseDescription_E, parseName_E, parseImplementsInterfaces_E, parseDirectives_E,
    parseFieldsDefinition_E, mkLoc_E, bind_assoc', pure_bind', Definition.erase]

theorem parseInterfaceTypeDefinition_E (fl : Flags) (fuel : Nat) :
    parseInterfaceTypeDefinition (E fl) fuel = parseInterfaceTypeDefinition fl fuel >>= fun d => pure d.erase := by
  simp only [parseInterfaceTypeDefinition, parseDescription_E, parseName_E, parseDirectives_E,
    parseFieldsDefinition_E, mkLoc_E, bind_assoc', pure_bind', Definition.erase]

theorem parseUnionTypeDefinition_E (fl : Flags) (fuel : Nat) :
    parseUnionTypeDefinition (E fl) fuel = parseUnionTypeDefinition fl fuel >>= fun d => pure d.erase := by
  simp only [parseUnionTypeDefinition, parseDescription_E, parseName_E, parseDirectives_E,
    parseUnionMemberTypes_E, mkLoc_E, bind_assoc', pure_bind', Definition.erase]

theorem parseEnumTypeDefinition_E (fl : Flags) (fuel : Nat) :
    parseEnumTypeDefinition (E fl) fuel = parseEnumTypeDefinition fl fuel >>= fun d => pure d.erase := by
  simp only [parseEnumTypeDefinition, parseDescription_E, parseName_E, parseDirectives_E,
    parseEnumValuesDefinition_E, mkLoc_E, bind_assoc', pure_bind', Definition.erase]

theorem parseInputObjectTypeDefinition_E (fl : Flags) (fuel : Nat) :
    parseInputObjectTypeDefinition (E fl) fuel = parseInputObjectTypeDefinition fl fuel >>= fun d => pure d.erase := by
  simp only [parseInputObjectTypeDefinition, parseDescription_E, parseName_E, parseDirectives_E,
    parseInputFieldsDefinition_E, mkLoc_E, bind_assoc', pure_bind', Definition.erase]

theorem parseDirectiveDefinition_E (fl : Flags) (fuel : Nat) :
    parseDirectiveDefinition (E fl) fuel = parseDirectiveDefinition fl fuel >>= fun d => pure d.erase := by
  simp only [parseDirectiveDefinition, parseDescription_E, parseName_E, parseArgumentDefinitions_E,
    parseDirectiveLocations_E, mkLoc_E, bind_assoc', pure_bind', Definition.erase]

theorem parseTypeSystemDefinition_E (fl : Flags) (fuel : Nat) :
    parseTypeSystemDefinition (E fl) fuel = parseTypeSystemDefinition fl fuel >>= fun d => pure d.erase := by
  simp only [parseTypeSystemDefinition, parseSchemaDefinition_E, parseScalarTypeDefinition_E,
    parseObjectTypeDefinition_E, parseInterfaceTypeDefinition_E, parseUnionTypeDefinition_E, parseEnumTypeDefinition_E,
    parseInputObjectTypeDefinition_E, parseDirectiveDefinition_E, bind_assoc', ite_bind, fail_bind, failAt_bind, failTokAt_bind]

/-! ### extensions -/

theorem parseSchemaExtension_E (fl : Flags) (fuel : Nat) :
    parseSchemaExtension (E fl) fuel = parseSchemaExtension fl fuel >>= fun d => pure d.erase := by
  simp only [parseSchemaExtension, parseDirectives_E, parseOperationTypeDefinition_E, many_E, mkLoc_E, bind_assoc',
    pure_bind', ite_bind, fail_bind, failAt_bind, failTokAt_bind, isEmpty_map', Definition.erase, List.map]

theorem parseScalarTypeExtension_E (fl : Flags) (fuel : Nat) :
    parseScalarTypeExtension (E fl) fuel = parseScalarTypeExtension fl fuel >>= fun d => pure d.erase := by
  simp only [parseScalarTypeExtension, parseName_E, parseDirectives_E, mkLoc_E, bind_assoc', pure_bind', ite_bind,
    fail_bind, failAt_bind, failTokAt_bind, isEmpty_map', Definition.erase]

theorem parseObjectTypeExtension_E (fl : Flags) (fuel : Nat) :
    parseObjectTypeExtension (E fl) fuel = parseObjectTypeExtension fl fuel >>= fun d => pure d.erase := by
  simp only [parseObjectTypeExtension, parseName_E, parseImplementsInterfaces_E, parseDirectives_E,
    parseFieldsDefinition_E, mkLoc_E, bind_assoc', pure_bind', ite_bind, fail_bind, failAt_bind, failTokAt_bind, isEmpty_map', Definition.erase]

theorem parseInterfaceTypeExtension_E (fl : Flags) (fuel : Nat) :
    parseInterfaceTypeExtension (E fl) fuel = parseInterfaceTypeExtension fl fuel >>= fun d => pure d.erase := by
  simp only [parseInterfaceTypeExtension, parseName_E, parseDirectives_E,
    parseFieldsDefinition_E, mkLoc_E, bind_assoc', pure_bind', ite_bind, fail_bind, failAt_bind, failTokAt_bind, isEmpty_map', Definition.erase]

theorem parseUnionTypeExtension_E (fl : Flags) (fuel : Nat) :
    parseUnionTypeExtension (E fl) fuel = parseUnionTypeExtension fl fuel >>= fun d => pure d.erase := by
  simp only [parseUnionTypeExtension, parseName_E, parseDirectives_E,
    parseUnionMemberTypes_E, mkLoc_E, bind_assoc', pure_bind', ite_bind, fail_bind, failAt_bind, failTokAt_bind, isEmpty_map', Definition.erase]

theorem parseEnumTypeExtension_E (fl : Flags) (fuel : Nat) :
    parseEnumTypeExtension (E fl) fuel = parseEnumTypeExtension fl fuel >>= fun d => pure d.erase := by
  simp only [parseEnumTypeExtension, parseName_E, parseDirectives_E,
    parseEnumValuesDefinition_E, mkLoc_E, bind_assoc', pure_bind', ite_bind, fail_bind, failAt_bind, failTokAt_bind, isEmpty_map', Definition.erase]

theorem parseInputObjectTypeExtension_E (fl : Flags) (fuel : Nat) :
    parseInputObjectTypeExtension (E fl) fuel = parseInputObjectTypeExtension fl fuel >>= fun d => pure d.erase := by
  simp only [parseInputObjectTypeExtension, parseName_E, parseDirectives_E,
    parseInputFieldsDefinition_E, mkLoc_E, bind_assoc', pure_bind', ite_bind, fail_bind, failAt_bind, failTokAt_bind, isEmpty_map', Definition.erase]

theorem parseTypeSystemExtension_E (fl : Flags) (fuel : Nat) :
    parseTypeSystemExtension (E fl) fuel = parseTypeSystemExtension fl fuel >>= fun d => pure d.erase := by
  simp only [parseTypeSystemExtension, parseSchemaExtension_E, parseScalarTypeExtension_E,
    parseObjectTypeExtension_E, parseInterfaceTypeExtension_E, parseUnionTypeExtension_E, parseEnumTypeExtension_E,
    parseInputObjectTypeExtension_E, bind_assoc', ite_bind, fail_bind, failAt_bind, failTokAt_bind]

/-! ### definitions, documents, entry points -/

theorem parseDefinition_E (fl : Flags) (fuel : Nat) :
    parseDefinition (E fl) fuel = parseDefinition fl fuel >>= fun d => pure d.erase := by
  simp only [parseDefinition, E_ts, parseExecutableDefinition_E, parseTypeSystemDefinition_E,
    parseTypeSystemExtension_E, bind_assoc', ite_bind, fail_bind, failAt_bind, failTokAt_bind]

theorem parseDocumentP_E (fl : Flags) (fuel : Nat) :
    parseDocumentP (E fl) fuel = parseDocumentP fl fuel >>= fun d => pure d.erase := by
  simp only [parseDocumentP, parseDefinition_E, many_E, mkLoc_E, bind_assoc', pure_bind', Document.erase]

theorem parseValueP_E (fl : Flags) (fuel : Nat) :
    parseValueP (E fl) fuel = parseValueP fl fuel >>= fun d => pure d.erase := by
  simp only [parseValueP, parseValueLiteral_E, bind_assoc', pure_bind']

theorem parseTypeP_E (fl : Flags) (fuel : Nat) :
    parseTypeP (E fl) fuel = parseTypeP fl fuel >>= fun d => pure d.erase := by
  simp only [parseTypeP, parseTypeReference_E, bind_assoc', pure_bind']

theorem runAll_E {α} (p q : Nat → P α) (e : α → α) (h : ∀ n, p n = q n >>= fun a => pure (e a)) (toks : List Tok) :
    runAll p toks = (runAll q toks).map e := by
  simp only [runAll, h, bind_eq, pure_eq]
  cases hq : q (toks.length + 1) ⟨toks, default⟩ with
  | error err => rfl
  | ok r =>
    rcases r with ⟨a, s⟩
    rcases s with ⟨ts, l⟩
    cases ts <;> rfl

end PyGql.Parse

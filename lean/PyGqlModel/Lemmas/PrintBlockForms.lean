/-
  `BlockLay` for the remaining printed forms of a block string: the empty value and the one-line form `"""  x"""`
  (values that start with a blank and have no line break); descriptions (`is_description=True`) are the value form
  with an empty indent.
-/
import PyGqlModel.Lemmas.PrintBlockLay
import PyGqlModel.Lemmas.PrintBlockScan
import PyGqlModel.Lemmas.PrintLayTSDef
namespace PyGql.PrintTokens
open PyGql PyGql.Lex PyGql.Spec PyGql.PrintLex PyGql.PrintString PyGql.BlockString

theorem indentText_nil (e : Text) : indentText e [] = e := by
  cases e with
  | nil => rfl
  | cons a b => simp [indentText, replaceLF_nil]

/-- a description is printed as a value with an empty indent -/
theorem blockString_desc (v ind : Text) : blockString v ind true = blockString v [] false := by
  unfold blockString
  simp [indentText_nil]

theorem descLay_of_blockLay {ind v : Text} (h : BlockLay [] v) : DescLay ind v := by
  unfold DescLay; rw [blockString_desc]; exact h

/-- `__next__` on a text that starts with `"""`, given what the body scan returns -/
theorem next_tq (n : Nat) (s raw rest : Text) (h : readBlockBody n 0 s = .ok (raw, rest)) :
    next n (tq ++ s) = .ok (⟨.blockString, posAt n (tq ++ s), posAt n rest, parseBlockString raw⟩, some rest) := by
  have h1 : isIgnored 34 = false := by decide
  have h3 : isPrintable 34 = true := by decide
  have h4 : symbolKind 34 = none := by decide
  simp [tq, next, readOverWhitespace, h1, h3, h4, List.isPrefixOf, readBlockString, h, Except.map]

/-- one BlockString token in front, from the body scan and the layout equation -/
theorem lexesTo_tq (s r v : Text) (cs' : List TokClass) (raw : Text)
    (hscan : ∀ n, readBlockBody n 0 s = .ok (raw, r)) (hval : parseBlockString raw = v) (hlen : r.length ≤ s.length)
    (hl : LexesTo r cs') : LexesTo (tq ++ s) ((.blockString, v) :: cs') := by
  intro n fuel hf
  cases fuel with
  | zero => omega
  | succ f =>
    have hn := next_tq n s raw r (hscan n)
    rw [hval] at hn
    obtain ⟨toks, h1, h2⟩ := hl n f (by simp [tq] at hf; omega)
    refine ⟨(⟨.blockString, posAt n (tq ++ s), posAt n r, v⟩ : Tok) :: toks, ?_,
      by simp [classes, cls, hasValue] at h2 ⊢; exact h2⟩
    simp only [lexLoop, hn, h1, List.cons_append]

/-! ### the empty value: `"""⏎⏎"""` -/

theorem isLine_blank {P : Text} (hP : Blank P) : IsLine P := by
  intro c hc; rcases hP c hc with e | e <;> omega

theorem parseBlockString_blank2 (P : Text) (hP : Blank P) : parseBlockString (10 :: (P ++ 10 :: P)) = [] := by
  have hPb := isBlank_of_blank hP
  have hraw : 10 :: (P ++ 10 :: P) = joinLF [[], P, P] := by simp [joinLF]
  have hsplit : splitLines (joinLF [[], P, P]) = [[], P, P] := by
    apply splitLines_joinLF
    intro x hx; simp at hx
    rcases hx with rfl | rfl
    · intro c hc; cases hc
    · exact isLine_blank hP
  rw [hraw]
  unfold parseBlockString
  rw [hsplit]
  have hci : BlockString.commonIndent [[], P, P] = none := by
    simp [BlockString.commonIndent, indentStep_blank _ P hPb]
  simp only [hci]
  rw [popLeading_blank [] _ (by intro c hc; cases hc), popLeading_blank P _ hPb, popLeading_blank P _ hPb]
  simp [popLeading, popTrailing, joinLF]

theorem layoutText_lf_blank {P : Text} (hP : Blank P) : LayoutText (10 :: P) := by
  intro c hc; simp at hc
  rcases hc with rfl | hc
  · exact Or.inl rfl
  · rcases hP c hc with h | h <;> simp [h]

theorem blockLay_empty (ind : Text) : BlockLay ind [] := by
  intro P hP r cs' hr hl
  have hform : blockString [] ind false = tq ++ 10 :: 10 :: tq := by
    simp [blockString, escapeTripleQuotes, escapeTQAux, indentText, tq]
  have hrep : replaceLF P (blockString [] ind false) ++ r = tq ++ ((10 :: (P ++ 10 :: P)) ++ tq ++ r) := by
    rw [hform]; simp [tq, replaceLF]
  have hlay : LayoutText (10 :: (P ++ 10 :: P)) := by
    intro c hc
    have e : 10 :: (P ++ 10 :: P) = (10 :: P) ++ (10 :: P) := by simp
    rw [e] at hc
    rcases List.mem_append.1 hc with h | h <;> exact layoutText_lf_blank hP c h
  rw [hrep]
  refine lexesTo_tq _ r [] cs' _ (fun n => readBlockBody_close n _ r hlay) (parseBlockString_blank2 P hP) (by simp; omega) hl


/-! ### the one-line form `"""  x"""` -/

theorem getLast?_escape : ∀ (v : Text) (k : Nat), (escapeTQAux k v).getLast? = v.getLast?
  | [], k => by cases k <;> rfl
  | a :: t, k + 1 => by
    simp only [escapeTQAux, List.getLast?_cons, getLast?_escape t k]
  | a :: t, 0 => by
    simp only [escapeTQAux]
    split
    · simp only [List.getLast?_cons, getLast?_escape t 2, Option.getD_some]
    · simp only [List.getLast?_cons, getLast?_escape t 0]

theorem leadQ_snoc (s : Text) (c : Nat) (hc : c ≠ 34) : leadQ (s ++ [c]) = leadQ s := by
  induction s with
  | nil => simp [leadQ, hc]
  | cons a t ih => by_cases ha : a = 34 <;> simp [leadQ, ha, ih]

theorem escape_snoc (c : Nat) (hc : c ≠ 34) : ∀ (v0 : Text) (k : Nat),
    escapeTQAux k (v0 ++ [c]) = escapeTQAux k v0 ++ [c]
  | [], 0 => by
    have : ([34, 34, 34] : Text).isPrefixOf [c] = false := by simp [List.isPrefixOf]
    simp [escapeTQAux, this]
  | [], k + 1 => by simp [escapeTQAux]
  | a :: t, k + 1 => by simp [escapeTQAux, escape_snoc c hc t k]
  | a :: t, 0 => by
    have hp : ([34, 34, 34] : Text).isPrefixOf (a :: (t ++ [c])) = ([34, 34, 34] : Text).isPrefixOf (a :: t) := by
      rw [Bool.eq_iff_iff]
      have x := tq_prefix_iff (a :: (t ++ [c]))
      have y := tq_prefix_iff (a :: t)
      simp only [tq] at x y
      rw [x, y]
      have := leadQ_snoc (a :: t) c hc
      simp only [List.cons_append] at this
      rw [this]
    simp only [List.cons_append, escapeTQAux, hp]
    split <;> simp [escape_snoc c hc t _]

theorem escape_noLF (v : Text) (k : Nat) (h : ∀ c ∈ v, c ≠ 10) : ∀ c ∈ escapeTQAux k v, c ≠ 10 := by
  induction v generalizing k with
  | nil => intro c hc; cases k <;> simp [escapeTQAux] at hc
  | cons a t ih =>
    have ha := h a (by simp)
    have ht : ∀ c ∈ t, c ≠ 10 := fun c hc => h c (by simp [hc])
    intro c hc
    cases k with
    | succ k' =>
      simp only [escapeTQAux, List.mem_cons] at hc
      rcases hc with rfl | hc
      · exact ha
      · exact ih k' ht c hc
    | zero =>
      simp only [escapeTQAux] at hc
      split at hc
      · simp only [List.mem_cons] at hc
        rcases hc with rfl | rfl | hc
        · decide
        · exact ha
        · exact ih 2 ht c hc
      · simp only [List.mem_cons] at hc
        rcases hc with rfl | hc
        · exact ha
        · exact ih 0 ht c hc

theorem readBlockBody_last (n : Nat) (c : Nat) (r : Text) (h34 : c ≠ 34) (h92 : c ≠ 92) (hb : blockChar c = true) :
    readBlockBody n 0 (c :: (tq ++ r)) = .ok ([c], r) := by
  have hp : tq.isPrefixOf (c :: (tq ++ r)) = false := by
    simp [tq, List.isPrefixOf]; intro e; exact absurd e.symm h34
  have hbc : (isPrintable c || c == 10 || c == 13) = true := by unfold blockChar at hb; exact hb
  have hcl : readBlockBody n 0 (tq ++ r) = .ok ([], r) := by simp [tq, readBlockBody, List.isPrefixOf]
  rw [readBlockBody]
  simp [hp, h92, hbc, hcl]

theorem parseBlockString_single (v : Text) (hline : IsLine v) (hnb : onlyWhiteSpace v = false) : parseBlockString v = v := by
  have hsplit : splitLines v = [v] := by
    have := splitLines_joinLF v [] (by intro x hx; simp at hx; subst hx; exact hline)
    simpa [joinLF] using this
  unfold parseBlockString
  rw [hsplit]
  have hci : BlockString.commonIndent [v] = none := by simp [BlockString.commonIndent]
  simp only [hci]
  rw [popLeading_nonblank v [] hnb]
  have := popTrailing_nonblank [] v hnb
  simp only [List.nil_append] at this
  rw [this]; simp [joinLF]

theorem parseBlockString_single_lf (v P : Text) (hP : Blank P) (hline : IsLine v) (hnb : onlyWhiteSpace v = false) :
    parseBlockString (v ++ 10 :: P) = v := by
  have hPb := isBlank_of_blank hP
  have hraw : v ++ 10 :: P = joinLF [v, P] := by simp [joinLF]
  have hsplit : splitLines (joinLF [v, P]) = [v, P] := by
    apply splitLines_joinLF
    intro x hx; simp at hx
    rcases hx with rfl | rfl
    · exact hline
    · exact isLine_blank hP
  rw [hraw]
  unfold parseBlockString
  rw [hsplit]
  have hci : BlockString.commonIndent [v, P] = none := by simp [BlockString.commonIndent, indentStep_blank _ P hPb]
  simp only [hci]
  rw [popLeading_nonblank v [P] hnb]
  have e1 := popTrailing_blank [v] P hPb
  have e2 := popTrailing_nonblank [] v hnb
  simp only [List.nil_append, List.cons_append] at e1 e2
  rw [e1, e2]; simp [joinLF]

/-- `BlockLay` for the one-line form: the value starts with a blank, has no line break (so the printer does not add the
    leading / trailing line), is not blank and consists of block-string characters -/
theorem blockLay_oneline (ind v : Text) (hline : IsLine v) (hchars : ∀ c ∈ v, blockChar c = true)
    (hnb : onlyWhiteSpace v = false) (hone : multiLineForm v = false) : BlockLay ind v := by
  intro P hP r cs' hr hl
  have hnoLF : ∀ c ∈ v, c ≠ 10 := fun c hc => (hline c hc).1
  have hesc10 := escape_noLF v 0 hnoLF
  unfold multiLineForm at hone
  simp only [Bool.not_eq_eq_eq_not, Bool.not_false] at hone
  have hform : blockString v ind false = tq ++ ((if (escapeTQAux 0 v).getLast? == some 34 || (escapeTQAux 0 v).getLast? == some 92
      then escapeTQAux 0 v ++ [10] else escapeTQAux 0 v) ++ tq) := by
    cases v with
    | nil => simp at hone
    | cons a t =>
      unfold blockString
      simp only at hone ⊢
      rw [if_pos hone]
      simp [escapeTripleQuotes, tq]
  by_cases hc : ((escapeTQAux 0 v).getLast? == some 34 || (escapeTQAux 0 v).getLast? == some 92) = true
  · -- the printer appends a line feed before the closing quotes
    have hrep : replaceLF P (blockString v ind false) ++ r = tq ++ (escapeTQAux 0 v ++ 10 :: (P ++ (tq ++ r))) := by
      rw [hform, if_pos hc]
      simp [tq, replaceLF_append, replaceLF_noLF P _ hesc10, replaceLF]
    rw [hrep]
    refine lexesTo_tq _ r v cs' (v ++ 10 :: P) (fun n => ?_) (parseBlockString_single_lf v P hP hline hnb) (by simp; omega) hl
    have h1 := readBlockBody_escape n (P ++ (tq ++ r)) v 0 (Nat.zero_le _) hchars
    have h2 := readBlockBody_close n (10 :: P) r (layoutText_lf_blank hP)
    simp only [List.cons_append, List.append_assoc] at h2
    rw [h1, h2]; rfl
  · -- the last character of the value stands directly before the closing quotes
    have hc' : ((escapeTQAux 0 v).getLast? == some 34 || (escapeTQAux 0 v).getLast? == some 92) = false := by simpa using hc
    have hvne : v ≠ [] := by intro e; subst e; simp [onlyWhiteSpace] at hnb
    obtain ⟨v0, c, rfl⟩ : ∃ v0 c, v = v0 ++ [c] := ⟨v.dropLast, v.getLast hvne, (List.dropLast_concat_getLast hvne).symm⟩
    have hlast : (escapeTQAux 0 (v0 ++ [c])).getLast? = some c := by rw [getLast?_escape]; simp
    rw [hlast] at hc'
    have hc34 : c ≠ 34 := by intro e; subst e; simp at hc'
    have hc92 : c ≠ 92 := by intro e; subst e; simp at hc'
    have hcb : blockChar c = true := hchars c (by simp)
    have hv0 : ∀ x ∈ v0, blockChar x = true := fun x hx => hchars x (by simp [hx])
    have hrep : replaceLF P (blockString (v0 ++ [c]) ind false) ++ r = tq ++ (escapeTQAux 0 v0 ++ c :: (tq ++ r)) := by
      rw [hform, hlast]
      have : ((some c == some 34 || some c == some 92) = true) = False := by simp [hc34, hc92]
      simp only [this, ↓reduceIte]
      rw [escape_snoc c hc34] at hesc10 ⊢
      have hc10 : c ≠ 10 := hesc10 c (by simp)
      have h0 : ∀ x ∈ escapeTQAux 0 v0, x ≠ 10 := fun x hx => hesc10 x (by simp [hx])
      simp [tq, replaceLF_append, replaceLF_noLF P _ h0, replaceLF, hc10]
    rw [hrep]
    refine lexesTo_tq _ r (v0 ++ [c]) cs' (v0 ++ [c]) (fun n => ?_) (parseBlockString_single _ hline hnb) (by simp; omega) hl
    rw [readBlockBody_escape_c c hc34 n (tq ++ r) v0 0 (Nat.zero_le _) hv0, readBlockBody_last n c r hc34 hc92 hcb]; rfl


/-! ### every canonical block-string value -/

/-- the shape of the values `BlockStringValue` produces (a condition on the value alone): empty, or lines without CR/LF
    made of block-string characters whose first and last lines are not blank and — unless the value is printed in the
    one-line form — whose smallest indentation over the non-blank lines is 0 -/
def CanonBlock (v : Text) : Prop :=
  v = [] ∨ ∃ (l : Text) (ls : List Text), v = joinLF (l :: ls) ∧ (∀ x ∈ l :: ls, IsLine x) ∧
    (∀ c ∈ v, blockChar c = true) ∧ onlyWhiteSpace l = false ∧
    onlyWhiteSpace ((l :: ls).getLast (by simp)) = false ∧
    (multiLineForm v = true → (l :: ls).foldl indentStep none = some 0)

theorem multiLineForm_of_lf (v : Text) (h : 10 ∈ v) : multiLineForm v = true := by
  unfold multiLineForm
  simp; exact Or.inr h

/-- `BlockLay` for EVERY canonical value, every indentation string: no block-string hypothesis is left -/
theorem blockLay_canon (ind : Text) (hind : Blank ind) (v : Text) (h : CanonBlock v) : BlockLay ind v := by
  rcases h with rfl | ⟨l, ls, rfl, hlines, hchars, hfirst, hlast, hmin⟩
  · exact blockLay_empty ind
  · by_cases hml : multiLineForm (joinLF (l :: ls)) = true
    · exact blockLay_multiline ind l ls hind hlines hchars hfirst hlast (hmin hml) hml
    · have hml' : multiLineForm (joinLF (l :: ls)) = false := by simpa using hml
      cases ls with
      | nil =>
        simp only [joinLF] at hml' hchars ⊢
        exact blockLay_oneline ind l (hlines l (by simp)) hchars hfirst hml'
      | cons b bs =>
        have : 10 ∈ joinLF (l :: b :: bs) := by rw [joinLF_cons_cons]; simp
        rw [multiLineForm_of_lf _ this] at hml'; cases hml'

theorem descLay_canon (ind : Text) (v : Text) (h : CanonBlock v) : DescLay ind v :=
  descLay_of_blockLay (blockLay_canon [] blank_nil v h)

open PyGql.Ast in
mutual
/-- leaf conditions by the SPECIFICATION only: names / integers / floats by the recognisers of `Spec/Lexical.lean`,
    quoted strings arbitrary, block strings `CanonBlock` -/
def specValue : Value → Prop
  | .var v => Spec.Lexical.isName v.name.value = true
  | .int w _ => Spec.Lexical.isIntValue w = true
  | .float w _ => Spec.Lexical.isFloatValue w = true
  | .string s => s.block = true → CanonBlock s.value
  | .boolean _ _ => True
  | .null _ => True
  | .enum w _ => Spec.Lexical.isName w = true
  | .list vs _ => specValues vs
  | .object fs _ => specFields fs
def specValues : List Value → Prop
  | [] => True
  | v :: vs => specValue v ∧ specValues vs
def specField : ObjectField → Prop
  | .mk name value _ => Spec.Lexical.isName name.value = true ∧ specValue value
def specFields : List ObjectField → Prop
  | [] => True
  | f :: fs => specField f ∧ specFields fs
end

open PyGql.Ast in
mutual
theorem okValue_of_spec (ind : Text) (hind : Blank ind) : ∀ (v : Value), specValue v → okValue ind v
  | .var v, h => by simpa [specValue, okValue] using h
  | .int w _, h => by simpa [specValue, okValue] using h
  | .float w _, h => by simpa [specValue, okValue] using h
  | .string s, h => by
    simp only [specValue] at h
    simp only [okValue]
    exact fun hb => blockLay_canon ind hind _ (h hb)
  | .boolean _ _, _ => by simp [okValue]
  | .null _, _ => by simp [okValue]
  | .enum w _, h => by simpa [specValue, okValue] using h
  | .list vs _, h => by
    simp only [specValue] at h; simp only [okValue]; exact okValues_of_spec ind hind vs h
  | .object fs _, h => by
    simp only [specValue] at h; simp only [okValue]; exact okFields_of_spec ind hind fs h
theorem okValues_of_spec (ind : Text) (hind : Blank ind) : ∀ (vs : List Value), specValues vs → okValues ind vs
  | [], _ => by simp [okValues]
  | v :: vs, h => by
    simp only [specValues] at h; simp only [okValues]
    exact ⟨okValue_of_spec ind hind v h.1, okValues_of_spec ind hind vs h.2⟩
theorem okField_of_spec (ind : Text) (hind : Blank ind) : ∀ (f : ObjectField), specField f → okField ind f
  | .mk name value _, h => by
    simp only [specField] at h; simp only [okField]
    exact ⟨h.1, okValue_of_spec ind hind value h.2⟩
theorem okFields_of_spec (ind : Text) (hind : Blank ind) : ∀ (fs : List ObjectField), specFields fs → okFields ind fs
  | [], _ => by simp [okFields]
  | f :: fs, h => by
    simp only [specFields] at h; simp only [okFields]
    exact ⟨okField_of_spec ind hind f h.1, okFields_of_spec ind hind fs h.2⟩
end

end PyGql.PrintTokens

/-
  EVERY document with pairwise distinct selection-set identities HAS SYNTACTIC RANKS: the proposal `synRanks d`
  (`Validate/OverlapRank.lean`: twice the syntactic nesting height of a selection list, +2) passes the check
  `rankSynB` - so the hypothesis `rankSynB …` of the termination / completeness theorems of the memoised overlap search
  follows from `WfIds d` alone.
-/
import PyGqlModel.Lemmas.ValidateOverlapMemo
import PyGqlModel.Lemmas.ValidateOverlapWf
namespace PyGql.Validate
open PyGql PyGql.Validate.Spec

theorem synRankSels_ge_two : ∀ sels : List Sel, 2 ≤ synRankSels sels
  | [] => by rw [synRankSels]; exact Nat.le_refl 2
  | x :: xs => by
    rw [synRankSels]
    exact Nat.le_trans (synRankSels_ge_two xs) (Nat.le_max_right _ _)

theorem synRankSel_le_of_mem {x : Sel} : ∀ {sels : List Sel}, x ∈ sels → synRankSel x ≤ synRankSels sels
  | [], h => by cases h
  | y :: ys, h => by
    rw [synRankSels]
    rcases List.mem_cons.mp h with rfl | h
    · exact Nat.le_max_left _ _
    · exact Nat.le_trans (synRankSel_le_of_mem h) (Nat.le_max_right _ _)

theorem synRank_collD {s : SchemaD} {p : Option String} {sels : List Sel} {rn : String} {e : FEntry}
    (h : CollD s p sels rn e) (hs : e.hasSub = true) : synRankSels e.sub + 2 ≤ synRankSels sels := by
  induction h with
  | @field parent sels alias name args dirs hasSub ssid sub hm =>
    simp only at hs; subst hs
    have := synRankSel_le_of_mem hm
    rw [synRankSel] at this
    simpa using this
  | @inline parent sels on dirs id sub rn e hm _ ih =>
    have := synRankSel_le_of_mem hm
    rw [synRankSel] at this
    exact Nat.le_trans (ih hs) this

theorem rankOf_synRanks {d : Doc} (hw : WfIds d) {i : Nat} {sels : List Sel} (h : SelSet d i sels) :
    rankOf (synRanks d) i = synRankSels sels := by
  have hin : (i, synRankSels sels) ∈ synRanks d := by
    unfold synRanks; exact List.mem_filterMap.mpr ⟨_, h, rfl⟩
  unfold rankOf
  cases hf : (synRanks d).find? (·.1 == i) with
  | none =>
    have := List.find?_eq_none.mp hf _ hin
    simp at this
  | some q =>
    have hq := List.mem_of_find?_eq_some hf
    have hk : q.1 = i := by simpa using List.find?_some hf
    unfold synRanks at hq
    obtain ⟨n, hn, he⟩ := List.mem_filterMap.mp hq
    cases n with
    | selectionSet j sels' =>
      simp only [Option.some.injEq] at he
      subst he
      simp only at hk; subst hk
      have := wf_selSet_unique hw hn h; subst this
      rfl
    | _ => simp at he

theorem le_foldl_max (l : List (Nat × Nat)) : ∀ m : Nat,
    m ≤ l.foldl (fun m p => max m p.2) m ∧ ∀ p ∈ l, p.2 ≤ l.foldl (fun m p => max m p.2) m := by
  induction l with
  | nil => intro m; exact ⟨Nat.le_refl _, fun _ h => nomatch h⟩
  | cons x xs ih =>
    intro m
    rw [List.foldl_cons]
    obtain ⟨a, b⟩ := ih (max m x.2)
    refine ⟨Nat.le_trans (Nat.le_max_left _ _) a, fun p hp => ?_⟩
    rcases List.mem_cons.mp hp with rfl | hp
    · exact Nat.le_trans (Nat.le_max_right _ _) a
    · exact b p hp

theorem le_maxRank {l : List (Nat × Nat)} {p : Nat × Nat} (h : p ∈ l) : p.2 ≤ maxRank l :=
  (le_foldl_max l 2).2 p h

/-- **every document with well-formed identities has syntactic ranks** -/
theorem rankSynB_of_wfIds (s : SchemaD) (d : Doc) (hw : WfIds d) :
    rankSynB s d (rankOf (synRanks d)) (maxRank (synRanks d)) = true := by
  unfold rankSynB
  rw [List.all_eq_true]
  intro n hn
  cases n with
  | selectionSet i sels =>
    have hs : SelSet d i sels := hn
    have hr := rankOf_synRanks hw hs
    have hin : (i, synRankSels sels) ∈ synRanks d := by
      unfold synRanks; exact List.mem_filterMap.mpr ⟨_, hs, rfl⟩
    simp only [nodeRankSyn, Bool.and_eq_true, decide_eq_true_eq, List.all_eq_true]
    refine ⟨⟨by rw [hr]; exact synRankSels_ge_two sels, by rw [hr]; exact le_maxRank hin⟩, ?_⟩
    intro q hq e he
    obtain ⟨a1, _⟩ := collectSels_sound s (CollD s none sels) (fun _ => True) none sels ([], [])
      (fun _ _ h => h) (fun _ _ => trivial) (entOK_nil _) (fun _ h => nomatch h)
    have hc := a1 q hq e he
    rw [hr]
    unfold entryRank
    split
    · rename_i hsub
      rw [rankOf_synRanks hw (selSet_sub hs hc hsub)]
      exact synRank_collD hc hsub
    · have := synRankSels_ge_two sels; omega
  | _ => rfl

end PyGql.Validate

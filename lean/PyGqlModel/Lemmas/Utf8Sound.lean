/-
  The decoder accepts ONLY the UTF-8 encodings of texts of scalar values: `decode bs = ok t → encode t = bs`.
-/
import PyGqlModel.Lemmas.Utf8Roundtrip
namespace PyGql.Utf8

theorem enc1 (b : Nat) (hb : b < 0x80) : encodeChar b = [b] ∧ isScalar b = true := by
  refine ⟨by simp [encodeChar, hb], ?_⟩
  simp [isScalar]; omega

theorem enc2 (b b1 : Nat) (hb : 0xC2 ≤ b ∧ b ≤ 0xDF) (h1 : 0x80 ≤ b1 ∧ b1 ≤ 0xBF) :
    encodeChar ((b - 0xC0) * 64 + (b1 - 0x80)) = [b, b1] ∧ isScalar ((b - 0xC0) * 64 + (b1 - 0x80)) = true := by
  have c1 : ¬ ((b - 0xC0) * 64 + (b1 - 0x80) < 0x80) := by omega
  have c2 : (b - 0xC0) * 64 + (b1 - 0x80) < 0x800 := by omega
  refine ⟨?_, ?_⟩
  · simp only [encodeChar, c1, c2, ↓reduceIte, List.cons.injEq, and_true]
    constructor <;> omega
  · simp [isScalar]; omega

theorem enc3 (b b1 b2 : Nat) (hb : 0xE0 ≤ b ∧ b ≤ 0xEF)
    (h1 : (if b = 0xE0 then 0xA0 else 0x80) ≤ b1 ∧ b1 ≤ (if b = 0xED then 0x9F else 0xBF)) (h2 : 0x80 ≤ b2 ∧ b2 ≤ 0xBF) :
    encodeChar (((b - 0xE0) * 64 + (b1 - 0x80)) * 64 + (b2 - 0x80)) = [b, b1, b2] ∧
      isScalar (((b - 0xE0) * 64 + (b1 - 0x80)) * 64 + (b2 - 0x80)) = true := by
  have h1' : 0x80 ≤ b1 ∧ b1 ≤ 0xBF ∧ (b = 0xE0 → 0xA0 ≤ b1) ∧ (b = 0xED → b1 ≤ 0x9F) := by
    obtain ⟨ha, hb'⟩ := h1
    refine ⟨?_, ?_, ?_, ?_⟩
    · split at ha <;> omega
    · split at hb' <;> omega
    · intro e; simp [e] at ha; exact ha
    · intro e; simp [e] at hb'; exact hb'
  obtain ⟨l1, u1, z1, z2⟩ := h1'
  have c1 : ¬ (((b - 0xE0) * 64 + (b1 - 0x80)) * 64 + (b2 - 0x80) < 0x80) := by
    by_cases e : b = 0xE0
    · have := z1 e; omega
    · omega
  have c2 : ¬ (((b - 0xE0) * 64 + (b1 - 0x80)) * 64 + (b2 - 0x80) < 0x800) := by
    by_cases e : b = 0xE0
    · have := z1 e; omega
    · omega
  have c3 : ((b - 0xE0) * 64 + (b1 - 0x80)) * 64 + (b2 - 0x80) < 0x10000 := by omega
  refine ⟨?_, ?_⟩
  · simp only [encodeChar, c1, c2, c3, ↓reduceIte, List.cons.injEq, and_true]
    refine ⟨?_, ?_, ?_⟩ <;> omega
  · simp only [isScalar, Bool.and_eq_true, decide_eq_true_eq, Bool.not_eq_true', Bool.and_eq_false_iff, decide_eq_false_iff_not]
    refine ⟨by omega, ?_⟩
    by_cases e : b = 0xED
    · have := z2 e; left; omega
    · by_cases lt : b < 0xED
      · left; omega
      · right; omega

theorem enc4 (b b1 b2 b3 : Nat) (hb : 0xF0 ≤ b ∧ b ≤ 0xF4)
    (h1 : (if b = 0xF0 then 0x90 else 0x80) ≤ b1 ∧ b1 ≤ (if b = 0xF4 then 0x8F else 0xBF)) (h2 : 0x80 ≤ b2 ∧ b2 ≤ 0xBF)
    (h3 : 0x80 ≤ b3 ∧ b3 ≤ 0xBF) :
    encodeChar ((((b - 0xF0) * 64 + (b1 - 0x80)) * 64 + (b2 - 0x80)) * 64 + (b3 - 0x80)) = [b, b1, b2, b3] ∧
      isScalar ((((b - 0xF0) * 64 + (b1 - 0x80)) * 64 + (b2 - 0x80)) * 64 + (b3 - 0x80)) = true := by
  have h1' : 0x80 ≤ b1 ∧ b1 ≤ 0xBF ∧ (b = 0xF0 → 0x90 ≤ b1) ∧ (b = 0xF4 → b1 ≤ 0x8F) := by
    obtain ⟨ha, hb'⟩ := h1
    refine ⟨?_, ?_, ?_, ?_⟩
    · split at ha <;> omega
    · split at hb' <;> omega
    · intro e; simp [e] at ha; exact ha
    · intro e; simp [e] at hb'; exact hb'
  obtain ⟨l1, u1, z1, z2⟩ := h1'
  have c3 : ¬ ((((b - 0xF0) * 64 + (b1 - 0x80)) * 64 + (b2 - 0x80)) * 64 + (b3 - 0x80) < 0x10000) := by
    by_cases e : b = 0xF0
    · have := z1 e; omega
    · omega
  have c1 : ¬ ((((b - 0xF0) * 64 + (b1 - 0x80)) * 64 + (b2 - 0x80)) * 64 + (b3 - 0x80) < 0x80) := by omega
  have c2 : ¬ ((((b - 0xF0) * 64 + (b1 - 0x80)) * 64 + (b2 - 0x80)) * 64 + (b3 - 0x80) < 0x800) := by omega
  have c4 : (((b - 0xF0) * 64 + (b1 - 0x80)) * 64 + (b2 - 0x80)) * 64 + (b3 - 0x80) < 0x110000 := by
    by_cases e : b = 0xF4
    · have := z2 e; omega
    · omega
  refine ⟨?_, ?_⟩
  · simp only [encodeChar, c1, c2, c3, ↓reduceIte, List.cons.injEq, and_true]
    refine ⟨?_, ?_, ?_, ?_⟩ <;> omega
  · simp only [isScalar, Bool.and_eq_true, decide_eq_true_eq, Bool.not_eq_true', Bool.and_eq_false_iff, decide_eq_false_iff_not]
    exact ⟨c4, .inr (by omega)⟩

/-- from the initial state the decoder either is at the end, or consumes exactly one encoded scalar value -/
theorem feed_step (out bs : List Nat) (t : Text) (h : feed { out := out } bs = .ok t) :
    (bs = [] ∧ t = out.reverse) ∨
    ∃ c rest, isScalar c = true ∧ bs = encodeChar c ++ rest ∧ feed { out := c :: out } rest = .ok t := by
  cases bs with
  | nil => simp [feed] at h; exact .inl ⟨rfl, h.symm⟩
  | cons b r =>
    right
    rw [feed] at h
    simp only [↓reduceIte] at h
    split at h
    · rename_i hb
      obtain ⟨e, s⟩ := enc1 b hb
      exact ⟨b, r, s, by rw [e]; rfl, h⟩
    split at h
    · rename_i _ hb
      cases r with
      | nil => simp [feed] at h
      | cons b1 r1 =>
        rw [feed] at h
        simp only [show (1 : Nat) ≠ 0 by decide, ↓reduceIte] at h
        split at h
        · rename_i h1
          obtain ⟨e, s⟩ := enc2 b b1 hb h1
          exact ⟨_, r1, s, by rw [e]; rfl, h⟩
        · cases h
    split at h
    · rename_i _ _ hb
      cases r with
      | nil => simp [feed] at h
      | cons b1 r1 =>
        rw [feed] at h
        simp only [show (2 : Nat) ≠ 0 by decide, show (2 : Nat) ≠ 1 by decide, ↓reduceIte] at h
        by_cases h1 : (if b = 0xE0 then 0xA0 else 0x80) ≤ b1 ∧ b1 ≤ (if b = 0xED then 0x9F else 0xBF)
        · simp only [h1, and_self, ↓reduceIte] at h
          cases r1 with
          | nil => simp [feed] at h
          | cons b2 r2 =>
            rw [feed] at h
            simp only [show 2 - 1 = 1 by rfl, show (1 : Nat) ≠ 0 by decide, ↓reduceIte] at h
            split at h
            · rename_i h2
              obtain ⟨e, s⟩ := enc3 b b1 b2 hb h1 h2
              exact ⟨_, r2, s, by rw [e]; rfl, h⟩
            · cases h
        · simp only [h1, ↓reduceIte] at h
          cases h
    split at h
    · rename_i _ _ _ hb
      cases r with
      | nil => simp [feed] at h
      | cons b1 r1 =>
        rw [feed] at h
        simp only [show (3 : Nat) ≠ 0 by decide, show (3 : Nat) ≠ 1 by decide, ↓reduceIte] at h
        by_cases h1 : (if b = 0xF0 then 0x90 else 0x80) ≤ b1 ∧ b1 ≤ (if b = 0xF4 then 0x8F else 0xBF)
        · simp only [h1, and_self, ↓reduceIte] at h
          cases r1 with
          | nil => simp [feed] at h
          | cons b2 r2 =>
            rw [feed] at h
            simp only [show 3 - 1 = 2 by rfl, show (2 : Nat) ≠ 0 by decide, show (2 : Nat) ≠ 1 by decide, ↓reduceIte] at h
            split at h
            · rename_i h2
              cases r2 with
              | nil => simp [feed] at h
              | cons b3 r3 =>
                rw [feed] at h
                simp only [show 2 - 1 = 1 by rfl, show (1 : Nat) ≠ 0 by decide, ↓reduceIte] at h
                split at h
                · rename_i h3
                  obtain ⟨e, s⟩ := enc4 b b1 b2 b3 hb h1 h2 h3
                  exact ⟨_, r3, s, by rw [e]; rfl, h⟩
                · cases h
            · cases h
        · simp only [h1, ↓reduceIte] at h
          cases h
    · cases h

theorem encodeChar_ne_nil (c : Nat) : encodeChar c ≠ [] := by
  unfold encodeChar
  split
  · simp
  · split
    · simp
    · split <;> simp

/-- soundness of the decoder -/
theorem feed_sound : ∀ (k : Nat) (bs out : List Nat) (t : Text), bs.length ≤ k → feed { out := out } bs = .ok t →
    ∃ u, t = out.reverse ++ u ∧ u.all isScalar = true ∧ encode u = bs
  | 0, bs, out, t, hk, h => by
    have : bs = [] := List.length_eq_zero_iff.mp (Nat.le_zero.mp hk)
    subst this
    rcases feed_step out [] t h with ⟨_, rfl⟩ | ⟨c, rest, _, e, _⟩
    · exact ⟨[], by simp, rfl, rfl⟩
    · exact absurd (List.append_eq_nil_iff.mp e.symm).1 (encodeChar_ne_nil c)
  | k + 1, bs, out, t, hk, h => by
    rcases feed_step out bs t h with ⟨rfl, rfl⟩ | ⟨c, rest, hc, rfl, h'⟩
    · exact ⟨[], by simp, rfl, rfl⟩
    · have hl : rest.length ≤ k := by
        have := encodeChar_ne_nil c
        cases hcc : encodeChar c with
        | nil => exact absurd hcc this
        | cons x xs => rw [hcc] at hk; simp at hk; omega
      obtain ⟨u, rfl, hu, rfl⟩ := feed_sound k rest (c :: out) t hl h'
      exact ⟨c :: u, by simp, by simp [hc, hu], by simp [encode]⟩

end PyGql.Utf8

/-
  Layer 4 (soundness): the type-system definitions, extensions and the two dispatchers ⇒ `TSSound`.
-/
import PyGqlModel.Lemmas.ParseTSL
namespace PyGql.Parse
open PyGql PyGql.Ast PyGql.Spec

theorem namedType_sound' (fl : Flags) : ∀ s x s', parseNamedType fl s = .ok (x, s') →
    True ∧ (namedTypeV x).check fl s.last s.toks = some (s'.last, s'.toks) :=
  fun s x s' h => ⟨trivial, parseNamedType_sound fl s x s' h⟩

theorem parseImplementsInterfaces_sound (fl : Flags) (fuel : Nat) (s : PS) (ts : List NamedType) (s' : PS)
    (h : parseImplementsInterfaces fl fuel s = .ok (ts, s')) :
    Item.checkAll fl (implementsV ts) s.last s.toks = some (s'.last, s'.toks) := by
  simp only [parseImplementsInterfaces, bind_ok, peek_ok, ite_ok, advance_ok, pure_ok] at h
  obtain ⟨t, s1, ⟨tl, h1, hs1⟩, h⟩ := h
  subst hs1
  rcases h with ⟨⟨hk, hv⟩, t2, s2, ⟨tl2, h2, hs2⟩, b, s3, hskip, hl⟩ | ⟨_, hfin⟩
  · rw [h1] at h2; cases h2
    subst hs2
    have hd : delimitedList fuel .amp (parseNamedType fl) ⟨tl, t⟩ = .ok (ts, s') := by
      simp only [delimitedList, bind_ok]
      exact ⟨b, s3, hskip, by rw [← implementsLoop_eq]; exact hl⟩
    obtain ⟨ne, _, c, _⟩ := delimitedList_sound fl _ .amp rfl (fun _ => True) namedTypeV (namedType_sound' fl) _ _ _ _ hd
    cases ts with
    | nil => exact (ne rfl).elim
    | cons x xs =>
      simp only [implementsV, List.isEmpty_cons, Bool.false_eq_true, if_false]
      exact chkA_cons (chk_tok h1 (cls_kw hk hv)) c
  · cases hfin
    simp [implementsV, Item.checkAll]

theorem parseUnionMemberTypes_sound (fl : Flags) (fuel : Nat) (s : PS) (ts : List NamedType) (s' : PS)
    (h : parseUnionMemberTypes fl fuel s = .ok (ts, s')) :
    Item.checkAll fl (unionMembersV ts) s.last s.toks = some (s'.last, s'.toks) := by
  simp only [parseUnionMemberTypes, bind_ok, skip_ok, ite_ok, pure_ok] at h
  obtain ⟨b, s1, ⟨t, tl, h1, hb⟩, h⟩ := h
  rcases hb with ⟨hk, rfl, rfl⟩ | ⟨hk, rfl, rfl⟩
  · simp only [true_and, not_true_eq_false, false_and, or_false] at h
    obtain ⟨ne, _, c, _⟩ := delimitedList_sound fl _ .pipe rfl (fun _ => True) namedTypeV (namedType_sound' fl) _ _ _ _ h
    cases ts with
    | nil => exact (ne rfl).elim
    | cons x xs =>
      simp only [unionMembersV, List.isEmpty_cons, Bool.false_eq_true, if_false]
      exact chkA_cons (chk_tok h1 (cls_const hk rfl)) c
  · simp only [Bool.false_eq_true, false_and, not_false_eq_true, true_and, false_or] at h
    cases h
    simp [unionMembersV, Item.checkAll]

theorem parseDirectiveLocation_sound (fl : Flags) : ∀ s x s', parseDirectiveLocation fl s = .ok (x, s') →
    x.value ∈ Generated.ParserTables.directiveLocations ∧ (nameV x).check fl s.last s.toks = some (s'.last, s'.toks) := by
  intro s x s' h
  simp only [parseDirectiveLocation, bind_ok, peek_ok, ite_ok, pure_ok, fail_ok, failAt_ok, failTokAt_ok, and_false,
    or_false] at h
  obtain ⟨st, s0, ⟨ts, h1, hs0⟩, n, s1, hn, hm, hfin⟩ := h
  subst hs0
  cases hfin
  exact ⟨hm, parseName_sound fl _ _ _ hn⟩

/-! ### definitions -/

/-- what every definition parser must deliver -/
abbrev DefSound (fl : Flags) (p : P Definition) : Prop :=
  ∀ s d s', p s = .ok (d, s') →
    wfDefinition fl d = true ∧ isTypeSystem d = true ∧ (definitionV d).check fl s.last s.toks = some (s'.last, s'.toks)

theorem all_of {α} {f : α → Bool} {xs : List α} (h : ∀ x ∈ xs, f x = true) : xs.all f = true := by
  simpa [List.all_eq_true] using h

theorem parseSchemaDefinition_sound (fl : Flags) (fuel : Nat) : DefSound fl (parseSchemaDefinition fl fuel) := by
  intro s d s' h
  simp only [parseSchemaDefinition, bind_ok, peek_ok, expectKeyword_ok, mkLoc_ok, pure_ok] at h
  obtain ⟨st, s1, ⟨ts, h1, hs1⟩, k, s2, ⟨ts2, h2, hk, hv, hs2⟩, ds, s3, hd, ops, s4, hm, loc, s5, ⟨hloc, hs5⟩, hfin⟩ := h
  subst hs1
  obtain ⟨wd, cd⟩ := parseDirectives_sound fl _ _ _ _ _ hd
  obtain ⟨ne, q, cm⟩ := many_sound fl _ .curlyL .curlyR rfl rfl (fun x => wfOperationType x = true) operationTypeV
    (parseOperationTypeDefinition_sound fl) _ _ _ _ hm
  subst hs2
  cases hfin; subst hs5; subst hloc
  refine ⟨?_, rfl, ?_⟩
  · simp only [wfDefinition, Bool.and_eq_true, Bool.not_eq_true', List.isEmpty_eq_false_iff]
    exact ⟨⟨wd, ne⟩, all_of q⟩
  · simp only [definitionV, check_node]
    exact ⟨_, _, h1, chkA_cons (chk_tok h2 (cls_kw hk hv)) (chkA_app cd cm), rfl⟩

theorem parseScalarTypeDefinition_sound (fl : Flags) (fuel : Nat) : DefSound fl (parseScalarTypeDefinition fl fuel) := by
  intro s d s' h
  simp only [parseScalarTypeDefinition, bind_ok, peek_ok, expectKeyword_ok, mkLoc_ok, pure_ok] at h
  obtain ⟨st, s1, ⟨ts, h1, hs1⟩, desc, s2, hdesc, k, s3, ⟨ts3, h3, hk, hv, hs3⟩, nm, s4, hn, ds, s5, hd, loc, s6,
    ⟨hloc, hs6⟩, hfin⟩ := h
  subst hs1
  have cdesc := parseDescription_sound fl _ _ _ hdesc
  have cn := parseName_sound fl _ _ _ hn
  obtain ⟨wd, cd⟩ := parseDirectives_sound fl _ _ _ _ _ hd
  subst hs3
  cases hfin; subst hs6; subst hloc
  refine ⟨by simpa [wfDefinition] using wd, rfl, ?_⟩
  simp only [definitionV, check_node]
  exact ⟨_, _, h1, chkA_app cdesc (chkA_cons (chk_tok h3 (cls_kw hk hv)) (chkA_cons cn cd)), rfl⟩

theorem parseObjectTypeDefinition_sound (fl : Flags) (fuel : Nat) : DefSound fl (parseObjectTypeDefinition fl fuel) := by
  intro s d s' h
  simp only [parseObjectTypeDefinition, bind_ok, peek_ok, expectKeyword_ok, mkLoc_ok, pure_ok] at h
  obtain ⟨st, s1, ⟨ts, h1, hs1⟩, desc, s2, hdesc, k, s3, ⟨ts3, h3, hk, hv, hs3⟩, nm, s4, hn, ifs, s5, hi, ds, s6, hd,
    fs, s7, hfs, loc, s8, ⟨hloc, hs8⟩, hfin⟩ := h
  subst hs1
  have cdesc := parseDescription_sound fl _ _ _ hdesc
  have cn := parseName_sound fl _ _ _ hn
  have ci := parseImplementsInterfaces_sound fl fuel _ _ _ hi
  obtain ⟨wd, cd⟩ := parseDirectives_sound fl _ _ _ _ _ hd
  obtain ⟨wf, cf⟩ := parseFieldsDefinition_sound fl fuel _ _ _ hfs
  subst hs3
  cases hfin; subst hs8; subst hloc
  refine ⟨by simp [wfDefinition, wd, all_of wf], rfl, ?_⟩
  simp only [definitionV, check_node]
  exact ⟨_, _, h1, chkA_app cdesc (chkA_cons (chk_tok h3 (cls_kw hk hv)) (chkA_cons cn
    (by rw [List.append_assoc]; exact chkA_app ci (chkA_app cd cf)))), rfl⟩

theorem parseInterfaceTypeDefinition_sound (fl : Flags) (fuel : Nat) :
    DefSound fl (parseInterfaceTypeDefinition fl fuel) := by
  intro s d s' h
  simp only [parseInterfaceTypeDefinition, bind_ok, peek_ok, expectKeyword_ok, mkLoc_ok, pure_ok] at h
  obtain ⟨st, s1, ⟨ts, h1, hs1⟩, desc, s2, hdesc, k, s3, ⟨ts3, h3, hk, hv, hs3⟩, nm, s4, hn, ds, s6, hd,
    fs, s7, hfs, loc, s8, ⟨hloc, hs8⟩, hfin⟩ := h
  subst hs1
  have cdesc := parseDescription_sound fl _ _ _ hdesc
  have cn := parseName_sound fl _ _ _ hn
  obtain ⟨wd, cd⟩ := parseDirectives_sound fl _ _ _ _ _ hd
  obtain ⟨wf, cf⟩ := parseFieldsDefinition_sound fl fuel _ _ _ hfs
  subst hs3
  cases hfin; subst hs8; subst hloc
  refine ⟨by simp [wfDefinition, wd, all_of wf], rfl, ?_⟩
  simp only [definitionV, check_node]
  exact ⟨_, _, h1, chkA_app cdesc (chkA_cons (chk_tok h3 (cls_kw hk hv)) (chkA_cons cn (chkA_app cd cf))), rfl⟩

theorem parseUnionTypeDefinition_sound (fl : Flags) (fuel : Nat) : DefSound fl (parseUnionTypeDefinition fl fuel) := by
  intro s d s' h
  simp only [parseUnionTypeDefinition, bind_ok, peek_ok, expectKeyword_ok, mkLoc_ok, pure_ok] at h
  obtain ⟨st, s1, ⟨ts, h1, hs1⟩, desc, s2, hdesc, k, s3, ⟨ts3, h3, hk, hv, hs3⟩, nm, s4, hn, ds, s6, hd,
    us, s7, hu, loc, s8, ⟨hloc, hs8⟩, hfin⟩ := h
  subst hs1
  have cdesc := parseDescription_sound fl _ _ _ hdesc
  have cn := parseName_sound fl _ _ _ hn
  obtain ⟨wd, cd⟩ := parseDirectives_sound fl _ _ _ _ _ hd
  have cu := parseUnionMemberTypes_sound fl fuel _ _ _ hu
  subst hs3
  cases hfin; subst hs8; subst hloc
  refine ⟨by simp [wfDefinition, wd], rfl, ?_⟩
  simp only [definitionV, check_node]
  exact ⟨_, _, h1, chkA_app cdesc (chkA_cons (chk_tok h3 (cls_kw hk hv)) (chkA_cons cn (chkA_app cd cu))), rfl⟩

theorem parseEnumTypeDefinition_sound (fl : Flags) (fuel : Nat) : DefSound fl (parseEnumTypeDefinition fl fuel) := by
  intro s d s' h
  simp only [parseEnumTypeDefinition, bind_ok, peek_ok, expectKeyword_ok, mkLoc_ok, pure_ok] at h
  obtain ⟨st, s1, ⟨ts, h1, hs1⟩, desc, s2, hdesc, k, s3, ⟨ts3, h3, hk, hv, hs3⟩, nm, s4, hn, ds, s6, hd,
    vs, s7, hvs, loc, s8, ⟨hloc, hs8⟩, hfin⟩ := h
  subst hs1
  have cdesc := parseDescription_sound fl _ _ _ hdesc
  have cn := parseName_sound fl _ _ _ hn
  obtain ⟨wd, cd⟩ := parseDirectives_sound fl _ _ _ _ _ hd
  obtain ⟨wv, cv⟩ := parseEnumValuesDefinition_sound fl fuel _ _ _ hvs
  subst hs3
  cases hfin; subst hs8; subst hloc
  refine ⟨by simp [wfDefinition, wd, all_of wv], rfl, ?_⟩
  simp only [definitionV, check_node]
  exact ⟨_, _, h1, chkA_app cdesc (chkA_cons (chk_tok h3 (cls_kw hk hv)) (chkA_cons cn (chkA_app cd cv))), rfl⟩

theorem parseInputObjectTypeDefinition_sound (fl : Flags) (fuel : Nat) :
    DefSound fl (parseInputObjectTypeDefinition fl fuel) := by
  intro s d s' h
  simp only [parseInputObjectTypeDefinition, bind_ok, peek_ok, expectKeyword_ok, mkLoc_ok, pure_ok] at h
  obtain ⟨st, s1, ⟨ts, h1, hs1⟩, desc, s2, hdesc, k, s3, ⟨ts3, h3, hk, hv, hs3⟩, nm, s4, hn, ds, s6, hd,
    fs, s7, hfs, loc, s8, ⟨hloc, hs8⟩, hfin⟩ := h
  subst hs1
  have cdesc := parseDescription_sound fl _ _ _ hdesc
  have cn := parseName_sound fl _ _ _ hn
  obtain ⟨wd, cd⟩ := parseDirectives_sound fl _ _ _ _ _ hd
  obtain ⟨wf, cf⟩ := parseInputFieldsDefinition_sound fl fuel _ _ _ hfs
  subst hs3
  cases hfin; subst hs8; subst hloc
  refine ⟨by simp [wfDefinition, wd, all_of wf], rfl, ?_⟩
  simp only [definitionV, check_node]
  exact ⟨_, _, h1, chkA_app cdesc (chkA_cons (chk_tok h3 (cls_kw hk hv)) (chkA_cons cn (chkA_app cd cf))), rfl⟩

theorem parseDirectiveDefinition_sound (fl : Flags) (fuel : Nat) : DefSound fl (parseDirectiveDefinition fl fuel) := by
  intro s d s' h
  simp only [parseDirectiveDefinition, parseDirectiveLocations, bind_ok, peek_ok, expectKeyword_ok, expect_ok,
    mkLoc_ok, pure_ok] at h
  obtain ⟨st, s1, ⟨ts, h1, hs1⟩, desc, s2, hdesc, k, s3, ⟨ts3, h3, hk, hv, hs3⟩, at_, s4, ⟨ts4, h4, hk4, hs4⟩, nm, s5, hn,
    args, s6, ha, kon, s7, ⟨ts7, h7, hko, hvo, hs7⟩, locs, s8, hl, loc, s9, ⟨hloc, hs9⟩, hfin⟩ := h
  subst hs1
  have cdesc := parseDescription_sound fl _ _ _ hdesc
  have cn := parseName_sound fl _ _ _ hn
  obtain ⟨wa, ca⟩ := parseArgumentDefinitions_sound fl fuel _ _ _ ha
  obtain ⟨ne, ql, cl, _⟩ := delimitedList_sound fl _ .pipe rfl
    (fun n : Name => n.value ∈ Generated.ParserTables.directiveLocations) nameV (parseDirectiveLocation_sound fl) _ _ _ _ hl
  subst hs3; subst hs4; subst hs7
  cases hfin; subst hs9; subst hloc
  refine ⟨?_, rfl, ?_⟩
  · simp only [wfDefinition, Bool.and_eq_true, Bool.not_eq_true', List.isEmpty_eq_false_iff]
    exact ⟨⟨all_of wa, ne⟩, all_of (by simpa using ql)⟩
  · simp only [definitionV, check_node]
    exact ⟨_, _, h1, chkA_app cdesc (chkA_cons (chk_tok h3 (cls_kw hk hv)) (chkA_cons (chk_tok h4 (cls_const hk4 rfl))
      (chkA_cons cn (chkA_app ca (chkA_cons (chk_tok h7 (cls_kw hko hvo)) cl))))), rfl⟩

theorem parseTypeSystemDefinition_sound (fl : Flags) (fuel : Nat) : DefSound fl (parseTypeSystemDefinition fl fuel) := by
  intro s d s' h
  simp only [parseTypeSystemDefinition, bind_ok, peek_ok, ite_ok, fail_ok, failAt_ok, failTokAt_ok, and_false, or_false] at h
  obtain ⟨nx, s1, _, kwd, s2, hkw, h⟩ := h
  have hs : s2 = s := by
    obtain ⟨_, _, rfl⟩ := ‹∃ ts, s.toks = nx :: ts ∧ s1 = s›
    rcases hkw with ⟨_, h⟩ | ⟨_, h⟩
    · rw [peek2_ok] at h; obtain ⟨_, _, _, e⟩ := h; exact e
    · rw [pure_ok] at h; cases h; rfl
  subst hs
  obtain ⟨_, h⟩ := h
  rcases h with ⟨_, h⟩ | ⟨_, ⟨_, h⟩ | ⟨_, ⟨_, h⟩ | ⟨_, ⟨_, h⟩ | ⟨_, ⟨_, h⟩ | ⟨_, ⟨_, h⟩ | ⟨_, ⟨_, h⟩ | ⟨_, _, h⟩⟩⟩⟩⟩⟩⟩
  · exact parseSchemaDefinition_sound fl fuel _ _ _ h
  · exact parseScalarTypeDefinition_sound fl fuel _ _ _ h
  · exact parseObjectTypeDefinition_sound fl fuel _ _ _ h
  · exact parseInterfaceTypeDefinition_sound fl fuel _ _ _ h
  · exact parseUnionTypeDefinition_sound fl fuel _ _ _ h
  · exact parseEnumTypeDefinition_sound fl fuel _ _ _ h
  · exact parseInputObjectTypeDefinition_sound fl fuel _ _ _ h
  · exact parseDirectiveDefinition_sound fl fuel _ _ _ h

end PyGql.Parse

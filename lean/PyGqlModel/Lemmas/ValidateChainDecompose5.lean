/-
  Part 5: every visit function of `Validate/ChainPar.lean` is `GoodS` (the walk skeleton of part 3 once more), and
  `chainPar_attribution`: if every member but `r0` is silent alone and `r0` is not, the chain records an error OF `r0`.
-/
import PyGqlModel.Lemmas.ValidateChainDecompose4
namespace PyGql.Validate
open PyGql

section
variable {er : ER} (F : Framed er)
include F

mutual
theorem goodS_value : ∀ v : Value, GoodS (fun c => visitValuePar er c v)
  | .list vs => (GoodS.node F (.value (.list vs)) (goodS_values vs)).congr fun c st => by rw [visitValuePar]
  | .obj fs => (GoodS.node F (.value (.obj fs)) (goodS_objFields fs)).congr fun c st => by rw [visitValuePar]
  | .var x => (GoodS.node F (.value (.var x)) GoodS.id).congr fun c st => by rw [visitValuePar]
  | .int x => (GoodS.node F (.value (.int x)) GoodS.id).congr fun c st => by rw [visitValuePar]
  | .float x => (GoodS.node F (.value (.float x)) GoodS.id).congr fun c st => by rw [visitValuePar]
  | .str x => (GoodS.node F (.value (.str x)) GoodS.id).congr fun c st => by rw [visitValuePar]
  | .bool x => (GoodS.node F (.value (.bool x)) GoodS.id).congr fun c st => by rw [visitValuePar]
  | .null => (GoodS.node F (.value .null) GoodS.id).congr fun c st => by rw [visitValuePar]
  | .enum x => (GoodS.node F (.value (.enum x)) GoodS.id).congr fun c st => by rw [visitValuePar]
theorem goodS_values : ∀ vs : List Value, GoodS (fun c => visitValuesPar er c vs)
  | [] => GoodS.id.congr fun c st => by rw [visitValuesPar]
  | v :: vs => (GoodS.comp (goodS_value v) (goodS_values vs)).congr fun c st => by rw [visitValuesPar]
theorem goodS_objField : ∀ f : ObjField, GoodS (fun c => visitObjFieldPar er c f)
  | .mk name v => (GoodS.node F (.objField name) (goodS_value v)).congr fun c st => by rw [visitObjFieldPar]
theorem goodS_objFields : ∀ fs : List ObjField, GoodS (fun c => visitObjFieldsPar er c fs)
  | [] => GoodS.id.congr fun c st => by rw [visitObjFieldsPar]
  | f :: fs => (GoodS.comp (goodS_objField f) (goodS_objFields fs)).congr fun c st => by rw [visitObjFieldsPar]
end

theorem goodS_argument (a : Arg) : GoodS (fun c => visitArgumentPar er c a) :=
  (GoodS.node F (.argument a) (goodS_value F a.value)).congr fun _ _ => rfl

theorem goodS_arguments (as : List Arg) : GoodS (fun c => visitArgumentsPar er c as) :=
  (GoodS.foldl (fun a c => visitArgumentPar er c a) as fun a _ => goodS_argument F a).congr fun _ _ => rfl

theorem goodS_directive (d : Dir) : GoodS (fun c => visitDirectivePar er c d) :=
  (GoodS.node F (.directive d) (goodS_arguments F d.args)).congr fun _ _ => rfl

theorem goodS_directives (ds : List Dir) : GoodS (fun c => visitDirectivesPar er c ds) :=
  (GoodS.foldl (fun d c => visitDirectivePar er c d) ds fun d _ => goodS_directive F d).congr fun _ _ => rfl

mutual
theorem goodS_sel : ∀ x : Sel, GoodS (fun c => visitSelPar er c x)
  | .field al name args dirs hasSub ssid sub =>
    (GoodS.node F (.field name args dirs hasSub)
      (GoodS.comp (GoodS.comp (goodS_arguments F args) (goodS_directives F dirs))
        (GoodS.ite hasSub (GoodS.node F (.selectionSet ssid sub) (goodS_sels sub))))).congr fun c st => by
      rw [visitSelPar]
  | .spread name dirs => (GoodS.node F (.spread name dirs) (goodS_directives F dirs)).congr fun c st => by rw [visitSelPar]
  | .inline on dirs ssid sub =>
    (GoodS.node F (.inline on dirs)
      (GoodS.comp (goodS_directives F dirs) (GoodS.node F (.selectionSet ssid sub) (goodS_sels sub)))).congr fun c st => by
      rw [visitSelPar]
theorem goodS_sels : ∀ xs : List Sel, GoodS (fun c => visitSelsPar er c xs)
  | [] => GoodS.id.congr fun c st => by rw [visitSelsPar]
  | x :: xs => (GoodS.comp (goodS_sel x) (goodS_sels xs)).congr fun c st => by rw [visitSelsPar]
end

theorem goodS_varDef (v : VarDef) : GoodS (fun c => visitVarDefPar er c v) := by
  have hd : GoodS (fun c st => match v.default with | some d => visitValuePar er c d st | none => st) := by
    cases v.default with
    | none => exact GoodS.id
    | some d => exact goodS_value F d
  exact (GoodS.node F (.varDef v)
    (GoodS.comp (GoodS.comp hd (GoodS.node F (.typeNode v.type) GoodS.id)) (goodS_directives F v.dirs))).congr
    fun _ _ => rfl

theorem goodS_def (x : Def) : GoodS (fun c => visitDefPar er c x) := by
  cases x with
  | op kind name vars dirs ssid sels =>
    exact (GoodS.node F (.operation kind name vars dirs sels)
      (GoodS.comp (GoodS.comp (GoodS.foldl (fun v c => visitVarDefPar er c v) vars fun v _ => goodS_varDef F v)
        (goodS_directives F dirs)) (GoodS.node F (.selectionSet ssid sels) (goodS_sels F sels)))).congr fun _ _ => rfl
  | frag name on dirs ssid sels =>
    exact (GoodS.node F (.fragmentDef name on dirs)
      (GoodS.comp (goodS_directives F dirs) (GoodS.node F (.selectionSet ssid sels) (goodS_sels F sels)))).congr
      fun _ _ => rfl
  | ts a b => exact (GoodS.node F .tsDef GoodS.id).congr fun _ _ => rfl

theorem goodS_document (d : Doc) : GoodS (fun c => visitDocumentPar er c d) :=
  (GoodS.node F (.document d) (GoodS.foldl (fun x c => visitDefPar er c x) d.defs fun x _ => goodS_def F x)).congr
    fun _ _ => rfl

/-- **attribution in the chain**: all members but `r0` silent alone, `r0` not silent alone ⇒ the chain records an error
    of `r0` (whatever else it records: a skipping `r0` may hide nodes from the others) -/
theorem chainPar_attribution (c : Cfg) (hnd : c.rules.Nodup) (d : Doc) (r0 : Rule) (hr0 : r0 ∈ c.rules)
    (hbad : E (visitDocumentPar er (c.only r0) d {}) ≠ 0)
    (hothers : ∀ r ∈ c.rules, r ≠ r0 → E (visitDocumentPar er (c.only r) d {}) = 0) :
    0 < countOf (visitDocumentPar er c d {}).rs.errs r0 := by
  refine Nat.pos_of_ne_zero fun h0 => hbad ?_
  have G := goodS_document F d
  have hsim := G.sim c hnd (fun r => r ≠ r0) {} (fun _ => {}) (fun r _ _ => ⟨rfl, rfl, rfl⟩)
    (fun r hr hs => by rw [hothers r hr hs]; rfl)
    (fun q hq hs => by
      have : q = r0 := Classical.not_not.mp hs
      subst this
      simp only [Cq]; rw [h0]; rfl)
  have hin : ErrsIn c (visitDocumentPar er c d {}) := (good_document F d).errsIn c {} (fun x hx => by cases hx)
  have hnil : (visitDocumentPar er c d {}).rs.errs = [] := by
    cases herr : (visitDocumentPar er c d {}).rs.errs with
    | nil => rfl
    | cons x xs =>
      exfalso
      have hx : x ∈ c.rules := hin x (by rw [herr]; exact List.mem_cons_self ..)
      by_cases e : x = r0
      · subst e
        rw [herr] at h0
        simp [countOf] at h0
      · have he := (hsim x hx e).2.2
        have h1 := hothers x hx e
        simp only [E] at h1
        rw [List.length_eq_zero_iff.mp h1, herr] at he
        simp at he
  exact (chainPar_silent_iff F c hnd d).mp (by simp [E, hnil]) r0 hr0

end
end PyGql.Validate

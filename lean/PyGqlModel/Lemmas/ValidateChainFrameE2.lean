/-
  Frame / congruence facts of `enterRule` (see `Lemmas/ValidateChainFrame.lean`), part 2: proved case by case over the
  26 rules and the 14 node kinds.
-/
import PyGqlModel.Lemmas.ValidateChainFrame
namespace PyGql.Validate
open PyGql

set_option maxHeartbeats 2000000 in
/-- the errors a rule adds on entering a node: computed from its own part, prepended to the shared list -/
theorem enterRule_errs (s : SchemaD) (fx : Fixes) (r : Rule) (n : Node) (ti : TI) (a : RS) :
    (enterRule s fx r n ti a).1.errs = (enterRule s fx r n ti (a.own r)).1.errs ++ a.errs := by
  cases r <;> cases n <;> rs_cases

end PyGql.Validate

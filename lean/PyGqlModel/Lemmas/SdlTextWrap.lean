/-
  C12 text level — `print_description` of a description with OVER-LONG lines (finding H12): `wrapped_lines` re-breaks them
  at word boundaries; the printed text is still ONE block string, whose value is the re-joined wrapped lines.
-/
import PyGqlModel.Lemmas.SdlTextDesc
namespace PyGql.SdlText
open PyGql PyGql.Ast PyGql.Sdl PyGql.Spec PyGql.PrintLex PyGql.PrintTokens PyGql.PrintString PyGql.BlockString PyGql.Lex PyGql.SdlPrint

/-! ### `wrapped_lines` only moves characters -/

theorem splitWords_chars : ∀ (cs stack : Text), ∀ p ∈ SdlPrintT.splitWords cs stack, ∀ c ∈ p, c ∈ cs ∨ c ∈ stack
  | [], stack, p, hp, c, hc => by
    simp only [SdlPrintT.splitWords] at hp
    split at hp
    · simp at hp
    · simp only [List.mem_singleton] at hp; subst hp; exact Or.inr (by simpa using hc)
  | x :: cs, stack, p, hp, c, hc => by
    simp only [SdlPrintT.splitWords] at hp
    split at hp
    · simp only [List.mem_append, List.mem_cons] at hp
      rcases hp with hp | hp | hp
      · split at hp
        · simp at hp
        · simp only [List.mem_singleton] at hp; subst hp; exact Or.inr (by simpa using hc)
      · subst hp; simp only [List.mem_singleton] at hc; subst hc; exact Or.inl (by simp)
      · rcases splitWords_chars cs [] p hp c hc with h | h
        · exact Or.inl (by simp [h])
        · simp at h
    · rcases splitWords_chars cs (x :: stack) p hp c hc with h | h
      · exact Or.inl (by simp [h])
      · simp only [List.mem_cons] at h
        rcases h with h | h
        · exact Or.inl (by simp [h])
        · exact Or.inr h

theorem wrapLine_chars (m : Nat) : ∀ (es : List Text) (w : Text), ∀ y ∈ SdlPrintT.wrapLine m es w, ∀ c ∈ y,
    c ∈ w ∨ ∃ e ∈ es, c ∈ e
  | [], w, y, hy, c, hc => by
    simp only [SdlPrintT.wrapLine] at hy
    split at hy
    · simp at hy
    · simp only [List.mem_singleton] at hy; subst hy; exact Or.inl hc
  | e :: es, w, y, hy, c, hc => by
    simp only [SdlPrintT.wrapLine] at hy
    split at hy
    · simp only [List.mem_cons] at hy
      rcases hy with hy | hy
      · subst hy; exact Or.inl hc
      · rcases wrapLine_chars m es _ y hy c hc with h | ⟨e', he', h⟩
        · split at h
          · exact Or.inr ⟨e, by simp, h⟩
          · simp at h
        · exact Or.inr ⟨e', by simp [he'], h⟩
    · rcases wrapLine_chars m es _ y hy c hc with h | ⟨e', he', h⟩
      · split at h
        · simp only [List.mem_append] at h
          rcases h with h | h
          · exact Or.inl h
          · exact Or.inr ⟨e, by simp, h⟩
        · exact Or.inl h
      · exact Or.inr ⟨e', by simp [he'], h⟩

theorem wrappedLines_chars (ls : List Text) (m : Nat) : ∀ y ∈ SdlPrintT.wrappedLines ls m, ∀ c ∈ y, ∃ l ∈ ls, c ∈ l := by
  intro y hy c hc
  simp only [SdlPrintT.wrappedLines, List.mem_flatMap] at hy
  obtain ⟨l, hl, hy⟩ := hy
  split at hy
  · simp only [List.mem_singleton] at hy; exact ⟨l, hl, hy ▸ hc⟩
  · rcases wrapLine_chars m _ [] y hy c hc with h | ⟨e, he, h⟩
    · simp at h
    · rcases splitWords_chars l [] e he c h with h | h
      · exact ⟨l, hl, h⟩
      · simp at h

/-! ### the predicate and the layout theorem -/

/-- when no line is over-long the wrapped lines are the lines, and `descWrapOK` is `descTextOK` without its width clause -/
theorem wrappedOf_short (w : Nat) (d : String) (h : ∀ l ∈ SdlPrintT.splitLF (T d), l.length ≤ 120 - w) :
    wrappedOf w d = SdlPrintT.splitLF (T d) := wrappedLines_id _ _ h

theorem descWrapOK_of_descTextOK (w : Nat) (d : String) (h : descTextOK w d = true) : descWrapOK w d = true := by
  have hw : wrappedOf w d = SdlPrintT.splitLF (T d) := by
    apply wrappedOf_short
    simp only [descTextOK, Bool.and_eq_true, List.all_eq_true, decide_eq_true_eq] at h
    exact h.1.1.1.2
  simp only [descTextOK, Bool.and_eq_true] at h
  simp only [descWrapOK, hw, Bool.and_eq_true]
  exact ⟨⟨⟨⟨h.1.1.1.1.1, h.1.1.1.1.2⟩, h.1.1.2⟩, h.1.2⟩, h.2⟩

/-- **the wrapped description is one block string**: printed at its depth, a description that satisfies `descWrapOK` —
    over-long lines allowed — is laid out as ONE BlockString token whose value is the wrapped lines joined by line feeds -/
theorem descPart_wrapped (o : SdlPrintT.OptsT) (hind : Blank o.indent) (hdesc : o.descriptions = true) (x : String)
    (depth : Nat) (first : Bool) (h : descWrapOK (depth * o.indent.length) x = true) :
    DescPart (SdlPrintT.printDescription o (some x) depth first) [(.blockString, joinLF (wrappedOf (depth * o.indent.length) x))] := by
  simp only [descWrapOK, Bool.and_eq_true, Bool.not_eq_true', List.all_eq_true] at h
  obtain ⟨⟨⟨⟨⟨hxne, htne⟩, hch⟩, hfb⟩, hlb⟩, hshape⟩ := h
  have hind' := blank_repeatText o.indent hind depth
  have hlen := length_repeatText o.indent depth
  cases hsp : wrappedOf (depth * o.indent.length) x with
  | nil => rw [hsp] at hfb; simp [lineBlank] at hfb
  | cons l ls =>
    rw [hsp] at hfb hlb hshape
    have hmem : ∀ y ∈ l :: ls, ∀ c ∈ y, c ∈ T x ∧ c ≠ 10 := by
      intro y hy c hc
      rw [← hsp] at hy
      obtain ⟨l0, hl0, hc0⟩ := wrappedLines_chars _ _ y hy c hc
      exact ⟨splitLF_mem _ l0 hl0 c hc0, splitLF_noLF _ l0 hl0 c hc0⟩
    have hlines : ∀ y ∈ l :: ls, IsLine y := by
      intro y hy c hc
      refine ⟨(hmem y hy c hc).2, ?_⟩
      have := hch c (hmem y hy c hc).1
      intro e; subst e; simp at this
    have hjoin : ∀ (zs : List Text), (∀ y ∈ zs, ∀ c ∈ y, c ∈ T x ∧ c ≠ 10) → ∀ c ∈ joinLF zs, c = 10 ∨ c ∈ T x := by
      intro zs
      induction zs with
      | nil => intro _ c hc; simp [joinLF] at hc
      | cons z zs ih =>
        intro hz c hc
        cases zs with
        | nil => simp only [joinLF] at hc; exact Or.inr (hz z (by simp) c hc).1
        | cons z' zs' =>
          rw [joinLF_cons_cons] at hc
          simp only [List.mem_append, List.mem_cons] at hc
          rcases hc with hc | hc | hc
          · exact Or.inr (hz z (by simp) c hc).1
          · exact Or.inl hc
          · exact ih (fun y hy => hz y (by simp [hy])) c hc
    have hchars : ∀ c ∈ joinLF (l :: ls), blockChar c = true := by
      intro c hc
      simp only [blockChar, isPrintable, Bool.or_eq_true, decide_eq_true_eq, beq_iff_eq]
      rcases hjoin (l :: ls) hmem c hc with h10 | hin
      · exact Or.inl (Or.inr h10)
      · have := hch c hin
        simp only [Bool.or_eq_true, decide_eq_true_eq, beq_iff_eq] at this
        rcases this with (h | h) | h
        · exact Or.inl (Or.inl (Or.inl h))
        · exact Or.inl (Or.inl (Or.inr h))
        · exact Or.inl (Or.inr h)
    have hfirst : onlyWhiteSpace l = false := by simpa [lineBlank, onlyWhiteSpace] using hfb
    have hlast : onlyWhiteSpace ((l :: ls).getLast (by simp)) = false := by
      rw [← getLastD_eq_getLast]; simpa [lineBlank, onlyWhiteSpace] using hlb
    have hshq : (if ((l :: ls).length == 1 && l.length < 70 && !(l.getLast? == some 34)) = true then l.getLast? ≠ some 92
        else if l.length > (SdlPrintT.lstrip l).length then (ls = [] ∨ ls.foldl indentStep none = some 0)
        else (l :: ls).foldl indentStep none = some 0) ∧ SdlPrintT.needsQuoted (l :: ls) = false := by
      by_cases hone : ((l :: ls).length == 1 && l.length < 70 && !(l.getLast? == some 34)) = true
      · rw [if_pos hone]
        simp only [Bool.and_eq_true, beq_iff_eq, decide_eq_true_eq, Bool.not_eq_true', beq_eq_false_iff_ne] at hone
        have hs := hshape
        simp [hone.1.1, hone.1.2, hone.2] at hs
        have hls : ls = [] := by simpa using hone.1.1
        exact ⟨hs, by rw [hls]; exact needsQuoted_single l⟩
      · rw [if_neg hone]
        have hone' : ¬ ((l :: ls).length = 1 ∧ l.length < 70 ∧ l.getLast? ≠ some 34) := by
          intro hc; apply hone; simp [hc.1, hc.2.1, hc.2.2]
        have hc : ¬ ((ls = [] ∧ l.length < 70) ∧ ¬ l.getLast? = some 34) := fun hc =>
          hone' ⟨by simp [hc.1.1], hc.1.2, hc.2⟩
        by_cases hlead : l.length > (SdlPrintT.lstrip l).length
        · rw [if_pos hlead]
          have hs := hshape
          simp [hlead] at hs
          split at hs
          · rename_i hh; exact absurd hh hc
          · by_cases hls : ls = []
            · exact ⟨Or.inl hls, by rw [hls]; exact needsQuoted_single l⟩
            · have : minIndentZero ls = true := by
                rcases hs with h | h
                · exact absurd h hls
                · exact h
              exact ⟨Or.inr (foldl_indentStep_zero ls this), needsQuoted_minZero l ls this⟩
        · rw [if_neg hlead]
          have hs := hshape
          simp [hlead] at hs
          split at hs
          · rename_i hh; exact absurd hh hc
          · exact ⟨foldl_indentStep_zero _ hs, needsQuoted_notLead l ls hlead⟩
    obtain ⟨hsh, hq⟩ := hshq
    have hcr : 13 ∉ SdlPrintT.T x := by
      intro hmem; have := hch 13 hmem; revert this; decide
    have lq := lay_descQuoted (SdlPrintT.repeatText o.indent depth) l ls hind' hlines hchars hfirst hlast hsh
    have hxe : x.isEmpty = false := hxne
    have hsp' : SdlPrintT.wrappedLines (SdlPrintT.splitLF (SdlPrintT.T x)) (120 - (SdlPrintT.repeatText o.indent depth).length) = l :: ls := by
      rw [hlen]; exact hsp
    have htxt : SdlPrintT.printDescription o (some x) depth first =
        ((if !(SdlPrintT.repeatText o.indent depth).isEmpty && !first then [10] else []) ++
          (SdlPrintT.repeatText o.indent depth ++ (tq ++ (SdlPrintT.descBody (SdlPrintT.repeatText o.indent depth) (l :: ls) ++ tq)))) ++ [10] := by
      simp [SdlPrintT.printDescription, hdesc, hxe, hsp', hq, hcr, tq, List.append_assoc]
    rw [htxt]
    refine Or.inr ⟨_, rfl, ?_⟩
    have l2 := lay_blank_prefix hind' lq
    split
    · exact lay_lf_cons l2
    · simpa using l2

/-- … as a statement about the lexer: the printed description (followed by its line feed) lexes to exactly one
    BlockString token with that value -/
theorem wrapped_lexes (o : SdlPrintT.OptsT) (hind : Blank o.indent) (hdesc : o.descriptions = true) (x : String)
    (depth : Nat) (first : Bool) (h : descWrapOK (depth * o.indent.length) x = true) :
    ∃ toks, lexAll (SdlPrintT.printDescription o (some x) depth first) =
        .ok (sofTok :: toks ++ [eofTok (SdlPrintT.printDescription o (some x) depth first).length]) ∧
      classes toks = [(.blockString, joinLF (wrappedOf (depth * o.indent.length) x))] := by
  rcases descPart_wrapped o hind hdesc x depth first h with ⟨_, hc⟩ | ⟨pre, htxt, hlay⟩
  · cases hc
  · rw [htxt]
    have := lexesTo_of_lay hlay [10] [] (safe_cons (by decide)) (lexesTo_lf lexesTo_nil)
    simpa using lexAll_of_lexesTo this

end PyGql.SdlText

/-
  `spreadsApart` from well-formed identities, unique fragment names and acyclic fragment spreads
  (`Spec.noFragmentCycles`): a fragment reachable from a spread of a selection set whose body is that very set would
  close a cycle.
-/
import PyGqlModel.Lemmas.ValidateOverlapWf
namespace PyGql.Validate
open PyGql PyGql.Validate.Spec

theorem spreadD_node {sels : List Sel} {g : String} (h : SpreadD sels g) : ∃ dirs, Node.spread g dirs ∈ selsNodes sels := by
  induction h with
  | @spread sels name dirs hm => exact ⟨dirs, mem_selsNodes_of_mem hm _ (by simp [selNodes])⟩
  | @inline sels on dirs id sub name hm _ ih =>
    obtain ⟨ds, hds⟩ := ih
    exact ⟨ds, mem_selsNodes_of_mem hm _ (by
      simp only [selNodes, List.mem_cons, List.mem_append, reduceCtorEq, false_or]
      exact Or.inr hds)⟩

theorem spreadD_direct {sels : List Sel} {g : String} (h : SpreadD sels g) : g ∈ directSpreads sels := by
  obtain ⟨dirs, hd⟩ := spreadD_node h
  exact List.mem_filterMap.mpr ⟨_, hd, rfl⟩

theorem frag_def_unique {d : Doc} (hnd : (fragNames d).Nodup) {n on on' : String} {dirs dirs' : List Dir} {i i' : Nat}
    {sels sels' : List Sel} (h1 : Def.frag n on dirs i sels ∈ d.defs) (h2 : Def.frag n on' dirs' i' sels' ∈ d.defs) :
    Def.frag n on dirs i sels = Def.frag n on' dirs' i' sels' :=
  filterMap_inj_of_nodup _ d.defs hnd _ h1 _ h2 n rfl rfl

theorem fragSels_table {d : Doc} (hnd : (fragNames d).Nodup) {n on : String} {fid : Nat} {fsels : List Sel}
    (ht : AL.get? (fragTable d) n = some (on, fid, fsels)) : fragSels d n = fsels := by
  obtain ⟨dirs, hF⟩ := fragTable_def ht
  unfold fragSels
  cases hfs : d.defs.findSome? (fun | .frag m _ _ _ sels => if m == n then some sels else none | _ => none) with
  | none =>
    rw [List.findSome?_eq_none_iff] at hfs
    have := hfs _ hF
    simp at this
  | some v =>
    obtain ⟨x, hx, hxv⟩ := List.exists_of_findSome?_eq_some hfs
    cases x with
    | frag m on' dirs' i' sels' =>
      simp only at hxv
      by_cases hmn : (m == n) = true
      · rw [if_pos hmn] at hxv
        cases hxv
        have hm : m = n := by simpa using hmn
        subst hm
        have := frag_def_unique hnd hF hx
        cases this
        rfl
      · rw [if_neg hmn] at hxv; cases hxv
    | op => simp at hxv
    | ts => simp at hxv

theorem sprF_reach {d : Doc} (hnd : (fragNames d).Nodup) {a b : String} (h : SprF d a b) : Reach d a b := by
  obtain ⟨on, fid, fsels, ht, hs⟩ := h
  exact .step (by rw [fragSels_table hnd ht]; exact spreadD_direct hs)

theorem reachF_reach {d : Doc} (hnd : (fragNames d).Nodup) {a b : String} (h : ReachF d a b) : a = b ∨ Reach d a b := by
  induction h with
  | refl a => exact Or.inl rfl
  | step hs _ ih =>
    rcases ih with rfl | ih
    · exact Or.inr (sprF_reach hnd hs)
    · exact Or.inr (.trans (sprF_reach hnd hs) ih)

theorem spreadsApart_of {d : Doc} (hw : WfIds d) (hnd : (fragNames d).Nodup) (hac : noFragmentCycles d) :
    ∀ i sels, SelSet d i sels → ∀ g, SpreadD sels g → Apart d i g := by
  intro i sels hs g hg n hr on fid fsels ht hfi
  subst hfi
  have hbody : SelSet d fid fsels := fragTable_selSet ht
  have hsame : sels = fsels := wf_selSet_unique hw hs hbody
  subst hsame
  have hstep : Reach d n g := sprF_reach hnd ⟨on, fid, sels, ht, hg⟩
  have hcyc : Reach d n n := by
    rcases reachF_reach hnd hr with rfl | h
    · exact hstep
    · exact .trans hstep h
  obtain ⟨dirs, hF⟩ := fragTable_def ht
  exact hac n (List.mem_filterMap.mpr ⟨_, hF, rfl⟩) hcyc

end PyGql.Validate

/-
  `Spec.ParentsAgree` from the other rules' clauses, part 2: every admissible parent type of a selection set is the one
  `TypeInfoVisitor` shows at its node - given FragmentsOnCompositeTypes and ScalarLeafs (their clauses), output-typed
  schema fields, no introspection meta field with a sub-selection, and well-formed identities.
-/
import PyGqlModel.Lemmas.ValidateOverlapParents
namespace PyGql.Validate
open PyGql PyGql.Validate.Spec

theorem compositeBase_outOnly (s : SchemaD) (t : Option Ty) : compositeBase s (TI.outOnly s t) = compositeBase s t := by
  cases t with
  | none => rfl
  | some ty =>
    simp only [TI.outOnly, Option.bind_some]
    by_cases ho : isOutputTy s ty = true
    · simp [ho]
    · simp only [ho, Bool.false_eq_true, ↓reduceIte]
      simp only [compositeBase, Option.map_none, Option.bind_none, Option.map_some, Option.bind_some]
      have : isComposite s ty.base = false := by
        unfold isOutputTy at ho
        unfold isComposite
        cases hk : kindOf s ty.base with
        | none => rfl
        | some k => cases k <;> simp_all
      simp [this]

theorem composite_named (s : SchemaD) (n : String) (h : isComposite s n = true) :
    compositeBase s (TI.outOnly s (typeFromAst s (.named n))) = some n ∧ (typeFromAst s (.named n)).map (·.base) = some n := by
  have hk : (s.findType n).isSome = true := by
    unfold isComposite kindOf at h
    cases hf : s.findType n with
    | none => simp [hf] at h
    | some _ => rfl
  have ht : typeFromAst s (.named n) = some (.named n) := by
    have hk' : (s.findType (Ty.named n).base).isSome = true := hk
    unfold typeFromAst
    rw [if_pos hk']
  rw [compositeBase_outOnly, ht]
  simp [compositeBase, Ty.base, h]

theorem ovFieldOf_nonMeta (s : SchemaD) (p name : String) (h : name ∉ metaFieldNames) :
    ovFieldOf s p name = fieldOf s p name := by
  simp only [metaFieldNames, List.mem_cons, List.not_mem_nil, or_false, not_or] at h
  unfold ovFieldOf
  simp [h.2.2]

theorem getFieldDef_nonMeta (s : SchemaD) (p name : String) (h : name ∉ metaFieldNames) :
    getFieldDef s p name = fieldOf s p name := by
  simp only [metaFieldNames, List.mem_cons, List.not_mem_nil, or_false, not_or] at h
  obtain ⟨h1, h2, h3⟩ := h
  unfold getFieldDef
  simp [h1, h2, h3]

section
variable {s : SchemaD} {d : Doc}
variable (hout : ∀ T name fd, fieldOf s T name = some fd → isOutputTy s fd.type = true)
  (hsl : Spec.scalarLeafs s d) (hfc : Spec.fragmentsOnCompositeTypes s d) (hnm : NoMetaSubs d)

include hout hsl hfc hnm in
/-- the sub-selection of a collected field is a typed node whose parent is the type the search derives for it -/
theorem coll_walk {p : Option String} {sels : List Sel} {rn : String} {e : FEntry} (hc : CollD s p sels rn e) :
    ∀ v : View, v.parent = p → v.parent = compositeBase s v.type → (∀ q ∈ tnSels s v sels, q ∈ typedNodes s d) →
      e.hasSub = true → ∃ v2, (Node.selectionSet e.ssid e.sub, v2) ∈ typedNodes s d ∧ v2.parent = e.subParent := by
  induction hc with
  | @field parent sels alias name args dirs hasSub ssid sub hm =>
    intro v hvp _ hcl hs
    simp only at hs; subst hs
    have hsub := fun q hq => hcl q (mem_tnSels_of_mem hm q hq)
    have hfield : (Node.field name args dirs true, View.enter s (.field name args dirs true) v) ∈ typedNodes s d :=
      hsub _ (by simp [tnSel])
    refine ⟨_, hsub (Node.selectionSet ssid sub,
      View.enter s (.selectionSet ssid sub) (View.enter s (.field name args dirs true) v)) (by simp [tnSel]), ?_⟩
    have hnmeta : name ∉ metaFieldNames := hnm _ (typed_node_mem hfield) name args dirs rfl
    show compositeBase s (TI.outOnly s ((v.parent.bind fun q => getFieldDef s q name).map (·.type))) = _
    rw [compositeBase_outOnly, hvp]
    have hfd : (parent.bind fun q => getFieldDef s q name) = parent.bind fun q => fieldOf s q name := by
      cases parent with
      | none => rfl
      | some q => simp only [Option.bind_some]; exact getFieldDef_nonMeta s q name hnmeta
    rw [hfd]
    have hov : (parent.bind fun q => ovFieldOf s q name) = parent.bind fun q => fieldOf s q name := by
      cases parent with
      | none => rfl
      | some q => simp only [Option.bind_some]; exact ovFieldOf_nonMeta s q name hnmeta
    show _ = ((parent.bind fun q => ovFieldOf s q name).map (·.type)).map (·.base)
    rw [hov]
    cases hf : (parent.bind fun q => fieldOf s q name) with
    | none => rfl
    | some f =>
      simp only [Option.map_some]
      have ho : isOutputTy s f.type = true := by
        cases parent with
        | none => simp at hf
        | some q => exact hout q name f (by simpa using hf)
      -- ScalarLeafs at the field node: the type is not a leaf, hence composite
      have hleaf := (hsl _ hfield name args dirs true rfl f.type (by
        show TI.outOnly s ((v.parent.bind fun q => getFieldDef s q name).map (·.type)) = some f.type
        rw [hvp, hfd, hf]; simp [TI.outOnly, ho])).1
      have hcomp : isComposite s f.type.base = true := by
        unfold isOutputTy at ho
        unfold isLeaf at hleaf
        unfold isComposite
        cases hk : kindOf s f.type.base with
        | none => simp [hk] at ho
        | some k => cases k <;> simp_all
      simp [compositeBase, hcomp]
  | @inline parent sels on dirs id sub rn e hm _ ih =>
    intro v hvp hvc hcl hs
    have hsub := fun q hq => hcl q (mem_tnSels_of_mem hm q hq)
    have hnode : (Node.inline on dirs, View.enter s (.inline on dirs) v) ∈ typedNodes s d := hsub _ (by simp [tnSel])
    have hset : (Node.selectionSet id sub, View.enter s (.selectionSet id sub) (View.enter s (.inline on dirs) v))
        ∈ typedNodes s d := hsub _ (by simp [tnSel])
    refine ih _ ?_ rfl (typed_closed hset).1 hs
    cases on with
    | none =>
      show compositeBase s (TI.outOnly s v.type) = parent
      rw [compositeBase_outOnly, ← hvc, hvp]
    | some n =>
      have hcomp : isComposite s n = true := hfc.1 _ (typed_node_mem hnode) n dirs rfl
      show compositeBase s (TI.outOnly s (typeFromAst s (.named n))) = (typeFromAst s (.named n)).map (·.base)
      rw [(composite_named s n hcomp).1, (composite_named s n hcomp).2]

include hout hsl hfc hnm in
/-- **every admissible parent type is the one the visitor shows** -/
theorem adm_walk (hw : WfIds d) {i : Nat} {p : Option String} (h : Adm s d i p) :
    ∃ sels v, (Node.selectionSet i sels, v) ∈ typedNodes s d ∧ v.parent = p := by
  induction h with
  | walk hm => exact ⟨_, _, hm, rfl⟩
  | @frag name on i sels ht =>
    obtain ⟨dirs, hF⟩ := fragTable_def ht
    have hmem : (Node.selectionSet i sels, View.enter s (.selectionSet i sels) (View.enter s (.fragmentDef name on dirs) {}))
        ∈ typedNodes s d := by
      simp only [typedNodes, List.mem_flatMap]
      exact ⟨_, hF, by simp [tnDef]⟩
    have hnode : (Node.fragmentDef name on dirs, View.enter s (.fragmentDef name on dirs) {}) ∈ typedNodes s d := by
      simp only [typedNodes, List.mem_flatMap]
      exact ⟨_, hF, by simp [tnDef]⟩
    have hcomp : isComposite s on = true := hfc.2 _ (typed_node_mem hnode) name on dirs rfl
    refine ⟨_, _, hmem, ?_⟩
    show compositeBase s (TI.outOnly s (typeFromAst s (.named on))) = fragParent s on
    rw [(composite_named s on hcomp).1]
    exact (composite_named s on hcomp).2.symm
  | @sub i sels p rn e _ hs hc hsub ih =>
    obtain ⟨sels0, v, hm, hv⟩ := ih
    have hsame : sels0 = sels := wf_selSet_unique hw (by
      simp only [SelSet]; exact typed_node_mem hm) hs
    subst hsame
    obtain ⟨c1, c2⟩ := typed_closed hm
    obtain ⟨v2, hm2, hp2⟩ := coll_walk hout hsl hfc hnm hc v hv c2 c1 hsub
    exact ⟨_, _, hm2, hp2⟩

include hout hsl hfc hnm in
/-- **(2) the routes to the parent type of a selection set agree** -/
theorem parentsAgree_of (hw : WfIds d) : ParentsAgree s d := by
  intro i p q hp hq
  obtain ⟨s1, v1, m1, e1⟩ := adm_walk hout hsl hfc hnm hw hp
  obtain ⟨s2, v2, m2, e2⟩ := adm_walk hout hsl hfc hnm hw hq
  have := typed_unique hw m1 m2 (k := i) rfl rfl
  cases this
  rw [← e1, ← e2]

end
end PyGql.Validate

/-
  Soundness of the literal readers (`_read_block_string`, `_read_string`, `_read_number`) against Spec/Lexical.lean.
-/
import PyGqlModel.Lemmas.LexSound
import PyGqlModel.Props.C02_decode

namespace PyGql.Lex
open PyGql.Spec.Lexical

/-! ### block strings -/

theorem tq_prefix_eq (s : Text) (h : tq.isPrefixOf s = true) : ∃ u, s = 34 :: 34 :: 34 :: u := by
  match s with
  | [] => simp [tq] at h
  | [a] => simp [tq, List.isPrefixOf] at h
  | [a, b] => simp [tq, List.isPrefixOf] at h
  | a :: b :: c :: u =>
    simp only [tq, List.isPrefixOf, Bool.and_eq_true, beq_iff_eq, Bool.and_true] at h
    obtain ⟨rfl, rfl, rfl⟩ := h
    exact ⟨u, rfl⟩

theorem tq_prefix_append (a b : Text) (h : tq.isPrefixOf a = true) : tq.isPrefixOf (a ++ b) = true := by
  obtain ⟨u, rfl⟩ := tq_prefix_eq a h
  simp [tq, List.isPrefixOf]

theorem tq_prefix_append_len (a b : Text) (h : 3 ≤ a.length) : tq.isPrefixOf (a ++ b) = tq.isPrefixOf a := by
  match a, h with
  | x :: y :: z :: u, _ => simp [tq, List.isPrefixOf]

theorem bsc_length (k : Nat) (body raw : Text) (h : blockStringCharacters k body = some raw) : k ≤ body.length := by
  induction k generalizing body raw with
  | zero => exact Nat.zero_le _
  | succ k ih =>
    cases body with
    | nil => simp [blockStringCharacters] at h
    | cons c t =>
      simp only [blockStringCharacters, Option.map_eq_some_iff] at h
      obtain ⟨w, hw, _⟩ := h
      have := ih t w hw
      simp; omega

theorem sourceChar_of_blockChar (c : Nat) (h : ¬ (!(Lex.isPrintable c || c == 10 || c == 13)) = true) :
    isSourceChar c = true := by
  simp [Lex.isPrintable, isSourceChar] at h ⊢
  omega

theorem readBlockBody_sound (n k : Nat) (s raw r : Text) (h : readBlockBody n k s = .ok (raw, r)) :
    ∃ body, s = body ++ r ∧ blockStringCharacters k body = some raw := by
  fun_induction readBlockBody n k s generalizing raw r with
  | case1 => cases h
  | case2 k c t v r' hrec ih =>
    simp only [Except.ok.injEq, Prod.mk.injEq] at h
    obtain ⟨rfl, rfl⟩ := h
    obtain ⟨body, rfl, hb⟩ := ih v r' hrec
    exact ⟨c :: body, rfl, by simp [blockStringCharacters, hb]⟩
  | case3 => cases h
  | case4 c t hp =>
    simp only [Except.ok.injEq, Prod.mk.injEq] at h
    obtain ⟨rfl, rfl⟩ := h
    obtain ⟨u, hu⟩ := tq_prefix_eq _ hp
    simp only [List.cons.injEq] at hu
    obtain ⟨rfl, rfl⟩ := hu
    exact ⟨[34, 34, 34], by simp, by simp [blockStringCharacters, List.isPrefixOf]⟩
  | case5 c t hnp hesc ih =>
    obtain ⟨body, rfl, hb⟩ := ih raw r h
    have hboth := (Bool.and_eq_true _ _).mp hesc
    have hc : c = 92 := of_decide_eq_true hboth.1
    have hq : tq.isPrefixOf (body ++ r) = true := hboth.2
    have hlen := bsc_length 3 body raw hb
    rw [tq_prefix_append_len _ _ hlen] at hq
    subst hc
    refine ⟨92 :: body, rfl, ?_⟩
    have hq' : ([34, 34, 34] : Text).isPrefixOf body = true := hq
    rw [blockStringCharacters.eq_def]
    simp [List.isPrefixOf, hq', hb]
  | case6 => cases h
  | case7 c t hnp hesc hok v r' hrec ih =>
    simp only [Except.ok.injEq, Prod.mk.injEq] at h
    obtain ⟨rfl, rfl⟩ := h
    obtain ⟨body, rfl, hb⟩ := ih v r' hrec
    refine ⟨c :: body, rfl, ?_⟩
    have h1 : ¬ ([34, 34, 34] : Text).isPrefixOf (c :: body) = true := fun hh =>
      hnp (tq_prefix_append (c :: body) r' hh)
    have h2 : ¬ (c = 92 ∧ ([34, 34, 34] : Text).isPrefixOf body = true) := fun hh =>
      hesc ((Bool.and_eq_true _ _).mpr ⟨decide_eq_true hh.1, tq_prefix_append body r' hh.2⟩)
    have h3 := sourceChar_of_blockChar c hok
    rw [blockStringCharacters.eq_def]
    simp only [h1, h2, h3, Bool.not_true, Bool.false_eq_true, ↓reduceIte, hb, Option.map_some]
  | case8 => cases h

/-! ### quoted strings -/

theorem stringValue_of_body (body v : Text) (h : stringCharacters body = some v) :
    stringValue (34 :: (body ++ [34])) = some v := by
  simp only [stringValue]
  have h1 : (body ++ [34]).getLast? = some 34 := by simp
  have h2 : (body ++ [34]).dropLast = body := by simp
  simp [h1, h2, h]

end PyGql.Lex

/-
  THE VERDICT OF A CHAIN IS THE CONJUNCTION OF ITS MEMBERS RUN ALONE, part 3: every visit function of
  `Validate/ChainPar.lean` is `GoodW`, hence `chainPar_silent_iff`: a chain (any list of pairwise different rules, any
  framed rule-enter function) records no error on a document iff every member, run alone, records none.
-/
import PyGqlModel.Lemmas.ValidateChainDecompose2
namespace PyGql.Validate
open PyGql

theorem GoodW.congr {W W' : Walker} (h : GoodW W') (e : ∀ c st, W c st = W' c st) : GoodW W := by
  have : W = W' := funext fun c => funext fun st => e c st
  rw [this]; exact h

section
variable {er : ER} (F : Framed er)
include F

mutual
theorem good_value : ∀ v : Value, GoodW (fun c => visitValuePar er c v)
  | .list vs => (GoodW.node F (.value (.list vs)) (good_values vs)).congr fun c st => by rw [visitValuePar]
  | .obj fs => (GoodW.node F (.value (.obj fs)) (good_objFields fs)).congr fun c st => by rw [visitValuePar]
  | .var x => (GoodW.node F (.value (.var x)) GoodW.id).congr fun c st => by rw [visitValuePar]
  | .int x => (GoodW.node F (.value (.int x)) GoodW.id).congr fun c st => by rw [visitValuePar]
  | .float x => (GoodW.node F (.value (.float x)) GoodW.id).congr fun c st => by rw [visitValuePar]
  | .str x => (GoodW.node F (.value (.str x)) GoodW.id).congr fun c st => by rw [visitValuePar]
  | .bool x => (GoodW.node F (.value (.bool x)) GoodW.id).congr fun c st => by rw [visitValuePar]
  | .null => (GoodW.node F (.value .null) GoodW.id).congr fun c st => by rw [visitValuePar]
  | .enum x => (GoodW.node F (.value (.enum x)) GoodW.id).congr fun c st => by rw [visitValuePar]
theorem good_values : ∀ vs : List Value, GoodW (fun c => visitValuesPar er c vs)
  | [] => GoodW.id.congr fun c st => by rw [visitValuesPar]
  | v :: vs => (GoodW.comp (good_value v) (good_values vs)).congr fun c st => by rw [visitValuesPar]
theorem good_objField : ∀ f : ObjField, GoodW (fun c => visitObjFieldPar er c f)
  | .mk name v => (GoodW.node F (.objField name) (good_value v)).congr fun c st => by rw [visitObjFieldPar]
theorem good_objFields : ∀ fs : List ObjField, GoodW (fun c => visitObjFieldsPar er c fs)
  | [] => GoodW.id.congr fun c st => by rw [visitObjFieldsPar]
  | f :: fs => (GoodW.comp (good_objField f) (good_objFields fs)).congr fun c st => by rw [visitObjFieldsPar]
end

theorem good_argument (a : Arg) : GoodW (fun c => visitArgumentPar er c a) :=
  (GoodW.node F (.argument a) (good_value F a.value)).congr fun _ _ => rfl

theorem good_arguments (as : List Arg) : GoodW (fun c => visitArgumentsPar er c as) :=
  (GoodW.foldl (fun a c => visitArgumentPar er c a) as fun a _ => good_argument F a).congr fun _ _ => rfl

theorem good_directive (d : Dir) : GoodW (fun c => visitDirectivePar er c d) :=
  (GoodW.node F (.directive d) (good_arguments F d.args)).congr fun _ _ => rfl

theorem good_directives (ds : List Dir) : GoodW (fun c => visitDirectivesPar er c ds) :=
  (GoodW.foldl (fun d c => visitDirectivePar er c d) ds fun d _ => good_directive F d).congr fun _ _ => rfl

mutual
theorem good_sel : ∀ x : Sel, GoodW (fun c => visitSelPar er c x)
  | .field al name args dirs hasSub ssid sub =>
    (GoodW.node F (.field name args dirs hasSub)
      (GoodW.comp (GoodW.comp (good_arguments F args) (good_directives F dirs))
        (GoodW.ite hasSub (GoodW.node F (.selectionSet ssid sub) (good_sels sub))))).congr fun c st => by
      rw [visitSelPar]
  | .spread name dirs => (GoodW.node F (.spread name dirs) (good_directives F dirs)).congr fun c st => by rw [visitSelPar]
  | .inline on dirs ssid sub =>
    (GoodW.node F (.inline on dirs)
      (GoodW.comp (good_directives F dirs) (GoodW.node F (.selectionSet ssid sub) (good_sels sub)))).congr fun c st => by
      rw [visitSelPar]
theorem good_sels : ∀ xs : List Sel, GoodW (fun c => visitSelsPar er c xs)
  | [] => GoodW.id.congr fun c st => by rw [visitSelsPar]
  | x :: xs => (GoodW.comp (good_sel x) (good_sels xs)).congr fun c st => by rw [visitSelsPar]
end

theorem good_varDef (v : VarDef) : GoodW (fun c => visitVarDefPar er c v) := by
  have hd : GoodW (fun c st => match v.default with | some d => visitValuePar er c d st | none => st) := by
    cases v.default with
    | none => exact GoodW.id
    | some d => exact good_value F d
  exact (GoodW.node F (.varDef v)
    (GoodW.comp (GoodW.comp hd (GoodW.node F (.typeNode v.type) GoodW.id)) (good_directives F v.dirs))).congr
    fun _ _ => rfl

theorem good_def (x : Def) : GoodW (fun c => visitDefPar er c x) := by
  cases x with
  | op kind name vars dirs ssid sels =>
    exact (GoodW.node F (.operation kind name vars dirs sels)
      (GoodW.comp (GoodW.comp (GoodW.foldl (fun v c => visitVarDefPar er c v) vars fun v _ => good_varDef F v)
        (good_directives F dirs)) (GoodW.node F (.selectionSet ssid sels) (good_sels F sels)))).congr fun _ _ => rfl
  | frag name on dirs ssid sels =>
    exact (GoodW.node F (.fragmentDef name on dirs)
      (GoodW.comp (good_directives F dirs) (GoodW.node F (.selectionSet ssid sels) (good_sels F sels)))).congr
      fun _ _ => rfl
  | ts a b => exact (GoodW.node F .tsDef GoodW.id).congr fun _ _ => rfl

theorem good_document (d : Doc) : GoodW (fun c => visitDocumentPar er c d) :=
  (GoodW.node F (.document d) (GoodW.foldl (fun x c => visitDefPar er c x) d.defs fun x _ => good_def F x)).congr
    fun _ _ => rfl

/-- **a chain records no error iff every member, run alone, records none** -/
theorem chainPar_silent_iff (c : Cfg) (hnd : c.rules.Nodup) (d : Doc) :
    E (visitDocumentPar er c d {}) = 0 ↔ ∀ r ∈ c.rules, E (visitDocumentPar er (c.only r) d {}) = 0 := by
  have G := good_document F d
  have hrel0 : RelAll c ({} : St) (fun _ => ({} : St)) := fun r _ => ⟨rfl, rfl, rfl⟩
  constructor
  · intro h r hr
    have := G.sim c hnd {} _ hrel0 (Or.inl (by simp only; rw [h]; rfl)) r hr
    have he := this.2.2
    simp only [E] at h ⊢
    rw [he, List.length_eq_zero_iff.mp h]; rfl
  · intro h
    have hsim := G.sim c hnd {} _ hrel0 (Or.inr fun r hr => by simp only; rw [h r hr]; rfl)
    have hin : ErrsIn c (visitDocumentPar er c d {}) := G.errsIn c {} (fun x hx => by cases hx)
    simp only [E]
    cases herr : (visitDocumentPar er c d {}).rs.errs with
    | nil => rfl
    | cons x xs =>
      exfalso
      have hx : x ∈ c.rules := hin x (by rw [herr]; exact List.mem_cons_self ..)
      have he := (hsim x hx).2.2
      have h0 := h x hx
      simp only [E] at h0
      rw [List.length_eq_zero_iff.mp h0, herr] at he
      simp at he

end
end PyGql.Validate

/-
  C14 — member-level provenance WITHOUT the `NoWrap` hypothesis: what IS preserved under wrapping visitors.

  The drop/wrap directive visitor (`Visitor.sdir drop wrap`: what a `SchemaDirective` on FIELD_DEFINITION typically does) returns
  `None` for a field (drop) or a rebuilt `Field` with a NEW RESOLVER (wrap). `FAttrW W`: the copy has the source field's
  description, deprecation, subscription resolver, python name, the same type by name, the converted name, and its resolver is
  the source field's OR an id given by a wrapper (`W id`: some `wrap type field = some id` of a visitor of the list, `Wraps`).
  Arguments, input fields and type-level attributes are not affected by wrapping at all (`ARel`, `TAttr` as before).
  This file is `HeapMembers` / `HeapMembersHooks` / `HeapMembersTypes` / `HeapMembersLoop` with `FAttr` weakened to `FAttrW W`
  (relations `FRelW`, `MRelW`, `TRelW`, `EntRelW`, `MemOriginW`) and the `sdir` cases proved instead of excluded.
-/
import PyGqlModel.Lemmas.HeapMembersLoop

set_option linter.unusedSimpArgs false
set_option linter.unusedVariables false
set_option linter.unnecessarySimpa false

namespace PyGql.Heap.Own
open PyGql.Heap

variable {W : Nat → Prop}

def FAttrW (W : Nat → Prop) (ρ : String → String) (f f' : FieldO) : Prop :=
  f'.name = ρ f.name ∧ f'.desc = f.desc ∧ f'.depr = f.depr ∧ (f'.res = f.res ∨ ∃ id, f'.res = some id ∧ W id) ∧ f'.sub = f.sub ∧
    f'.py = f.py ∧ sameNames f.ty f'.ty

def FRelW (W : Nat → Prop) (ρ : String → String) (h0 h : Heap) (a c : Addr) : Prop :=
  ∃ f f', h0.readField a = some f ∧ h.readField c = some f' ∧ FAttrW W ρ f f' ∧ Sub2 (ARel ρ h0 h) f.args f'.args

def MRelW (W : Nat → Prop) (ρ : String → String) (h0 h : Heap) (k : Kind) (src res : List Addr) : Prop :=
  match k with
  | .input => Sub2 (ARel ρ h0 h) src res
  | .object | .interface => Sub2 (FRelW W ρ h0 h) src res
  | _ => True

def TRelW (W : Nat → Prop) (ρ : String → String) (h0 h : Heap) (t0 : TypeO) (a' : Addr) : Prop :=
  ∃ t', h.readType a' = some t' ∧ TAttr t0 t' ∧ MRelW W ρ h0 h t0.kind t0.fields t'.fields

/-- the resolvers the visitor's wrappers hand out satisfy `W` -/
def Wraps (W : Nat → Prop) : Visitor → Prop
  | .sdir _ w => ∀ t f id, w t f = some id → W id
  | _ => True

/-- the strong relations imply the weak ones -/
theorem FAttrW.of_strong {ρ : String → String} {f f' : FieldO} (k : FAttr ρ f f') : FAttrW W ρ f f' :=
  ⟨k.1, k.2.1, k.2.2.1, Or.inl k.2.2.2.1, k.2.2.2.2.1, k.2.2.2.2.2.1, k.2.2.2.2.2.2⟩

theorem TRelW.of_strong {ρ : String → String} {h0 h : Heap} {t0 : TypeO} {a' : Addr} (r : TRel ρ h0 h t0 a') : TRelW W ρ h0 h t0 a' := by
  obtain ⟨t', ht', hat, hm⟩ := r
  refine ⟨t', ht', hat, ?_⟩
  cases hk : t0.kind <;> simp only [MRel, MRelW, hk] at hm ⊢
  · exact hm.imp fun _ _ ⟨f, f', h1, h2, k, ha⟩ => ⟨f, f', h1, h2, FAttrW.of_strong k, ha⟩
  · exact hm.imp fun _ _ ⟨f, f', h1, h2, k, ha⟩ => ⟨f, f', h1, h2, FAttrW.of_strong k, ha⟩
  · exact hm

theorem FRelW.keep {ρ : String → String} {h0 h h' : Heap} (st : StepImp chkT h h') {a c : Addr} (r : FRelW W ρ h0 h a c) : FRelW W ρ h0 h' a c := by
  obtain ⟨f, f', h1, h2, k, hargs⟩ := r
  obtain ⟨o', hr', hd, hk, _⟩ := st c _ (readField_read h2)
  cases o' with
  | field f'' =>
    simp only [SameHead] at hd
    obtain ⟨k1, k2, k3, k4, k5, k6, k7⟩ := k
    refine ⟨f, f'', h1, readField_of_read hr', ⟨hd.1.trans k1, hd.2.1.trans k2, hd.2.2.1.trans k3, (by rw [hd.2.2.2.1]; exact k4), hd.2.2.2.2.1.trans k5,
      hd.2.2.2.2.2.1.trans k6, sameNames_trans k7 hd.2.2.2.2.2.2⟩, ?_⟩
    exact (hargs.imp fun _ _ r => r.keep st).sublist_right (by simpa [kids] using hk)
  | type _ => simp [SameHead] at hd
  | arg _ => simp [SameHead] at hd
  | dir _ => simp [SameHead] at hd

theorem MRelW.keep {ρ : String → String} {h0 h h' : Heap} (st : StepImp chkT h h') {k : Kind} {src res : List Addr}
    (r : MRelW W ρ h0 h k src res) : MRelW W ρ h0 h' k src res := by
  cases k <;> simp only [MRelW] at r ⊢
  · exact r.imp fun _ _ x => x.keep st
  · exact r.imp fun _ _ x => x.keep st
  · exact r.imp fun _ _ x => x.keep st

theorem MRelW.sublist {ρ : String → String} {h0 h : Heap} {k : Kind} {src res res' : List Addr} (r : MRelW W ρ h0 h k src res)
    (hs : List.Sublist res' res) : MRelW W ρ h0 h k src res' := by
  cases k <;> simp only [MRelW] at r ⊢
  · exact r.sublist_right hs
  · exact r.sublist_right hs
  · exact r.sublist_right hs

theorem TRelW.keep {ρ : String → String} {h0 h h' : Heap} (st : StepImp chkT h h') {t0 : TypeO} {a' : Addr} (r : TRelW W ρ h0 h t0 a') :
    TRelW W ρ h0 h' t0 a' := by
  obtain ⟨t', ht', hat, hm⟩ := r
  obtain ⟨o', hr', hd, hk, _⟩ := st a' _ (readType_read ht')
  cases o' with
  | type t'' => exact ⟨t'', readType_of_read hr', hat.trans hd, (hm.keep st).sublist (by simpa [kids] using hk)⟩
  | field _ => simp [SameHead] at hd
  | arg _ => simp [SameHead] at hd
  | dir _ => simp [SameHead] at hd

/-- `map_and_filter` over related members: the result is, in order, the image of a sub-list -/

theorem FAttrW.same {ρ : String → String} {f f' f'' : FieldO} (k : FAttrW W ρ f f') (s : SameHead (.field f') (.field f'')) : FAttrW W ρ f f'' := by
  simp only [SameHead] at s
  obtain ⟨k1, k2, k3, k4, k5, k6, k7⟩ := k
  exact ⟨s.1.trans k1, s.2.1.trans k2, s.2.2.1.trans k3, (by rw [s.2.2.2.1]; exact k4), s.2.2.2.2.1.trans k5, s.2.2.2.2.2.1.trans k6,
    sameNames_trans k7 s.2.2.2.2.2.2⟩


theorem onArgument_memW (v : Visitor) (hv : Wraps W v) (reg : List (String × Addr)) (ρ : String → String) (h0 h : Heap) (x a : Addr)
    (r : ARel ρ h0 h x a) : ∀ a', (onArgument v reg h a).2 = some a' → ARel (renAfter v ρ) h0 (onArgument v reg h a).1 x a' := by
  obtain ⟨g, g', h1, h2, k⟩ := r
  intro a' e
  simp only [onArgument, h2] at e ⊢
  cases v with
  | camel ren =>
    simp only [Option.some.injEq] at e; subst e
    obtain ⟨k1, k2, k3, k4, k5⟩ := k
    exact ⟨g, _, h1, readArg_alloc_new _ _, by simp [renAfter, renOf, k1], k2, k3, k4, k5⟩
  | heal =>
    cases ht : healed reg g'.ty with
    | none => simp [ht] at e
    | some t =>
      simp only [ht, Option.some.injEq] at e ⊢; subst e
      obtain ⟨k1, k2, k3, k4, k5⟩ := k
      exact ⟨g, _, h1, readArg_write_self h a _ (readArg_lt h2), k1, k2, k3, k4, sameNames_trans k5 (healed_sameNames reg g'.ty t ht)⟩
  | vis p => simp only [Option.some.injEq] at e; subst e; exact ⟨g, g', h1, h2, k⟩
  | sdir d w => simp only [Option.some.injEq] at e; subst e; exact ⟨g, g', h1, h2, k⟩

theorem onInputField_memW (v : Visitor) (hv : Wraps W v) (reg : List (String × Addr)) (ρ : String → String) (h0 h : Heap) (x a : Addr)
    (r : ARel ρ h0 h x a) : ∀ a', (onInputField v reg h a).2 = some a' → ARel (renAfter v ρ) h0 (onInputField v reg h a).1 x a' := by
  obtain ⟨g, g', h1, h2, k⟩ := r
  intro a' e
  simp only [onInputField, h2] at e ⊢
  cases v with
  | camel ren =>
    simp only [Option.some.injEq] at e; subst e
    obtain ⟨k1, k2, k3, k4, k5⟩ := k
    exact ⟨g, _, h1, readArg_alloc_new _ _, by simp [renAfter, renOf, k1], k2, k3, k4, k5⟩
  | heal =>
    cases ht : healed reg g'.ty with
    | none => simp [ht] at e
    | some t =>
      simp only [ht, Option.some.injEq] at e ⊢; subst e
      obtain ⟨k1, k2, k3, k4, k5⟩ := k
      exact ⟨g, _, h1, readArg_write_self h a _ (readArg_lt h2), k1, k2, k3, k4, sameNames_trans k5 (healed_sameNames reg g'.ty t ht)⟩
  | vis p =>
    simp only at e ⊢
    split at e
    · rename_i hvv
      simp only [hvv, if_true, Option.some.injEq] at e ⊢; subst e; exact ⟨g, g', h1, h2, k⟩
    · cases e
  | sdir d w => simp only [Option.some.injEq] at e; subst e; exact ⟨g, g', h1, h2, k⟩


/-- the arguments of a field after `on_argument` was mapped over them -/
theorem args_memW (v : Visitor) (hv : Wraps W v) (reg : List (String × Addr)) (ρ : String → String) (h0 h : Heap) (src as : List Addr)
    (hs : Sub2 (ARel ρ h0 h) src as) :
    Sub2 (ARel (renAfter v ρ) h0 (mapFilter (onArgument v reg) h as).1) src (mapFilter (onArgument v reg) h as).2 :=
  mapFilter_sub2 (Rin := fun h => ARel ρ h0 h) (Rout := fun h => ARel (renAfter v ρ) h0 h)
    (fun _ _ _ _ st r => r.keep st) (fun _ _ _ _ st r => r.keep st) (onArgument_stepT v reg)
    (fun h x a r => onArgument_memW v hv reg ρ h0 h x a r) src as h hs

/-! ### fields -/

/-- base part of `on_field` on the CURRENT field record `f` (attributes untouched; arguments visited) -/
theorem onFieldBase_memW (v : Visitor) (hv : Wraps W v) (reg : List (String × Addr)) (ρ : String → String) (h0 h : Heap) (a : Addr) (f : FieldO)
    (hf : h.readField a = some f) (src : List Addr) (hs : Sub2 (ARel ρ h0 h) src f.args) :
    ∃ f2, (onFieldBase v reg h a f).1.readField (onFieldBase v reg h a f).2 = some f2 ∧ SameHead (.field f) (.field f2) ∧
      Sub2 (ARel (renAfter v ρ) h0 (onFieldBase v reg h a f).1) src f2.args := by
  have hm := args_memW v hv reg ρ h0 h src f.args hs
  have hstep := mapFilter_step (onArgument_step v reg) f.args h chkT (compat_true v reg)
  simp only [onFieldBase]
  split
  · refine ⟨_, readField_alloc_new _ _, ⟨rfl, rfl, rfl, rfl, rfl, rfl, sameNames_refl _⟩, ?_⟩
    exact hm.imp fun _ _ r => r.keep (step_alloc chkT _ _)
  · rename_i hb
    have heq := bne_false_eq hb
    obtain ⟨o', hr', hd, hk, _⟩ := hstep a _ (readField_read hf)
    cases o' with
    | field f' =>
      refine ⟨f', readField_of_read hr', hd, ?_⟩
      exact hm.sublist_right (by rw [heq]; simpa [kids] using hk)
    | type _ => simp [SameHead] at hd
    | arg _ => simp [SameHead] at hd
    | dir _ => simp [SameHead] at hd

theorem onField_memW (v : Visitor) (hv : Wraps W v) (reg : List (String × Addr)) (tn : String) (ρ : String → String) (h0 h : Heap) (x a : Addr)
    (r : FRelW W ρ h0 h x a) : ∀ a', (onField v reg tn h a).2 = some a' → FRelW W (renAfter v ρ) h0 (onField v reg tn h a).1 x a' := by
  obtain ⟨f0, f, h1, h2, k, hargs⟩ := r
  intro a' e
  simp only [onField, h2] at e ⊢
  cases v with
  | camel ren =>
    simp only [Option.some.injEq] at e ⊢; subst e
    have hargs' : Sub2 (ARel ρ h0 (h.alloc (.field { f with name := ren f.name })).1) f0.args f.args :=
      hargs.imp fun _ _ r => r.keep (step_alloc chkT _ _)
    obtain ⟨f2, hr2, hs2, ha2⟩ := onFieldBase_memW (.camel ren) hv reg ρ h0 _ _ { f with name := ren f.name } (readField_alloc_new _ _) f0.args hargs'
    refine ⟨f0, f2, h1, hr2, FAttrW.same ?_ hs2, ha2⟩
    obtain ⟨k1, k2, k3, k4, k5, k6, k7⟩ := k
    exact ⟨by simp [renAfter, renOf, k1], k2, k3, k4, k5, k6, k7⟩
  | vis p =>
    simp only [Option.some.injEq] at e ⊢; subst e
    obtain ⟨f2, hr2, hs2, ha2⟩ := onFieldBase_memW (.vis p) hv reg ρ h0 h a f h2 f0.args hargs
    exact ⟨f0, f2, h1, hr2, FAttrW.same k hs2, ha2⟩
  | heal =>
    simp only at e ⊢
    obtain ⟨f2, hr2, hs2, ha2⟩ := onFieldBase_memW .heal hv reg ρ h0 h a f h2 f0.args hargs
    simp only [healFieldType, hr2] at e ⊢
    cases ht : healed reg f2.ty with
    | none => simp [ht] at e
    | some t =>
      simp only [ht, Option.some.injEq] at e ⊢; subst e
      have hw := write_field_ty chkT _ _ f2 t hr2 rfl (healed_sameNames reg f2.ty t ht)
      refine ⟨f0, { f2 with ty := t }, h1, readField_write_self _ _ _ (readField_lt hr2), ?_, ha2.imp fun _ _ r => r.keep hw⟩
      have := FAttrW.same k hs2
      obtain ⟨k1, k2, k3, k4, k5, k6, k7⟩ := this
      exact ⟨k1, k2, k3, k4, k5, k6, sameNames_trans k7 (healed_sameNames reg f2.ty t ht)⟩
  | sdir d w =>
    cases hdrop : d tn f.name with
    | true => simp [hdrop] at e
    | false =>
      simp only [hdrop, Bool.false_eq_true, if_false] at e ⊢
      cases hw : w tn f.name with
      | some id =>
        simp only [hw, Option.some.injEq] at e ⊢; subst e
        have hargs' : Sub2 (ARel ρ h0 (h.alloc (.field { f with res := some id })).1) f0.args f.args :=
          hargs.imp fun _ _ r => r.keep (step_alloc chkT _ _)
        obtain ⟨f2, hr2, hs2, ha2⟩ := onFieldBase_memW (W := W) (.sdir d w) hv reg ρ h0 _ _ { f with res := some id } (readField_alloc_new _ _) f0.args hargs'
        refine ⟨f0, f2, h1, hr2, FAttrW.same ?_ hs2, ha2⟩
        obtain ⟨k1, k2, k3, k4, k5, k6, k7⟩ := k
        exact ⟨k1, k2, k3, Or.inr ⟨id, rfl, hv tn f.name id hw⟩, k5, k6, k7⟩
      | none =>
        simp only [hw, Option.some.injEq] at e ⊢; subst e
        obtain ⟨f2, hr2, hs2, ha2⟩ := onFieldBase_memW (W := W) (.sdir d w) hv reg ρ h0 h a f h2 f0.args hargs
        exact ⟨f0, f2, h1, hr2, FAttrW.same k hs2, ha2⟩


theorem compositeRest_memW (v : Visitor) (hv : Wraps W v) (reg : List (String × Addr)) (ρ : String → String) (h0 : Heap) (a : Addr) (h : Heap)
    (t0 t : TypeO) (ht : h.readType a = some t) (hat : TAttr t0 t) (hk : t0.kind = Kind.object ∨ t0.kind = Kind.interface)
    (hm : Sub2 (FRelW W ρ h0 h) t0.fields t.fields) :
    ∀ a', (compositeRest v reg a h t).2 = some a' → TRelW W (renAfter v ρ) h0 (compositeRest v reg a h t).1 t0 a' := by
  have hmem := mapFilter_sub2 (Rin := fun h => FRelW W ρ h0 h) (Rout := fun h => FRelW W (renAfter v ρ) h0 h)
    (fun _ _ _ _ st r => r.keep st) (fun _ _ _ _ st r => r.keep st) (onField_stepT v reg t.name)
    (fun h x a r => onField_memW v hv reg t.name ρ h0 h x a r) t0.fields t.fields h hm
  have hstep := mapFilter_step (onField_step v reg t.name) t.fields h chkT (compat_true v reg)
  obtain ⟨tu, hru, hau, hsub, stu⟩ := rebuiltOrSame_mem h _ hstep a t ht (mapFilter (onField v reg t.name) h t.fields).2
  have hrel : TRelW W (renAfter v ρ) h0 (rebuiltOrSame (mapFilter (onField v reg t.name) h t.fields).1 a t (mapFilter (onField v reg t.name) h t.fields).2).1 t0
      (rebuiltOrSame (mapFilter (onField v reg t.name) h t.fields).1 a t (mapFilter (onField v reg t.name) h t.fields).2).2 := by
    refine ⟨tu, hru, hat.trans hau, ?_⟩
    have : Sub2 (FRelW W (renAfter v ρ) h0 (rebuiltOrSame (mapFilter (onField v reg t.name) h t.fields).1 a t (mapFilter (onField v reg t.name) h t.fields).2).1)
        t0.fields tu.fields := (hmem.imp fun _ _ r => r.keep stu).sublist_right hsub
    rcases hk with hk | hk <;> simpa [MRelW, hk] using this
  intro a' e
  simp only [compositeRest] at e ⊢
  cases v with
  | heal =>
    simp only at e ⊢
    split at e
    · rename_i hobj
      simp only [hobj, if_true, hru] at e ⊢
      simp only [Option.some.injEq] at e; subst e
      exact hrel.keep (write_type_ifaces chkT _ _ tu _ hru (by simp))
    · rename_i hobj
      simp only [hobj, Option.some.injEq, Bool.false_eq_true, if_false] at e ⊢; subst e
      exact hrel
  | vis p => simp only [Option.some.injEq] at e ⊢; subst e; exact hrel
  | camel r => simp only [Option.some.injEq] at e ⊢; subst e; exact hrel
  | sdir d w => simp only [Option.some.injEq] at e ⊢; subst e; exact hrel

theorem onComposite_memW (v : Visitor) (hv : Wraps W v) (reg : List (String × Addr)) (ρ : String → String) (h0 h : Heap) (a : Addr)
    (t0 t : TypeO) (ht : h.readType a = some t) (hat : TAttr t0 t) (hk : t0.kind = Kind.object ∨ t0.kind = Kind.interface)
    (hm : Sub2 (FRelW W ρ h0 h) t0.fields t.fields) :
    ∀ a', (onComposite v reg h a t).2 = some a' → TRelW W (renAfter v ρ) h0 (onComposite v reg h a t).1 t0 a' := by
  simp only [onComposite]
  cases v with
  | vis p =>
    simp only
    split
    · intro a' e; cases e
    · split
      · have hw := write_type_fields chkT h a t (t.fields.filter fun fa => match fieldName h fa with | some fnm => p.fieldVis t.name fnm | none => true)
          ht List.filter_sublist
        exact compositeRest_memW (.vis p) hv reg ρ h0 a _ t0
          { t with fields := t.fields.filter fun fa => match fieldName h fa with | some fnm => p.fieldVis t.name fnm | none => true }
          (readType_write_self h a _ (readType_lt' ht)) (hat.trans ⟨rfl, rfl, rfl, rfl, rfl, rfl, rfl, rfl⟩) hk
          ((hm.imp fun _ _ r => r.keep hw).sublist_right List.filter_sublist)
      · exact compositeRest_memW _ hv reg ρ h0 a h t0 t ht hat hk hm
  | heal => exact compositeRest_memW _ hv reg ρ h0 a h t0 t ht hat hk hm
  | camel r => exact compositeRest_memW _ hv reg ρ h0 a h t0 t ht hat hk hm
  | sdir d w => exact compositeRest_memW _ hv reg ρ h0 a h t0 t ht hat hk hm

theorem inputRest_memW (v : Visitor) (hv : Wraps W v) (reg : List (String × Addr)) (ρ : String → String) (h0 : Heap) (a : Addr) (nm : String) (h : Heap)
    (t0 t : TypeO) (ht : h.readType a = some t) (hat : TAttr t0 t) (hk : t0.kind = Kind.input)
    (hm : Sub2 (ARel ρ h0 h) t0.fields t.fields) :
    ∀ a', (inputRest v reg a nm h t).2 = some a' → TRelW W (renAfter v ρ) h0 (inputRest v reg a nm h t).1 t0 a' := by
  have hmem := mapFilter_sub2 (Rin := fun h => ARel ρ h0 h) (Rout := fun h => ARel (renAfter v ρ) h0 h)
    (fun _ _ _ _ st r => r.keep st) (fun _ _ _ _ st r => r.keep st) (onInputField_stepT v reg)
    (fun h x a r => onInputField_memW v hv reg ρ h0 h x a r) t0.fields t.fields h hm
  have hstep := mapFilter_step (onInputField_step v reg) t.fields h chkT (compat_true v reg)
  obtain ⟨tu, hru, hau, hsub, stu⟩ := rebuiltOrSame_mem h _ hstep a t ht (mapFilter (onInputField v reg) h t.fields).2
  have hrel : TRelW W (renAfter v ρ) h0 (rebuiltOrSame (mapFilter (onInputField v reg) h t.fields).1 a t (mapFilter (onInputField v reg) h t.fields).2).1 t0
      (rebuiltOrSame (mapFilter (onInputField v reg) h t.fields).1 a t (mapFilter (onInputField v reg) h t.fields).2).2 := by
    refine ⟨tu, hru, hat.trans hau, ?_⟩
    have : Sub2 (ARel (renAfter v ρ) h0 (rebuiltOrSame (mapFilter (onInputField v reg) h t.fields).1 a t (mapFilter (onInputField v reg) h t.fields).2).1)
        t0.fields tu.fields := (hmem.imp fun _ _ r => r.keep stu).sublist_right hsub
    simpa [MRelW, hk] using this
  intro a' e
  simp only [inputRest] at e ⊢
  cases v with
  | vis p =>
    simp only at e ⊢
    split at e
    · rename_i hvv
      simp only [hvv, if_true, Option.some.injEq] at e ⊢; subst e; exact hrel
    · cases e
  | heal => simp only [Option.some.injEq] at e ⊢; subst e; exact hrel
  | camel r => simp only [Option.some.injEq] at e ⊢; subst e; exact hrel
  | sdir d w => simp only [Option.some.injEq] at e ⊢; subst e; exact hrel

theorem onInputObject_memW (v : Visitor) (hv : Wraps W v) (reg : List (String × Addr)) (ρ : String → String) (h0 h : Heap) (a : Addr)
    (t0 t : TypeO) (ht : h.readType a = some t) (hat : TAttr t0 t) (hk : t0.kind = Kind.input)
    (hm : Sub2 (ARel ρ h0 h) t0.fields t.fields) :
    ∀ a', (onInputObject v reg h a t).2 = some a' → TRelW W (renAfter v ρ) h0 (onInputObject v reg h a t).1 t0 a' := by
  simp only [onInputObject]
  cases v with
  | vis p =>
    simp only
    split
    · have hw := write_type_fields chkT h a t (t.fields.filter fun fa => match argName h fa with | some fnm => p.inputVis t.name fnm | none => true)
        ht List.filter_sublist
      exact inputRest_memW (.vis p) hv reg ρ h0 a t.name _ t0
        { t with fields := t.fields.filter fun fa => match argName h fa with | some fnm => p.inputVis t.name fnm | none => true }
        (readType_write_self h a _ (readType_lt' ht)) (hat.trans ⟨rfl, rfl, rfl, rfl, rfl, rfl, rfl, rfl⟩) hk
        ((hm.imp fun _ _ r => r.keep hw).sublist_right List.filter_sublist)
    · exact inputRest_memW _ hv reg ρ h0 a t.name h t0 t ht hat hk hm
  | heal => exact inputRest_memW _ hv reg ρ h0 a t.name h t0 t ht hat hk hm
  | camel r => exact inputRest_memW _ hv reg ρ h0 a t.name h t0 t ht hat hk hm
  | sdir d w => exact inputRest_memW _ hv reg ρ h0 a t.name h t0 t ht hat hk hm

/-- `on_schema`'s dispatch: what it returns for a type that is a copy of the source type `t0` is again a copy of `t0` -/
theorem onType_memW (v : Visitor) (hv : Wraps W v) (reg : List (String × Addr)) (ρ : String → String) (h0 h : Heap) (a : Addr) (t0 : TypeO)
    (r : TRelW W ρ h0 h t0 a) : ∀ a', (onType v reg h a).2 = some a' → TRelW W (renAfter v ρ) h0 (onType v reg h a).1 t0 a' := by
  obtain ⟨t, ht, hat, hm⟩ := r
  have hkind := hat.kind
  intro a' e
  cases hk0 : t0.kind with
  | object =>
    have hkt : t.kind = Kind.object := by rw [hkind, hk0]
    simp only [onType, ht, hkt] at e ⊢
    exact onComposite_memW v hv reg ρ h0 h a t0 t ht hat (Or.inl hk0) (by simpa [MRelW, hk0] using hm) a' e
  | interface =>
    have hkt : t.kind = Kind.interface := by rw [hkind, hk0]
    simp only [onType, ht, hkt] at e ⊢
    exact onComposite_memW v hv reg ρ h0 h a t0 t ht hat (Or.inr hk0) (by simpa [MRelW, hk0] using hm) a' e
  | input =>
    have hkt : t.kind = Kind.input := by rw [hkind, hk0]
    simp only [onType, ht, hkt] at e ⊢
    exact onInputObject_memW v hv reg ρ h0 h a t0 t ht hat hk0 (by simpa [MRelW, hk0] using hm) a' e
  | union =>
    obtain ⟨t', ht', hat'⟩ := onType_attrs v reg h a t ht a' e
    exact ⟨t', ht', hat.trans hat', by simp [MRelW, hk0]⟩
  | scalar =>
    obtain ⟨t', ht', hat'⟩ := onType_attrs v reg h a t ht a' e
    exact ⟨t', ht', hat.trans hat', by simp [MRelW, hk0]⟩
  | enum =>
    obtain ⟨t', ht', hat'⟩ := onType_attrs v reg h a t ht a' e
    exact ⟨t', ht', hat.trans hat', by simp [MRelW, hk0]⟩

/-- entry `e'` (heap `h`) is a copy — attributes AND members — of the source's entry of the same name -/
def EntRelW (W : Nat → Prop) (ρ : String → String) (h0 : Heap) (reg0 : List (String × Addr)) (h : Heap) (e' : String × Addr) : Prop :=
  ∃ e, e ∈ reg0 ∧ e.1 = e'.1 ∧ ∀ t0, h0.readType e.2 = some t0 → TRelW W ρ h0 h t0 e'.2

/-- every non-protected registry entry is such a copy -/
def MemOriginW (W : Nat → Prop) (ρ : String → String) (h0 : Heap) (reg0 : List (String × Addr)) (h : Heap) (reg : List (String × Addr)) : Prop :=
  ∀ e', e' ∈ reg → isProtected e'.1 = true ∨ EntRelW W ρ h0 reg0 h e'

theorem EntRelW.keep {ρ : String → String} {h0 : Heap} {reg0 : List (String × Addr)} {h h' : Heap} (st : StepImp chkT h h') {e' : String × Addr}
    (r : EntRelW W ρ h0 reg0 h e') : EntRelW W ρ h0 reg0 h' e' := by
  obtain ⟨e, he, hn, hr⟩ := r
  exact ⟨e, he, hn, fun t0 ht0 => (hr t0 ht0).keep st⟩

theorem visitTypes_memW (v : Visitor) (hv : Wraps W v) (reg : List (String × Addr)) (ρ : String → String) (h0 : Heap) (reg0 : List (String × Addr)) :
    ∀ (l : List (String × Addr)) (h : Heap), (∀ e, e ∈ l → isProtected e.1 = false → EntRelW W ρ h0 reg0 h e) →
      (∀ e, e ∈ l → isProtected e.1 = false →
        (∃ x, x ∈ (visitTypes v reg h l).2 ∧ x.1 = e.1) ∨ EntRelW W (renAfter v ρ) h0 reg0 (visitTypes v reg h l).1 e) ∧
      (∀ x, x ∈ (visitTypes v reg h l).2 → ∀ a', x.2 = some a' → EntRelW W (renAfter v ρ) h0 reg0 (visitTypes v reg h l).1 (x.1, a')) := by
  intro l
  induction l with
  | nil => intro h _; exact ⟨by simp, by simp [visitTypes]⟩
  | cons e0 rest ih =>
    intro h hin
    obtain ⟨n, a⟩ := e0
    by_cases hp : isProtected n = true
    · simp only [visitTypes, hp, if_true]
      obtain ⟨f1, f2⟩ := ih h (fun e he => hin e (by simp [he]))
      refine ⟨?_, f2⟩
      intro e he hnp
      simp only [List.mem_cons] at he
      rcases he with rfl | he
      · simp [hnp] at hp
      · exact f1 e he hnp
    · have hnp : isProtected n = false := by simpa using hp
      simp only [visitTypes, hnp, Bool.false_eq_true, if_false]
      have st0 := onType_step v reg h a chkT (compat_true v reg)
      have strest := visitTypes_step v reg rest (onType v reg h a).1 chkT (compat_true v reg)
      obtain ⟨f1, f2⟩ := ih (onType v reg h a).1 (fun e he hq => (hin e (by simp [he]) hq).keep st0)
      obtain ⟨e0, he0, hn0, hr0⟩ := hin (n, a) (by simp) hnp
      have hhead : ∀ a', (onType v reg h a).2 = some a' → EntRelW W (renAfter v ρ) h0 reg0 (visitTypes v reg (onType v reg h a).1 rest).1 (n, a') := by
        intro a' ea
        exact ⟨e0, he0, hn0, fun t0 ht0 => (onType_memW v hv reg ρ h0 h a t0 (hr0 t0 ht0) a' ea).keep strest⟩
      refine ⟨?_, ?_⟩
      · intro e he hq
        simp only [List.mem_cons] at he
        rcases he with rfl | he
        · split
          · exact Or.inl ⟨(n, (onType v reg h a).2), by simp, rfl⟩
          · rename_i hsame
            right
            have hsm : (onType v reg h a).2 = some a := by simpa using hsame
            exact hhead a hsm
        · rcases f1 e he hq with ⟨x, hx, hxe⟩ | h2
          · left
            split
            · exact ⟨x, by simp [hx], hxe⟩
            · exact ⟨x, hx, hxe⟩
          · right
            exact h2
      · intro x hx a' ea
        split at hx
        · simp only [List.mem_cons] at hx
          rcases hx with rfl | hx
          · exact hhead a' ea
          · exact f2 x hx a' ea
        · exact f2 x hx a' ea

/-- one `on_schema` round of a member-preserving visitor -/
theorem round_memW (cfg : Cfg) (v : Visitor) (hv : Wraps W v) (ρ : String → String) (h0 : Heap) (reg0 : List (String × Addr)) (s : Schema) (h : Heap)
    (ho : MemOriginW W ρ h0 reg0 h s.types) :
    MemOriginW W (renAfter v ρ) h0 reg0 (visitAll v s h).1 (replaceCore cfg s (visitAll v s h).2.1 (visitAll v s h).2.2).1.types := by
  have stD := visitDirs_step v s.types s.dirs (visitTypes v s.types h s.types).1 chkT (compat_true v s.types)
  obtain ⟨f1, f2⟩ := visitTypes_memW v hv s.types ρ h0 reg0 s.types h (fun e he hnp => by
    rcases ho e he with hp | hr
    · simp [hnp] at hp
    · exact hr)
  simp only [replaceCore, visitAll]
  apply replaceTypes_pred cfg (fun e' => isProtected e'.1 = true ∨ EntRelW W (renAfter v ρ) h0 reg0 (visitDirs v s.types (visitTypes v s.types h s.types).1 s.dirs).1 e')
  · intro x hx a' ea
    exact Or.inr ((f2 x hx a' ea).keep stD)
  · intro e' he'
    by_cases hp : isProtected e'.1 = true
    · exact Or.inl (Or.inl hp)
    · have hnp : isProtected e'.1 = false := by simpa using hp
      rcases f1 e' he' hnp with ⟨x, hx, hxe⟩ | hr
      · exact Or.inr (List.mem_map.mpr ⟨x, hx, hxe⟩)
      · exact Or.inl (Or.inr (hr.keep stD))

theorem healLoop_memW (cfg : Cfg) (ρ : String → String) (h0 : Heap) (reg0 : List (String × Addr)) : ∀ (fuel : Nat) (s : Schema) (h h' : Heap) (s' : Schema),
    MemOriginW W ρ h0 reg0 h s.types → healLoop cfg fuel s h = some (h', s') → MemOriginW W ρ h0 reg0 h' s'.types := by
  intro fuel
  induction fuel with
  | zero => intro s h h' s' _ e; simp [healLoop] at e
  | succ fuel ih =>
    intro s h h' s' ho e
    rw [healLoop] at e
    have hr : MemOriginW W ρ h0 reg0 (visitAll .heal s h).1 (replaceCore cfg s (visitAll .heal s h).2.1 (visitAll .heal s h).2.2).1.types :=
      round_memW cfg .heal trivial ρ h0 reg0 s h ho
    split at e
    · exact ih _ _ _ _ hr e
    · cases e; exact hr

theorem onSchema_memW (cfg : Cfg) (fuel : Nat) (v : Visitor) (hv : Wraps W v) (ρ : String → String) (h0 : Heap) (reg0 : List (String × Addr))
    (s : Schema) (h h' : Heap) (s' : Schema) (ho : MemOriginW W ρ h0 reg0 h s.types) (e : onSchema cfg fuel v s h = some (h', s')) :
    MemOriginW W (renAfter v ρ) h0 reg0 h' s'.types := by
  simp only [onSchema, replaceTD] at e
  have hr := round_memW cfg v hv ρ h0 reg0 s h ho
  split at e
  · exact healLoop_memW cfg _ h0 reg0 fuel _ _ _ _ hr e
  · cases e; exact hr


theorem transformFrom_memW (cfg : Cfg) (fuel : Nat) (h0 : Heap) (reg0 : List (String × Addr)) : ∀ (vs : List Visitor), (∀ v, v ∈ vs → Wraps W v) →
    ∀ (ρ : String → String) (h : Heap) (s : Schema) (h' : Heap) (s' : Schema), MemOriginW W ρ h0 reg0 h s.types →
      transformFrom cfg fuel vs (h, s) = some (h', s') → MemOriginW W (renAll vs ρ) h0 reg0 h' s'.types := by
  intro vs
  induction vs with
  | nil => intro _ ρ h s h' s' ho e; simp only [transformFrom] at e; cases e; exact ho
  | cons v vs ih =>
    intro hv ρ h s h' s' ho e
    simp only [transformFrom] at e
    split at e
    · cases e
    · rename_i r hr
      obtain ⟨h1, s1⟩ := r
      exact ih (fun v' hv' => hv v' (by simp [hv'])) _ h1 s1 h' s'
        (onSchema_memW cfg fuel v (hv v (by simp)) ρ h0 reg0 s h h1 s1 ho hr) e

end PyGql.Heap.Own

/-
  THE MEMOISED OVERLAP SEARCH REPORTS ONLY GENUINE CONFLICTS (`Validate/OverlapMemo.lean`; the un-memoised statement
  is `search_sound`, `Lemmas/ValidateOverlapSearch*.lean`): the proofs carry over - the memo of
  `_conflicts_between_fields_and_fragment` only adds an early return without a report.
  (Generated from the un-memoised proofs by renaming; one extra branch in `stepM_ff`.)
-/
import PyGqlModel.Validate.ChainMemo
import PyGqlModel.Lemmas.ValidateOverlapWalk
namespace PyGql.Validate
open PyGql PyGql.Validate.Spec

section
variable (s : SchemaD) (fx : Fixes) (d : Doc)

def SFindM (fuel : Nat) : Prop :=
  ∀ pme f1 f2 c, CI s d c → Ent s d f1 → Ent s d f2 →
    CI s d (findConflictM s fx fuel pme f1 f2 c).2 ∧ ((findConflictM s fx fuel pme f1 f2 c).1 = true → Conf s d pme f1 f2)

def SCbM (fuel : Nat) : Prop :=
  ∀ me fm1 fm2 c, CI s d c → EntOK (fun _ e => Ent s d e) fm1 → EntOK (fun _ e => Ent s d e) fm2 →
    CI s d (conflictsBetweenM s fx fuel me fm1 fm2 c).2 ∧
    (0 < (conflictsBetweenM s fx fuel me fm1 fm2 c).1 → ∃ rn e1 e2, Has fm1 rn e1 ∧ Has fm2 rn e2 ∧ Conf s d me e1 e2)

def SFfM (fuel : Nat) : Prop :=
  ∀ me ssid fm name c, CI s d c → EntOK (fun _ e => Ent s d e) fm →
    CI s d (betweenFieldsAndFragmentM s fx fuel me ssid fm name c).2 ∧
    (0 < (betweenFieldsAndFragmentM s fx fuel me ssid fm name c).1 →
      ∃ rn e1 e2, Has fm rn e1 ∧ CollF s d name rn e2 ∧ Conf s d me e1 e2)

def SFrM (fuel : Nat) : Prop :=
  ∀ me of1 of2 c, CI s d c →
    CI s d (betweenFragmentsM s fx fuel me of1 of2 c).2 ∧
    (0 < (betweenFragmentsM s fx fuel me of1 of2 c).1 →
      ∃ f1 f2 rn e1 e2, of1 = some f1 ∧ of2 = some f2 ∧ CollF s d f1 rn e1 ∧ CollF s d f2 rn e2 ∧ Conf s d me e1 e2)

def SSsM (fuel : Nat) : Prop :=
  ∀ me p1 id1 sels1 p2 id2 sels2 c, CI s d c → SelSet d id1 sels1 → Adm s d id1 p1 → SelSet d id2 sels2 → Adm s d id2 p2 →
    CI s d (betweenSubselectionsM s fx fuel me p1 id1 sels1 p2 id2 sels2 c).2 ∧
    (0 < (betweenSubselectionsM s fx fuel me p1 id1 sels1 p2 id2 sels2 c).1 →
      ∃ p1' p2' rn e1 e2, Adm s d id1 p1' ∧ Adm s d id2 p2' ∧ Coll s d p1' sels1 rn e1 ∧ Coll s d p2' sels2 rn e2 ∧
        (Conf s d me e1 e2 ∨ Conf s d me e2 e1))

theorem stepM_find (fuel : Nat) (hss : SSsM s fx d fuel) : SFindM s fx d (fuel + 1) := by
  intro pme f1 f2 c hc h1 h2
  simp only [findConflictM]
  generalize hm0 : (pme || _) = me
  have hm : (pme || exclusiveParents s f1 f2) = me := hm0
  clear hm0
  have htypes : ∀ (h : (match f1.fdef.map (·.type), f2.fdef.map (·.type) with
      | some a, some b => typesConflict s a b
      | _, _ => false) = true), Conf s d pme f1 f2 := by
    intro h
    cases h1t : f1.fdef.map (·.type) with
    | none => rw [h1t] at h; cases h
    | some a =>
      cases h2t : f2.fdef.map (·.type) with
      | none => rw [h1t, h2t] at h; cases h
      | some b => rw [h1t, h2t] at h; exact .types h1t h2t h
  have hsubs : (f1.hasSub && f2.hasSub) = true →
      CI s d (betweenSubselectionsM s fx fuel me ((f1.fdef.map (·.type)).map (·.base)) f1.ssid f1.sub
        ((f2.fdef.map (·.type)).map (·.base)) f2.ssid f2.sub c).2 ∧
      (0 < (betweenSubselectionsM s fx fuel me ((f1.fdef.map (·.type)).map (·.base)) f1.ssid f1.sub
        ((f2.fdef.map (·.type)).map (·.base)) f2.ssid f2.sub c).1 → Conf s d pme f1 f2) := by
    intro hsub
    simp only [Bool.and_eq_true] at hsub
    obtain ⟨s1, a1⟩ := h1.sub hsub.1
    obtain ⟨s2, a2⟩ := h2.sub hsub.2
    obtain ⟨c1, c2⟩ := hss me _ _ _ _ _ _ c hc s1 a1 s2 a2
    refine ⟨c1, fun h => ?_⟩
    obtain ⟨p1', p2', rn, e1, e2, b1, b2, b3, b4, b5⟩ := c2 h
    rcases b5 with b5 | b5
    · exact .sub hsub.1 hsub.2 b1 b2 b3 b4 (by rw [hm]; exact b5)
    · exact .subSwap hsub.1 hsub.2 b1 b2 b3 b4 (by rw [hm]; exact b5)
  have htail : CI s d
      (if (match f1.fdef.map (·.type), f2.fdef.map (·.type) with
          | some a, some b => typesConflict s a b
          | _, _ => false) = true then (true, c)
        else if (f1.hasSub && f2.hasSub) = true then
          (decide ((betweenSubselectionsM s fx fuel me ((f1.fdef.map (·.type)).map (·.base)) f1.ssid f1.sub
            ((f2.fdef.map (·.type)).map (·.base)) f2.ssid f2.sub c).1 > 0),
           (betweenSubselectionsM s fx fuel me ((f1.fdef.map (·.type)).map (·.base)) f1.ssid f1.sub
            ((f2.fdef.map (·.type)).map (·.base)) f2.ssid f2.sub c).2)
        else (false, c)).2 ∧
      ((if (match f1.fdef.map (·.type), f2.fdef.map (·.type) with
          | some a, some b => typesConflict s a b
          | _, _ => false) = true then (true, c)
        else if (f1.hasSub && f2.hasSub) = true then
          (decide ((betweenSubselectionsM s fx fuel me ((f1.fdef.map (·.type)).map (·.base)) f1.ssid f1.sub
            ((f2.fdef.map (·.type)).map (·.base)) f2.ssid f2.sub c).1 > 0),
           (betweenSubselectionsM s fx fuel me ((f1.fdef.map (·.type)).map (·.base)) f1.ssid f1.sub
            ((f2.fdef.map (·.type)).map (·.base)) f2.ssid f2.sub c).2)
        else (false, c)).1 = true → Conf s d pme f1 f2) := by
    generalize htcd : (match f1.fdef.map (·.type), f2.fdef.map (·.type) with
      | some a, some b => typesConflict s a b
      | _, _ => false) = tc at htypes
    cases tc with
    | true => exact ⟨hc, fun _ => htypes rfl⟩
    | false =>
      simp only [Bool.false_eq_true, ↓reduceIte]
      generalize hsd : (f1.hasSub && f2.hasSub) = hs at hsubs
      cases hs with
      | true =>
        simp only [↓reduceIte]
        obtain ⟨c1, c2⟩ := hsubs rfl
        exact ⟨c1, fun h => c2 (by simpa using h)⟩
      | false => exact ⟨hc, fun h => by simp at h⟩
  cases me with
  | true =>
    simp only [↓reduceIte]
    exact htail
  | false =>
    simp only [Bool.false_eq_true, ↓reduceIte]
    by_cases hn : (f1.name != f2.name) = true
    · simp only [hn, ↓reduceIte]
      exact ⟨hc, fun _ => .args hm (Or.inl (by simpa using hn))⟩
    · simp only [hn, Bool.false_eq_true, ↓reduceIte]
      cases hsa : sameArguments f1.args f2.args with
      | none => exact ⟨hc.crash _, fun h => by cases h⟩
      | some b =>
        cases b with
        | false => exact ⟨hc, fun _ => .args hm (Or.inr hsa)⟩
        | true => exact htail

theorem stepM_cb (fuel : Nat) (hf : SFindM s fx d fuel) : SCbM s fx d (fuel + 1) := by
  intro me fm1 fm2 c hc h1 h2
  simp only [conflictsBetweenM]
  refine sumLoop_spec' fm1 _ (CI s d)
    (fun q => ∃ e1 e2, e1 ∈ q.2 ∧ Has fm2 q.1 e2 ∧ Conf s d me e1 e2) _ (fun q hq c hc => ?_)
    (fun q hq hQ => by
      obtain ⟨e1, e2, a1, a2, a3⟩ := hQ
      exact ⟨q.1, e1, e2, ⟨q.2, hq, a1⟩, a2, a3⟩) c hc
  obtain ⟨rn, fields1⟩ := q
  simp only
  cases hg : AL.get? fm2 rn with
  | none => exact ⟨hc, fun h => by cases h⟩
  | some fields2 =>
    simp only
    refine sumLoop_spec' fields1 _ (CI s d) (fun f1 => ∃ e2, e2 ∈ fields2 ∧ Conf s d me f1 e2) _
      (fun f1 hf1 c hc => ?_)
      (fun f1 hf1 hQ => by
        obtain ⟨e2, b1, b2⟩ := hQ
        exact ⟨f1, e2, hf1, ⟨fields2, AL.mem_of_get? hg, b1⟩, b2⟩) c hc
    refine sumLoop_spec' fields2 _ (CI s d) (fun f2 => Conf s d me f1 f2) _ (fun f2 hf2 c hc => ?_)
      (fun f2 hf2 hQ => ⟨f2, hf2, hQ⟩) c hc
    obtain ⟨r1, r2⟩ := hf me f1 f2 c hc (h1 _ hq f1 hf1) (h2 _ (AL.mem_of_get? hg) f2 hf2)
    refine ⟨r1, fun h => r2 ?_⟩
    cases hb : (findConflictM s fx fuel me f1 f2 c).1 with
    | true => rfl
    | false => rw [hb] at h; simp at h


theorem stepM_ff (fuel : Nat) (hcb : SCbM s fx d fuel) (hff : SFfM s fx d fuel) : SFfM s fx d (fuel + 1) := by
  intro me ssid fm name c hc h1
  simp only [betweenFieldsAndFragmentM]
  by_cases hcm : c.cmp.contains name = true
  · rw [if_pos hcm]; exact ⟨hc, fun h => by cases h⟩
  · rw [if_neg hcm]
    have hc1 : CI s d { c with cmp := name :: c.cmp } := hc.cmp _
    cases hg : c.frags.get? name with
    | none => exact ⟨hc1, fun h => by cases h⟩
    | some v =>
      obtain ⟨on, fid, fsels⟩ := v
      simp only
      by_cases hmemo : (ssid, name, me) ∈ c.ffp
      · rw [if_pos hmemo]; exact ⟨hc1, fun h => by cases h⟩
      rw [if_neg hmemo]
      have hc1' : CI s d { c with cmp := name :: c.cmp, ffp := (ssid, name, me) :: c.ffp } := ⟨hc.frags, hc.cache⟩
      obtain ⟨b1, b2, b3, b4⟩ := ff_frag s d hc1' (name := name) hg
      generalize fieldsAndFragments s ((typeFromAst s (.named on)).map (·.base)) fid fsels
        { c with cmp := name :: c.cmp, ffp := (ssid, name, me) :: c.ffp } = r at b1 b2 b3 b4 ⊢
      obtain ⟨⟨fm2, fr2⟩, c2⟩ := r
      simp only at b1 b2 b3 b4 ⊢
      by_cases hid : (ssid == fid) = true
      · rw [if_pos hid]; exact ⟨b1, fun h => by cases h⟩
      · rw [if_neg hid]
        obtain ⟨r1, r2⟩ := hcb me fm fm2 c2 b1 h1 b2
        obtain ⟨q1, q2⟩ := sumLoop_spec' fr2 (fun fr c => betweenFieldsAndFragmentM s fx fuel me ssid fm fr c) (CI s d)
          (fun fr => ∃ rn e1 e2, Has fm rn e1 ∧ CollF s d fr rn e2 ∧ Conf s d me e1 e2)
          (∃ rn e1 e2, Has fm rn e1 ∧ CollF s d name rn e2 ∧ Conf s d me e1 e2)
          (fun fr _ c hc => hff me ssid fm fr c hc h1)
          (fun fr hfr hQ => by
            obtain ⟨rn, e1, e2, x1, x2, x3⟩ := hQ
            exact ⟨rn, e1, e2, x1, b4 fr hfr rn e2 x2, x3⟩) _ r1
        refine ⟨q1, fun h => ?_⟩
        simp only at h
        by_cases h0 : 0 < (conflictsBetweenM s fx fuel me fm fm2 c2).1
        · obtain ⟨rn, e1, e2, x1, x2, x3⟩ := r2 h0
          exact ⟨rn, e1, e2, x1, b3 rn e2 x2, x3⟩
        · exact q2 (by omega)

theorem stepM_fr (h7 : fx.v7 = true) (fuel : Nat) (hcb : SCbM s fx d fuel) (hfr : SFrM s fx d fuel) :
    SFrM s fx d (fuel + 1) := by
  intro me of1 of2 c hc
  cases of1 with
  | none => simp only [betweenFragmentsM]; exact ⟨hc, fun h => by cases h⟩
  | some f1 =>
    cases of2 with
    | none => simp only [betweenFragmentsM]; exact ⟨hc, fun h => by cases h⟩
    | some f2 =>
      simp only [betweenFragmentsM, h7, ↓reduceIte]
      split
      · exact ⟨hc, fun h => by cases h⟩
      · split
        · exact ⟨hc, fun h => by cases h⟩
        · generalize hkey : (sortedPair f1 f2) = key
          have hc1 : CI s d { c with pairs := (key.1, key.2, me) :: c.pairs } := hc.pairs _
          cases hg1 : c.frags.get? f1 with
          | none => exact ⟨hc1, fun h => by cases h⟩
          | some v1 =>
            cases hg2 : c.frags.get? f2 with
            | none => exact ⟨hc1, fun h => by cases h⟩
            | some v2 =>
              obtain ⟨on1, id1, sels1⟩ := v1
              obtain ⟨on2, id2, sels2⟩ := v2
              simp only
              obtain ⟨a1, a2, a3, a4⟩ := ff_frag s d hc1 (name := f1) hg1
              generalize fieldsAndFragments s ((typeFromAst s (.named on1)).map (·.base)) id1 sels1
                { c with pairs := (key.1, key.2, me) :: c.pairs } = ra at a1 a2 a3 a4 ⊢
              obtain ⟨⟨fma, fra⟩, ca⟩ := ra
              simp only at a1 a2 a3 a4 ⊢
              have hg2' : ca.frags.get? f2 = some (on2, id2, sels2) := by
                rw [a1.frags, ← hc.frags]; exact hg2
              obtain ⟨b1, b2, b3, b4⟩ := ff_frag s d a1 (name := f2) hg2'
              generalize fieldsAndFragments s ((typeFromAst s (.named on2)).map (·.base)) id2 sels2 ca = rb
                at b1 b2 b3 b4 ⊢
              obtain ⟨⟨fmb, frb⟩, cb⟩ := rb
              simp only at b1 b2 b3 b4 ⊢
              obtain ⟨r01, r02⟩ := hcb me fma fmb cb b1 a2 b2
              let G : Prop := ∃ g1 g2 rn e1 e2, some f1 = some g1 ∧ some f2 = some g2 ∧ CollF s d g1 rn e1 ∧
                CollF s d g2 rn e2 ∧ Conf s d me e1 e2
              obtain ⟨r11, r12⟩ := sumLoop_spec' fra (fun fr c => betweenFragmentsM s fx fuel me (some fr) (some f2) c)
                (CI s d) (fun fr => ∃ rn e1 e2, CollF s d fr rn e1 ∧ CollF s d f2 rn e2 ∧ Conf s d me e1 e2) G
                (fun fr _ c hc => by
                  obtain ⟨x1, x2⟩ := hfr me (some fr) (some f2) c hc
                  refine ⟨x1, fun h => ?_⟩
                  obtain ⟨g1, g2, rn, e1, e2, y1, y2, y3, y4, y5⟩ := x2 h
                  cases y1; cases y2
                  exact ⟨rn, e1, e2, y3, y4, y5⟩)
                (fun fr hfr' hQ => by
                  obtain ⟨rn, e1, e2, y3, y4, y5⟩ := hQ
                  exact ⟨f1, f2, rn, e1, e2, rfl, rfl, a4 fr hfr' rn e1 y3, y4, y5⟩) _ r01
              obtain ⟨r21, r22⟩ := sumLoop_spec' frb (fun fr c => betweenFragmentsM s fx fuel me (some f1) (some fr) c)
                (CI s d) (fun fr => ∃ rn e1 e2, CollF s d f1 rn e1 ∧ CollF s d fr rn e2 ∧ Conf s d me e1 e2) G
                (fun fr _ c hc => by
                  obtain ⟨x1, x2⟩ := hfr me (some f1) (some fr) c hc
                  refine ⟨x1, fun h => ?_⟩
                  obtain ⟨g1, g2, rn, e1, e2, y1, y2, y3, y4, y5⟩ := x2 h
                  cases y1; cases y2
                  exact ⟨rn, e1, e2, y3, y4, y5⟩)
                (fun fr hfr' hQ => by
                  obtain ⟨rn, e1, e2, y3, y4, y5⟩ := hQ
                  exact ⟨f1, f2, rn, e1, e2, rfl, rfl, y3, b4 fr hfr' rn e2 y4, y5⟩) _ r11
              refine ⟨r21, fun h => ?_⟩
              by_cases h0 : 0 < (conflictsBetweenM s fx fuel me fma fmb cb).1
              · obtain ⟨rn, e1, e2, x1, x2, x3⟩ := r02 h0
                exact ⟨f1, f2, rn, e1, e2, rfl, rfl, a3 rn e1 x1, b3 rn e2 x2, x3⟩
              · by_cases h1 : 0 < (sumLoop fra (fun fr c => betweenFragmentsM s fx fuel me (some fr) (some f2) c)
                    (conflictsBetweenM s fx fuel me fma fmb cb).2).1
                · exact r12 h1
                · exact r22 (by omega)


theorem stepM_ss (fuel : Nat) (hcb : SCbM s fx d fuel) (hff : SFfM s fx d fuel) (hfr : SFrM s fx d fuel) :
    SSsM s fx d (fuel + 1) := by
  intro me p1 id1 sels1 p2 id2 sels2 c hc s1 a1 s2 a2
  simp only [betweenSubselectionsM]
  obtain ⟨x1, x2, p1', x3, x4, x5⟩ := ff_set s d hc s1 a1
  generalize fieldsAndFragments s p1 id1 sels1 c = ra at x1 x2 x4 x5 ⊢
  obtain ⟨⟨fma, fra⟩, ca⟩ := ra
  simp only at x1 x2 x4 x5 ⊢
  obtain ⟨y1, y2, p2', y3, y4, y5⟩ := ff_set s d x1 s2 a2
  generalize fieldsAndFragments s p2 id2 sels2 ca = rb at y1 y2 y4 y5 ⊢
  obtain ⟨⟨fmb, frb⟩, cb⟩ := rb
  simp only at y1 y2 y4 y5 ⊢
  let G : Prop := ∃ q1 q2 rn e1 e2, Adm s d id1 q1 ∧ Adm s d id2 q2 ∧ Coll s d q1 sels1 rn e1 ∧ Coll s d q2 sels2 rn e2 ∧
    (Conf s d me e1 e2 ∨ Conf s d me e2 e1)
  obtain ⟨r01, r02⟩ := hcb me fma fmb cb y1 x2 y2
  obtain ⟨r11, r12⟩ := sumLoop_spec' frb
    (fun fr c => withFreshCmp (betweenFieldsAndFragmentM s fx fuel me id1 fma fr) c) (CI s d)
    (fun fr => ∃ rn e1 e2, Has fma rn e1 ∧ CollF s d fr rn e2 ∧ Conf s d me e1 e2) G
    (fun fr _ c hc => withFreshCmp_spec s d _ _ (fun c hc => hff me id1 fma fr c hc x2) c hc)
    (fun fr hfr' hQ => by
      obtain ⟨rn, e1, e2, z1, z2, z3⟩ := hQ
      exact ⟨p1', p2', rn, e1, e2, x3, y3, x4 rn e1 z1, y5 fr hfr' rn e2 z2, Or.inl z3⟩) _ r01
  obtain ⟨r21, r22⟩ := sumLoop_spec' fra
    (fun fr c => withFreshCmp (betweenFieldsAndFragmentM s fx fuel me id2 fmb fr) c) (CI s d)
    (fun fr => ∃ rn e1 e2, Has fmb rn e1 ∧ CollF s d fr rn e2 ∧ Conf s d me e1 e2) G
    (fun fr _ c hc => withFreshCmp_spec s d _ _ (fun c hc => hff me id2 fmb fr c hc y2) c hc)
    (fun fr hfr' hQ => by
      obtain ⟨rn, e1, e2, z1, z2, z3⟩ := hQ
      exact ⟨p1', p2', rn, e2, e1, x3, y3, x5 fr hfr' rn e2 z2, y4 rn e1 z1, Or.inr z3⟩) _ r11
  obtain ⟨r31, r32⟩ := sumLoop_spec' fra
    (fun f1 c => sumLoop frb (fun f2 c => betweenFragmentsM s fx fuel me (some f1) (some f2) c) c) (CI s d)
    (fun f1 => ∃ f2 ∈ frb, ∃ rn e1 e2, CollF s d f1 rn e1 ∧ CollF s d f2 rn e2 ∧ Conf s d me e1 e2) G
    (fun f1 _ c hc => sumLoop_spec' frb (fun f2 c => betweenFragmentsM s fx fuel me (some f1) (some f2) c) (CI s d)
      (fun f2 => ∃ rn e1 e2, CollF s d f1 rn e1 ∧ CollF s d f2 rn e2 ∧ Conf s d me e1 e2) _
      (fun f2 _ c hc => by
        obtain ⟨w1, w2⟩ := hfr me (some f1) (some f2) c hc
        refine ⟨w1, fun h => ?_⟩
        obtain ⟨g1, g2, rn, e1, e2, z1, z2, z3, z4, z5⟩ := w2 h
        cases z1; cases z2
        exact ⟨rn, e1, e2, z3, z4, z5⟩)
      (fun f2 hf2 hQ => ⟨f2, hf2, hQ⟩) c hc)
    (fun f1 hf1 hQ => by
      obtain ⟨f2, hf2, rn, e1, e2, z3, z4, z5⟩ := hQ
      exact ⟨p1', p2', rn, e1, e2, x3, y3, x5 f1 hf1 rn e1 z3, y5 f2 hf2 rn e2 z4, Or.inl z5⟩) _ r21
  refine ⟨r31, fun h => ?_⟩
  by_cases h0 : 0 < (conflictsBetweenM s fx fuel me fma fmb cb).1
  · obtain ⟨rn, e1, e2, z1, z2, z3⟩ := r02 h0
    exact ⟨p1', p2', rn, e1, e2, x3, y3, x4 rn e1 z1, y4 rn e2 z2, Or.inl z3⟩
  · by_cases h1 : 0 < (sumLoop frb (fun fr c => withFreshCmp (betweenFieldsAndFragmentM s fx fuel me id1 fma fr) c)
        (conflictsBetweenM s fx fuel me fma fmb cb).2).1
    · exact r12 h1
    · by_cases h2 : 0 < (sumLoop fra (fun fr c => withFreshCmp (betweenFieldsAndFragmentM s fx fuel me id2 fmb fr) c)
          (sumLoop frb (fun fr c => withFreshCmp (betweenFieldsAndFragmentM s fx fuel me id1 fma fr) c)
            (conflictsBetweenM s fx fuel me fma fmb cb).2).2).1
      · exact r22 h2
      · exact r32 (by omega)


theorem searchM_sound (h7 : fx.v7 = true) : ∀ fuel,
    SFindM s fx d fuel ∧ SCbM s fx d fuel ∧ SFfM s fx d fuel ∧ SFrM s fx d fuel ∧ SSsM s fx d fuel := by
  intro fuel
  induction fuel with
  | zero =>
    refine ⟨?_, ?_, ?_, ?_, ?_⟩
    · intro pme f1 f2 c hc _ _; simp only [findConflictM]; exact ⟨hc.crash _, fun h => by cases h⟩
    · intro me fm1 fm2 c hc _ _; simp only [conflictsBetweenM]; exact ⟨hc.crash _, fun h => by cases h⟩
    · intro me ssid fm name c hc _; simp only [betweenFieldsAndFragmentM]; exact ⟨hc.crash _, fun h => by cases h⟩
    · intro me of1 of2 c hc; simp only [betweenFragmentsM]; exact ⟨hc.crash _, fun h => by cases h⟩
    · intro me p1 id1 sels1 p2 id2 sels2 c hc _ _ _ _
      simp only [betweenSubselectionsM]; exact ⟨hc.crash _, fun h => by cases h⟩
  | succ fuel ih =>
    obtain ⟨i1, i2, i3, i4, i5⟩ := ih
    exact ⟨stepM_find s fx d fuel i5, stepM_cb s fx d fuel i1, stepM_ff s fx d fuel i2 i3,
      stepM_fr s fx d h7 fuel i2 i4, stepM_ss s fx d fuel i2 i3 i4⟩


end

theorem withinM_sound (s : SchemaD) (fx : Fixes) (d : Doc) (h7 : fx.v7 = true) (fuel : Nat) (p : Option String) (i : Nat)
    (sels : List Sel) (c : OCtx) (hc : CI s d c) (h1 : SelSet d i sels) (h2 : Adm s d i p) :
    CI s d (withinSelectionSetM s fx fuel p i sels c).2 ∧
    (0 < (withinSelectionSetM s fx fuel p i sels c).1 →
      ∃ p' rn e1 e2, Adm s d i p' ∧ Coll s d p' sels rn e1 ∧ Coll s d p' sels rn e2 ∧ Conf s d false e1 e2) := by
  obtain ⟨sf, _, sff, sfr, _⟩ := searchM_sound s fx d h7 fuel
  simp only [withinSelectionSetM]
  obtain ⟨x1, x2, p', x3, x4, x5⟩ := ff_set s d hc h1 h2
  generalize fieldsAndFragments s p i sels c = ra at x1 x2 x4 x5 ⊢
  obtain ⟨⟨fm, fr⟩, ca⟩ := ra
  simp only at x1 x2 x4 x5 ⊢
  let G : Prop := ∃ q rn e1 e2, Adm s d i q ∧ Coll s d q sels rn e1 ∧ Coll s d q sels rn e2 ∧ Conf s d false e1 e2
  obtain ⟨r01, r02⟩ := sumLoop_spec' fm
    (fun x c => sumLoop (pairsOf x.2) (fun y c =>
      (if (findConflictM s fx fuel false y.1 y.2 c).1 = true then 1 else 0,
       (findConflictM s fx fuel false y.1 y.2 c).2)) c) (CI s d)
    (fun q => ∃ e1 e2, e1 ∈ q.2 ∧ e2 ∈ q.2 ∧ Conf s d false e1 e2) G
    (fun q hq c hc => sumLoop_spec' (pairsOf q.2) _ (CI s d) (fun y => Conf s d false y.1 y.2) _
      (fun y hy c hc => by
        obtain ⟨m1, m2⟩ := mem_pairsOf hy
        obtain ⟨w1, w2⟩ := sf false y.1 y.2 c hc (x2 q hq _ m1) (x2 q hq _ m2)
        refine ⟨w1, fun h => w2 ?_⟩
        cases hb : (findConflictM s fx fuel false y.1 y.2 c).1 with
        | true => rfl
        | false => rw [hb] at h; simp at h)
      (fun y hy hQ => ⟨y.1, y.2, (mem_pairsOf hy).1, (mem_pairsOf hy).2, hQ⟩) c hc)
    (fun q hq hQ => by
      obtain ⟨e1, e2, m1, m2, hcf⟩ := hQ
      exact ⟨p', q.1, e1, e2, x3, x4 q.1 e1 ⟨q.2, hq, m1⟩, x4 q.1 e2 ⟨q.2, hq, m2⟩, hcf⟩) ca x1
  obtain ⟨r11, r12⟩ := withFreshCmp_spec s d
    (fun c => sumLoop fr (fun g c => betweenFieldsAndFragmentM s fx fuel false i fm g c) c) G
    (fun c hc => sumLoop_spec' fr _ (CI s d)
      (fun g => ∃ rn e1 e2, Has fm rn e1 ∧ CollF s d g rn e2 ∧ Conf s d false e1 e2) G
      (fun g _ c hc => sff false i fm g c hc x2)
      (fun g hg hQ => by
        obtain ⟨rn, e1, e2, z1, z2, z3⟩ := hQ
        exact ⟨p', rn, e1, e2, x3, x4 rn e1 z1, x5 g hg rn e2 z2, z3⟩) c hc) _ r01
  obtain ⟨r21, r22⟩ := sumLoop_spec' (pairsOf fr)
    (fun y c => betweenFragmentsM s fx fuel false (some y.1) (some y.2) c) (CI s d)
    (fun y => ∃ rn e1 e2, CollF s d y.1 rn e1 ∧ CollF s d y.2 rn e2 ∧ Conf s d false e1 e2) G
    (fun y _ c hc => by
      obtain ⟨w1, w2⟩ := sfr false (some y.1) (some y.2) c hc
      refine ⟨w1, fun h => ?_⟩
      obtain ⟨g1, g2, rn, e1, e2, z1, z2, z3, z4, z5⟩ := w2 h
      cases z1; cases z2
      exact ⟨rn, e1, e2, z3, z4, z5⟩)
    (fun y hy hQ => by
      obtain ⟨rn, e1, e2, z3, z4, z5⟩ := hQ
      obtain ⟨m1, m2⟩ := mem_pairsOf hy
      exact ⟨p', rn, e1, e2, x3, x5 y.1 m1 rn e1 z3, x5 y.2 m2 rn e2 z4, z5⟩) _ r11
  refine ⟨r21, fun h => ?_⟩
  by_cases h0 : 0 < (sumLoop fm (fun x c => sumLoop (pairsOf x.2) (fun y c =>
      (if (findConflictM s fx fuel false y.1 y.2 c).1 = true then 1 else 0,
       (findConflictM s fx fuel false y.1 y.2 c).2)) c) ca).1
  · exact r02 h0
  · by_cases h1 : 0 < (withFreshCmp (fun c => sumLoop fr
        (fun g c => betweenFieldsAndFragmentM s fx fuel false i fm g c) c)
        (sumLoop fm (fun x c => sumLoop (pairsOf x.2) (fun y c =>
          (if (findConflictM s fx fuel false y.1 y.2 c).1 = true then 1 else 0,
           (findConflictM s fx fuel false y.1 y.2 c).2)) c) ca).2).1
    · exact r12 h1
    · exact r22 (by omega)

end PyGql.Validate

/-
  Layer 4 (completeness): schema / directive definitions, the seven extensions, the two dispatchers ⇒ `TSComplete`.
-/
import PyGqlModel.Lemmas.ParseTSC4
namespace PyGql.Parse
open PyGql PyGql.Ast PyGql.Spec

theorem operationTypeV_first {fl : Flags} {d : OperationTypeDefinition} {l : Tok} {ts : List Tok} {r : Tok × List Tok}
    (h : (operationTypeV d).check fl l ts = some r) : ∃ t tl, ts = t :: tl ∧ t.kind = .name := by
  rcases r with ⟨l', rest⟩
  simp only [operationTypeV, check_node, checkAll_cons, check_tok] at h
  obtain ⟨f, tl, rfl, ⟨l1, ts1, ⟨t, e, hc, _⟩, _⟩, _⟩ := h
  cases e; exact ⟨_, _, rfl, cls_kind hc⟩

theorem operationTypeV_width (d : OperationTypeDefinition) : 1 ≤ (operationTypeV d).yield.length := by
  simp [operationTypeV, Item.yield, Item.yieldAll]

theorem operationTypes_many_complete (fl : Flags) (fuel : Nat) (ops : List OperationTypeDefinition) (l l' : Tok)
    (ts rest : List Tok) (hne : ops ≠ []) (w : ∀ d ∈ ops, wfOperationType d = true) (hf : ts.length ≤ fuel)
    (h : Item.checkAll fl (Spec.p .curlyL :: (ops.map operationTypeV ++ [Spec.p .curlyR])) l ts = some (l', rest)) :
    many fuel .curlyL (parseOperationTypeDefinition fl) .curlyR ⟨ts, l⟩ = .ok (ops, ⟨rest, l'⟩) := by
  have hlen : ops.length ≤ fuel := by
    have a := checkAll_width fl _ _ _ _ _ h
    have b := length_le_yieldAll operationTypeV operationTypeV_width ops
    simp only [Item.yieldAll, yieldAll_append, List.length_append] at a
    omega
  apply many_complete fl _ .curlyL .curlyR operationTypeV (fun _ => True) fuel ops l l' ts rest hne hlen
  · intro d hd l ts' l' rest _ hc _
    exact parseOperationTypeDefinition_complete fl d l l' ts' rest (w d hd) hc
  · intro d _ l ts r hc
    obtain ⟨t, tl, rfl, hk⟩ := operationTypeV_first hc
    exact ⟨trivial, NotK.cons (by simp [hk])⟩
  · intros; trivial
  · exact h

theorem parseSchemaDefinition_complete (fl : Flags) (fuel : Nat) (ds : List Directive)
    (ops : List OperationTypeDefinition) (loc : Loc) :
    DefComplete fl fuel (parseSchemaDefinition fl fuel) (.schemaDefinition ds ops loc) := by
  intro l l' ts rest w hf h hfol
  simp only [definitionV, check_node, checkAll_cons, check_tok] at h
  obtain ⟨f, tl, rfl, ⟨l1, ts1, ⟨k, e, hc, rfl⟩, hall⟩, rfl⟩ := h
  cases e
  obtain ⟨hk, hv⟩ := cls_kw_inv hc
  rw [checkAll_append] at hall
  obtain ⟨l2, ts2, hd, hm⟩ := hall
  simp only [wfDefinition, Bool.and_eq_true, Bool.not_eq_true', List.isEmpty_eq_false_iff, List.all_eq_true] at w
  obtain ⟨⟨wd, wne⟩, wo⟩ := w
  have len2 := checkAll_len hd
  simp at hf
  have f2 : FollowDirs ts2 := by
    have hm' := hm
    rw [checkAll_cons] at hm'
    obtain ⟨_, _, hc2, _⟩ := hm'
    rw [check_tok] at hc2
    obtain ⟨t, rfl, hc2, _⟩ := hc2
    exact NotK.cons (by simp [cls_kind hc2])
  have cd := parseDirectives_complete fl fuel true ds f l2 tl ts2 wd (by omega) f2 hd
  have cm := operationTypes_many_complete fl fuel ops l2 l' ts2 rest wne wo (by omega) hm
  simp [parseSchemaDefinition, bind_eq, peek_cons, expectKeyword_pos hk hv, cd, cm, mkLoc_eq, pure_eq]


theorem parseDirectiveDefinition_complete (fl : Flags) (fuel : Nat) (desc : Option StringValue) (nm : Name)
    (args : List InputValueDefinition) (locs : List Name) (loc : Loc) :
    DefComplete fl fuel (parseDirectiveDefinition fl fuel) (.directiveDefinition desc nm args locs loc) := by
  intro l l' ts rest w hf h hfol
  simp only [definitionV, check_node] at h
  obtain ⟨f, tl, rfl, hall, rfl⟩ := h
  obtain ⟨_, lk, k, tsk, cdesc, hk, hv, htail, len⟩ := descKw_shape fl _ desc _ l l' _ rest hall
  simp only [checkAll_cons, check_tok] at htail
  obtain ⟨l1, ts1, ⟨at_, rfl, hca, rfl⟩, l2, ts2, hn, htail⟩ := htail
  rw [checkAll_append] at htail
  obtain ⟨l3, ts3, ha, htail⟩ := htail
  simp only [checkAll_cons, check_tok] at htail
  obtain ⟨l4, ts4, ⟨on_, rfl, hco, rfl⟩, hlocs⟩ := htail
  obtain ⟨hko, hvo⟩ := cls_kw_inv hco
  simp only [wfDefinition, Bool.and_eq_true, Bool.not_eq_true', List.isEmpty_eq_false_iff, List.all_eq_true,
    decide_eq_true_eq] at w
  obtain ⟨⟨wa, wne⟩, wl⟩ := w
  have len2 := check_len hn
  have len3 := checkAll_len ha
  simp at len len3 hf
  have cn := parseName_complete fl _ _ _ _ _ hn
  have ca := parseArgumentDefinitions_complete fl fuel args l2 l3 ts2 (l4 :: ts4) wa (by omega)
    (fun _ => NotK.cons (by simp [hko])) ha
  have cl := parseDirectiveLocations_complete fl fuel locs l4 l' ts4 rest wne wl (by omega)
    (hfol.notK _ (by simp)) hlocs
  simp [parseDirectiveDefinition, bind_eq, peek_cons, cdesc, expectKeyword_pos hk hv, expect_pos (cls_kind hca), cn, ca,
    expectKeyword_pos hko hvo, cl, mkLoc_eq, pure_eq]

/-! ### extensions -/

/-- `extend keyword Name` -/
def extHead (fl : Flags) (kw : Text) : P Name := do
  let _ ← expectKeyword K.extend
  let _ ← expectKeyword kw
  parseName fl

/-- the token shape `parse_type_system_extension` looks at -/
def ExtShape (kw : Text) (ts : List Tok) : Prop :=
  ∃ e k tl, ts = e :: k :: tl ∧ e.kind = .name ∧ e.value = K.extend ∧ k.kind = .name ∧ k.value = kw

theorem extHead_complete (fl : Flags) (kw : Text) (nm : Name) (tail : List Item) (l l' : Tok) (ts rest : List Tok)
    (h : Item.checkAll fl (Spec.kw K.extend :: Spec.kw kw :: nameV nm :: tail) l ts = some (l', rest)) :
    ExtShape kw ts ∧ ∃ l3 ts3, extHead fl kw ⟨ts, l⟩ = .ok (nm, ⟨ts3, l3⟩) ∧
      Item.checkAll fl tail l3 ts3 = some (l', rest) ∧ ts3.length < ts.length := by
  simp only [checkAll_cons, check_tok] at h
  obtain ⟨l1, ts1, ⟨e, rfl, hce, rfl⟩, l2, ts2, ⟨k, rfl, hck, rfl⟩, l3, ts3, hn, htail⟩ := h
  obtain ⟨hke, hve⟩ := cls_kw_inv hce
  obtain ⟨hkk, hvk⟩ := cls_kw_inv hck
  have cn := parseName_complete fl _ _ _ _ _ hn
  have len := check_len hn
  refine ⟨⟨_, _, _, rfl, hke, hve, hkk, hvk⟩, l3, ts3, ?_, htail, by simp; omega⟩
  simp [extHead, bind_eq, expectKeyword_pos hke hve, expectKeyword_pos hkk hvk, cn]

theorem parseScalarTypeExtension_eq (fl : Flags) (fuel : Nat) :
    parseScalarTypeExtension fl fuel = (do
      let start ← peek
      let name ← extHead fl K.scalar
      let directives ← parseDirectives fl fuel true
      if directives.isEmpty then failAt start "Unexpected token"
      else pure (.scalarTypeExtension name directives (← mkLoc fl start))) := by
  simp only [parseScalarTypeExtension, extHead, bind_assoc']

theorem parseScalarTypeExtension_complete (fl : Flags) (fuel : Nat) (nm : Name) (ds : List Directive) (loc : Loc) :
    DefComplete fl fuel (parseScalarTypeExtension fl fuel) (.scalarTypeExtension nm ds loc) := by
  intro l l' ts rest w hf h hfol
  simp only [definitionV, check_node] at h
  obtain ⟨f, tl, rfl, hall, rfl⟩ := h
  obtain ⟨_, l3, ts3, ch, htail, len⟩ := extHead_complete fl _ nm _ l l' _ rest hall
  simp only [wfDefinition, Bool.and_eq_true, Bool.not_eq_true'] at w
  have cd := parseDirectives_complete fl fuel true ds l3 l' ts3 rest w.1 (by omega) (followDirs_of_def hfol) htail
  rw [parseScalarTypeExtension_eq]
  simp [bind_eq, peek_cons, ch, cd, ite_app, mkLoc_eq, pure_eq]
  all_goals (intros; simp_all)

theorem parseObjectTypeExtension_eq (fl : Flags) (fuel : Nat) :
    parseObjectTypeExtension fl fuel = (do
      let start ← peek
      let name ← extHead fl K.type_
      let interfaces ← parseImplementsInterfaces fl fuel
      let directives ← parseDirectives fl fuel true
      let fields ← parseFieldsDefinition fl fuel
      if interfaces.isEmpty ∧ directives.isEmpty ∧ fields.isEmpty then fail "Unexpected token"
      else pure (.objectTypeExtension name interfaces directives fields (← mkLoc fl start))) := by
  simp only [parseObjectTypeExtension, extHead, bind_assoc']

theorem three_of_not {α β γ} {a : List α} {b : List β} {c : List γ}
    (h : (!(a.isEmpty && b.isEmpty && c.isEmpty)) = true) :
    ¬(a.isEmpty = true ∧ b.isEmpty = true ∧ c.isEmpty = true) := by
  cases a <;> cases b <;> cases c <;> simp_all

theorem two_of_not {α β} {a : List α} {b : List β} (h : (!(a.isEmpty && b.isEmpty)) = true) :
    ¬(a.isEmpty = true ∧ b.isEmpty = true) := by
  cases a <;> cases b <;> simp_all

theorem parseObjectTypeExtension_complete (fl : Flags) (fuel : Nat) (nm : Name) (ifs : List NamedType)
    (ds : List Directive) (fs : List FieldDefinition) (loc : Loc) :
    DefComplete fl fuel (parseObjectTypeExtension fl fuel) (.objectTypeExtension nm ifs ds fs loc) := by
  intro l l' ts rest w hf h hfol
  simp only [definitionV, check_node] at h
  obtain ⟨f, tl, rfl, hall, rfl⟩ := h
  obtain ⟨_, l3, ts3, ch, htail, len⟩ := extHead_complete fl _ nm _ l l' _ rest hall
  simp only [wfDefinition, Bool.and_eq_true, List.all_eq_true] at w
  obtain ⟨⟨wd, wf⟩, wne⟩ := w
  obtain ⟨l4, ts4, l5, ts5, ci, cd, cf⟩ := objectTail_complete fl fuel ifs ds fs l3 l' ts3 rest wd wf (by omega) hfol htail
  rw [parseObjectTypeExtension_eq]
  simp [bind_eq, peek_cons, ch, ci, cd, cf, ite_app, mkLoc_eq, pure_eq]
  all_goals (intros; simp_all)

theorem parseInterfaceTypeExtension_eq (fl : Flags) (fuel : Nat) :
    parseInterfaceTypeExtension fl fuel = (do
      let start ← peek
      let name ← extHead fl K.interface_
      let directives ← parseDirectives fl fuel true
      let fields ← parseFieldsDefinition fl fuel
      if directives.isEmpty ∧ fields.isEmpty then fail "Unexpected token"
      else pure (.interfaceTypeExtension name directives fields (← mkLoc fl start))) := by
  simp only [parseInterfaceTypeExtension, extHead, bind_assoc']

theorem parseInterfaceTypeExtension_complete (fl : Flags) (fuel : Nat) (nm : Name)
    (ds : List Directive) (fs : List FieldDefinition) (loc : Loc) :
    DefComplete fl fuel (parseInterfaceTypeExtension fl fuel) (.interfaceTypeExtension nm ds fs loc) := by
  intro l l' ts rest w hf h hfol
  simp only [definitionV, check_node] at h
  obtain ⟨f, tl, rfl, hall, rfl⟩ := h
  obtain ⟨_, l3, ts3, ch, htail, len⟩ := extHead_complete fl _ nm _ l l' _ rest hall
  simp only [wfDefinition, Bool.and_eq_true, List.all_eq_true] at w
  obtain ⟨⟨wd, wf⟩, wne⟩ := w
  obtain ⟨l4, ts4, cd, cf⟩ := dirsBlock_complete fl fuel fieldDefinitionV (parseFieldsDefinition fl fuel) ds fs l3 l' ts3
    rest wd (by omega) hfol
    (fun l2 ts2 hl hb => parseFieldsDefinition_complete fl fuel fs l2 l' ts2 rest wf (by omega) (fun _ => hfol.ne) hb) htail
  rw [parseInterfaceTypeExtension_eq]
  simp [bind_eq, peek_cons, ch, cd, cf, ite_app, mkLoc_eq, pure_eq]
  all_goals (intros; simp_all)

theorem parseEnumTypeExtension_eq (fl : Flags) (fuel : Nat) :
    parseEnumTypeExtension fl fuel = (do
      let start ← peek
      let name ← extHead fl K.enum_
      let directives ← parseDirectives fl fuel true
      let values ← parseEnumValuesDefinition fl fuel
      if directives.isEmpty ∧ values.isEmpty then fail "Unexpected token"
      else pure (.enumTypeExtension name directives values (← mkLoc fl start))) := by
  simp only [parseEnumTypeExtension, extHead, bind_assoc']

theorem parseEnumTypeExtension_complete (fl : Flags) (fuel : Nat) (nm : Name)
    (ds : List Directive) (vs : List EnumValueDefinition) (loc : Loc) :
    DefComplete fl fuel (parseEnumTypeExtension fl fuel) (.enumTypeExtension nm ds vs loc) := by
  intro l l' ts rest w hf h hfol
  simp only [definitionV, check_node] at h
  obtain ⟨f, tl, rfl, hall, rfl⟩ := h
  obtain ⟨_, l3, ts3, ch, htail, len⟩ := extHead_complete fl _ nm _ l l' _ rest hall
  simp only [wfDefinition, Bool.and_eq_true, List.all_eq_true] at w
  obtain ⟨⟨wd, wf⟩, wne⟩ := w
  obtain ⟨l4, ts4, cd, cf⟩ := dirsBlock_complete fl fuel enumValueDefinitionV (parseEnumValuesDefinition fl fuel) ds vs
    l3 l' ts3 rest wd (by omega) hfol
    (fun l2 ts2 hl hb => parseEnumValuesDefinition_complete fl fuel vs l2 l' ts2 rest wf (by omega) (fun _ => hfol.ne) hb)
    htail
  rw [parseEnumTypeExtension_eq]
  simp [bind_eq, peek_cons, ch, cd, cf, ite_app, mkLoc_eq, pure_eq]
  all_goals (intros; simp_all)

theorem parseInputObjectTypeExtension_eq (fl : Flags) (fuel : Nat) :
    parseInputObjectTypeExtension fl fuel = (do
      let start ← peek
      let name ← extHead fl K.input
      let directives ← parseDirectives fl fuel true
      let fields ← parseInputFieldsDefinition fl fuel
      if directives.isEmpty ∧ fields.isEmpty then failTokAt start "Unexpected token"
      else pure (.inputObjectTypeExtension name directives fields (← mkLoc fl start))) := by
  simp only [parseInputObjectTypeExtension, extHead, bind_assoc']

theorem parseInputObjectTypeExtension_complete (fl : Flags) (fuel : Nat) (nm : Name)
    (ds : List Directive) (fs : List InputValueDefinition) (loc : Loc) :
    DefComplete fl fuel (parseInputObjectTypeExtension fl fuel) (.inputObjectTypeExtension nm ds fs loc) := by
  intro l l' ts rest w hf h hfol
  simp only [definitionV, check_node] at h
  obtain ⟨f, tl, rfl, hall, rfl⟩ := h
  obtain ⟨_, l3, ts3, ch, htail, len⟩ := extHead_complete fl _ nm _ l l' _ rest hall
  simp only [wfDefinition, Bool.and_eq_true, List.all_eq_true] at w
  obtain ⟨⟨wd, wf⟩, wne⟩ := w
  obtain ⟨l4, ts4, cd, cf⟩ := dirsBlock_complete fl fuel inputValueV (parseInputFieldsDefinition fl fuel) ds fs
    l3 l' ts3 rest wd (by omega) hfol
    (fun l2 ts2 hl hb => parseInputFieldsDefinition_complete fl fuel fs l2 l' ts2 rest wf (by omega) (fun _ => hfol.ne) hb)
    htail
  rw [parseInputObjectTypeExtension_eq]
  simp [bind_eq, peek_cons, ch, cd, cf, ite_app, mkLoc_eq, pure_eq]
  all_goals (intros; simp_all)

theorem parseUnionTypeExtension_eq (fl : Flags) (fuel : Nat) :
    parseUnionTypeExtension fl fuel = (do
      let start ← peek
      let name ← extHead fl K.union
      let directives ← parseDirectives fl fuel true
      let types ← parseUnionMemberTypes fl fuel
      if directives.isEmpty ∧ types.isEmpty then fail "Unexpected token"
      else pure (.unionTypeExtension name directives types (← mkLoc fl start))) := by
  simp only [parseUnionTypeExtension, extHead, bind_assoc']

theorem parseUnionTypeExtension_complete (fl : Flags) (fuel : Nat) (nm : Name)
    (ds : List Directive) (us : List NamedType) (loc : Loc) :
    DefComplete fl fuel (parseUnionTypeExtension fl fuel) (.unionTypeExtension nm ds us loc) := by
  intro l l' ts rest w hf h hfol
  simp only [definitionV, check_node] at h
  obtain ⟨f, tl, rfl, hall, rfl⟩ := h
  obtain ⟨_, l3, ts3, ch, htail, len⟩ := extHead_complete fl _ nm _ l l' _ rest hall
  simp only [wfDefinition, Bool.and_eq_true] at w
  obtain ⟨wd, wne⟩ := w
  obtain ⟨l4, ts4, cd, cu⟩ := dirsUnion_complete fl fuel ds us l3 l' ts3 rest wd (by omega) hfol htail
  rw [parseUnionTypeExtension_eq]
  simp [bind_eq, peek_cons, ch, cd, cu, ite_app, mkLoc_eq, pure_eq]
  all_goals (intros; simp_all)

theorem parseSchemaExtension_complete (fl : Flags) (fuel : Nat) (ds : List Directive)
    (ops : List OperationTypeDefinition) (loc : Loc) :
    DefComplete fl fuel (parseSchemaExtension fl fuel) (.schemaExtension ds ops loc) := by
  intro l l' ts rest w hf h hfol
  simp only [definitionV, check_node, checkAll_cons, check_tok] at h
  obtain ⟨f, tl, rfl, ⟨l1, ts1, ⟨e, e1, hce, rfl⟩, l2, ts2, ⟨k, rfl, hck, rfl⟩, hall⟩, rfl⟩ := h
  cases e1
  obtain ⟨hke, hve⟩ := cls_kw_inv hce
  obtain ⟨hkk, hvk⟩ := cls_kw_inv hck
  simp only [wfDefinition, Bool.and_eq_true, List.all_eq_true] at w
  obtain ⟨⟨wd, wo⟩, wne⟩ := w
  simp at hf
  obtain ⟨l4, ts4, cd, co⟩ := dirsBlock_complete fl fuel operationTypeV
    (optMany fuel .curlyL (parseOperationTypeDefinition fl) .curlyR) ds ops l2 l' ts2 rest wd (by omega) hfol
    (fun l3 ts3 hl hb => block_complete fl _ operationTypeV (fun _ => True) fuel ops l3 l' ts3 rest
      operationTypeV_width (by omega)
      (fun d hd l ts' l' rest _ hc _ => parseOperationTypeDefinition_complete fl d l l' ts' rest (wo d hd) hc)
      (fun d _ l ts r hc => by
        obtain ⟨t, tl, rfl, hk⟩ := operationTypeV_first hc
        exact ⟨trivial, NotK.cons (by simp [hk])⟩)
      (fun _ _ _ => trivial) (fun _ => hfol.ne) hb) hall
  rw [parseSchemaExtension_eq]
  simp [bind_eq, peek_cons, expectKeyword_pos hke hve, expectKeyword_pos hkk hvk, cd, co, ite_app, mkLoc_eq, pure_eq]
  all_goals (intros; simp_all)

end PyGql.Parse

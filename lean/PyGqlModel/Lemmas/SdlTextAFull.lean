/-
  C12 text level, applied schema directives — the full statement for a schema in printing order that satisfies
  `printTextWFA`.
-/
import PyGqlModel.Lemmas.SdlTextADoc
namespace PyGql.SdlText
open PyGql PyGql.Ast PyGql.Sdl PyGql.Spec PyGql.PrintLex PyGql.PrintTokens PyGql.PrintMatch PyGql.SdlPrint PyGql.Parse

theorem argsPartA_of_ok (s : SchemaD) (c : SdlPrintTA.OptsA) (apps : Apps) (path : String) (hind : Blank c.base.indent)
    (hdesc : c.base.descriptions = true) (args : List ArgD) (depth : Nat)
    (h : args.all (argOKT s ((depth + 1) * c.base.indent.length)) = true) (hk : args.all (SdlPrintTA.argAppsOK c apps path) = true) :
    ArgsPartA s c apps path args depth := by
  rw [List.all_eq_true] at h hk
  have hc : ∀ a ∈ args, ArgCoreA s c apps path a := fun a ha => ⟨argCore_of_ok s _ a (h a ha), dirsFacts c apps _ (hk a ha)⟩
  have hds : ArgDescs c.base args (depth + 1) := by
    intro first a ha
    have h0 := h a ha
    simp only [argOKT, Bool.and_eq_true] at h0
    exact descPart_of_ok c.base hind hdesc a.desc (depth + 1) first h0.1.2
  by_cases hm : SdlPrintT.multiArgs c.base args = true
  · exact lay_arguments_multiA s c apps path hind args depth hm hds hc
  · have hm' : SdlPrintT.multiArgs c.base args = false := by simpa using hm
    refine lay_arguments_onelineA s c apps path args depth hm' ?_ hc
    intro a ha
    simp only [SdlPrintT.multiArgs, hdesc, Bool.true_and, List.any_eq_false] at hm'
    have := hm' a ha
    cases hda : a.desc with
    | none => rfl
    | some x =>
      rw [hda] at this
      have hx : x.isEmpty = true := by simpa using this
      simp [descToDoc, hx]

theorem membersPartA_of_ok (s : SchemaD) (c : SdlPrintTA.OptsA) (apps : Apps) (hind : Blank c.base.indent)
    (hdesc : c.base.descriptions = true) (t : TypeD) (h : typeOKT s c.base.indent.length t = true)
    (hk : SdlPrintTA.typeAppsOK c apps t = true) : MembersPartA s c apps t := by
  simp only [typeOKT, Bool.and_eq_true] at h
  obtain ⟨_, hkind⟩ := h
  simp only [SdlPrintTA.typeAppsOK, Bool.and_eq_true, List.all_eq_true] at hk
  obtain ⟨⟨⟨_, hkf⟩, hkv⟩, hki⟩ := hk
  have hd1 : ∀ (d : Option String) (first : Bool), descOKT c.base.indent.length d = true →
      DescPart (SdlPrintT.printDescription c.base d 1 first) (Item.yieldAll (descV (descOf (descToDoc d)))) := by
    intro d first hd
    exact descPart_of_ok c.base hind hdesc d 1 first (by simpa using hd)
  have hfield : ∀ i, ∀ f ∈ t.fields, fieldOKT s c.base.indent.length f = true →
      Lay (SdlPrintTA.printField s c apps t.name i f) (fieldDefinitionV (fieldOf (SdlPrintTA.fieldToDefA s c apps t.name f))).yield := by
    intro i f hf hok
    have hkf' := hkf f hf
    simp only [SdlPrintTA.fieldAppsOK, Bool.and_eq_true] at hkf'
    simp only [fieldOKT, Bool.and_eq_true] at hok
    exact (lay_fieldA s c apps t.name hind i f hok.1.1.1 hok.1.1.2 (hd1 f.desc _ hok.1.2)
      (argsPartA_of_ok s c apps _ hind hdesc f.args 1 hok.2 hkf'.2) (dirsFacts c apps _ hkf'.1)).1
  unfold MembersPartA
  cases hk' : t.kind <;> rw [hk'] at hkind <;> simp only [] <;>
    simp only [Bool.and_eq_true, List.all_eq_true, Bool.not_eq_true', List.isEmpty_eq_false_iff] at hkind
  · exact ⟨hkind.1.1, hkind.2, fun i f hf => hfield i f hf (hkind.1.2 f hf)⟩
  · exact ⟨hkind.1, fun i f hf => hfield i f hf (hkind.2 f hf)⟩
  · exact ⟨hkind.1, hkind.2⟩
  · refine ⟨hkind.1, fun i v hv => ?_⟩
    have hok := hkind.2 v hv
    simp only [enumValOKT, Bool.and_eq_true] at hok
    exact (lay_enumValueA c apps t.name hind i v hok.1.1 (hd1 v.desc _ hok.2) (dirsFacts c apps _ (hkv v hv))).1
  · refine ⟨hkind.1, fun i a ha => ?_⟩
    have hok := hkind.2 a ha
    have hc : ArgCoreA s c apps t.name a := ⟨argCore_of_ok s _ a hok, dirsFacts c apps _ (hki a ha)⟩
    simp only [argOKT, Bool.and_eq_true] at hok
    exact (lay_inputFieldA s c apps t.name hind i a hc (hd1 a.desc _ hok.1.2)).1

/-- **the full statement with applied schema directives**, schema in printing order -/
theorem parse_printSchemaTA_full (c : SdlPrintTA.OptsA) (s : SchemaD) (apps : Apps) (hs : InPrintOrder s)
    (hwfa : SdlPrintTA.printTextWFA c s apps = true) :
    parseSdlTextT (SdlPrintTA.printSchemaTA c s apps) = docToAst (SdlPrintTA.schemaToDocA s c apps) := by
  simp only [SdlPrintTA.printTextWFA, Bool.and_eq_true, List.all_eq_true, Bool.or_eq_true, Bool.not_eq_true',
    List.isEmpty_eq_false_iff] at hwfa
  obtain ⟨⟨⟨⟨hwf, hk0⟩, hkt⟩, hkd⟩, hrootsA⟩ := hwfa
  have hind := blank_of_wf c.base s hwf
  have hwf0 := hwf
  simp only [printTextWF, Bool.and_eq_true, List.all_eq_true, Bool.or_eq_true, Bool.not_eq_true', List.isEmpty_eq_false_iff] at hwf0
  obtain ⟨⟨⟨⟨⟨⟨⟨⟨⟨hdesc, _⟩, htypes⟩, hdirs⟩, hq⟩, hm⟩, hsub⟩, hnonempty⟩, _⟩, _⟩ := hwf0
  have hrootsne : SdlPrintTA.needsSchemaBlockA s c apps = true → rootOps s ≠ [] := by
    intro hn
    rcases hrootsA with h | h
    · rw [hn] at h; cases h
    · exact h
  have hf0 := dirsFacts c apps "" hk0
  have hk0' : (SdlPrintTA.keptAt c apps "").all SdlPrintTA.dirAppOK = true := hk0
  apply parse_printSchemaTA c s apps hs
  · unfold schemaPairsA
    rcases hnonempty with (h | h) | h
    · cases ht : s.types with | nil => exact absurd ht h | cons _ _ => simp
    · cases hd : s.directives with | nil => exact absurd hd h | cons _ _ => simp
    · simp [SdlPrintTA.needsSchemaBlockA, h]
  · intro p hpm
    unfold schemaPairsA at hpm
    simp only [List.mem_append, List.mem_map] at hpm
    rcases hpm with (hpm | ⟨d, hd, rfl⟩) | ⟨t, ht, rfl⟩
    · split at hpm
      · rename_i hn
        simp only [List.mem_singleton] at hpm
        subst hpm
        exact lay_printSchemaDefinitionA c apps hind s hq hm hsub (hrootsne hn) hf0
      · cases hpm
    · have hok := hdirs d hd
      simp only [directiveOKT, Bool.and_eq_true, List.all_eq_true] at hok
      have hkd' := hkd d hd
      have hargs := argsPartA_of_ok s c apps ("@" ++ d.name) hind hdesc d.args 0 (by simpa using List.all_eq_true.2 hok.1.1.2) hkd'
      have hdsc := descPart_of_ok c.base hind hdesc d.desc 0 true (by simpa using hok.1.1.1.2)
      have := lay_printDirectiveDefinitionA s c apps d hok.1.1.1.1 hdsc hargs (fun n hn => (hok.2 n hn).1)
      simpa [defTree, SdlPrintTA.directiveToDefA, List.map_map, Function.comp_def] using this
    · have hok := htypes t ht
      have hkt' := hkt t ht
      have hkt0 : SdlPrintTA.appsOKAt c apps t.name = true := by
        simp only [SdlPrintTA.typeAppsOK, Bool.and_eq_true] at hkt'; exact hkt'.1.1.1
      have hok' := hok
      simp only [typeOKT, Bool.and_eq_true] at hok'
      exact lay_printTypeA s c apps t hok'.1.1 (descPart_of_ok c.base hind hdesc t.desc 0 true (by simpa using hok'.1.2))
        (dirsFacts c apps _ hkt0) (membersPartA_of_ok s c apps hind hdesc t hok hkt')
  · intro d hd fol
    simp only [SdlPrintTA.schemaToDocA, List.map_append, List.map_map, List.mem_append, List.mem_map, Function.comp_apply] at hd
    rcases hd with (hd | ⟨x, _, rfl⟩) | ⟨t, ht, rfl⟩
    · split at hd
      · obtain ⟨a, ha, rfl⟩ := hd; simp only [List.mem_singleton] at ha; subst ha; exact plainF_schemaDef _ fol
      · simp at hd
    · exact plainF_directiveDef _ fol
    · exact plainF_typeDefOf _ (membersNonEmpty_of_okA s c apps _ t (htypes t ht)) fol
  · simp only [wfDocument, Bool.and_eq_true, Bool.not_eq_true', List.isEmpty_eq_false_iff, List.all_eq_true, Bool.true_or,
      and_true]
    constructor
    · intro e
      rcases hnonempty with (h | h) | h
      · unfold SdlPrintTA.schemaToDocA at e; simp [h] at e
      · unfold SdlPrintTA.schemaToDocA at e; simp [h] at e
      · unfold SdlPrintTA.schemaToDocA at e; simp [SdlPrintTA.needsSchemaBlockA, h] at e
    · intro d hd
      simp only [SdlPrintTA.schemaToDocA, List.map_append, List.map_map, List.mem_append, List.mem_map, Function.comp_apply] at hd
      rcases hd with (hd | ⟨x, hx, rfl⟩) | ⟨t, ht, rfl⟩
      · split at hd
        · rename_i hn
          obtain ⟨a, ha, rfl⟩ := hd
          simp only [List.mem_singleton] at ha; subst ha
          exact wfDefinition_schemaA _ s _ (hrootsne hn) hk0'
        · simp at hd
      · exact wfDefinition_directiveA _ s c apps _ x (hdirs x hx) (hkd x hx)
      · exact wfDefinition_typeA _ s c apps _ t (htypes t ht) (hkt t ht)

end PyGql.SdlText
-- 

/-
  C09 — helper lemmas: the balance invariant `calls = dones + |tasks|` (no orphaned task unless the node has
  literally failed with an unexpected exception) and the position of top-level `call` events in the trace.
-/
import PyGqlModel.Lemmas.ExecLive

set_option linter.unusedVariables false
set_option linter.unusedSimpArgs false

namespace PyGql.AsyncExec

/-! ### traces -/

def isCall : Ev → Bool
  | .call _ => true
  | .done _ => false

def isDone : Ev → Bool
  | .done _ => true
  | .call _ => false

def ncalls (tr : List Ev) : Nat := (tr.filter isCall).length
def ndones (tr : List Ev) : Nat := (tr.filter isDone).length

@[simp] theorem ncalls_nil : ncalls [] = 0 := rfl
@[simp] theorem ndones_nil : ndones [] = 0 := rfl
@[simp] theorem ncalls_append (a b : List Ev) : ncalls (a ++ b) = ncalls a + ncalls b := by simp [ncalls]
@[simp] theorem ndones_append (a b : List Ev) : ndones (a ++ b) = ndones a + ndones b := by simp [ndones]
@[simp] theorem ncalls_cons_call (p : Path) (l : List Ev) : ncalls (.call p :: l) = ncalls l + 1 := by simp [ncalls, List.filter_cons, isCall]
@[simp] theorem ncalls_cons_done (p : Path) (l : List Ev) : ncalls (.done p :: l) = ncalls l := by simp [ncalls, List.filter_cons, isCall]
@[simp] theorem ndones_cons_call (p : Path) (l : List Ev) : ndones (.call p :: l) = ndones l := by simp [ndones, List.filter_cons, isDone]
@[simp] theorem ndones_cons_done (p : Path) (l : List Ev) : ndones (.done p :: l) = ndones l + 1 := by simp [ndones, List.filter_cons, isDone]

/-- not the invocation of a top-level field's resolver -/
def nonTop : Ev → Bool
  | .call [.key _] => false
  | _ => true

theorem nonTop_call_deep (path : Path) (k : String) (h : path ≠ []) : nonTop (.call (path ++ [.key k])) = true := by
  cases path with
  | nil => exact absurd rfl h
  | cons a rest => cases rest <;> simp [nonTop]

/-- in every decomposition at a top-level `call`, everything invoked before has finished -/
def SerialTr (tr : List Ev) : Prop :=
  ∀ pre k post, tr = pre ++ Ev.call [.key k] :: post → ncalls pre = ndones pre

theorem serialTr_nil : SerialTr [] := by
  intro pre k post h; simp at h

theorem serialTr_append_nonTop (tr Δ : List Ev) (h : SerialTr tr) (hΔ : ∀ e ∈ Δ, nonTop e = true) : SerialTr (tr ++ Δ) := by
  intro pre k post heq
  rcases List.append_eq_append_iff.mp heq with ⟨a, h1, h2⟩ | ⟨c, h1, h2⟩
  · -- pre = tr ++ a, Δ = a ++ call :: post : the pivot would lie in Δ
    have := hΔ (.call [.key k]) (by rw [h2]; simp)
    simp [nonTop] at this
  · -- tr = pre ++ c, call :: post = c ++ Δ
    cases c with
    | nil =>
      simp at h2
      have := hΔ (.call [.key k]) (by rw [← h2]; simp)
      simp [nonTop] at this
    | cons x c' =>
      simp at h2
      exact h pre k c' (by rw [h1, h2.1])

theorem serialTr_append_top (tr : List Ev) (k : String) (h : SerialTr tr) (hb : ncalls tr = ndones tr) :
    SerialTr (tr ++ [.call [.key k]]) := by
  intro pre k' post heq
  rcases List.append_eq_append_iff.mp heq with ⟨a, h1, h2⟩ | ⟨c, h1, h2⟩
  · -- pre = tr ++ a, [call] = a ++ call :: post  ⇒ a = []
    cases a with
    | nil => simp at h1; rw [h1]; exact hb
    | cons x a' => simp at h2
  · cases c with
    | nil => simp at h1; rw [← h1]; exact hb
    | cons x c' =>
      simp at h2
      exact h pre k' c' (by rw [h1, h2.1])

/-! ### tasks, literal failure, continuation paths -/

mutual
def ntasks : Node → Nat
  | .task _ _ _ _ => 1
  | .done r => ntasks r
  | .chain src _ => ntasks src
  | .unwrap src => ntasks src
  | .gather slots _ _ => ntasksSlots slots
  | .val _ => 0
  | .failed _ => 0
def ntasksSlots : Nodes → Nat
  | .nil => 0
  | .cons n ns => ntasks n + ntasksSlots ns
end

def Exc.isNR : Exc → Bool
  | .resolver => false
  | _ => true

/-- the node has literally failed with an unexpected exception -/
def isFailedNR : Node → Bool
  | .failed e => e.isNR
  | .done r => isFailedNR r
  | _ => false

def contOK : Cont → Bool
  | .serialCb _ _ _ _ => false
  | .complete p => !p.isEmpty
  | _ => true

mutual
/-- no serial callback inside, and every `complete` continuation belongs to a field below the top level or at it (`p ≠ []`) -/
def NoSerial : Node → Bool
  | .chain src k => NoSerial src && contOK k
  | .unwrap src => NoSerial src
  | .done r => NoSerial r
  | .gather slots _ _ => NoSerialSlots slots
  | _ => true
def NoSerialSlots : Nodes → Bool
  | .nil => true
  | .cons n ns => NoSerial n && NoSerialSlots ns
end

def ntasksRes : Res Node → Nat
  | .ok n => ntasks n
  | .exc _ => 0

def EscRes : Res Node → Prop
  | .ok n => isFailedNR n = true
  | .exc e => e.isNR = true

def NoSerialRes : Res Node → Bool
  | .ok n => NoSerial n
  | .exc _ => true

/-- what a piece of execution does to the trace: only non-top events, and calls/dones balance against the
    change in outstanding tasks — unless `esc` (a literal unexpected failure) -/
def StepRel (s s' : ExecSt) (before after : Nat) (esc : Prop) : Prop :=
  ∃ Δ, s'.trace = s.trace ++ Δ ∧ (∀ e ∈ Δ, nonTop e = true) ∧ (esc ∨ ncalls Δ + before = ndones Δ + after)

theorem StepRel.same (s s' : ExecSt) (h : s'.trace = s.trace) (b : Nat) (esc : Prop) : StepRel s s' b b esc :=
  ⟨[], by simp [h], by simp, .inr (by simp)⟩

theorem StepRel.trans {s s1 s2 : ExecSt} {b1 a1 b2 a2 : Nat} {e1 e2 : Prop}
    (h1 : StepRel s s1 b1 a1 e1) (h2 : StepRel s1 s2 b2 a2 e2) : StepRel s s2 (b1 + b2) (a1 + a2) (e1 ∨ e2) := by
  obtain ⟨Δ1, t1, n1, c1⟩ := h1
  obtain ⟨Δ2, t2, n2, c2⟩ := h2
  refine ⟨Δ1 ++ Δ2, by rw [t2, t1]; simp, ?_, ?_⟩
  · intro e he; simp at he; rcases he with he | he; exact n1 e he; exact n2 e he
  · rcases c1 with c1 | c1
    · exact .inl (.inl c1)
    · rcases c2 with c2 | c2
      · exact .inl (.inr c2)
      · right; simp; omega

theorem StepRel.weaken {s s' : ExecSt} {b a b' a' : Nat} {e e' : Prop} (h : StepRel s s' b a e)
    (hb : b = b') (ha : a = a') (he : e → e') : StepRel s s' b' a' e' := by
  obtain ⟨Δ, t, n, c⟩ := h
  subst hb; subst ha
  exact ⟨Δ, t, n, c.imp he id⟩

/-! ### unwrap -/

theorem ntasks_unwrapCb : ∀ n : Node, ntasks (unwrapCb n) = ntasks n
  | .val x => by simp [unwrapCb, ntasks]
  | .failed e => by simp [unwrapCb, ntasks]
  | .done (.val x) => by simp [unwrapCb, ntasks]
  | .done (.failed e) => by simp [unwrapCb, ntasks]
  | .done (.task a b c d) => by simp [unwrapCb, ntasks]
  | .done (.chain a b) => by simp [unwrapCb, ntasks]
  | .done (.unwrap a) => by simp [unwrapCb, ntasks]
  | .done (.gather a b c) => by simp [unwrapCb, ntasks]
  | .task a b c d => by simp [unwrapCb, ntasks]
  | .chain a b => by simp [unwrapCb, ntasks]
  | .unwrap a => by simp [unwrapCb, ntasks]
  | .gather a b c => by simp [unwrapCb, ntasks]
  | .done (.done r) => by
    have := ntasks_unwrapCb (.done r)
    simp [unwrapCb, ntasks] at this ⊢; exact this

theorem failedNR_unwrapCb : ∀ n : Node, isFailedNR (unwrapCb n) = isFailedNR n
  | .val x => by simp [unwrapCb, isFailedNR]
  | .failed e => by simp [unwrapCb, isFailedNR]
  | .done (.val x) => by simp [unwrapCb, isFailedNR]
  | .done (.failed e) => by simp [unwrapCb, isFailedNR]
  | .done (.task a b c d) => by simp [unwrapCb, isFailedNR]
  | .done (.chain a b) => by simp [unwrapCb, isFailedNR]
  | .done (.unwrap a) => by simp [unwrapCb, isFailedNR]
  | .done (.gather a b c) => by simp [unwrapCb, isFailedNR]
  | .task a b c d => by simp [unwrapCb, isFailedNR]
  | .chain a b => by simp [unwrapCb, isFailedNR]
  | .unwrap a => by simp [unwrapCb, isFailedNR]
  | .gather a b c => by simp [unwrapCb, isFailedNR]
  | .done (.done r) => by
    have := failedNR_unwrapCb (.done r)
    simp [unwrapCb, isFailedNR] at this ⊢; exact this

theorem noSerial_unwrapCb : ∀ n : Node, NoSerial (unwrapCb n) = NoSerial n
  | .val x => by simp [unwrapCb, NoSerial]
  | .failed e => by simp [unwrapCb, NoSerial]
  | .done (.val x) => by simp [unwrapCb, NoSerial]
  | .done (.failed e) => by simp [unwrapCb, NoSerial]
  | .done (.task a b c d) => by simp [unwrapCb, NoSerial]
  | .done (.chain a b) => by simp [unwrapCb, NoSerial]
  | .done (.unwrap a) => by simp [unwrapCb, NoSerial]
  | .done (.gather a b c) => by simp [unwrapCb, NoSerial]
  | .task a b c d => by simp [unwrapCb, NoSerial]
  | .chain a b => by simp [unwrapCb, NoSerial]
  | .unwrap a => by simp [unwrapCb, NoSerial]
  | .gather a b c => by simp [unwrapCb, NoSerial]
  | .done (.done r) => by
    have := noSerial_unwrapCb (.done r)
    simp [unwrapCb, NoSerial] at this ⊢; exact this

theorem ntasks_unwrapValue (n : Node) : ntasks (unwrapValue n) = ntasks n := by
  cases n <;> simp [unwrapValue, ntasks_unwrapCb]
theorem failedNR_unwrapValue (n : Node) : isFailedNR (unwrapValue n) = isFailedNR n := by
  cases n <;> simp [unwrapValue, failedNR_unwrapCb]
theorem noSerial_unwrapValue (n : Node) : NoSerial (unwrapValue n) = NoSerial n := by
  cases n <;> simp [unwrapValue, noSerial_unwrapCb]

/-! ### gather -/

theorem collect_no_failed : ∀ (slots : Nodes) (e : Exc), Node.failed e ∈ slots.toList →
    ∀ rs, collectSlots (slots.toList.map Node.slot) ≠ .setResult rs
  | .nil, e, h, rs => by simp [Nodes.toList] at h
  | .cons n ns, e, h, rs => by
    simp only [Nodes.toList, List.mem_cons] at h
    simp only [Nodes.toList, List.map_cons]
    rcases h with h | h
    · subst h; simp [Node.slot, collectSlots]
    · have ih := collect_no_failed ns e h
      cases hs : Node.slot n with
      | none => simp [collectSlots]
      | some r =>
        cases r with
        | error x => simp [collectSlots]
        | ok a =>
          simp only [collectSlots]
          cases hc : collectSlots (ns.toList.map Node.slot) with
          | setResult rs' => exact absurd hc (ih rs')
          | _ => simp

theorem ntasksSlots_collected : ∀ (slots : Nodes) (rs : List Node), GoodSlots slots = true →
    collectSlots (slots.toList.map Node.slot) = .setResult rs → ntasksSlots slots = 0
  | .nil, rs, _, _ => by simp [ntasksSlots]
  | .cons n ns, rs, hg, h => by
    simp only [GoodSlots, Bool.and_eq_true] at hg
    obtain ⟨⟨⟨_, hfn⟩, _⟩, hgs⟩ := hg
    simp only [Nodes.toList, List.map_cons] at h
    have tail : ∀ r, Node.slot n = some (.ok r) → ntasksSlots ns = 0 := by
      intro r hs
      rw [hs] at h
      simp only [collectSlots] at h
      cases hc : collectSlots (ns.toList.map Node.slot) with
      | setResult rs' => exact ntasksSlots_collected ns rs' hgs hc
      | nothing => rw [hc] at h; simp at h
      | setException e => rw [hc] at h; simp at h
      | raisesInCallback => rw [hc] at h; simp at h
      | blocks => rw [hc] at h; simp at h
    cases n with
    | val x => simp [ntasksSlots, ntasks, tail (.val x) rfl]
    | done r =>
      cases r with
      | val x => simp [ntasksSlots, ntasks, tail (.val x) rfl]
      | _ => simp [flat] at hfn
    | failed e => simp [Node.slot, collectSlots] at h
    | task a b c d => simp [Node.slot, collectSlots] at h
    | chain a b => simp [Node.slot, collectSlots] at h
    | unwrap a => simp [Node.slot, collectSlots] at h
    | gather a b c => simp [Node.slot, collectSlots] at h

theorem failed_slot_NR (slots : Nodes) (e : Exc) (hg : GoodSlots slots = true) (hm : Node.failed e ∈ slots.toList) :
    e.isNR = true := by
  obtain ⟨_, _, hr⟩ := goodSlots_mem slots _ hg hm
  cases e <;> simp_all [ev, evExc, EvR.isRerr, Exc.isNR]

theorem gatherAfter_step (slots : Nodes) (done target : Nat) (fired : List (Except Exc Node))
    (hg : GoodSlots slots = true) (hfired : ∀ e, Except.error e ∈ fired → Node.failed e ∈ slots.toList) :
    (isFailedNR (gatherAfter slots done target fired) = true ∨ ntasks (gatherAfter slots done target fired) = ntasksSlots slots) ∧
    ((∃ e, Except.error e ∈ fired) → isFailedNR (gatherAfter slots done target fired) = true) ∧
    (NoSerialSlots slots = true → NoSerial (gatherAfter slots done target fired) = true) := by
  unfold gatherAfter
  cases h : gatherFires done target slots fired with
  | mk d' o =>
    cases o with
    | none =>
      simp only
      refine ⟨.inr (by simp [ntasks]), ?_, by intro hn; simpa [NoSerial] using hn⟩
      rintro ⟨e, he⟩
      obtain ⟨_, g2⟩ := gatherFires_none target slots fired done d' h
      obtain ⟨pre, post, hp⟩ := List.append_of_mem he
      have := g2 pre (.error e) post hp
      rw [gatherFire_error] at this; simp at this
    | some outer =>
      simp only
      rcases gatherFires_some target slots fired done d' outer h with ⟨e, he, ho⟩ | ⟨rs, hc, ho⟩
      · subst ho
        have hnr := failed_slot_NR slots e hg (hfired e he)
        exact ⟨.inl (by simpa [isFailedNR] using hnr), fun _ => by simpa [isFailedNR] using hnr, fun _ => by simp [NoSerial]⟩
      · subst ho
        refine ⟨.inr (by simp [ntasks, ntasksSlots_collected slots rs hg hc]), ?_, fun _ => by simp [NoSerial]⟩
        rintro ⟨e, he⟩
        exact absurd hc (collect_no_failed slots e (hfired e he) rs)

/-! ### callbacks and combinators -/

def ApStep (ap : ApplyCont) (k : Cont) : Prop :=
  ∀ (r : Res Val) (s : ExecSt),
    StepRel s (ap k r s).2 0 (ntasksRes (ap k r s).1) (EscRes (ap k r s).1) ∧ NoSerialRes (ap k r s).1 = true ∧
    (∀ e, r = .exc e → e.isNR = true → (ap k r s).1 = .exc e)

@[simp] theorem handleNN_trace (p : Path) (x : Val) (s : ExecSt) : (handleNonNullableValue p x s).2.trace = s.trace := by
  unfold handleNonNullableValue; split <;> rfl

theorem applySimple_step (k : Cont) : ApStep applySimple k := by
  intro r s
  refine ⟨?_, ?_, ?_⟩
  · cases k <;> cases r <;>
      first
      | exact StepRel.same _ _ (by simp [applySimple]) 0 _
      | (simp only [applySimple]; exact StepRel.same _ _ (by simp) 0 _)
  · cases k <;> cases r <;> simp [applySimple, NoSerialRes, NoSerial]
  · intro e he _; subst he; cases k <;> rfl

theorem isFailedNR_flat_literal (n : Node) (hf : flat n = true) (h : isFailedNR n = true) : ∃ e, n = .failed e ∧ e.isNR = true := by
  cases n with
  | failed e => exact ⟨e, rfl, by simpa [isFailedNR] using h⟩
  | done r => cases r <;> simp_all [flat, isFailedNR]
  | _ => simp [isFailedNR] at h

theorem chainOnFinish_step (ap : ApplyCont) (k : Cont) (hap : ApStep ap k) (src : Node) (s : ExecSt)
    (hf : flat src = true) (hns : NoSerial src = true) (hk : contOK k = true) :
    StepRel s (chainOnFinish ap src k s).2 (ntasks src) (ntasks (chainOnFinish ap src k s).1)
      (isFailedNR (chainOnFinish ap src k s).1 = true) ∧
    NoSerial (chainOnFinish ap src k s).1 = true ∧
    (isFailedNR src = true → isFailedNR (chainOnFinish ap src k s).1 = true) := by
  cases src with
  | failed e =>
    obtain ⟨h1, h2, h3⟩ := hap (.exc e) s
    have hx := h3 e rfl
    simp only [chainOnFinish]
    cases hr : ap k (.exc e) s with
    | mk res s' =>
      rw [hr] at h1 h2 hx
      cases res with
      | ok x =>
        refine ⟨by simpa [ntasks, isFailedNR, ntasksRes, EscRes] using h1, by simpa [NoSerial, NoSerialRes] using h2, ?_⟩
        intro hnr
        have := hx (by simpa [isFailedNR] using hnr)
        simp at this
      | exc e' =>
        refine ⟨by simpa [ntasks, isFailedNR, ntasksRes, EscRes] using h1, by simp [NoSerial], ?_⟩
        intro hnr
        have := hx (by simpa [isFailedNR] using hnr)
        simp at this; subst this; simpa [isFailedNR] using hnr
  | done r =>
    cases r with
    | val x =>
      obtain ⟨h1, h2, _⟩ := hap (.ok x) s
      simp only [chainOnFinish, Node.plain]
      cases hr : ap k (.ok x) s with
      | mk res s' =>
        rw [hr] at h1 h2
        cases res with
        | ok y => exact ⟨by simpa [ntasks, isFailedNR, ntasksRes, EscRes] using h1, by simpa [NoSerial, NoSerialRes] using h2, by simp [isFailedNR]⟩
        | exc e' => exact ⟨by simpa [ntasks, isFailedNR, ntasksRes, EscRes] using h1, by simp [NoSerial], by simp [isFailedNR]⟩
    | _ => simp [flat] at hf
  | val x => exact ⟨StepRel.same _ _ rfl _ _, by simpa [chainOnFinish, NoSerial] using hk, by simp [isFailedNR]⟩
  | task a b c d => simp [flat] at hf
  | chain a b =>
    exact ⟨StepRel.same _ _ rfl _ _, by simp only [chainOnFinish, NoSerial, Bool.and_eq_true]; exact ⟨by simpa [NoSerial] using hns, hk⟩, by simp [isFailedNR]⟩
  | unwrap a =>
    exact ⟨StepRel.same _ _ rfl _ _, by simp only [chainOnFinish, NoSerial, Bool.and_eq_true]; exact ⟨by simpa [NoSerial] using hns, hk⟩, by simp [isFailedNR]⟩
  | gather a b c =>
    exact ⟨StepRel.same _ _ rfl _ _, by simp only [chainOnFinish, NoSerial, Bool.and_eq_true]; exact ⟨by simpa [NoSerial] using hns, hk⟩, by simp [isFailedNR]⟩

theorem mapValue_step (ap : ApplyCont) (k : Cont) (hap : ApStep ap k) (n : Node) (s : ExecSt)
    (hf : flat n = true) (hns : NoSerial n = true) (hk : contOK k = true) :
    StepRel s (mapValue ap n k s).2 (ntasks n) (ntasksRes (mapValue ap n k s).1) (EscRes (mapValue ap n k s).1) ∧
    NoSerialRes (mapValue ap n k s).1 = true ∧
    (isFailedNR n = true → EscRes (mapValue ap n k s).1) := by
  cases n with
  | val x =>
    obtain ⟨h1, h2, _⟩ := hap (.ok x) s
    exact ⟨by simpa [mapValue, ntasks] using h1, by simpa [mapValue] using h2, by simp [isFailedNR]⟩
  | done r =>
    have := chainOnFinish_step ap k hap (.done r) s hf hns hk
    simpa [mapValue, Node.finished, ntasksRes, EscRes, NoSerialRes] using this
  | failed e =>
    have := chainOnFinish_step ap k hap (.failed e) s hf hns hk
    simpa [mapValue, Node.finished, ntasksRes, EscRes, NoSerialRes] using this
  | task a b c d => simp [flat] at hf
  | chain a b =>
    refine ⟨StepRel.same _ _ rfl _ _, ?_, by simp [isFailedNR]⟩
    have : NoSerial (Node.chain (.chain a b) k) = true := by rw [NoSerial]; simp [hns, hk]
    simpa [mapValue, Node.finished, NoSerialRes] using this
  | unwrap a =>
    refine ⟨StepRel.same _ _ rfl _ _, ?_, by simp [isFailedNR]⟩
    have : NoSerial (Node.chain (.unwrap a) k) = true := by rw [NoSerial]; simp [hns, hk]
    simpa [mapValue, Node.finished, NoSerialRes] using this
  | gather a b c =>
    refine ⟨StepRel.same _ _ rfl _ _, ?_, by simp [isFailedNR]⟩
    have : NoSerial (Node.chain (.gather a b c) k) = true := by rw [NoSerial]; simp [hns, hk]
    simpa [mapValue, Node.finished, NoSerialRes] using this

/-! ### gather_values on fresh slots -/

theorem ntasksSlots_vals : ∀ (slots : Nodes), slots.toList.filter Node.isFuture = [] → ntasksSlots slots = 0
  | .nil, _ => by simp [ntasksSlots]
  | .cons n ns, h => by
    cases n with
    | val x =>
      have h' : ns.toList.filter Node.isFuture = [] := by simpa [Nodes.toList, List.filter, Node.isFuture] using h
      simp [ntasksSlots, ntasks, ntasksSlots_vals ns h']
    | _ => simp [Nodes.toList, List.filter, Node.isFuture] at h

theorem gatherValues_step (source : Nodes) (hg : GoodSlots source = true) :
    (isFailedNR (gatherValues source) = true ∨ ntasks (gatherValues source) = ntasksSlots source) ∧
    ((∃ n, n ∈ source.toList ∧ isFailedNR n = true) → isFailedNR (gatherValues source) = true) ∧
    (NoSerialSlots source = true → NoSerial (gatherValues source) = true) := by
  have hlit : ∀ n, n ∈ source.toList → isFailedNR n = true → ∃ e, n = .failed e ∧ e.isNR = true := by
    intro n hn hnr
    exact isFailedNR_flat_literal n (goodSlots_mem source n hg hn).2.1 hnr
  unfold gatherValues
  simp only
  split
  · rename_i h0
    have : source = .nil := nodes_nil_of_length source (by simpa using h0)
    subst this
    exact ⟨.inr (by simp [ntasks, ntasksSlots]), by rintro ⟨n, hn, _⟩; simp [Nodes.toList] at hn, fun _ => by simp [NoSerial]⟩
  · split
    · rename_i _ hp
      have hv : source.toList.filter Node.isFuture = [] := by simpa using hp
      refine ⟨.inr (by simp [ntasks, ntasksSlots_vals source hv]), ?_, fun _ => by simp [NoSerial]⟩
      rintro ⟨n, hn, hnr⟩
      obtain ⟨e, rfl, _⟩ := hlit n hn hnr
      have : Node.failed e ∈ source.toList.filter Node.isFuture := by simp [List.mem_filter, hn, Node.isFuture]
      rw [hv] at this; simp at this
    · have hfired : ∀ e, Except.error e ∈ (source.toList.filter Node.isFuture).filterMap slotResult → Node.failed e ∈ source.toList := by
        intro e he
        simp only [List.mem_filterMap, List.mem_filter] at he
        obtain ⟨n, ⟨hn, _⟩, hs⟩ := he
        cases n <;> simp [slotResult] at hs
        subst hs; exact hn
      obtain ⟨a, b, c⟩ := gatherAfter_step source (source.toList.filter (fun n => !n.isFuture)).length source.toList.length
        ((source.toList.filter Node.isFuture).filterMap slotResult) hg hfired
      refine ⟨a, ?_, c⟩
      rintro ⟨n, hn, hnr⟩
      obtain ⟨e, rfl, _⟩ := hlit n hn hnr
      apply b
      exact ⟨e, by simp only [List.mem_filterMap, List.mem_filter]; exact ⟨.failed e, ⟨hn, rfl⟩, rfl⟩⟩

/-! ### nodes built by the executor -/

theorem StepRel.comp {s s1 s2 : ExecSt} {b m a : Nat} {e1 e2 : Prop}
    (h1 : StepRel s s1 b m e1) (h2 : StepRel s1 s2 m a e2) : StepRel s s2 b a (e1 ∨ e2) := by
  obtain ⟨Δ1, t1, n1, c1⟩ := h1
  obtain ⟨Δ2, t2, n2, c2⟩ := h2
  refine ⟨Δ1 ++ Δ2, by rw [t2, t1]; simp, ?_, ?_⟩
  · intro e he; simp at he; rcases he with he | he; exact n1 e he; exact n2 e he
  · rcases c1 with c1 | c1
    · exact .inl (.inl c1)
    · rcases c2 with c2 | c2
      · exact .inl (.inr c2)
      · right; simp; omega

theorem StepRel.esc {s s' : ExecSt} {b a b' a' : Nat} {e e' : Prop} (h : StepRel s s' b a e) (he : e') :
    StepRel s s' b' a' e' := by
  obtain ⟨Δ, t, n, _⟩ := h
  exact ⟨Δ, t, n, .inl he⟩

theorem StepRel.retarget {s s' : ExecSt} {b a a' : Nat} {e e' : Prop} (h : StepRel s s' b a e)
    (he : e → e') (ha : e' ∨ a' = a) : StepRel s s' b a' e' := by
  obtain ⟨Δ, t, n, c⟩ := h
  refine ⟨Δ, t, n, ?_⟩
  rcases c with c | c
  · exact .inl (he c)
  · rcases ha with ha | ha
    · exact .inl ha
    · right; omega

def ntasksSlotsRes : Res Nodes → Nat
  | .ok ns => ntasksSlots ns
  | .exc _ => 0

def EscSlotsRes : Res Nodes → Prop
  | .ok ns => ∃ n, n ∈ ns.toList ∧ isFailedNR n = true
  | .exc e => e.isNR = true

def NoSerialSlotsRes : Res Nodes → Bool
  | .ok ns => NoSerialSlots ns
  | .exc _ => true

def FreshOK (s : ExecSt) (r : Res Node × ExecSt) : Prop :=
  StepRel s r.2 0 (ntasksRes r.1) (EscRes r.1) ∧ NoSerialRes r.1 = true

def FreshSlotsOK (s : ExecSt) (r : Res Nodes × ExecSt) : Prop :=
  StepRel s r.2 0 (ntasksSlotsRes r.1) (EscSlotsRes r.1) ∧ NoSerialSlotsRes r.1 = true

@[simp] theorem emit_trace (s : ExecSt) (e : Ev) : (s.emit e).trace = s.trace ++ [e] := rfl
@[simp] theorem submit_trace (s : ExecSt) : s.submit.2.trace = s.trace := rfl
@[simp] theorem addError_trace (s : ExecSt) (p : Path) (k : ErrKind) : (s.addError p k).trace = s.trace := rfl

theorem exc_NR_of_den {e : Exc} {d : Option V} (h : evExc e = denToEv d) : e.isNR = true := by
  cases e <;> cases d <;> simp_all [evExc, denToEv, Exc.isNR]

/-- what `resolveField p …` does to the trace: first `call p`, then only non-top events -/
def FieldOK (s : ExecSt) (p : Path) (r : Res Node × ExecSt) : Prop :=
  (∃ Δ, r.2.trace = s.trace ++ Ev.call p :: Δ ∧ (∀ e ∈ Δ, nonTop e = true) ∧
      (EscRes r.1 ∨ ncalls (Ev.call p :: Δ) = ndones (Ev.call p :: Δ) + ntasksRes r.1)) ∧
  NoSerialRes r.1 = true

theorem FieldOK.toStep {s : ExecSt} {p : Path} {r : Res Node × ExecSt} (h : FieldOK s p r) (hp : nonTop (.call p) = true) :
    StepRel s r.2 0 (ntasksRes r.1) (EscRes r.1) := by
  obtain ⟨⟨Δ, t, n, c⟩, _⟩ := h
  refine ⟨.call p :: Δ, t, ?_, ?_⟩
  · intro e he; simp at he; rcases he with he | he; subst he; exact hp; exact n e he
  · rcases c with c | c
    · exact .inl c
    · right; omega

mutual
theorem completeValue_step : ∀ (c : Comp) (path : Path) (s : ExecSt), path ≠ [] → FreshOK s (completeValue path c s)
  | .null, path, s, _ => ⟨StepRel.same _ _ rfl _ _, rfl⟩
  | .leaf v, path, s, _ => ⟨StepRel.same _ _ rfl _ _, rfl⟩
  | .bad, path, s, _ => ⟨⟨[], by simp [completeValue], by simp, .inl (by simp [completeValue, EscRes, Exc.isNR])⟩, rfl⟩
  | .nonNull c, path, s, hp => by
    obtain ⟨i1, i2⟩ := completeValue_step c path s hp
    obtain ⟨e1, _, e3⟩ := completeValue_ev c path s
    unfold FreshOK
    simp only [completeValue]
    cases hr : completeValue path c s with
    | mk r s1 =>
      rw [hr] at i1 i2 e1 e3
      cases r with
      | exc e => exact ⟨i1.esc (by simpa [EscRes] using exc_NR_of_den (by simpa [evRes] using e1)), rfl⟩
      | ok n =>
        obtain ⟨m1, m2, m3⟩ := mapValue_step applySimple (.nonNull path) (applySimple_step _) n s1 e3 i2 rfl
        exact ⟨(StepRel.comp i1 m1).retarget (fun h => h.elim m3 id) (.inr rfl), m2⟩
  | .list items, path, s, hp => by
    obtain ⟨i1, i2⟩ := completeItems_step items path 0 s hp
    have hev := completeItems_ev items path 0 s
    unfold FreshOK
    simp only [completeValue]
    cases hr : completeItems path 0 items s with
    | mk r s1 =>
      rw [hr] at i1 i2 hev
      cases r with
      | exc e => exact ⟨i1.esc (by simpa [EscRes, Exc.isNR] using (by cases e <;> simp_all [Exc.isNR] : e.isNR = true)), rfl⟩
      | ok ns =>
        simp only at hev
        obtain ⟨g1, g2, g3⟩ := gatherValues_step ns hev.1
        exact ⟨i1.retarget g2 g1, g3 i2⟩
  | .obj fields, path, s, hp => by
    obtain ⟨i1, i2⟩ := resolveFields_step fields path s hp
    have hev := resolveFields_ev fields path s
    unfold FreshOK
    simp only [completeValue]
    cases hr : resolveFields path fields s with
    | mk r s1 =>
      rw [hr] at i1 i2 hev
      cases r with
      | exc e => exact ⟨i1.esc (by simpa [EscRes, Exc.isNR] using (by cases e <;> simp_all [Exc.isNR] : e.isNR = true)), rfl⟩
      | ok ns =>
        simp only at hev
        obtain ⟨g1, g2, g3⟩ := gatherValues_step ns hev.1
        obtain ⟨_, _, gf⟩ := gatherValues_ev ns hev.1
        have hgv : StepRel s s1 0 (ntasks (gatherValues ns)) (isFailedNR (gatherValues ns) = true) := i1.retarget g2 g1
        obtain ⟨m1, m2, m3⟩ := mapValue_step applySimple (.collect fields.keys) (applySimple_step _) (gatherValues ns) s1 gf (g3 i2) rfl
        exact ⟨(StepRel.comp hgv m1).retarget (fun h => h.elim m3 id) (.inr rfl), m2⟩
theorem completeItems_step : ∀ (cs : Comps) (path : Path) (i : Nat) (s : ExecSt), path ≠ [] →
    FreshSlotsOK s (completeItems path i cs s)
  | .nil, path, i, s, _ => ⟨StepRel.same _ _ rfl _ _, rfl⟩
  | .cons c cs, path, i, s, hp => by
    obtain ⟨i1, i2⟩ := completeValue_step c (path ++ [.idx i]) s (by simp)
    obtain ⟨e1, _, _⟩ := completeValue_ev c (path ++ [.idx i]) s
    unfold FreshSlotsOK
    simp only [completeItems]
    cases hr : completeValue (path ++ [.idx i]) c s with
    | mk r s1 =>
      rw [hr] at i1 i2 e1
      cases r with
      | exc e => exact ⟨i1.esc (by simpa [EscSlotsRes] using exc_NR_of_den (by simpa [evRes] using e1)), rfl⟩
      | ok n =>
        obtain ⟨j1, j2⟩ := completeItems_step cs path (i + 1) s1 hp
        simp only []
        cases hr2 : completeItems path (i + 1) cs s1 with
        | mk r2 s2 =>
          rw [hr2] at j1 j2
          cases r2 with
          | exc e =>
            obtain ⟨Δ, t, n', c'⟩ := StepRel.trans i1 j1
            refine ⟨⟨Δ, t, n', .inl ?_⟩, rfl⟩
            have hev2 := completeItems_ev cs path (i + 1) s1
            rw [hr2] at hev2
            cases e <;> simp_all [EscSlotsRes, Exc.isNR]
          | ok ns =>
            refine ⟨(StepRel.trans i1 j1).weaken (by simp) (by simp [ntasksSlotsRes, ntasksSlots, ntasksRes]) ?_, ?_⟩
            · intro h
              rcases h with h | ⟨m, hm, hnr⟩
              · exact ⟨n, by simp [Nodes.toList], h⟩
              · exact ⟨m, by simp [Nodes.toList, hm], hnr⟩
            · simp only [NoSerialSlotsRes, NoSerialSlots, Bool.and_eq_true]; exact ⟨i2, j2⟩
theorem resolveFields_step : ∀ (fs : Flds) (path : Path) (s : ExecSt), path ≠ [] →
    FreshSlotsOK s (resolveFields path fs s)
  | .nil, path, s, _ => ⟨StepRel.same _ _ rfl _ _, rfl⟩
  | .cons key mode out rest, path, s, hp => by
    have hf := resolveField_step out (path ++ [.key key]) mode s (by simp)
    have i1 := hf.toStep (nonTop_call_deep path key hp)
    have i2 := hf.2
    obtain ⟨e1, _, _⟩ := resolveField_ev out (path ++ [.key key]) mode s
    unfold FreshSlotsOK
    simp only [resolveFields]
    cases hr : resolveField (path ++ [.key key]) mode out s with
    | mk r s1 =>
      rw [hr] at i1 i2 e1
      cases r with
      | exc e => exact ⟨i1.esc (by simpa [EscSlotsRes] using exc_NR_of_den (by simpa [evRes] using e1)), rfl⟩
      | ok n =>
        obtain ⟨j1, j2⟩ := resolveFields_step rest path s1 hp
        simp only []
        cases hr2 : resolveFields path rest s1 with
        | mk r2 s2 =>
          rw [hr2] at j1 j2
          cases r2 with
          | exc e =>
            obtain ⟨Δ, t, n', c'⟩ := StepRel.trans i1 j1
            refine ⟨⟨Δ, t, n', .inl ?_⟩, rfl⟩
            have hev2 := resolveFields_ev rest path s1
            rw [hr2] at hev2
            cases e <;> simp_all [EscSlotsRes, Exc.isNR]
          | ok ns =>
            refine ⟨(StepRel.trans i1 j1).weaken (by simp) (by simp [ntasksSlotsRes, ntasksSlots, ntasksRes]) ?_, ?_⟩
            · intro h
              rcases h with h | ⟨m, hm, hnr⟩
              · exact ⟨n, by simp [Nodes.toList], h⟩
              · exact ⟨m, by simp [Nodes.toList, hm], hnr⟩
            · simp only [NoSerialSlotsRes, NoSerialSlots, Bool.and_eq_true]; exact ⟨i2, j2⟩
theorem resolveField_step : ∀ (out : ROut) (p : Path) (mode : Mode) (s : ExecSt), p ≠ [] →
    FieldOK s p (resolveField p mode out s)
  | .rerr, p, mode, s, hp => by
    cases mode
    · exact ⟨⟨[.done p], by simp [resolveField, failField], by simp [nonTop], .inr (by simp [resolveField, failField, ntasksRes, ntasks])⟩, rfl⟩
    · exact ⟨⟨[], by simp [resolveField], by simp, .inr (by simp [resolveField, ntasksRes, ntasks])⟩,
        by cases p <;> simp_all [resolveField, NoSerialRes, NoSerial, contOK]⟩
    · exact ⟨⟨[], by simp [resolveField], by simp, .inr (by simp [resolveField, ntasksRes, ntasks])⟩,
        by cases p <;> simp_all [resolveField, NoSerialRes, NoSerial, contOK]⟩
    · exact ⟨⟨[.done p], by simp [resolveField, failField], by simp [nonTop], .inr (by simp [resolveField, failField, ntasksRes, ntasks, unwrapCb])⟩,
        by simp [resolveField, failField, NoSerialRes, NoSerial, unwrapCb]⟩
  | .exc, p, mode, s, hp => by
    cases mode
    · exact ⟨⟨[.done p], by simp [resolveField], by simp [nonTop], .inl (by simp [resolveField, EscRes, Exc.isNR])⟩, rfl⟩
    · exact ⟨⟨[], by simp [resolveField], by simp, .inr (by simp [resolveField, ntasksRes, ntasks])⟩,
        by cases p <;> simp_all [resolveField, NoSerialRes, NoSerial, contOK]⟩
    · exact ⟨⟨[], by simp [resolveField], by simp, .inr (by simp [resolveField, ntasksRes, ntasks])⟩,
        by cases p <;> simp_all [resolveField, NoSerialRes, NoSerial, contOK]⟩
    · exact ⟨⟨[.done p], by simp [resolveField], by simp [nonTop], .inl (by simp [resolveField, EscRes, isFailedNR, Exc.isNR])⟩,
        by simp [resolveField, NoSerialRes, NoSerial]⟩
  | .ok c, p, mode, s, hp => by
    cases mode with
    | deferred =>
      exact ⟨⟨[], by simp [resolveField], by simp, .inr (by simp [resolveField, ntasksRes, ntasks])⟩,
        by cases p <;> simp_all [resolveField, NoSerialRes, NoSerial, contOK]⟩
    | nested =>
      exact ⟨⟨[], by simp [resolveField], by simp, .inr (by simp [resolveField, ntasksRes, ntasks])⟩,
        by cases p <;> simp_all [resolveField, NoSerialRes, NoSerial, contOK]⟩
    | sync =>
      obtain ⟨⟨Δ, t, n', c'⟩, i2⟩ := completeValue_step c p ((s.emit (.call p)).emit (.done p)) hp
      obtain ⟨e1, _, _⟩ := completeValue_ev c p ((s.emit (.call p)).emit (.done p))
      unfold FieldOK
      simp only [resolveField]
      cases hr : completeValue p c ((s.emit (.call p)).emit (.done p)) with
      | mk r s1 =>
        rw [hr] at t c' i2 e1
        have ht : s1.trace = s.trace ++ Ev.call p :: (Ev.done p :: Δ) := by simpa using t
        have hn : ∀ e ∈ Ev.done p :: Δ, nonTop e = true := by
          intro e he; simp at he; rcases he with he | he; subst he; rfl; exact n' e he
        cases r with
        | exc e =>
          have hnr : e.isNR = true := exc_NR_of_den (by simpa [evRes] using e1)
          cases e with
          | resolver => simp [Exc.isNR] at hnr
          | boom => exact ⟨⟨_, ht, hn, .inl (by simp [EscRes, Exc.isNR])⟩, rfl⟩
          | runtime => exact ⟨⟨_, ht, hn, .inl (by simp [EscRes, Exc.isNR])⟩, rfl⟩
        | ok n =>
          refine ⟨⟨_, ht, hn, ?_⟩, by simpa [NoSerialRes, noSerial_unwrapValue] using i2⟩
          rcases c' with c' | c'
          · exact .inl (by simpa [EscRes, failedNR_unwrapValue] using c')
          · right; simp [ntasksRes, ntasks_unwrapValue] at c' ⊢; omega
    | ready =>
      obtain ⟨⟨Δ, t, n', c'⟩, i2⟩ := completeValue_step c p ((s.emit (.call p)).emit (.done p)) hp
      obtain ⟨e1, _, _⟩ := completeValue_ev c p ((s.emit (.call p)).emit (.done p))
      unfold FieldOK
      simp only [resolveField]
      cases hr : completeValue p c ((s.emit (.call p)).emit (.done p)) with
      | mk r s1 =>
        rw [hr] at t c' i2 e1
        have ht : s1.trace = s.trace ++ Ev.call p :: (Ev.done p :: Δ) := by simpa using t
        have hn : ∀ e ∈ Ev.done p :: Δ, nonTop e = true := by
          intro e he; simp at he; rcases he with he | he; subst he; rfl; exact n' e he
        cases r with
        | exc e =>
          have hnr : e.isNR = true := exc_NR_of_den (by simpa [evRes] using e1)
          cases e with
          | resolver => simp [Exc.isNR] at hnr
          | boom => exact ⟨⟨_, ht, hn, .inl (by simp [EscRes, isFailedNR, Exc.isNR])⟩, by simp [NoSerialRes, NoSerial]⟩
          | runtime => exact ⟨⟨_, ht, hn, .inl (by simp [EscRes, isFailedNR, Exc.isNR])⟩, by simp [NoSerialRes, NoSerial]⟩
        | ok n =>
          refine ⟨⟨_, ht, hn, ?_⟩, by simpa [NoSerialRes, noSerial_unwrapCb, NoSerial] using i2⟩
          rcases c' with c' | c'
          · exact .inl (by simpa [EscRes, failedNR_unwrapCb, isFailedNR] using c')
          · right; simp [ntasksRes, ntasks_unwrapCb, ntasks] at c' ⊢; omega
end

/-! ### completing a task below the serial spine -/

theorem applyCont_stepNS (k : Cont) (hk : contOK k = true) : ApStep applyCont k := by
  cases k with
  | serialCb a b c d => simp [contOK] at hk
  | collect keys =>
    intro r s; have := applySimple_step (.collect keys) r s; cases r <;> simpa [applyCont] using this
  | nonNull p =>
    intro r s; have := applySimple_step (.nonNull p) r s; cases r <;> simpa [applyCont] using this
  | onFinish =>
    intro r s; have := applySimple_step .onFinish r s; cases r <;> simpa [applyCont] using this
  | complete p =>
    have hp : p ≠ [] := by cases p <;> simp_all [contOK]
    intro r s
    cases r with
    | exc e =>
      cases e with
      | resolver =>
        refine ⟨?_, by simp [applyCont, failField, NoSerialRes, NoSerial], by intro e he hn; simp at he; subst he; simp [Exc.isNR] at hn⟩
        exact StepRel.same _ _ (by simp [applyCont, failField]) 0 _
      | boom => have := applySimple_step (.complete p) (.exc .boom) s; simpa [applyCont] using this
      | runtime => have := applySimple_step (.complete p) (.exc .runtime) s; simpa [applyCont] using this
    | ok x =>
      cases x with
      | data v => have := applySimple_step (.complete p) (.ok (.data v)) s; simpa [applyCont] using this
      | junk => have := applySimple_step (.complete p) (.ok .junk) s; simpa [applyCont] using this
      | raw c =>
        obtain ⟨i1, i2⟩ := completeValue_step c p s hp
        obtain ⟨e1, _, _⟩ := completeValue_ev c p s
        refine ⟨?_, ?_, by intro e he; simp at he⟩
        · simp only [applyCont]
          cases hr : completeValue p c s with
          | mk r' s1 =>
            rw [hr] at i1 e1
            cases r' with
            | ok n => exact i1
            | exc e =>
              have hnr : e.isNR = true := exc_NR_of_den (by simpa [evRes] using e1)
              cases e with
              | resolver => simp [Exc.isNR] at hnr
              | boom => exact i1
              | runtime => exact i1
        · simp only [applyCont]
          cases hr : completeValue p c s with
          | mk r' s1 =>
            rw [hr] at i2 e1
            cases r' with
            | ok n => exact i2
            | exc e => cases e <;> simp [NoSerialRes, failField, NoSerial]

theorem contOK_of_noSerial_chain (src : Node) (k : Cont) (h : NoSerial (.chain src k) = true) :
    NoSerial src = true ∧ contOK k = true := by
  rw [NoSerial] at h; simpa using h

mutual
theorem deliver_step : ∀ (n : Node) (t : Nat) (s : ExecSt), Good n = true → NoSerial n = true →
    StepRel s (deliver applyCont t n s).2 (ntasks n) (ntasks (deliver applyCont t n s).1)
      (n.finished = false ∧ isFailedNR (deliver applyCont t n s).1 = true) ∧
    NoSerial (deliver applyCont t n s).1 = true
  | .val x, t, s, _, hn => ⟨StepRel.same _ _ (by simp [deliver]) _ _, by simpa [deliver] using hn⟩
  | .done r, t, s, _, hn => ⟨StepRel.same _ _ (by simp [deliver]) _ _, by simpa [deliver] using hn⟩
  | .failed e, t, s, _, hn => ⟨StepRel.same _ _ (by simp [deliver]) _ _, by simpa [deliver] using hn⟩
  | .task id path nested out, t, s, _, _ => by
    simp only [deliver]
    split
    · cases nested
      · cases out
        · exact ⟨⟨[.done path], by simp [finishTask], by simp [nonTop], .inr (by simp [finishTask, ntasks])⟩, by simp [finishTask, NoSerial]⟩
        · exact ⟨⟨[.done path], by simp [finishTask], by simp [nonTop], .inr (by simp [finishTask, ntasks])⟩, by simp [finishTask, NoSerial]⟩
        · exact ⟨⟨[.done path], by simp [finishTask], by simp [nonTop], .inr (by simp [finishTask, ntasks])⟩, by simp [finishTask, NoSerial]⟩
      · exact ⟨⟨[], by simp [finishTask], by simp, .inr (by simp [finishTask, ntasks])⟩, by simp [finishTask, NoSerial]⟩
    · exact ⟨StepRel.same _ _ rfl _ _, by simp [NoSerial]⟩
  | .chain src k, t, s, hg, hn => by
    simp only [Good, Bool.and_eq_true] at hg
    obtain ⟨hns, hk⟩ := contOK_of_noSerial_chain src k hn
    obtain ⟨i1, i2⟩ := deliver_step src t s hg.1 hns
    obtain ⟨_, _, e3⟩ := deliver_ev src t s hg.1
    simp only [deliver]
    cases hd : deliver applyCont t src s with
    | mk src' s1 =>
      rw [hd] at i1 i2 e3
      obtain ⟨c1, c2, c3⟩ := chainOnFinish_step applyCont k (applyCont_stepNS k hk) src' s1 (e3 hg.2) i2 hk
      refine ⟨(StepRel.comp i1 c1).retarget ?_ (.inr rfl), c2⟩
      intro h
      rcases h with ⟨_, h⟩ | h
      · exact ⟨rfl, c3 h⟩
      · exact ⟨rfl, h⟩
  | .unwrap src, t, s, hg, hn => by
    simp only [Good] at hg
    rw [NoSerial] at hn
    obtain ⟨i1, i2⟩ := deliver_step src t s hg hn
    simp only [deliver]
    cases hd : deliver applyCont t src s with
    | mk src' s1 =>
      rw [hd] at i1 i2
      refine ⟨i1.retarget ?_ (.inr (by simp [ntasks, ntasks_unwrapCb])), by simpa [noSerial_unwrapCb] using i2⟩
      intro h; exact ⟨rfl, by simpa [failedNR_unwrapCb] using h.2⟩
  | .gather slots done target, t, s, hg, hn => by
    simp only [Good] at hg
    rw [NoSerial] at hn
    obtain ⟨i1, i2⟩ := deliverSlots_step slots t s hg hn
    obtain ⟨_, e2, e3⟩ := deliverSlots_ev slots t s hg
    simp only [deliver]
    cases hd : deliverSlots applyCont t slots s with
    | mk slots' rest =>
      cases rest with
      | mk fired s1 =>
        rw [hd] at i1 i2 e2 e3
        simp only at i1 i2 e2 e3
        obtain ⟨g1, g2, g3⟩ := gatherAfter_step slots' done target fired e2 e3
        simp only []
        cases hgf : gatherFires done target slots' fired with
        | mk d o =>
          cases o with
          | some outer =>
            have hga : gatherAfter slots' done target fired = outer := by unfold gatherAfter; rw [hgf]
            rw [hga] at g1 g2 g3
            exact ⟨i1.retarget (fun h => ⟨rfl, g2 h⟩) (g1.imp (fun h => ⟨rfl, h⟩) (by simp [ntasks])), g3 i2⟩
          | none =>
            have hga : gatherAfter slots' done target fired = .gather slots' d target := by unfold gatherAfter; rw [hgf]
            rw [hga] at g1 g2 g3
            exact ⟨i1.retarget (fun h => ⟨rfl, g2 h⟩) (g1.imp (fun h => ⟨rfl, h⟩) (by simp [ntasks])), g3 i2⟩
theorem deliverSlots_step : ∀ (ns : Nodes) (t : Nat) (s : ExecSt), GoodSlots ns = true → NoSerialSlots ns = true →
    StepRel s (deliverSlots applyCont t ns s).2.2 (ntasksSlots ns) (ntasksSlots (deliverSlots applyCont t ns s).1)
      (∃ e, Except.error e ∈ (deliverSlots applyCont t ns s).2.1) ∧
    NoSerialSlots (deliverSlots applyCont t ns s).1 = true
  | .nil, t, s, _, _ => ⟨StepRel.same _ _ (by simp [deliverSlots]) _ _, by simp [deliverSlots, NoSerialSlots]⟩
  | .cons n ns, t, s, hg, hn => by
    simp only [GoodSlots, Bool.and_eq_true] at hg
    rw [NoSerialSlots] at hn
    simp only [Bool.and_eq_true] at hn
    obtain ⟨i1, i2⟩ := deliver_step n t s hg.1.1.1 hn.1
    obtain ⟨_, _, e3⟩ := deliver_ev n t s hg.1.1.1
    simp only [deliverSlots]
    cases hd : deliver applyCont t n s with
    | mk n' s1 =>
      rw [hd] at i1 i2 e3
      obtain ⟨j1, j2⟩ := deliverSlots_step ns t s1 hg.2 hn.2
      cases hd2 : deliverSlots applyCont t ns s1 with
      | mk ns' rest =>
        cases rest with
        | mk fired s2 =>
          rw [hd2] at j1 j2
          simp only at i1 i2 j1 j2 ⊢
          refine ⟨(StepRel.trans i1 j1).weaken (by simp [ntasksSlots]) (by simp [ntasksSlots]) ?_, by rw [NoSerialSlots]; simp [i2, j2]⟩
          intro h
          rcases h with ⟨hp, hnr⟩ | ⟨e, he⟩
          · obtain ⟨e, rfl, _⟩ := isFailedNR_flat_literal n' (e3 hg.1.1.2) hnr
            exact ⟨e, by simp [Node.isPending, hp, slotResult]⟩
          · exact ⟨e, by simp [he]⟩
end

/-! ### the serial spine -/

/-- what is known about the node of the top-level field the serial callback is waiting for -/
def FieldInv (F : Node) : Prop :=
  Good F = true ∧ flat F = true ∧ (ev F).isRerr = false ∧ NoSerial F = true

/-- the shapes `serialNext [] …` returns -/
def SpineS : Node → Prop
  | .val _ => True
  | .failed _ => True
  | .done r => SpineS r
  | .chain F (.serialCb [] _ _ _) => FieldInv F
  | _ => False

def SpineSRes : Res Node → Prop
  | .ok n => SpineS n
  | .exc _ => True

theorem notRerr_of_den {r : EvR} {d : Option V} (h : r = denToEv d) : r.isRerr = false := by
  subst h; cases d <;> rfl

theorem serialNext_top : ∀ (args : Flds) (resolved : List (String × V)) (s : ExecSt),
    SerialTr s.trace → ncalls s.trace = ndones s.trace →
    SerialTr (serialNext [] resolved args s).2.trace ∧ SpineSRes (serialNext [] resolved args s).1 ∧
    (EscRes (serialNext [] resolved args s).1 ∨
      ncalls (serialNext [] resolved args s).2.trace = ndones (serialNext [] resolved args s).2.trace + ntasksRes (serialNext [] resolved args s).1)
  | .nil, resolved, s, ht, hb => by
    simp only [serialNext]
    exact ⟨ht, trivial, .inr (by simp [ntasksRes, ntasks, hb])⟩
  | .cons key mode out args, resolved, s, ht, hb => by
    obtain ⟨⟨Δ, t, hn, c⟩, hns⟩ := resolveField_step out ([] ++ [.key key]) mode s (by simp)
    obtain ⟨e1, e2, e3⟩ := resolveField_ev out ([] ++ [.key key]) mode s
    have ih := fun (w : V) (s1 : ExecSt) => serialNext_top args (resolved ++ [(key, w)]) s1
    simp only [serialNext]
    cases hr : resolveField ([] ++ [.key key]) mode out s with
    | mk r s1 =>
      rw [hr] at t c hns e1 e2 e3
      simp only at t
      have ht1 : SerialTr s1.trace := by
        rw [t]
        have h1 := serialTr_append_top s.trace key ht hb
        have h2 := serialTr_append_nonTop _ Δ h1 hn
        simpa using h2
      have hbal : EscRes r ∨ ncalls s1.trace = ndones s1.trace + ntasksRes r := by
        rcases c with c | c
        · exact .inl c
        · right; rw [t]; simp at c ⊢; omega
      cases r with
      | exc e => exact ⟨ht1, trivial, .inl (by simpa [EscRes] using exc_NR_of_den (by simpa [evRes] using e1))⟩
      | ok n =>
        simp only [evRes, GoodRes, FlatRes, NoSerialRes, EscRes, ntasksRes] at e1 e2 e3 hns hbal
        have hfi : FieldInv n := ⟨e2, e3, notRerr_of_den e1, hns⟩
        cases n with
        | val x =>
          cases x with
          | data v =>
            have hb1 : ncalls s1.trace = ndones s1.trace := by
              rcases hbal with h | h
              · simp [isFailedNR] at h
              · simpa [ntasks] using h
            exact ih v s1 ht1 hb1
          | raw c' => exact ⟨ht1, trivial, .inr (by rcases hbal with h | h; simp [isFailedNR] at h; simpa [ntasksRes, ntasks] using h)⟩
          | junk => exact ⟨ht1, trivial, .inr (by rcases hbal with h | h; simp [isFailedNR] at h; simpa [ntasksRes, ntasks] using h)⟩
        | done r =>
          cases r with
          | val x =>
            cases x with
            | data v =>
              have hb1 : ncalls s1.trace = ndones s1.trace := by
                rcases hbal with h | h
                · simp [isFailedNR] at h
                · simpa [ntasks] using h
              obtain ⟨j1, j2, j3⟩ := ih v s1 ht1 hb1
              simp only []
              cases hs : serialNext [] (resolved ++ [(key, v)]) args s1 with
              | mk r2 s2 =>
                rw [hs] at j1 j2 j3
                cases r2 with
                | ok x2 => exact ⟨j1, by simpa [SpineSRes, SpineS] using j2, by simpa [EscRes, isFailedNR, ntasksRes, ntasks] using j3⟩
                | exc e2 => exact ⟨j1, trivial, by simpa [EscRes, isFailedNR, ntasksRes, ntasks] using j3⟩
            | raw c' => cases hd : denOut out <;> simp [hd, ev, denToEv] at e1
            | junk => cases hd : denOut out <;> simp [hd, ev, denToEv] at e1
          | _ => simp [flat] at e3
        | failed e =>
          exact ⟨ht1, trivial, .inl (by simpa [EscRes, isFailedNR] using exc_NR_of_den (by simpa [ev] using e1))⟩
        | task a b c' d =>
          exact ⟨ht1, hfi, .inr (by rcases hbal with h | h; simp [isFailedNR] at h; simpa [ntasksRes, ntasks] using h)⟩
        | chain a b =>
          exact ⟨ht1, hfi, .inr (by rcases hbal with h | h; simp [isFailedNR] at h; simpa [ntasksRes, ntasks] using h)⟩
        | unwrap a =>
          exact ⟨ht1, hfi, .inr (by rcases hbal with h | h; simp [isFailedNR] at h; simpa [ntasksRes, ntasks] using h)⟩
        | gather a b c' =>
          exact ⟨ht1, hfi, .inr (by rcases hbal with h | h; simp [isFailedNR] at h; simpa [ntasksRes, ntasks] using h)⟩

/-- the outer `unwrap_value` of `execute` applied to a spine -/
def USpine : Node → Prop
  | .done (.val _) => True
  | .failed _ => True
  | .unwrap (.chain F (.serialCb [] _ _ _)) => FieldInv F
  | _ => False

theorem unwrapCb_spine : ∀ S : Node, SpineS S → USpine (unwrapCb S)
  | .val x, _ => by simp [unwrapCb, USpine]
  | .failed e, _ => by simp [unwrapCb, USpine]
  | .done (.val x), _ => by simp [unwrapCb, USpine]
  | .done (.failed e), _ => by simp [unwrapCb, USpine]
  | .done (.done r), h => by
    have := unwrapCb_spine (.done r) (by simpa [SpineS] using h)
    simpa [unwrapCb] using this
  | .done (.chain F k), h => by
    simp only [SpineS] at h
    cases k with
    | serialCb p a b c => cases p <;> simp_all [SpineS, unwrapCb, USpine]
    | _ => simp [SpineS] at h
  | .done (.task a b c d), h => by simp [SpineS] at h
  | .done (.unwrap a), h => by simp [SpineS] at h
  | .done (.gather a b c), h => by simp [SpineS] at h
  | .chain F k, h => by
    cases k with
    | serialCb p a b c => cases p <;> simp_all [SpineS, unwrapCb, USpine]
    | _ => simp [SpineS] at h
  | .task a b c d, h => by simp [SpineS] at h
  | .unwrap a, h => by simp [SpineS] at h
  | .gather a b c, h => by simp [SpineS] at h

/-- the shapes of the overall result node of a mutation -/
def TShape : Node → Prop
  | .chain (.unwrap (.chain F (.serialCb [] _ _ _))) .onFinish => FieldInv F
  | .val _ => True
  | .failed _ => True
  | .done (.val _) => True
  | _ => False

theorem close_top (U : Node) (s : ExecSt) (h : USpine U) :
    TShape (chainOnFinish applyCont U .onFinish s).1 ∧ (chainOnFinish applyCont U .onFinish s).2 = s ∧
    ntasks (chainOnFinish applyCont U .onFinish s).1 = ntasks U ∧
    isFailedNR (chainOnFinish applyCont U .onFinish s).1 = isFailedNR U := by
  cases U with
  | done r =>
    cases r with
    | val x => simp [chainOnFinish, applyCont, applySimple, Node.plain, TShape, ntasks, isFailedNR]
    | _ => simp [USpine] at h
  | failed e => cases e <;> simp [chainOnFinish, applyCont, applySimple, TShape, ntasks, isFailedNR]
  | unwrap C =>
    cases C with
    | chain F k =>
      cases k with
      | serialCb p a b c =>
        cases p with
        | nil => exact ⟨by simpa [chainOnFinish, TShape, USpine] using h, rfl, by simp [chainOnFinish, ntasks], by simp [chainOnFinish, isFailedNR]⟩
        | cons q qs => simp [USpine] at h
      | _ => simp [USpine] at h
    | _ => simp [USpine] at h
  | _ => simp [USpine] at h

/-- global invariant of a mutation run -/
def TopSerial (top : Node) (s : ExecSt) : Prop :=
  TShape top ∧ SerialTr s.trace ∧ (isFailedNR top = true ∨ ncalls s.trace = ndones s.trace + ntasks top)

/-- one completion seen from the spine: the serial callback (if its source finished), the outer unwrap, `_on_finish` -/
def spineStep (F' : Node) (s1 : ExecSt) (key : String) (resolved : List (String × V)) (args : Flds) : Node × ExecSt :=
  chainOnFinish applyCont (unwrapCb (chainOnFinish applyCont F' (.serialCb [] key resolved args) s1).1) .onFinish
    (chainOnFinish applyCont F' (.serialCb [] key resolved args) s1).2

theorem spineStep_of_inner (F' : Node) (s1 : ExecSt) (key : String) (resolved : List (String × V)) (args : Flds)
    (C : Node) (s2 : ExecSt) (h : chainOnFinish applyCont F' (.serialCb [] key resolved args) s1 = (C, s2)) :
    spineStep F' s1 key resolved args = chainOnFinish applyCont (unwrapCb C) .onFinish s2 := by
  unfold spineStep; rw [h]

theorem spineStep_ok (F' : Node) (s1 : ExecSt) (key : String) (resolved : List (String × V)) (args : Flds)
    (hfi' : FieldInv F') (htr1 : SerialTr s1.trace)
    (hbal1 : isFailedNR F' = true ∨ ncalls s1.trace = ndones s1.trace + ntasks F') :
    TopSerial (spineStep F' s1 key resolved args).1 (spineStep F' s1 key resolved args).2 := by
  have pend : F'.finished = false → (∀ x, F' ≠ .val x) →
      chainOnFinish applyCont F' (.serialCb [] key resolved args) s1 = (.chain F' (.serialCb [] key resolved args), s1) →
      TopSerial (spineStep F' s1 key resolved args).1 (spineStep F' s1 key resolved args).2 := by
    intro hp _ heq
    rw [spineStep_of_inner _ _ _ _ _ _ _ heq]
    simp only [unwrapCb, chainOnFinish]
    refine ⟨by simpa [TShape] using hfi', htr1, ?_⟩
    rcases hbal1 with hb | hb
    · cases F' <;> simp_all [isFailedNR, Node.finished]
    · exact .inr (by simpa [ntasks] using hb)
  cases F' with
  | task a b c d => exact pend rfl (by simp) rfl
  | chain a b => exact pend rfl (by simp) rfl
  | unwrap a => exact pend rfl (by simp) rfl
  | gather a b c => exact pend rfl (by simp) rfl
  | val x =>
    rw [spineStep_of_inner _ _ _ _ _ (.chain (.val x) (.serialCb [] key resolved args)) s1 rfl]
    simp only [unwrapCb, chainOnFinish]
    refine ⟨by simpa [TShape] using hfi', htr1, .inr ?_⟩
    rcases hbal1 with hb | hb
    · simp [isFailedNR] at hb
    · simpa [ntasks] using hb
  | failed e =>
    obtain ⟨_, _, hre, _⟩ := hfi'
    cases e with
    | resolver => simp [ev, evExc, EvR.isRerr] at hre
    | boom =>
      rw [spineStep_of_inner _ _ _ _ _ (.failed .boom) s1 (by simp [chainOnFinish, applyCont, applySimple])]
      obtain ⟨c1, c2, c3, c4⟩ := close_top (unwrapCb (.failed .boom)) s1 (by simp [unwrapCb, USpine])
      exact ⟨c1, by rw [c2]; exact htr1, .inl (by rw [c4]; simp [unwrapCb, isFailedNR, Exc.isNR])⟩
    | runtime =>
      rw [spineStep_of_inner _ _ _ _ _ (.failed .runtime) s1 (by simp [chainOnFinish, applyCont, applySimple])]
      obtain ⟨c1, c2, c3, c4⟩ := close_top (unwrapCb (.failed .runtime)) s1 (by simp [unwrapCb, USpine])
      exact ⟨c1, by rw [c2]; exact htr1, .inl (by rw [c4]; simp [unwrapCb, isFailedNR, Exc.isNR])⟩
  | done r =>
    cases r with
    | val x =>
      have hb1 : ncalls s1.trace = ndones s1.trace := by
        rcases hbal1 with hb | hb
        · simp [isFailedNR] at hb
        · simpa [ntasks] using hb
      cases x with
      | data v =>
        obtain ⟨j1, j2, j3⟩ := serialNext_top args (resolved ++ [(key, v)]) s1 htr1 hb1
        cases hs : serialNext [] (resolved ++ [(key, v)]) args s1 with
        | mk r2 s2 =>
          rw [hs] at j1 j2 j3
          cases r2 with
          | ok S' =>
            simp only [SpineSRes, EscRes, ntasksRes] at j2 j3
            rw [spineStep_of_inner _ _ _ _ _ (.done S') s2 (by simp [chainOnFinish, Node.plain, applyCont, hs])]
            have hU := unwrapCb_spine (.done S') (by simpa [SpineS] using j2)
            obtain ⟨c1', c2', c3', c4'⟩ := close_top (unwrapCb (.done S')) s2 hU
            refine ⟨c1', by rw [c2']; exact j1, ?_⟩
            rw [c2', c3', c4', ntasks_unwrapCb, failedNR_unwrapCb]
            simpa [isFailedNR, ntasks] using j3
          | exc e2 =>
            simp only [EscRes, ntasksRes] at j3
            rw [spineStep_of_inner _ _ _ _ _ (.failed e2) s2 (by simp [chainOnFinish, Node.plain, applyCont, hs])]
            obtain ⟨c1', c2', c3', c4'⟩ := close_top (unwrapCb (.failed e2)) s2 (by simp [unwrapCb, USpine])
            refine ⟨c1', by rw [c2']; exact j1, ?_⟩
            rw [c2', c3', c4', ntasks_unwrapCb, failedNR_unwrapCb]
            simpa [isFailedNR, ntasks] using j3
      | raw c' =>
        rw [spineStep_of_inner _ _ _ _ _ (.done (.val .junk)) s1 (by simp [chainOnFinish, Node.plain, applyCont, applySimple])]
        obtain ⟨c1', c2', c3', c4'⟩ := close_top (unwrapCb (.done (.val .junk))) s1 (by simp [unwrapCb, USpine])
        exact ⟨c1', by rw [c2']; exact htr1, .inr (by rw [c2', c3']; simpa [unwrapCb, ntasks] using hb1)⟩
      | junk =>
        rw [spineStep_of_inner _ _ _ _ _ (.done (.val .junk)) s1 (by simp [chainOnFinish, Node.plain, applyCont, applySimple])]
        obtain ⟨c1', c2', c3', c4'⟩ := close_top (unwrapCb (.done (.val .junk))) s1 (by simp [unwrapCb, USpine])
        exact ⟨c1', by rw [c2']; exact htr1, .inr (by rw [c2', c3']; simpa [unwrapCb, ntasks] using hb1)⟩
    | _ => simp [FieldInv, flat] at hfi'

theorem deliver_spine (top : Node) (t : Nat) (s : ExecSt) (h : TopSerial top s) :
    TopSerial (deliver applyCont t top s).1 (deliver applyCont t top s).2 := by
  obtain ⟨hshape, htr, hbal⟩ := h
  cases top with
  | val x => simp only [deliver]; exact ⟨hshape, htr, hbal⟩
  | failed e => simp only [deliver]; exact ⟨hshape, htr, hbal⟩
  | done r => simp only [deliver]; exact ⟨hshape, htr, hbal⟩
  | task a b c d => simp [TShape] at hshape
  | unwrap a => simp [TShape] at hshape
  | gather a b c => simp [TShape] at hshape
  | chain U k =>
    cases k with
    | onFinish =>
      cases U with
      | unwrap C =>
        cases C with
        | chain F cb =>
          cases cb with
          | serialCb p key resolved args =>
            cases p with
            | cons q qs => simp [TShape] at hshape
            | nil =>
              simp only [TShape] at hshape
              obtain ⟨hg, hf, hre, hns⟩ := hshape
              have hb0 : ncalls s.trace = ndones s.trace + ntasks F := by
                rcases hbal with hb | hb
                · simp [isFailedNR] at hb
                · simpa [ntasks] using hb
              obtain ⟨⟨Δ, t1, n1, c1⟩, i2⟩ := deliver_step F t s hg hns
              obtain ⟨e1, e2, e3⟩ := deliver_ev F t s hg
              have heq : deliver applyCont t (.chain (.unwrap (.chain F (.serialCb [] key resolved args))) .onFinish) s
                  = spineStep (deliver applyCont t F s).1 (deliver applyCont t F s).2 key resolved args := by
                simp only [deliver, spineStep]
              rw [heq]
              apply spineStep_ok
              · exact ⟨e2, e3 hf, by rw [e1]; exact hre, i2⟩
              · rw [t1]; exact serialTr_append_nonTop _ Δ htr n1
              · rcases c1 with c | c
                · exact .inl c.2
                · right; rw [t1]; simp; omega
          | _ => simp [TShape] at hshape
        | _ => simp [TShape] at hshape
      | _ => simp [TShape] at hshape
    | _ => cases U <;> simp [TShape] at hshape

/-! ### schedules -/

theorem stepSched_serial (top : Node) (s : ExecSt) (i : Nat) (h : TopSerial top s) :
    TopSerial (stepSched top s i).1 (stepSched top s i).2 := by
  unfold stepSched
  simp only
  split
  · exact h
  · rename_i t _
    exact deliver_spine top t { s with queue := removeAt s.queue (i % s.queue.length) } h

theorem runSched_serial : ∀ (sched : List Nat) (top : Node) (s : ExecSt) (sizes : List Nat),
    TopSerial top s → SerialTr (runSched top s sizes sched).st.trace
  | [], top, s, sizes, h => by simpa [runSched] using h.2.1
  | i :: rest, top, s, sizes, h => by
    simp only [runSched]
    split
    · exact h.2.1
    · have h1 := stepSched_serial top s i h
      cases hs : stepSched top s i with
      | mk top' s' =>
        rw [hs] at h1
        exact runSched_serial rest top' s' _ h1

theorem mapValue_onFinish_spine (U : Node) (s : ExecSt) (h : USpine U) :
    mapValue applyCont U .onFinish s = (.ok (chainOnFinish applyCont U .onFinish s).1, (chainOnFinish applyCont U .onFinish s).2) := by
  cases U with
  | done r => simp [mapValue, Node.finished]
  | failed e => simp [mapValue, Node.finished]
  | unwrap C => simp [mapValue, Node.finished, chainOnFinish]
  | _ => simp [USpine] at h

theorem execute_serial (fields : Flds) :
    match execute ⟨.mutation, fields⟩ {} with
    | (.exc _, s) => SerialTr s.trace
    | (.ok top, s) => TopSerial top s := by
  obtain ⟨j1, j2, j3⟩ := serialNext_top fields [] {} serialTr_nil rfl
  unfold execute
  simp only [executeFieldsSerially]
  cases hs : serialNext [] [] fields {} with
  | mk r s1 =>
    rw [hs] at j1 j2 j3
    cases r with
    | exc e => exact j1
    | ok n =>
      simp only [SpineSRes, EscRes, ntasksRes] at j2 j3
      simp only
      cases n with
      | val x =>
        have : mapValue applyCont (unwrapValue (.val x)) .onFinish s1 = (.ok (.val x), s1) := by
          simp [unwrapValue, mapValue, applyCont, applySimple]
        rw [this]
        exact ⟨trivial, j1, by simpa [isFailedNR, ntasks] using j3⟩
      | done r =>
        have hU := unwrapCb_spine (.done r) j2
        have hv : unwrapValue (.done r) = unwrapCb (.done r) := rfl
        rw [hv, mapValue_onFinish_spine _ _ hU]
        obtain ⟨c1, c2, c3, c4⟩ := close_top (unwrapCb (.done r)) s1 hU
        exact ⟨c1, by rw [c2]; exact j1, by rw [c2, c3, c4, ntasks_unwrapCb, failedNR_unwrapCb]; exact j3⟩
      | failed e =>
        have hU := unwrapCb_spine (.failed e) j2
        have hv : unwrapValue (.failed e) = unwrapCb (.failed e) := rfl
        rw [hv, mapValue_onFinish_spine _ _ hU]
        obtain ⟨c1, c2, c3, c4⟩ := close_top (unwrapCb (.failed e)) s1 hU
        exact ⟨c1, by rw [c2]; exact j1, by rw [c2, c3, c4, ntasks_unwrapCb, failedNR_unwrapCb]; exact j3⟩
      | chain F k =>
        have hU := unwrapCb_spine (.chain F k) j2
        have hv : unwrapValue (.chain F k) = unwrapCb (.chain F k) := rfl
        rw [hv, mapValue_onFinish_spine _ _ hU]
        obtain ⟨c1, c2, c3, c4⟩ := close_top (unwrapCb (.chain F k)) s1 hU
        exact ⟨c1, by rw [c2]; exact j1, by rw [c2, c3, c4, ntasks_unwrapCb, failedNR_unwrapCb]; exact j3⟩
      | task a b c d => simp [SpineS] at j2
      | unwrap a => simp [SpineS] at j2
      | gather a b c => simp [SpineS] at j2

end PyGql.AsyncExec

/-
  `OverlappingFieldsCanBeMergedChecker`, soundness half with fragment spreads, part 9: postcondition of
  `_conflicts_between_fields_and_fragment`.
-/
import PyGqlModel.Lemmas.ValidateOverlapPost4
namespace PyGql.Validate
open PyGql PyGql.Validate.Spec

section
variable (s : SchemaD) (fx : Fixes) (d : Doc)

theorem step_eff (h7 : fx.v7 = true) (hpa : ParentsAgree s d) (fuel : Nat) (hecb : ECb s fx d fuel)
    (heff : EFf s fx d fuel) : EFf s fx d (fuel + 1) := by
  obtain ⟨_, _, sff, _, _⟩ := search_sound s fx d h7 fuel
  obtain ⟨_, kcb, _, _, kff⟩ := cmp_frames s fx h7 fuel
  intro me ssid fm name c hc h1 hap
  simp only [betweenFieldsAndFragment]
  by_cases hcm : c.cmp.contains name = true
  · rw [if_pos hcm]
    intro hcr
    exact ⟨by simpa using hcm, GP.skip rfl rfl (fun M _ CF _ n hn => Or.inl hn) hcr⟩
  · rw [if_neg hcm]
    have hc1 : CI s d { c with cmp := name :: c.cmp } := hc.cmp _
    cases hg : c.frags.get? name with
    | none =>
      intro hcr
      have hg' : AL.get? (fragTable d) name = none := by rw [← hc.frags]; exact hg
      refine ⟨List.mem_cons_self .., GP.skip rfl rfl (fun M _ CF _ n hn => ?_) hcr⟩
      rcases List.mem_cons.mp hn with rfl | hn
      · refine Or.inr ⟨?_, ?_⟩
        · rintro rn e1 e2 _ ⟨on, fid, fsels, p, t, _⟩; rw [hg'] at t; cases t
        · rintro h ⟨on, fid, fsels, t, _⟩; rw [hg'] at t; cases t
      · exact Or.inl hn
    | some v =>
      obtain ⟨on, fid, fsels⟩ := v
      simp only
      have hg' : AL.get? (fragTable d) name = some (on, fid, fsels) := by rw [← hc.frags]; exact hg
      obtain ⟨a1, a2, a3, a4, a5⟩ := ff_frag_complete s d hpa hc1 (name := name) hg
      have af := ff_frame s ((typeFromAst s (.named on)).map (·.base)) fid fsels { c with cmp := name :: c.cmp }
      generalize fieldsAndFragments s ((typeFromAst s (.named on)).map (·.base)) fid fsels
        { c with cmp := name :: c.cmp } = ra at a1 a2 a3 a4 a5 af ⊢
      obtain ⟨⟨fm2, fr2⟩, c2⟩ := ra
      simp only at a1 a2 a3 a4 a5 af ⊢
      by_cases hid : (ssid == fid) = true
      · exact absurd (by simpa using hid : ssid = fid).symm (hap name (.refl _) on fid fsels hg')
      · rw [if_neg hid]
        intro hcr
        have hci1 : CI s d (conflictsBetween s fx fuel me fm fm2 c2).2 := sound_cb_ci s fx d h7 fuel me fm fm2 c2 a1 h1 a2
        obtain ⟨lx, lm, g2⟩ := sumLoop_names fr2 (fun fr c => betweenFieldsAndFragment s fx fuel me ssid fm fr c) (CI s d)
          (fun M CF n => NameObl s d M me fm CF n)
          (fun fr hfr c hc => ⟨(sff me ssid fm fr c hc h1).1, kff me ssid fm fr c,
            fun h => heff me ssid fm fr c hc h1 (hap.step (a5 fr hfr)) h⟩)
          _ hci1 hcr
        have g1 := hecb me fm fm2 c2 a1 h1 a2 g2.crash
        have hcmp1 : (conflictsBetween s fx fuel me fm fm2 c2).2.cmp = name :: c.cmp := by rw [kcb, af.2.1]
        refine ⟨lm _ (by rw [hcmp1]; exact List.mem_cons_self ..), ?_⟩
        refine ((g1.seq g2).pre (by rw [af.2.2.1]) (fun k hk => by rw [af.1]; exact hk)
          (fun _ M _ _ k hk => Or.inl (by rw [af.1] at hk; exact hk))).imp (fun M _ r CF hCF n hn => ?_)
        obtain ⟨r1, r2⟩ := r
        rcases r2 CF hCF n hn with h' | h'
        · rw [hcmp1] at h'
          rcases List.mem_cons.mp h' with rfl | h'
          · refine Or.inr ⟨fun rn e1 e2 m1 d2 => r1 rn e1 e2 m1 (a3 rn e2 d2), fun h hh => hCF h (lx h (a4 h hh))⟩
          · exact Or.inl h'
        · exact Or.inr h'

end
end PyGql.Validate

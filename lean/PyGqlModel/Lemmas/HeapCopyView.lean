/-
  C14 — the COPYING phase of `clone()`: the copy of a type (with its copied fields and arguments) has the same by-name view
  as the source's type, and views of fully readable objects are stable while the heap only grows.
-/
import PyGqlModel.Lemmas.HeapCloneExact
import PyGqlModel.Lemmas.HeapMembersClone

set_option linter.unusedSimpArgs false
set_option linter.unusedVariables false

namespace PyGql.Heap.Own
open PyGql.Heap

theorem ShowsSrc.refl' (h : Heap) : ShowsSrc h h := ⟨Nat.le_refl _, fun _ _ => rfl⟩
theorem ShowsSrc.trans' {h1 h2 h3 : Heap} (a : ShowsSrc h1 h2) (b : ShowsSrc h2 h3) : ShowsSrc h1 h3 :=
  ⟨Nat.le_trans a.1 b.1, fun x hx => by rw [b.2 x (Nat.lt_of_lt_of_le hx a.1), a.2 x hx]⟩

/-! ### views while the heap grows -/

theorem argV_grow {h h' : Heap} (g : ShowsSrc h h') {a : Addr} (ha : a < h.size) : argV h' a = argV h a := by
  simp only [argV, Heap.readArg, g.2 a ha]

theorem argV_lt {h : Heap} {a : Addr} (hs : (argV h a).isSome = true) : a < h.size := by
  simp only [argV, Option.isSome_map] at hs
  obtain ⟨g, hg⟩ := Option.isSome_iff_exists.mp hs
  exact read_lt h a _ (readArg_read hg)

theorem argsV_grow {h h' : Heap} (g : ShowsSrc h h') (as : List Addr) (hall : ∀ x, x ∈ as → (argV h x).isSome = true) :
    as.map (argV h') = as.map (argV h) :=
  List.map_congr_left fun x hx => argV_grow g (argV_lt (hall x hx))

/-- all argument views are there -/
def fullF (p : FieldO × List (Option ArgO)) : Prop := ∀ v, v ∈ p.2 → v.isSome = true

theorem fieldV_grow {h h' : Heap} (g : ShowsSrc h h') {a : Addr} {p : FieldO × List (Option ArgO)} (hv : fieldV h a = some p) (hf : fullF p) :
    fieldV h' a = some p := by
  simp only [fieldV, Option.map_eq_some_iff] at hv
  obtain ⟨f, hf0, rfl⟩ := hv
  have ha : a < h.size := read_lt h a _ (readField_read hf0)
  have hr : h'.readField a = some f := by simp only [Heap.readField, g.2 a ha]; exact hf0
  simp only [fieldV, hr, Option.map_some, Option.some.injEq, Prod.mk.injEq, true_and]
  exact argsV_grow g f.args (fun x hx => hf _ (List.mem_map.mpr ⟨x, hx, rfl⟩))

def fullT (v : TypeO × List (Option (FieldO × List (Option ArgO))) × List (Option ArgO)) : Prop :=
  (∀ o, o ∈ v.2.1 → ∃ p, o = some p ∧ fullF p) ∧ (∀ o, o ∈ v.2.2 → o.isSome = true)

theorem typeV_grow {h h' : Heap} (g : ShowsSrc h h') {a : Addr} {v : TypeO × List (Option (FieldO × List (Option ArgO))) × List (Option ArgO)}
    (hv : typeV h a = some v) (hf : fullT v) : typeV h' a = some v := by
  simp only [typeV, Option.map_eq_some_iff] at hv
  obtain ⟨t, ht, rfl⟩ := hv
  have ha : a < h.size := read_lt h a _ (readType_read ht)
  have hr : h'.readType a = some t := by simp only [Heap.readType, g.2 a ha]; exact ht
  simp only [typeV, hr, Option.map_some, Option.some.injEq, Prod.mk.injEq, true_and]
  obtain ⟨h1, h2⟩ := hf
  constructor
  · cases hk : t.kind <;> simp only [hk] at h1 ⊢
    · apply List.map_congr_left
      intro x hx
      obtain ⟨p, hp, hfp⟩ := h1 _ (List.mem_map.mpr ⟨x, hx, rfl⟩)
      rw [hp]; exact fieldV_grow g hp hfp
    · apply List.map_congr_left
      intro x hx
      obtain ⟨p, hp, hfp⟩ := h1 _ (List.mem_map.mpr ⟨x, hx, rfl⟩)
      rw [hp]; exact fieldV_grow g hp hfp
  · cases hk : t.kind <;> simp only [hk] at h2 ⊢
    exact argsV_grow g t.fields (fun x hx => h2 _ (List.mem_map.mpr ⟨x, hx, rfl⟩))

/-! ### copies -/

theorem copyArgs_view (h0 : Heap) : ∀ (as : List Addr) (h : Heap), ShowsSrc h0 h → (∀ a, a ∈ as → ∃ g, h0.readArg a = some g) →
    ShowsSrc h (copyArgs h as).1 ∧ (copyArgs h as).2.map (argV (copyArgs h as).1) = as.map (argV h0) ∧
      (∀ v, v ∈ as.map (argV h0) → v.isSome = true) := by
  intro as
  induction as with
  | nil => intro h _ _; exact ⟨ShowsSrc.refl' h, rfl, by simp⟩
  | cons a rest ih =>
    intro h ss hall
    obtain ⟨g, hg⟩ := hall a (by simp)
    have ha : a < h0.size := read_lt h0 a _ (readArg_read hg)
    have hgh : h.readArg a = some g := by simp only [Heap.readArg, ss.2 a ha]; exact hg
    have s1 : ShowsSrc h (h.alloc (.arg g)).1 := (ShowsSrc.refl' h).alloc _
    obtain ⟨s2, e2, f2⟩ := ih (h.alloc (.arg g)).1 (ss.trans' s1) (fun x hx => hall x (by simp [hx]))
    simp only [copyArgs, hgh]
    refine ⟨s1.trans' s2, ?_, ?_⟩
    · simp only [List.map_cons, e2, List.cons.injEq, and_true]
      rw [argV_grow s2 (by rw [size_alloc]; exact Nat.lt_succ_self _)]
      simp only [argV, readArg_alloc_new, hg, Option.map_some]
    · intro v hv
      simp only [List.map_cons, List.mem_cons] at hv
      rcases hv with rfl | hv
      · simp [argV, hg]
      · exact f2 v hv

theorem copyFields_view (h0 : Heap) : ∀ (as : List Addr) (h : Heap), ShowsSrc h0 h →
    (∀ a, a ∈ as → ∃ f, h0.readField a = some f ∧ ∀ x, x ∈ f.args → ∃ g, h0.readArg x = some g) →
    ShowsSrc h (copyFields h as).1 ∧ (copyFields h as).2.map (fieldV (copyFields h as).1) = as.map (fieldV h0) ∧
      (∀ o, o ∈ as.map (fieldV h0) → ∃ p, o = some p ∧ fullF p) := by
  intro as
  induction as with
  | nil => intro h _ _; exact ⟨ShowsSrc.refl' h, rfl, by simp⟩
  | cons a rest ih =>
    intro h ss hall
    obtain ⟨f, hf, hargs⟩ := hall a (by simp)
    have ha : a < h0.size := read_lt h0 a _ (readField_read hf)
    have hfh : h.readField a = some f := by simp only [Heap.readField, ss.2 a ha]; exact hf
    obtain ⟨sa, ea, fa⟩ := copyArgs_view h0 f.args h ss hargs
    have s1 : ShowsSrc (copyArgs h f.args).1 ((copyArgs h f.args).1.alloc (.field { f with args := (copyArgs h f.args).2 })).1 :=
      (ShowsSrc.refl' _).alloc _
    obtain ⟨s2, e2, f2⟩ := ih _ ((ss.trans' sa).trans' s1) (fun x hx => hall x (by simp [hx]))
    have hfull : fullF ({ f with ty := eraseT f.ty, args := [] }, f.args.map (argV h0)) := fa
    have hsrc : fieldV h0 a = some ({ f with ty := eraseT f.ty, args := [] }, f.args.map (argV h0)) := by simp [fieldV, hf]
    simp only [copyFields, hfh]
    refine ⟨(sa.trans' s1).trans' s2, ?_, ?_⟩
    · simp only [List.map_cons, e2, List.cons.injEq, and_true]
      rw [hsrc]
      apply fieldV_grow s2 _ hfull
      simp only [fieldV, readField_alloc_new, Option.map_some, Option.some.injEq, Prod.mk.injEq, true_and]
      rw [← ea]
      exact argsV_grow s1 _ (fun x hx => by
        have := fa _ (by rw [← ea]; exact List.mem_map.mpr ⟨x, hx, rfl⟩)
        exact this)
    · intro o ho
      simp only [List.map_cons, List.mem_cons] at ho
      rcases ho with rfl | ho
      · exact ⟨_, hsrc, hfull⟩
      · exact f2 o ho

/-- the by-name view of a type object `t` whose members live in `h0` -/
def tview (h0 : Heap) (t : TypeO) : TypeO × List (Option (FieldO × List (Option ArgO))) × List (Option ArgO) :=
  ({ t with fields := [], ifaces := eraseRefs t.ifaces, members := eraseRefs t.members },
   (match t.kind with | .object | .interface => t.fields.map (fieldV h0) | _ => []),
   (match t.kind with | .input => t.fields.map (argV h0) | _ => []))

theorem typeV_of_read {h : Heap} {a : Addr} {t : TypeO} (ht : h.readType a = some t) : typeV h a = some (tview h t) := by
  simp only [typeV, ht, Option.map_some]
  rfl

theorem fieldsV_grow {h h' : Heap} (g : ShowsSrc h h') (as : List Addr) (hall : ∀ o, o ∈ as.map (fieldV h) → ∃ p, o = some p ∧ fullF p) :
    as.map (fieldV h') = as.map (fieldV h) := by
  apply List.map_congr_left
  intro x hx
  obtain ⟨p, hp, hfp⟩ := hall _ (List.mem_map.mpr ⟨x, hx, rfl⟩)
  rw [hp]; exact fieldV_grow g hp hfp

/-- `_clone_type`: the copy has the view of the source's type -/
theorem cloneType_view (cfg : Cfg) (hd : cfg.deepClone = true) (h0 h : Heap) (ss : ShowsSrc h0 h) (t : TypeO) (hr : MembersReadable h0 t) :
    typeV (cloneType cfg h t).1 (cloneType cfg h t).2 = some (tview h0 t) ∧ fullT (tview h0 t) := by
  simp only [cloneType, hd, if_true]
  cases hk : t.kind with
  | input =>
    simp only [MembersReadable, hk] at hr
    obtain ⟨sa, ea, fa⟩ := copyArgs_view h0 t.fields h ss hr
    simp only
    refine ⟨?_, ?_⟩
    · rw [typeV_of_read (readType_alloc_new _ _)]
      simp only [tview, hk, Prod.mk.injEq, Option.some.injEq, true_and]
      rw [← ea]
      exact argsV_grow ((ShowsSrc.refl' _).alloc _) _ (fun x hx => fa _ (by rw [← ea]; exact List.mem_map.mpr ⟨x, hx, rfl⟩))
    · exact ⟨by simp [tview, hk], by simpa [tview, hk] using fa⟩
  | object =>
    simp only [MembersReadable, hk] at hr
    obtain ⟨sa, ea, fa⟩ := copyFields_view h0 t.fields h ss hr
    simp only
    refine ⟨?_, ?_⟩
    · rw [typeV_of_read (readType_alloc_new _ _)]
      simp only [tview, hk, Prod.mk.injEq, Option.some.injEq, true_and, and_true]
      rw [← ea]
      exact fieldsV_grow ((ShowsSrc.refl' _).alloc _) _ (by rw [ea]; exact fa)
    · exact ⟨by simpa [tview, hk] using fa, by simp [tview, hk]⟩
  | interface =>
    simp only [MembersReadable, hk] at hr
    obtain ⟨sa, ea, fa⟩ := copyFields_view h0 t.fields h ss hr
    simp only
    refine ⟨?_, ?_⟩
    · rw [typeV_of_read (readType_alloc_new _ _)]
      simp only [tview, hk, Prod.mk.injEq, Option.some.injEq, true_and, and_true]
      rw [← ea]
      exact fieldsV_grow ((ShowsSrc.refl' _).alloc _) _ (by rw [ea]; exact fa)
    · exact ⟨by simpa [tview, hk] using fa, by simp [tview, hk]⟩
  | union =>
    simp only
    exact ⟨by rw [typeV_of_read (readType_alloc_new _ _)]; simp [tview, hk], by simp [tview, hk], by simp [tview, hk]⟩
  | scalar =>
    simp only
    exact ⟨by rw [typeV_of_read (readType_alloc_new _ _)]; simp [tview, hk], by simp [tview, hk], by simp [tview, hk]⟩
  | enum =>
    simp only
    exact ⟨by rw [typeV_of_read (readType_alloc_new _ _)]; simp [tview, hk], by simp [tview, hk], by simp [tview, hk]⟩

/-- every entry the copying loop produces points to a copy with the view of the source's type of that name -/
theorem cloneTypes_view (cfg : Cfg) (hd : cfg.deepClone = true) (h0 : Heap) : ∀ (l : List (String × Addr)) (h : Heap), ShowsSrc h0 h →
    (∀ e, e ∈ l → ∀ t, h0.readType e.2 = some t → MembersReadable h0 t) →
    ∀ x, x ∈ (cloneTypes cfg h l).2 → ∀ a', x.2 = some a' → ∃ e, e ∈ l ∧ e.1 = x.1 ∧ ∀ t0, h0.readType e.2 = some t0 →
      typeV (cloneTypes cfg h l).1 a' = some (tview h0 t0) ∧ fullT (tview h0 t0) := by
  intro l
  induction l with
  | nil => intro h _ _ x hx; simp [cloneTypes] at hx
  | cons e0 rest ih =>
    intro h ss hread x hx a' ea
    obtain ⟨n, a⟩ := e0
    have hreadr : ∀ e, e ∈ rest → ∀ t, h0.readType e.2 = some t → MembersReadable h0 t := fun e he => hread e (by simp [he])
    by_cases hp : isProtected n = true
    · simp only [cloneTypes, hp, if_true] at hx ⊢
      obtain ⟨e, he, h1, h2⟩ := ih h ss hreadr x hx a' ea
      exact ⟨e, by simp [he], h1, h2⟩
    · have hnp : isProtected n = false := by simpa using hp
      cases ht0 : h.readType a with
      | none =>
        simp only [cloneTypes, hnp, Bool.false_eq_true, if_false, ht0] at hx ⊢
        obtain ⟨e, he, h1, h2⟩ := ih h ss hreadr x hx a' ea
        exact ⟨e, by simp [he], h1, h2⟩
      | some t0 =>
        simp only [cloneTypes, hnp, Bool.false_eq_true, if_false, ht0] at hx ⊢
        have ss1 : ShowsSrc h0 (cloneType cfg h t0).1 := ss.of_pres (cloneType_ok h.size cfg hd h t0 (inv_self h)).1
        have grow : ShowsSrc (cloneType cfg h t0).1 (cloneTypes cfg (cloneType cfg h t0).1 rest).1 :=
          (ShowsSrc.refl' _).of_pres (cloneTypes_ok _ cfg hd rest _ (inv_self _)).1
        simp only [List.mem_cons] at hx
        rcases hx with rfl | hx
        · refine ⟨(n, a), by simp, rfl, fun t ht => ?_⟩
          simp only [Option.some.injEq] at ea; subst ea
          have hlt : a < h0.size := readType_lt' ht
          have : h.readType a = h0.readType a := by simp only [Heap.readType, ss.2 a hlt]
          rw [this, ht] at ht0; cases ht0
          obtain ⟨v1, v2⟩ := cloneType_view cfg hd h0 h ss _ (hread (n, a) (by simp) _ ht)
          exact ⟨typeV_grow grow v1 v2, v2⟩
        · obtain ⟨e, he, h1, h2⟩ := ih _ ss1 hreadr x hx a' ea
          exact ⟨e, by simp [he], h1, h2⟩

end PyGql.Heap.Own

/-
  C14 — in a closed schema everything `_build_type_map` reaches from the root operation types is a
  registered object, so `Schema.clone` starts from names it is going to replace (`CloneCovered`).
-/
import PyGqlModel.Lemmas.HeapOwn

set_option linter.unusedSimpArgs false
set_option linter.unusedVariables false

namespace PyGql.Heap.Own
open PyGql.Heap

theorem lookup_mem' {reg : List (String × Addr)} {n : String} {a : Addr} (hl : lookup reg n = some a) : (n, a) ∈ reg := by
  simp only [lookup, Option.map_eq_some_iff] at hl
  obtain ⟨e, he, rfl⟩ := hl
  have hm := List.mem_of_find?_eq_some he
  have hp := List.find?_some he
  simp only [beq_iff_eq] at hp
  subst hp
  exact hm

/-- what `closedB` says about the registry -/
def RegClosed (h : Heap) (reg : List (String × Addr)) : Prop :=
  ∀ e, e ∈ reg → typeClosed h reg e.2 = true ∧ nameOK h e = true

theorem closedB_reg {h : Heap} {s : Schema} (hc : closedB h s = true) : RegClosed h s.types := by
  intro e he
  simp only [closedB, shapeB, Bool.and_eq_true, List.all_eq_true] at hc
  exact ⟨hc.1.1.1.1.1 e he, hc.2 e he⟩

def GoodT (h : Heap) (reg : List (String × Addr)) (a : Addr) : Prop :=
  ∃ t, h.readType a = some t ∧ lookup reg t.name = some a ∧ typeClosed h reg a = true

def Good (h : Heap) (reg : List (String × Addr)) (a : Addr) : Prop :=
  GoodT h reg a ∨ fieldClosed h reg a = true ∨ argClosed h reg a = true

theorem refOK_good {h : Heap} {reg : List (String × Addr)} (hc : RegClosed h reg) {r : Ref} (hr : refOK reg r = true) :
    GoodT h reg r.addr := by
  simp only [refOK, beq_iff_eq] at hr
  have hm := lookup_mem' hr
  obtain ⟨h1, h2⟩ := hc _ hm
  simp only [nameOK] at h2
  split at h2
  · rename_i t ht
    simp only [beq_iff_eq] at h2
    exact ⟨t, ht, by rw [h2]; exact hr, h1⟩
  · cases h2

theorem children_good {h : Heap} {reg : List (String × Addr)} (hc : RegClosed h reg) {a : Addr} (ga : Good h reg a) :
    ∀ c, c ∈ children h a → Good h reg c := by
  intro c hcm
  rcases ga with ⟨t, ht, _, htc⟩ | hf | hg
  · simp only [children, readType_read ht, List.mem_append, List.mem_map] at hcm
    simp only [typeClosed, typeShape, ht, Bool.and_eq_true, List.all_eq_true] at htc
    rcases hcm with ⟨r, hr, rfl⟩ | hcf
    · exact Or.inl (refOK_good hc (htc.1 r hr))
    · have h3 := htc.2
      simp only [typeKids] at hcf
      simp only [typeMembersOK] at h3
      cases hkk : t.kind <;> simp only [hkk, List.all_eq_true] at h3 hcf
      · exact Or.inr (Or.inl (by simpa [fieldClosed] using h3 c hcf))
      · exact Or.inr (Or.inl (by simpa [fieldClosed] using h3 c hcf))
      · simp at hcf
      · simp at hcf
      · exact Or.inr (Or.inr (by simpa [argClosed] using h3 c hcf))
      · simp at hcf
  · simp only [fieldClosed, fieldShape] at hf
    split at hf
    · rename_i f hrf
      simp only [Bool.and_eq_true, List.all_eq_true] at hf
      simp only [children, readField_read hrf, List.mem_cons] at hcm
      rcases hcm with rfl | hcm
      · exact Or.inl (refOK_good hc hf.1)
      · exact Or.inr (Or.inr (by simpa [argClosed] using hf.2 c hcm))
    · cases hf
  · simp only [argClosed, argShape] at hg
    split at hg
    · rename_i g hrg
      simp only [children, readArg_read hrg, List.mem_singleton] at hcm
      subst hcm
      exact Or.inl (refOK_good hc hg)
    · cases hg

theorem reach_good {h : Heap} {reg : List (String × Addr)} (hc : RegClosed h reg) :
    ∀ (fuel : Nat) (seen todo : List Addr), (∀ a, a ∈ seen → Good h reg a) → (∀ a, a ∈ todo → Good h reg a) →
      ∀ a, a ∈ reach h fuel seen todo → Good h reg a := by
  intro fuel
  induction fuel with
  | zero => intro seen todo hs _ a ha; simp only [reach] at ha; exact hs a ha
  | succ fuel ih =>
    intro seen todo hs ht a ha
    cases todo with
    | nil => simp only [reach] at ha; exact hs a ha
    | cons x rest =>
      simp only [reach] at ha
      split at ha
      · exact ih seen rest hs (fun b hb => ht b (by simp [hb])) a ha
      · apply ih (seen ++ [x]) (children h x ++ rest) _ _ a ha
        · intro b hb
          simp only [List.mem_append, List.mem_singleton] at hb
          rcases hb with hb | rfl
          · exact hs b hb
          · exact ht b (by simp)
        · intro b hb
          simp only [List.mem_append] at hb
          rcases hb with hb | hb
          · exact children_good hc (ht x (by simp)) b hb
          · exact ht b (by simp [hb])

/-- entries of a `_build_type_map` over good addresses: (object name, address) pairs of registered objects -/
theorem buildTypeMap_reg {h : Heap} {reg : List (String × Addr)} (hc : RegClosed h reg) (fuel : Nat) (roots : List Addr)
    (hr : ∀ a, a ∈ roots → Good h reg a) :
    ∀ e, e ∈ buildTypeMap h fuel roots → e ∈ reg ∧ (h.readType e.2).isSome = true := by
  simp only [buildTypeMap]
  have hall := reach_good hc fuel [] roots (by simp) hr
  generalize reach h fuel [] roots = l at hall
  suffices ∀ (acc : List (String × Addr)), (∀ e, e ∈ acc → e ∈ reg ∧ (h.readType e.2).isSome = true) →
      ∀ e, e ∈ l.foldl (fun reg a => match h.readType a with
        | some t => if (lookup reg t.name).isSome then reg else reg ++ [(t.name, a)]
        | none => reg) acc → e ∈ reg ∧ (h.readType e.2).isSome = true from this [] (by simp)
  induction l with
  | nil => intro acc ha e he; exact ha e he
  | cons a l ih =>
    intro acc ha e he
    simp only [List.foldl_cons] at he
    apply ih (fun b hb => hall b (by simp [hb])) _ _ e he
    intro e' he'
    split at he'
    · rename_i t ht
      split at he'
      · exact ha e' he'
      · simp only [List.mem_append, List.mem_singleton] at he'
        rcases he' with he' | rfl
        · exact ha e' he'
        · rcases hall a (by simp) with ⟨t', ht', hl, _⟩ | hf | hg
          · rw [ht] at ht'; cases ht'
            exact ⟨lookup_mem' hl, by simp [ht]⟩
          · simp only [fieldClosed, fieldShape] at hf
            split at hf
            · rename_i f hrf
              have := readType_read ht
              rw [readField_read hrf] at this
              cases this
            · cases hf
          · simp only [argClosed, argShape] at hg
            split at hg
            · rename_i g hrg
              have := readType_read ht
              rw [readArg_read hrg] at this
              cases this
            · cases hg
    · exact ha e' he'

theorem foldl_setdefault_mem (l : List (String × Addr)) : ∀ (acc : List (String × Addr)) (e : String × Addr),
    e ∈ l.foldl (fun reg e => if (lookup reg e.1).isSome then reg else reg ++ [e]) acc → e ∈ acc ∨ e ∈ l := by
  induction l with
  | nil => intro acc e he; exact Or.inl he
  | cons x l ih =>
    intro acc e he
    simp only [List.foldl_cons] at he
    rcases ih _ e he with h1 | h1
    · split at h1
      · exact Or.inl h1
      · simp only [List.mem_append, List.mem_singleton] at h1
        rcases h1 with h1 | rfl
        · exact Or.inl h1
        · exact Or.inr (by simp)
    · exact Or.inr (by simp [h1])

/-- a closed source is covered: `clone()` starts from registered, readable names only (both variants of the registry) -/
theorem closed_covered (cfg : Cfg) (s : Schema) (h : Heap) (hcl : closedB h s = true) : CloneCovered cfg s h := by
  have hc := closedB_reg hcl
  have hroots : ∀ a, a ∈ rootAddrs s → Good h s.types a := by
    intro a ha
    simp only [closedB, shapeB, Bool.and_eq_true] at hcl
    simp only [rootAddrs, List.mem_filterMap, List.mem_cons, List.not_mem_nil, or_false] at ha
    obtain ⟨r, hr, hra⟩ := ha
    cases r with
    | none => simp at hra
    | some r =>
      simp only [Option.map_some, Option.some.injEq] at hra
      subst hra
      rcases hr with hr | hr | hr
      · have := hcl.1.1.1.2; rw [← hr] at this; exact Or.inl (refOK_good hc this)
      · have := hcl.1.1.2; rw [← hr] at this; exact Or.inl (refOK_good hc this)
      · have := hcl.1.2; rw [← hr] at this; exact Or.inl (refOK_good hc this)
  have hbase : ∀ e, e ∈ (s.types.filter fun e => isProtected e.1) ++
      ((buildTypeMap h (reachFuel h (rootAddrs s)) (rootAddrs s)).filter fun e => !isProtected e.1) →
      isProtected e.1 = true ∨ ∃ a, (e.1, a) ∈ s.types ∧ (h.readType a).isSome = true := by
    intro e he
    simp only [List.mem_append, List.mem_filter] at he
    rcases he with ⟨_, hp⟩ | ⟨hb, _⟩
    · exact Or.inl hp
    · obtain ⟨h1, h2⟩ := buildTypeMap_reg hc _ _ hroots e hb
      exact Or.inr ⟨e.2, h1, h2⟩
  have hsrc : ∀ e, e ∈ s.types → isProtected e.1 = true ∨ ∃ a, (e.1, a) ∈ s.types ∧ (h.readType a).isSome = true := by
    intro e he
    right
    refine ⟨e.2, he, ?_⟩
    have := (hc e he).2
    simp only [nameOK] at this
    split at this
    · rename_i t ht; simp [ht]
    · cases this
  intro e he
  simp only [cloneRegistry] at he
  split at he
  · rcases foldl_setdefault_mem _ _ e he with h1 | h1
    · exact hbase e h1
    · exact hsrc e h1
  · exact hbase e he

end PyGql.Heap.Own

/-
  `OverlappingFieldsCanBeMergedChecker`, part 4: every conflict the search reports is genuine -
  `_conflicts_between_fields_and_fragment`, `_conflicts_between_fragments`, `_conflicts_between_subselections`,
  and all five functions together by induction on the fuel.
-/
import PyGqlModel.Lemmas.ValidateOverlapSearch
namespace PyGql.Validate
open PyGql PyGql.Validate.Spec

section
variable (s : SchemaD) (fx : Fixes) (d : Doc)

theorem CI.cmp {s : SchemaD} {d : Doc} {c : OCtx} (h : CI s d c) (x : List String) : CI s d { c with cmp := x } :=
  ⟨h.frags, h.cache⟩
theorem CI.pairs {s : SchemaD} {d : Doc} {c : OCtx} (h : CI s d c) (x : List (String × String × Bool)) :
    CI s d { c with pairs := x } := ⟨h.frags, h.cache⟩

/-- `_fields_and_fragments` on the body of a fragment of the table -/
theorem ff_frag {c : OCtx} (hc : CI s d c) {name on : String} {fid : Nat} {fsels : List Sel}
    (hg : AL.get? c.frags name = some (on, fid, fsels)) :
    CI s d (fieldsAndFragments s ((typeFromAst s (.named on)).map (·.base)) fid fsels c).2 ∧
    EntOK (fun _ e => Ent s d e) (fieldsAndFragments s ((typeFromAst s (.named on)).map (·.base)) fid fsels c).1.1 ∧
    (∀ rn e, Has (fieldsAndFragments s ((typeFromAst s (.named on)).map (·.base)) fid fsels c).1.1 rn e →
      CollF s d name rn e) ∧
    (∀ g ∈ (fieldsAndFragments s ((typeFromAst s (.named on)).map (·.base)) fid fsels c).1.2, ∀ rn e,
      CollF s d g rn e → CollF s d name rn e) := by
  have hg' : AL.get? (fragTable d) name = some (on, fid, fsels) := by rw [← hc.frags]; exact hg
  have hadm : Adm s d fid (fragParent s on) := .frag hg'
  obtain ⟨⟨p', a1, a2⟩, a3, a4, a5⟩ := fieldsAndFragments_sound s d _ fid fsels c hc.cache hadm
  refine ⟨⟨a5.trans hc.frags, a4⟩, entOK_ent a2 (fragTable_selSet hg') a1, ?_, ?_⟩
  · rintro rn e ⟨l, hl, he⟩
    exact .here hg' a1 (a2 _ hl e he)
  · intro g hg2 rn e hcf
    exact .there hg' (a3 g hg2) hcf

theorem step_ff (fuel : Nat) (hcb : SCb s fx d fuel) (hff : SFf s fx d fuel) : SFf s fx d (fuel + 1) := by
  intro me ssid fm name c hc h1
  simp only [betweenFieldsAndFragment]
  by_cases hcm : c.cmp.contains name = true
  · rw [if_pos hcm]; exact ⟨hc, fun h => by cases h⟩
  · rw [if_neg hcm]
    have hc1 : CI s d { c with cmp := name :: c.cmp } := hc.cmp _
    cases hg : c.frags.get? name with
    | none => exact ⟨hc1, fun h => by cases h⟩
    | some v =>
      obtain ⟨on, fid, fsels⟩ := v
      simp only
      obtain ⟨b1, b2, b3, b4⟩ := ff_frag s d hc1 (name := name) hg
      generalize fieldsAndFragments s ((typeFromAst s (.named on)).map (·.base)) fid fsels
        { c with cmp := name :: c.cmp } = r at b1 b2 b3 b4 ⊢
      obtain ⟨⟨fm2, fr2⟩, c2⟩ := r
      simp only at b1 b2 b3 b4 ⊢
      by_cases hid : (ssid == fid) = true
      · rw [if_pos hid]; exact ⟨b1, fun h => by cases h⟩
      · rw [if_neg hid]
        obtain ⟨r1, r2⟩ := hcb me fm fm2 c2 b1 h1 b2
        obtain ⟨q1, q2⟩ := sumLoop_spec' fr2 (fun fr c => betweenFieldsAndFragment s fx fuel me ssid fm fr c) (CI s d)
          (fun fr => ∃ rn e1 e2, Has fm rn e1 ∧ CollF s d fr rn e2 ∧ Conf s d me e1 e2)
          (∃ rn e1 e2, Has fm rn e1 ∧ CollF s d name rn e2 ∧ Conf s d me e1 e2)
          (fun fr _ c hc => hff me ssid fm fr c hc h1)
          (fun fr hfr hQ => by
            obtain ⟨rn, e1, e2, x1, x2, x3⟩ := hQ
            exact ⟨rn, e1, e2, x1, b4 fr hfr rn e2 x2, x3⟩) _ r1
        refine ⟨q1, fun h => ?_⟩
        simp only at h
        by_cases h0 : 0 < (conflictsBetween s fx fuel me fm fm2 c2).1
        · obtain ⟨rn, e1, e2, x1, x2, x3⟩ := r2 h0
          exact ⟨rn, e1, e2, x1, b3 rn e2 x2, x3⟩
        · exact q2 (by omega)

theorem step_fr (h7 : fx.v7 = true) (fuel : Nat) (hcb : SCb s fx d fuel) (hfr : SFr s fx d fuel) :
    SFr s fx d (fuel + 1) := by
  intro me of1 of2 c hc
  cases of1 with
  | none => simp only [betweenFragments]; exact ⟨hc, fun h => by cases h⟩
  | some f1 =>
    cases of2 with
    | none => simp only [betweenFragments]; exact ⟨hc, fun h => by cases h⟩
    | some f2 =>
      simp only [betweenFragments, h7, ↓reduceIte]
      split
      · exact ⟨hc, fun h => by cases h⟩
      · split
        · exact ⟨hc, fun h => by cases h⟩
        · generalize hkey : (sortedPair f1 f2) = key
          have hc1 : CI s d { c with pairs := (key.1, key.2, me) :: c.pairs } := hc.pairs _
          cases hg1 : c.frags.get? f1 with
          | none => exact ⟨hc1, fun h => by cases h⟩
          | some v1 =>
            cases hg2 : c.frags.get? f2 with
            | none => exact ⟨hc1, fun h => by cases h⟩
            | some v2 =>
              obtain ⟨on1, id1, sels1⟩ := v1
              obtain ⟨on2, id2, sels2⟩ := v2
              simp only
              obtain ⟨a1, a2, a3, a4⟩ := ff_frag s d hc1 (name := f1) hg1
              generalize fieldsAndFragments s ((typeFromAst s (.named on1)).map (·.base)) id1 sels1
                { c with pairs := (key.1, key.2, me) :: c.pairs } = ra at a1 a2 a3 a4 ⊢
              obtain ⟨⟨fma, fra⟩, ca⟩ := ra
              simp only at a1 a2 a3 a4 ⊢
              have hg2' : ca.frags.get? f2 = some (on2, id2, sels2) := by
                rw [a1.frags, ← hc.frags]; exact hg2
              obtain ⟨b1, b2, b3, b4⟩ := ff_frag s d a1 (name := f2) hg2'
              generalize fieldsAndFragments s ((typeFromAst s (.named on2)).map (·.base)) id2 sels2 ca = rb
                at b1 b2 b3 b4 ⊢
              obtain ⟨⟨fmb, frb⟩, cb⟩ := rb
              simp only at b1 b2 b3 b4 ⊢
              obtain ⟨r01, r02⟩ := hcb me fma fmb cb b1 a2 b2
              let G : Prop := ∃ g1 g2 rn e1 e2, some f1 = some g1 ∧ some f2 = some g2 ∧ CollF s d g1 rn e1 ∧
                CollF s d g2 rn e2 ∧ Conf s d me e1 e2
              obtain ⟨r11, r12⟩ := sumLoop_spec' fra (fun fr c => betweenFragments s fx fuel me (some fr) (some f2) c)
                (CI s d) (fun fr => ∃ rn e1 e2, CollF s d fr rn e1 ∧ CollF s d f2 rn e2 ∧ Conf s d me e1 e2) G
                (fun fr _ c hc => by
                  obtain ⟨x1, x2⟩ := hfr me (some fr) (some f2) c hc
                  refine ⟨x1, fun h => ?_⟩
                  obtain ⟨g1, g2, rn, e1, e2, y1, y2, y3, y4, y5⟩ := x2 h
                  cases y1; cases y2
                  exact ⟨rn, e1, e2, y3, y4, y5⟩)
                (fun fr hfr' hQ => by
                  obtain ⟨rn, e1, e2, y3, y4, y5⟩ := hQ
                  exact ⟨f1, f2, rn, e1, e2, rfl, rfl, a4 fr hfr' rn e1 y3, y4, y5⟩) _ r01
              obtain ⟨r21, r22⟩ := sumLoop_spec' frb (fun fr c => betweenFragments s fx fuel me (some f1) (some fr) c)
                (CI s d) (fun fr => ∃ rn e1 e2, CollF s d f1 rn e1 ∧ CollF s d fr rn e2 ∧ Conf s d me e1 e2) G
                (fun fr _ c hc => by
                  obtain ⟨x1, x2⟩ := hfr me (some f1) (some fr) c hc
                  refine ⟨x1, fun h => ?_⟩
                  obtain ⟨g1, g2, rn, e1, e2, y1, y2, y3, y4, y5⟩ := x2 h
                  cases y1; cases y2
                  exact ⟨rn, e1, e2, y3, y4, y5⟩)
                (fun fr hfr' hQ => by
                  obtain ⟨rn, e1, e2, y3, y4, y5⟩ := hQ
                  exact ⟨f1, f2, rn, e1, e2, rfl, rfl, y3, b4 fr hfr' rn e2 y4, y5⟩) _ r11
              refine ⟨r21, fun h => ?_⟩
              by_cases h0 : 0 < (conflictsBetween s fx fuel me fma fmb cb).1
              · obtain ⟨rn, e1, e2, x1, x2, x3⟩ := r02 h0
                exact ⟨f1, f2, rn, e1, e2, rfl, rfl, a3 rn e1 x1, b3 rn e2 x2, x3⟩
              · by_cases h1 : 0 < (sumLoop fra (fun fr c => betweenFragments s fx fuel me (some fr) (some f2) c)
                    (conflictsBetween s fx fuel me fma fmb cb).2).1
                · exact r12 h1
                · exact r22 (by omega)

end
end PyGql.Validate

/-
  C12 text level — printing the RE-WRAPPED description again (finding H12, "not a fixpoint" vs "changed"): when the
  wrapped lines fit the width, the description read back from the printed text (the wrapped lines joined by line feeds) is
  printed exactly like the original, so the text is a fixpoint from the first round; when an unbreakable word is longer
  than the width it is not.
-/
import PyGqlModel.Lemmas.SdlTextWrap
import PyGqlModel.Lemmas.SdlModelsStr
namespace PyGql.SdlText
open PyGql PyGql.Ast PyGql.Sdl PyGql.Spec PyGql.PrintLex PyGql.PrintTokens PyGql.PrintString PyGql.BlockString PyGql.Lex PyGql.SdlPrint

/-- the description `build_schema` reads back from the printed text of `d` at indentation width `w`: the wrapped lines
    joined by line feeds, as a `String` (computed by the String-level model's `wrapped_lines`) -/
def rewrapS (w : Nat) (d : String) : String :=
  "\n".intercalate (SdlPrint.wrappedLines (SdlPrint.splitLines d) (120 - w))

theorem T_rewrapS (w : Nat) (d : String) : T (rewrapS w d) = joinLF (wrappedOf w d) := by
  have hlf : SdlPrintT.T "\n" = [10] := by decide
  show SdlPrintT.T (rewrapS w d) = _
  rw [rewrapS, SdlModels.T_intercalate, SdlModels.wrappedLines_map, SdlModels.splitLines_map, hlf, joinSep_lf]
  rfl

theorem splitLF_line : ∀ (l : Text), (∀ c ∈ l, c ≠ 10) → SdlPrintT.splitLF l = [l]
  | [], _ => rfl
  | c :: t, h => by
    have hc : c ≠ 10 := h c (by simp)
    simp only [SdlPrintT.splitLF, hc, if_false, splitLF_line t (fun x hx => h x (by simp [hx]))]

theorem splitLF_line_lf (rest : Text) : ∀ (l : Text), (∀ c ∈ l, c ≠ 10) →
    SdlPrintT.splitLF (l ++ 10 :: rest) = l :: SdlPrintT.splitLF rest
  | [], _ => by simp [SdlPrintT.splitLF]
  | c :: t, h => by
    have hc : c ≠ 10 := h c (by simp)
    simp only [List.cons_append, SdlPrintT.splitLF, hc, if_false, splitLF_line_lf rest t (fun x hx => h x (by simp [hx]))]

/-- `"\n".join(ls).split("\n") = ls` for a non-empty list of LF-free lines -/
theorem splitLF_joinLF : ∀ (ls : List Text), ls ≠ [] → (∀ l ∈ ls, ∀ c ∈ l, c ≠ 10) → SdlPrintT.splitLF (joinLF ls) = ls
  | [], h, _ => absurd rfl h
  | [l], _, hl => by simp only [joinLF]; exact splitLF_line l (hl l (by simp))
  | l :: l2 :: r, _, hl => by
    rw [joinLF_cons_cons, splitLF_line_lf _ l (hl l (by simp)),
      splitLF_joinLF (l2 :: r) (by simp) (fun y hy => hl y (by simp [hy]))]

/-- the printed form of a description that is laid out as a block string over the lines `W` -/
theorem printDescription_block (o : SdlPrintT.OptsT) (hdesc : o.descriptions = true) (x : String) (depth : Nat) (first : Bool)
    (W : List Text) (hx : x.isEmpty = false) (hcr : 13 ∉ SdlPrintT.T x)
    (hW : SdlPrintT.wrappedLines (SdlPrintT.splitLF (SdlPrintT.T x)) (120 - (SdlPrintT.repeatText o.indent depth).length) = W)
    (hq : SdlPrintT.needsQuoted W = false) :
    SdlPrintT.printDescription o (some x) depth first =
      ((if !(SdlPrintT.repeatText o.indent depth).isEmpty && !first then [10] else []) ++
        (SdlPrintT.repeatText o.indent depth ++ (tq ++ (SdlPrintT.descBody (SdlPrintT.repeatText o.indent depth) W ++ tq)))) ++ [10] := by
  simp [SdlPrintT.printDescription, hdesc, hx, hW, hq, hcr, tq, List.append_assoc]

/-- what `descWrapOK` gives about the wrapped lines -/
theorem wrapOK_facts (w : Nat) (x : String) (h : descWrapOK w x = true) :
    ∃ l ls, wrappedOf w x = l :: ls ∧ SdlPrintT.needsQuoted (l :: ls) = false ∧ 13 ∉ SdlPrintT.T x ∧ x.isEmpty = false ∧
      l ≠ [] ∧ (∀ y ∈ l :: ls, ∀ c ∈ y, c ∈ T x ∧ c ≠ 10) := by
  simp only [descWrapOK, Bool.and_eq_true, Bool.not_eq_true', List.all_eq_true] at h
  obtain ⟨⟨⟨⟨⟨hxne, htne⟩, hch⟩, hfb⟩, hlb⟩, hshape⟩ := h
  cases hsp : wrappedOf w x with
  | nil => rw [hsp] at hfb; simp [lineBlank] at hfb
  | cons l ls =>
    rw [hsp] at hfb hlb hshape
    have hmem : ∀ y ∈ l :: ls, ∀ c ∈ y, c ∈ T x ∧ c ≠ 10 := by
      intro y hy c hc
      rw [← hsp] at hy
      obtain ⟨l0, hl0, hc0⟩ := wrappedLines_chars _ _ y hy c hc
      exact ⟨splitLF_mem _ l0 hl0 c hc0, splitLF_noLF _ l0 hl0 c hc0⟩
    have hcr : 13 ∉ SdlPrintT.T x := by
      intro hmem; have := hch 13 hmem; revert this; decide
    have hlne : l ≠ [] := by
      intro e; subst e; simp [lineBlank] at hfb
    refine ⟨l, ls, rfl, ?_, hcr, hxne, hlne, hmem⟩
    by_cases hone : ((l :: ls).length == 1 && l.length < 70 && !(l.getLast? == some 34)) = true
    · simp only [Bool.and_eq_true, beq_iff_eq, decide_eq_true_eq, Bool.not_eq_true', beq_eq_false_iff_ne] at hone
      have hls : ls = [] := by simpa using hone.1.1
      rw [hls]; exact needsQuoted_single l
    · have hone' : ¬ ((l :: ls).length = 1 ∧ l.length < 70 ∧ l.getLast? ≠ some 34) := by
        intro hc; apply hone; simp [hc.1, hc.2.1, hc.2.2]
      have hc : ¬ ((ls = [] ∧ l.length < 70) ∧ ¬ l.getLast? = some 34) := fun hc =>
        hone' ⟨by simp [hc.1.1], hc.1.2, hc.2⟩
      by_cases hlead : l.length > (SdlPrintT.lstrip l).length
      · have hs := hshape
        simp [hlead] at hs
        split at hs
        · rename_i hh; exact absurd hh hc
        · by_cases hls : ls = []
          · rw [hls]; exact needsQuoted_single l
          · have : minIndentZero ls = true := by
              rcases hs with h | h
              · exact absurd h hls
              · exact h
            exact needsQuoted_minZero l ls this
      · have hs := hshape
        simp [hlead] at hs
        split at hs
        · rename_i hh; exact absurd hh hc
        · exact needsQuoted_notLead l ls hlead

/-- **the re-wrapped description prints like the original** when its lines fit the width -/
theorem printDescription_rewrap (o : SdlPrintT.OptsT) (hdesc : o.descriptions = true) (x : String) (depth : Nat) (first : Bool)
    (h : descWrapOK (depth * o.indent.length) x = true)
    (hfit : ∀ l ∈ wrappedOf (depth * o.indent.length) x, l.length ≤ 120 - depth * o.indent.length) :
    SdlPrintT.printDescription o (some (rewrapS (depth * o.indent.length) x)) depth first =
      SdlPrintT.printDescription o (some x) depth first := by
  obtain ⟨l, ls, hW, hq, hcr, hxne, hlne, hmem⟩ := wrapOK_facts _ x h
  have hlen := length_repeatText o.indent depth
  have hWx : SdlPrintT.wrappedLines (SdlPrintT.splitLF (SdlPrintT.T x)) (120 - (SdlPrintT.repeatText o.indent depth).length) = l :: ls := by
    rw [hlen]; exact hW
  have hT : SdlPrintT.T (rewrapS (depth * o.indent.length) x) = joinLF (l :: ls) := by
    have := T_rewrapS (depth * o.indent.length) x
    rw [hW] at this; exact this
  have hsplit : SdlPrintT.splitLF (joinLF (l :: ls)) = l :: ls :=
    splitLF_joinLF (l :: ls) (by simp) (fun y hy c hc => (hmem y hy c hc).2)
  have hWd : SdlPrintT.wrappedLines (SdlPrintT.splitLF (SdlPrintT.T (rewrapS (depth * o.indent.length) x)))
      (120 - (SdlPrintT.repeatText o.indent depth).length) = l :: ls := by
    rw [hT, hsplit, hlen]
    apply wrappedLines_id
    intro y hy
    rw [← hW] at hy
    exact hfit y hy
  have hjne : joinLF (l :: ls) ≠ [] := by
    cases ls with
    | nil => simpa [joinLF] using hlne
    | cons a b => rw [joinLF_cons_cons]; cases l <;> simp
  have hdne : (rewrapS (depth * o.indent.length) x).isEmpty = false := by
    rw [← SdlModels.T_isEmpty, hT]
    cases hj : joinLF (l :: ls) with
    | nil => exact absurd hj hjne
    | cons _ _ => rfl
  have hcrd : 13 ∉ SdlPrintT.T (rewrapS (depth * o.indent.length) x) := by
    rw [hT]
    intro h13
    -- a character of the joined lines is a line feed or a character of the description
    have : ∀ (zs : List Text), (∀ y ∈ zs, ∀ c ∈ y, c ∈ T x ∧ c ≠ 10) → ∀ c ∈ joinLF zs, c = 10 ∨ c ∈ T x := by
      intro zs
      induction zs with
      | nil => intro _ c hc; simp [joinLF] at hc
      | cons z zs ih =>
        intro hz c hc
        cases zs with
        | nil => simp only [joinLF] at hc; exact Or.inr (hz z (by simp) c hc).1
        | cons z' zs' =>
          rw [joinLF_cons_cons] at hc
          simp only [List.mem_append, List.mem_cons] at hc
          rcases hc with hc | hc | hc
          · exact Or.inr (hz z (by simp) c hc).1
          · exact Or.inl hc
          · exact ih (fun y hy => hz y (by simp [hy])) c hc
    rcases this (l :: ls) hmem 13 h13 with h | h
    · exact absurd h (by decide)
    · exact hcr h
  rw [printDescription_block o hdesc _ depth first (l :: ls) hdne hcrd hWd hq,
    printDescription_block o hdesc x depth first (l :: ls) hxne hcr hWx hq]

end PyGql.SdlText

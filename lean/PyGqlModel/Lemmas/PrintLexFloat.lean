/-
  A FloatValue lexeme (specification recogniser `Spec.Lexical.isFloatValue`) followed by a delimiter is read by
  `_read_number` as one Float token whose value is the lexeme: `FloatLexeme` of `Lemmas/PrintLex.lean` holds.
-/
import PyGqlModel.Lemmas.PrintLex
namespace PyGql.PrintLex
open PyGql PyGql.Lex PyGql.Spec PyGql.PrintString

/-- FloatValue as the grammar writes it: IntegerPart FractionalPart? ExponentPart?, not both absent -/
def FloatShape (w : Text) : Prop :=
  ∃ ip frac exp, w = ip ++ (frac ++ exp) ∧ Spec.Lexical.isIntegerPart ip = true ∧
    (frac = [] ∨ Spec.Lexical.isFractionalPart frac = true) ∧ (exp = [] ∨ Spec.Lexical.isExponentPart exp = true) ∧
    ¬ (frac = [] ∧ exp = [])

theorem floatShape_of_isFloatValue (w : Text) (h : Spec.Lexical.isFloatValue w = true) : FloatShape w := by
  simp only [Spec.Lexical.isFloatValue, Bool.and_eq_true, Bool.or_eq_true, List.isEmpty_iff, Bool.not_eq_true',
    Bool.and_eq_false_iff] at h
  obtain ⟨⟨⟨h1, h2⟩, h3⟩, h4⟩ := h
  refine ⟨_, _, _, ?_, h1, h2, h3, ?_⟩
  · rw [← List.append_assoc, List.takeWhile_append_dropWhile, List.takeWhile_append_dropWhile]
  · rintro ⟨a, b⟩
    rcases h4 with h4 | h4
    · rw [a] at h4; simp at h4
    · rw [b] at h4; simp at h4

def NoDigitHead (rest : Text) : Prop := ∀ c t, rest = c :: t → isDigit c = false

theorem readOverDigits_digits (n : Nat) (d : Nat) (ds rest : Text) (hd : Spec.Lexical.isDigit d = true)
    (hds : ds.all Spec.Lexical.isDigit = true) (hrest : NoDigitHead rest) :
    readOverDigits n (d :: ds ++ rest) = .ok rest := by
  have hdig : isDigit d = true := by rw [isDigit_spec]; exact hd
  have hall : ∀ x ∈ ds, isDigit x = true := fun x hx => by
    rw [isDigit_spec]; exact (List.all_eq_true.1 hds) x hx
  have := (span_append isDigit ds rest hall hrest).2
  simp [readOverDigits, hdig, this]

theorem readFraction_frac (n : Nat) (frac rest2 : Text)
    (hf : frac = [] ∨ Spec.Lexical.isFractionalPart frac = true)
    (h46 : frac = [] → ∀ c t, rest2 = c :: t → c ≠ 46) (hnd : NoDigitHead rest2) :
    readFraction n (frac ++ rest2) = .ok (!frac.isEmpty, rest2) := by
  rcases hf with rfl | hf
  · cases rest2 with
    | nil => simp [readFraction]
    | cons c t => simp [readFraction, h46 rfl c t rfl]
  · match frac, hf with
    | 46 :: d :: ds, hf =>
      simp only [Spec.Lexical.isFractionalPart, Bool.and_eq_true] at hf
      have := readOverDigits_digits n d ds rest2 hf.1 hf.2 hnd
      simp only [List.cons_append] at this ⊢
      simp [readFraction, this, Except.map]

theorem readExponent_exp (n : Nat) (exp r : Text) (he : exp = [] ∨ Spec.Lexical.isExponentPart exp = true)
    (hr : Safe r) : readExponent n (exp ++ r) = .ok (!exp.isEmpty, r) := by
  have hnd : NoDigitHead r := (safe_head_facts hr).1
  rcases he with rfl | he
  · simpa using (number_tail n r hr).2.1
  · cases exp with
    | nil => simp [Spec.Lexical.isExponentPart] at he
    | cons i rest =>
      simp only [Spec.Lexical.isExponentPart, Bool.and_eq_true, Bool.or_eq_true, beq_iff_eq] at he
      obtain ⟨hi, hrest⟩ := he
      have key : ∀ (d : Nat) (ds : Text), Spec.Lexical.isDigit d = true → ds.all Spec.Lexical.isDigit = true →
          readOverDigits n (d :: ds ++ r) = .ok r := fun d ds a b => readOverDigits_digits n d ds r a b hnd
      cases rest with
      | nil => simp [Spec.Lexical.stripSign] at hrest
      | cons x u =>
        by_cases hx : x = 43 ∨ x = 45
        · have hs : Spec.Lexical.stripSign (x :: u) = u := by
            rcases hx with rfl | rfl <;> rfl
          rw [hs] at hrest
          cases u with
          | nil => simp at hrest
          | cons d ds =>
            simp only [Bool.and_eq_true] at hrest
            have := key d ds hrest.1 hrest.2
            simp only [List.cons_append] at this ⊢
            simp [readExponent, skipSign, hi, hx, this, Except.map]
        · have hs : Spec.Lexical.stripSign (x :: u) = x :: u := by
            unfold Spec.Lexical.stripSign
            split
            · rename_i heq; simp at heq; exact absurd (Or.inl heq.1) hx
            · rename_i heq; simp at heq; exact absurd (Or.inr heq.1) hx
            · rfl
          rw [hs] at hrest
          simp only [Bool.and_eq_true] at hrest
          have := key x u hrest.1 hrest.2
          simp only [List.cons_append] at this ⊢
          simp [readExponent, skipSign, hi, hx, this, Except.map]


/-- the head of `frac ++ exp ++ r` is never a digit -/
theorem tail_noDigitHead (frac exp r : Text) (hf : frac = [] ∨ Spec.Lexical.isFractionalPart frac = true)
    (he : exp = [] ∨ Spec.Lexical.isExponentPart exp = true) (hr : Safe r) :
    NoDigitHead (frac ++ (exp ++ r)) ∧ NoDigitHead (exp ++ r) ∧
    (frac = [] → ∀ c t, exp ++ r = c :: t → c ≠ 46) := by
  have hnd : NoDigitHead r := (safe_head_facts hr).1
  have h46 := (safe_head_facts hr).2.1
  have hexp : NoDigitHead (exp ++ r) ∧ (∀ c t, exp ++ r = c :: t → c ≠ 46) := by
    rcases he with rfl | he
    · exact ⟨by simpa using hnd, by simpa using h46⟩
    · cases exp with
      | nil => simp [Spec.Lexical.isExponentPart] at he
      | cons i rest =>
        simp only [Spec.Lexical.isExponentPart, Bool.and_eq_true, Bool.or_eq_true, beq_iff_eq] at he
        constructor
        · intro c t e
          simp only [List.cons_append, List.cons.injEq] at e
          rcases he.1 with h | h <;> (rw [← e.1, h]; decide)
        · intro c t e
          simp only [List.cons_append, List.cons.injEq] at e
          rcases he.1 with h | h <;> omega
  refine ⟨?_, hexp.1, fun _ => hexp.2⟩
  rcases hf with rfl | hf
  · simpa using hexp.1
  · match frac, hf with
    | 46 :: d :: ds, _ =>
      intro c t e
      simp only [List.cons_append, List.cons.injEq] at e
      rw [← e.1]; decide

theorem next_float (n : Nat) (w r : Text) (hw : FloatShape w) (hr : Safe r) :
    next n (w ++ r) = .ok (⟨.float, posAt n (w ++ r), posAt n r, w⟩, some r) := by
  obtain ⟨ip, frac, exp, rfl, hip, hf, he, hne⟩ := hw
  obtain ⟨nd1, nd2, h46⟩ := tail_noDigitHead frac exp r hf he hr
  have hfr := readFraction_frac n frac (exp ++ r) hf h46 nd2
  have hex := readExponent_exp n exp r he hr
  have hla := (number_tail n r hr).2.2
  have hflag : (!frac.isEmpty || !exp.isEmpty) = true := by
    cases frac <;> cases exp <;> simp at hne ⊢
  have htake := take_length_sub (ip ++ (frac ++ exp)) r
  simp only [Spec.Lexical.isIntegerPart] at hip
  by_cases hneg : ∃ t, ip = 45 :: t
  · obtain ⟨t, rfl⟩ := hneg
    simp only [Spec.Lexical.stripNegativeSign] at hip
    cases t with
    | nil => simp at hip
    | cons d ds =>
      simp only at hip
      have hro := readOverInteger_ip n d ds (frac ++ (exp ++ r)) hip nd1
      simp only [List.cons_append, List.append_assoc] at hro htake ⊢
      rw [next_number n 45 _ (Or.inl rfl)]
      simp only [readNumber, skipMinus, ↓reduceIte, hro, hfr, hex, hla, hflag, bind, Except.bind, pure, Except.pure, Except.map]
      rw [htake]
  · cases ip with
    | nil => simp [Spec.Lexical.stripNegativeSign] at hip
    | cons d ds =>
      have hd45 : d ≠ 45 := fun e => hneg ⟨ds, by rw [e]⟩
      have hs : Spec.Lexical.stripNegativeSign (d :: ds) = d :: ds := by
        unfold Spec.Lexical.stripNegativeSign
        split
        · rename_i heq; simp at heq; exact absurd heq.1 hd45
        · rfl
      rw [hs] at hip
      simp only at hip
      have hro := readOverInteger_ip n d ds (frac ++ (exp ++ r)) hip nd1
      have hdig : isDigit d = true := by
        rw [isDigit_spec]
        simp [Spec.Lexical.isNonZeroDigit, Spec.Lexical.isDigit] at hip ⊢
        rcases hip with ⟨rfl, _⟩ | ⟨h, _⟩ <;> omega
      simp only [List.cons_append, List.append_assoc] at hro htake ⊢
      rw [next_number n d _ (Or.inr hdig)]
      simp only [readNumber, skipMinus, hd45, ↓reduceIte, hro, hfr, hex, hla, hflag, bind, Except.bind, pure, Except.pure, Except.map]
      rw [htake]

/-- every FloatValue lexeme of the specification is a `FloatLexeme` -/
theorem floatLexeme_of_isFloatValue (w : Text) (h : Spec.Lexical.isFloatValue w = true) : FloatLexeme w := by
  have hs := floatShape_of_isFloatValue w h
  refine ⟨?_, fun n r hr => next_float n w r hs hr⟩
  intro e; subst e
  simp [Spec.Lexical.isFloatValue, Spec.Lexical.isIntegerPart, Spec.Lexical.stripNegativeSign] at h

end PyGql.PrintLex

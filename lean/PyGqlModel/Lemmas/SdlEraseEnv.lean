/-
  C12 — `build doc = build (doc.map eraseCustom)` for ARBITRARY documents, part 1: the environment.
  `EnvErase e' e` = "`e'` is the builder's view of the same definitions with their custom directive applications erased".
  Every environment-reading function of the builder model (`value_from_ast`, the thunk guard, `touches`, `build_*`,
  `build*X`) gives the same result over `e'` on the erased definition as over `e` on the definition.
-/
import PyGqlModel.Props.C12_erase
namespace PyGql.Props.C12
open PyGql PyGql.Sdl PyGql.SdlPrintTA

def eraseDir (d : DirDef) : DirDef := { d with args := d.args.map eraseIV }
def eraseSD (sd : SchemaDef) : SchemaDef := { sd with dirs := sd.dirs.filter isSpecified }

theorem eraseCustom_directive (d : DirDef) : eraseCustom (.directive d) = .directive (eraseDir d) := rfl
theorem eraseCustom_schema (sd : SchemaDef) : eraseCustom (.schema sd) = .schema (eraseSD sd) := rfl
theorem eraseCustom_schemaExt (sd : SchemaDef) : eraseCustom (.schemaExt sd) = .schemaExt (eraseSD sd) := rfl

/-- the erased view of an environment -/
structure EnvErase (e' e : Env) : Prop where
  add : e'.findAdditional = e.findAdditional
  defs : ∀ n, e'.findDef n = (e.findDef n).map eraseType

theorem find?_map_name {α} (f : α → α) (name : α → String) (hn : ∀ a, name (f a) = name a) (n : String) :
    ∀ l : List α, (l.map f).find? (fun a => name a == n) = (l.find? (fun a => name a == n)).map f
  | [] => rfl
  | a :: as => by
    simp only [List.map_cons, List.find?_cons, hn]
    cases name a == n
    · exact find?_map_name f name hn n as
    · rfl

theorem envErase_of (defs : List TypeDef) (additional : List TypeD) :
    EnvErase (Env.of (defs.map eraseType) additional) (Env.of defs additional) :=
  ⟨rfl, fun n => find?_map_name eraseType (·.name) (fun _ => rfl) n defs⟩

theorem values_any_erase (l : List EnumValDef) (v : String) :
    (l.map eraseEnumVal).any (·.name == v) = l.any (·.name == v) := by
  simp [List.any_map, Function.comp_def, eraseEnumVal]

theorem names_erase (l : List InputValDef) : (l.map eraseIV).map (·.name) = l.map (·.name) := by
  simp [List.map_map, Function.comp_def, eraseIV]

theorem mapM_map_congr' {α β γ} (f : α → β) (F : β → R γ) (G : α → R γ) (hfg : ∀ a, F (f a) = G a) :
    ∀ (l : List α), (l.map f).mapM F = l.mapM G
  | [] => rfl
  | a :: as => by simp only [List.map_cons, List.mapM_cons, hfg a, mapM_map_congr' f F G hfg as]

section
variable {e' e : Env} (h : EnvErase e' e)
include h

theorem resolves_erase (n : String) : e'.resolves n = e.resolves n := by
  simp only [Env.resolves, h.add, h.defs, Option.isSome_map]

theorem resolves_erase_fun : e'.resolves = e.resolves := funext (resolves_erase h)

/-- `value_from_ast` over the two environments agrees -/
theorem valueFromAst_erase : ∀ fuel : Nat,
    (∀ lit ty, valueFromAst e' fuel lit ty = valueFromAst e fuel lit ty) ∧
    (∀ items t, coerceItems e' fuel items t = coerceItems e fuel items t) ∧
    (∀ given (l : List InputValDef), coerceDefFields e' fuel given (l.map eraseIV) = coerceDefFields e fuel given l) ∧
    (∀ given l, coerceLiveFields e' fuel given l = coerceLiveFields e fuel given l) := by
  intro fuel
  induction fuel with
  | zero => exact ⟨fun _ _ => rfl, fun _ _ => rfl, fun _ _ => rfl, fun _ _ => rfl⟩
  | succ k ih =>
    obtain ⟨i1, i2, i3, i4⟩ := ih
    refine ⟨?_, ?_, ?_, ?_⟩
    · intro lit ty
      cases ty with
      | nonNull t => cases lit <;> simp only [valueFromAst, i1]
      | list t => cases lit <;> simp only [valueFromAst, i1, i2]
      | named n =>
        cases lit <;> simp only [valueFromAst, h.add, h.defs, i4]
        all_goals (
          cases hfd : e.findDef n with
          | none => rfl
          | some d =>
            simp only [Option.map_some]
            have hk : (eraseType d).kind = d.kind := rfl
            first
              | (rw [hk]; done)
              | (rw [hk]
                 cases hk2 : d.kind
                 all_goals first
                   | rfl
                   | (simp only [eraseType, values_any_erase, i3, names_erase]; done)
                   | (simp only [eraseType, values_any_erase, i3, names_erase]; rfl)))
    · intro items t
      cases items with
      | nil => rfl
      | cons x xs => simp only [coerceItems, i1, i2]
    · intro given l
      cases l with
      | nil => rfl
      | cons f fs =>
        simp only [List.map_cons, coerceDefFields, i3, i1]
        rfl
    · intro given l
      cases l with
      | nil => rfl
      | cons f fs => simp only [coerceLiveFields, i1, i4]

theorem defaultValue_erase (lit : Lit) (ty : Ty) : defaultValue e' lit ty = defaultValue e lit ty := by
  simp only [defaultValue, (valueFromAst_erase h coerceFuel).1]

theorem checkRef_erase (t : Ty) : checkRef e' t = checkRef e t := by
  simp only [checkRef, resolves_erase h]

theorem checkNames_erase (ns : List String) : checkNames e' ns = checkNames e ns := by
  simp only [checkNames, resolves_erase_fun h]

theorem buildArgument_eraseEnv (a : InputValDef) : buildArgument e' (eraseIV a) = buildArgument e a := by
  unfold buildArgument
  simp only [checkRef_erase h, defaultValue_erase h]
  rfl

theorem buildArguments_eraseEnv (l : List InputValDef) : (l.map eraseIV).mapM (buildArgument e') = l.mapM (buildArgument e) :=
  mapM_map_congr' _ _ _ (buildArgument_eraseEnv h) l

theorem buildField_eraseEnv (f : FieldDef) : buildField e' (eraseField f) = buildField e f := by
  simp only [buildField, eraseField, checkRef_erase h, buildArguments_eraseEnv h, deprecationReason_erase]

theorem buildTypeDef_eraseEnv (d : TypeDef) : buildTypeDef e' (eraseType d) = buildTypeDef e d := by
  have hf := mapM_map_congr' eraseField (buildField e') (buildField e) (buildField_eraseEnv h) d.fields
  have hv := mapM_map_congr' eraseEnumVal buildEnumValue buildEnumValue buildEnumValue_erase d.values
  have hi := buildArguments_eraseEnv h d.inputFields
  have hn : (d.values.map eraseEnumVal).map (·.name) = d.values.map (·.name) := by
    simp [List.map_map, Function.comp_def, eraseEnumVal]
  unfold buildTypeDef
  have hk : (eraseType d).kind = d.kind := rfl
  rw [hk]
  cases d.kind <;> simp only [eraseType, checkNames_erase h, hf, hv, hi, hn]

theorem buildType_eraseEnv (d : TypeDef) : buildType e' (eraseType d) = buildType e d := by
  unfold buildType
  have hn : (eraseType d).name = d.name := rfl
  rw [hn, h.add, buildTypeDef_eraseEnv h]

theorem buildDirective_eraseEnv (d : DirDef) : buildDirective e' (eraseDir d) = buildDirective e d := by
  simp only [buildDirective, eraseDir, buildArguments_eraseEnv h]

/-! ### the re-entrant thunk guard -/

theorem thunkNeeds_erase : ∀ fuel : Nat,
    (∀ lit ty, thunkNeeds e' fuel lit ty = thunkNeeds e fuel lit ty) ∧
    (∀ items t, thunkNeedsList e' fuel items t = thunkNeedsList e fuel items t) ∧
    (∀ given (l : List InputValDef), thunkNeedsFields e' fuel given (l.map eraseIV) = thunkNeedsFields e fuel given l) := by
  intro fuel
  induction fuel with
  | zero => exact ⟨fun _ _ => rfl, fun _ _ => rfl, fun _ _ => rfl⟩
  | succ k ih =>
    obtain ⟨i1, i2, i3⟩ := ih
    refine ⟨?_, ?_, ?_⟩
    · intro lit ty
      cases ty with
      | nonNull t => simp only [thunkNeeds, i1]
      | list t => cases lit <;> simp only [thunkNeeds, i1, i2]
      | named n =>
        cases lit <;> simp only [thunkNeeds, h.add, h.defs]
        cases hfa : e.findAdditional n <;> cases hfd : e.findDef n <;>
          simp only [Option.map_some, Option.map_none, eraseType, i3]
    · intro items t
      cases items with
      | nil => rfl
      | cons x xs => simp only [thunkNeedsList, i1, i2]
    · intro given l
      cases l with
      | nil => rfl
      | cons f fs =>
        simp only [List.map_cons, thunkNeedsFields, i3, i1]
        rfl

theorem thunkEdges_erase (d : TypeDef) : thunkEdges e' (eraseType d) = thunkEdges e d := by
  simp only [thunkEdges, eraseType, List.flatMap_map, (thunkNeeds_erase h coerceFuel).1]
  rfl

theorem thunkReach_erase (target : String) : ∀ (fuel : Nat) (n : String),
    thunkReach e' target fuel n = thunkReach e target fuel n
  | 0, _ => rfl
  | k + 1, n => by
    simp only [thunkReach, h.defs]
    cases e.findDef n with
    | none => rfl
    | some d =>
      simp only [Option.map_some, thunkEdges_erase h]
      congr 1
      funext m
      rw [thunkReach_erase target k m]

theorem hasThunkCycle_erase (defs : List TypeDef) : hasThunkCycle e' (defs.map eraseType) = hasThunkCycle e defs := by
  simp only [hasThunkCycle, List.any_map, List.length_map, Function.comp_def, h.add]
  congr 1
  funext d
  have hk : (eraseType d).kind = d.kind := rfl
  have hn : (eraseType d).name = d.name := rfl
  rw [hk, hn, thunkReach_erase h]

end
end PyGql.Props.C12

/-
  Layer 3 (continued): fragment definitions and `parse_executable_definition`.
-/
import PyGqlModel.Lemmas.ParseExecL
namespace PyGql.Parse
open PyGql PyGql.Ast PyGql.Spec

theorem cls_kw {t : Tok} {v : Text} (hk : t.kind = .name) (hv : t.value = v) : cls t = (.name, v) := by
  simp [cls, hk, hasValue, hv]

theorem cls_kw_inv {t : Tok} {v : Text} (hc : cls t = (.name, v)) : t.kind = .name ∧ t.value = v := by
  have hk := cls_kind hc
  exact ⟨hk, by simpa [cls, hk, hasValue] using hc⟩

theorem parseFragmentDefinition_sound (fl : Flags) (fuel : Nat) (s : PS) (d : FragmentDefinition) (s' : PS)
    (h : parseFragmentDefinition fl fuel s = .ok (d, s')) :
    wfFragment fl d = true ∧ (fragmentV d).check fl s.last s.toks = some (s'.last, s'.toks) := by
  simp only [parseFragmentDefinition, bind_ok, peek_ok, expectKeyword_ok, mkLoc_ok, pure_ok] at h
  obtain ⟨st, s1, ⟨ts, h1, hs1⟩, kf, s2, ⟨ts2, h2, hkf, hvf, hs2⟩, nm, s3, hn, vds, s4, hvd, kon, s5,
    ⟨ts5, h5, hko, hvo, hs5⟩, tc, s6, htc, ds, s7, hd, ss, s8, hss, loc, s9, ⟨hloc, hs9⟩, hfin⟩ := h
  subst hs1
  rw [h1] at h2; cases h2
  obtain ⟨hne, cn⟩ := parseFragmentName_sound fl _ _ _ hn
  have hv : ((fl.experimentalFragmentVariables = true ∨ vds = []) ∧ ∀ d ∈ vds, wfVariableDefinition d = true) ∧
      Item.checkAll fl (variableDefinitionsV vds) s3.last s3.toks = some (s4.last, s4.toks) := by
    rw [ite_ok] at hvd
    rcases hvd with ⟨hfv, hvd⟩ | ⟨hfv, hvd⟩
    · obtain ⟨w, c⟩ := parseVariableDefinitions_sound fl fuel _ _ _ hvd
      exact ⟨⟨Or.inl hfv, w⟩, c⟩
    · rw [pure_ok] at hvd
      cases hvd
      exact ⟨⟨Or.inr rfl, by simp⟩, by simp [variableDefinitionsV, groupV, Item.checkAll]⟩
  obtain ⟨⟨wfv, wv⟩, cv⟩ := hv
  have ctc := parseNamedType_sound fl _ _ _ htc
  obtain ⟨wd, cd⟩ := parseDirectives_sound fl _ _ _ _ _ hd
  obtain ⟨wss, css⟩ := parseSelectionSet_sound fl fuel _ _ _ hss
  subst hs2; subst hs5
  cases hfin; subst hs9; subst hloc
  refine ⟨?_, ?_⟩
  · simp only [wfFragment, Bool.and_eq_true, Bool.or_eq_true, List.all_eq_true, List.isEmpty_iff, decide_eq_true_eq]
    exact ⟨⟨⟨⟨by simpa using hne, wfv⟩, wv⟩, wd⟩, wss⟩
  · simp only [fragmentV, check_node]
    refine ⟨_, _, h1, ?_, rfl⟩
    rw [checkAll_cons]
    refine ⟨st, ts, by simp [h1, Item.check, cls_kw hkf hvf], ?_⟩
    rw [checkAll_cons]
    refine ⟨_, _, cn, ?_⟩
    rw [checkAll_append]
    refine ⟨_, _, cv, ?_⟩
    rw [checkAll_cons]
    refine ⟨kon, ts5, by simp [h5, Item.check, cls_kw hko hvo], ?_⟩
    rw [checkAll_cons]
    refine ⟨_, _, ctc, ?_⟩
    rw [checkAll_append]
    refine ⟨_, _, cd, ?_⟩
    simp [Item.checkAll, css]

theorem parseFragmentDefinition_complete (fl : Flags) (fuel : Nat) (d : FragmentDefinition) (l l' : Tok)
    (ts rest : List Tok) (w : wfFragment fl d = true) (hf : ts.length ≤ fuel)
    (h : (fragmentV d).check fl l ts = some (l', rest)) :
    parseFragmentDefinition fl fuel ⟨ts, l⟩ = .ok (d, ⟨rest, l'⟩) := by
  rcases d with ⟨nm, vds, tc, ds, ss, loc⟩
  simp only [wfFragment, Bool.and_eq_true, Bool.or_eq_true, List.all_eq_true, List.isEmpty_iff,
    decide_eq_true_eq] at w
  obtain ⟨⟨⟨⟨wne, wfv⟩, wv⟩, wd⟩, wss⟩ := w
  simp only [fragmentV, check_node, checkAll_cons, check_tok] at h
  obtain ⟨f, tl, rfl, ⟨l1, ts1, ⟨kf, e, hcf, rfl⟩, l2, ts2, hn, hall⟩, rfl⟩ := h
  cases e
  rw [checkAll_append] at hall
  obtain ⟨l3, ts3, hv, hall⟩ := hall
  simp only [checkAll_cons, check_tok] at hall
  obtain ⟨l4, ts4, ⟨kon, rfl, hco, rfl⟩, l5, ts5, htc, hall⟩ := hall
  rw [checkAll_append] at hall
  obtain ⟨l6, ts6, hd, hs⟩ := hall
  simp only [checkAll_cons, checkAll_nil] at hs
  obtain ⟨l7, ts7, hs, hfin⟩ := hs
  cases hfin
  obtain ⟨t6, tl6, rfl, hk6⟩ := selectionSetV_first hs
  obtain ⟨hkf, hvf⟩ := cls_kw_inv hcf
  obtain ⟨hko, hvo⟩ := cls_kw_inv hco
  have len2 : ts2.length ≤ tl.length := check_len hn
  have len3 : (l4 :: ts4).length ≤ ts2.length := checkAll_len hv
  have len5 : ts5.length ≤ ts4.length := check_len htc
  have len6 : (t6 :: tl6).length ≤ ts5.length := checkAll_len hd
  simp at hf len3 len6
  have cn := parseFragmentName_complete fl nm _ _ _ _ (by simpa using wne) hn
  have ctc := parseNamedType_complete fl _ _ _ _ _ htc
  have cd := parseDirectives_complete fl fuel false ds l5 l6 ts5 (t6 :: tl6) wd (by omega)
    (NotK.cons (by simp [hk6])) hd
  have cs := parseSelectionSet_complete fl fuel ss l6 l' (t6 :: tl6) rest (by simp; omega) wss hs
  have cv : (if fl.experimentalFragmentVariables then parseVariableDefinitions fl fuel else pure [] : P _)
      ⟨ts2, l2⟩ = .ok (vds, ⟨l4 :: ts4, l3⟩) := by
    rcases wfv with hfv | rfl
    · simp only [hfv, if_true]
      exact parseVariableDefinitions_complete fl fuel vds l2 l3 ts2 (l4 :: ts4) wv (by omega)
        (fun _ => NotK.cons (by simp [hko])) hv
    · simp only [variableDefinitionsV, groupV, List.isEmpty_nil, if_true, checkAll_nil] at hv
      cases hv
      by_cases hfv : fl.experimentalFragmentVariables = true
      · simp only [hfv, if_true]
        exact parseVariableDefinitions_complete fl fuel [] l2 l2 _ _ (by simp) (by simp; omega)
          (fun _ => NotK.cons (by simp [hko])) (by simp [variableDefinitionsV, groupV, Item.checkAll])
      · simp [hfv, pure_eq]
  simp [parseFragmentDefinition, bind_eq, peek_cons, expectKeyword_pos hkf hvf, cn, cv, expectKeyword_pos hko hvo,
    ctc, cd, cs, mkLoc_eq, pure_eq]

end PyGql.Parse

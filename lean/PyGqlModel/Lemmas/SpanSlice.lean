/-
  The core of the character-level `span_reparse`: a tiled text whose tokens match `SOF mid… EOF`, a node `j` below one
  of the `mid` items with `loc = (a, b)`: the characters `a … b` are tiled by the node's own tokens (moved down by `a`)
  and `SOF (j moved down by a) EOF` matches them.
-/
import PyGqlModel.Lemmas.ItemSlice
import PyGqlModel.Lex
namespace PyGql.Spec
open PyGql PyGql.Ast PyGql.Parse PyGql.Spec.Lexical

theorem eofT_down (a b : Nat) : (eofT b).down a = eofT (b - a) := rfl

theorem lastOf_cons_getLast (l f : Tok) (tl : List Tok) : Item.lastOf l (f :: tl) = (f :: tl).getLast?.getD f := by
  simp only [Item.lastOf]
  cases h : (f :: tl).getLast? with
  | none => simp at h
  | some x => rfl

theorem slice_length {s : Text} {a b : Nat} (h1 : a ≤ b) (h2 : b ≤ s.length) : (slice s a b).length = b - a := by
  simp [slice]; omega

theorem item_slice (fl : Flags) (s : Text) (body : List Tok) (ht : Tiles s.length s body) (mid : List Item)
    (l0 l' : Tok) (hm : Item.checkAll fl (p .sof :: (mid ++ [p .eof])) l0 (Lex.sofTok :: body) = some (l', []))
    {i j : Item} (hi : i ∈ mid) (hs : Item.Sub j i) (hsol : j.solid = true)
    (is : List Item) (a b : Nat) (hj : j = .node (some (a, b)) is) :
    a ≤ b ∧ b ≤ s.length ∧ fl.noLocation = false ∧ ∃ seg, Tiles (b - a) (slice s a b) (seg ++ [eofT (b - a)]) ∧
      Item.checkAll fl [p .sof, j.down a, p .eof] default (Lex.sofTok :: (seg ++ [eofT (b - a)])) =
        some (eofT (b - a), []) := by
  -- peel `SOF`, `mid`, `EOF`
  rw [checkAll_cons] at hm
  obtain ⟨l1, ts1, h1, hm⟩ := hm
  rw [check_tok] at h1
  obtain ⟨t0, e0, _, _⟩ := h1
  simp only [List.cons.injEq] at e0
  obtain ⟨_, rfl⟩ := e0
  rw [checkAll_append] at hm
  obtain ⟨l2, ts2, hmid, hend⟩ := hm
  rw [checkAll_cons] at hend
  obtain ⟨l3, ts3, h3, hnil⟩ := hend
  rw [checkAll_nil] at hnil
  rw [check_tok] at h3
  obtain ⟨e, rfl, hce, _⟩ := h3
  cases hnil
  -- descend to `i`, then to `j`
  obtain ⟨pre, y, li, li', tsi, resti, e1, e2, hci⟩ := checkAll_mem fl mid i l1 l2 _ _ hi hmid
  obtain ⟨pre2, y2, lj, lj', tsj, restj, e3, e4, hcj⟩ := check_sub fl hs li li' tsi resti hci
  obtain ⟨seg, e5, hret⟩ := check_retarget fl j lj lj' tsj restj hsol hcj
  have hpost : restj ≠ [] := by rw [e4, e2]; simp
  -- the segment is not empty, and `loc` is its span
  have hcj0 := hret [] (.inr (by intro t tl h; cases h))
  rw [List.append_nil] at hcj0
  obtain ⟨pre', ep, _, hlast⟩ := check_spans fl j lj lj' seg [] hcj0
  rw [List.append_nil] at ep; subst ep
  subst hj
  rw [check_node] at hcj0
  obtain ⟨f, tl, rfl, _, hloc⟩ := hcj0
  have hnl : fl.noLocation = false := by
    unfold locOf at hloc; split at hloc
    · cases hloc
    · rename_i h; simpa using h
  have hab : a = f.start ∧ b = lj'.stop := by
    unfold locOf at hloc; rw [if_neg (by simp [hnl])] at hloc
    simpa using hloc
  obtain ⟨rfl, rfl⟩ := hab
  rw [lastOf_cons_getLast] at hlast
  -- the slice lemma
  have hb : body = (pre ++ pre2) ++ (f :: tl) ++ restj := by rw [e1, e3, e5]; simp
  rw [hb] at ht
  obtain ⟨hle1, hle2, hsl⟩ := Tiles.slice (pre ++ pre2) f tl restj hpost ht
  rw [← hlast] at hle1 hle2 hsl
  refine ⟨hle1, hle2, hnl, (f :: tl).map (Tok.down f.start), hsl, ?_⟩
  -- the match on the slice
  have hc1 := hret [eofT lj'.stop] (.inr (by intro t tl h; cases h; rfl))
  have hc2 := check_last_indep fl _ _ _ _ _ hsol hc1 Lex.sofTok
  rw [if_neg (by simp)] at hc2
  have hc3 := check_down fl f.start _ _ _ _ _ hc2
  have hsof : Lex.sofTok.down f.start = Lex.sofTok := by simp [Tok.down, Lex.sofTok]
  rw [hsof, List.map_append] at hc3
  have he : List.map (Tok.down f.start) [eofT lj'.stop] = [eofT (lj'.stop - f.start)] := rfl
  rw [he] at hc3
  rw [checkAll_cons]
  refine ⟨Lex.sofTok, _, by rw [check_tok]; exact ⟨_, rfl, rfl, rfl⟩, ?_⟩
  rw [checkAll_cons]
  refine ⟨_, _, hc3, ?_⟩
  rw [checkAll_cons]
  refine ⟨eofT (lj'.stop - f.start), [], by rw [check_tok]; exact ⟨_, rfl, rfl, rfl⟩, ?_⟩
  rw [checkAll_nil]

end PyGql.Spec

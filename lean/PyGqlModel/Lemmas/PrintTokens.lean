/-
  The printed form of a tree lexes to the canonical yield of the tree (`Spec/Grammar.lean`): types and values.
-/
import PyGqlModel.Print
import PyGqlModel.Lemmas.PrintLex
import PyGqlModel.Lemmas.PrintMatch
namespace PyGql.PrintTokens
open PyGql PyGql.Ast PyGql.Parse PyGql.Spec PyGql.Print PyGql.PrintLex PyGql.PrintMatch PyGql.PrintString

/-! ### types -/

/-- every name of the type is a `Name` lexeme -/
def lexOkType : TypeRef → Bool
  | .named t => Spec.Lexical.isName t.name.value
  | .list t _ => lexOkType t
  | .nonNull t _ => lexOkType t

/-- the tree carries no positions (what `no_location=True` produces) -/
def noLocType : TypeRef → Bool
  | .named t => t.loc.isNone && t.name.loc.isNone
  | .list t loc => loc.isNone && noLocType t
  | .nonNull t loc => loc.isNone && noLocType t

theorem yieldType_ne_nil (t : TypeRef) : (typeV t).yield ≠ [] := by
  cases t with
  | named t => simp [typeV, namedTypeV, nameV, Item.yield, Item.yieldAll]
  | list t loc => simp [typeV, Item.yield, Item.yieldAll]
  | nonNull t loc =>
    simp only [typeV, Item.yield, Item.yieldAll]
    intro h
    simp at h

theorem plain_typeV (t : TypeRef) (h : noLocType t = true) : plain (typeV t) = true := by
  induction t with
  | named t =>
    simp [noLocType] at h
    simp [typeV, namedTypeV, nameV, plain, plainAll, Item.yieldAll, Item.yield, h.1, h.2]
  | list t loc ih =>
    simp [noLocType] at h
    simp [typeV, plain, plainAll, Item.yieldAll, Item.yield, h.1, ih h.2]
  | nonNull t loc ih =>
    simp [noLocType] at h
    have := yieldType_ne_nil t
    simp [typeV, plain, plainAll, Item.yieldAll, Item.yield, h.1, ih h.2]

theorem lexesTo_type (t : TypeRef) (hl : lexOkType t = true) :
    ∀ (r : Text) (cs : List TokClass), Safe r → LexesTo r cs → LexesTo (printType t ++ r) ((typeV t).yield ++ cs) := by
  induction t with
  | named t =>
    intro r cs hr h
    simp only [lexOkType] at hl
    simpa [printType, printNamedType, typeV, namedTypeV, nameV, Item.yield, Item.yieldAll] using lexesTo_name hl hr h
  | list t loc ih =>
    intro r cs hr h
    simp only [lexOkType] at hl
    have h1 := ih hl (93 :: r) ((.bracketR, []) :: cs) (safe_cons (by decide)) (lexesTo_bracketR h)
    have h2 := lexesTo_bracketL h1
    simpa [printType, typeV, Item.yield, Item.yieldAll] using h2
  | nonNull t loc ih =>
    intro r cs hr h
    simp only [lexOkType] at hl
    have h1 := ih hl (33 :: r) ((.bang, []) :: cs) (safe_cons (by decide)) (lexesTo_bang h)
    simpa [printType, typeV, Item.yield, Item.yieldAll] using h1


/-! ### values -/

mutual
/-- every leaf of the value is a lexeme of its class: names / enum values are `Name` lexemes, integers `IntValue`
    lexemes (specification recognisers), floats and block strings behave as one token (`FloatLexeme`, `BlockLexeme`);
    quoted strings are unrestricted -/
def lexOkValue (ind : Text) : Value → Prop
  | .var v => Spec.Lexical.isName v.name.value = true
  | .int w _ => Spec.Lexical.isIntValue w = true
  | .float w _ => FloatLexeme w
  | .string s => s.block = true → BlockLexeme ind s.value
  | .boolean _ _ => True
  | .null _ => True
  | .enum w _ => Spec.Lexical.isName w = true
  | .list vs _ => lexOkValues ind vs
  | .object fs _ => lexOkFields ind fs
def lexOkValues (ind : Text) : List Value → Prop
  | [] => True
  | v :: vs => lexOkValue ind v ∧ lexOkValues ind vs
def lexOkField (ind : Text) : ObjectField → Prop
  | .mk name value _ => Spec.Lexical.isName name.value = true ∧ lexOkValue ind value
def lexOkFields (ind : Text) : List ObjectField → Prop
  | [] => True
  | f :: fs => lexOkField ind f ∧ lexOkFields ind fs
end

mutual
/-- no positions anywhere in the value -/
def noLocValue : Value → Bool
  | .var v => v.loc.isNone && v.name.loc.isNone
  | .int _ loc => loc.isNone
  | .float _ loc => loc.isNone
  | .string s => s.loc.isNone
  | .boolean _ loc => loc.isNone
  | .null loc => loc.isNone
  | .enum _ loc => loc.isNone
  | .list vs loc => loc.isNone && noLocValues vs
  | .object fs loc => loc.isNone && noLocFields fs
def noLocValues : List Value → Bool
  | [] => true
  | v :: vs => noLocValue v && noLocValues vs
def noLocField : ObjectField → Bool
  | .mk name value loc => loc.isNone && name.loc.isNone && noLocValue value
def noLocFields : List ObjectField → Bool
  | [] => true
  | f :: fs => noLocField f && noLocFields fs
end

theorem isName_ne_nil {w : Text} (h : Spec.Lexical.isName w = true) : w ≠ [] := by
  intro e; subst e; simp [Spec.Lexical.isName] at h

theorem printValue_ne_nil (c : Cfg) (v : Value) (h : lexOkValue c.indent v) : printValue c v ≠ [] := by
  cases v with
  | var v => simp [printValue, printVariable]
  | int w loc =>
    simp only [lexOkValue] at h
    simp only [printValue]
    intro e; subst e
    simp [Spec.Lexical.isIntValue, Spec.Lexical.isIntegerPart, Spec.Lexical.stripNegativeSign] at h
  | float w loc => simp only [lexOkValue] at h; exact h.1
  | string s =>
    simp only [printValue, printStringValue]
    split
    · exact blockString_ne_nil _ _ _
    · simp [jsonDumps]
  | boolean b loc => cases b <;> simp [printValue, K.true_, K.false_]
  | null loc => simp [printValue, K.null_]
  | enum w loc => simp only [lexOkValue] at h; exact isName_ne_nil h
  | list vs loc => simp [printValue]
  | object fs loc => simp [printValue]

theorem join_eq_joinSep (xs : List Text) (sep : Text) (h : ∀ x ∈ xs, x ≠ []) : join xs sep = joinSep sep xs := by
  unfold join
  congr 1
  rw [List.filter_eq_self]
  intro x hx
  have := h x hx
  cases x with
  | nil => exact absurd rfl this
  | cons a b => rfl

theorem printValues_ne (c : Cfg) : ∀ (vs : List Value), lexOkValues c.indent vs → ∀ x ∈ printValues c vs, x ≠ []
  | [], _, x, hx => by simp [printValues] at hx
  | v :: vs, h, x, hx => by
    simp only [lexOkValues] at h
    simp only [printValues, List.mem_cons] at hx
    rcases hx with rfl | hx
    · exact printValue_ne_nil c v h.1
    · exact printValues_ne c vs h.2 x hx

theorem printObjectFields_ne (c : Cfg) : ∀ (fs : List ObjectField), ∀ x ∈ printObjectFields c fs, x ≠ []
  | [], x, hx => by simp [printObjectFields] at hx
  | (.mk name value loc) :: fs, x, hx => by
    simp only [printObjectFields, List.mem_cons] at hx
    rcases hx with rfl | hx
    · simp [printObjectField]
    · exact printObjectFields_ne c fs x hx

private theorem isName_true : Spec.Lexical.isName K.true_ = true := by decide
private theorem isName_false : Spec.Lexical.isName K.false_ = true := by decide
private theorem isName_null : Spec.Lexical.isName K.null_ = true := by decide

mutual
theorem lexesTo_value (c : Cfg) : ∀ (v : Value), lexOkValue c.indent v → ∀ (r : Text) (cs : List TokClass),
    Safe r → LexesTo r cs → LexesTo (printValue c v ++ r) ((valueV v).yield ++ cs)
  | .var v, h, r, cs, hr, hl => by
    simp only [lexOkValue] at h
    have h1 := lexesTo_dollar (lexesTo_name h hr hl)
    simpa [printValue, printVariable, valueV, variableV, nameV, Item.yield, Item.yieldAll] using h1
  | .int w loc, h, r, cs, hr, hl => by
    simp only [lexOkValue] at h
    simpa [printValue, valueV, Item.yield, Item.yieldAll] using lexesTo_int h hr hl
  | .float w loc, h, r, cs, hr, hl => by
    simp only [lexOkValue] at h
    simpa [printValue, valueV, Item.yield, Item.yieldAll] using lexesTo_float h hr hl
  | .string s, h, r, cs, hr, hl => by
    simp only [lexOkValue] at h
    cases hb : s.block with
    | true =>
      simpa [printValue, printStringValue, valueV, stringV, Item.yield, Item.yieldAll, hb] using lexesTo_block (h hb) hr hl
    | false =>
      simpa [printValue, printStringValue, valueV, stringV, Item.yield, Item.yieldAll, hb] using
        lexesTo_string (v := s.value) hr hl
  | .boolean b loc, _, r, cs, hr, hl => by
    cases b
    · simpa [printValue, valueV, kw, Item.yield, Item.yieldAll] using lexesTo_name isName_false hr hl
    · simpa [printValue, valueV, kw, Item.yield, Item.yieldAll] using lexesTo_name isName_true hr hl
  | .null loc, _, r, cs, hr, hl => by
    simpa [printValue, valueV, kw, Item.yield, Item.yieldAll] using lexesTo_name isName_null hr hl
  | .enum w loc, h, r, cs, hr, hl => by
    simp only [lexOkValue] at h
    simpa [printValue, valueV, Item.yield, Item.yieldAll] using lexesTo_name h hr hl
  | .list vs loc, h, r, cs, _, hl => by
    simp only [lexOkValue] at h
    have h1 := lexesTo_values c vs h (93 :: r) ((.bracketR, []) :: cs) (safe_cons (by decide)) (lexesTo_bracketR hl)
    have h2 := lexesTo_bracketL h1
    simpa [printValue, valueV, Item.yield, Item.yieldAll, yieldAll_append, join_eq_joinSep _ _ (printValues_ne c vs h)]
      using h2
  | .object fs loc, h, r, cs, _, hl => by
    simp only [lexOkValue] at h
    have h1 := lexesTo_fields c fs h (125 :: r) ((.curlyR, []) :: cs) (safe_cons (by decide)) (lexesTo_curlyR hl)
    have h2 := lexesTo_curlyL h1
    simpa [printValue, valueV, Item.yield, Item.yieldAll, yieldAll_append, join_eq_joinSep _ _ (printObjectFields_ne c fs)]
      using h2
theorem lexesTo_values (c : Cfg) : ∀ (vs : List Value), lexOkValues c.indent vs → ∀ (r : Text) (cs : List TokClass),
    Safe r → LexesTo r cs → LexesTo (joinSep [44, 32] (printValues c vs) ++ r) (Item.yieldAll (valuesV vs) ++ cs)
  | [], _, r, cs, _, hl => by simpa [printValues, joinSep, valuesV, Item.yieldAll] using hl
  | [v], h, r, cs, hr, hl => by
    simp only [lexOkValues] at h
    simpa [printValues, joinSep, valuesV, Item.yieldAll] using lexesTo_value c v h.1 r cs hr hl
  | v :: v' :: vs, h, r, cs, hr, hl => by
    simp only [lexOkValues] at h
    have ih := lexesTo_values c (v' :: vs) (by simp only [lexOkValues]; exact h.2) r cs hr hl
    have h1 := lexesTo_value c v h.1 _ _ (safe_cons (c := 44) (by decide)) (lexesTo_comma (lexesTo_space ih))
    simpa [printValues, joinSep, valuesV, Item.yieldAll] using h1
theorem lexesTo_field (c : Cfg) : ∀ (f : ObjectField), lexOkField c.indent f → ∀ (r : Text) (cs : List TokClass),
    Safe r → LexesTo r cs → LexesTo (printObjectField c f ++ r) ((objectFieldV f).yield ++ cs)
  | .mk name value loc, h, r, cs, hr, hl => by
    simp only [lexOkField] at h
    have h1 := lexesTo_value c value h.2 r cs hr hl
    have h2 := lexesTo_name h.1 (safe_cons (c := 58) (by decide)) (lexesTo_colon (lexesTo_space h1))
    simpa [printObjectField, objectFieldV, nameV, Item.yield, Item.yieldAll] using h2
theorem lexesTo_fields (c : Cfg) : ∀ (fs : List ObjectField), lexOkFields c.indent fs → ∀ (r : Text) (cs : List TokClass),
    Safe r → LexesTo r cs → LexesTo (joinSep [44, 32] (printObjectFields c fs) ++ r) (Item.yieldAll (fieldsV fs) ++ cs)
  | [], _, r, cs, _, hl => by simpa [printObjectFields, joinSep, fieldsV, Item.yieldAll] using hl
  | [f], h, r, cs, hr, hl => by
    simp only [lexOkFields] at h
    simpa [printObjectFields, joinSep, fieldsV, Item.yieldAll] using lexesTo_field c f h.1 r cs hr hl
  | f :: f' :: fs, h, r, cs, hr, hl => by
    simp only [lexOkFields] at h
    have ih := lexesTo_fields c (f' :: fs) (by simp only [lexOkFields]; exact h.2) r cs hr hl
    have h1 := lexesTo_field c f h.1 _ _ (safe_cons (c := 44) (by decide)) (lexesTo_comma (lexesTo_space ih))
    simpa [printObjectFields, joinSep, fieldsV, Item.yieldAll] using h1
end


theorem yieldValue_ne_nil (v : Value) : (valueV v).yield ≠ [] := by
  cases v <;> simp [valueV, variableV, stringV, Item.yield, Item.yieldAll]

mutual
theorem plain_valueV : ∀ (v : Value), noLocValue v = true → plain (valueV v) = true
  | .var v, h => by
    simp [noLocValue] at h
    simp [valueV, variableV, nameV, plain, plainAll, Item.yieldAll, Item.yield, h.1, h.2]
  | .int w loc, h => by simp [noLocValue] at h; simp [valueV, plain, plainAll, Item.yieldAll, Item.yield, h]
  | .float w loc, h => by simp [noLocValue] at h; simp [valueV, plain, plainAll, Item.yieldAll, Item.yield, h]
  | .string s, h => by simp [noLocValue] at h; simp [valueV, stringV, plain, plainAll, Item.yieldAll, Item.yield, h]
  | .boolean b loc, h => by simp [noLocValue] at h; simp [valueV, plain, plainAll, Item.yieldAll, Item.yield, h]
  | .null loc, h => by simp [noLocValue] at h; simp [valueV, plain, plainAll, Item.yieldAll, Item.yield, h]
  | .enum w loc, h => by simp [noLocValue] at h; simp [valueV, plain, plainAll, Item.yieldAll, Item.yield, h]
  | .list vs loc, h => by
    simp [noLocValue] at h
    have := plainAll_valuesV vs h.2
    simp [valueV, plain, plainAll, plainAll_append, Item.yieldAll, Item.yield, h.1, this]
  | .object fs loc, h => by
    simp [noLocValue] at h
    have := plainAll_fieldsV fs h.2
    simp [valueV, plain, plainAll, plainAll_append, Item.yieldAll, Item.yield, h.1, this]
theorem plainAll_valuesV : ∀ (vs : List Value), noLocValues vs = true → plainAll (valuesV vs) = true
  | [], _ => by simp [valuesV, plainAll]
  | v :: vs, h => by
    simp [noLocValues] at h
    simp [valuesV, plainAll, plain_valueV v h.1, plainAll_valuesV vs h.2]
theorem plain_objectFieldV : ∀ (f : ObjectField), noLocField f = true → plain (objectFieldV f) = true
  | .mk name value loc, h => by
    simp [noLocField] at h
    simp [objectFieldV, nameV, plain, plainAll, Item.yieldAll, Item.yield, h.1.1, h.1.2, plain_valueV value h.2]
theorem plainAll_fieldsV : ∀ (fs : List ObjectField), noLocFields fs = true → plainAll (fieldsV fs) = true
  | [], _ => by simp [fieldsV, plainAll]
  | f :: fs, h => by
    simp [noLocFields] at h
    simp [fieldsV, plainAll, plain_objectFieldV f h.1, plainAll_fieldsV fs h.2]
end

end PyGql.PrintTokens

/-
  The printed form of a tree lexes to the canonical yield of the tree (`Spec/Grammar.lean`): types and values.
-/
import PyGqlModel.Print
import PyGqlModel.Lemmas.PrintLex
import PyGqlModel.Lemmas.PrintMatch
namespace PyGql.PrintTokens
open PyGql PyGql.Ast PyGql.Parse PyGql.Spec PyGql.Print PyGql.PrintLex PyGql.PrintMatch PyGql.PrintString

/-! ### types -/

/-- every name of the type is a `Name` lexeme -/
def lexOkType : TypeRef → Bool
  | .named t => Spec.Lexical.isName t.name.value
  | .list t _ => lexOkType t
  | .nonNull t _ => lexOkType t

/-- the tree carries no positions (what `no_location=True` produces) -/
def noLocType : TypeRef → Bool
  | .named t => t.loc.isNone && t.name.loc.isNone
  | .list t loc => loc.isNone && noLocType t
  | .nonNull t loc => loc.isNone && noLocType t

theorem yieldType_ne_nil (t : TypeRef) : (typeV t).yield ≠ [] := by
  cases t with
  | named t => simp [typeV, namedTypeV, nameV, Item.yield, Item.yieldAll]
  | list t loc => simp [typeV, Item.yield, Item.yieldAll]
  | nonNull t loc =>
    simp only [typeV, Item.yield, Item.yieldAll]
    intro h
    simp at h

theorem plain_typeV (t : TypeRef) (h : noLocType t = true) : plain (typeV t) = true := by
  induction t with
  | named t =>
    simp [noLocType] at h
    simp [typeV, namedTypeV, nameV, plain, plainAll, Item.yieldAll, Item.yield, h.1, h.2]
  | list t loc ih =>
    simp [noLocType] at h
    simp [typeV, plain, plainAll, Item.yieldAll, Item.yield, h.1, ih h.2]
  | nonNull t loc ih =>
    simp [noLocType] at h
    have := yieldType_ne_nil t
    simp [typeV, plain, plainAll, Item.yieldAll, Item.yield, h.1, ih h.2]

theorem lexesTo_type (t : TypeRef) (hl : lexOkType t = true) :
    ∀ (r : Text) (cs : List TokClass), Safe r → LexesTo r cs → LexesTo (printType t ++ r) ((typeV t).yield ++ cs) := by
  induction t with
  | named t =>
    intro r cs hr h
    simp only [lexOkType] at hl
    simpa [printType, printNamedType, typeV, namedTypeV, nameV, Item.yield, Item.yieldAll] using lexesTo_name hl hr h
  | list t loc ih =>
    intro r cs hr h
    simp only [lexOkType] at hl
    have h1 := ih hl (93 :: r) ((.bracketR, []) :: cs) (safe_cons (by decide)) (lexesTo_bracketR h)
    have h2 := lexesTo_bracketL h1
    simpa [printType, typeV, Item.yield, Item.yieldAll] using h2
  | nonNull t loc ih =>
    intro r cs hr h
    simp only [lexOkType] at hl
    have h1 := ih hl (33 :: r) ((.bang, []) :: cs) (safe_cons (by decide)) (lexesTo_bang h)
    simpa [printType, typeV, Item.yield, Item.yieldAll] using h1

end PyGql.PrintTokens

/-
  C04/C05 helper lemmas — where a travelling `ResolverError` (`Fail.raised`) can come from.
  * `_skip_selection` fails only with the `CoercionError` of a directive condition;
  * `collect_fields` itself never yields `raised` (the conversion happens in `ResolutionContext.collect_fields`,
    `Exec.catchDirective`);
  * `resolve_field` catches every `raised`, hence neither it nor the field loop lets one through;
  * `execute_fields` yields `raised` only for its OWN selection set's directive failure: nothing was recorded yet.
-/
import PyGqlModel.Exec

set_option linter.unusedSimpArgs false
set_option linter.unusedVariables false

namespace PyGql.Lemmas.C04Raise
open PyGql PyGql.Exec

/-- the ONLY failure of a directive lookup is the `CoercionError` of a non-Boolean `if:` value (a list literal, a
    variable bound to `null`, an undefined variable) -/
theorem dirIf_err (vars : Vars) (dirs : List Dir) (name : String) (e : Fail) (h : dirIf vars dirs name = .error e) :
    e = .internal "CoercionError" := by
  unfold dirIf at h
  cases hf : dirs.find? (·.name == name) with
  | none => simp [hf] at h
  | some d =>
    simp only [hf] at h
    cases hc : d.cond with
    | lit b => simp [hc] at h
    | bad => simp [hc] at h; exact h.symm
    | var v =>
      simp only [hc] at h
      cases hv : vars.get? v with
      | none => simp [hv] at h; exact h.symm
      | some j => cases j <;> simp [hv] at h <;> exact h.symm

theorem skipSelection_err (vars : Vars) (dirs : List Dir) (e : Fail) (h : skipSelection vars dirs = .error e) :
    e = .internal "CoercionError" := by
  simp only [skipSelection, bind, Except.bind, pure, Except.pure] at h
  cases ha : dirIf vars dirs "skip" with
  | error x => simp [ha] at h; subst h; exact dirIf_err _ _ _ _ ha
  | ok a =>
    simp only [ha] at h
    cases hb : dirIf vars dirs "include" with
    | error x => simp [hb] at h; subst h; exact dirIf_err _ _ _ _ hb
    | ok b => simp [hb] at h

theorem fragmentTypeApplies_err (s : SchemaD) (obj : String) (on : Option String) (e : Fail)
    (h : fragmentTypeApplies s obj on = .error e) : e = .internal "UnknownType" := by
  unfold fragmentTypeApplies at h
  cases on with
  | none => simp at h
  | some c =>
    simp only at h
    cases hk : kindOf s c with
    | none => simp [hk] at h; exact h.symm
    | some k => simp [hk] at h

def NotRaised {α} (r : R α) : Prop := ∀ k l i, r ≠ .error (.raised k l i)

private theorem nr_err_internal {α} {e : Fail} {c : String} (h : e = .internal c) : NotRaised (Except.error e : R α) := by
  subst h; intro k l i hh; simp at hh

theorem collectStep_notRaised (s : SchemaD) (doc : Doc) (vars : Vars)
    (rec : String → List Sel → List String → R (Grouped × List String))
    (hrec : ∀ obj sels seen, NotRaised (rec obj sels seen)) (obj : String) :
    ∀ (sels : List Sel) (seen : List String) (g : Grouped), NotRaised (collectStep s doc vars rec obj sels seen g) := by
  intro sels
  induction sels with
  | nil => intro seen g k l i h; simp [collectStep] at h
  | cons sel rest ih =>
    intro seen g
    cases sel with
    | field key name loc dirs args hs sub =>
      rcases hb : skipSelection vars dirs with e | b
      · simp only [collectStep, hb, bind, Except.bind]
        exact nr_err_internal (skipSelection_err _ _ _ hb)
      simp only [collectStep, hb, bind, Except.bind]
      cases b with
      | true => simpa using ih seen g
      | false => simpa using ih seen _
    | inline on dirs sub =>
      rcases hb : skipSelection vars dirs with e | b
      · simp only [collectStep, hb, bind, Except.bind, pure, Except.pure]
        exact nr_err_internal (skipSelection_err _ _ _ hb)
      simp only [collectStep, hb, bind, Except.bind, pure, Except.pure]
      cases b with
      | true => simpa using ih seen g
      | false =>
        simp only [Bool.false_eq_true, if_false]
        rcases ha : fragmentTypeApplies s obj on with e | a
        · simp only []
          exact nr_err_internal (fragmentTypeApplies_err _ _ _ _ ha)
        simp only []
        cases a with
        | false => simpa using ih seen g
        | true =>
          simp only [Bool.not_true, Bool.false_eq_true, if_false]
          cases hr : rec obj sub seen with
          | error e =>
            intro k l i h
            simp at h
            exact hrec obj sub seen k l i (by rw [hr, h])
          | ok p => simpa using ih _ _
    | spread name dirs =>
      cases hfr : doc.fragment? name with
      | none => intro k l i h; simp [collectStep, hfr] at h
      | some fr =>
        rcases hb : skipSelection vars dirs with e | b
        · simp only [collectStep, hfr, hb, bind, Except.bind, pure, Except.pure]
          exact nr_err_internal (skipSelection_err _ _ _ hb)
        simp only [collectStep, hfr, hb, bind, Except.bind, pure, Except.pure]
        cases b with
        | true => simpa using ih seen g
        | false =>
          simp only [Bool.false_eq_true, if_false]
          by_cases hseen : seen.contains name
          · simp only [hseen, if_true]; simpa using ih seen g
          · simp only [hseen, Bool.false_eq_true, if_false]
            rcases ha : fragmentTypeApplies s obj (some fr.on) with e | a
            · simp only []
              exact nr_err_internal (fragmentTypeApplies_err _ _ _ _ ha)
            simp only []
            cases a with
            | false => simpa using ih seen g
            | true =>
              simp only [Bool.not_true, Bool.false_eq_true, if_false]
              cases hr : rec obj fr.sels seen with
              | error e =>
                intro k l i h
                simp at h
                exact hrec obj fr.sels seen k l i (by rw [hr, h])
              | ok p => simpa using ih _ _

/-- `collect_fields` itself never yields a `ResolverError` -/
theorem collectFields_notRaised (s : SchemaD) (doc : Doc) (vars : Vars) :
    ∀ (fuel : Nat) (obj : String) (sels : List Sel) (seen : List String), NotRaised (collectFields s doc vars fuel obj sels seen) := by
  intro fuel
  induction fuel with
  | zero => intro obj sels seen k l i h; simp [collectFields] at h
  | succ n ih =>
    intro obj sels seen
    simp only [collectFields]
    exact collectStep_notRaised s doc vars _ ih obj sels seen []

/-- `resolve_field` catches every `ResolverError` -/
theorem resolveField_notRaised (s : SchemaD) (w : World) (execSub : String → Path → List Sel → R (Data × List Err))
    (parent : String) (path : Path) (nodes : List FNode) (fd : FieldD) :
    NotRaised (resolveField s w execSub parent path nodes fd) := by
  intro k l i
  cases nodes with
  | nil => simp [resolveField]
  | cons node more =>
    simp only [resolveField]
    split
    · simp
    · simp
    · split
      · simp
      · simp
      · exact catchField_ne_raised _ _ _ _ _ _

theorem executeGroups_notRaised (s : SchemaD) (w : World) (execSub : String → Path → List Sel → R (Data × List Err))
    (parent : String) (path : Path) : ∀ g : Grouped, NotRaised (executeGroups s w execSub parent path g) := by
  intro g
  induction g with
  | nil => intro k l i; simp [executeGroups]
  | cons kv rest ih =>
    intro k l i h
    obtain ⟨key, nodes⟩ := kv
    cases nodes with
    | nil => simp [executeGroups] at h
    | cons node more =>
      simp only [executeGroups] at h
      by_cases hm : isMeta node.name
      · simp only [hm, if_true] at h
        by_cases ht : node.name = "__typename"
        · simp only [ht, beq_self_eq_true, if_true, bind, Except.bind, pure, Except.pure] at h
          cases hr : executeGroups s w execSub parent path rest with
          | error e => simp [hr] at h; exact ih k l i (by rw [hr, h])
          | ok p => simp [hr] at h
        · have : (node.name == "__typename") = false := by simpa using ht
          simp only [this, Bool.false_eq_true, if_false] at h
          split at h <;> simp at h
      · simp only [hm, Bool.false_eq_true, if_false] at h
        cases hf : fieldOf s parent node.name with
        | none => simp only [hf] at h; exact ih k l i h
        | some fd =>
          simp only [hf, bind, Except.bind, pure, Except.pure] at h
          cases hr1 : resolveField s w execSub parent (path ++ [Seg.key key]) (node :: more) fd with
          | error e => simp [hr1] at h; exact resolveField_notRaised s w execSub parent _ _ fd k l i (by rw [hr1, h])
          | ok pd =>
            simp only [hr1] at h
            cases hr : executeGroups s w execSub parent path rest with
            | error e => simp [hr] at h; exact ih k l i (by rw [hr, h])
            | ok p => simp [hr] at h

/-- `execute_fields` yields a `ResolverError` only when its own selection set cannot be collected (a directive
    condition that cannot be evaluated): no field of it has run, nothing is recorded, the error has no field location -/
theorem executeFields_raised (s : SchemaD) (doc : Doc) (vars : Vars) (w : World) (cf fuel : Nat) (parent : String) (path : Path)
    (sels : List Sel) (k : ErrKind) (l : Option (List Nat)) (inner : List Err)
    (h : executeFields s doc vars w cf fuel parent path sels = .error (.raised k l inner)) :
    k = .directive ∧ l = some [] ∧ inner = [] ∧ collectFields s doc vars cf parent sels [] = .error (.internal "CoercionError") := by
  cases fuel with
  | zero => simp [executeFields] at h
  | succ n =>
    simp only [executeFields, bind, Except.bind, pure, Except.pure] at h
    cases h1 : collectFields s doc vars cf parent sels [] with
    | error e =>
      simp [h1] at h
      cases e with
      | internal c =>
        rw [Fail.directive_internal] at h
        split at h
        · rename_i hc; subst hc; simp at h; exact ⟨h.1.symm, h.2.1.symm, h.2.2, rfl⟩
        · simp at h
      | outOfFuel => simp at h
      | unsupported => simp at h
      | raised k' l' i' => exact absurd h1 (collectFields_notRaised s doc vars cf parent sels [] k' l' i')
    | ok p1 =>
      simp only [h1, catchDirective_ok] at h
      cases h2 : executeGroups s w (executeFields s doc vars w cf n) parent path p1.1 with
      | error e => simp [h2] at h; exact absurd (by rw [h2, h]) (executeGroups_notRaised s w _ parent path p1.1 k l inner)
      | ok p2 => simp [h2] at h

end PyGql.Lemmas.C04Raise

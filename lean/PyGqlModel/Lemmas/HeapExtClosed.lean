/-
  C14 — closedness of the part of an extension result that comes from the source: `extend_type_full` once more, now naming the
  registry the rebuilt references were resolved through (it IS the `types` of the result) and the rebuilt reference lists.
-/
import PyGqlModel.Lemmas.HeapExtFull

set_option linter.unusedSimpArgs false
set_option linter.unusedVariables false

namespace PyGql.Heap.Own
open PyGql.Heap

theorem repoint_base (N : List (String × Addr)) (t : TRef) :
    (repoint N t).base = ⟨t.base.name, (lookup N t.base.name).getD t.base.addr⟩ := by
  induction t with
  | named r => simp [repoint, TRef.base]
  | list t ih => simpa [repoint, TRef.base] using ih
  | nonNull t ih => simpa [repoint, TRef.base] using ih

/-- a re-pointed reference whose name is registered IS the registered object -/
theorem refOK_repoint (N : List (String × Addr)) (t : TRef) (hs : (lookup N t.base.name).isSome = true) :
    refOK N (repoint N t).base = true := by
  rw [repoint_base]
  obtain ⟨a, ha⟩ := Option.isSome_iff_exists.mp hs
  simp [refOK, ha]

theorem refOK_repointRefs (N : List (String × Addr)) (rs : List Ref) (hs : ∀ r, r ∈ rs → (lookup N r.name).isSome = true) :
    ∀ r, r ∈ repointRefs N rs → refOK N r = true := by
  intro r hr
  simp only [repointRefs, List.mem_map] at hr
  obtain ⟨r0, hr0, rfl⟩ := hr
  obtain ⟨a, ha⟩ := Option.isSome_iff_exists.mp (hs r0 hr0)
  simp [refOK, ha]

/-- `extend_type_full` with the registry named: `N` is the `types` of the result; the rebuilt object's interfaces / union members
    are the re-pointed source lists (+ the members the extension adds) -/
theorem extend_type_full_reg (cfg : Cfg) (hk : cfg.extKeepAll = true) (ext : Ext) (s : Schema) (h : Heap)
    (hnd : (s.types.map (·.1)).Nodup) (hnew : ∀ e, e ∈ ext.newTypes → e.1 ∉ s.types.map (·.1))
    (n : String) (a : Addr) (t : TypeO) (hm : (n, a) ∈ s.types) (hp : isProtected n = false) (ht : h.readType a = some t)
    (hread : MembersReadable h t) :
    ∃ a' t' kept added, lookup (extend cfg ext s h).2.types n = some a' ∧ (extend cfg ext s h).1.readType a' = some t' ∧
      TypeKept cfg t t' ∧ t'.fields = kept ++ added ∧
      MembersRel cfg (extend cfg ext s h).2.types h (extend cfg ext s h).1 h.size t kept ∧
      t'.ifaces = repointRefs (extend cfg ext s h).2.types t.ifaces ∧
      (∃ more, t'.members = repointRefs (extend cfg ext s h).2.types t.members ++ more) := by
  have hsrc : n ∈ (s.types.filter fun e => !isProtected e.1).map (·.1) :=
    List.mem_map.mpr ⟨(n, a), List.mem_filter.mpr ⟨hm, by simp [hp]⟩, rfl⟩
  obtain ⟨na, hna⟩ := allocPlaceholders_some ((s.types.filter fun e => !isProtected e.1).map (·.1) ++ ext.newTypes.map (·.1)) h n
    (List.mem_append.mpr (Or.inl hsrc))
  have hinj := allocPlaceholders_inj ((s.types.filter fun e => !isProtected e.1).map (·.1) ++ ext.newTypes.map (·.1)) h
  have hb := fun n x hx => allocPlaceholders_lookup ((s.types.filter fun e => !isProtected e.1).map (·.1) ++ ext.newTypes.map (·.1)) h n x hx
  have hfr0 := allocPlaceholdersX (fun x => h.size ≤ x) ((s.types.filter fun e => !isProtected e.1).map (·.1) ++ ext.newTypes.map (·.1)) h
  simp only [extend, hk, if_true]
  generalize hP : allocPlaceholders h ((s.types.filter fun e => !isProtected e.1).map (·.1) ++ ext.newTypes.map (·.1)) = p at hna hinj hb hfr0
  obtain ⟨hkk, hszk, frk, hrk, kfk⟩ := extendAll_spec2 cfg ext ((s.types.filter fun e => isProtected e.1) ++ p.2)
    (if cfg.extInputFieldExtended then (s.types.filter fun e => isProtected e.1) ++ p.2 else s.types ++ ((s.types.filter fun e => isProtected e.1) ++ p.2))
    p.2 h p.1.size hb hinj s.types p.1 (Nat.le_refl _) hfr0 hnd n a t na hm hp ht hna
  obtain ⟨kept, added, hfs, hrel, hadd⟩ := extendKids_spec cfg ext ((s.types.filter fun e => isProtected e.1) ++ p.2)
    (if cfg.extInputFieldExtended then (s.types.filter fun e => isProtected e.1) ++ p.2 else s.types ++ ((s.types.filter fun e => isProtected e.1) ++ p.2))
    h hkk t frk hread
  have ktail := extend_tail_keeps cfg ((s.types.filter fun e => isProtected e.1) ++ p.2) p.2
    (extendAll cfg ext ((s.types.filter fun e => isProtected e.1) ++ p.2)
      (if cfg.extInputFieldExtended then (s.types.filter fun e => isProtected e.1) ++ p.2 else s.types ++ ((s.types.filter fun e => isProtected e.1) ++ p.2))
      p.2 h p.1 s.types) s ext p.1.size (fun n x hx => (hb n x hx).2)
  refine ⟨na,
    rebuiltType cfg ext ((s.types.filter fun e => isProtected e.1) ++ p.2) t (extendKids cfg ext ((s.types.filter fun e => isProtected e.1) ++ p.2) (if cfg.extInputFieldExtended then (s.types.filter fun e => isProtected e.1) ++ p.2 else s.types ++ ((s.types.filter fun e => isProtected e.1) ++ p.2)) hkk t).2,
    kept, added, ?_, ?_, rebuilt_kept cfg ext _ t _, hfs, ?_, rfl, ⟨_, rfl⟩⟩
  · rw [lookup_append_right]
    · exact hna
    · intro e he
      have hpe := (List.mem_filter.mp he).2
      cases hq : (e.1 == n) with
      | false => rfl
      | true =>
        simp only [beq_iff_eq] at hq
        rw [hq, hp] at hpe
        cases hpe
  · apply (extend_tail cfg _ p.2 _ s ext na (Nat.lt_of_lt_of_le (hb n na hna).2 (Nat.le_trans hszk (Nat.le_trans (extendKidsX (fun _ => False) cfg ext _ _ hkk t).1 kfk.1))) ?_).trans hrk
    rintro ⟨e, he, hx⟩
    have := hinj e.1 n na hx hna
    exact hnew e he (this ▸ List.mem_map.mpr ⟨(n, a), hm, rfl⟩)
  · have hlo : h.size ≤ hkk.size := Nat.le_trans hfr0.1 hszk
    exact ((hrel.keep (keepsFrom_mono hszk (kfk.trans ktail)))).weaken hlo

/-- every name the source registers is registered in the result -/
theorem extend_registers_source_names (cfg : Cfg) (hk : cfg.extKeepAll = true) (ext : Ext) (s : Schema) (h : Heap)
    (hnd : (s.types.map (·.1)).Nodup) (n : String) (hn : n ∈ s.types.map (·.1)) :
    (lookup (extend cfg ext s h).2.types n).isSome = true := by
  obtain ⟨e, he, rfl⟩ := List.mem_map.mp hn
  simp only [extend, hk, if_true]
  by_cases hp : isProtected e.1 = true
  · have hndp : ((s.types.filter fun e => isProtected e.1).map (·.1)).Nodup :=
      List.Nodup.sublist (List.Sublist.map _ List.filter_sublist) hnd
    rw [lookup_append_left' (lookup_of_mem_nodup hndp (e := e) (List.mem_filter.mpr ⟨he, hp⟩))]
    rfl
  · have hp' : isProtected e.1 = false := by simpa using hp
    have hsrc : e.1 ∈ (s.types.filter fun e => !isProtected e.1).map (·.1) :=
      List.mem_map.mpr ⟨e, List.mem_filter.mpr ⟨he, by simp [hp']⟩, rfl⟩
    obtain ⟨na, hna⟩ := allocPlaceholders_some ((s.types.filter fun e => !isProtected e.1).map (·.1) ++ ext.newTypes.map (·.1)) h e.1
      (List.mem_append.mpr (Or.inl hsrc))
    rw [lookup_append_right]
    · rw [hna]; rfl
    · intro e' he'
      have hpe := (List.mem_filter.mp he').2
      cases hq : (e'.1 == e.1) with
      | false => rfl
      | true =>
        simp only [beq_iff_eq] at hq
        rw [hq, hp'] at hpe
        cases hpe

/-- `extend_dir_full` with the registry named -/
theorem extend_dir_full_reg (cfg : Cfg) (hk : cfg.extKeepAll = true) (ext : Ext) (s : Schema) (h : Heap) (hndT : (s.types.map (·.1)).Nodup) (hnd : (s.dirs.map (·.1)).Nodup)
    (hread : ∀ e, e ∈ s.dirs → ∃ d, h.readDir e.2 = some d ∧ ∀ x, x ∈ d.args → ∃ g, h.readArg x = some g)
    (e : String × Addr) (he : e ∈ s.dirs) :
    ∃ a', lookup (extend cfg ext s h).2.dirs e.1 = some a' ∧
      DirRelB cfg (extend cfg ext s h).2.types h (extend cfg ext s h).1 h.size e (e.1, a') := by
  simp only [extend, hk, if_true]
  generalize hP : allocPlaceholders h ((s.types.filter fun e => !isProtected e.1).map (·.1) ++ ext.newTypes.map (·.1)) = p
  have hfr0 : FrameX (fun x => h.size ≤ x) h p.1 := by rw [← hP]; exact allocPlaceholdersX _ _ h
  have hb : ∀ n x, lookup p.2 n = some x → h.size ≤ x ∧ x < p.1.size := by
    rw [← hP]; exact fun n x hx => allocPlaceholders_lookup _ h n x hx
  have hinj : ∀ n n' x, lookup p.2 n = some x → lookup p.2 n' = some x → n = n' := by
    rw [← hP]; exact allocPlaceholders_inj _ h
  -- the heap in which the directives are rebuilt: only placeholders (≥ h.size) were written so far
  have f1 := (extendAll_spec cfg ext ((s.types.filter fun e => isProtected e.1) ++ p.2)
    (if cfg.extInputFieldExtended then (s.types.filter fun e => isProtected e.1) ++ p.2 else s.types ++ ((s.types.filter fun e => isProtected e.1) ++ p.2))
    p.2 h hinj s.types p.1 (fun n x hx => (hb n x hx).2) hndT).1
  have f2 := buildNewTypesX ((s.types.filter fun e => isProtected e.1) ++ p.2) p.2 ext.newTypes
    (extendAll cfg ext ((s.types.filter fun e => isProtected e.1) ++ p.2)
      (if cfg.extInputFieldExtended then (s.types.filter fun e => isProtected e.1) ++ p.2 else s.types ++ ((s.types.filter fun e => isProtected e.1) ++ p.2))
      p.2 h p.1 s.types)
  have fr2 := (hfr0.trans (f1.mono (W' := fun x => h.size ≤ x) (fun x ⟨e, _, hx⟩ => (hb e.1 x hx).1))).trans
    (f2.mono (W' := fun x => h.size ≤ x) (fun x ⟨e, _, hx⟩ => (hb e.1 x hx).1))
  have hall := extendDirs_forall2 cfg ((s.types.filter fun e => isProtected e.1) ++ p.2) s.dirs h _ fr2 hread
  have kf := keepsFrom_of_frameX (buildNewDirsX (fun x => x < (buildNewTypes ((s.types.filter fun e => isProtected e.1) ++ p.2) p.2
      (extendAll cfg ext ((s.types.filter fun e => isProtected e.1) ++ p.2)
        (if cfg.extInputFieldExtended then (s.types.filter fun e => isProtected e.1) ++ p.2 else s.types ++ ((s.types.filter fun e => isProtected e.1) ++ p.2))
        p.2 h p.1 s.types) ext.newTypes).size) cfg ((s.types.filter fun e => isProtected e.1) ++ p.2) ext.newDirs
      (extendDirs cfg ((s.types.filter fun e => isProtected e.1) ++ p.2) (buildNewTypes ((s.types.filter fun e => isProtected e.1) ++ p.2) p.2
      (extendAll cfg ext ((s.types.filter fun e => isProtected e.1) ++ p.2)
        (if cfg.extInputFieldExtended then (s.types.filter fun e => isProtected e.1) ++ p.2 else s.types ++ ((s.types.filter fun e => isProtected e.1) ++ p.2))
        p.2 h p.1 s.types) ext.newTypes) s.dirs).1)
  obtain ⟨a', hl, hr⟩ := all2_lookup (fun e e' r => r.1) hall hnd e he
  exact ⟨a', lookup_append_left' hl, (hr.keep kf).weaken fr2.1⟩


end PyGql.Heap.Own

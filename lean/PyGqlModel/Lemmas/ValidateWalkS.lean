/-
  Walk lemma for chains that MAY raise `SkipNode` below the document, provided a skip always comes with an
  error (which is the case for every rule of py-gql): the error count never decreases, and it stays
  unchanged over a sub-tree exactly when NO node of the sub-tree is "bad" (skips) or reports.
  Because a silent run never skips, every node of `Spec.nodes` is then visited.
-/
import PyGqlModel.Lemmas.ValidateWalkI
namespace PyGql.Validate
open PyGql PyGql.Validate.Spec

/-- `bad n`: entering `n` raises SkipNode (with at least one error, counted after the members that entered are left
    again - semantics of fix 391ad62); otherwise entering adds `f n` errors; leaving
    adds `g n` -/
structure SCF (c : Cfg) (bad : Node → Bool) (f g : Node → Nat) : Prop where
  skipE : ∀ n st, n.isDoc = false → bad n = true →
    (enter c n st).2 = true ∧ E st < E (leaveSkipped c n st (enter c n st).1)
  noskip : ∀ n st, n.isDoc = false → bad n = false → (enter c n st).2 = false
  enterE : ∀ n st, n.isDoc = false → bad n = false → E (enter c n st).1 = E st + f n
  leaveE : ∀ n st, n.isDoc = false → E (leave c n st) = E st + g n

/-- the node is fine: it does not skip and reports nothing -/
def okNode (bad : Node → Bool) (f g : Node → Nat) (n : Node) : Prop := bad n = false ∧ f n = 0 ∧ g n = 0

/-- errors never decrease, and none is added exactly when every listed node is fine -/
def PostS (bad : Node → Bool) (f g : Node → Nat) (ns : List Node) (st st' : St) : Prop :=
  E st ≤ E st' ∧ (E st' = E st ↔ ∀ n ∈ ns, okNode bad f g n)

variable {c : Cfg} {bad : Node → Bool} {f g : Node → Nat}

theorem PostS.nil (st : St) : PostS bad f g [] st st := ⟨Nat.le_refl _, by simp⟩

theorem PostS.append {a b : List Node} {s1 s2 s3 : St} (h1 : PostS bad f g a s1 s2) (h2 : PostS bad f g b s2 s3) :
    PostS bad f g (a ++ b) s1 s3 := by
  refine ⟨Nat.le_trans h1.1 h2.1, ?_⟩
  simp only [List.mem_append]
  constructor
  · intro e
    have e2 : E s2 = E s1 := Nat.le_antisymm (e ▸ h2.1) h1.1
    have e3 : E s3 = E s2 := by omega
    intro n hn
    rcases hn with hn | hn
    · exact (h1.2.mp e2) n hn
    · exact (h2.2.mp e3) n hn
  · intro h
    have e2 := h1.2.mpr (fun n hn => h n (Or.inl hn))
    have e3 := h2.2.mpr (fun n hn => h n (Or.inr hn))
    omega

theorem visitNodeS (h : SCF c bad f g) (n : Node) (body : St → St) (ns : List Node)
    (hb : ∀ st, PostS bad f g ns st (body st)) (st : St) (hn : n.isDoc = false) :
    PostS bad f g (n :: ns) st (visitNode c n body st) := by
  cases hbad : bad n
  · -- no skip
    have e1 := h.enterE n st hn hbad
    have e2 := h.noskip n st hn hbad
    unfold visitNode
    revert e1 e2
    generalize enter c n st = p
    obtain ⟨st1, sk⟩ := p
    intro e1 e2
    simp only at e1 e2
    subst e2
    simp only [Bool.false_eq_true, ↓reduceIte]
    obtain ⟨b1, b2⟩ := hb st1
    have el := h.leaveE n (body st1) hn
    refine ⟨by omega, ?_⟩
    simp only [List.mem_cons, forall_eq_or_imp, okNode, hbad, true_and]
    constructor
    · intro e
      have hf : f n = 0 := by omega
      have hg : g n = 0 := by omega
      exact ⟨⟨hf, hg⟩, b2.mp (by omega)⟩
    · rintro ⟨⟨hf, hg⟩, hrest⟩
      have := b2.mpr hrest
      omega
  · -- skip: at least one error, nothing below is visited
    have e1 := h.skipE n st hn hbad
    unfold visitNode
    revert e1
    generalize enter c n st = p
    obtain ⟨st1, sk⟩ := p
    intro e1
    simp only at e1
    obtain ⟨e2, e3⟩ := e1
    subst e2
    simp only [↓reduceIte]
    refine ⟨Nat.le_of_lt e3, ?_⟩
    constructor
    · intro e; omega
    · intro hall
      have := (hall n (List.mem_cons_self ..)).1
      rw [hbad] at this
      cases this

mutual
theorem visitValueS (h : SCF c bad f g) : ∀ (v : Value) (st : St), PostS bad f g (valueNodes v) st (visitValue c v st)
  | .list vs, st => by
    rw [visitValue, valueNodes]; exact visitNodeS h _ _ _ (fun st => visitValuesS h vs st) st rfl
  | .obj fs, st => by
    rw [visitValue, valueNodes]; exact visitNodeS h _ _ _ (fun st => visitObjFieldsS h fs st) st rfl
  | .var x, st => by rw [visitValue]; simp only [valueNodes]; exact visitNodeS h _ _ [] (fun st => PostS.nil st) st rfl
  | .int x, st => by rw [visitValue]; simp only [valueNodes]; exact visitNodeS h _ _ [] (fun st => PostS.nil st) st rfl
  | .float x, st => by rw [visitValue]; simp only [valueNodes]; exact visitNodeS h _ _ [] (fun st => PostS.nil st) st rfl
  | .str x, st => by rw [visitValue]; simp only [valueNodes]; exact visitNodeS h _ _ [] (fun st => PostS.nil st) st rfl
  | .bool x, st => by rw [visitValue]; simp only [valueNodes]; exact visitNodeS h _ _ [] (fun st => PostS.nil st) st rfl
  | .null, st => by rw [visitValue]; simp only [valueNodes]; exact visitNodeS h _ _ [] (fun st => PostS.nil st) st rfl
  | .enum x, st => by rw [visitValue]; simp only [valueNodes]; exact visitNodeS h _ _ [] (fun st => PostS.nil st) st rfl
theorem visitValuesS (h : SCF c bad f g) : ∀ (vs : List Value) (st : St), PostS bad f g (valuesNodes vs) st (visitValues c vs st)
  | [], st => by rw [visitValues, valuesNodes]; exact PostS.nil st
  | v :: vs, st => by
    rw [visitValues, valuesNodes]; exact (visitValueS h v st).append (visitValuesS h vs _)
theorem visitObjFieldS (h : SCF c bad f g) : ∀ (x : ObjField) (st : St), PostS bad f g (objFieldNodes x) st (visitObjField c x st)
  | .mk n v, st => by
    rw [visitObjField, objFieldNodes]; exact visitNodeS h _ _ _ (fun st => visitValueS h v st) st rfl
theorem visitObjFieldsS (h : SCF c bad f g) : ∀ (fs : List ObjField) (st : St), PostS bad f g (objFieldsNodes fs) st (visitObjFields c fs st)
  | [], st => by rw [visitObjFields, objFieldsNodes]; exact PostS.nil st
  | x :: fs, st => by
    rw [visitObjFields, objFieldsNodes]; exact (visitObjFieldS h x st).append (visitObjFieldsS h fs _)
end

theorem foldlS {α} (visit : α → St → St) (ns : α → List Node)
    (hv : ∀ a st, PostS bad f g (ns a) st (visit a st)) :
    ∀ (as : List α) (st : St), PostS bad f g (as.flatMap ns) st (as.foldl (fun st a => visit a st) st)
  | [], st => by simpa using PostS.nil st
  | a :: as, st => by
    rw [List.foldl_cons, List.flatMap_cons]; exact (hv a st).append (foldlS visit ns hv as _)

theorem visitArgumentS (h : SCF c bad f g) (a : Arg) (st : St) : PostS bad f g (argNodes a) st (visitArgument c a st) := by
  rw [visitArgument, argNodes]; exact visitNodeS h _ _ _ (fun st => visitValueS h a.value st) st rfl
theorem visitArgumentsS (h : SCF c bad f g) (as : List Arg) (st : St) : PostS bad f g (argsNodes as) st (visitArguments c as st) :=
  foldlS (visitArgument c) argNodes (visitArgumentS h) as st
theorem visitDirectiveS (h : SCF c bad f g) (d : Dir) (st : St) : PostS bad f g (dirNodes d) st (visitDirective c d st) := by
  rw [visitDirective, dirNodes]; exact visitNodeS h _ _ _ (fun st => visitArgumentsS h d.args st) st rfl
theorem visitDirectivesS (h : SCF c bad f g) (ds : List Dir) (st : St) : PostS bad f g (dirsNodes ds) st (visitDirectives c ds st) :=
  foldlS (visitDirective c) dirNodes (visitDirectiveS h) ds st

mutual
theorem visitSelS (h : SCF c bad f g) : ∀ (x : Sel) (st : St), PostS bad f g (selNodes x) st (visitSel c x st)
  | .field al name args dirs true ssid sub, st => by
    rw [visitSel, selNodes]
    refine visitNodeS h _ _ _ (fun st => ?_) st rfl
    simp only [↓reduceIte]
    exact ((visitArgumentsS h args st).append (visitDirectivesS h dirs _)).append
      (visitNodeS h (.selectionSet ssid sub) _ _ (fun st => visitSelsS h sub st) _ rfl)
  | .field al name args dirs false ssid sub, st => by
    rw [visitSel, selNodes]
    refine visitNodeS h _ _ _ (fun st => ?_) st rfl
    simp only [Bool.false_eq_true, ↓reduceIte, List.append_nil]
    exact (visitArgumentsS h args st).append (visitDirectivesS h dirs _)
  | .spread name dirs, st => by
    rw [visitSel, selNodes]; exact visitNodeS h _ _ _ (fun st => visitDirectivesS h dirs st) st rfl
  | .inline on dirs ssid sub, st => by
    rw [visitSel, selNodes]
    refine visitNodeS h _ _ _ (fun st => ?_) st rfl
    exact (visitDirectivesS h dirs st).append
      (visitNodeS h (.selectionSet ssid sub) _ _ (fun st => visitSelsS h sub st) _ rfl)
theorem visitSelsS (h : SCF c bad f g) : ∀ (xs : List Sel) (st : St), PostS bad f g (selsNodes xs) st (visitSels c xs st)
  | [], st => by rw [visitSels, selsNodes]; exact PostS.nil st
  | x :: xs, st => by rw [visitSels, selsNodes]; exact (visitSelS h x st).append (visitSelsS h xs _)
end

theorem visitVarDefS (h : SCF c bad f g) (v : VarDef) (st : St) : PostS bad f g (varDefNodes v) st (visitVarDef c v st) := by
  rw [visitVarDef, varDefNodes]
  refine visitNodeS h _ _ _ (fun st => ?_) st rfl
  have key0 : ∀ st', PostS bad f g [.typeNode v.type] st' (visitNode c (.typeNode v.type) id st') :=
    fun st' => visitNodeS h _ id [] (fun st => PostS.nil st) st' rfl
  have key : ∀ st', PostS bad f g (.typeNode v.type :: dirsNodes v.dirs) st'
      (visitDirectives c v.dirs (visitNode c (.typeNode v.type) id st')) :=
    fun st' => (key0 st').append (visitDirectivesS h v.dirs _)
  cases hd : v.default with
  | none => simpa using key st
  | some d => simp only; exact (visitValueS h d st).append (key _)

theorem visitDefS (h : SCF c bad f g) (d : Def) (st : St) : PostS bad f g (defNodes d) st (visitDef c d st) := by
  cases d with
  | op kind name vars dirs ssid sels =>
    simp only [visitDef, defNodes]
    refine visitNodeS h _ _ _ (fun st => ?_) st rfl
    exact ((foldlS (visitVarDef c) varDefNodes (visitVarDefS h) vars st).append (visitDirectivesS h dirs _)).append
      (visitNodeS h (.selectionSet ssid sels) _ _ (fun st => visitSelsS h sels st) _ rfl)
  | frag name on dirs ssid sels =>
    simp only [visitDef, defNodes]
    refine visitNodeS h _ _ _ (fun st => ?_) st rfl
    exact (visitDirectivesS h dirs st).append
      (visitNodeS h (.selectionSet ssid sels) _ _ (fun st => visitSelsS h sels st) _ rfl)
  | ts a b =>
    simp only [visitDef, defNodes]
    exact visitNodeS h _ id [] (fun st => PostS.nil st) st rfl

/-- **a silent run never skips, so it visits every node**: the error count is unchanged over the definitions
    exactly when every node below the document is fine -/
theorem visitDefsS (h : SCF c bad f g) (ds : List Def) (st : St) :
    PostS bad f g (ds.flatMap defNodes) st (ds.foldl (fun st x => visitDef c x st) st) :=
  foldlS (visitDef c) defNodes (visitDefS h) ds st

end PyGql.Validate

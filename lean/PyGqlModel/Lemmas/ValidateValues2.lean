/-
  `ValuesOfCorrectTypeChecker`, part 2: positions whose input type is unknown are "dead" (nothing below them can be
  reported); the `CTXQ` instance; the stacks of `TypeInfoVisitor` projected to the static input context `Spec.IView`.
-/
import PyGqlModel.Lemmas.ValidateValues
import PyGqlModel.Lemmas.ValidateVarsWalk
import PyGqlModel.Lemmas.ValidateCtxMap
namespace PyGql.Validate
open PyGql PyGql.Validate.Spec

/-- the node is fine in the context `t` -/
def okT (s : SchemaD) (fx : Fixes) (p : Node × TI) : Prop :=
  (vocBad s p.1 p.2 = true → vocS s p.1 p.2 = 0) ∧ (vocBad s p.1 p.2 = false → vocF s fx p.1 p.2 = 0)

theorem scalarErrs_dead (s : SchemaD) (t : TI) (v : Value) (h : t.inputType = none) : scalarErrs s t v = 0 := by
  simp [scalarErrs, checkScalar, h]

theorem inputType_list (s : SchemaD) (vs : List Value) (t : TI) :
    (tiEnter s (.value (.list vs)) t).inputType = TI.inOnly s (t.inputType.map TI.itemOf) := by
  simp [tiEnter, TI.enterListValue, TI.inputType, peek_cons]

theorem peek_cons2 {α} (a : Option α) (l : List (Option α)) : TI.peek (a :: l) 2 = TI.peek l 1 := by
  simp [TI.peek]

theorem dead_objField (s : SchemaD) (fx : Fixes) (name : String) (t : TI) (h : t.inputType = none) :
    (tiEnter s (.objField name) t).inputType = none ∧ (tiEnter s (.objField name) t).parentInputType s fx = none := by
  have h' : TI.peek t.inputStack = none := h
  simp only [tiEnter, TI.enterObjectField, h, Option.map_none, TI.inputType, TI.parentInputType, peek_cons, peek_cons2, h']
  exact ⟨trivial, trivial⟩

mutual
theorem deadValue (s : SchemaD) (fx : Fixes) : ∀ (v : Value) (t : TI), t.inputType = none →
    ∀ p ∈ gnValue (tiEnter s) t v, okT s fx p
  | .list vs, t, h, p, hp => by
    rw [gnValue, List.mem_cons] at hp
    rcases hp with rfl | hp
    · exact ⟨fun hb => by simp [vocBad] at hb, fun _ => rfl⟩
    · exact deadValues s fx vs _ (by rw [inputType_list, h]; rfl) p hp
  | .obj fs, t, h, p, hp => by
    rw [gnValue, List.mem_cons] at hp
    rcases hp with rfl | hp
    · exact ⟨fun _ => scalarErrs_dead s _ _ h, fun _ => by simp [vocF, tiEnter, h]⟩
    · exact deadObjFields s fx fs _ h p hp
  | .var a, t, h, p, hp => by
    simp only [gnValue, List.mem_singleton] at hp; subst hp
    exact ⟨fun hb => by simp [vocBad] at hb, fun _ => rfl⟩
  | .int a, t, h, p, hp => by
    simp only [gnValue, List.mem_singleton] at hp; subst hp
    exact ⟨fun hb => by simp [vocBad] at hb, fun _ => scalarErrs_dead s _ _ h⟩
  | .float a, t, h, p, hp => by
    simp only [gnValue, List.mem_singleton] at hp; subst hp
    exact ⟨fun hb => by simp [vocBad] at hb, fun _ => scalarErrs_dead s _ _ h⟩
  | .str a, t, h, p, hp => by
    simp only [gnValue, List.mem_singleton] at hp; subst hp
    exact ⟨fun hb => by simp [vocBad] at hb, fun _ => scalarErrs_dead s _ _ h⟩
  | .bool a, t, h, p, hp => by
    simp only [gnValue, List.mem_singleton] at hp; subst hp
    exact ⟨fun hb => by simp [vocBad] at hb, fun _ => scalarErrs_dead s _ _ h⟩
  | .null, t, h, p, hp => by
    simp only [gnValue, List.mem_singleton] at hp; subst hp
    exact ⟨fun hb => by simp [vocBad] at hb, fun _ => by simp [vocF, tiEnter, h]⟩
  | .enum a, t, h, p, hp => by
    simp only [gnValue, List.mem_singleton] at hp; subst hp
    exact ⟨fun hb => by simp [vocBad] at hb, fun _ => by simp [vocF, tiEnter, h]⟩
theorem deadValues (s : SchemaD) (fx : Fixes) : ∀ (vs : List Value) (t : TI), t.inputType = none →
    ∀ p ∈ gnValues (tiEnter s) t vs, okT s fx p
  | [], _, _, p, hp => by rw [gnValues] at hp; cases hp
  | v :: vs, t, h, p, hp => by
    rw [gnValues, List.mem_append] at hp
    rcases hp with hp | hp
    · exact deadValue s fx v t h p hp
    · exact deadValues s fx vs t h p hp
theorem deadObjField (s : SchemaD) (fx : Fixes) : ∀ (f : ObjField) (t : TI), t.inputType = none →
    ∀ p ∈ gnObjField (tiEnter s) t f, okT s fx p
  | .mk n v, t, h, p, hp => by
    obtain ⟨d1, d2⟩ := dead_objField s fx n t h
    rw [gnObjField, List.mem_cons] at hp
    rcases hp with rfl | hp
    · exact ⟨fun hb => by simp [vocBad] at hb, fun _ => by simp only [vocF, d1, d2]⟩
    · exact deadValue s fx v _ d1 p hp
theorem deadObjFields (s : SchemaD) (fx : Fixes) : ∀ (fs : List ObjField) (t : TI), t.inputType = none →
    ∀ p ∈ gnObjFields (tiEnter s) t fs, okT s fx p
  | [], _, _, p, hp => by rw [gnObjFields] at hp; cases hp
  | f :: fs, t, h, p, hp => by
    rw [gnObjFields, List.mem_append] at hp
    rcases hp with hp | hp
    · exact deadObjField s fx f t h p hp
    · exact deadObjFields s fx fs t h p hp
end

/-- a position whose input type, if known, is not an input object: the fields of an object literal standing there
    have no type (since /repo a2b8a10 an object literal at a CUSTOM SCALAR position is accepted: it skips without an
    error at a position of KNOWN type) -/
def DeadPos (s : SchemaD) (t : TI) : Prop := ∀ it, t.inputType = some it → isInputObject s it.base = false

theorem dead_objField_np (s : SchemaD) (fx : Fixes) (name : String) (t : TI) (h : DeadPos s t) :
    (tiEnter s (.objField name) t).inputType = none ∧ (tiEnter s (.objField name) t).parentInputType s fx = none := by
  cases hit : t.inputType with
  | none => exact dead_objField s fx name t hit
  | some it =>
    have hb := h it hit
    have h' : TI.peek t.inputStack = some it := hit
    have e : tiEnter s (.objField name) t = { t with ivdStack := none :: t.ivdStack, inputStack := none :: t.inputStack } := by
      simp only [tiEnter, TI.enterObjectField, hit, Option.map_some, hb, Bool.false_eq_true, ↓reduceIte]
    rw [e]
    constructor
    · simp [TI.inputType, peek_cons]
    · simp only [TI.parentInputType, peek_cons2, h']
      cases it <;> simp_all [Ty.base]

theorem deadObjFields_np (s : SchemaD) (fx : Fixes) : ∀ (fs : List ObjField) (t : TI), DeadPos s t →
    ∀ p ∈ gnObjFields (tiEnter s) t fs, okT s fx p
  | [], _, _, p, hp => by rw [gnObjFields] at hp; cases hp
  | .mk n v :: fs, t, h, p, hp => by
    rw [gnObjFields, List.mem_append] at hp
    rcases hp with hp | hp
    · obtain ⟨d1, d2⟩ := dead_objField_np s fx n t h
      rw [gnObjField, List.mem_cons] at hp
      rcases hp with rfl | hp
      · exact ⟨fun hb => by simp [vocBad] at hb, fun _ => by simp only [vocF, d1, d2]⟩
      · exact deadValue s fx v _ d1 p hp
    · exact deadObjFields_np s fx fs t h p hp

/-- an object literal that raises `SkipNode` stands at a position that is not of input-object type -/
theorem deadPos_of_bad (s : SchemaD) (fs : List ObjField) (t : TI) (hb : vocBad s (.value (.obj fs)) t = true) :
    DeadPos s t := by
  intro it hit
  simp only [vocBad, hit, Option.map_some, Bool.and_eq_true, Bool.not_eq_eq_eq_not, Bool.not_true] at hb
  exact hb.1

private theorem enter_one' (s : SchemaD) (fx : Fixes) (r : Rule) (n : Node) (st : St) :
    enter ⟨s, fx, [r]⟩ n st =
      ({ ti := tiEnter s n st.ti, rs := (enterRule s fx r n (tiEnter s n st.ti) st.rs).1 },
       (enterRule s fx r n (tiEnter s n st.ti) st.rs).2) := by
  simp only [enter, enterRules]
  generalize enterRule s fx r n (tiEnter s n st.ti) st.rs = p
  obtain ⟨a, b⟩ := p
  cases b <;> simp

private theorem leave_one' (s : SchemaD) (fx : Fixes) (r : Rule) (n : Node) (st : St) :
    leave ⟨s, fx, [r]⟩ n st = { ti := tiLeave n st.ti, rs := leaveRule s fx r n st.ti st.rs } := by
  simp only [leave, List.reverse_cons, List.reverse_nil, List.nil_append, List.foldl_cons, List.foldl_nil]

/-- **`ValuesOfCorrectTypeChecker` as a context system over the stacks of `TypeInfoVisitor`** -/
def ctxValues (s : SchemaD) (fx : Fixes) : Q.CTXQ ⟨s, fx, [.valuesOfCorrectType]⟩ TI where
  ctx st := st.ti
  down := tiEnter s
  up := tiLeave
  J t := t.directive = none
  Inv _ := True
  bad := vocBad s
  F := vocF s fx
  G _ _ := 0
  S := vocS s
  restore n x h := tiLeave_tiEnter s n x (fun d e => h (by rw [e]; rfl))
  keepJ n x hn hj := by
    rw [directive_tiEnter s n x (fun d e => by rw [e] at hn; cases hn)]; exact hj
  enter_ctx n st := by rw [enter_one']
  leave_ctx n st := by rw [leave_one']
  enterI _ _ _ _ := trivial
  leaveI _ _ _ _ := trivial
  skipE n st _ _ hb := by
    obtain ⟨h1, h2⟩ := voc_enter s fx n (tiEnter s n st.ti) st.rs
    simp only [hb, ↓reduceIte] at h2
    have hs : (enter ⟨s, fx, [.valuesOfCorrectType]⟩ n st).2 = true := by rw [enter_one']; rw [h1]; exact hb
    refine ⟨hs, ?_⟩
    rw [leaveSkipped_enter_single s fx _ n st hs]
    exact h2
  skipI _ _ _ _ _ := trivial
  skip_ctx n st _ _ hb := by
    have hs : (enter ⟨s, fx, [.valuesOfCorrectType]⟩ n st).2 = true := by
      rw [enter_one']; rw [(voc_enter s fx n (tiEnter s n st.ti) st.rs).1]; exact hb
    rw [leaveSkipped_enter_single s fx _ n st hs]
  noskip n st _ _ hb := by
    rw [enter_one']
    rw [(voc_enter s fx n (tiEnter s n st.ti) st.rs).1]; exact hb
  enterE n st _ _ hb := by
    rw [enter_one']
    have h2 := (voc_enter s fx n (tiEnter s n st.ti) st.rs).2
    simp only [hb, Bool.false_eq_true, ↓reduceIte] at h2
    exact h2
  leaveE n st _ _ := by rw [leave_one', voc_leave]; rfl
  badObj n x hb := by
    cases n with
    | value v => cases v <;> first | rfl | simp [vocBad] at hb
    | _ => simp [vocBad] at hb
  skipCtx n x hb := by
    cases n with
    | value v => cases v <;> first | rfl | simp [vocBad] at hb
    | _ => simp [vocBad] at hb
  quiet fs x hb hs p hp := by
    obtain ⟨a, b⟩ := deadObjFields_np s fx fs x (deadPos_of_bad s fs x hb) p hp
    exact ⟨a, fun h => ⟨b h, rfl⟩⟩

theorem okP_ctxValues (s : SchemaD) (fx : Fixes) (p : Node × TI) : Q.okP (ctxValues s fx) p ↔ okT s fx p := by
  simp [Q.okP, okT, ctxValues]

/-! ### the static input context -/

def TI.iview (t : TI) : IView := { view := t.view, input := t.inputType, outer := TI.peek t.inputStack 2 }

theorem iview_empty : (({} : TI).iview) = ({} : IView) := rfl

theorem iview_enter (s : SchemaD) (n : Node) (t : TI) : (tiEnter s n t).iview = IView.enter s n t.iview := by
  have hv := view_enter s n t
  cases n with
  | varDef v =>
    simp only [TI.iview, IView.enter, hv]
    simp [tiEnter, TI.enterVarDef, TI.inputType, peek_cons, peek_cons2]
  | argument a =>
    have hp := congrArg Usage.inputType (pos_argument s a t)
    simp only [TI.iview, IView.enter, hv]
    have hst : TI.peek (tiEnter s (.argument a) t).inputStack 2 = t.inputType := by
      simp only [tiEnter, TI.enterArgument]
      split <;> simp [peek_cons2, TI.inputType]
    rw [hst]
    exact congrArg (fun i => ({ view := _, input := i, outer := _ } : IView)) hp
  | objField name =>
    have hp := congrArg Usage.inputType (pos_objField s name t)
    simp only [TI.iview, IView.enter, hv]
    have hst : TI.peek (tiEnter s (.objField name) t).inputStack 2 = t.inputType := by
      simp only [tiEnter, TI.enterObjectField]
      split
      · split <;> simp [peek_cons2, TI.inputType]
      · simp [peek_cons2, TI.inputType]
    rw [hst]
    exact congrArg (fun i => ({ view := _, input := i, outer := _ } : IView)) hp
  | value v =>
    cases v with
    | list vs =>
      have hp := congrArg Usage.inputType (pos_list s vs t)
      simp only [TI.iview, IView.enter, hv]
      have hst : TI.peek (tiEnter s (.value (.list vs)) t).inputStack 2 = t.inputType := by
        simp [tiEnter, TI.enterListValue, peek_cons2, TI.inputType]
      rw [hst]
      exact congrArg (fun i => ({ view := _, input := i, outer := _ } : IView)) hp
    | _ => simp only [TI.iview, IView.enter, hv]; rfl
  | inline on dirs =>
    simp only [TI.iview, IView.enter, hv]
    cases on <;> rfl
  | _ =>
    simp only [TI.iview, IView.enter, hv]
    rfl

end PyGql.Validate

/-
  THE TIE between the function the memo theorems are stated about and the chain the driver runs: the validator chain
  with the memoised search inside (`Validate/ChainPar.lean: runM`), run with the overlap rule ALONE, reports exactly
  the errors of `overlapMemoRun` (`Validate/ChainMemo.lean`) - on every document with pairwise distinct selection-set
  identities (where the memoised search never crashes).
-/
import PyGqlModel.Lemmas.ValidateTypedRPar
import PyGqlModel.Lemmas.ValidateOverlapWalk2
import PyGqlModel.Lemmas.ValidateOverlapMemo2
import PyGqlModel.Lemmas.ValidateOverlapSynRank
namespace PyGql.Validate
open PyGql PyGql.Validate.Spec

abbrev ovRule : Rule := .overlappingFieldsCanBeMerged

/-- what `enterRuleM` does to the rule state at a selection set seen under parent type `p` -/
def stepSel (s : SchemaD) (fx : Fixes) (fuel : Nat) (p : Option String) (i : Nat) (sels : List Sel) (rs : RS) : RS :=
  let res := withinSelectionSetM s fx fuel p i sels rs.octx
  let st := { rs with octx := res.2 }
  let st := match res.2.crash with | some e => { st with crash := some e } | none => st
  st.errN ovRule res.1

/-- ... at one node of the typed enumeration -/
def stepRS (s : SchemaD) (fx : Fixes) (fuel : Nat) (q : Node × View) (rs : RS) : RS :=
  match q.1 with
  | .selectionSet i sels => stepSel s fx fuel q.2.parent i sels rs
  | _ => rs

def advance (s : SchemaD) (fx : Fixes) (fuel : Nat) (l : List (Node × View)) (rs : RS) : RS :=
  l.foldl (fun rs q => stepRS s fx fuel q rs) rs

theorem enterRuleM_sel (s : SchemaD) (fx : Fixes) (fuel : Nat) (i : Nat) (sels : List Sel) (ti : TI) (rs : RS) :
    enterRuleM fuel s fx ovRule (.selectionSet i sels) ti rs = (stepSel s fx fuel ti.parentType i sels rs, false) := rfl

theorem enterRuleM_other (s : SchemaD) (fx : Fixes) (fuel : Nat) (n : Node) (ti : TI) (rs : RS) (hn : n.isDoc = false)
    (hs : n.isSelSet = false) : enterRuleM fuel s fx ovRule n ti rs = (rs, false) := by
  cases n with
  | document d => cases hn
  | selectionSet i sels => cases hs
  | _ => rfl

theorem enterPar_ov (s : SchemaD) (fx : Fixes) (fuel : Nat) (n : Node) (st : St) :
    enterPar (enterRuleM fuel) ⟨s, fx, [ovRule]⟩ n st =
      ({ ti := tiEnter s n st.ti, rs := (enterRuleM fuel s fx ovRule n (tiEnter s n st.ti) st.rs).1 },
       (enterRuleM fuel s fx ovRule n (tiEnter s n st.ti) st.rs).2) := by
  simp only [enterPar, enterRulesPar]
  generalize enterRuleM fuel s fx ovRule n (tiEnter s n st.ti) st.rs = p
  obtain ⟨a, b⟩ := p
  cases b <;> simp

theorem leavePar_ov (s : SchemaD) (fx : Fixes) (fuel : Nat) (n : Node) (st : St) :
    leavePar (enterRuleM fuel) ⟨s, fx, [ovRule]⟩ n st = { ti := tiLeave n st.ti, rs := st.rs } := by
  simp only [leavePar, List.reverse_cons, List.reverse_nil, List.nil_append, List.foldl_cons, List.foldl_nil]
  congr 1

theorem visitNodePar_false {er : ER} {c : Cfg} {n : Node} {body : St → St} {st : St} (h : (enterPar er c n st).2 = false) :
    visitNodePar er c n body st = leavePar er c n (body (enterPar er c n st).1) := by
  unfold visitNodePar
  revert h
  generalize enterPar er c n st = p
  obtain ⟨a, b⟩ := p
  intro h; simp only at h; subst h; rfl

/-- the walk below the document: balanced stacks, and the rule state advances by `stepRS` along the typed nodes -/
def OM (s : SchemaD) (fx : Fixes) (fuel : Nat) (l : List (Node × View)) (st st' : St) : Prop :=
  st'.ti = st.ti ∧ st'.rs = advance s fx fuel l st.rs

theorem om_alg (s : SchemaD) (fx : Fixes) (fuel : Nat) :
    TAlgP (enterRuleM fuel) ⟨s, fx, [ovRule]⟩ (OM s fx fuel) where
  ti h := h.1
  nil st := ⟨rfl, rfl⟩
  append h1 h2 := ⟨h2.1.trans h1.1, by rw [h2.2, h1.2]; simp only [advance, List.foldl_append]⟩
  node n body l st hn hd hb := by
    by_cases hs : n.isSelSet = true
    · cases n with
      | selectionSet i sels =>
        have he := enterPar_ov s fx fuel (.selectionSet i sels) st
        rw [enterRuleM_sel] at he
        have hsk : (enterPar (enterRuleM fuel) ⟨s, fx, [ovRule]⟩ (.selectionSet i sels) st).2 = false := by rw [he]
        have hti : (enterPar (enterRuleM fuel) ⟨s, fx, [ovRule]⟩ (.selectionSet i sels) st).1.ti =
            tiEnter s (.selectionSet i sels) st.ti := by rw [he]
        have hrs : (enterPar (enterRuleM fuel) ⟨s, fx, [ovRule]⟩ (.selectionSet i sels) st).1.rs =
            stepSel s fx fuel (tiEnter s (.selectionSet i sels) st.ti).parentType i sels st.rs := by rw [he]
        rw [visitNodePar_false hsk, leavePar_ov]
        obtain ⟨b1, b2⟩ := hb _ hti
        have hpar : (tiEnter s (.selectionSet i sels) st.ti).parentType =
            (View.enter s (.selectionSet i sels) st.ti.view).parent := by rw [← view_enter]; rfl
        refine ⟨?_, ?_⟩
        · simp only
          rw [b1, hti]; exact tiLeave_tiEnter _ _ _ hd
        · simp only
          rw [b2, hrs]
          simp only [advance, List.foldl_cons, stepRS, hpar]
      | _ => cases hs
    · have hs' : n.isSelSet = false := by simpa using hs
      have he := enterPar_ov s fx fuel n st
      rw [enterRuleM_other s fx fuel n _ _ hn hs'] at he
      have hsk : (enterPar (enterRuleM fuel) ⟨s, fx, [ovRule]⟩ n st).2 = false := by rw [he]
      have hti : (enterPar (enterRuleM fuel) ⟨s, fx, [ovRule]⟩ n st).1.ti = tiEnter s n st.ti := by rw [he]
      have hrs : (enterPar (enterRuleM fuel) ⟨s, fx, [ovRule]⟩ n st).1.rs = st.rs := by rw [he]
      rw [visitNodePar_false hsk, leavePar_ov]
      obtain ⟨b1, b2⟩ := hb _ hti
      refine ⟨?_, ?_⟩
      · simp only
        rw [b1, hti]; exact tiLeave_tiEnter _ _ _ hd
      · simp only
        rw [b2, hrs]
        have : stepRS s fx fuel (n, View.enter s n st.ti.view) st.rs = st.rs := by
          cases n <;> first | rfl | cases hs'
        simp only [advance, List.foldl_cons, this]

end PyGql.Validate

/-
  Structure of the context enumeration `gnDoc down x0 d` (Spec/CtxNodes.lean) around ARGUMENT nodes: every listed
  argument node is the child of a listed field node or of a listed directive node that gives it (`a ∈ args`), and
  its context is `down (.argument a)` of the context of that parent. An invariant `Inv` that every node OTHER than a
  directive node carries from parent to child holds at the parent when it is a field node (field nodes are never
  below a directive node).
  (Used by C20: KnownArgumentNames speaks at the field / directive node, the input type of an argument is computed
  at the argument node.)
-/
import PyGqlModel.Spec.CtxNodes
set_option linter.unusedVariables false
set_option linter.unusedSectionVars false
namespace PyGql.Validate.Spec
open PyGql PyGql.Validate

section
variable {X : Type} (down : Node → X → X) (Inv : X → Prop)

/-- `q` is a parent of argument `a` -/
def ArgParent (q : Node × X) (a : Arg) : Prop :=
  (∃ name args dirs hs, q.1 = Node.field name args dirs hs ∧ a ∈ args ∧ Inv q.2) ∨
  (∃ dr x, q.1 = Node.directive dr ∧ q.2 = down (.directive dr) x ∧ a ∈ dr.args)

/-- every argument node of the list has its parent in the list -/
def ArgParL (l : List (Node × X)) : Prop :=
  ∀ p ∈ l, ∀ a, p.1 = Node.argument a → ∃ q ∈ l, p.2 = down (.argument a) q.2 ∧ ArgParent down Inv q a

/-- no argument node in the list -/
def NoArgL (l : List (Node × X)) : Prop := ∀ p ∈ l, ∀ a, p.1 ≠ Node.argument a

theorem ArgParL.nil : ArgParL down Inv ([] : List (Node × X)) := fun _ hp => absurd hp List.not_mem_nil

theorem ArgParL.of_noArg {l : List (Node × X)} (h : NoArgL l) : ArgParL down Inv l :=
  fun p hp a e => absurd e (h p hp a)

theorem ArgParL.append {a b : List (Node × X)} (ha : ArgParL down Inv a) (hb : ArgParL down Inv b) :
    ArgParL down Inv (a ++ b) := by
  intro p hp x e
  rcases List.mem_append.mp hp with h | h
  · obtain ⟨q, hq, r⟩ := ha p h x e; exact ⟨q, List.mem_append_left _ hq, r⟩
  · obtain ⟨q, hq, r⟩ := hb p h x e; exact ⟨q, List.mem_append_right _ hq, r⟩

theorem ArgParL.flatMap {α} (f : α → List (Node × X)) (as : List α) (h : ∀ a ∈ as, ArgParL down Inv (f a)) :
    ArgParL down Inv (as.flatMap f) := by
  induction as with
  | nil => exact ArgParL.nil down Inv
  | cons a as ih =>
    rw [List.flatMap_cons]
    exact ArgParL.append down Inv (h a List.mem_cons_self) (ih fun b hb => h b (List.mem_cons_of_mem _ hb))

theorem ArgParL.cons {n : Node} {c : X} {rest : List (Node × X)} (hn : ∀ a, n ≠ Node.argument a)
    (hr : ArgParL down Inv rest) : ArgParL down Inv ((n, c) :: rest) := by
  intro p hp x e
  rcases List.mem_cons.mp hp with h | h
  · subst h; exact absurd e (hn x)
  · obtain ⟨q, hq, r⟩ := hr p h x e; exact ⟨q, List.mem_cons_of_mem _ hq, r⟩

theorem NoArgL.nil : NoArgL ([] : List (Node × X)) := fun _ hp => absurd hp List.not_mem_nil
theorem NoArgL.append {a b : List (Node × X)} (ha : NoArgL a) (hb : NoArgL b) : NoArgL (a ++ b) := by
  intro p hp
  rcases List.mem_append.mp hp with h | h
  · exact ha p h
  · exact hb p h
theorem NoArgL.cons {n : Node} {c : X} {rest : List (Node × X)} (hn : ∀ a, n ≠ Node.argument a) (hr : NoArgL rest) :
    NoArgL ((n, c) :: rest) := by
  intro p hp
  rcases List.mem_cons.mp hp with h | h
  · subst h; exact hn
  · exact hr p h

mutual
theorem gnValue_noArg : ∀ (v : Value) (x : X), NoArgL (gnValue down x v)
  | .list vs, x => by rw [gnValue]; exact NoArgL.cons (fun _ h => by cases h) (gnValues_noArg vs _)
  | .obj fs, x => by rw [gnValue]; exact NoArgL.cons (fun _ h => by cases h) (gnObjFields_noArg fs _)
  | .var a, x => by rw [gnValue]; exact NoArgL.cons (fun _ h => by cases h) NoArgL.nil
  | .int a, x => by rw [gnValue]; exact NoArgL.cons (fun _ h => by cases h) NoArgL.nil
  | .float a, x => by rw [gnValue]; exact NoArgL.cons (fun _ h => by cases h) NoArgL.nil
  | .str a, x => by rw [gnValue]; exact NoArgL.cons (fun _ h => by cases h) NoArgL.nil
  | .bool a, x => by rw [gnValue]; exact NoArgL.cons (fun _ h => by cases h) NoArgL.nil
  | .null, x => by rw [gnValue]; exact NoArgL.cons (fun _ h => by cases h) NoArgL.nil
  | .enum a, x => by rw [gnValue]; exact NoArgL.cons (fun _ h => by cases h) NoArgL.nil
theorem gnValues_noArg : ∀ (vs : List Value) (x : X), NoArgL (gnValues down x vs)
  | [], x => by rw [gnValues]; exact NoArgL.nil
  | v :: vs, x => by rw [gnValues]; exact NoArgL.append (gnValue_noArg v x) (gnValues_noArg vs x)
theorem gnObjField_noArg : ∀ (f : ObjField) (x : X), NoArgL (gnObjField down x f)
  | .mk n v, x => by rw [gnObjField]; exact NoArgL.cons (fun _ h => by cases h) (gnValue_noArg v _)
theorem gnObjFields_noArg : ∀ (fs : List ObjField) (x : X), NoArgL (gnObjFields down x fs)
  | [], x => by rw [gnObjFields]; exact NoArgL.nil
  | f :: fs, x => by rw [gnObjFields]; exact NoArgL.append (gnObjField_noArg f x) (gnObjFields_noArg fs x)
end

/-- the argument nodes listed for an argument list -/
theorem gnArgs_shape (as : List Arg) (x : X) :
    ∀ p ∈ gnArgs down x as, ∀ a, p.1 = Node.argument a → a ∈ as ∧ p.2 = down (.argument a) x := by
  intro p hp a e
  unfold gnArgs at hp
  obtain ⟨b, hb, hpb⟩ := List.mem_flatMap.mp hp
  rw [gnArg] at hpb
  rcases List.mem_cons.mp hpb with h | h
  · subst h
    have : b = a := by simpa using e
    subst this
    exact ⟨hb, rfl⟩
  · exact absurd e (gnValue_noArg down b.value _ p h a)

/-- a node followed by the nodes of the arguments it gives, then anything in order -/
theorem ArgParL.parent {n : Node} {c : X} {args : List Arg} {rest : List (Node × X)}
    (hn : ∀ a, n ≠ Node.argument a) (hpar : ∀ a ∈ args, ArgParent down Inv (n, c) a)
    (hr : ArgParL down Inv rest) : ArgParL down Inv ((n, c) :: (gnArgs down c args ++ rest)) := by
  intro p hp x e
  rcases List.mem_cons.mp hp with h | h
  · subst h; exact absurd e (hn x)
  · rcases List.mem_append.mp h with h1 | h1
    · obtain ⟨hm, hc⟩ := gnArgs_shape down args c p h1 x e
      exact ⟨(n, c), List.mem_cons_self, hc, hpar x hm⟩
    · obtain ⟨q, hq, r⟩ := hr p h1 x e
      exact ⟨q, List.mem_cons_of_mem _ (List.mem_append_right _ hq), r⟩

theorem gnDirs_argPar (ds : List Dir) (x : X) : ArgParL down Inv (gnDirs down x ds) := by
  unfold gnDirs
  apply ArgParL.flatMap
  intro d _
  rw [gnDir]
  have := ArgParL.parent down Inv (n := .directive d) (c := down (.directive d) x) (args := d.args) (rest := [])
    (fun _ h => by cases h) (fun a ha => Or.inr ⟨d, x, rfl, rfl, ha⟩) (ArgParL.nil down Inv)
  simpa using this

variable (hstep : ∀ n x, Inv x → (∀ dr, n ≠ Node.directive dr) → Inv (down n x))
include hstep

mutual
theorem gnSel_argPar : ∀ (s : Sel) (x : X), Inv x → ArgParL down Inv (gnSel down x s)
  | .field al name args dirs true id sub, x, hx => by
    rw [gnSel]
    simp only [↓reduceIte, List.append_assoc]
    have hc := hstep (.field name args dirs true) x hx (fun _ h => by cases h)
    exact ArgParL.parent down Inv (fun _ h => by cases h) (fun a ha => Or.inl ⟨name, args, dirs, true, rfl, ha, hc⟩)
      (ArgParL.append down Inv (gnDirs_argPar down Inv dirs _)
        (ArgParL.cons down Inv (fun _ h => by cases h)
          (gnSels_argPar sub _ (hstep (.selectionSet id sub) _ hc (fun _ h => by cases h)))))
  | .field al name args dirs false id sub, x, hx => by
    rw [gnSel]
    simp only [Bool.false_eq_true, ↓reduceIte, List.append_assoc]
    have hc := hstep (.field name args dirs false) x hx (fun _ h => by cases h)
    exact ArgParL.parent down Inv (fun _ h => by cases h) (fun a ha => Or.inl ⟨name, args, dirs, false, rfl, ha, hc⟩)
      (ArgParL.append down Inv (gnDirs_argPar down Inv dirs _) (ArgParL.nil down Inv))
  | .spread name dirs, x, hx => by
    rw [gnSel]
    exact ArgParL.cons down Inv (fun _ h => by cases h) (gnDirs_argPar down Inv dirs _)
  | .inline on dirs id sub, x, hx => by
    rw [gnSel]
    have hc := hstep (.inline on dirs) x hx (fun _ h => by cases h)
    exact ArgParL.cons down Inv (fun _ h => by cases h)
      (ArgParL.append down Inv (gnDirs_argPar down Inv dirs _)
        (ArgParL.cons down Inv (fun _ h => by cases h)
          (gnSels_argPar sub _ (hstep (.selectionSet id sub) _ hc (fun _ h => by cases h)))))
theorem gnSels_argPar : ∀ (ss : List Sel) (x : X), Inv x → ArgParL down Inv (gnSels down x ss)
  | [], x, _ => by rw [gnSels]; exact ArgParL.nil down Inv
  | s :: ss, x, hx => by rw [gnSels]; exact ArgParL.append down Inv (gnSel_argPar s x hx) (gnSels_argPar ss x hx)
end

theorem gnVarDef_argPar (v : VarDef) (x : X) : ArgParL down Inv (gnVarDef down x v) := by
  rw [gnVarDef]
  refine ArgParL.cons down Inv (fun _ h => by cases h) (ArgParL.append down Inv ?_ ?_)
  · cases v.default with
    | none => exact ArgParL.nil down Inv
    | some dv => exact ArgParL.of_noArg down Inv (gnValue_noArg down dv _)
  · exact ArgParL.cons down Inv (fun _ h => by cases h) (gnDirs_argPar down Inv v.dirs _)

theorem gnDef_argPar (d : Def) (x : X) (hx : Inv x) : ArgParL down Inv (gnDef down x d) := by
  cases d with
  | op kind name vars dirs id sels =>
    rw [gnDef]
    have hc := hstep (.operation kind name vars dirs sels) x hx (fun _ h => by cases h)
    exact ArgParL.cons down Inv (fun _ h => by cases h)
      (ArgParL.append down Inv
        (ArgParL.append down Inv (ArgParL.flatMap down Inv _ vars fun v _ => gnVarDef_argPar down Inv hstep v _)
          (gnDirs_argPar down Inv dirs _))
        (ArgParL.cons down Inv (fun _ h => by cases h)
          (gnSels_argPar down Inv hstep sels _ (hstep (.selectionSet id sels) _ hc (fun _ h => by cases h)))))
  | frag name on dirs id sels =>
    rw [gnDef]
    have hc := hstep (.fragmentDef name on dirs) x hx (fun _ h => by cases h)
    exact ArgParL.cons down Inv (fun _ h => by cases h)
      (ArgParL.append down Inv (gnDirs_argPar down Inv dirs _)
        (ArgParL.cons down Inv (fun _ h => by cases h)
          (gnSels_argPar down Inv hstep sels _ (hstep (.selectionSet id sels) _ hc (fun _ h => by cases h)))))
  | ts a b =>
    rw [gnDef]
    exact ArgParL.cons down Inv (fun _ h => by cases h) (ArgParL.nil down Inv)

/-- **every argument node has its parent in the enumeration** -/
theorem gnDoc_argPar (d : Doc) (x0 : X) (h0 : Inv x0) : ArgParL down Inv (gnDoc down x0 d) :=
  ArgParL.flatMap down Inv _ d.defs fun df _ => gnDef_argPar down Inv hstep df x0 h0

end

/-! ### the nodes of an argument's value are listed with it -/

section
variable {X : Type} (down : Node → X → X)

/-- every argument node of the list has the nodes of its value in the list -/
def ArgKidsL (l : List (Node × X)) : Prop :=
  ∀ p ∈ l, ∀ a, p.1 = Node.argument a → ∀ q ∈ gnValue down p.2 a.value, q ∈ l

theorem ArgKidsL.nil : ArgKidsL down ([] : List (Node × X)) := fun _ hp => absurd hp List.not_mem_nil

theorem ArgKidsL.of_noArg {l : List (Node × X)} (h : NoArgL l) : ArgKidsL down l :=
  fun p hp a e => absurd e (h p hp a)

theorem ArgKidsL.append {a b : List (Node × X)} (ha : ArgKidsL down a) (hb : ArgKidsL down b) :
    ArgKidsL down (a ++ b) := by
  intro p hp x e q hq
  rcases List.mem_append.mp hp with h | h
  · exact List.mem_append_left _ (ha p h x e q hq)
  · exact List.mem_append_right _ (hb p h x e q hq)

theorem ArgKidsL.flatMap {α} (f : α → List (Node × X)) (as : List α) (h : ∀ a ∈ as, ArgKidsL down (f a)) :
    ArgKidsL down (as.flatMap f) := by
  induction as with
  | nil => exact ArgKidsL.nil down
  | cons a as ih =>
    rw [List.flatMap_cons]
    exact ArgKidsL.append down (h a List.mem_cons_self) (ih fun b hb => h b (List.mem_cons_of_mem _ hb))

theorem ArgKidsL.cons {n : Node} {c : X} {rest : List (Node × X)} (hn : ∀ a, n ≠ Node.argument a)
    (hr : ArgKidsL down rest) : ArgKidsL down ((n, c) :: rest) := by
  intro p hp x e q hq
  rcases List.mem_cons.mp hp with h | h
  · subst h; exact absurd e (hn x)
  · exact List.mem_cons_of_mem _ (hr p h x e q hq)

theorem gnArgs_kids (as : List Arg) (x : X) : ArgKidsL down (gnArgs down x as) := by
  unfold gnArgs
  apply ArgKidsL.flatMap
  intro b _ p hp a e q hq
  rw [gnArg] at hp ⊢
  rcases List.mem_cons.mp hp with h | h
  · subst h
    have : b = a := by simpa using e
    subst this
    exact List.mem_cons_of_mem _ hq
  · exact absurd e (gnValue_noArg down b.value _ p h a)

theorem gnDirs_kids (ds : List Dir) (x : X) : ArgKidsL down (gnDirs down x ds) := by
  unfold gnDirs
  apply ArgKidsL.flatMap
  intro d _
  rw [gnDir]
  exact ArgKidsL.cons down (fun _ h => by cases h) (gnArgs_kids down d.args _)

mutual
theorem gnSel_kids : ∀ (s : Sel) (x : X), ArgKidsL down (gnSel down x s)
  | .field al name args dirs true id sub, x => by
    rw [gnSel]
    simp only [↓reduceIte]
    exact ArgKidsL.cons down (fun _ h => by cases h)
      (ArgKidsL.append down (ArgKidsL.append down (gnArgs_kids down args _) (gnDirs_kids down dirs _))
        (ArgKidsL.cons down (fun _ h => by cases h) (gnSels_kids sub _)))
  | .field al name args dirs false id sub, x => by
    rw [gnSel]
    simp only [Bool.false_eq_true, ↓reduceIte]
    exact ArgKidsL.cons down (fun _ h => by cases h)
      (ArgKidsL.append down (ArgKidsL.append down (gnArgs_kids down args _) (gnDirs_kids down dirs _))
        (ArgKidsL.nil down))
  | .spread name dirs, x => by
    rw [gnSel]
    exact ArgKidsL.cons down (fun _ h => by cases h) (gnDirs_kids down dirs _)
  | .inline on dirs id sub, x => by
    rw [gnSel]
    exact ArgKidsL.cons down (fun _ h => by cases h)
      (ArgKidsL.append down (gnDirs_kids down dirs _)
        (ArgKidsL.cons down (fun _ h => by cases h) (gnSels_kids sub _)))
theorem gnSels_kids : ∀ (ss : List Sel) (x : X), ArgKidsL down (gnSels down x ss)
  | [], x => by rw [gnSels]; exact ArgKidsL.nil down
  | s :: ss, x => by rw [gnSels]; exact ArgKidsL.append down (gnSel_kids s x) (gnSels_kids ss x)
end

theorem gnVarDef_kids (v : VarDef) (x : X) : ArgKidsL down (gnVarDef down x v) := by
  rw [gnVarDef]
  refine ArgKidsL.cons down (fun _ h => by cases h) (ArgKidsL.append down ?_ ?_)
  · cases v.default with
    | none => exact ArgKidsL.nil down
    | some dv => exact ArgKidsL.of_noArg down (gnValue_noArg down dv _)
  · exact ArgKidsL.cons down (fun _ h => by cases h) (gnDirs_kids down v.dirs _)

theorem gnDef_kids (d : Def) (x : X) : ArgKidsL down (gnDef down x d) := by
  cases d with
  | op kind name vars dirs id sels =>
    rw [gnDef]
    exact ArgKidsL.cons down (fun _ h => by cases h)
      (ArgKidsL.append down
        (ArgKidsL.append down (ArgKidsL.flatMap down _ vars fun v _ => gnVarDef_kids down v _) (gnDirs_kids down dirs _))
        (ArgKidsL.cons down (fun _ h => by cases h) (gnSels_kids down sels _)))
  | frag name on dirs id sels =>
    rw [gnDef]
    exact ArgKidsL.cons down (fun _ h => by cases h)
      (ArgKidsL.append down (gnDirs_kids down dirs _)
        (ArgKidsL.cons down (fun _ h => by cases h) (gnSels_kids down sels _)))
  | ts a b =>
    rw [gnDef]
    exact ArgKidsL.cons down (fun _ h => by cases h) (ArgKidsL.nil down)

/-- **the nodes of the value of every listed argument are listed** -/
theorem gnDoc_kids (d : Doc) (x0 : X) : ArgKidsL down (gnDoc down x0 d) :=
  ArgKidsL.flatMap down _ d.defs fun df _ => gnDef_kids down df x0

end
end PyGql.Validate.Spec

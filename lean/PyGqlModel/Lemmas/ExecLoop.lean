/-
  C09 — helper lemmas for `Props/C09_loop.lean`: nodes without a `serialCb` continuation (`SFree`) behave the same under
  `applyCont` (recursive `_next`) and `Loop.applyContL` (loop `_next`), and everything the executor builds below the
  serial spine is `SFree`.
-/
import PyGqlModel.AsyncExecLoop

set_option linter.unusedVariables false
set_option linter.unusedSimpArgs false

namespace PyGql.AsyncExec
open Loop

def sfreeK : Cont → Bool
  | .serialCb _ _ _ _ => false
  | _ => true

mutual
def SFree : Node → Bool
  | .val _ => true
  | .done r => SFree r
  | .failed _ => true
  | .task _ _ _ _ => true
  | .chain src k => SFree src && sfreeK k
  | .unwrap src => SFree src
  | .gather slots _ _ => SFrees slots
def SFrees : Nodes → Bool
  | .nil => true
  | .cons n ns => SFree n && SFrees ns
end

def ResSFree : Res Node → Bool
  | .ok n => SFree n
  | .exc _ => true

def ResSFrees : Res Nodes → Bool
  | .ok ns => SFrees ns
  | .exc _ => true

theorem applyContL_eq (k : Cont) (hk : sfreeK k = true) (r : Res Val) (s : ExecSt) : applyContL k r s = applyCont k r s := by
  cases k <;> first | rfl | simp [sfreeK] at hk

theorem chainOnFinish_congr (src : Node) (k : Cont) (hk : sfreeK k = true) (s : ExecSt) :
    chainOnFinish applyContL src k s = chainOnFinish applyCont src k s := by
  unfold chainOnFinish
  cases src <;> simp only [applyContL_eq k hk]

theorem mapValue_congr (src : Node) (k : Cont) (hk : sfreeK k = true) (s : ExecSt) :
    mapValue applyContL src k s = mapValue applyCont src k s := by
  unfold mapValue
  cases src <;> simp only [applyContL_eq k hk, chainOnFinish_congr _ k hk]

mutual
theorem deliver_congr : ∀ (n : Node) (t : Nat) (s : ExecSt), SFree n = true →
    deliver applyContL t n s = deliver applyCont t n s
  | .val x, t, s, _ => by simp [deliver]
  | .done r, t, s, _ => by simp [deliver]
  | .failed x, t, s, _ => by simp [deliver]
  | .task id path nested out, t, s, _ => by simp [deliver]
  | .chain src k, t, s, h => by
    simp only [SFree, Bool.and_eq_true] at h
    simp only [deliver, deliver_congr src t s h.1, chainOnFinish_congr _ k h.2]
  | .unwrap src, t, s, h => by
    simp only [SFree] at h
    simp only [deliver, deliver_congr src t s h]
  | .gather slots done target, t, s, h => by
    simp only [SFree] at h
    simp only [deliver, deliverSlots_congr slots t s h]
theorem deliverSlots_congr : ∀ (ns : Nodes) (t : Nat) (s : ExecSt), SFrees ns = true →
    deliverSlots applyContL t ns s = deliverSlots applyCont t ns s
  | .nil, t, s, _ => by simp [deliverSlots]
  | .cons n ns, t, s, h => by
    simp only [SFrees, Bool.and_eq_true] at h
    simp only [deliverSlots, deliver_congr n t s h.1]
    cases hd : deliver applyCont t n s with
    | mk n' s1 => simp only [deliverSlots_congr ns t s1 h.2]
end


/-! ### everything below the serial spine is `SFree` -/

theorem unwrapCb_sfree : ∀ n : Node, SFree n = true → SFree (unwrapCb n) = true
  | .val x, _ => by simp [unwrapCb, SFree]
  | .failed e, _ => by simp [unwrapCb, SFree]
  | .done (.val x), _ => by simp [unwrapCb, SFree]
  | .done (.done r), h => by
    have := unwrapCb_sfree (.done r) (by simpa [SFree] using h)
    simpa [unwrapCb] using this
  | .done (.failed e), _ => by simp [unwrapCb, SFree]
  | .done (.task a b c d), h => by simp [unwrapCb, SFree]
  | .done (.chain a b), h => by simpa [unwrapCb, SFree] using h
  | .done (.unwrap a), h => by simpa [unwrapCb, SFree] using h
  | .done (.gather a b c), h => by simpa [unwrapCb, SFree] using h
  | .task a b c d, _ => by simp [unwrapCb, SFree]
  | .chain a b, h => by simpa [unwrapCb, SFree] using h
  | .unwrap a, h => by simpa [unwrapCb, SFree] using h
  | .gather a b c, h => by simpa [unwrapCb, SFree] using h

theorem unwrapValue_sfree (n : Node) (h : SFree n = true) : SFree (unwrapValue n) = true := by
  cases n with
  | val x => simp [unwrapValue, SFree]
  | _ => simp only [unwrapValue]; exact unwrapCb_sfree _ h

theorem gatherFire_sfree (done target : Nat) (d : Except Exc Node) (slots : Nodes) (d' : Nat) (outer : Node)
    (h : gatherFire done target d slots = (d', some outer)) : SFree outer = true := by
  unfold gatherFire at h
  split at h <;> simp at h
  · rw [← h.2]; simp [SFree]
  · rw [← h.2]; simp [SFree]

theorem gatherFires_sfree (target : Nat) (slots : Nodes) : ∀ (fired : List (Except Exc Node)) (done d' : Nat) (outer : Node),
    gatherFires done target slots fired = (d', some outer) → SFree outer = true
  | [], done, d', outer, h => by simp [gatherFires] at h
  | d :: rest, done, d', outer, h => by
    simp only [gatherFires] at h
    cases hf : gatherFire done target d slots with
    | mk dn o =>
      rw [hf] at h
      cases o with
      | some out =>
        simp at h
        rw [← h.2]; exact gatherFire_sfree _ _ _ _ _ _ hf
      | none => exact gatherFires_sfree target slots rest dn d' outer h

theorem gatherValues_sfree (source : Nodes) (h : SFrees source = true) : SFree (gatherValues source) = true := by
  unfold gatherValues
  simp only
  split
  · simp [SFree]
  · split
    · simp [SFree]
    · split
      · rename_i heq; exact gatherFires_sfree _ _ _ _ _ _ heq
      · simp [SFree, h]

/-- the callback's result is `SFree` -/
def ApSFree (ap : ApplyCont) (k : Cont) : Prop := ∀ r s, ResSFree (ap k r s).1 = true

theorem chainOnFinish_sfree (ap : ApplyCont) (k : Cont) (hap : ApSFree ap k) (hk : sfreeK k = true) (src : Node) (s : ExecSt)
    (h : SFree src = true) : SFree (chainOnFinish ap src k s).1 = true := by
  unfold chainOnFinish
  cases src with
  | failed e =>
    have := hap (.exc e) s
    cases hr : ap k (.exc e) s with
    | mk r s' => rw [hr] at this; cases r <;> simp_all [ResSFree, SFree]
  | done r0 =>
    have := hap (.ok r0.plain) s
    cases hr : ap k (.ok r0.plain) s with
    | mk r s' => rw [hr] at this; cases r <;> simp_all [ResSFree, SFree]
  | val x => simp_all [SFree]
  | task a b c d => simp_all [SFree]
  | chain a b => simp_all [SFree]
  | unwrap a => simp_all [SFree]
  | gather a b c => simp_all [SFree]

theorem mapValue_sfree (ap : ApplyCont) (k : Cont) (hap : ApSFree ap k) (hk : sfreeK k = true) (src : Node) (s : ExecSt)
    (h : SFree src = true) : ResSFree (mapValue ap src k s).1 = true := by
  unfold mapValue
  cases src with
  | val x => exact hap (.ok x) s
  | _ =>
    simp only
    split
    · simp only [ResSFree]; exact chainOnFinish_sfree ap k hap hk _ s h
    · simp_all [ResSFree, SFree]

theorem applySimple_sfree (k : Cont) : ApSFree applySimple k := by
  intro r s
  cases k <;> cases r <;> simp [applySimple, ResSFree, SFree]


theorem failField_sfree (path : Path) (s : ExecSt) : SFree (failField path s).1 = true := by simp [failField, SFree]

mutual
theorem completeValue_sfree : ∀ (c : Comp) (path : Path) (s : ExecSt), ResSFree (completeValue path c s).1 = true
  | .null, path, s => by simp [completeValue, ResSFree, SFree]
  | .leaf v, path, s => by simp [completeValue, ResSFree, SFree]
  | .bad, path, s => by simp [completeValue, ResSFree]
  | .nonNull c, path, s => by
    have ih := completeValue_sfree c path s
    simp only [completeValue]
    cases hr : completeValue path c s with
    | mk r s1 =>
      rw [hr] at ih
      cases r with
      | exc e => simp [ResSFree]
      | ok n => exact mapValue_sfree applySimple _ (applySimple_sfree _) rfl n s1 (by simpa [ResSFree] using ih)
  | .list items, path, s => by
    have ih := completeItems_sfree items path 0 s
    simp only [completeValue]
    cases hr : completeItems path 0 items s with
    | mk r s1 =>
      rw [hr] at ih
      cases r with
      | exc e => simp [ResSFree]
      | ok ns => simp only [ResSFree]; exact gatherValues_sfree ns (by simpa [ResSFrees] using ih)
  | .obj fields, path, s => by
    have ih := resolveFields_sfree fields path s
    simp only [completeValue]
    cases hr : resolveFields path fields s with
    | mk r s1 =>
      rw [hr] at ih
      cases r with
      | exc e => simp [ResSFree]
      | ok ns =>
        exact mapValue_sfree applySimple _ (applySimple_sfree _) rfl _ s1 (gatherValues_sfree ns (by simpa [ResSFrees] using ih))
theorem completeItems_sfree : ∀ (cs : Comps) (path : Path) (i : Nat) (s : ExecSt), ResSFrees (completeItems path i cs s).1 = true
  | .nil, path, i, s => by simp [completeItems, ResSFrees, SFrees]
  | .cons c cs, path, i, s => by
    have ih1 := completeValue_sfree c (path ++ [.idx i]) s
    simp only [completeItems]
    cases hr : completeValue (path ++ [.idx i]) c s with
    | mk r s1 =>
      rw [hr] at ih1
      cases r with
      | exc e => simp [ResSFrees]
      | ok n =>
        have ih2 := completeItems_sfree cs path (i + 1) s1
        cases hr2 : completeItems path (i + 1) cs s1 with
        | mk r2 s2 =>
          rw [hr2] at ih2
          cases r2 with
          | exc e => simp [ResSFrees, hr2]
          | ok ns => simp_all [ResSFrees, ResSFree, SFrees]
theorem resolveFields_sfree : ∀ (fs : Flds) (path : Path) (s : ExecSt), ResSFrees (resolveFields path fs s).1 = true
  | .nil, path, s => by simp [resolveFields, ResSFrees, SFrees]
  | .cons key mode out rest, path, s => by
    have ih1 := resolveField_sfree out (path ++ [.key key]) mode s
    simp only [resolveFields]
    cases hr : resolveField (path ++ [.key key]) mode out s with
    | mk r s1 =>
      rw [hr] at ih1
      cases r with
      | exc e => simp [ResSFrees]
      | ok n =>
        have ih2 := resolveFields_sfree rest path s1
        cases hr2 : resolveFields path rest s1 with
        | mk r2 s2 =>
          rw [hr2] at ih2
          cases r2 with
          | exc e => simp [ResSFrees, hr2]
          | ok ns => simp_all [ResSFrees, ResSFree, SFrees]
theorem resolveField_sfree : ∀ (out : ROut) (path : Path) (mode : Mode) (s : ExecSt), ResSFree (resolveField path mode out s).1 = true
  | .rerr, path, mode, s => by
    cases mode <;> simp [resolveField, ResSFree, SFree, failField, sfreeK, ExecSt.submit, unwrapCb]
  | .exc, path, mode, s => by
    cases mode <;> simp [resolveField, ResSFree, SFree, sfreeK, ExecSt.submit]
  | .ok c, path, mode, s => by
    cases mode with
    | deferred => simp [resolveField, ResSFree, SFree, sfreeK, ExecSt.submit]
    | nested => simp [resolveField, ResSFree, SFree, sfreeK, ExecSt.submit]
    | sync =>
      have ih := completeValue_sfree c path ((s.emit (.call path)).emit (.done path))
      simp only [resolveField]
      cases hr : completeValue path c ((s.emit (.call path)).emit (.done path)) with
      | mk r s1 =>
        rw [hr] at ih
        cases r with
        | exc e => cases e <;> simp [ResSFree, failField, SFree]
        | ok n => simp only [ResSFree] at ih ⊢; exact unwrapValue_sfree n ih
    | ready =>
      have ih := completeValue_sfree c path ((s.emit (.call path)).emit (.done path))
      simp only [resolveField]
      cases hr : completeValue path c ((s.emit (.call path)).emit (.done path)) with
      | mk r s1 =>
        rw [hr] at ih
        cases r with
        | exc e => cases e <;> simp [ResSFree, failField, SFree, unwrapCb]
        | ok n => simp only [ResSFree] at ih ⊢; exact unwrapCb_sfree (.done n) (by simpa [SFree] using ih)
end

theorem applyCont_sfree (k : Cont) (hk : sfreeK k = true) : ApSFree applyCont k := by
  intro r s
  cases k with
  | serialCb a b c d => simp [sfreeK] at hk
  | complete path =>
    cases r with
    | exc e => cases e <;> simp [applyCont, applySimple, ResSFree, failField, SFree]
    | ok x =>
      cases x with
      | raw c =>
        have := completeValue_sfree c path s
        simp only [applyCont]
        cases hr : completeValue path c s with
        | mk r s1 =>
          rw [hr] at this
          cases r with
          | exc e => cases e <;> simp [ResSFree, failField, SFree]
          | ok n => simpa [ResSFree] using this
      | data v => simp [applyCont, applySimple, ResSFree, SFree]
      | junk => simp [applyCont, applySimple, ResSFree, SFree]
  | collect keys => exact applySimple_sfree _ r s
  | nonNull path => exact applySimple_sfree _ r s
  | onFinish => exact applySimple_sfree _ r s


theorem finishTask_sfree (path : Path) (nested : Bool) (out : ROut) (s : ExecSt) : SFree (finishTask path nested out s).1 = true := by
  unfold finishTask
  cases nested <;> cases out <;> simp [SFree, ExecSt.submit]

mutual
theorem deliver_sfree : ∀ (n : Node) (t : Nat) (s : ExecSt), SFree n = true → SFree (deliver applyCont t n s).1 = true
  | .val x, t, s, _ => by simp [deliver, SFree]
  | .done r, t, s, h => by simpa [deliver] using h
  | .failed x, t, s, _ => by simp [deliver, SFree]
  | .task id path nested out, t, s, _ => by
    simp only [deliver]
    split
    · exact finishTask_sfree _ _ _ _
    · simp [SFree]
  | .chain src k, t, s, h => by
    simp only [SFree, Bool.and_eq_true] at h
    have ih := deliver_sfree src t s h.1
    simp only [deliver]
    cases hd : deliver applyCont t src s with
    | mk src' s1 =>
      rw [hd] at ih
      exact chainOnFinish_sfree applyCont k (applyCont_sfree k h.2) h.2 src' s1 ih
  | .unwrap src, t, s, h => by
    simp only [SFree] at h
    have ih := deliver_sfree src t s h
    simp only [deliver]
    cases hd : deliver applyCont t src s with
    | mk src' s1 => rw [hd] at ih; exact unwrapCb_sfree src' ih
  | .gather slots done target, t, s, h => by
    simp only [SFree] at h
    have ih := deliverSlots_sfree slots t s h
    simp only [deliver]
    cases hd : deliverSlots applyCont t slots s with
    | mk slots' rest =>
      cases rest with
      | mk fired s1 =>
        rw [hd] at ih
        simp only
        cases hgf : gatherFires done target slots' fired with
        | mk d o =>
          cases o with
          | some outer => exact gatherFires_sfree _ _ _ _ _ _ hgf
          | none => simpa [SFree] using ih
theorem deliverSlots_sfree : ∀ (ns : Nodes) (t : Nat) (s : ExecSt), SFrees ns = true →
    SFrees (deliverSlots applyCont t ns s).1 = true
  | .nil, t, s, _ => by simp [deliverSlots, SFrees]
  | .cons n ns, t, s, h => by
    simp only [SFrees, Bool.and_eq_true] at h
    have ih1 := deliver_sfree n t s h.1
    simp only [deliverSlots]
    cases hd : deliver applyCont t n s with
    | mk n' s1 =>
      rw [hd] at ih1
      have ih2 := deliverSlots_sfree ns t s1 h.2
      cases hd2 : deliverSlots applyCont t ns s1 with
      | mk ns' rest =>
        cases rest with
        | mk fired s2 =>
          rw [hd2] at ih2
          simp_all [SFrees]
end

end PyGql.AsyncExec
